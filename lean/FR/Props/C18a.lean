import FR.Proofs.C18aUnique
import FR.Props.C03
import FR.Props.C18f
/-!
# C18a — the soft-float arithmetic IS IEEE-754 binary64 round-to-nearest-even arithmetic

Vocabulary (definitions in `FR/Proofs/C18aArith.lean`; none of them is used by the model):
* `Dbl.WF d` — the canonical representation: for `fin neg m e`: `m < 2^53`, `-1074 ≤ e ≤ 971`, `2^52 ≤ m ∨ e = -1074`,
  `m = 0 → e = -1074`; the infinities and the NaN are well-formed (decidable; `wf_iff_codec`: exactly the doubles that
  survive `ofBits ∘ toBits`);
* `Dbl.val d : ℚ` — `(-1)^neg · m · 2^e` for `fin neg m e` (0 otherwise), `Dbl.toRat d : Option ℚ` — `some (val d)` for a
  finite double, `none` for `±inf` / NaN; `Dbl.signBit`;
* `Dbl.RN z q : Dbl` — THE ROUNDING SPECIFICATION: `q = 0 ↦ ` the zero with sign bit `z`; otherwise `roundAbs (q < 0) q`, the
  function proved in C18f to be what decimal parsing computes.  §2a says what it means without reference to `roundPos`:
  canonical, never NaN, sign of `q`, infinite iff `|q| ≥ 2^1024 − 2^970`, otherwise a double NEAREST to `q` among all
  canonical doubles, within half an ulp, ties to the even significand, zero iff `|q| ≤ 2^-1075`, identity on the values
  of canonical doubles, monotone.

Contents (every statement is for ALL inputs satisfying the stated decidable hypotheses):
* §1 `WF` is preserved by everything (`roundPos_wf`, `add_wf`, `mul_wf`, `ofInt_wf`, `ofBits_wf`, `pyMax_wf`, …).
* §2a the specification `RN` (`RN_wf`, `RN_sign`, `RN_overflow_iff`, `RN_nearest`, `RN_half_ulp`, `RN_tie_even`,
  `RN_tie_even_def`, `RN_underflow_iff`, `RN_exact`, `RN_mono`) and its COMPLETENESS: `RN_isRNE`, `isRNE_unique` —
  `Dbl.IsRNE q d` is the textbook definition of a correctly rounded result, stated without any function of the model, and
  `RN` is the unique function satisfying it.
* §2b MAIN: `add_correctly_rounded`, `mul_correctly_rounded` (no well-formedness needed: every pair of finite operands),
  `add_isRNE`, `mul_isRNE`,
  the signed-zero rules, `add_half_ulp`, `mul_half_ulp`, `add_nearest`, `mul_nearest`, overflow/underflow thresholds.
* §2c exact cases: `add_exact`, `mul_exact`, `add_neg_self`, `mul_one`, `add_zero`, `plusZero_spec`, `add_ofInt`, `mul_ofInt`.
* §2d all `Dbl`: `add_comm`, `mul_comm`, special values, `add_eq_nan_iff`, `mul_eq_nan_iff`, `add_mono`.
* §3 order: `lt_iff_val`, `eq_iff_val`, `le_iff_val`, `val_inj`, infinities, NaN, `pyMax_spec`, `pyMin_spec`
  (strict weak order: `FR.Props.C03.dbl_strict_weak_order`).
* §4 bits and integers: `ofBits_toBits`, `toBits_ofBits`, `ofBits_nan_iff`, `toBits_injective`, `ofInt_exact`,
  `ofInt_correctly_rounded`, `truncToInt_spec`.
* §5 commands: `incrbyfloat_correctly_rounded`, `hincrbyfloat_correctly_rounded`, `zincrby_correctly_rounded`,
  `zincrby_nan_iff` (ZADD … INCR is ZINCRBY by `C03z.zadd_table`), `zunion_arith` (the score formula of ZUNIONSTORE / ZINTERSTORE).
* §6 statements that are FALSE as first written, with kernel-checked witnesses: `add_zero_full_false` (`-0 + 0 = +0`),
  `mul_ofInt_full_false` (`0 * -5 = -0`), `toBits_ofBits_full_false` (NaN payloads collapse),
  `roundPos_wf_full_false` (zero denominator).
-/
namespace FR.Props.C18a
open FR FR.C18a FR.C18f FR.DumpRound

/-- the overflow threshold: the midpoint between the largest double `2^1024 − 2^971` and `2^1024` -/
def ovfQ : ℚ := (2 : ℚ) ^ 1024 - (2 : ℚ) ^ 970

/-! ## 1. Well-formedness -/

/-- `WF` = the canonical form of C18f/C01d (`Canon`) = the doubles that survive the 64-bit codec -/
theorem wf_iff_codec (d : Dbl) : Dbl.WF d ↔ Dbl.ofBits (Dbl.toBits d) = d :=
  (wf_iff_canon d).trans (canon_iff d)

theorem roundPos_wf (neg : Bool) (num den : Nat) (hd : 0 < den) : Dbl.WF (Dbl.roundPos neg num den) :=
  FR.C18a.roundPos_wf neg num den hd

/-- every arithmetic operation returns a well-formed double, whatever the operands -/
theorem add_wf (a b : Dbl) : Dbl.WF (Dbl.add a b) := FR.C18a.add_wf a b
theorem mul_wf (a b : Dbl) : Dbl.WF (Dbl.mul a b) := FR.C18a.mul_wf a b
theorem ofInt_wf (n : Int) : Dbl.WF (Dbl.ofInt n) := FR.C18a.ofInt_wf n
theorem ofBits_wf (b : UInt64) : Dbl.WF (Dbl.ofBits b) := FR.C18a.ofBits_wf b
theorem plusZero_wf (d : Dbl) : Dbl.WF d.plusZero := FR.C18a.plusZero_wf d
theorem ofDecimal_wf (neg : Bool) (digits : Nat) (x : Int) : Dbl.WF (Dbl.ofDecimal neg digits x) :=
  FR.C18a.ofDecimal_wf neg digits x
theorem parse_wf {b : Bytes} {d : Dbl} (h : PyFloat.parse b = some d) : Dbl.WF d := FR.C18a.parse_wf h
theorem float_wf {b : Bytes} {d : Dbl} (h : Conv.float b = .ok d) : Dbl.WF d :=
  (wf_iff_canon d).mpr (float_canon h)
theorem pyMax_wf {a b : Dbl} (ha : Dbl.WF a) (hb : Dbl.WF b) : Dbl.WF (Dbl.pyMax a b) := FR.C18a.pyMax_wf ha hb
theorem pyMin_wf {a b : Dbl} (ha : Dbl.WF a) (hb : Dbl.WF b) : Dbl.WF (Dbl.pyMin a b) := FR.C18a.pyMin_wf ha hb

example : Dbl.WF Dbl.one ∧ Dbl.WF (.fin true 1 (-1074)) ∧ Dbl.WF (.fin false (2 ^ 53 - 1) 971) ∧
    ¬ Dbl.WF (.fin false 1 0) ∧ ¬ Dbl.WF (.fin false 0 0) ∧ ¬ Dbl.WF (.fin false (2 ^ 53) 0) ∧
    ¬ Dbl.WF (.fin false (2 ^ 52) 972) ∧
    Dbl.roundPos false 1 3 = .fin false 6004799503160661 (-54) ∧ Dbl.WF (Dbl.roundPos false 1 3) := by decide +kernel

/-! ## 2a. The rounding specification -/

theorem RN_wf (z : Bool) (q : ℚ) : Dbl.WF (Dbl.RN z q) := FR.C18a.RN_wf z q

theorem RN_not_nan (z : Bool) (q : ℚ) : (Dbl.RN z q).isNaN = false := FR.C18a.RN_not_nan z q

/-- the sign bit of the rounding is the sign of `q`; an exact zero gets `z` -/
theorem RN_sign (z : Bool) (q : ℚ) : (Dbl.RN z q).signBit = if q = 0 then z else decide (q < 0) :=
  RN_signBit z q

/-- OVERFLOW: the rounding is `±inf` exactly from `2^1024 − 2^970` on, with the sign of `q` -/
theorem RN_overflow_iff (z : Bool) (q : ℚ) (n : Bool) :
    Dbl.RN z q = .inf n ↔ ovfQ ≤ |q| ∧ n = decide (q < 0) := RN_eq_inf_iff z q n

/-- NEAREST: a finite rounding of `q` is at least as close to `q` as ANY well-formed finite double -/
theorem RN_nearest (z : Bool) (q : ℚ) {n : Bool} {m : Nat} {e : Int} (h : Dbl.RN z q = .fin n m e)
    (d : Dbl) (hwf : Dbl.WF d) (x : ℚ) (hx : d.toRat = some x) :
    |Dbl.val (.fin n m e) - q| ≤ |x - q| := by
  obtain ⟨n', m', e', rfl, rfl⟩ := toRat_some hx
  exact FR.C18a.RN_nearest z q h n' m' e' hwf

/-- HALF-ULP: … and within half a unit in the last place -/
theorem RN_half_ulp (z : Bool) (q : ℚ) {n : Bool} {m : Nat} {e : Int} (h : Dbl.RN z q = .fin n m e) :
    |Dbl.val (.fin n m e) - q| ≤ (2 : ℚ) ^ e / 2 := FR.C18a.RN_half_ulp z q h

/-- TIES TO EVEN: when `q` is exactly half a unit in the last place away, the significand is even -/
theorem RN_tie_even (z : Bool) (q : ℚ) {n : Bool} {m : Nat} {e : Int} (h : Dbl.RN z q = .fin n m e)
    (ht : |Dbl.val (.fin n m e) - q| = (2 : ℚ) ^ e / 2) : m % 2 = 0 := FR.C18a.RN_tie_even z q h ht

/-- UNDERFLOW: the rounding is a zero exactly up to `2^-1075` (half the smallest subnormal; the tie goes to the even 0) -/
theorem RN_underflow_iff (z : Bool) (q : ℚ) :
    (Dbl.RN z q).isZero = true ↔ |q| ≤ (2 : ℚ) ^ (-1075 : Int) := RN_isZero_iff z q

/-- EXACTNESS: the value of a well-formed finite double rounds to that double -/
theorem RN_exact (n : Bool) (m : Nat) (e : Int) (hwf : Dbl.WF (.fin n m e)) :
    Dbl.RN n (Dbl.val (.fin n m e)) = .fin n m e ∧ (m ≠ 0 → ∀ z, Dbl.RN z (Dbl.val (.fin n m e)) = .fin n m e) :=
  ⟨RN_val n m e hwf, fun hm z => RN_val_of_ne z n m e hwf hm⟩

/-- MONOTONICITY (IEEE `≤`: `-0 = +0`, infinities included) -/
theorem RN_mono (z1 z2 : Bool) {q1 q2 : ℚ} (h : q1 ≤ q2) : Dbl.le (Dbl.RN z1 q1) (Dbl.RN z2 q2) = true :=
  FR.C18a.RN_mono z1 z2 h

/-- `RN` is the rounding C18f proved decimal parsing to be (`float_decode_value_partial`: `d = roundAbs sign (denoted q)`) -/
theorem RN_eq_roundAbs {q : ℚ} (hq : q ≠ 0) (z : Bool) : Dbl.RN z q = roundAbs (decide (q < 0)) q := RN_of_ne hq z

/-- TIES TO EVEN in the form of the definition: if ANOTHER well-formed value is as close to `q` as the result, the
significand of the result is even (this covers the binade boundaries, where the tie is at a quarter of the upper ulp) -/
theorem RN_tie_even_def (z : Bool) (q : ℚ) {n : Bool} {m : Nat} {e : Int} (h : Dbl.RN z q = .fin n m e)
    (d : Dbl) (hwf : Dbl.WF d) (x : ℚ) (hx : d.toRat = some x) (hne : x ≠ Dbl.val (.fin n m e))
    (heq : |x - q| = |Dbl.val (.fin n m e) - q|) : m % 2 = 0 := by
  obtain ⟨n', m', e', rfl, rfl⟩ := toRat_some hx
  exact RN_tie_even' z q h n' m' e' hwf hne heq

/-- **`RN` IS round-to-nearest-even** — `Dbl.IsRNE q d` is the model-independent definition (finite `d`: well-formed,
`|q| < 2^1024 − 2^970`, sign of `q`, no well-formed double closer, even significand when another value is equally close;
infinite `d`: `|q| ≥ 2^1024 − 2^970`, sign of `q`; never NaN).  `RN z q` satisfies it, and it is the ONLY double that does
(`z` matters for `q = 0` only, where the definition allows both zeros) -/
theorem RN_isRNE (z : Bool) (q : ℚ) : Dbl.IsRNE q (Dbl.RN z q) := FR.C18a.RN_isRNE z q

theorem isRNE_unique (q : ℚ) (d : Dbl) : Dbl.IsRNE q d ↔ d = Dbl.RN d.signBit q := isRNE_iff q d

-- the definition holds of the double nearest to 1/10 and fails for its neighbour; at a tie only the even one qualifies
example : Dbl.IsRNE (1 / 10) (.fin false 7205759403792794 (-56)) ∧ ¬ Dbl.IsRNE (1 / 10) (.fin false 7205759403792793 (-56)) ∧
    Dbl.IsRNE (2 ^ 53 + 1) (.fin false (2 ^ 52) 1) ∧ ¬ Dbl.IsRNE (2 ^ 53 + 1) (.fin false (2 ^ 52 + 1) 1) ∧
    ¬ Dbl.IsRNE (1 / 10) .nan := by
  refine ⟨(isRNE_unique _ _).mpr (by decide +kernel), fun h => absurd ((isRNE_unique _ _).mp h) (by decide +kernel),
    (isRNE_unique _ _).mpr (by decide +kernel), fun h => absurd ((isRNE_unique _ _).mp h) (by decide +kernel), fun h => h⟩

-- 0.1 is not a double: a non-zero error below half an ulp; 2^53 + 1 is a tie and goes to the even neighbour;
-- the overflow threshold is sharp; the underflow threshold is sharp (the tie 2^-1075 goes to 0)
example : Dbl.RN false (1 / 10) = .fin false 7205759403792794 (-56) ∧
    |Dbl.val (.fin false 7205759403792794 (-56)) - 1 / 10| = 1 / 180143985094819840 ∧
    (1 : ℚ) / 180143985094819840 < (2 : ℚ) ^ (-56 : Int) / 2 ∧
    Dbl.RN true (-(2 ^ 53 + 1)) = .fin true (2 ^ 52) 1 ∧
    |Dbl.val (.fin true (2 ^ 52) 1) - (-(2 ^ 53 + 1))| = (2 : ℚ) ^ (1 : Int) / 2 ∧
    Dbl.RN false (2 ^ 53 + 3) = .fin false (2 ^ 52 + 2) 1 := by decide +kernel
set_option exponentiation.threshold 1100 in
example : Dbl.RN false ovfQ = .inf false ∧ Dbl.RN false (-ovfQ) = .inf true ∧
    Dbl.RN false (ovfQ - 1) = .fin false (2 ^ 53 - 1) 971 ∧
    Dbl.RN true ((2 : ℚ) ^ (-1075 : Int)) = .fin false 0 (-1074) ∧
    Dbl.RN true (-(2 : ℚ) ^ (-1075 : Int)) = .fin true 0 (-1074) ∧
    Dbl.RN true ((2 : ℚ) ^ (-1075 : Int) * (1 + 1 / 2 ^ 60)) = .fin false 1 (-1074) := by
  unfold ovfQ; decide +kernel

/-! ## 2b. MAIN: `add` and `mul` are correctly rounded -/

/-- **`add_correctly_rounded`** — for ALL finite doubles `a`, `b` (well-formed or not) with values `x`, `y`:
`a + b` is the rounding of the exact rational sum `x + y` (to nearest, ties to even, overflow to `±inf`); when the exact
sum is zero the result is `-0` if both operands carry the sign bit and `+0` otherwise (IEEE 754 §6.3) -/
theorem add_correctly_rounded (a b : Dbl) (x y : ℚ) (ha : a.toRat = some x) (hb : b.toRat = some y) :
    Dbl.add a b = Dbl.RN (a.signBit && b.signBit) (x + y) := add_eq_RN ha hb

/-- **`mul_correctly_rounded`** — likewise `a * b` is the rounding of the exact product `x · y`; the sign of a zero
product (exact or by underflow) is the xor of the signs -/
theorem mul_correctly_rounded (a b : Dbl) (x y : ℚ) (ha : a.toRat = some x) (hb : b.toRat = some y) :
    Dbl.mul a b = Dbl.RN (a.signBit != b.signBit) (x * y) := mul_eq_RN ha hb

/-- … so `a + b` / `a * b` are correct IEEE-754 results in the sense of the model-independent definition, and the only ones
with their sign bit -/
theorem add_isRNE (a b : Dbl) (x y : ℚ) (ha : a.toRat = some x) (hb : b.toRat = some y) :
    Dbl.IsRNE (x + y) (Dbl.add a b) ∧ ∀ d, Dbl.IsRNE (x + y) d → d.signBit = (Dbl.add a b).signBit → d = Dbl.add a b := by
  rw [add_eq_RN ha hb]
  refine ⟨FR.C18a.RN_isRNE _ _, fun d hd hs => ?_⟩
  rw [(isRNE_iff _ d).mp hd, hs]
  exact ((isRNE_iff _ _).mp (FR.C18a.RN_isRNE _ _)).symm

theorem mul_isRNE (a b : Dbl) (x y : ℚ) (ha : a.toRat = some x) (hb : b.toRat = some y) :
    Dbl.IsRNE (x * y) (Dbl.mul a b) ∧ ∀ d, Dbl.IsRNE (x * y) d → d.signBit = (Dbl.mul a b).signBit → d = Dbl.mul a b := by
  rw [mul_eq_RN ha hb]
  refine ⟨FR.C18a.RN_isRNE _ _, fun d hd hs => ?_⟩
  rw [(isRNE_iff _ d).mp hd, hs]
  exact ((isRNE_iff _ _).mp (FR.C18a.RN_isRNE _ _)).symm

/-- the sign of the product is ALWAYS the xor of the signs (zero, finite or infinite result) -/
theorem mul_sign (a b : Dbl) (x y : ℚ) (ha : a.toRat = some x) (hb : b.toRat = some y) :
    (Dbl.mul a b).signBit = (a.signBit != b.signBit) := by
  obtain ⟨n1, m1, e1, rfl, rfl⟩ := toRat_some ha
  obtain ⟨n2, m2, e2, rfl, rfl⟩ := toRat_some hb
  rw [mul_fin_eq_RN, RN_signBit]
  split
  · rfl
  · rename_i h
    have h1 : m1 ≠ 0 := fun h0 => h (by rw [(val_eq_zero_iff n1 m1 e1).mpr h0, zero_mul])
    have h2 : m2 ≠ 0 := fun h0 => h (by rw [(val_eq_zero_iff n2 m2 e2).mpr h0, mul_zero])
    have key : (Dbl.val (.fin n1 m1 e1) * Dbl.val (.fin n2 m2 e2) < 0) ↔ (n1 != n2) = true := by
      rw [mul_neg_iff, val_pos_iff, val_neg_iff, val_neg_iff, val_pos_iff]
      cases n1 <;> cases n2 <;> simp [h1, h2]
    show decide (Dbl.val (.fin n1 m1 e1) * Dbl.val (.fin n2 m2 e2) < 0) = (n1 != n2)
    cases hx : (n1 != n2)
    · rw [hx] at key; exact decide_eq_false (fun hh => Bool.false_ne_true (key.mp hh))
    · rw [hx] at key; exact decide_eq_true (key.mpr rfl)

/-- SIGNED ZERO of a sum: an exact zero sum is `+0` unless both operands carry the sign bit … -/
theorem add_zero_sign_rule (a b : Dbl) (x y : ℚ) (ha : a.toRat = some x) (hb : b.toRat = some y) (h : x + y = 0) :
    Dbl.add a b = .fin (a.signBit && b.signBit) 0 (-1074) := add_zero_sum ha hb h

/-- … in particular `x + (−x) = +0` for `x ≠ 0` (whatever the representation of `−x`), `(−0) + (−0) = −0`,
`(+0) + (−0) = (−0) + (+0) = +0` -/
theorem add_cancel_is_pos_zero (a b : Dbl) (x y : ℚ) (ha : a.toRat = some x) (hb : b.toRat = some y)
    (h : x + y = 0) (hx : x ≠ 0) : Dbl.add a b = .fin false 0 (-1074) := by
  rw [add_zero_sum ha hb h]
  obtain ⟨n1, m1, e1, rfl, rfl⟩ := toRat_some ha
  obtain ⟨n2, m2, e2, rfl, rfl⟩ := toRat_some hb
  have hs : ¬ (n1 = true ∧ n2 = true) := by
    rintro ⟨rfl, rfl⟩
    have h1 := (val_sign true m1 e1).1 rfl
    have h2 := (val_sign true m2 e2).1 rfl
    exact hx (by linarith)
  show Dbl.fin (n1 && n2) 0 (-1074) = _
  cases n1 <;> cases n2 <;> simp_all

theorem add_signed_zeros :
    Dbl.add (.fin true 0 (-1074)) (.fin true 0 (-1074)) = .fin true 0 (-1074) ∧
    Dbl.add (.fin false 0 (-1074)) (.fin true 0 (-1074)) = .fin false 0 (-1074) ∧
    Dbl.add (.fin true 0 (-1074)) (.fin false 0 (-1074)) = .fin false 0 (-1074) ∧
    Dbl.add (.fin false 0 (-1074)) (.fin false 0 (-1074)) = .fin false 0 (-1074) := by decide +kernel

/-- HALF-ULP for sums: a finite `a + b` is within half a unit in ITS last place of the exact sum -/
theorem add_half_ulp (a b : Dbl) (x y : ℚ) (ha : a.toRat = some x) (hb : b.toRat = some y)
    {n : Bool} {m : Nat} {e : Int} (h : Dbl.add a b = .fin n m e) :
    |Dbl.val (.fin n m e) - (x + y)| ≤ (2 : ℚ) ^ e / 2 := by
  rw [add_eq_RN ha hb] at h; exact FR.C18a.RN_half_ulp _ _ h

theorem mul_half_ulp (a b : Dbl) (x y : ℚ) (ha : a.toRat = some x) (hb : b.toRat = some y)
    {n : Bool} {m : Nat} {e : Int} (h : Dbl.mul a b = .fin n m e) :
    |Dbl.val (.fin n m e) - x * y| ≤ (2 : ℚ) ^ e / 2 := by
  rw [mul_eq_RN ha hb] at h; exact FR.C18a.RN_half_ulp _ _ h

/-- NEAREST for sums: no well-formed double is closer to the exact sum than a finite `a + b` -/
theorem add_nearest (a b : Dbl) (x y : ℚ) (ha : a.toRat = some x) (hb : b.toRat = some y)
    {n : Bool} {m : Nat} {e : Int} (h : Dbl.add a b = .fin n m e) (d : Dbl) (hwf : Dbl.WF d) (v : ℚ)
    (hv : d.toRat = some v) : |Dbl.val (.fin n m e) - (x + y)| ≤ |v - (x + y)| := by
  rw [add_eq_RN ha hb] at h; exact RN_nearest _ _ h d hwf v hv

theorem mul_nearest (a b : Dbl) (x y : ℚ) (ha : a.toRat = some x) (hb : b.toRat = some y)
    {n : Bool} {m : Nat} {e : Int} (h : Dbl.mul a b = .fin n m e) (d : Dbl) (hwf : Dbl.WF d) (v : ℚ)
    (hv : d.toRat = some v) : |Dbl.val (.fin n m e) - x * y| ≤ |v - x * y| := by
  rw [mul_eq_RN ha hb] at h; exact RN_nearest _ _ h d hwf v hv

/-- TIES TO EVEN for sums and products -/
theorem add_tie_even (a b : Dbl) (x y : ℚ) (ha : a.toRat = some x) (hb : b.toRat = some y)
    {n : Bool} {m : Nat} {e : Int} (h : Dbl.add a b = .fin n m e)
    (ht : |Dbl.val (.fin n m e) - (x + y)| = (2 : ℚ) ^ e / 2) : m % 2 = 0 := by
  rw [add_eq_RN ha hb] at h; exact FR.C18a.RN_tie_even _ _ h ht

theorem mul_tie_even (a b : Dbl) (x y : ℚ) (ha : a.toRat = some x) (hb : b.toRat = some y)
    {n : Bool} {m : Nat} {e : Int} (h : Dbl.mul a b = .fin n m e)
    (ht : |Dbl.val (.fin n m e) - x * y| = (2 : ℚ) ^ e / 2) : m % 2 = 0 := by
  rw [mul_eq_RN ha hb] at h; exact FR.C18a.RN_tie_even _ _ h ht

/-- OVERFLOW of a sum / product of finite doubles: exactly from `2^1024 − 2^970` on, to the infinity of the right sign -/
theorem add_overflow_iff (a b : Dbl) (x y : ℚ) (ha : a.toRat = some x) (hb : b.toRat = some y) (n : Bool) :
    Dbl.add a b = .inf n ↔ ovfQ ≤ |x + y| ∧ n = decide (x + y < 0) := by
  rw [add_eq_RN ha hb]; exact RN_eq_inf_iff _ _ n

theorem mul_overflow_iff (a b : Dbl) (x y : ℚ) (ha : a.toRat = some x) (hb : b.toRat = some y) (n : Bool) :
    Dbl.mul a b = .inf n ↔ ovfQ ≤ |x * y| ∧ n = decide (x * y < 0) := by
  rw [mul_eq_RN ha hb]; exact RN_eq_inf_iff _ _ n

/-- UNDERFLOW of a product to a (signed) zero: exactly up to `2^-1075` -/
theorem mul_underflow_iff (a b : Dbl) (x y : ℚ) (ha : a.toRat = some x) (hb : b.toRat = some y) :
    (Dbl.mul a b).isZero = true ↔ |x * y| ≤ (2 : ℚ) ^ (-1075 : Int) := by
  rw [mul_eq_RN ha hb]; exact RN_isZero_iff _ _

-- 0.1 + 0.2: the exact sum of the two doubles is a TIE between two doubles; the even one is 0.30000000000000004.
-- 0.1 * 3 (inexact); the largest double doubled overflows; the smallest subnormal halved underflows to a signed zero
example :
    let a := Dbl.ofDecimal false 1 (-1); let b := Dbl.ofDecimal false 2 (-1)
    a = .fin false 7205759403792794 (-56) ∧ b = .fin false 7205759403792794 (-55) ∧ Dbl.WF a ∧ Dbl.WF b ∧
    a.toRat = some (7205759403792794 / 2 ^ 56) ∧ b.toRat = some (7205759403792794 / 2 ^ 55) ∧
    Dbl.add a b = .fin false 5404319552844596 (-54) ∧
    |Dbl.val (.fin false 5404319552844596 (-54)) - (7205759403792794 / 2 ^ 56 + 7205759403792794 / 2 ^ 55)|
      = (2 : ℚ) ^ (-54 : Int) / 2 ∧
    Dbl.mul a (Dbl.ofInt 3) = .fin false 5404319552844596 (-54) ∧
    Dbl.mul (.fin true (2 ^ 53 - 1) 971) (Dbl.ofInt 2) = .inf true ∧
    Dbl.add (.fin true (2 ^ 53 - 1) 971) (.fin true (2 ^ 53 - 1) 971) = .inf true ∧
    Dbl.mul (.fin true 1 (-1074)) (.fin false (2 ^ 52) (-53)) = .fin true 0 (-1074) := by
  decide +kernel

/-! ## 2c. Exact cases -/

/-- EXACT WHEN REPRESENTABLE: if the exact sum (product) is the value of a well-formed double `c ≠ 0`, the result is `c` -/
theorem add_exact (a b : Dbl) (x y : ℚ) (ha : a.toRat = some x) (hb : b.toRat = some y)
    (n : Bool) (m : Nat) (e : Int) (hwf : Dbl.WF (.fin n m e)) (hm : m ≠ 0) (h : x + y = Dbl.val (.fin n m e)) :
    Dbl.add a b = .fin n m e := FR.C18a.add_exact ha hb n m e hwf hm h

theorem mul_exact (a b : Dbl) (x y : ℚ) (ha : a.toRat = some x) (hb : b.toRat = some y)
    (n : Bool) (m : Nat) (e : Int) (hwf : Dbl.WF (.fin n m e)) (hm : m ≠ 0) (h : x * y = Dbl.val (.fin n m e)) :
    Dbl.mul a b = .fin n m e := FR.C18a.mul_exact ha hb n m e hwf hm h

/-- `x + (−x) = +0` for every finite `x`, zeros included -/
theorem add_neg_self (n : Bool) (m : Nat) (e : Int) :
    Dbl.add (.fin n m e) (.fin (!n) m e) = .fin false 0 (-1074) := FR.C18a.add_neg_self n m e

/-- `x * 1 = x` -/
theorem mul_one (n : Bool) (m : Nat) (e : Int) (hwf : Dbl.WF (.fin n m e)) :
    Dbl.mul (.fin n m e) Dbl.one = .fin n m e := mul_one' n m e hwf

/-- `x + 0 = x`, except `(−0) + 0 = +0` (§6) -/
theorem add_zero (n : Bool) (m : Nat) (e : Int) (hwf : Dbl.WF (.fin n m e)) (h : ¬ (n = true ∧ m = 0)) :
    Dbl.add (.fin n m e) Dbl.zero = .fin n m e := by
  rw [add_zero' n m e hwf]
  split
  · rename_i hm; subst hm
    have : n = false := by cases n <;> simp_all
    subst this
    rw [hwf.2.2.2.2 rfl]
  · rfl

/-- `Dbl.plusZero` (`0.0 + d`, used for `-0 → 0` normalisation in version 7): the identity on well-formed doubles,
except that both zeros become `+0` -/
theorem plusZero_spec (d : Dbl) (hwf : Dbl.WF d) :
    d.plusZero = if d.isZero then .fin false 0 (-1074) else d := plusZero_eq d hwf

/-- integer arithmetic: `ofInt i + ofInt j = ofInt (i + j)` whenever `|i|, |j| ≤ 2^53` (exact when `|i + j| ≤ 2^53`,
by `ofInt_exact`; correctly rounded otherwise) -/
theorem add_ofInt (i j : Int) (hi : i.natAbs ≤ 2 ^ 53) (hj : j.natAbs ≤ 2 ^ 53) :
    Dbl.add (Dbl.ofInt i) (Dbl.ofInt j) = Dbl.ofInt (i + j) := FR.C18a.add_ofInt i j hi hj

/-- `ofInt i * ofInt j = ofInt (i * j)` for a non-zero product (a zero product carries the xor sign, §6) -/
theorem mul_ofInt (i j : Int) (hi : i.natAbs ≤ 2 ^ 53) (hj : j.natAbs ≤ 2 ^ 53) (h0 : i * j ≠ 0) :
    Dbl.mul (Dbl.ofInt i) (Dbl.ofInt j) = Dbl.ofInt (i * j) := FR.C18a.mul_ofInt i j hi hj h0

example : Dbl.add (Dbl.ofInt 9007199254740991) (Dbl.ofInt (-9007199254740990)) = Dbl.ofInt 1 ∧
    Dbl.mul (Dbl.ofInt 94906265) (Dbl.ofInt (-94906265)) = Dbl.ofInt (-9007199136250225) ∧
    (Dbl.ofInt (-9007199136250225)).toRat = some (-9007199136250225) ∧
    Dbl.mul (.fin true 3 (-1074)) Dbl.one = .fin true 3 (-1074) ∧
    Dbl.add (.fin true 3 (-1074)) Dbl.zero = .fin true 3 (-1074) ∧
    (Dbl.fin true 0 (-1074)).plusZero = .fin false 0 (-1074) ∧ (Dbl.inf true).plusZero = .inf true := by
  decide +kernel

/-! ## 2d. All doubles: commutativity, special values, NaN -/

theorem add_comm (a b : Dbl) : Dbl.add a b = Dbl.add b a := add_comm' a b
theorem mul_comm (a b : Dbl) : Dbl.mul a b = Dbl.mul b a := mul_comm' a b

/-- the special values of IEEE addition and multiplication -/
theorem special_values (s t : Bool) (n : Bool) (m : Nat) (e : Int) :
    Dbl.add (.inf s) (.inf s) = .inf s ∧ Dbl.add (.inf s) (.inf (!s)) = .nan ∧
    Dbl.add (.inf s) (.fin n m e) = .inf s ∧ Dbl.add (.fin n m e) (.inf s) = .inf s ∧
    Dbl.mul (.inf s) (.inf t) = .inf (s != t) ∧
    Dbl.mul (.inf s) (.fin n 0 e) = .nan ∧ Dbl.mul (.fin n 0 e) (.inf s) = .nan ∧
    (m ≠ 0 → Dbl.mul (.inf s) (.fin n m e) = .inf (s != n) ∧ Dbl.mul (.fin n m e) (.inf s) = .inf (n != s)) ∧
    (∀ d, Dbl.add .nan d = .nan ∧ Dbl.add d .nan = .nan ∧ Dbl.mul .nan d = .nan ∧ Dbl.mul d .nan = .nan) := by
  refine ⟨by cases s <;> rfl, by cases s <;> rfl, rfl, rfl, rfl, rfl, rfl, fun hm => ?_, fun d => ?_⟩
  · have : (m == 0) = false := by simpa using hm
    exact ⟨by show (if (m == 0) = true then Dbl.nan else _) = _; rw [this]; rfl,
      by show (if (m == 0) = true then Dbl.nan else _) = _; rw [this]; rfl⟩
  · cases d <;> exact ⟨rfl, rfl, rfl, rfl⟩

/-- **NaN only from `inf − inf`**: for non-NaN operands, `a + b` is NaN iff the operands are opposite infinities
(this is the case ZINCRBY / ZADD INCR refuse with "resulting score is not a number") -/
theorem add_eq_nan_iff (a b : Dbl) :
    Dbl.add a b = .nan ↔ a = .nan ∨ b = .nan ∨ ∃ s, a = .inf s ∧ b = .inf (!s) := FR.C18a.add_eq_nan_iff a b

/-- **NaN only from `inf · 0`** (ZUNIONSTORE WEIGHTS): for non-NaN operands, `a * b` is NaN iff one is infinite and the
other a zero -/
theorem mul_eq_nan_iff (a b : Dbl) :
    Dbl.mul a b = .nan ↔ a = .nan ∨ b = .nan ∨ (a.isInf = true ∧ b.isZero = true) ∨ (a.isZero = true ∧ b.isInf = true) :=
  FR.C18a.mul_eq_nan_iff a b

/-- addition is monotone (finite operands; the results may be infinite) -/
theorem add_mono (a b b' : Dbl) (x y y' : ℚ) (ha : a.toRat = some x) (hb : b.toRat = some y) (hb' : b'.toRat = some y')
    (h : y ≤ y') : Dbl.le (Dbl.add a b) (Dbl.add a b') = true := by
  rw [add_eq_RN ha hb, add_eq_RN ha hb']
  exact FR.C18a.RN_mono _ _ (by linarith)

example : Dbl.add (.inf false) (.inf true) = .nan ∧ Dbl.mul (.inf true) (.fin true 0 (-1074)) = .nan ∧
    Dbl.mul (.inf true) (.fin true 1 (-1074)) = .inf false ∧
    Dbl.add (.fin false 1 (-1074)) (.inf true) = .inf true := by decide +kernel

/-! ## 3. Order -/

/-- `lt` / `eq` / `le` are the order of the rational values on finite doubles with exponent in range (in particular on
well-formed ones) -/
theorem lt_iff_val (a b : Dbl) (x y : ℚ) (ha : a.toRat = some x) (hb : b.toRat = some y) (wa : Dbl.WF a) (wb : Dbl.WF b) :
    Dbl.lt a b = true ↔ x < y := by
  obtain ⟨n1, m1, e1, rfl, rfl⟩ := toRat_some ha
  obtain ⟨n2, m2, e2, rfl, rfl⟩ := toRat_some hb
  exact lt_fin_iff _ _ _ _ _ _ wa.2.1 wb.2.1

theorem eq_iff_val (a b : Dbl) (x y : ℚ) (ha : a.toRat = some x) (hb : b.toRat = some y) (wa : Dbl.WF a) (wb : Dbl.WF b) :
    Dbl.eq a b = true ↔ x = y := by
  obtain ⟨n1, m1, e1, rfl, rfl⟩ := toRat_some ha
  obtain ⟨n2, m2, e2, rfl, rfl⟩ := toRat_some hb
  exact eq_fin_iff _ _ _ _ _ _ wa.2.1 wb.2.1

theorem le_iff_val (a b : Dbl) (x y : ℚ) (ha : a.toRat = some x) (hb : b.toRat = some y) (wa : Dbl.WF a) (wb : Dbl.WF b) :
    Dbl.le a b = true ↔ x ≤ y := by
  obtain ⟨n1, m1, e1, rfl, rfl⟩ := toRat_some ha
  obtain ⟨n2, m2, e2, rfl, rfl⟩ := toRat_some hb
  exact le_fin_iff _ _ _ _ _ _ wa.2.1 wb.2.1

/-- two well-formed finite doubles with the same value are the same double, except for the sign of zero; so IEEE `==`
identifies exactly `+0` and `-0` -/
theorem val_inj {n1 n2 : Bool} {m1 m2 : Nat} {e1 e2 : Int} (w1 : Dbl.WF (.fin n1 m1 e1)) (w2 : Dbl.WF (.fin n2 m2 e2))
    (h : Dbl.val (.fin n1 m1 e1) = Dbl.val (.fin n2 m2 e2)) : m1 = m2 ∧ e1 = e2 ∧ (m1 ≠ 0 → n1 = n2) :=
  FR.C18a.val_inj w1 w2 h

/-- `-inf <` every finite `< +inf`; NaN is unordered -/
theorem order_special (n : Bool) (m : Nat) (e : Int) (d : Dbl) :
    Dbl.lt (.inf true) (.fin n m e) = true ∧ Dbl.lt (.fin n m e) (.inf false) = true ∧
    Dbl.lt (.inf true) (.inf false) = true ∧ Dbl.lt (.fin n m e) (.inf true) = false ∧
    Dbl.lt (.inf false) (.fin n m e) = false ∧ Dbl.eq (.inf true) (.inf true) = true ∧
    Dbl.eq (.inf false) (.inf true) = false ∧ Dbl.eq (.inf true) (.fin n m e) = false ∧
    Dbl.lt .nan d = false ∧ Dbl.lt d .nan = false ∧ Dbl.eq .nan d = false ∧ Dbl.eq d .nan = false ∧
    Dbl.le .nan d = false ∧ Dbl.le d .nan = false := by
  refine ⟨rfl, rfl, rfl, rfl, rfl, rfl, rfl, rfl, Dbl.lt_nan_left d, Dbl.lt_nan_right d, Dbl.eq_nan_left d,
    Dbl.eq_nan_right d, ?_, ?_⟩
  · unfold Dbl.le; rw [Dbl.lt_nan_left, Dbl.eq_nan_left]; rfl
  · unfold Dbl.le; rw [Dbl.lt_nan_right, Dbl.eq_nan_right]; rfl

/-- Python `max(a, b)` / `min(a, b)`: one of the arguments; without NaN an upper (lower) bound of both; on finite
well-formed doubles the value is the max (min) of the values.  With a NaN: `max(a, nan) = a`, `max(nan, b) = nan`. -/
theorem pyMax_spec (a b : Dbl) :
    (Dbl.pyMax a b = a ∨ Dbl.pyMax a b = b) ∧
    (a.isNaN = false → b.isNaN = false → Dbl.le a (Dbl.pyMax a b) = true ∧ Dbl.le b (Dbl.pyMax a b) = true) ∧
    (∀ x y, a.toRat = some x → b.toRat = some y → Dbl.WF a → Dbl.WF b → (Dbl.pyMax a b).toRat = some (max x y)) ∧
    Dbl.pyMax a .nan = a ∧ Dbl.pyMax .nan b = .nan := by
  refine ⟨pyMax_cases a b, fun ha hb => pyMax_ge ha hb, fun x y ha hb wa wb => ?_, ?_, ?_⟩
  · obtain ⟨n1, m1, e1, rfl, rfl⟩ := toRat_some ha
    obtain ⟨n2, m2, e2, rfl, rfl⟩ := toRat_some hb
    rw [← pyMax_val _ _ _ _ _ _ wa.2.1 wb.2.1]
    rcases pyMax_cases (.fin n1 m1 e1) (.fin n2 m2 e2) with h | h <;> rw [h] <;> rfl
  · unfold Dbl.pyMax; rw [Dbl.lt_nan_right]; rfl
  · unfold Dbl.pyMax; rw [Dbl.lt_nan_left]; rfl

theorem pyMin_spec (a b : Dbl) :
    (Dbl.pyMin a b = a ∨ Dbl.pyMin a b = b) ∧
    (a.isNaN = false → b.isNaN = false → Dbl.le (Dbl.pyMin a b) a = true ∧ Dbl.le (Dbl.pyMin a b) b = true) ∧
    (∀ x y, a.toRat = some x → b.toRat = some y → Dbl.WF a → Dbl.WF b → (Dbl.pyMin a b).toRat = some (min x y)) ∧
    Dbl.pyMin a .nan = a ∧ Dbl.pyMin .nan b = .nan := by
  refine ⟨pyMin_cases a b, fun ha hb => pyMin_le ha hb, fun x y ha hb wa wb => ?_, ?_, ?_⟩
  · obtain ⟨n1, m1, e1, rfl, rfl⟩ := toRat_some ha
    obtain ⟨n2, m2, e2, rfl, rfl⟩ := toRat_some hb
    rw [← pyMin_val _ _ _ _ _ _ wa.2.1 wb.2.1]
    rcases pyMin_cases (.fin n1 m1 e1) (.fin n2 m2 e2) with h | h <;> rw [h] <;> rfl
  · unfold Dbl.pyMin; rw [Dbl.lt_nan_left]; rfl
  · unfold Dbl.pyMin; rw [Dbl.lt_nan_right]; rfl

-- the hypothesis "exponent in range" matters: below -1074 `scaled` loses the value, `2^-1076 < 2^-1075` is not seen
-- (such doubles are never produced by the model)
example : Dbl.lt (.fin false 3 (-1)) (.fin false 1 1) = true ∧ (Dbl.fin false 3 (-1)).toRat = some (3 / 2) ∧
    (Dbl.fin false 1 1).toRat = some 2 ∧
    Dbl.eq (.fin true 0 (-1074)) (.fin false 0 (-1074)) = true ∧
    Dbl.lt (.fin true (2 ^ 52) 0) (.fin true 1 (-1074)) = true ∧
    Dbl.pyMax (.fin true (2 ^ 52) 0) (.fin true 1 (-1074)) = .fin true 1 (-1074) ∧
    Dbl.pyMin (.fin true (2 ^ 52) 0) (.inf false) = .fin true (2 ^ 52) 0 ∧
    Dbl.lt (.fin false 1 (-1076)) (.fin false 1 (-1075)) = false ∧ ¬ Dbl.WF (.fin false 1 (-1075)) := by
  decide +kernel
-- the strict weak order of C03 applies to these very functions
example := FR.Props.C03.dbl_strict_weak_order

/-! ## 4. Bits, integers -/

/-- `ofBits ∘ toBits` is the identity on well-formed doubles (both zeros, subnormals, normals, infinities, the NaN) -/
theorem ofBits_toBits (d : Dbl) (hwf : Dbl.WF d) : Dbl.ofBits (Dbl.toBits d) = d :=
  FR.DumpRound.ofBits_toBits ((wf_iff_canon d).mp hwf)

/-- `toBits ∘ ofBits` is the identity on every 64-bit pattern that is not a NaN pattern -/
theorem toBits_ofBits (b : UInt64) (h : (Dbl.ofBits b).isNaN = false) : Dbl.toBits (Dbl.ofBits b) = b :=
  FR.C18a.toBits_ofBits b h

/-- the NaN patterns are those with exponent field `0x7FF` and a non-zero fraction field (`fExp b = b/2^52 mod 2^11`,
`fFrac b = b mod 2^52`); all of them (either sign, quiet or signalling, any payload) collapse to the single NaN of the
model, whose image is the positive quiet NaN `0x7FF8000000000000` -/
theorem ofBits_nan_iff (b : UInt64) :
    (Dbl.ofBits b = .nan ↔ b.toNat / 2 ^ 52 % 2048 = 0x7FF ∧ b.toNat % 2 ^ 52 ≠ 0) ∧
    Dbl.toBits .nan = 0x7FF8000000000000 := ⟨FR.C18a.ofBits_nan_iff b, rfl⟩

theorem toBits_injective (a b : Dbl) (ha : Dbl.WF a) (hb : Dbl.WF b) (h : Dbl.toBits a = Dbl.toBits b) : a = b :=
  FR.C18a.toBits_injective ha hb h

/-- `ofInt n` is exact for `|n| ≤ 2^53` … -/
theorem ofInt_exact (n : Int) (h : n.natAbs ≤ 2 ^ 53) :
    (Dbl.ofInt n).toRat = some (n : ℚ) ∧ (Dbl.ofInt n).signBit = decide (n < 0) :=
  ⟨ofInt_toRat n h, ofInt_signBit n h⟩

/-- … and correctly rounded for every integer (`ofInt 0 = +0`) -/
theorem ofInt_correctly_rounded (n : Int) : Dbl.ofInt n = Dbl.RN false (n : ℚ) := ofInt_eq_RN n

/-- `truncToInt` (Python `int(x)`) is truncation toward zero of the value -/
theorem truncToInt_spec (d : Dbl) (x : ℚ) (h : d.toRat = some x) :
    Dbl.truncToInt d = if x < 0 then ⌈x⌉ else ⌊x⌋ := by
  obtain ⟨n, m, e, rfl, rfl⟩ := toRat_some h
  exact truncToInt_eq n m e

example : Dbl.ofBits 0xC00C000000000000 = .fin true 7881299347898368 (-51) ∧
    (Dbl.fin true 7881299347898368 (-51)).toRat = some (-7 / 2) ∧
    Dbl.toBits (.fin true 7881299347898368 (-51)) = 0xC00C000000000000 ∧
    Dbl.truncToInt (.fin true 7881299347898368 (-51)) = -3 ∧ (⌈(-7 / 2 : ℚ)⌉ = -3) ∧
    Dbl.ofBits 0x8000000000000001 = .fin true 1 (-1074) ∧ Dbl.toBits (Dbl.ofBits 0x7FF0000000000000) = 0x7FF0000000000000 ∧
    Dbl.ofInt (2 ^ 53 + 1) = .fin false (2 ^ 52) 1 ∧ Dbl.ofInt (-(2 ^ 53)) = .fin true (2 ^ 52) 1 := by
  refine ⟨by decide +kernel, by decide +kernel, by decide +kernel, by decide +kernel, by norm_num [Int.ceil_eq_iff],
    by decide +kernel, by decide +kernel, by decide +kernel, by decide +kernel⟩

/-! ## 5. Commands: the number stored / replied is the correctly rounded sum of the decoded operands -/

/-- **INCRBYFLOAT**, full decision on a missing key or a string whose content and the increment decode (by the `Float`
converter of C18f) to FINITE doubles with values `x`, `y`: if `|x + y| < 2^1024 − 2^970` the reply and the stored string are
the encoding of the correctly rounded sum `RN (x + y)` (deadline kept); otherwise the command is refused with
"increment would produce NaN or Infinity" and nothing changes -/
theorem incrbyfloat_correctly_rounded (ctx : Ctx) (db : Db) (nd : NodupKeys db.dict) (ne : NoEmpty db.dict)
    (k amount stored : Bytes) (e : Option Int)
    (hk : (db.live k = none ∧ stored = strBytes "0" ∧ e = none) ∨ db.live k = some ⟨.str stored, e⟩)
    (cur a : Dbl) (hc : Conv.float stored = .ok cur) (ha : Conv.float amount = .ok a)
    (x y : ℚ) (hx : cur.toRat = some x) (hy : a.toRat = some y) :
    let out := runRegular StrKeys.sigIncrbyfloat Cmd.incrbyfloat ctx none [k, amount] db
    let enc := Cmd.encodeFloat ctx.version (Dbl.RN (cur.signBit && a.signBit) (x + y)) true
    (|x + y| < ovfQ → out.reply = .bulk enc ∧ out.db.live = StrKeys.upd db.live k (some ⟨.str enc, e⟩)) ∧
    (ovfQ ≤ |x + y| → out.reply = .err (strBytes Msgs.NONFINITE_MSG) ∧ out.db.live = db.live) := by
  intro out enc
  have h := Props.C01k.incrbyfloat_spec ctx db nd ne k amount
  have hfin := RN_isFinite_iff (cur.signBit && a.signBit) (x + y)
  have h' : (out.reply, out.db.live) =
      if (Dbl.add cur a).isFinite then
        (.bulk (Cmd.encodeFloat ctx.version (Dbl.add cur a) true),
          StrKeys.upd db.live k (some ⟨.str (Cmd.encodeFloat ctx.version (Dbl.add cur a) true), e⟩))
      else (.err (strBytes Msgs.NONFINITE_MSG), db.live) := by
    rcases hk with ⟨hl, rfl, rfl⟩ | hl
    · rw [hl] at h
      simp only [Props.C01k.incrFloatOn_unfolded, hc, ha] at h
      exact h
    · rw [hl] at h
      simp only [Props.C01k.incrFloatOn_unfolded, hc, ha] at h
      exact h
  rw [add_eq_RN hx hy] at h'
  constructor
  · intro hlt
    rw [if_pos (hfin.mpr hlt)] at h'
    exact ⟨congrArg Prod.fst h', congrArg Prod.snd h'⟩
  · intro hge
    have : ¬ (Dbl.RN (cur.signBit && a.signBit) (x + y)).isFinite = true := fun hh => not_lt.mpr hge (hfin.mp hh)
    rw [if_neg this] at h'
    exact ⟨congrArg Prod.fst h', congrArg Prod.snd h'⟩


-- non-vacuity: `SET a 10.5`, `INCRBYFLOAT a 0.1`: the stored string is the rendering of `RN (10.5 + double(0.1))`; and an
-- overflowing sum of two accepted operands is refused
example :
    let db : Db := ⟨[([97], ⟨.str (strBytes "10.5"), some 70⟩)], 5⟩
    let ctx : Ctx := { version := 7, time := 5 }
    NodupKeys db.dict ∧ NoEmpty db.dict ∧
    (Conv.float (strBytes "10.5")).toOption = some (.fin false 5910974510923776 (-49)) ∧
    (Dbl.fin false 5910974510923776 (-49)).toRat = some (21 / 2) ∧
    (Conv.float (strBytes "0.1")).toOption = some (.fin false 7205759403792794 (-56)) ∧
    (Dbl.fin false 7205759403792794 (-56)).toRat = some (7205759403792794 / 2 ^ 56) ∧
    Dbl.RN false (21 / 2 + 7205759403792794 / 2 ^ 56) = .fin false 5967269506265907 (-49) ∧
    Cmd.encodeFloat 7 (Dbl.RN false (21 / 2 + 7205759403792794 / 2 ^ 56)) true = strBytes "10.59999999999999964" ∧
    runBulkOf (runRegular StrKeys.sigIncrbyfloat Cmd.incrbyfloat ctx none [[97], strBytes "0.1"] db).reply
      = strBytes "10.59999999999999964" := by
  intro db ctx
  exact ⟨by decide, by unfold NoEmpty; decide +kernel, by decide +kernel, by decide +kernel, by decide +kernel,
    by decide +kernel, by decide +kernel, by decide +kernel, by decide +kernel⟩
set_option exponentiation.threshold 1100 in
example :
    let db : Db := ⟨[([97], ⟨.str (strBytes "1.7e308"), none⟩)], 5⟩
    let ctx : Ctx := { version := 7, time := 5 }
    (Conv.float (strBytes "1.7e308")).toOption = some (.fin false 8517715530038134 971) ∧
    ovfQ ≤ |(8517715530038134 * 2 ^ 971 : ℚ) + 8517715530038134 * 2 ^ 971| ∧
    Props.C03z.errOf (runRegular StrKeys.sigIncrbyfloat Cmd.incrbyfloat ctx none [[97], strBytes "1.7e308"] db).reply
      = some (strBytes Msgs.NONFINITE_MSG) := by
  intro db ctx
  exact ⟨by decide +kernel, by unfold ovfQ; decide +kernel, by decide +kernel⟩

/-- **HINCRBYFLOAT** likewise (key missing or a hash; `"0"` for a missing field): the new value of the field and the reply are
the encoding of `RN (x + y)`, every other field is unchanged; an overflowing sum is refused and nothing changes -/
theorem hincrbyfloat_correctly_rounded (ctx : Ctx) (db : Db) (nd : NodupKeys db.dict)
    (wf : HashSet.LiveWF db) (key : Bytes) (h : HashSet.HashV) (e : Option Int)
    (hv : HashSet.hashView db.live key = some (h, e)) (f amt : Bytes)
    (cur a : Dbl) (hc : Conv.float ((HashSet.hmap db key f).getD (strBytes "0")) = .ok cur)
    (ha : Conv.float amt = .ok a) (x y : ℚ) (hx : cur.toRat = some x) (hy : a.toRat = some y) :
    let out := HashSet.run "hincrbyfloat" ctx [key, f, amt] db
    let enc := Cmd.encodeFloat ctx.version (Dbl.RN (cur.signBit && a.signBit) (x + y)) true
    (|x + y| < ovfQ → out.reply = .bulk enc ∧
      (∀ g, HashSet.hmap out.db key g = if g = f then some enc else HashSet.hmap db key g) ∧
      (∀ k', k' ≠ key → out.db.live k' = db.live k')) ∧
    (ovfQ ≤ |x + y| → out.reply = .err (strBytes Msgs.NONFINITE_MSG) ∧ out.db.live = db.live) := by
  intro out enc
  have hr := Props.C02h.hincrbyfloat_refines ctx db nd wf key h e hv f amt
  simp only [hc, ha] at hr
  have hfin := RN_isFinite_iff (cur.signBit && a.signBit) (x + y)
  rw [add_eq_RN hx hy] at hr
  constructor
  · intro hlt
    rw [if_pos (hfin.mpr hlt)] at hr
    exact ⟨hr.1, hr.2.2.1, hr.2.2.2.2.1⟩
  · intro hge
    have : ¬ (Dbl.RN (cur.signBit && a.signBit) (x + y)).isFinite = true := fun hh => not_lt.mpr hge (hfin.mp hh)
    rw [if_neg this] at hr
    exact ⟨hr.1, hr.2.1⟩

-- non-vacuity (key `[6]` of C02h's example database holds the hash `{[10] ↦ "5"}`)
example :
    NodupKeys Props.C02h.exDb.dict ∧ HashSet.LiveWF Props.C02h.exDb ∧
    HashSet.hashView Props.C02h.exDb.live [6] = some ([([10], [53])], none) ∧
    (Conv.float ((HashSet.hmap Props.C02h.exDb [6] [10]).getD (strBytes "0"))).toOption = some (Dbl.ofInt 5) ∧
    (Conv.float (strBytes "0.25")).toOption = some (.fin false (2 ^ 52) (-54)) ∧
    Cmd.encodeFloat 7 (Dbl.RN false (5 + 1 / 4)) true = strBytes "5.25" ∧
    runBulkOf (HashSet.run "hincrbyfloat" Props.C02h.exCtx [[6], [10], strBytes "0.25"] Props.C02h.exDb).reply
      = strBytes "5.25" := by
  exact ⟨by decide, HashSet.liveWF_of_dict (by decide), by rfl, by decide +kernel, by decide +kernel, by decide +kernel,
    by decide +kernel⟩

section zincrby
open FR.Cmd FR.HashSet FR.ZCmd
variable (ctx : Ctx) (db : Db) (nd : NodupKeys db.dict) (key : Bytes) (z : ZSet) (e : Option Int)
  (hv : ZCmd.zsetView db.live key = some (z, e)) (hz : z.Inv)
include nd hv hz

/-- **ZINCRBY** on a member with a finite score (value `x`) and a finite increment (value `y`): the new score is the
correctly rounded sum `RN (x + y)` — possibly `±inf` by overflow, which ZINCRBY stores — written by `ZSet.add`, and its
rendering is the reply -/
theorem zincrby_correctly_rounded (a m : Bytes) (incr old : Dbl) (ha : Conv.float a = .ok incr)
    (hold : z.get m = some old) (x y : ℚ) (hx : old.toRat = some x) (hy : incr.toRat = some y) :
    let score := Dbl.RN (old.signBit && incr.signBit) (x + y)
    ZCmd.Writes (run "zincrby" ctx [key, a, m] db) db key (z.add m score).1 e (.bulk (fmtScore ctx score)) := by
  intro score
  have hs := Props.C03z.zincrby_spec ctx db nd key z e hv hz a m incr ha
  have hsc : incrScore z m incr = score := by
    unfold incrScore; rw [hold]; exact add_eq_RN hx hy
  simp only [hsc] at hs
  rw [if_neg (by rw [FR.C18a.RN_not_nan]; exact Bool.false_ne_true)] at hs
  exact hs.1

/-- **"resulting score is not a number"**: ZINCRBY fails with that message EXACTLY when the member's score is an infinity
and the increment the opposite infinity; in every other case (increment accepted by the converter) it writes -/
theorem zincrby_nan_iff (a m : Bytes) (incr : Dbl) (ha : Conv.float a = .ok incr) :
    let out := run "zincrby" ctx [key, a, m] db
    ((∃ s, z.get m = some (.inf s) ∧ incr = .inf (!s)) → ZCmd.Fails out db Msgs.SCORE_NAN_MSG) ∧
    (¬ (∃ s, z.get m = some (.inf s) ∧ incr = .inf (!s)) →
      (incrScore z m incr).isNaN = false ∧
      ZCmd.Writes out db key (z.add m (incrScore z m incr)).1 e (.bulk (fmtScore ctx (incrScore z m incr)))) := by
  intro out
  have hs := Props.C03z.zincrby_spec ctx db nd key z e hv hz a m incr ha
  have hi := incrScore_nan_iff hz m (Conv.float_not_nan ha)
  simp only at hs
  constructor
  · intro hex
    rw [if_pos (hi.mpr hex)] at hs
    exact hs
  · intro hne
    have hn : ¬ (incrScore z m incr).isNaN = true := fun hh => hne (hi.mp hh)
    rw [if_neg hn] at hs
    exact ⟨by simpa using hn, hs.1⟩

end zincrby

-- non-vacuity on C03z's example database: key `[1]` holds `a ↦ 1, …`, key `[5]` holds `a ↦ +inf`
example :
    NodupKeys Props.C03z.exDb.dict ∧ ZCmd.zsetView Props.C03z.exDb.live [1] = some (ZSet.example3, some 50) ∧
    ZSet.example3.Inv ∧ ZSet.example3.get [97] = some (Dbl.ofInt 1) ∧ (Dbl.ofInt 1).toRat = some 1 ∧
    (Conv.float (strBytes "0.1")).toOption = some (.fin false 7205759403792794 (-56)) ∧
    Dbl.RN false (1 + 7205759403792794 / 2 ^ 56) = .fin false 4953959590107546 (-52) ∧
    Props.C03z.rv (HashSet.run "zincrby" Props.C03z.exCtx [[1], strBytes "0.1", [97]] Props.C03z.exDb).reply =
      Props.C03z.rv (.bulk (strBytes "1.1000000000000001")) ∧
    ZCmd.zsetView Props.C03z.exDb.live [5] = some (Props.C03z.exInf, none) ∧
    Props.C03z.exInf.get [97] = some (.inf false) ∧
    (Conv.float (strBytes "-inf")).toOption = some (.inf true) ∧
    Props.C03z.errOf (HashSet.run "zincrby" Props.C03z.exCtx [[5], strBytes "-inf", [97]] Props.C03z.exDb).reply =
      some (strBytes Msgs.SCORE_NAN_MSG) := by
  exact ⟨by decide, by rfl, Props.C03z.example3_inv, by decide +kernel, by decide +kernel, by decide +kernel,
    by decide +kernel, by decide +kernel, by rfl, by decide +kernel, by decide +kernel, by decide +kernel⟩

/-- **ZUNIONSTORE / ZINTERSTORE** (`WEIGHTS`, `AGGREGATE SUM`; vocabulary of C03s): the weighted score of an entry with
finite score `x` and finite weight `y` is the correctly rounded product; the aggregation of two finite contributions is the
correctly rounded sum; and the only NaNs that `nz` / `contrib` turn into `0.0` are `±inf · ±0` and `inf + (−inf)` -/
theorem zunion_arith (union : Bool) :
    (∀ (s0 w : Dbl) (x y : ℚ), s0.toRat = some x → w.toRat = some y →
      ZStore.contrib union s0 w = Dbl.RN (s0.signBit != w.signBit) (x * y)) ∧
    (∀ (old c : Dbl) (x y : ℚ), old.toRat = some x → c.toRat = some y →
      ZStore.combine (strBytes "sum") old c = Dbl.RN (c.signBit && old.signBit) (y + x)) ∧
    (∀ s0 w : Dbl, s0.isNaN = false → w.isNaN = false →
      ZStore.contrib true s0 w =
        if (s0.isInf = true ∧ w.isZero = true) ∨ (s0.isZero = true ∧ w.isInf = true) then Dbl.zero else s0.mul w) ∧
    (∀ old c : Dbl, old.isNaN = false → c.isNaN = false →
      ZStore.combine (strBytes "sum") old c =
        if ∃ s, c = .inf s ∧ old = .inf (!s) then Dbl.zero else c.add old) := by
  have nz_RN : ∀ z q, ZStore.nz (Dbl.RN z q) = Dbl.RN z q := by
    intro z q; unfold ZStore.nz; rw [FR.C18a.RN_not_nan]; rfl
  have sumdef : ∀ old c, ZStore.combine (strBytes "sum") old c = ZStore.nz (ZStore.nz (c.add old)) := by
    intro old c; unfold ZStore.combine; rw [if_pos (by simp)]
  have nanb : ∀ d : Dbl, d.isNaN = true ↔ d = .nan := by intro d; cases d <;> simp [Dbl.isNaN]
  refine ⟨fun s0 w x y hx hy => ?_, fun old c x y hx hy => ?_, fun s0 w h1 h2 => ?_, fun old c h1 h2 => ?_⟩
  · unfold ZStore.contrib
    rw [mul_eq_RN hx hy, FR.C18a.RN_not_nan]
    simp
  · rw [sumdef, add_eq_RN hy hx, nz_RN, nz_RN]
  · unfold ZStore.contrib
    have hiff := FR.C18a.mul_eq_nan_iff s0 w
    by_cases hc : (s0.isInf = true ∧ w.isZero = true) ∨ (s0.isZero = true ∧ w.isInf = true)
    · rw [if_pos hc, (nanb _).mpr (hiff.mpr (Or.inr (Or.inr hc)))]; rfl
    · rw [if_neg hc]
      have : ¬ (s0.mul w).isNaN = true := by
        rw [nanb, hiff]
        rintro (h | h | h)
        · subst h; cases h1
        · subst h; cases h2
        · exact hc h
      simp [this]
  · rw [sumdef]
    have hiff := FR.C18a.add_eq_nan_iff c old
    by_cases hc : ∃ s, c = .inf s ∧ old = .inf (!s)
    · rw [if_pos hc, hiff.mpr (Or.inr (Or.inr hc))]; rfl
    · rw [if_neg hc]
      have : ¬ (c.add old).isNaN = true := by
        rw [nanb, hiff]
        rintro (h | h | h)
        · subst h; cases h2
        · subst h; cases h1
        · exact hc h
      have e1 : ZStore.nz (c.add old) = c.add old := by unfold ZStore.nz; simp [this]
      rw [e1, e1]

example : ZStore.contrib true (Dbl.ofDecimal false 1 (-1)) (Dbl.ofInt 3) = .fin false 5404319552844596 (-54) ∧
    ZStore.combine (strBytes "sum") (Dbl.ofDecimal false 1 (-1)) (Dbl.ofDecimal false 2 (-1))
      = .fin false 5404319552844596 (-54) ∧
    ZStore.contrib true (.inf true) (.fin true 0 (-1074)) = Dbl.zero ∧
    (ZStore.contrib false (.inf true) (.fin true 0 (-1074))).isNaN = true ∧
    ZStore.combine (strBytes "sum") (.inf true) (.inf false) = Dbl.zero := by decide +kernel

/-! ## 6. Statements that are FALSE as first written (kernel-checked witnesses; all are genuine IEEE-754 behaviour) -/

/-- `roundPos` needs a positive denominator to return a well-formed double (every call site passes `1`, `2^k` or `10^k`) -/
theorem roundPos_wf_full_false : ¬ ∀ (neg : Bool) (num den : Nat), Dbl.WF (Dbl.roundPos neg num den) := by
  intro h
  exact absurd (h false 5 0) (by decide +kernel)

/-- `a + 0 = a` fails for `a = -0`: `(−0) + (+0) = +0` -/
theorem add_zero_full_false :
    ¬ ∀ d : Dbl, Dbl.WF d → d.isFinite = true → Dbl.add d Dbl.zero = d := by
  intro h
  exact absurd (h (.fin true 0 (-1074)) (by decide) rfl) (by decide +kernel)

/-- `ofInt i * ofInt j = ofInt (i * j)` fails for a zero product with a negative factor: `0 * (−5) = −0 ≠ +0 = ofInt 0` -/
theorem mul_ofInt_full_false :
    ¬ ∀ i j : Int, i.natAbs ≤ 2 ^ 53 → j.natAbs ≤ 2 ^ 53 → Dbl.mul (Dbl.ofInt i) (Dbl.ofInt j) = Dbl.ofInt (i * j) := by
  intro h
  exact absurd (h 0 (-5) (by decide) (by decide)) (by decide +kernel)

/-- `toBits (ofBits b) = b` fails on NaN patterns other than `0x7FF8000000000000` (here: the negative quiet NaN with
payload 1): the model has a single NaN -/
theorem toBits_ofBits_full_false : ¬ ∀ b : UInt64, Dbl.toBits (Dbl.ofBits b) = b := by
  intro h
  exact absurd (h 0xFFF8000000000001) (by decide +kernel)

end FR.Props.C18a
