import FR.Proofs.DbFrame
/-!
# C13 (system level) — the databases of a server are independent keyspaces

All statements are about `processCommand` (`_process_command`: clean-up of closed sockets, clock refresh, arity check,
MULTI queueing, `_run_command`, the special bodies, EXEC, write-back), i.e. about complete requests, for **every**
command of the signature table — not only the regular ones of `FR/Props/C13.lean`.

* `s.conn c` is the record `getConn c` returns; `(s.conn c).db` the database selected on connection `c`.
* `cmdName fields` is the lower-cased command name of the request.
* the exclusion lists are tight: `*_touches_other_db` give, for every excluded command, a concrete request that changes
  a database other than the selected one.
-/
namespace FR.Props.C13s
open FR FR.M FR.DbFrame
set_option linter.unusedVariables false

/-- the commands that may read or write a database other than the selected one -/
def crossDb : List String := ["swapdb", "move", "flushall", "exec", "eval", "evalsha"]

/-! ## 1. Frame: one request -/

/-- **Frame.**  A request of connection `c` whose command is none of SELECT, SWAPDB, MOVE, FLUSHALL, EXEC, EVAL, EVALSHA
(unknown commands, arity errors and commands queued by MULTI included) leaves every database other than the one
selected on `c` identical. -/
theorem request_frame (mode : Mode) (c : Nat) (fields : List Bytes) (s : Sys)
    (hname : cmdName fields ∉ "select" :: crossDb) :
    ∀ j, j ≠ (s.conn c).db →
      (processCommand mode c fields s).2.srv.dbs.getD j [] = s.srv.dbs.getD j [] := by
  simp only [crossDb, List.mem_cons, List.not_mem_nil, or_false, not_or] at hname
  obtain ⟨h0, h1, h2, h3, h4, h5, h6⟩ := hname
  intro j hj
  have hrel := processCommand_rel (T := fun j => j = (s.conn c).db) (c := c) (A := fun _ => True)
    (D1 := s.srv.dbs) (D2 := s.srv.dbs) mode fields ⟨h1, h2, h3, fun h => absurd h h0, h5, h6⟩ h5 h6 trivial
    (fun h => absurd h h4)
  exact (hrel s s (Sim.refl s (fun _ => rfl) (fun _ _ _ _ => trivial))).2.off1 j hj

example : cmdName [strBytes "FLUSHDB"] ∉ "select" :: crossDb := by decide +kernel


/-- **SELECT only changes the connection** (any target, valid or not, queued or not): two states that agree except for
the databases outside `T ∋` selected database give the same replies, agree afterwards, and every database outside `T`
is unchanged in both.  Afterwards the connection may be selected outside `T`. -/
theorem select_request (T : Nat → Prop) (mode : Mode) (c : Nat) (fields : List Bytes) (hname : cmdName fields = "select")
    {s1 s2 : Sys} (h : Agree T s1 s2) (hsel : T (s1.conn c).db) :
    (processCommand mode c fields s2).2.out = (processCommand mode c fields s1).2.out ∧
    Agree T (processCommand mode c fields s1).2 (processCommand mode c fields s2).2 ∧
    (∀ j, ¬ T j → (processCommand mode c fields s1).2.srv.dbs.getD j [] = s1.srv.dbs.getD j []) ∧
    (∀ j, ¬ T j → (processCommand mode c fields s2).2.srv.dbs.getD j [] = s2.srv.dbs.getD j []) := by
  have := Rel2.run (T := T) (c := c) (b := true) (b' := false) (A := fun _ => True)
    (fun D1 D2 => processCommand_select_rel2 mode fields hname trivial) h (fun _ => hsel) (fun _ _ _ _ => trivial)
  exact ⟨this.2.1.out, this.2.1, this.2.2.1, this.2.2.2.1⟩

/-- frame for SELECT: every database other than the one selected before the request is identical -/
theorem select_request_frame (mode : Mode) (c : Nat) (fields : List Bytes) (s : Sys) (hname : cmdName fields = "select") :
    ∀ j, j ≠ (s.conn c).db →
      (processCommand mode c fields s).2.srv.dbs.getD j [] = s.srv.dbs.getD j [] :=
  fun j hj => (select_request (fun j => j = (s.conn c).db) mode c fields hname (Agree.refl _ s) rfl).2.2.1 j hj

/-! ## 2. Exact effect of the cross-database commands (their bodies, as dispatched by `special`) -/

/-- **SWAPDB a b** (`a ≠ b`, both existing): answers OK; database `a` holds the (purged) former dictionary of `b` and
vice versa; every other database is identical; apart from the databases and the watch / wake flags of the connection
records (`noConns` forgets these) nothing changes. -/
theorem swapdb_exchanges (i1 i2 : Int) (cis : List CI) (s : Sys) (hne : i1.toNat ≠ i2.toNat)
    (h1 : i1.toNat < s.srv.dbs.length) (h2 : i2.toNat < s.srv.dbs.length) :
    let r := swapdbCmd [.int i1, .int i2] cis s
    r.1 = .ok (some .ok, cis) ∧
    r.2.srv.dbs.getD i1.toNat [] = purgeAt s.srv.time (s.srv.dbs.getD i2.toNat []) ∧
    r.2.srv.dbs.getD i2.toNat [] = purgeAt s.srv.time (s.srv.dbs.getD i1.toNat []) ∧
    (∀ j, j ≠ i1.toNat → j ≠ i2.toNat → r.2.srv.dbs.getD j [] = s.srv.dbs.getD j []) ∧
    r.2.srv.dbs.length = s.srv.dbs.length ∧
    noConns r.2 = noConns { s with srv := { s.srv with dbs := r.2.srv.dbs } } := by
  intro r
  have hne' : i1 ≠ i2 := fun e => hne (by rw [e])
  obtain ⟨hr, hs⟩ := swapdbCmd_ne i1 i2 cis s hne'
  have hd : r.2.srv.dbs = swapDbs s.srv.dbs s.srv.time i1.toNat i2.toNat := congrArg (fun s => s.srv.dbs) hs
  obtain ⟨s1, s2, s3, s4⟩ := swapDbs_spec s.srv.dbs s.srv.time i1.toNat i2.toNat hne h1 h2
  refine ⟨hr, ?_, ?_, ?_, ?_, ?_⟩
  · rw [hd]; exact s1
  · rw [hd]; exact s2
  · intro j ha hb; rw [hd]; exact s3 j ha hb
  · rw [hd]; exact s4
  · rw [hd]; exact hs

/-- SWAPDB a a: OK, nothing changes -/
theorem swapdb_same_index (i : Int) (cis : List CI) (s : Sys) :
    swapdbCmd [.int i, .int i] cis s = (.ok (some .ok, cis), s) := swapdbCmd_same i cis s

/-- SWAPDB with an invalid index (not an integer in 0..15): the state is unchanged; the reply is the error of the
converter — unless the connection is in subscriber mode: `_run_command` refuses it before looking at the arguments -/
theorem swapdb_invalid_index (special : SpecialFn) (mode : Mode) (c : Nat) (x y : Bytes) (fromScript : Bool)
    (s : Sys) (e : Err)
    (h : Conv.dbIndex x = .error e ∨ (∃ i, Conv.dbIndex x = .ok i ∧ Conv.dbIndex y = .error e)) :
    SigTable.find "swapdb" = some swapdbSig ∧
    runWith special mode c swapdbSig [x, y] fromScript s =
      (some (if s.refuses c swapdbSig then refusalReply else .err (strBytes e)), s) :=
  ⟨find_swapdb, swapdb_invalid_unchanged special mode c x y fromScript s e h⟩

example : (match Conv.dbIndex (strBytes "16") with | .error e => e == Msgs.INVALID_DB_MSG | .ok _ => false) = true := by
  decide +kernel

-- both replies occur: an ordinary connection is not refused, a subscribed one is
example : ({ srv := { conns := [{ id := 7 }] } } : Sys).refuses 7 swapdbSig = false ∧
    ({ srv := { conns := [{ id := 7, pubsub := 1 }] } } : Sys).refuses 7 swapdbSig = true := by decide

/-- **MOVE k j**, `k` live in the selected database `d` and not live in `j ≠ d`: answers 1; database `j` gains exactly
the item found in `d` (value and deadline); `d` itself is only purged by the body — the key's `CommandItem` is handed
back with value `None`, and its write-back in `_run_command` deletes the key from `d`; all other databases identical. -/
theorem move_moves (d k : Nat) (dst : Int) (cis : List CI) (s : Sys) (h : dst.toNat ≠ d)
    (hd : d < s.srv.dbs.length) (hj : dst.toNat < s.srv.dbs.length) (hk : (ciAt cis k).truthy = true)
    (hdst : (Db.get ⟨s.srv.dbs.getD dst.toNat [], s.srv.time⟩ (ciAt cis k).key).2 = none) (it : Item)
    (hsrc : (Db.get ⟨s.srv.dbs.getD d [], s.srv.time⟩ (ciAt cis k).key).2 = some it) :
    (moveCmd d [.key k, .int dst] cis s).1 = .ok (some (.int 1), cis.set k ((ciAt cis k).setValue none)) ∧
    (moveCmd d [.key k, .int dst] cis s).2.srv.dbs.getD dst.toNat [] =
      Db.setRaw (Db.get ⟨s.srv.dbs.getD dst.toNat [], s.srv.time⟩ (ciAt cis k).key).1.dict (ciAt cis k).key it ∧
    (moveCmd d [.key k, .int dst] cis s).2.srv.dbs.getD d [] =
      (Db.get ⟨s.srv.dbs.getD d [], s.srv.time⟩ (ciAt cis k).key).1.dict ∧
    (∀ j, j ≠ d → j ≠ dst.toNat → (moveCmd d [.key k, .int dst] cis s).2.srv.dbs.getD j [] = s.srv.dbs.getD j []) :=
  moveCmd_moves_dbs d k dst cis s h hd hj hk hdst it hsrc

/-- MOVE refused: key live in the target (answer 0, target at most purged of an expired entry under that key),
key missing in the source (answer 0, nothing changes), target = selected database (error, nothing changes) -/
theorem move_refused (d k : Nat) (dst : Int) (cis : List CI) (s : Sys) :
    (dst.toNat = d → moveCmd d [.key k, .int dst] cis s = (.error Msgs.SRC_DST_SAME_MSG, s)) ∧
    (dst.toNat ≠ d → (ciAt cis k).truthy = false → moveCmd d [.key k, .int dst] cis s = (.ok (some (.int 0), cis), s)) ∧
    (dst.toNat ≠ d → (ciAt cis k).truthy = true →
      ((Db.get ⟨s.srv.dbs.getD dst.toNat [], s.srv.time⟩ (ciAt cis k).key).2).isSome = true →
      moveCmd d [.key k, .int dst] cis s = (.ok (some (.int 0), cis),
        { s with srv := { s.srv with dbs := (s.srv.dbs.set dst.toNat
          (Db.get ⟨s.srv.dbs.getD dst.toNat [], s.srv.time⟩ (ciAt cis k).key).1.dict) } })) :=
  ⟨moveCmd_same d k dst cis s, moveCmd_missing d k dst cis s, moveCmd_present d k dst cis s⟩

/-- **FLUSHALL** empties every database; **FLUSHDB** empties the selected one and leaves the others identical -/
theorem flushall_empties_all (inner : Inner) (mode : Mode) (c : Nat) (args : List Arg) (cis : List CI) (s : Sys)
    (hok : flushArgsOk (Cmd.rawArgs args) = true) (hlen : s.srv.dbs.length ≤ 16) :
    (special inner mode c "flushall" args cis s).1 = .ok (some .ok, cis) ∧
    ∀ j, (special inner mode c "flushall" args cis s).2.srv.dbs.getD j [] = [] :=
  special_flushall inner mode c args cis s hok hlen

theorem flushdb_empties_selected (inner : Inner) (mode : Mode) (c : Nat) (args : List Arg) (cis : List CI) (s : Sys)
    (hok : flushArgsOk (Cmd.rawArgs args) = true) (hd : (s.conn c).db < s.srv.dbs.length) :
    (special inner mode c "flushdb" args cis s).1 = .ok (some .ok, cis) ∧
    (special inner mode c "flushdb" args cis s).2.srv.dbs.getD (s.conn c).db [] = [] ∧
    ∀ j, j ≠ (s.conn c).db → (special inner mode c "flushdb" args cis s).2.srv.dbs.getD j [] = s.srv.dbs.getD j [] := by
  obtain ⟨h1, h2⟩ := special_flushdb inner mode c args cis s hok
  refine ⟨h1, ?_, ?_⟩
  · rw [h2]; exact getD_set_self _ _ _ _ hd
  · intro j hj; rw [h2]; exact getD_set_ne _ _ _ _ _ hj

example : flushArgsOk (Cmd.rawArgs []) = true := by decide

/-! ## 3. EXEC -/

theorem qallowed_of_name (T : Nat → Prop) (n : String) (args : List Bytes) (h1 : n ≠ "swapdb") (h2 : n ≠ "move")
    (h3 : n ≠ "flushall") (hs : n = "select" → ∀ k, selTarget args = some k → T k)
    (h4 : n ≠ "eval") (h5 : n ≠ "evalsha") : QAllowed T (n, args) :=
  ⟨h1, h2, h3, hs, h4, h5⟩

/-- the databases named by the SELECTs of a queue -/
def selTargets (q : Queue) : List Nat := q.filterMap fun e => if e.1 = "select" then selTarget e.2 else none

/-- **EXEC.**  If no queued command is SWAPDB, MOVE, FLUSHALL, EVAL or EVALSHA, an EXEC request leaves identical every
database that is neither the selected one nor the target of a queued SELECT.  (A queued EVAL / EVALSHA is executed by
EXEC exactly like a direct one, so it is excluded exactly like a direct one: the script may SELECT, FLUSHALL, … .) -/
theorem exec_frame (mode : Mode) (c : Nat) (fields : List Bytes) (s : Sys) (hname : cmdName fields = "exec")
    (hq : ∀ q, (s.conn c).tx = some q → ∀ e ∈ q, e.1 ∉ ["swapdb", "move", "flushall", "eval", "evalsha"]) :
    ∀ j, j ≠ (s.conn c).db → (∀ q, (s.conn c).tx = some q → j ∉ selTargets q) →
      (processCommand mode c fields s).2.srv.dbs.getD j [] = s.srv.dbs.getD j [] := by
  intro j hj hjq
  let T : Nat → Prop := fun j => j = (s.conn c).db ∨ ∃ q, (s.conn c).tx = some q ∧ j ∈ selTargets q
  have hqa : ∀ q, (s.conn c).tx = some q → ∀ e ∈ q, QAllowed T e := by
    intro q hq' e he
    have := hq q hq' e he
    simp only [List.mem_cons, List.not_mem_nil, or_false, not_or] at this
    refine ⟨this.1, this.2.1, this.2.2.1, fun hsel k hk => Or.inr ⟨q, hq', ?_⟩, this.2.2.2.1, this.2.2.2.2⟩
    exact List.mem_filterMap.2 ⟨e, he, by simp [hsel, hk]⟩
  have hself : QAllowed T (cmdName fields, fields.tail) := by
    rw [hname]
    exact qallowed_of_name T "exec" _ (by decide) (by decide) (by decide) (fun h => absurd h (by decide))
      (by decide) (by decide)
  have hrel := processCommand_rel (T := T) (c := c) (A := QAllowed T) (D1 := s.srv.dbs) (D2 := s.srv.dbs) mode fields
    hself (by rw [hname]; decide) (by rw [hname]; decide) hself (fun _ _ h => h)
  refine (hrel s s (Sim.refl s (fun _ => Or.inl rfl) hqa)).2.off1 j ?_
  rintro (h | ⟨q, hq', hm⟩)
  · exact hj h
  · exact hjq q hq' hm

/-- EXEC without queued SELECT, SWAPDB, MOVE, FLUSHALL, EVAL, EVALSHA: every database other than the selected one is
identical -/
theorem exec_frame_noselect (mode : Mode) (c : Nat) (fields : List Bytes) (s : Sys) (hname : cmdName fields = "exec")
    (hq : ∀ q, (s.conn c).tx = some q → ∀ e ∈ q, e.1 ∉ ["select", "swapdb", "move", "flushall", "eval", "evalsha"]) :
    ∀ j, j ≠ (s.conn c).db →
      (processCommand mode c fields s).2.srv.dbs.getD j [] = s.srv.dbs.getD j [] := by
  intro j hj
  refine exec_frame mode c fields s hname ?_ j hj ?_
  · intro q hq' e he
    have := hq q hq' e he
    simp only [List.mem_cons, List.not_mem_nil, or_false, not_or] at this ⊢
    exact this.2
  · intro q hq' hm
    obtain ⟨e, he, h⟩ := List.mem_filterMap.1 hm
    have := hq q hq' e he
    simp only [List.mem_cons, List.not_mem_nil, or_false, not_or] at this
    simp [this.1] at h

example : cmdName [strBytes "ExEc"] = "exec" := by decide +kernel
example : selTargets [("select", [strBytes "3"]), ("set", [strBytes "k", strBytes "v"])] = [3] := by decide +kernel

/-! ## 4. Non-interference -/

/-- **Non-interference, one request.**  Two states that agree on everything except the content of the databases outside
`T` (`Agree T s₁ s₂`: `s₂` is `s₁` with other dictionaries outside `T`, as many databases), the same request of a
connection selected on a database of `T`, the command being none of SWAPDB, MOVE, FLUSHALL, EVAL, EVALSHA, a SELECT
only to a database of `T`, and (for EXEC, and for what MULTI queues) only such commands in the queue of `c`:
the replies are the same, the final states agree again, and every database outside `T` is unchanged in both runs.
The side conditions hold again afterwards, so the theorem can be iterated. -/
theorem request_noninterference (T : Nat → Prop) (mode : Mode) (c : Nat) (fields : List Bytes) (hok : ReqOk T fields)
    {s1 s2 : Sys} (h : Agree T s1 s2) (hsel : T (s1.conn c).db)
    (hq : ∀ q, (s1.conn c).tx = some q → ∀ e ∈ q, QAllowed T e) :
    (processCommand mode c fields s2).2.out = (processCommand mode c fields s1).2.out ∧
    Agree T (processCommand mode c fields s1).2 (processCommand mode c fields s2).2 ∧
    (∀ j, ¬ T j → (processCommand mode c fields s1).2.srv.dbs.getD j [] = s1.srv.dbs.getD j []) ∧
    (∀ j, ¬ T j → (processCommand mode c fields s2).2.srv.dbs.getD j [] = s2.srv.dbs.getD j []) ∧
    T ((processCommand mode c fields s1).2.conn c).db ∧
    (∀ q, ((processCommand mode c fields s1).2.conn c).tx = some q → ∀ e ∈ q, QAllowed T e) := by
  have := processCommand_run T mode c fields hok h hsel hq
  exact ⟨this.1.out, this⟩

/-- the hypothesis `ReqOk` for the single-database case, as a check on the command name -/
theorem reqOk_of_name (i : Nat) (fields : List Bytes) (h : cmdName fields ∉ "select" :: crossDb) :
    ReqOk (fun j => j = i) fields := by
  simp only [crossDb, List.mem_cons, List.not_mem_nil, or_false, not_or] at h
  exact ⟨⟨h.2.1, h.2.2.1, h.2.2.2.1, fun hs => absurd hs h.1, h.2.2.2.2.2.1, h.2.2.2.2.2.2⟩, h.2.2.2.2.2.1, h.2.2.2.2.2.2⟩

/-- SELECT of the database the connection is already restricted to is covered as well -/
theorem reqOk_select (T : Nat → Prop) (nameB b : Bytes) (k : Int) (hn : commandName nameB = some "select")
    (hb : Conv.dbIndex b = .ok k) (hT : T k.toNat) : ReqOk T [nameB, b] := by
  have : cmdName [nameB, b] = "select" := by simp [cmdName, hn]
  rw [ReqOk, this]
  refine ⟨qallowed_of_name T "select" _ (by decide) (by decide) (by decide) (fun _ k' hk' => ?_)
    (by decide) (by decide), by decide, by decide⟩
  simp only [List.tail_cons, selTarget, hb, Option.some.injEq] at hk'
  exact hk' ▸ hT

/-- **Non-interference, histories.**  For every history of events run on two states that agree except for the databases
outside `T` — requests of connections selected on `T` with `ReqOk` commands, wake-ups of connections parked on `T`,
time-outs, opening / closing / collecting connections, version and outage switches (`OkHist`, judged along the first
run) — the per-event replies are the same, the final states agree, and the databases outside `T` are untouched. -/
theorem history_noninterference (T : Nat → Prop) (evs : List Ev) {s1 s2 : Sys} (h : Agree T s1 s2)
    (hok : OkHist T s1 evs) :
    outs s2 evs = outs s1 evs ∧ Agree T (evs.foldl stepEv s1) (evs.foldl stepEv s2) ∧
    (∀ j, ¬ T j → (evs.foldl stepEv s1).srv.dbs.getD j [] = s1.srv.dbs.getD j []) ∧
    (∀ j, ¬ T j → (evs.foldl stepEv s2).srv.dbs.getD j [] = s2.srv.dbs.getD j []) := by
  have := history_agree evs h hok
  exact ⟨this.1, this.2.agree, this.2.off1, this.2.off2⟩

/-- the history form of the property: command histories run on database `i`, arbitrary content in the others -/
theorem history_independent_of_other_dbs (i : Nat) (evs : List Ev) (s : Sys) (dbs2 : List Dict)
    (hlen : dbs2.length = s.srv.dbs.length) (hi : dbs2.getD i [] = s.srv.dbs.getD i [])
    (hok : OkHist (fun j => j = i) s evs) :
    outs (withDbs s dbs2) evs = outs s evs ∧
    (∀ j, j ≠ i → (evs.foldl stepEv s).srv.dbs.getD j [] = s.srv.dbs.getD j []) ∧
    (∀ j, j ≠ i → (evs.foldl stepEv (withDbs s dbs2)).srv.dbs.getD j [] = dbs2.getD j []) ∧
    (evs.foldl stepEv (withDbs s dbs2)).srv.dbs.getD i [] = (evs.foldl stepEv s).srv.dbs.getD i [] := by
  have hag : Agree (fun j => j = i) s (withDbs s dbs2) := ⟨rfl, hlen, fun j hj => by subst hj; exact hi⟩
  have := history_noninterference _ evs hag hok
  exact ⟨this.1, this.2.2.1, this.2.2.2, this.2.1.on i rfl⟩


/-! ## 5. Blocked connections -/

/-- **Wake-up.**  `wakeConn c` (one turn of the `_blocking` loop of a connection parked by BLPOP / BRPOP / BRPOPLPUSH)
only touches the database the connection was parked on (`Parked.db`), whatever database is selected by now. -/
theorem wake_frame (c : Nat) (s : Sys) (p : Parked) (hp : (s.conn c).parked = some p) :
    ∀ j, j ≠ p.db → (wakeConn c s).2.srv.dbs.getD j [] = s.srv.dbs.getD j [] := by
  intro j hj
  have hs : Sim (fun j => j = p.db) c false (fun _ => True) s.srv.dbs s.srv.dbs s s :=
    Sim.refl s (fun h => nomatch h) (fun _ _ _ _ => trivial)
  have hpark : ParkedIn (fun j => j = p.db) c s := by
    intro p' hp'
    rw [hp] at hp'
    cases hp'
    rfl
  exact (wakeConn_rel c s s ⟨hs, hpark⟩).2.off1 j hj

/-- a wake-up of a connection that is not parked, and every time-out, touch no database at all -/
theorem wake_unparked_frame (c : Nat) (s : Sys) (hp : (s.conn c).parked = none) :
    ∀ j, (wakeConn c s).2.srv.dbs.getD j [] = s.srv.dbs.getD j [] := by
  intro j
  have hs : Sim (fun _ => False) c false (fun _ => True) s.srv.dbs s.srv.dbs s s :=
    Sim.refl s (fun h => nomatch h) (fun _ _ _ _ => trivial)
  have hpark : ParkedIn (fun _ => False) c s := by
    intro p' hp'
    rw [hp] at hp'
    cases hp'
  exact (wakeConn_rel c s s ⟨hs, hpark⟩).2.off1 j id

theorem timeout_frame (c : Nat) (s : Sys) :
    ∀ j, (timeoutConn c s).2.srv.dbs.getD j [] = s.srv.dbs.getD j [] := by
  intro j
  have hs : Sim (fun _ => False) c false (fun _ => True) s.srv.dbs s.srv.dbs s s :=
    Sim.refl s (fun h => nomatch h) (fun _ _ _ _ => trivial)
  exact (timeoutConn_rel c s s hs).2.off1 j id

/-- **asyncio wake-up.**  `wakeConnAsync` is the wake-up proper, which only touches the database the connection was
parked on, followed — when the pop was served or failed — by the parser resuming (`resume`: `drain` of what was
pipelined behind the blocking pop, i.e. ordinary requests, to which the request theorems apply). -/
theorem awake_frame (mode : Mode) (c : Nat) (s : Sys) (p : Parked) (hp : (s.conn c).parked = some p) :
    ∃ s', (∀ j, j ≠ p.db → s'.srv.dbs.getD j [] = s.srv.dbs.getD j []) ∧
      ((wakeConnAsync mode c s).2 = s' ∨ (wakeConnAsync mode c s).2 = (resume mode c s').2) := by
  have hs : Sim (fun j => j = p.db) c false (fun _ => True) s.srv.dbs s.srv.dbs s s :=
    Sim.refl s (fun h => nomatch h) (fun _ _ _ _ => trivial)
  have hpark : ParkedIn (fun j => j = p.db) c s := by
    intro p' hp'
    rw [hp] at hp'
    cases hp'
    rfl
  obtain ⟨_, s1', s2', hr, h⟩ := wakeConnAsync_rel mode c s s ⟨hs, hpark⟩
  refine ⟨s1', hr.off1, ?_⟩
  rcases h with h | h
  · exact Or.inl h.1
  · exact Or.inr h.1

/-- **asyncio time-out**: touches no database; then the parser resumes -/
theorem atimeout_frame (mode : Mode) (c : Nat) (s : Sys) :
    ∃ s', (∀ j, s'.srv.dbs.getD j [] = s.srv.dbs.getD j []) ∧
      ((timeoutConnAsync mode c s).2 = s' ∨ (timeoutConnAsync mode c s).2 = (resume mode c s').2) := by
  have hs : Sim (fun _ => False) c false (fun _ => True) s.srv.dbs s.srv.dbs s s :=
    Sim.refl s (fun h => nomatch h) (fun _ _ _ _ => trivial)
  obtain ⟨_, s1', s2', hr, h⟩ := timeoutConnAsync_rel mode c s s hs
  refine ⟨s1', fun j => hr.off1 j id, ?_⟩
  rcases h with h | h
  · exact Or.inl h.1
  · exact Or.inr h.1

/-- non-vacuity: connection 7, now selected on database 2, is parked on database 1 where the list `k` has arrived -/
example : ∃ (s : Sys) (p : Parked), (s.conn 7).parked = some p ∧ p.db = 1 ∧ (s.conn 7).db = 2 ∧
    (s.srv.dbs.getD 1 []).map Prod.fst = [[107]] ∧ ((wakeConn 7 s).2.srv.dbs.getD 1 []).map Prod.fst = [] ∧
    (wakeConn 7 s).2.out.length = 1 :=
  ⟨{ srv := { dbs := (List.replicate 16 []).set 1 [([107], ⟨.list [[97]], none⟩)],
              conns := [{ id := 7, db := 2, parked := some { kind := "blpop", keys := [[107]], db := 1, deadline := none } }] } },
    _, rfl, rfl, rfl, by decide +kernel, by decide +kernel, by decide +kernel⟩


/-! ## 6. The exclusion lists are tight

For every command excluded from `request_frame` a concrete request of connection 7 (selected on database 0) that
changes database 1 (or 2).  `fault = none`: the model followed the run without complaint, so the runs can be
replayed on the Python code as they stand. -/

/-- the keys stored in database `j` -/
def keysOf (s : Sys) (j : Nat) : List Bytes := (s.srv.dbs.getD j []).map Prod.fst

/-- database 1 holds the key `k`; one connection (id 7) selected on database 0 -/
def w0 : Sys :=
  { srv := { dbs := (List.replicate 16 []).set 1 [(strBytes "k", ⟨.str (strBytes "v"), none⟩)], conns := [{ id := 7 }] },
    clocks := [0, 0, 0] }

/-- as `w0`, but the key is in database 0 (the selected one) -/
def w1 : Sys :=
  { srv := { dbs := (List.replicate 16 []).set 0 [(strBytes "k", ⟨.str (strBytes "v"), none⟩)], conns := [{ id := 7 }] },
    clocks := [0, 0, 0] }

/-- connection 7 (selected on 0) has queued `SELECT 1; SET k v` -/
def w2 : Sys :=
  { srv := { conns := [{ id := 7, tx := some [("select", [strBytes "1"]), ("set", [strBytes "k", strBytes "v"])] }] },
    clocks := [0, 0, 0] }

theorem flushall_touches_other_db :
    (w0.conn 7).db = 0 ∧ keysOf w0 1 = [strBytes "k"] ∧
    keysOf (processCommand {} 7 [strBytes "FLUSHALL"] w0).2 1 = [] ∧
    (processCommand {} 7 [strBytes "FLUSHALL"] w0).2.fault = none := by decide +kernel

theorem swapdb_touches_other_db :
    keysOf (processCommand {} 7 [strBytes "SWAPDB", strBytes "1", strBytes "2"] w0).2 1 = [] ∧
    keysOf (processCommand {} 7 [strBytes "SWAPDB", strBytes "1", strBytes "2"] w0).2 2 = [strBytes "k"] ∧
    (processCommand {} 7 [strBytes "SWAPDB", strBytes "1", strBytes "2"] w0).2.fault = none := by
  decide +kernel

theorem move_touches_other_db :
    keysOf w1 1 = [] ∧
    keysOf (processCommand {} 7 [strBytes "MOVE", strBytes "k", strBytes "1"] w1).2 1 = [strBytes "k"] ∧
    keysOf (processCommand {} 7 [strBytes "MOVE", strBytes "k", strBytes "1"] w1).2 0 = [] ∧
    (processCommand {} 7 [strBytes "MOVE", strBytes "k", strBytes "1"] w1).2.fault = none := by
  decide +kernel

/-- EXEC of `SELECT 1; SET k v`: each queued command alone satisfies the frame, the transaction does not -/
theorem exec_touches_other_db :
    keysOf w2 1 = [] ∧
    keysOf (processCommand {} 7 [strBytes "EXEC"] w2).2 1 = [strBytes "k"] ∧
    (processCommand {} 7 [strBytes "EXEC"] w2).2.fault = none := by
  decide +kernel

/-- and the same witness shows that the SELECT clause of `exec_frame` cannot be dropped: database 1 is a queued
SELECT target -/
example : selTargets [("select", [strBytes "1"]), ("set", [strBytes "k", strBytes "v"])] = [1] := by decide +kernel

/-- EVAL / EVALSHA: a script call `redis.call('flushall')` — `runFromScript`, what `runTrace` runs for a `call` hint —
on connection 7 (selected on 0) empties database 1.  (A complete EVAL request cannot be evaluated by `decide`: the
hint parser `LuaVal.parse` is defined by well-founded recursion; `#eval` of the request
`EVAL "redis.call('flushall')" 0` with the recorded trace gives the same result.) -/
theorem script_call_touches_other_db :
    keysOf (runFromScript (special stubInner) {} 7 (.str (strBytes "flushall")) [] w0).2 1 = [] ∧
    (runFromScript (special stubInner) {} 7 (.str (strBytes "flushall")) [] w0).2.fault = none := by
  decide +kernel

/-- SELECT is not in `crossDb`: it does not touch any database (`select_request_frame`), but after it the connection
is selected elsewhere, so it is excluded from the *iterated* statements unless it stays inside `T` -/
theorem select_changes_selected_db :
    ((processCommand {} 7 [strBytes "SELECT", strBytes "1"] w0).2.conn 7).db = 1 := by decide +kernel

/-- non-vacuity of `exec_frame`: for the queue of `w2` it yields that database 2 (neither selected nor a SELECT target)
is untouched, while database 1 (a SELECT target) is changed (`exec_touches_other_db`) -/
example : (processCommand {} 7 [strBytes "EXEC"] w2).2.srv.dbs.getD 2 [] = w2.srv.dbs.getD 2 [] := by
  have htx : (w2.conn 7).tx = some [("select", [strBytes "1"]), ("set", [strBytes "k", strBytes "v"])] := by
    decide +kernel
  refine exec_frame {} 7 [strBytes "EXEC"] w2 (by decide +kernel) ?_ 2 (by decide +kernel) ?_
  · intro q hq
    rw [htx] at hq
    cases hq
    decide +kernel
  · intro q hq
    rw [htx] at hq
    cases hq
    decide +kernel

/-! ## non-vacuity of the history theorem -/

/-- `SET k v; GET k; DBSIZE` on connection 7 -/
def hist0 : List Ev :=
  [.request {} 7 [strBytes "SET", strBytes "k", strBytes "v"] [0] [],
   .request {} 7 [strBytes "GET", strBytes "k"] [0] [],
   .request {} 7 [strBytes "DBSIZE"] [0] []]

theorem tx_none_ok {T : Nat → Prop} {t : Option Queue} (h : t = none) :
    ∀ q, t = some q → ∀ e ∈ q, QAllowed T e := by
  subst h; intro q hq; cases hq

theorem hist0_ok : OkHist (fun j => j = 0) w0 hist0 := by
  have hr : ∀ f, cmdName f ∉ "select" :: crossDb → ReqOk (fun j => j = 0) f := reqOk_of_name 0
  exact ⟨⟨by decide +kernel, tx_none_ok (by decide +kernel), hr _ (by decide +kernel)⟩,
    ⟨by decide +kernel, tx_none_ok (by decide +kernel), hr _ (by decide +kernel)⟩,
    ⟨by decide +kernel, tx_none_ok (by decide +kernel), hr _ (by decide +kernel)⟩, trivial⟩

/-- the replies of `hist0` do not depend on database 1 holding `k` or not -/
example : outs (withDbs w0 (List.replicate 16 [])) hist0 = outs w0 hist0 :=
  (history_independent_of_other_dbs 0 hist0 w0 (List.replicate 16 []) (by decide +kernel) rfl hist0_ok).1

end FR.Props.C13s
