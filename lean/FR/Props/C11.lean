import FR.Proofs.Blocking
/-!
# C11 — blocking pops (BLPOP / BRPOP / BRPOPLPUSH): conservation, key order, parking, wake-ups

Vocabulary (`FR/Proofs/System.lean`, `FR/Proofs/Blocking.lean`, `FR/Proofs/Runner.lean`):
* `s.conn c` is the connection record `getConn c` returns in `s`; `s.HasConn c`: `c` is registered;
* `s.dbAt i` is the database `getDb i` returns in `s` (`dbAt_def`);
* `db.live k` is the entry of `k` after purging expired entries (`live_def`);
* `NodupKeys`, `NoEmpty` are the two dict invariants of `FR/Proofs/Db.lean` (unique keys; no stored
  empty collection).  `Sys.out` lists the emitted replies newest first.
-/
namespace FR.Props.C11
open FR FR.M FR.Db

theorem dbAt_def (s : Sys) (i : Nat) : s.dbAt i = (getDb i s).1 := rfl
theorem live_def (db : Db) (k : Bytes) : db.live k = (Db.purge db).dict.lookup k := rfl

/-! ## 1. the pop itself loses and duplicates nothing -/

theorem bpop_pop_conserves (l : List Bytes) (h : l ≠ []) :
    (∃ x rem, Cmd.popLeftN l 1 = ([x], rem) ∧ x :: rem = l) ∧
    (∃ x rem, Cmd.popRightN l 1 = ([x], rem) ∧ rem ++ [x] = l) :=
  ⟨popLeftN_one h, popRightN_one h⟩

/-! ## 2. a served pass pops from the first key (in argument order) holding a live list -/

/-- Hypotheses: the two dict invariants — unique keys, and no stored empty list (a stored `.list []`
would be "popped" with a nil element, see the example at the end). -/
theorem bpopPass_served_in_key_order (d : Nat) (left first : Bool) (keys : List Bytes) (s : Sys) (r : Reply)
    (nd : NodupKeys (s.dbAt d).dict) (ne : NoEmpty (s.dbAt d).dict)
    (h : (bpopPass d left first keys s).1 = .ok (some r)) :
    ∃ (pre : List Bytes) (k : Bytes) (post : List Bytes) (it : Item) (l : List Bytes) (x : Bytes) (rem : List Bytes),
      keys = pre ++ k :: post ∧
      -- every earlier key was missing / expired, or (later passes only) of another type
      (∀ k' ∈ pre, ∀ it', (s.dbAt d).live k' = some it' → first = false ∧ ∀ l', it'.value ≠ .list l') ∧
      -- `k` held the live list `l`, `x` is its head (left) or last element (right)
      (s.dbAt d).live k = some it ∧ it.value = .list l ∧
      (if left then l = x :: rem else l = rem ++ [x]) ∧
      r = .arr [.bulk k, .bulk x] ∧
      -- afterwards `k` holds the rest (same deadline), or nothing when the list became empty
      ((bpopPass d left first keys s).2.dbAt d).live k =
        (if rem = [] then none else some ⟨.list rem, it.expireat⟩) ∧
      -- every other key of database `d`, and every other database, is unchanged
      (∀ k', k' ≠ k → ((bpopPass d left first keys s).2.dbAt d).live k' = (s.dbAt d).live k') ∧
      (∀ j, j ≠ d → (bpopPass d left first keys s).2.dbAt j = s.dbAt j) ∧
      NodupKeys ((bpopPass d left first keys s).2.dbAt d).dict := by
  by_cases hd : d < s.srv.dbs.length
  · obtain ⟨pre, k, post, it, l, x, rem, h1, h2, h3⟩ := bpopPass_served d left first keys s r hd nd ne h
    exact ⟨pre, k, post, it, l, x, rem, h1, h2, h3⟩
  · rw [bpopPass_out_of_range d left first keys s (by omega)] at h
    cases h

/-! ## 3. a re-check is served whenever one of the lists is non-empty -/

/-- with `first = false`: nothing is popped iff no key holds a live list -/
theorem bpopPass_none_iff (d : Nat) (left : Bool) (keys : List Bytes) (s : Sys)
    (nd : NodupKeys (s.dbAt d).dict) :
    (bpopPass d left false keys s).1 = .ok none ↔
      ∀ k ∈ keys, ¬ ∃ it l, (s.dbAt d).live k = some it ∧ it.value = .list l :=
  bpopPass_none_iff' d left keys s nd

/-- … and then (on any pass) the state differs from the old one only by lazy deletions of expired entries
in database `d`: everything but `dbs[d]` is identical, and `dbs[d]` is equal after `purge` -/
theorem bpopPass_none_unchanged (d : Nat) (left first : Bool) (keys : List Bytes) (s : Sys)
    (nd : NodupKeys (s.dbAt d).dict) (h : (bpopPass d left first keys s).1 = .ok none) :
    ∃ db', (bpopPass d left first keys s).2 = { s with srv := { s.srv with dbs := s.srv.dbs.set d db'.dict } } ∧
      Db.purge db' = Db.purge (s.dbAt d) ∧ NodupKeys db'.dict ∧ (∀ q ∈ db'.dict, q ∈ (s.dbAt d).dict) := by
  obtain ⟨db', h1, h2⟩ := bpopPass_none_lazy d left first keys s nd h
  exact ⟨db', h1, h2.eq, h2.nd, h2.sub⟩

theorem bpopPass_none_live_unchanged (d : Nat) (left first : Bool) (keys : List Bytes) (s : Sys)
    (hd : d < s.srv.dbs.length) (nd : NodupKeys (s.dbAt d).dict)
    (h : (bpopPass d left first keys s).1 = .ok none) (k : Bytes) :
    ((bpopPass d left first keys s).2.dbAt d).live k = (s.dbAt d).live k :=
  (bpopPass_none_lazy d left first keys s nd h).live hd k

/-! ## 4. WRONGTYPE only on the first pass -/

theorem bpopPass_wrongtype_only_first_pass (d : Nat) (left first : Bool) (keys : List Bytes) (s : Sys) (e : Err)
    (h : (bpopPass d left first keys s).1 = .error e) : first = true ∧ e = Msgs.WRONGTYPE_MSG :=
  bpopPass_error d left first keys s e h

/-! ## 5. inside MULTI/EXEC a blocking pop never parks -/

/-- generic form: the outcome is that of the first pass alone (`.ok none` turned into the nil reply) -/
theorem blocking_in_tx_is_first_pass (c : Nat) (park : Bool) (kind : String) (keys : List Bytes) (timeout : Int)
    (pass : Bool → M (Except Err (Option Reply))) (s : Sys)
    (h : ((pass true s).2.conn c).inTx = true) :
    (blocking c park kind keys timeout pass s).2 = (pass true s).2 ∧
    (blocking c park kind keys timeout pass s).1 ≠ .ok none ∧
    ((pass true s).1 = .ok none → (blocking c park kind keys timeout pass s).1 = .ok (some .nil)) := by
  rw [blocking_inTx_run c park kind keys timeout pass s h]
  refine ⟨rfl, ?_, fun h' => by simp only [h', txReply]⟩
  simp only [txReply]
  split <;> simp

/-- BLPOP / BRPOP issued inside a transaction: no parking, no clock reading -/
theorem blocking_never_parks_in_tx (c : Nat) (park : Bool) (kind : String) (keys keys' : List Bytes) (timeout : Int)
    (d : Nat) (left : Bool) (s : Sys) (h : (s.conn c).inTx = true) :
    let out := blocking c park kind keys' timeout (fun first => bpopPass d left first keys) s
    out.2 = (bpopPass d left true keys s).2 ∧
    out.2.clocks = s.clocks ∧
    (out.2.conn c).parked.isSome = (s.conn c).parked.isSome ∧
    ((s.conn c).parked = none → (out.2.conn c).parked = none) ∧
    out.1 ≠ .ok none ∧
    ((bpopPass d left true keys s).1 = .ok none → out.1 = .ok (some .nil)) := by
  intro out
  have hin : ((bpopPass d left true keys s).2.conn c).inTx = true := by
    rw [bpopPass_conn_proj Conn.inTx notifyFn_inTx]; exact h
  obtain ⟨h1, h2, h3⟩ := blocking_in_tx_is_first_pass c park kind keys' timeout
    (fun first => bpopPass d left first keys) s hin
  have hsome : (out.2.conn c).parked.isSome = (s.conn c).parked.isSome := by
    show ((blocking c park kind keys' timeout (fun first => bpopPass d left first keys) s).2.conn c).parked.isSome = _
    rw [h1]
    exact bpopPass_conn_proj (fun x => x.parked.isSome) notifyFn_parked_isSome d left true keys s c
  refine ⟨h1, ?_, hsome, ?_, h2, h3⟩
  · show (blocking c park kind keys' timeout (fun first => bpopPass d left first keys) s).2.clocks = _
    rw [h1]
    exact bpopPass_frame (fun s' => s'.clocks = s.clocks) (fun _ _ _ h => h) (fun _ _ _ h => h) d left true keys s rfl
  · intro hn
    rw [hn] at hsome
    cases hp : (out.2.conn c).parked with
    | none => rfl
    | some p => rw [hp] at hsome; cases hsome

/-- BRPOPLPUSH issued inside a transaction -/
theorem blocking_never_parks_in_tx_brpoplpush (c : Nat) (park : Bool) (kind : String) (keys' : List Bytes)
    (timeout : Int) (d : Nat) (src dst : Bytes) (s : Sys) (h : (s.conn c).inTx = true) :
    let out := blocking c park kind keys' timeout (fun first => brpoplpushPass d src dst first) s
    out.2 = (brpoplpushPass d src dst true s).2 ∧
    out.2.clocks = s.clocks ∧
    (out.2.conn c).parked.isSome = (s.conn c).parked.isSome ∧
    out.1 ≠ .ok none ∧
    ((brpoplpushPass d src dst true s).1 = .ok none → out.1 = .ok (some .nil)) := by
  intro out
  have hin : ((brpoplpushPass d src dst true s).2.conn c).inTx = true := by
    rw [brpoplpushPass_conn_proj Conn.inTx notifyFn_inTx]; exact h
  obtain ⟨h1, h2, h3⟩ := blocking_in_tx_is_first_pass c park kind keys' timeout
    (fun first => brpoplpushPass d src dst first) s hin
  refine ⟨h1, ?_, ?_, h2, h3⟩
  · show (blocking c park kind keys' timeout (fun first => brpoplpushPass d src dst first) s).2.clocks = _
    rw [h1]
    exact brpoplpushPass_frame (fun s' => s'.clocks = s.clocks) (fun _ _ _ h => h) (fun _ _ _ h => h) d src dst true s rfl
  · show ((blocking c park kind keys' timeout (fun first => brpoplpushPass d src dst first) s).2.conn c).parked.isSome = _
    rw [h1]
    exact brpoplpushPass_conn_proj (fun x => x.parked.isSome) notifyFn_parked_isSome d src dst true s c

/-- contrast (non-vacuity of "parks"): outside a transaction, under the scheduler semantics and without
time-out, an unserved pop parks the connection on its selected database -/
theorem blocking_parks_outside_tx (c : Nat) (kind : String) (keys : List Bytes)
    (pass : Bool → M (Except Err (Option Reply))) (s : Sys)
    (hres : (pass true s).1 = .ok none) (h : ((pass true s).2.conn c).inTx = false)
    (hc : (pass true s).2.HasConn c) :
    (blocking c true kind keys 0 pass s).1 = .ok none ∧
    ((blocking c true kind keys 0 pass s).2.conn c).parked =
      some { kind := kind, keys := keys, db := ((pass true s).2.conn c).db, deadline := none } := by
  rw [blocking_park_run c kind keys pass s hres h]
  refine ⟨rfl, ?_⟩
  show ((((pass true s).2).updConn c _).conn c).parked = _
  rw [Sys.conn_updConn_same (parkAs kind keys ((pass true s).2.conn c).db none) hc (fun _ => rfl)]
  rfl

/-! ## 6. `notify_watch` is `condition.notify_all` -/

theorem notify_wakes_all_parked (d : Nat) (key : Bytes) (s : Sys) :
    let s' := (notifyWatch d key s).2
    -- every connection parked on `d` is flagged
    (∀ c p, (s.conn c).parked = some p → p.db = d → (s'.conn c).parked = some { p with woken := true }) ∧
    (∀ x ∈ s'.srv.conns, ∀ p, x.parked = some p → p.db = d → p.woken = true) ∧
    -- connections parked elsewhere, or not parked, keep their `parked` field
    (∀ c p, (s.conn c).parked = some p → p.db ≠ d → (s'.conn c).parked = some p) ∧
    (∀ c, (s.conn c).parked = none → (s'.conn c).parked = none) ∧
    -- the only other field touched is the WATCH flag
    (∀ c, s'.conn c = { s.conn c with
        parked := (s'.conn c).parked
        watchNotified := (s.conn c).watchNotified || (s.conn c).watches.contains (d, key) }) ∧
    (∀ c, s'.HasConn c ↔ s.HasConn c) ∧
    s'.srv.dbs = s.srv.dbs ∧ s'.out = s.out ∧ s'.clocks = s.clocks := by
  intro s'
  have hc : ∀ c, s'.conn c = notifyFn d key (s.conn c) := notifyWatch_conn d key s
  refine ⟨?_, ?_, ?_, ?_, ?_, ?_, rfl, rfl, rfl⟩
  · intro c p hp hd
    rw [hc, notifyFn_parked, hp]
    simp [hd]
  · exact Sys.allWoken_notify s d key
  · intro c p hp hd
    rw [hc, notifyFn_parked, hp]
    simp [hd]
  · intro c hp
    rw [hc, notifyFn_parked, hp]; rfl
  · intro c
    rw [hc, notifyFn_eq]
  · intro c
    exact Sys.hasConn_mapConns s _ c (notifyFn_id d key)

/-! ## 7. no lost wake-up: a write-back that modifies a key notifies every parked connection -/

theorem writeback_notifies_parked (d : Nat) (cis : List CI) (s : Sys) (h : ∃ ci ∈ cis, ci.modified = true) :
    let s' := (writebackAll d cis s).2
    (∀ x ∈ s'.srv.conns, ∀ p, x.parked = some p → p.db = d → p.woken = true) ∧
    (∀ c p, (s'.conn c).parked = some p → p.db = d → p.woken = true) ∧
    -- and nobody is un-parked or re-targeted on the way: a connection parked on `d` before is parked
    -- with the same record, flag set, afterwards
    (∀ c p, (s.conn c).parked = some p → p.db = d → (s'.conn c).parked = some { p with woken := true }) := by
  intro s'
  have hw : s'.AllWoken d := writebackAll_allWoken d cis s h
  refine ⟨hw, fun c p => hw.conn c p, ?_⟩
  intro c p hp hd
  have hex : ∃ w, (s'.conn c).parked = some { p with woken := w } := by
    refine writebackAll_frame (fun s' => ∃ w, (s'.conn c).parked = some { p with woken := w })
      (fun _ _ _ h => h) ?_ d cis s ⟨p.woken, hp⟩
    rintro s1 d' k ⟨w, hw1⟩
    rw [Sys.conn_mapConns s1 _ c (notifyFn_id d' k) (notifyFn_default d' k c), notifyFn_parked, hw1]
    simp only [Option.map_some]
    split
    · exact ⟨true, rfl⟩
    · exact ⟨w, rfl⟩
  obtain ⟨w, hw1⟩ := hex
  have := hw.conn c _ hw1 hd
  simp only at this
  rw [hw1, this]

/-- corollary for pushes (any regular command): if the pure runner reports a notified key, every
connection parked on the client's database is flagged -/
theorem push_wakes_parked (special) (mode : Mode) (c : Nat) (sig : Sig) (raw : List Bytes) (fromScript : Bool)
    {body : Body} (hreg : Cmd.regular sig.name = some body) (s : Sys)
    (hn : (s.regularOut c sig body raw fromScript).notified ≠ []) :
    let s' := (runWith special mode c sig raw fromScript s).2
    (∀ x ∈ s'.srv.conns, ∀ p, x.parked = some p → p.db = (s.conn c).db → p.woken = true) ∧
    (∀ c' p, (s'.conn c').parked = some p → p.db = (s.conn c).db → p.woken = true) := by
  intro s'
  have hw : s'.AllWoken (s.conn c).db := by
    show ((runWith special mode c sig raw fromScript s).2).AllWoken _
    cases hr : s.refuses c sig with
    | true => exact absurd (Sys.regularOut_of_refused body raw fromScript hr).1 hn
    | false =>
      rw [runWith_regular_run special mode c sig raw fromScript hreg s hr]
      exact Sys.afterRegular_allWoken s _ _ hn
  exact ⟨hw, fun c' p => hw.conn c' p⟩

/-! ## 8. one turn of a woken connection; the time-out -/

/-- `t` is the clock reading consumed by the turn (only read when the pass found nothing and a deadline
exists).  The pass is `parkedPass c p` = the parked command's pass with `first = false`. -/
theorem wakeConn_served_or_stays (c : Nat) (p : Parked) (s : Sys) (hp : (s.conn c).parked = some p) :
    let res := (parkedPass c p s).1
    let t := (nextClock s).1
    let s' := (wakeConn c s).2
    -- (a) exactly one reply to `c` (nothing if its socket is closed), un-parked
    ((s'.conn c).parked = none ∧
      ∃ rep, s'.out = (if (s.conn c).closed then s.out else (c, rep) :: s.out) ∧
        ((∃ e, res = .error e ∧ rep = .err (strBytes e)) ∨
         res = .ok (some rep) ∨
         (res = .ok none ∧ rep = .nil ∧ ∃ dl, p.deadline = some dl ∧ dl - t ≤ 0))) ∨
    -- (b) still parked, flag cleared, nothing emitted
    ((s'.conn c).parked = some { p with woken := false } ∧ s'.out = s.out ∧ res = .ok none ∧
      (p.deadline = none ∨ ∃ dl, p.deadline = some dl ∧ dl - t > 0)) := by
  intro res t s'
  have hs' : s' = wakeState c p res (parkedPass c p s).2 := by
    show (wakeConn c s).2 = _
    rw [wakeConn_run c p s hp]
  have hc1 : (parkedPass c p s).2.HasConn c := parkedPass_hasConn c p s c (Sys.hasConn_of_parked hp)
  have hcl : ((parkedPass c p s).2.conn c).closed = (s.conn c).closed :=
    parkedPass_conn_proj Conn.closed notifyFn_closed c p s c
  have hout : (parkedPass c p s).2.out = s.out := parkedPass_out c p s
  have ht : (nextClock (parkedPass c p s).2).1 = t := parkedPass_nextClock c p s
  revert hs'
  generalize (parkedPass c p s).2 = s1 at hc1 hcl hout ht
  generalize res = res'
  intro hs'
  cases res' with
  | error e =>
    left
    obtain ⟨h1, h2, _, _⟩ := unpark_emit_spec s1 c (.err (strBytes e)) hc1
    simp only [wakeState] at hs'
    rw [hs']
    exact ⟨h1, _, by rw [h2, hcl, hout], .inl ⟨e, rfl, rfl⟩⟩
  | ok o =>
    cases o with
    | some r =>
      left
      obtain ⟨h1, h2, _, _⟩ := unpark_emit_spec s1 c r hc1
      simp only [wakeState] at hs'
      rw [hs']
      exact ⟨h1, _, by rw [h2, hcl, hout], .inr (.inl rfl)⟩
    | none =>
      simp only [wakeState] at hs'
      cases hdl : p.deadline with
      | none =>
        right
        simp only [hdl] at hs'
        obtain ⟨h1, h2, _, _⟩ := stay_spec s1 c p hc1
        rw [hs']
        rw [hdl] at h1
        exact ⟨h1, by rw [h2, hout], rfl, .inl rfl⟩
      | some dl =>
        simp only [hdl, ht] at hs'
        have hc2 : (nextClock s1).2.HasConn c := (Sys.nextClock_hasConn s1 c).2 hc1
        by_cases hle : dl - t ≤ 0
        · left
          simp only [hle, if_true] at hs'
          obtain ⟨h1, h2, _, _⟩ := unpark_emit_spec (nextClock s1).2 c .nil hc2
          rw [hs']
          refine ⟨h1, .nil, ?_, .inr (.inr ⟨rfl, rfl, dl, rfl, hle⟩)⟩
          rw [h2, Sys.nextClock_conn, nextClock_out, hcl, hout]
        · right
          simp only [hle, if_false] at hs'
          obtain ⟨h1, h2, _, _⟩ := stay_spec (nextClock s1).2 c p hc2
          rw [hs']
          rw [hdl] at h1
          exact ⟨h1, by rw [h2, nextClock_out, hout], rfl, .inr ⟨dl, rfl, by omega⟩⟩

/-- the condition's `wait` returned `False`: nil to the client, un-parked, and nothing is taken -/
theorem timeoutConn_spec (c : Nat) (p : Parked) (s : Sys) (hp : (s.conn c).parked = some p) :
    let s' := (timeoutConn c s).2
    (s'.conn c).parked = none ∧
    s'.out = (if (s.conn c).closed then s.out else (c, .nil) :: s.out) ∧
    s'.srv.dbs = s.srv.dbs ∧
    (∀ c', c' ≠ c → s'.conn c' = s.conn c') := by
  intro s'
  have hs' : s' = (s.updConn c unpark).emitS c .nil := by
    show (timeoutConn c s).2 = _
    rw [timeoutConn_run c p s hp]
  rw [hs']
  exact unpark_emit_spec s c .nil (Sys.hasConn_of_parked hp)

/-! ## 9. the nil time-out reply is only given when the pass found nothing -/

theorem timeout_only_if_unserved (c : Nat) (p : Parked) (s : Sys) (hp : (s.conn c).parked = some p)
    (hopen : (s.conn c).closed = false)
    (h : (wakeConn c s).2.out = (c, .nil) :: s.out) :
    (parkedPass c p s).1 = .ok none ∧ ∃ dl, p.deadline = some dl ∧ dl - (nextClock s).1 ≤ 0 := by
  rcases wakeConn_served_or_stays c p s hp with ⟨_, rep, hout, hrep⟩ | ⟨_, hout, _⟩
  · simp only [hopen, Bool.false_eq_true, if_false] at hout
    rw [hout] at h
    simp only [List.cons.injEq, Prod.mk.injEq, true_and, and_true] at h
    subst h
    rcases hrep with ⟨e, _, he⟩ | hr | ⟨hr, _, hdl⟩
    · cases he
    · exact absurd hr (parkedPass_not_nil c p s)
    · exact ⟨hr, hdl⟩
  · rw [hout] at h
    exact absurd h (by simp)

/-- a time-out from `wakeConn` takes nothing either: when the pass of a BLPOP/BRPOP found nothing, the
databases after the turn are those after the pass, which differ from the old ones by lazy deletions only -/
theorem wakeConn_unserved_takes_nothing (c : Nat) (p : Parked) (s : Sys) (hp : (s.conn c).parked = some p)
    (hres : (parkedPass c p s).1 = .ok none) :
    (wakeConn c s).2.srv.dbs = (parkedPass c p s).2.srv.dbs := by
  rw [wakeConn_run c p s hp, hres]
  simp only [wakeState]
  split
  · rfl
  · split
    · rw [Sys.emitS_srv]; simp only [Sys.updConn_dbs, nextClock_srv]
    · simp only [Sys.updConn_dbs, nextClock_srv]

/-! ## non-vacuity -/

/-- connection 1 parked by `BLPOP l 0` on key `l` of database 0, connection 2 parked on database 1 -/
def s0 : Sys :=
  { srv := { conns := [{ id := 1, parked := some { kind := "blpop", keys := [[108]], db := 0, deadline := none } },
                       { id := 2, parked := some { kind := "blpop", keys := [[108]], db := 1, deadline := none } },
                       { id := 3 }] } }

example : (((notifyWatch 0 [108] s0).2.conn 1).parked.map (·.woken)) = some true ∧
    (((notifyWatch 0 [108] s0).2.conn 2).parked.map (·.woken)) = some false := ⟨rfl, rfl⟩

/-- `RPUSH l a` issued by connection 3 (database 0) reports the notified key `l`: the hypothesis of
`push_wakes_parked` is satisfiable -/
example : ∃ sig body, SigTable.find "rpush" = some sig ∧ Cmd.regular sig.name = some body ∧
    (s0.regularOut 3 sig body [[108], [97]] false).notified = [[108]] := ⟨_, _, rfl, rfl, by decide⟩

/-- a push-like write-back to database 0 wakes connection 1; the woken connection is then served -/
def s1 : Sys :=
  (writebackAll 0 [{ key := [108], val := some (.list [[97], [98]]), expireat := none, modified := true }] s0).2

example : ((s1.conn 1).parked.map (·.woken)) = some true := by decide

example : (bpopPass 0 true false [[107], [108]] s1).1 = .ok (some (.arr [.bulk [108], .bulk [97]])) := rfl

example : (bpopPass 0 false false [[107], [108]] s1).1 = .ok (some (.arr [.bulk [108], .bulk [98]])) := rfl

example : ((wakeConn 1 s1).2.conn 1).parked.isNone = true ∧ (wakeConn 1 s1).2.out.length = 1 := by decide

/-- woken spuriously (nothing to pop): stays parked with the flag cleared -/
example : ((wakeConn 1 s0).2.conn 1).parked.map (·.woken) = some false ∧ (wakeConn 1 s0).2.out.length = 0 := by
  decide

/-- a WRONGTYPE key is an error on the first pass and skipped later -/
def s2 : Sys := { srv := { dbs := [[([107], ⟨.str [1], none⟩), ([108], ⟨.list [[97]], none⟩)]] } }

example : (bpopPass 0 true true [[107], [108]] s2).1 = .error Msgs.WRONGTYPE_MSG := rfl
example : (bpopPass 0 true false [[107], [108]] s2).1 = .ok (some (.arr [.bulk [108], .bulk [97]])) := rfl
example : ((bpopPass 0 true false [[107], [108]] s2).2.dbAt 0).live [108] = none := by decide

/-- why `NoEmpty` is assumed in `bpopPass_served_in_key_order`: a stored empty list (never produced by the
commands) would be "served" with a nil element -/
example : (bpopPass 0 true false [[108]] { srv := { dbs := [[([108], ⟨.list [], none⟩)]] } }).1
    = .ok (some (.arr [.bulk [108], .nil])) := rfl

/-- a deadline that has passed at re-check time: nil reply, un-parked, one clock reading consumed -/
def s4 : Sys :=
  { srv := { conns := [{ id := 1, parked := some { kind := "brpop", keys := [[108]], db := 0, deadline := some 50 } }] },
    clocks := [60, 70] }

example : (wakeConn 1 s4).2.out.length = 1 ∧ ((wakeConn 1 s4).2.conn 1).parked.isNone = true ∧
    (wakeConn 1 s4).2.clocks = [70] := by decide
example : (timeoutConn 1 s4).2.out.length = 1 ∧ ((timeoutConn 1 s4).2.conn 1).parked.isNone = true ∧
    (timeoutConn 1 s4).2.clocks = [60, 70] := by decide

/-- in a transaction the pop does not park; outside it does -/
def s3 (inTx : Bool) : Sys := { srv := { conns := [{ id := 1, inTx := inTx }] } }

example : ((blocking 1 true "blpop" [[108]] 0 (fun f => bpopPass 0 true f [[108]]) (s3 true)).2.conn 1).parked.isNone = true := by
  decide
example : ((blocking 1 true "blpop" [[108]] 0 (fun f => bpopPass 0 true f [[108]]) (s3 false)).2.conn 1).parked.isSome = true := by
  decide

end FR.Props.C11
