import FR.Proofs.C11r
import FR.Props.C04k
import FR.Props.C11
/-!
# C11r — the exact reply count of a blocking pop (BLPOP / BRPOP) run at once

`FR.Props.C04k.reply_count_blocking_partial` says "no reply or one reply".  Here: exactly WHICH, read off the state in
which `_run_command` starts (`s.prologue`: `s` after the clean-up of closed sockets and the clock refresh; its
databases are those of `s`, `ErrSys.prologue_dbs`).

Vocabulary: `Conv.timeout tb` is the conversion of the last argument; `bpopPass d left true keys` is the first pass
(`FR.Props.C11.bpopPass_served_in_key_order`, `bpopPass_none_iff`, `bpopPass_wrongtype_only_first_pass` describe its
three outcomes).
-/
namespace FR.Props.C11r
open FR FR.M FR.C04k FR.C11c FR.C11r FR.ErrSys

/-- the outcome of the request, as a function of the time-out conversion, the first pass and the mode -/
inductive Outcome where
  /-- no reply, the connection is parked -/
  | parks
  /-- exactly this reply -/
  | reply (r : Reply)

def Outcome.isParks : Outcome → Bool
  | .parks => true
  | .reply _ => false

/-- **the specification**: what a BLPOP / BRPOP run at once outside MULTI does -/
def expected (mode : Mode) (tb : Bytes) (pass : Except Err (Option Reply)) : Outcome :=
  match Conv.timeout tb with
  | .error e => .reply (.err (strBytes e))            -- invalid time-out: an error, the keys are not looked at
  | .ok _ =>
    match pass with
    | .error e => .reply (.err (strBytes e))          -- a wrong-type key before a servable one (WRONGTYPE)
    | .ok (some r) => .reply r                        -- served: the popped pair
    | .ok none => if mode.park || mode.async then .parks else .reply .nil

/-- `_run_command` level: the exact result of BLPOP / BRPOP outside a transaction, not in subscriber mode -/
theorem runCommand_bpop_exact (mode : Mode) (c : Nat) {sig : Sig} (hs : IsBSig sig) (raw : List Bytes) (s : Sys)
    (ha : sig.checkArity raw.length = true) (hps : (s.conn c).pubsub = 0) (hin : (s.conn c).inTx = false)
    (hc : s.HasConn c) :
    match expected mode (raw.getLast?.getD []) (bpopPass (s.conn c).db (sig.name == "blpop") true raw.dropLast s).1 with
    | .reply r => (runCommand mode c sig raw false s).1 = some r
    | .parks =>
      (runCommand mode c sig raw false s).1 = none ∧
      (∃ p, ((runCommand mode c sig raw false s).2.conn c).parked = some p ∧ p.kind = sig.name ∧
        p.keys = raw.dropLast ∧ p.db = (s.conn c).db) ∧
      (mode.async = true → ((runCommand mode c sig raw false s).2.conn c).paused = true) := by
  obtain ⟨tb, htb⟩ := bsig_arity_ne hs raw ha
  rw [runCommand_bsig mode c hs raw s ha hps, afterSpecial_run, bpopBody_run mode c _ _ raw tb s htb]
  simp only [htb, Option.getD_some]
  unfold expected
  cases Conv.timeout tb with
  | error e => rfl
  | ok t =>
    simp only
    have h := blk_cases mode c sig.name (sig.name == "blpop") raw.dropLast t (s.conn c).db s hin hc
    revert h
    generalize blk mode c sig.name (sig.name == "blpop") raw.dropLast t (s.conn c).db s = X
    obtain ⟨br, s2⟩ := X
    cases (bpopPass (s.conn c).db (sig.name == "blpop") true raw.dropLast s).1 with
    | error e => intro h; cases h; rfl
    | ok o =>
      cases o with
      | some r => intro h; cases h; rfl
      | none =>
        simp only
        split
        · rintro ⟨h1, ⟨p, hp1, hp2, hp3, hp4, _⟩, h3⟩
          cases h1
          exact ⟨rfl, ⟨p, hp1, hp2, hp3, hp4⟩, h3⟩
        · intro h; cases h; rfl

theorem isBSig_of_lookup {nameB : Bytes} {sig : Sig} (hl : lookupSig nameB = some sig)
    (hb : sig.name = "blpop" ∨ sig.name = "brpop") : IsBSig sig := by
  obtain ⟨n, _, _, hf⟩ := lookupSig_some hl
  have hn := SigTable.find_name hf
  rcases hb with h | h
  · left
    rw [← hn, h] at hf
    exact (Option.some.inj hf).symm
  · right
    rw [← hn, h] at hf
    exact (Option.some.inj hf).symm

/-- **C11r — `reply_count_blocking` (BLPOP / BRPOP).**  Same hypotheses as `reply_count_blocking_partial`, plus: the
connection is registered, not in subscriber mode (else the request is refused: one error reply) and no EXEC is running
(`inTx`; see `blocking_in_exec_one_reply`).  With `P = s.prologue`, `keys` = all arguments but the last:

* `expected … = .parks` (valid time-out, first pass finds no live list under any key, `mode.park` or `mode.async`):
  **no reply** (the reply list grows by pub/sub messages only — in fact none), the connection is **parked** on `keys`
  and its database, and on the asyncio front-end **paused**;
* `expected … = .reply r`: **exactly one reply, `r`** — the time-out error, WRONGTYPE, the popped pair, or nil when
  the mode does not park. -/
theorem reply_count_blocking (mode : Mode) (c : Nat) (nameB : Bytes) (args : List Bytes) (s : Sys)
    (hwf : TxWf s) (hcl : (s.conn c).closed = false) {sig : Sig} (hl : lookupSig nameB = some sig)
    (ha : sig.checkArity args.length = true)
    (hq : ((s.conn c).tx.isSome && !SigTable.notQueued.contains sig.name) = false)
    (hb : sig.name = "blpop" ∨ sig.name = "brpop")
    (hc : s.HasConn c) (hps : (s.conn c).pubsub = 0) (hin : (s.conn c).inTx = false) :
    let s' := (processCommand mode c (nameB :: args) s).2
    ∃ D, (∀ p ∈ D, IsMsg p.2) ∧
      match expected mode (args.getLast?.getD [])
          (bpopPass (s.conn c).db (sig.name == "blpop") true args.dropLast s.prologue).1 with
      | .reply r => s'.out = (c, r) :: D ++ s.out
      | .parks =>
        s'.out = D ++ s.out ∧
        (∃ p, (s'.conn c).parked = some p ∧ p.kind = sig.name ∧ p.keys = args.dropLast ∧ p.db = (s.conn c).db) ∧
        (mode.async = true → (s'.conn c).paused = true) := by
  dsimp only
  have hs := isBSig_of_lookup hl hb
  have hp := small_prologue s
  have hwfp : TxWf s.prologue := hwf.le hp.conns
  have hcP : s.prologue.HasConn c := (hp.conns.hasConn c).2 hc
  have hpsP : (s.prologue.conn c).pubsub = 0 := (ScanSys.prologue_conn_pubsub s c).trans hps
  have hinP : (s.prologue.conn c).inTx = false := (ScanSys.prologue_conn_inTx s c).trans hin
  have hdbP : (s.prologue.conn c).db = (s.conn c).db := ScanSys.prologue_conn_db s c
  have hsub : sig.name ∉ SigTable.notInMulti := by rcases hs with rfl | rfl <;> decide
  have hex := runCommand_bpop_exact mode c hs args s.prologue ha hpsP hinP hcP
  rw [hdbP] at hex
  obtain ⟨hsm, _⟩ := runCommand_reply mode c sig args s.prologue hsub (hwfp.queue_not_gated c)
  rw [pc_run mode c nameB args s hl ha hq, afterRun_out]
  revert hex hsm
  generalize expected mode (args.getLast?.getD [])
    (bpopPass (s.conn c).db (sig.name == "blpop") true args.dropLast s.prologue).1 = E
  generalize hR : runCommand mode c sig args false s.prologue = R
  obtain ⟨r1, s2⟩ := R
  intro hex hsm
  obtain ⟨D, hD, hmsg⟩ := hsm.out
  rw [prologue_out] at hD
  simp only at hD
  refine ⟨D, hmsg, ?_⟩
  cases E with
  | reply r =>
    simp only at hex ⊢
    subst hex
    have hc2 : (s2.conn c).closed = false := by
      rw [hsm.conns.closed c, hp.conns.closed c]; exact hcl
    simp only [Sys.emitS_out, hc2, Bool.false_eq_true, if_false, hD, List.cons_append]
  | parks =>
    simp only at hex ⊢
    obtain ⟨h1, ⟨p, hp1, hp2⟩, h3⟩ := hex
    subst h1
    simp only
    have hconn : ∀ {β} (proj : Conn → β), (∀ x, proj (markDead x) = proj x) →
        proj ((afterRun c (none, s2)).conn c) = proj (s2.conn c) := by
      intro β proj hproj
      unfold afterRun
      simp only
      split
      · exact Sys.conn_updConn_proj s2 c c markDead proj (fun _ => rfl) hproj
      · rfl
    refine ⟨hD, ⟨p, ?_, hp2⟩, fun h => ?_⟩
    · rw [hconn Conn.parked (fun _ => rfl)]; exact hp1
    · rw [hconn Conn.paused (fun _ => rfl)]; exact h3 h

/-- the reply of a BLPOP / BRPOP run by EXEC: as `expected`, with nil in place of parking (whatever the mode) -/
def expectedInTx (tb : Bytes) (pass : Except Err (Option Reply)) : Reply :=
  match Conv.timeout tb with
  | .error e => .err (strBytes e)
  | .ok _ =>
    match pass with
    | .error e => .err (strBytes e)
    | .ok (some r) => r
    | .ok none => .nil

/-- **C11r — `blocking_in_exec_one_reply` (BLPOP / BRPOP).**  Run as an inner command of EXEC (`runInner`, the
connection has `inTx = true`), in either mode and on either front-end, a blocking pop **never parks** and contributes
**exactly one element** to the EXEC reply: the time-out error, WRONGTYPE, the popped pair, or nil when nothing can be
served; with a valid time-out the state is that after the first pass alone, so nothing is parked or paused and no clock
is read (`FR.Props.C11.blocking_never_parks_in_tx`). -/
theorem blocking_in_exec_one_reply (mode : Mode) (c : Nat) {sig : Sig} (hs : IsBSig sig) (raw : List Bytes) (s : Sys)
    (ha : sig.checkArity raw.length = true) (hps : (s.conn c).pubsub = 0) (hin : (s.conn c).inTx = true) :
    (runInner mode c sig raw s).1 = some (expectedInTx (raw.getLast?.getD [])
      (bpopPass (s.conn c).db (sig.name == "blpop") true raw.dropLast s).1) ∧
    (∀ t, Conv.timeout (raw.getLast?.getD []) = .ok t →
      (∀ e, (bpopPass (s.conn c).db (sig.name == "blpop") true raw.dropLast s).1 ≠ .error e) →
      (runInner mode c sig raw s).2 = (bpopPass (s.conn c).db (sig.name == "blpop") true raw.dropLast s).2) := by
  obtain ⟨tb, htb⟩ := bsig_arity_ne hs raw ha
  rw [runInner_bsig mode c hs raw s ha hps, afterSpecial_run, bpopBody_run mode c _ _ raw tb s htb]
  simp only [htb, Option.getD_some]
  unfold expectedInTx
  cases Conv.timeout tb with
  | error e => exact ⟨rfl, fun t h => by cases h⟩
  | ok t =>
    simp only [blk_inTx mode c sig.name (sig.name == "blpop") raw.dropLast t (s.conn c).db s hin]
    generalize bpopPass (s.conn c).db (sig.name == "blpop") true raw.dropLast s = X
    obtain ⟨res, s1⟩ := X
    cases res with
    | error e => exact ⟨rfl, fun _ _ h => absurd rfl (h e)⟩
    | ok o =>
      cases o with
      | some r => exact ⟨rfl, fun _ _ _ => rfl⟩
      | none => exact ⟨rfl, fun _ _ _ => rfl⟩

/-! ## non-vacuity: every outcome occurs -/

open FR.Props.C04k in
/-- a state with connection 1 open, key `k` (107) = list `[a]`, key `s` (115) = a string -/
def sData : Sys :=
  (runHistory [.open 1, .request {} 1 [strBytes "RPUSH", [107], [97]] [1] [],
    .request {} 1 [strBytes "SET", [115], [97]] [2] []]).beginEvent.withHints [5, 6] []

open FR.Props.C04k in
theorem sData_wf : TxWf sData := txWf_reachable _

open FR.Props.C04k in
/-- parks (scheduler harness, no list under `x`): no reply, parked -/
example : ∃ D, (∀ p ∈ D, IsMsg p.2) ∧
    (processCommand { park := true } 1 [strBytes "BLPOP", [120], [48]] sIdle).2.out = D ++ sIdle.out ∧
    (∃ p, ((processCommand { park := true } 1 [strBytes "BLPOP", [120], [48]] sIdle).2.conn 1).parked = some p ∧
      p.kind = "blpop" ∧ p.keys = [[120]] ∧ p.db = (sIdle.conn 1).db) ∧
    (({ park := true } : Mode).async = true →
      ((processCommand { park := true } 1 [strBytes "BLPOP", [120], [48]] sIdle).2.conn 1).paused = true) := by
  have h := reply_count_blocking { park := true } 1 (strBytes "BLPOP") [[120], [48]] sIdle sIdle_wf (by decide +kernel)
    (sig := sigOf "blpop") (by decide +kernel) (by decide +kernel) (by decide +kernel) (.inl (by decide +kernel))
    (by decide +kernel) (by decide +kernel) (by decide +kernel)
  cases hE : expected { park := true } (([[120], [48]] : List Bytes).getLast?.getD [])
      (bpopPass (sIdle.conn 1).db ((sigOf "blpop").name == "blpop") true ([[120], [48]] : List Bytes).dropLast
        sIdle.prologue).1 with
  | parks => rw [hE] at h; exact h
  | reply r =>
    have : (expected { park := true } (([[120], [48]] : List Bytes).getLast?.getD [])
      (bpopPass (sIdle.conn 1).db ((sigOf "blpop").name == "blpop") true ([[120], [48]] : List Bytes).dropLast
        sIdle.prologue).1).isParks = true := by decide +kernel
    rw [hE] at this
    cases this

/-- the four kinds of reply, and parking on both front-ends, computed on `sData` -/
example :
    -- served: the pair (key, element), `x` (missing) is skipped
    ((processCommand { park := true } 1 [strBytes "BLPOP", [120], [107], [48]] sData).2.out.map
      (fun p => (p.1, p.2.render))) = [(1, (Reply.arr [.bulk [107], .bulk [97]]).render)] ∧
    -- wrong-type key before the list: WRONGTYPE, nothing popped
    ((processCommand { park := true } 1 [strBytes "BLPOP", [115], [107], [48]] sData).2.out.map
      (fun p => (p.1, p.2.render))) = [(1, (Reply.err (strBytes Msgs.WRONGTYPE_MSG)).render)] ∧
    -- invalid time-out
    ((processCommand { park := true } 1 [strBytes "BLPOP", [120], [45, 49]] sData).2.out.map
      (fun p => (p.1, p.2.render))) = [(1, (Reply.err (strBytes Msgs.TIMEOUT_NEGATIVE_MSG)).render)] ∧
    -- a mode that does not park: nil at once
    ((processCommand {} 1 [strBytes "BLPOP", [120], [48]] sData).2.out.map
      (fun p => (p.1, p.2.render))) = [(1, Reply.nil.render)] ∧
    -- asyncio front-end: no reply, parked and paused
    (processCommand { async := true } 1 [strBytes "BRPOP", [120], [48]] sData).2.out = [] ∧
    ((processCommand { async := true } 1 [strBytes "BRPOP", [120], [48]] sData).2.conn 1).paused = true ∧
    ((processCommand { async := true } 1 [strBytes "BRPOP", [120], [48]] sData).2.conn 1).parked.isSome = true := by
  decide +kernel

/-- inside EXEC (`inTx` set), scheduler mode: nil at once, nothing parked -/
def sInTx : Sys := sData.updConn 1 fun x => { x with inTx := true }

example : (runInner { park := true } 1 sigBlpop [[120], [48]] sInTx).1.map Reply.render = some Reply.nil.render ∧
    ((runInner { park := true } 1 sigBlpop [[120], [48]] sInTx).2.conn 1).parked.isSome = false ∧
    (runInner { async := true } 1 sigBlpop [[120], [107], [48]] sInTx).1.map Reply.render =
      some (Reply.arr [.bulk [107], .bulk [97]]).render := by
  decide +kernel

example : (runInner { park := true } 1 sigBlpop [[120], [48]] sInTx).1 =
    some (expectedInTx [48] (bpopPass (sInTx.conn 1).db true true [[120]] sInTx).1) :=
  (blocking_in_exec_one_reply { park := true } 1 (.inl rfl) [[120], [48]] sInTx (by decide +kernel) (by decide +kernel)
    (by decide +kernel)).1

end FR.Props.C11r
