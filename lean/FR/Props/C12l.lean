import FR.Sys.LockTable
/-!
# C12 (static part): what the lock-discipline check of `FR/Sys/LockTable.lean` means

The tables of `FR/Generated/Locks.lean` list, per function of the socket classes, its shared-state accesses and its call
edges with the flag "lexically inside `with <server>.lock:`".  A *call path* starts at a root (a function that the outside
world may enter without the lock: `sendall`, `close`, the constructor, a coroutine, a deferred callback) and follows call
edges of the table - any number of them.  The lock is held at the end of a path if some edge of the path, or the access
itself, is lexically under the lock (the lock is only ever taken by `with`, so it is held exactly in the dynamic extent of
such a block).

`disciplined_sound`: if the check passes then **every access at the end of every call path of every length from every root
is made with the lock held, or is one of the listed benign accesses (an entry `("*", a)` lists an access that is benign in any function).**  This is the hypothesis `acc-without-lock never
happens` of the lockset theorems (`FR.Props.C12.welllocked_serial`, `linearization_exists`) established for all paths of the
current source instead of for the recorded traces only.  Trusted: that the extraction (`tools/gen_locks.py`) lists every
access and every edge (dynamic dispatch: `self.m`, `<socket>.m` for private and connection-level methods, `super().m`,
the `func(*args)` of `_run_command` = every command body, nested functions).
-/
namespace FR.Props.C12l
open FR.LockTable

/-- `Path t r g lk`: a call path in `t` from `r` to `g`; `lk` = some edge on it is under the lock -/
inductive Path (t : Table) : String → String → Bool → Prop
  | nil (f : String) : Path t f f false
  | cons {f g h : String} {lk l : Bool} {fn : Fn} :
      Path t f g lk → fn ∈ t → fn.name = g → (h, l) ∈ fn.calls → Path t f h (lk || l)

theorem closed_roots {t : Table} {X : List String} (h : closed t X = true) {r : String} (hr : r ∈ roots t) : r ∈ X := by
  unfold closed at h
  simp only [Bool.and_eq_true, List.all_eq_true] at h
  have := h.1 r hr
  simpa using this

theorem closed_step {t : Table} {X : List String} (h : closed t X = true) {fn : Fn} (hfn : fn ∈ t) (hX : fn.name ∈ X)
    {g : String} (hc : (g, false) ∈ fn.calls) : g ∈ X := by
  unfold closed at h
  simp only [Bool.and_eq_true, List.all_eq_true] at h
  have h2 := h.2 fn hfn
  have hX' : X.contains fn.name = true := by simpa using hX
  simp only [hX', Bool.not_true, Bool.false_or, List.all_eq_true] at h2
  have := h2 (g, false) hc
  simpa using this

theorem clean_access {b : List (String × String)} {t : Table} {X : List String} (h : clean b t X = true) {fn : Fn} (hfn : fn ∈ t)
    (hX : fn.name ∈ X) {a : String} {l : Bool} (ha : (a, l) ∈ fn.accesses) : l = true ∨ (fn.name, a) ∈ b ∨ ("*", a) ∈ b := by
  unfold clean at h
  simp only [List.all_eq_true] at h
  have h2 := h fn hfn
  have hX' : X.contains fn.name = true := by simpa using hX
  simp only [hX', Bool.not_true, Bool.false_or, List.all_eq_true] at h2
  have := h2 (a, l) ha
  simpa [or_assoc] using this

/-- along every path from a root: the lock was taken on the way, or the current function is in the closed set -/
theorem path_invariant {t : Table} {X : List String} (h : closed t X = true) {r g : String} {lk : Bool}
    (hr : r ∈ roots t) (p : Path t r g lk) : lk = true ∨ g ∈ X := by
  induction p with
  | nil => exact .inr (closed_roots h hr)
  | @cons g h' lk l fn _ hfn hname hc ih =>
    rcases ih with ih | ih
    · exact .inl (by simp [ih])
    · cases l with
      | true => exact .inl (by simp)
      | false =>
        subst hname
        exact .inr (closed_step h hfn ih hc)

/-- **soundness of the check**, for any table and any list of benign accesses -/
theorem disciplined_sound {b : List (String × String)} {t : Table} (h : disciplined b t = true)
    {r g : String} {lk : Bool} (hr : r ∈ roots t) (p : Path t r g lk)
    {fn : Fn} (hfn : fn ∈ t) (hname : fn.name = g) {a : String} {l : Bool} (ha : (a, l) ∈ fn.accesses) :
    lk = true ∨ l = true ∨ (g, a) ∈ b ∨ ("*", a) ∈ b := by
  unfold disciplined at h
  simp only [Bool.and_eq_true] at h
  rcases path_invariant h.1 hr p with hl | hX
  · exact .inl hl
  · subst hname
    exact .inr (clean_access h.2 hfn hX ha)

/-- in particular: a command body (atom `body`) is never reached without the lock -/
theorem bodies_run_under_the_lock {b : List (String × String)} {t : Table} (h : disciplined b t = true)
    (hb : ∀ p ∈ b, p.2 ≠ "body")
    {r g : String} {lk : Bool} (hr : r ∈ roots t) (p : Path t r g lk)
    {fn : Fn} (hfn : fn ∈ t) (hname : fn.name = g) (ha : ("body", false) ∈ fn.accesses) : lk = true := by
  rcases disciplined_sound h hr p hfn hname ha with h1 | h1 | h1 | h1
  · exact h1
  · cases h1
  · exact absurd rfl (hb _ h1)
  · exact absurd rfl (hb _ h1)

/-! ## non-vacuity and sensitivity on small tables -/

/-- a dispatcher that takes the lock around the runner -/
def good : Table :=
  [⟨"sendall", true, [("S:connected", false)], [("dispatch", false)]⟩,
   ⟨"dispatch", false, [("T", true)], [("run", true), ("reply", false)]⟩,
   ⟨"run", false, [], [("get", false)]⟩,
   ⟨"get", false, [("body", false)], []⟩,
   ⟨"reply", false, [], []⟩]

example : disciplined benign good = true := by decide
example : Path good "sendall" "get" true :=
  .cons (.cons (.cons (.nil _) (fn := good[0]) (by decide) rfl (h := "dispatch") (l := false) (by decide))
    (fn := good[1]) (by decide) rfl (h := "run") (l := true) (by decide)) (fn := good[2]) (by decide) rfl (h := "get") (l := false) (by decide)

/-- the clock read moved in front of the `with` block: rejected -/
def clockBeforeLock : Table :=
  [⟨"sendall", true, [("S:connected", false)], [("dispatch", false)]⟩,
   ⟨"dispatch", false, [("T", false)], [("run", true)]⟩,
   ⟨"run", false, [], [("get", false)]⟩,
   ⟨"get", false, [("body", false)], []⟩]
example : disciplined benign clockBeforeLock = false := by decide

/-- a helper that edits the watcher registry called after the `with` block ended (defect F26): rejected -/
def cleanupAfterUnlock : Table :=
  [⟨"sendall", true, [("S:connected", false)], [("dispatch", false)]⟩,
   ⟨"dispatch", false, [("T", true)], [("run", true), ("clear_watches", false)]⟩,
   ⟨"clear_watches", false, [("D", false)], []⟩,
   ⟨"run", false, [], []⟩]
example : disciplined benign cleanupAfterUnlock = false := by decide

/-- a deferred callback that touches the database without taking the lock itself: rejected -/
def callbackWithoutLock : Table :=
  [⟨"blocking", false, [("D", false)], [("blocking.forget", false)]⟩,
   ⟨"blocking.forget", true, [("D", false)], []⟩]
example : disciplined benign callbackWithoutLock = false := by decide

end FR.Props.C12l
