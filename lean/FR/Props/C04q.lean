import FR.Proofs.C04q
import FR.Props.C04o
/-!
# C04, "in request order": the hypothesis `NoPark` discharged on the synchronous front-end

`FR/Props/C04o.lean` proves `replies_in_request_order_noPark` / `n_requests_n_replies` under `NoPark` ("after each
request the connection is un-paused") and `Quiet` ("no pub/sub message is delivered to the connection itself").

1. `sync_never_pauses`: with `mode.async = false`, `_process_command` (every request, every state), the parser loop,
   `sendall` and the guarded `sendall` leave the `paused` flag of EVERY connection as it was (in fact the whole list
   `(id, paused)` of the connection records: `*_pview`).  The only `paused := true` of the model is in `blockingAsync`,
   reached through `if mode.async then …` only.
2. `noPark_sync`: so `NoPark` holds for every request list on an un-paused connection, and the C04o theorems hold on the
   synchronous front-end without it: `replies_in_request_order_sync`, `n_requests_replies_exact_sync`,
   `n_requests_n_replies_sync` (the latter still under `Quiet`).
3. towards `Quiet` (NOT discharged here): `deliveries_not_listed` / `publish_not_listed` - a PUBLISH in a state where
   `c` is in no subscriber list pushes nothing for `c` on the reply list.  Lifting this through `_process_command`
   (a tower that also excludes (P)SUBSCRIBE reached from EXEC queues and scripts) is open.
-/
namespace FR.Props.C04q
open FR FR.M FR.C04k FR.BufIndep FR.C14p FR.C04o FR.C04q FR.Props.C04o

/-! ## 1. the synchronous front-end never pauses a connection -/

/-- the `(id, paused)` list is `v` -/
def SameP (v : List (Nat × Bool)) (s : Sys) : Prop := pview s = v

instance (v : List (Nat × Bool)) : PFrame (SameP v) where
  frame _ _ e h := e.trans h

theorem find_paused_of_pkey (c0 : Nat) : ∀ (l l' : List Conn), l'.map pkey = l.map pkey →
    ((l'.find? (·.id == c0)).getD { id := c0 }).paused = ((l.find? (·.id == c0)).getD { id := c0 }).paused
  | [], [], _ => rfl
  | [], _ :: _, h => by simp at h
  | _ :: _, [], h => by simp at h
  | x :: l, x' :: l', h => by
    simp only [List.map_cons, List.cons.injEq] at h
    obtain ⟨hx, hl⟩ := h
    have hid : x'.id = x.id := congrArg Prod.fst hx
    have hp : x'.paused = x.paused := congrArg Prod.snd hx
    simp only [List.find?_cons, hid]
    cases x.id == c0 with
    | true => exact hp
    | false => exact find_paused_of_pkey c0 l l' hl

/-- equal `(id, paused)` lists: every connection has the same `paused` flag -/
theorem paused_of_pview {s s' : Sys} (h : pview s' = pview s) (c0 : Nat) :
    (s'.conn c0).paused = (s.conn c0).paused := by
  rw [Sys.conn_def, Sys.conn_def]
  exact find_paused_of_pkey c0 _ _ h

theorem processCommand_pview (mode : Mode) (hm : mode.async = false) (c : Nat) (fields : List Bytes) (s : Sys) :
    pview (processCommand mode c fields s).2 = pview s :=
  processCommand_pres (I := SameP (pview s)) (pf_hyps c) pf_clean mode hm fields s rfl

theorem drain_pview (mode : Mode) (hm : mode.async = false) (c : Nat) (fuel : Nat) (s : Sys) :
    pview (drain mode c fuel s).2 = pview s :=
  drain_pres (I := SameP (pview s)) (pf_hyps c) pf_clean mode hm fuel s rfl

theorem sendall_pview (mode : Mode) (hm : mode.async = false) (c : Nat) (data : Bytes) (s : Sys) :
    pview (sendall mode c data s).2 = pview s :=
  sendall_pres (I := SameP (pview s)) (pf_hyps c) pf_clean mode hm data s rfl

theorem sendallGuarded_pview (mode : Mode) (hm : mode.async = false) (c : Nat) (data : Bytes) (s : Sys) :
    pview (sendallGuarded mode c data s).2 = pview s :=
  sendallGuarded_pres (I := SameP (pview s)) (pf_hyps c) pf_clean mode hm data s rfl

/-- **The synchronous front-end never pauses (nor un-pauses) a connection**: `_process_command` of ANY request by ANY
connection `c` in ANY state leaves the `paused` flag of EVERY connection `c0` unchanged -/
theorem sync_never_pauses (mode : Mode) (hm : mode.async = false) (c : Nat) (fields : List Bytes) (s : Sys) (c0 : Nat) :
    ((processCommand mode c fields s).2.conn c0).paused = (s.conn c0).paused :=
  paused_of_pview (processCommand_pview mode hm c fields s) c0

/-- … the parser loop -/
theorem sync_never_pauses_drain (mode : Mode) (hm : mode.async = false) (c : Nat) (fuel : Nat) (s : Sys) (c0 : Nat) :
    ((drain mode c fuel s).2.conn c0).paused = (s.conn c0).paused :=
  paused_of_pview (drain_pview mode hm c fuel s) c0

/-- … a whole write -/
theorem sync_never_pauses_sendall (mode : Mode) (hm : mode.async = false) (c : Nat) (data : Bytes) (s : Sys) (c0 : Nat) :
    (((sendall mode c data).run s).2.conn c0).paused = (s.conn c0).paused :=
  paused_of_pview (sendall_pview mode hm c data s) c0

/-- … a write with the outage check -/
theorem sync_never_pauses_sendallGuarded (mode : Mode) (hm : mode.async = false) (c : Nat) (data : Bytes) (s : Sys)
    (c0 : Nat) : (((sendallGuarded mode c data).run s).2.conn c0).paused = (s.conn c0).paused :=
  paused_of_pview (sendallGuarded_pview mode hm c data s) c0

/-- … a `.request` / `.send` event of a history -/
theorem sync_never_pauses_event (mode : Mode) (hm : mode.async = false) (c : Nat) (s : Sys) (c0 : Nat)
    (cl : List Int) (pk : List (List Bytes)) :
    (∀ fields, ((stepEv s (.request mode c fields cl pk)).conn c0).paused = (s.conn c0).paused) ∧
    (∀ data, ((stepEv s (.send mode c data cl pk)).conn c0).paused = (s.conn c0).paused) :=
  ⟨fun fields => sync_never_pauses mode hm c fields (s.beginEvent.withHints cl pk) c0,
   fun data => sync_never_pauses_sendallGuarded mode hm c data (s.beginEvent.withHints cl pk) c0⟩

/-! ## 2. `NoPark` on the synchronous front-end -/

theorem next_paused_sync (mode : Mode) (hm : mode.async = false) (c : Nat) (r : List Bytes) (s : Sys) :
    ((next mode c r s).conn c).paused = (s.conn c).paused := by
  unfold next
  rw [conn_setBuf_proj c c [] _ Conn.paused (fun _ => rfl)]
  exact sync_never_pauses mode hm c r s c

/-- **`NoPark` holds on the synchronous front-end**: any request list, any state in which `c` is un-paused -/
theorem noPark_sync (mode : Mode) (hm : mode.async = false) (c : Nat) (reqs : List (List Bytes)) (s : Sys)
    (hpa : (s.conn c).paused = false) : NoPark mode c reqs s := by
  induction reqs generalizing s with
  | nil => trivial
  | cons r rs ih =>
    have h := (next_paused_sync mode hm c r s).trans hpa
    exact ⟨h, ih _ h⟩

/-- `Flowing` (registered and un-paused after every request) on the synchronous front-end -/
theorem flowing_sync (mode : Mode) (hm : mode.async = false) (c : Nat) (reqs : List (List Bytes)) (s : Sys)
    (hc : s.HasConn c) (hpa : (s.conn c).paused = false) : Flowing mode c reqs s :=
  flowing_of_noPark mode c reqs s hc (noPark_sync mode hm c reqs s hpa)

/-- **Replies in request order, synchronous front-end**: no hypothesis on the requests at all.  One write of the
requests `r :: rs` to a registered, un-paused connection with an empty input buffer, in a state satisfying the event
invariant: the replies `c` has received afterwards are those it had, followed by `own r1 ++ … ++ own rn`. -/
theorem replies_in_request_order_sync (mode : Mode) (hm : mode.async = false) (c : Nat) (r : List Bytes)
    (rs : List (List Bytes)) (s : Sys) (hk : K s) (hc : s.HasConn c) (hb : (s.conn c).buf = [])
    (hpa : (s.conn c).paused = false) :
    repliesOf c ((sendall mode c ((r :: rs).map encodeRequest).flatten).run s).2.out =
      repliesOf c s.out ++ ownAll mode c (r :: rs) s :=
  replies_in_request_order_noPark mode c r rs s hk hc hb hpa (noPark_sync mode hm c _ s hpa)

/-- `n` plain requests: request by request, the messages pushed to `c` itself, then the answer -/
theorem n_requests_replies_exact_sync (mode : Mode) (hm : mode.async = false) (c : Nat) (r : List Bytes)
    (rs : List (List Bytes)) (s : Sys) (hk : K s) (hc : s.HasConn c) (hb : (s.conn c).buf = [])
    (hpa : (s.conn c).paused = false) (hpl : AllPlain mode c (r :: rs) s) :
    repliesOf c ((sendall mode c ((r :: rs).map encodeRequest).flatten).run s).2.out =
      repliesOf c s.out ++ expected mode c (r :: rs) s :=
  n_requests_replies_exact mode c r rs s hk hc hb hpa (flowing_sync mode hm c _ s hc hpa) hpl

/-- **`n` requests, `n` replies, in request order - synchronous front-end**: `NoPark` / `Flowing` discharged; `Quiet`
(no message delivered to `c` itself) remains -/
theorem n_requests_n_replies_sync (mode : Mode) (hm : mode.async = false) (c : Nat) (r : List Bytes)
    (rs : List (List Bytes)) (s : Sys) (hk : K s) (hc : s.HasConn c) (hb : (s.conn c).buf = [])
    (hpa : (s.conn c).paused = false) (hpl : AllPlain mode c (r :: rs) s) (hq : Quiet mode c (r :: rs) s) :
    repliesOf c ((sendall mode c ((r :: rs).map encodeRequest).flatten).run s).2.out =
      repliesOf c s.out ++ answers mode c (r :: rs) s ∧
    (answers mode c (r :: rs) s).length = (r :: rs).length ∧
    (repliesOf c ((sendall mode c ((r :: rs).map encodeRequest).flatten).run s).2.out).length =
      (repliesOf c s.out).length + (r :: rs).length :=
  n_requests_n_replies mode c r rs s hk hc hb hpa (flowing_sync mode hm c _ s hc hpa) hpl hq

/-! ## 3. towards `Quiet`: a delivery to `c` needs `c` in a subscriber list -/

/-- `c` is in no subscriber list -/
def NotListed (c : Nat) (srv : Server) : Prop := (∀ p ∈ srv.subs, c ∉ p.2) ∧ (∀ p ∈ srv.psubs, c ∉ p.2)

theorem lookup_mem {α β} [BEq α] [LawfulBEq α] (t : List (α × β)) (k : α) (v : β) (h : t.lookup k = some v) :
    (k, v) ∈ t := by
  induction t with
  | nil => simp at h
  | cons p t ih =>
    obtain ⟨k', v'⟩ := p
    simp only [List.lookup_cons] at h
    cases hk : k == k' with
    | true =>
      simp only [hk] at h
      have : k = k' := by simpa using hk
      cases h; subst this; exact List.mem_cons_self
    | false =>
      simp only [hk] at h
      exact List.mem_cons_of_mem _ (ih h)

/-- no delivery of a PUBLISH goes to a connection that is in no subscriber list -/
theorem deliveries_not_listed (c : Nat) (srv : Server) (h : NotListed c srv) (ch msg : Bytes) :
    ∀ d ∈ deliveries srv ch msg, d.1 ≠ c := by
  intro d hd
  unfold deliveries at hd
  rw [List.mem_append] at hd
  rcases hd with hd | hd
  · obtain ⟨x, hx, rfl⟩ := List.mem_map.1 hd
    cases hl : srv.subs.lookup ch with
    | none => rw [hl] at hx; simp at hx
    | some cs =>
      rw [hl] at hx
      simp only [Option.getD_some] at hx
      intro e
      exact h.1 _ (lookup_mem _ _ _ hl) (by rw [← e]; exact hx)
  · obtain ⟨p, hp, hd⟩ := List.mem_flatMap.1 hd
    obtain ⟨x, hx, rfl⟩ := List.mem_map.1 hd
    intro e
    exact h.2 p (List.mem_filter.1 hp).1 (by rw [← e]; exact hx)

/-- **PUBLISH in a state where `c` is in no subscriber list pushes nothing for `c`** (the reply list of `c` is the
same before and after the deliveries) -/
theorem publish_not_listed (c : Nat) (ch msg : Bytes) (s : Sys) (h : NotListed c s.srv) :
    repliesOf c (publish ch msg s).2.out = repliesOf c s.out := by
  rw [publish_run]
  show repliesOf c (_ ++ s.out) = _
  rw [repliesOf_append]
  suffices hs : repliesOf c ((deliveries s.srv ch msg).filter fun d => !(s.conn d.1).closed).reverse = [] by
    rw [hs, List.append_nil]
  unfold repliesOf
  rw [List.filter_eq_nil_iff.2]
  · rfl
  · intro d hd
    have hd' := (List.mem_filter.1 (List.mem_reverse.1 hd)).1
    simpa using deliveries_not_listed c s.srv h ch msg d hd'

/-! ## non-vacuity -/

open FR.Props.C14p

example : (({} : Mode).async = false) := rfl

/-- `BLPOP k 0` on the synchronous front-end: connection 1 is not paused afterwards (it is on the asyncio front-end) -/
example : ((processCommand {} 1 blpopReq sInit).2.conn 1).paused = (sInit.conn 1).paused :=
  sync_never_pauses {} rfl 1 blpopReq sInit 1

example : ((processCommand {} 1 blpopReq sInit).2.conn 1).paused = false := by decide +kernel
example : ((processCommand am 1 blpopReq sInit).2.conn 1).paused = true := by decide +kernel

/-- `mode.async = false` is needed: the asyncio front-end does pause -/
example : ¬ ∀ (mode : Mode) (c : Nat) (fields : List Bytes) (s : Sys) (c0 : Nat),
    ((processCommand mode c fields s).2.conn c0).paused = (s.conn c0).paused := by
  intro h
  have := h am 1 blpopReq sInit 1
  revert this
  decide +kernel

example : (((sendall {} 1 (encodeRequest blpopReq ++ encodeRequest pingReq)).run sInit).2.conn 2).paused =
    (sInit.conn 2).paused :=
  sync_never_pauses_sendall {} rfl 1 _ sInit 2

/-- the parked connection of the asyncio scenario stays paused under a synchronous write of ANOTHER connection -/
example : (((sendall {} 2 (encodeRequest pingReq)).run sA).2.conn 1).paused = true :=
  (sync_never_pauses_sendall {} rfl 2 _ sA 1).trans (by decide +kernel)

example : (sInit.conn 1).paused = false := by decide +kernel

/-- `BLPOP k 0`, `PING` on the synchronous front-end: `NoPark` (it fails on the asyncio front-end, see C04o) -/
example : NoPark {} 1 [blpopReq, pingReq] sInit := noPark_sync {} rfl 1 _ sInit (by decide +kernel)

example : repliesOf 1 ((sendall {} 1 (reqs3.map encodeRequest).flatten).run sInit).2.out =
    repliesOf 1 sInit.out ++ ownAll {} 1 reqs3 sInit :=
  replies_in_request_order_sync {} rfl 1 _ _ sInit sInit_K (by decide +kernel) (by decide +kernel) (by decide +kernel)

/-- a blocking pop in the list: on the synchronous front-end still in request order -/
example : repliesOf 1 ((sendall {} 1 ([blpopReq, pingReq].map encodeRequest).flatten).run sInit).2.out =
    repliesOf 1 sInit.out ++ ownAll {} 1 [blpopReq, pingReq] sInit :=
  replies_in_request_order_sync {} rfl 1 _ _ sInit sInit_K (by decide +kernel) (by decide +kernel) (by decide +kernel)

example : (ownAll {} 1 [blpopReq, pingReq] sInit).map Reply.render = [Reply.nil.render, Reply.pong.render] := by
  decide +kernel

example : (repliesOf 1 ((sendall {} 1 (reqs3.map encodeRequest).flatten).run sInit).2.out).length =
    (repliesOf 1 sInit.out).length + 3 :=
  (n_requests_n_replies_sync {} rfl 1 _ _ sInit sInit_K (by decide +kernel) (by decide +kernel) (by decide +kernel)
    reqs3_plain reqs3_quiet).2.2

example : repliesOf 1 ((sendall {} 1 (reqs3.map encodeRequest).flatten).run sInit).2.out =
    repliesOf 1 sInit.out ++ expected {} 1 reqs3 sInit :=
  n_requests_replies_exact_sync {} rfl 1 _ _ sInit sInit_K (by decide +kernel) (by decide +kernel) (by decide +kernel)
    reqs3_plain

/-- section 3: connection 1 of `sInit` is in no subscriber list; PUBLISH pushes nothing for it -/
theorem sInit_notListed : NotListed 1 sInit.srv := by
  have h1 : sInit.srv.subs = [] := by decide +kernel
  have h2 : sInit.srv.psubs = [] := by decide +kernel
  constructor <;> intro p hp
  · rw [h1] at hp; cases hp
  · rw [h2] at hp; cases hp

example : repliesOf 1 (publish [120] [121] sInit).2.out = repliesOf 1 sInit.out :=
  publish_not_listed 1 [120] [121] sInit sInit_notListed

/-- … and `NotListed` matters: after `SUBSCRIBE x` by connection 1, `PUBLISH x y` by connection 2 pushes a message -/
example : (repliesOf 1 (publish [120] [121] (processCommand {} 1 [strBytes "SUBSCRIBE", [120]] sInit).2).2.out).length =
    (repliesOf 1 (processCommand {} 1 [strBytes "SUBSCRIBE", [120]] sInit).2.out).length + 1 := by decide +kernel

end FR.Props.C04q
