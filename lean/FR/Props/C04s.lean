import FR.Proofs.BufIndep
/-!
# C04, lifted — the dispatcher answers the same whatever the split of the byte stream into `sendall` chunks

`FR/Props/C04.lean` proved chunk-insensitivity of `drain` / `sendall` under the HYPOTHESIS `BufIndependent mode c`
("command processing neither reads nor writes the connection's input buffer").  Here that hypothesis is PROVED for
every mode and every connection (`bufIndependent`; the non-interference argument through `processCommand`,
`runCommand`, `runWith`, `special` and every special body, EXEC's queue runner, the script runner, `cleanupClosed`
is in `FR/Proofs/BufIndep.lean`), and the theorems are restated without it:

* `sendall_append`   : `sendall a; sendall b = sendall (a ++ b)` for any split of any byte stream, when the connection
                       is alive after the first chunk;
* `sendall_append_dead` : the complementary case, exactly: the one-shot write stops at the request that killed the
                       connection and leaves the second chunk in the buffer;
* `drain_append`, `drain_fuel_irrelevant` : the parser loop itself;
* `sendChunks_flatten` : any number of chunks, sent one by one, equal one write of their concatenation;
* `chunking_irrelevant` : two chunkings of the same stream end in the same state — same replies, in the same order.

The aliveness side condition: a connection dies when an exception escapes `sendall` (the model's `crashed`), and the
NEXT write to a dead connection raises `StopIteration` instead of buffering, whereas the one-shot write just stops
parsing.  Since the fix of KF-1 ((P)SUBSCRIBE / (P)UNSUBSCRIBE are refused inside MULTI instead of being queued) the
history that used to kill a connection no longer does (`kf1_history_alive`, section 5), and `FR/Props/C04k.lean`
discharges the hypothesis for reachable states.
-/
namespace FR.Props.C04s
open FR FR.BufIndep M

/-! ## 1. buffer independence -/

/-- **`BufIndependent` holds.**  For every mode, connection, request, buffer content and state: processing a request
on connection `c` commutes with overwriting `c`'s input buffer — the processing neither reads nor writes it. -/
theorem bufIndependent (mode : Mode) (c : Nat) : BufIndependent mode c :=
  FR.BufIndep.bufIndependent mode c

/-- The same for the buffer of ANY connection `c`, whichever connection `c'` the request is processed on: same
returned value, same final state up to the overwrite. -/
theorem processCommand_setBuf (mode : Mode) (c c' : Nat) (fields : List Bytes) (X : Bytes) (s : Sys) :
    (processCommand mode c' fields).run (setBuf c X s) =
      ((), setBuf c X ((processCommand mode c' fields).run s).2) :=
  ni_processCommand (c := c) (X := X) mode c' fields s

/-- In particular nothing observable depends on what sits in the buffer: replies, fault and crash flags, and the
server apart from the connection records are the same. -/
theorem processCommand_observables (mode : Mode) (c c' : Nat) (fields : List Bytes) (X : Bytes) (s : Sys) :
    let t₁ := ((processCommand mode c' fields).run s).2
    let t₂ := ((processCommand mode c' fields).run (setBuf c X s)).2
    t₂.out = t₁.out ∧ t₂.fault = t₁.fault ∧ t₂.crashed = t₁.crashed ∧ t₂.srv.dbs = t₁.srv.dbs ∧
      t₂.srv.subs = t₁.srv.subs ∧ t₂.srv.psubs = t₁.srv.psubs ∧ t₂.srv.scripts = t₁.srv.scripts ∧
      t₂.clocks = t₁.clocks ∧ t₂.picks = t₁.picks := by
  intro t₁ t₂
  have h : t₂ = setBuf c X t₁ := by
    show ((processCommand mode c' fields).run (setBuf c X s)).2 = _
    rw [processCommand_setBuf]
  rw [h]
  exact ⟨rfl, rfl, rfl, rfl, rfl, rfl, rfl, rfl, rfl⟩

/-! ## 2. the parser loop -/

/-- The fuel of the parser loop is irrelevant as soon as it exceeds the buffer length. -/
theorem drain_fuel_irrelevant (mode : Mode) (c : Nat) (f1 f2 : Nat) (s : Sys)
    (h1 : (connOf s c).buf.length < f1) (h2 : (connOf s c).buf.length < f2) :
    (drain mode c f1).run s = (drain mode c f2).run s :=
  drain_fuel_irrel (bufIndependent mode c) f1 f2 s h1 h2

/-- Draining `buf ++ b` is draining `buf`, appending `b`, and draining again (any sufficient fuels) — with no
hypothesis on the commands (unconditional version of `C04.drain_append_conditional`). -/
theorem drain_append (mode : Mode) (c : Nat) (b : Bytes)
    (fR : Nat) (R : Sys) (fL f2 : Nat) (hR : (connOf R c).buf.length < fR)
    (hL : (connOf R c).buf.length + b.length < fL)
    (h2 : (connOf ((drain mode c fR).run R).2 c).buf.length + b.length < f2) :
    (drain mode c fL).run (appendBuf c b R) =
      (drain mode c f2).run (appendBuf c b ((drain mode c fR).run R).2) :=
  FR.drain_append (bufIndependent mode c) b fR R fL f2 hR hL h2

/-! ## 3. two chunks -/

/-- **`sendall a; sendall b = sendall (a ++ b)`** on every state, for ANY split of ANY byte stream (complete
requests, half a header, garbage), provided the connection is still alive after the first chunk. -/
theorem sendall_append (mode : Mode) (c : Nat) (a b : Bytes) (s : Sys)
    (halive : (connOf ((sendall mode c a).run s).2 c).dead = false) :
    (do sendall mode c a; sendall mode c b : M Unit).run s = (sendall mode c (a ++ b)).run s :=
  FR.BufIndep.sendall_append mode c a b s halive

/-- The complementary case, exactly.  If the connection is alive before and dead after the first chunk (an exception
escaped while one of its requests was processed), the one-shot write processes the same requests, stops at the same
point and leaves chunk `b` unparsed in the buffer. -/
theorem sendall_append_dead (mode : Mode) (c : Nat) (a b : Bytes) (s : Sys)
    (h0 : (connOf s c).dead = false)
    (h1 : (connOf ((sendall mode c a).run s).2 c).dead = true) :
    (sendall mode c (a ++ b)).run s = ((), appendBuf c b ((sendall mode c a).run s).2) :=
  sendall_append_of_dead mode c a b s h0 h1

/-- … so in that case too the replies are those of the first chunk alone, and they are the same both ways. -/
theorem sendall_append_dead_out (mode : Mode) (c : Nat) (a b : Bytes) (s : Sys)
    (h0 : (connOf s c).dead = false)
    (h1 : (connOf ((sendall mode c a).run s).2 c).dead = true) :
    ((sendall mode c (a ++ b)).run s).2.out = ((sendall mode c a).run s).2.out ∧
    ((do sendall mode c a; sendall mode c b : M Unit).run s).2.out = ((sendall mode c a).run s).2.out := by
  refine ⟨by rw [sendall_append_dead mode c a b s h0 h1]; rfl, ?_⟩
  show ((sendall mode c b).run ((sendall mode c a).run s).2).2.out = _
  rw [sendall_run mode c b, if_pos h1]

/-- Hence the replies never depend on the split into two chunks (alive or not), as long as the connection was alive
to begin with. -/
theorem sendall_append_out (mode : Mode) (c : Nat) (a b : Bytes) (s : Sys) (h0 : (connOf s c).dead = false) :
    ((do sendall mode c a; sendall mode c b : M Unit).run s).2.out = ((sendall mode c (a ++ b)).run s).2.out := by
  cases h1 : (connOf ((sendall mode c a).run s).2 c).dead with
  | false => rw [sendall_append mode c a b s h1]
  | true =>
    obtain ⟨e1, e2⟩ := sendall_append_dead_out mode c a b s h0 h1
    rw [e1, e2]

/-- If the one-shot write leaves the connection alive, it was alive after every prefix. -/
theorem alive_prefix (mode : Mode) (c : Nat) (a b : Bytes) (s : Sys)
    (h : (connOf ((sendall mode c (a ++ b)).run s).2 c).dead = false) :
    (connOf ((sendall mode c a).run s).2 c).dead = false :=
  FR.BufIndep.alive_prefix mode c a b s h

/-! ## 4. any number of chunks -/

/-- **n chunks.**  Sending the chunks `cs` one by one (`sendChunks = cs.forM sendall`) is the same as one `sendall` of
their concatenation — same value, same final state, hence the same replies in the same order — when the connection
is alive after each chunk but the last (`AliveThrough`).  (`cs ≠ []`: writing nothing at all is not the same as
`sendall []`, which re-runs the parser loop.) -/
theorem sendChunks_flatten (mode : Mode) (c : Nat) (cs : List Bytes) (hne : cs ≠ []) (s : Sys)
    (h : AliveThrough mode c cs s) :
    (sendChunks mode c cs).run s = (sendall mode c cs.flatten).run s :=
  sendChunks_eq mode c cs hne s h

/-- The same with the aliveness read off the ONE-SHOT run: if writing the whole stream at once leaves the connection
alive, every chunking of the stream does exactly the same. -/
theorem sendChunks_flatten_of_final (mode : Mode) (c : Nat) (cs : List Bytes) (hne : cs ≠ []) (s : Sys)
    (h : (connOf ((sendall mode c cs.flatten).run s).2 c).dead = false) :
    (sendChunks mode c cs).run s = (sendall mode c cs.flatten).run s :=
  sendChunks_eq mode c cs hne s (aliveThrough_of_final mode c cs s h)

/-- **The chunking is irrelevant.**  Two chunkings of the same byte stream end in the same state; in particular the
emitted replies `out` (all connections, in emission order) are the same. -/
theorem chunking_irrelevant (mode : Mode) (c : Nat) (cs cs' : List Bytes) (hne : cs ≠ []) (hne' : cs' ≠ [])
    (hflat : cs.flatten = cs'.flatten) (s : Sys)
    (h : AliveThrough mode c cs s) (h' : AliveThrough mode c cs' s) :
    (sendChunks mode c cs).run s = (sendChunks mode c cs').run s ∧
      ((sendChunks mode c cs).run s).2.out = ((sendChunks mode c cs').run s).2.out := by
  have e : (sendChunks mode c cs).run s = (sendChunks mode c cs').run s := by
    rw [sendChunks_flatten mode c cs hne s h, sendChunks_flatten mode c cs' hne' s h', hflat]
  exact ⟨e, by rw [e]⟩

/-- … in the form "for a stream whose one-shot processing leaves the connection alive, ALL chunkings agree". -/
theorem all_chunkings_agree (mode : Mode) (c : Nat) (stream : Bytes) (s : Sys)
    (h : (connOf ((sendall mode c stream).run s).2 c).dead = false)
    (cs : List Bytes) (hne : cs ≠ []) (hflat : cs.flatten = stream) :
    (sendChunks mode c cs).run s = (sendall mode c stream).run s := by
  subst hflat
  exact sendChunks_flatten_of_final mode c cs hne s h

/-! ## 5. the aliveness condition after the fix of KF-1

Before the fix, `MULTI / SUBSCRIBE x / EXEC` killed the connection (SUBSCRIBE was queued, its `NoResponse` tripped the
assertion in EXEC), and the former theorem `aliveness_needed` exhibited that history as a witness that the aliveness
hypothesis of `sendall_append` cannot be dropped.  The code now refuses (P)SUBSCRIBE / (P)UNSUBSCRIBE at queue time,
the witness is gone, and the same history is an instance of the theorems above (`kf1_history_alive`,
`kf1_history_chunking`).  `FR/Props/C04k.lean` discharges the aliveness hypothesis from reachability.  What remains
inside the MODEL is a run the model itself declares unfaithful: a script command queued in a MULTI is not modelled
(`fault` is set when EXEC reaches it) and takes the same assertion path (`model_gap_still_dies`). -/

/-- a fresh server with one connection and a few clock readings -/
def s0 : Sys := { srv := { conns := [{ id := 1 }] }, clocks := [1, 2, 3, 4, 5, 6] }

/-- `*1 $4 ping` -/
def ping : Bytes := [42, 49, 13, 10, 36, 52, 13, 10, 112, 105, 110, 103, 13, 10]

/-- `MULTI`, `SUBSCRIBE x`, `EXEC` pipelined: SUBSCRIBE is refused ("Command not allowed inside a transaction"), the
transaction is marked failed, EXEC answers EXECABORT -/
def multiSubExec : Bytes :=
  [42, 49, 13, 10, 36, 53, 13, 10, 109, 117, 108, 116, 105, 13, 10,
   42, 50, 13, 10, 36, 57, 13, 10, 115, 117, 98, 115, 99, 114, 105, 98, 101, 13, 10, 36, 49, 13, 10, 120, 13, 10,
   42, 49, 13, 10, 36, 52, 13, 10, 101, 120, 101, 99, 13, 10]

example : multiSubExec = encodeRequest [strBytes "multi"] ++ encodeRequest [strBytes "subscribe", [120]] ++
    encodeRequest [strBytes "exec"] := by decide +kernel

/-- **The former witness is now harmless.**  After `MULTI / SUBSCRIBE x / EXEC` the connection is alive, no exception
escaped, the three replies are `+OK`, the refusal and `-EXECABORT`, the connection is back in normal mode and
subscribed to nothing.  (Replaces `aliveness_needed`, which asserted `dead = true` and `crashed = some "AssertionError"`
for this very history.) -/
theorem kf1_history_alive :
    (connOf s0 1).dead = false ∧
    (connOf ((sendall {} 1 multiSubExec).run s0).2 1).dead = false ∧
    ((sendall {} 1 multiSubExec).run s0).2.crashed = none ∧
    ((sendall {} 1 multiSubExec).run s0).2.fault = none ∧
    ((sendall {} 1 multiSubExec).run s0).2.out.reverse.map (fun p => (p.1, p.2.render)) =
      [(1, Reply.ok.render), (1, (Reply.err (strBytes Msgs.COMMAND_IN_MULTI_MSG)).render),
       (1, (Reply.err (strBytes Msgs.EXECABORT_MSG)).render)] ∧
    (connOf ((sendall {} 1 multiSubExec).run s0).2 1).tx = none ∧
    (connOf ((sendall {} 1 multiSubExec).run s0).2 1).pubsub = 0 ∧
    ((sendall {} 1 multiSubExec).run s0).2.srv.subs = [] := by
  decide +kernel

/-- … so the chunking theorem applies to it: a further `PING` written as a second chunk, or everything at once, is
the same run (before the fix: `StopIteration` against `AssertionError`, different buffers) -/
theorem kf1_history_chunking :
    (do sendall {} 1 multiSubExec; sendall {} 1 ping : M Unit).run s0 = (sendall {} 1 (multiSubExec ++ ping)).run s0 :=
  sendall_append {} 1 multiSubExec ping s0 kf1_history_alive.2.1

/-- `MULTI`, `EVAL "return 1" 0`, `EXEC` pipelined -/
def multiEvalExec : Bytes :=
  encodeRequest [strBytes "multi"] ++ encodeRequest [strBytes "eval", strBytes "return 1", strBytes "0"] ++
    encodeRequest [strBytes "exec"]

/-- what the host records for a run of the script that ends in the Lua error `boom`: the SHA-1 of the source and the
error message.  (The hint of a *returned* Lua value goes through the hint parser `LuaVal.parse`, which is defined by
well-founded recursion and cannot be evaluated by `decide`; for returned values see `FR.Props.C19m`.) -/
def evalHints : List (List Bytes) :=
  [[strBytes "sha", strBytes "e0e1f9fabfc9d4800c877a703b823ac0578ff8db"], [strBytes "luaerror", strBytes "boom"]]

/-- `s0` with the hints of that run -/
def s0e : Sys := { s0 with picks := evalHints }

/-- **A script command queued in a MULTI is run by EXEC like a direct one** (replaces `model_gap_still_dies`, which
asserted `dead = true`, `fault = some "model: command not modelled: eval"` and `crashed = some "AssertionError"` for
this very request stream while the model had no queued scripts).  After `MULTI / EVAL … 0 / EXEC` the connection is
alive, no exception escaped, the run is faithful (`fault = none`), the hints are used up, the replies are `+OK`,
`+QUEUED` and the one-element array holding the script's error, the connection is back in normal mode and the script
is cached. -/
theorem multi_eval_exec_alive :
    (connOf ((sendall {} 1 multiEvalExec).run s0e).2 1).dead = false ∧
    ((sendall {} 1 multiEvalExec).run s0e).2.crashed = none ∧
    ((sendall {} 1 multiEvalExec).run s0e).2.fault = none ∧
    ((sendall {} 1 multiEvalExec).run s0e).2.picks = [] ∧
    ((sendall {} 1 multiEvalExec).run s0e).2.out.reverse.map (fun p => (p.1, p.2.render)) =
      [(1, Reply.ok.render), (1, Reply.queued.render),
       (1, (Reply.arr [.err (strBytes (scriptErrorMsg (strBytes "e0e1f9fabfc9d4800c877a703b823ac0578ff8db") "boom"))]).render)] ∧
    (connOf ((sendall {} 1 multiEvalExec).run s0e).2 1).tx = none ∧
    ((sendall {} 1 multiEvalExec).run s0e).2.srv.scripts =
      [(strBytes "e0e1f9fabfc9d4800c877a703b823ac0578ff8db", strBytes "return 1")] := by
  decide +kernel

/-- … so the chunking theorem applies to it -/
theorem multi_eval_exec_chunking :
    (do sendall {} 1 multiEvalExec; sendall {} 1 ping : M Unit).run s0e = (sendall {} 1 (multiEvalExec ++ ping)).run s0e :=
  sendall_append {} 1 multiEvalExec ping s0e multi_eval_exec_alive.1

/-- `MULTI`, `SCRIPT LOAD "return 1"`, `EXEC`: the array holds the SHA-1, the script is cached -/
def multiLoadExec : Bytes :=
  encodeRequest [strBytes "multi"] ++ encodeRequest [strBytes "script", strBytes "load", strBytes "return 1"] ++
    encodeRequest [strBytes "exec"]

theorem multi_script_load_exec_alive :
    let s := { s0 with picks := [[strBytes "sha", strBytes "e0e1f9fabfc9d4800c877a703b823ac0578ff8db"]] }
    (connOf ((sendall {} 1 multiLoadExec).run s).2 1).dead = false ∧
    ((sendall {} 1 multiLoadExec).run s).2.crashed = none ∧
    ((sendall {} 1 multiLoadExec).run s).2.fault = none ∧
    ((sendall {} 1 multiLoadExec).run s).2.out.reverse.map (fun p => (p.1, p.2.render)) =
      [(1, Reply.ok.render), (1, Reply.queued.render),
       (1, (Reply.arr [.bulk (strBytes "e0e1f9fabfc9d4800c877a703b823ac0578ff8db")]).render)] ∧
    ((sendall {} 1 multiLoadExec).run s).2.srv.scripts =
      [(strBytes "e0e1f9fabfc9d4800c877a703b823ac0578ff8db", strBytes "return 1")] := by
  decide +kernel

/-- without the hints of the host the run is declared unfaithful (`fault`: the replay cannot follow the script) - that
is not an exception of the implementation: nothing crashes, the connection lives, and the two ways of writing agree -/
theorem multi_eval_exec_unhinted :
    (connOf ((sendall {} 1 multiEvalExec).run s0).2 1).dead = false ∧
    ((sendall {} 1 multiEvalExec).run s0).2.crashed = none ∧
    ((sendall {} 1 multiEvalExec).run s0).2.fault = some "eval: sha hint missing" ∧
    (do sendall {} 1 multiEvalExec; sendall {} 1 ping : M Unit).run s0 = (sendall {} 1 (multiEvalExec ++ ping)).run s0 := by
  have h : (connOf ((sendall {} 1 multiEvalExec).run s0).2 1).dead = false ∧
      ((sendall {} 1 multiEvalExec).run s0).2.crashed = none ∧
      ((sendall {} 1 multiEvalExec).run s0).2.fault = some "eval: sha hint missing" := by decide +kernel
  exact ⟨h.1, h.2.1, h.2.2, sendall_append {} 1 multiEvalExec ping s0 h.1⟩

/-! ## 6. non-vacuity -/

/-- two pipelined `PING`s, split in the middle of the second header -/
def chunkA : Bytes := [42, 49, 13, 10, 36, 52, 13, 10, 112, 105, 110, 103, 13, 10, 42, 49, 13]
def chunkB : Bytes := [10, 36, 52, 13, 10, 112, 105, 110, 103, 13, 10]

/-- `bufIndependent` on a concrete state: a `PING` processed with garbage in the buffer -/
example : ((processCommand {} 1 [[112, 105, 110, 103]]).run (setBuf 1 [1, 2, 3] s0)).2.out.map (fun p => p.2.render) =
    ["s:504f4e47"] ∧
    (connOf ((processCommand {} 1 [[112, 105, 110, 103]]).run (setBuf 1 [1, 2, 3] s0)).2 1).buf = [1, 2, 3] := by
  decide +kernel

/-- the hypothesis of `sendall_append` / `sendChunks_flatten` holds for that split … -/
theorem alive_AB : AliveThrough {} 1 [chunkA, chunkB] s0 := ⟨by decide +kernel, trivial⟩

/-- … the one-shot write answers both requests, in order … -/
example : ((sendall {} 1 (chunkA ++ chunkB)).run s0).2.out.map (fun p => (p.1, p.2.render)) =
    [(1, "s:504f4e47"), (1, "s:504f4e47")] := by decide +kernel

/-- … after the first chunk one reply is out and three bytes wait in the buffer … -/
example : ((sendall {} 1 chunkA).run s0).2.out.length = 1 ∧ (connOf ((sendall {} 1 chunkA).run s0).2 1).buf = [42, 49, 13] := by
  decide +kernel

/-- … and the theorem applies -/
example : (sendChunks {} 1 [chunkA, chunkB]).run s0 = (sendall {} 1 (chunkA ++ chunkB)).run s0 := by
  have := sendChunks_flatten {} 1 [chunkA, chunkB] (by simp) s0 alive_AB
  simpa using this

/-- byte-by-byte delivery of the same stream (28 chunks of one byte) agrees as well, by `all_chunkings_agree` -/
example : (sendChunks {} 1 ((chunkA ++ chunkB).map fun x => [x])).run s0 = (sendall {} 1 (chunkA ++ chunkB)).run s0 :=
  all_chunkings_agree {} 1 (chunkA ++ chunkB) s0 (by decide +kernel) _ (by decide) (by decide +kernel)

/-- a state no history reaches (`FR.Props.C04k`): the queue of connection 1 holds a name that is not a command -/
def sBadQueue : Sys := { srv := { conns := [{ id := 1, tx := some [("nosuchcommand", [])] }] }, clocks := [1, 2, 3, 4, 5, 6] }

/-- the hypotheses of `sendall_append_dead` are satisfiable in the model - from such an unreachable state only: there
EXEC meets the unknown queued name, the assertion path is taken and the connection dies -/
example : (sendall {} 1 (encodeRequest [strBytes "exec"] ++ ping)).run sBadQueue =
    ((), appendBuf 1 ping ((sendall {} 1 (encodeRequest [strBytes "exec"])).run sBadQueue).2) :=
  sendall_append_dead {} 1 (encodeRequest [strBytes "exec"]) ping sBadQueue (by decide +kernel) (by decide +kernel)

end FR.Props.C04s
