import FR.Proofs.C09v
import FR.Proofs.C09vFam
import FR.Proofs.ErrSys
import FR.Props.C01k
import FR.Props.C09b
import FR.Props.C15s
import FR.Props.C16
/-!
# C09 (views) — DBSIZE, KEYS, SCAN, EXISTS, TYPE and RANDOMKEY describe the same set of live keys

All statements are about `processCommand` (`_process_command`: clean-up of closed sockets, clock refresh, arity check,
MULTI queueing, `_run_command` with `Signature.apply`, the gates, the body, write-back, the reply queue) run from an
ARBITRARY state `s` by a connection `c` in normal mode (`Normal s c`: outside MULTI, not subscribed, socket open),
whatever database `c` has selected and whatever clock reading the request takes.

Vocabulary (`FR/Proofs/C09v.lean`, `FR/Proofs/ScanSys.lean`):
* `reading s`        : the clock reading the next request takes (the head of `s.clocks`; the old server time when the
                       recorded readings are exhausted).  It is NOT assumed to be later than the previous one.
* `dictOf s c`       : the stored dictionary of the database selected by `c` (live and dead entries, Python dict order);
* `purgeAt t D`      : the entries of `D` that are live at clock `t` (`mem_purgeAt`: no deadline, or deadline `≥ t`), in
                       the order of `D`; `liveKeys t D` their keys; `Db.live ⟨D, t⟩ k` the live entry of `k`;
* `Answered s s' c t r D'` : the request was answered with exactly one reply `r` to `c`, the selected database's
                       dictionary became `D'`, nothing else changed in any database, the clock shows `t`, no exception,
                       and `c` is still in the mode it was in.
* `s.DataInv`        : every dictionary has unique keys and stores no empty collection — an invariant of every reachable
                       state (`FR.Props.C09.no_empty_collections_all_histories`); it is assumed only where needed.
-/
namespace FR.Props.C09v
open FR FR.M FR.Cmd FR.Spec FR.Proofs FR.ScanSys FR.C09v FR.StrKeys

/-! ## 0. vocabulary -/

/-- connection `c` is in normal mode: outside MULTI, not in subscriber mode, socket open -/
structure Normal (s : Sys) (c : Nat) : Prop where
  tx : (s.conn c).tx = none
  pubsub : (s.conn c).pubsub = 0
  closed : (s.conn c).closed = false

/-- the stored dictionary of the database selected by `c` -/
def dictOf (s : Sys) (c : Nat) : Dict := s.srv.dbs.getD (s.conn c).db []

/-- the keys of `D` that are live at clock `t`, in dict order -/
def liveKeys (t : Int) (D : Dict) : List Bytes := (purgeAt t D).map Prod.fst

/-- what "live" means: stored, and the deadline (if any) is not before the clock -/
theorem mem_liveKeys {t : Int} {D : Dict} {k : Bytes} :
    k ∈ liveKeys t D ↔ ∃ it, (k, it) ∈ D ∧ ∀ e, it.expireat = some e → t ≤ e := by
  unfold liveKeys
  rw [List.mem_map]
  constructor
  · rintro ⟨⟨k', it⟩, hm, rfl⟩
    exact ⟨it, mem_purgeAt.1 hm⟩
  · rintro ⟨it, h⟩
    exact ⟨(k, it), mem_purgeAt.2 h, rfl⟩

/-- … equivalently: the live entry of the key exists -/
theorem mem_liveKeys_iff_live {t : Int} {D : Dict} {k : Bytes} :
    k ∈ liveKeys t D ↔ (Db.live ⟨D, t⟩ k).isSome = true := mem_liveKeys_iff D t k

/-- with unique keys (always the case, `Sys.DataInv`) the live keys are pairwise different, the live entry of a key is
its only stored entry, and the number of live keys is the number of live entries -/
theorem liveKeys_facts {D : Dict} (nd : NodupKeys D) (t : Int) :
    (liveKeys t D).Nodup ∧ (liveKeys t D).length = (purgeAt t D).length ∧
    ∀ k it, Db.live ⟨D, t⟩ k = some it ↔ ((k, it) ∈ D ∧ ∀ e, it.expireat = some e → t ≤ e) :=
  ⟨liveKeys_nodup nd t, List.length_map _, fun k it => live_some_iff nd t k it⟩

/-- the standing invariant gives the two dictionary invariants for the selected database -/
theorem good_dictOf {s : Sys} (h : s.DataInv) (c : Nat) : NodupKeys (dictOf s c) ∧ NoEmpty (dictOf s c) :=
  h.dbAt (s.conn c).db

/-! ## 1. DBSIZE, KEYS -/

/-- **DBSIZE** replies the number of live keys of the selected database at the clock reading of the request, and
leaves that database purged of its dead entries (nothing else changes). -/
theorem dbsize_spec (mode : Mode) (c : Nat) (nameB : Bytes) (s : Sys) (hname : lookupSig nameB = some dbsizeSig)
    (hn : Normal s c) :
    Answered s (processCommand mode c [nameB] s).2 c (reading s)
      (.int (liveKeys (reading s) (dictOf s c)).length) (purgeAt (reading s) (dictOf s c)) :=
  (dbsize_answered mode c nameB s hname hn.tx hn.pubsub hn.closed).1

/-- **KEYS \*** replies exactly the live keys, in dict order. -/
theorem keys_star_spec (mode : Mode) (c : Nat) (nameB : Bytes) (s : Sys) (hname : lookupSig nameB = some keysSig)
    (hn : Normal s c) :
    Answered s (processCommand mode c [nameB, [42]] s).2 c (reading s)
      (Reply.bulks (liveKeys (reading s) (dictOf s c))) (purgeAt (reading s) (dictOf s c)) := by
  have := (keys_answered mode c nameB [42] s hname hn.tx hn.pubsub hn.closed).1
  rw [if_pos rfl] at this
  exact this

/-- **KEYS p** replies the live keys matched by the glob model (`Glob.globMatch`, proved equal to Redis's
`stringmatchlen` in C16), in dict order — for every pattern, `*` included. -/
theorem keys_pattern_spec (mode : Mode) (c : Nat) (nameB p : Bytes) (s : Sys)
    (hname : lookupSig nameB = some keysSig) (hn : Normal s c) :
    Answered s (processCommand mode c [nameB, p] s).2 c (reading s)
      (Reply.bulks ((liveKeys (reading s) (dictOf s c)).filter (Glob.globMatch p)))
      (purgeAt (reading s) (dictOf s c)) := by
  have := (keys_answered mode c nameB p s hname hn.tx hn.pubsub hn.closed).1
  by_cases hp : p = [42]
  · subst hp
    rw [if_pos rfl] at this
    have hall : (liveKeys (reading s) (dictOf s c)).filter (Glob.globMatch [42]) = liveKeys (reading s) (dictOf s c) :=
      List.filter_eq_self.2 (fun k _ => FR.Props.C16.star_matches_all k)
    rw [hall]
    exact this
  · rw [if_neg hp] at this
    exact this

/-- DBSIZE and KEYS report no model fault when a clock reading was recorded for them -/
theorem dbsize_keys_no_fault (mode : Mode) (c : Nat) (nameB p : Bytes) (s : Sys) (hn : Normal s c) (t : Int)
    (rest : List Int) (hclk : s.clocks = t :: rest) :
    (lookupSig nameB = some dbsizeSig → (processCommand mode c [nameB] s).2.fault = s.fault) ∧
    (lookupSig nameB = some keysSig → (processCommand mode c [nameB, p] s).2.fault = s.fault) :=
  ⟨fun h => ((dbsize_answered mode c nameB s h hn.tx hn.pubsub hn.closed).2).trans (prologue_fault s hclk),
   fun h => ((keys_answered mode c nameB p s h hn.tx hn.pubsub hn.closed).2).trans (prologue_fault s hclk)⟩


/-! ## 2. EXISTS, TYPE -/

/-- the name TYPE replies for the live entry of a key: `none`, or the name of the constructor of the stored value -/
def typeNameAt (t : Int) (D : Dict) (k : Bytes) : String :=
  match Db.live ⟨D, t⟩ k with
  | none => "none"
  | some it => it.value.ty.name

/-- lazy deletions only: `D'` (unique keys) keeps entries of `D` only, and all those that are live at `t` -/
structure LazyOnly (t : Int) (D D' : Dict) : Prop where
  nd : NodupKeys D'
  eq : purgeAt t D' = purgeAt t D
  sub : ∀ q ∈ D', q ∈ D

theorem LazyOnly.of_reads {t : Int} {D D' : Dict} (h : Reads ⟨D, t⟩ ⟨D', t⟩) : LazyOnly t D D' :=
  ⟨h.nd, congrArg Db.dict h.eq, h.sub⟩

/-- … which no later request can notice: the live view is the same at the reading and at every later one -/
theorem LazyOnly.later {t t' : Int} {D D' : Dict} (h : LazyOnly t D D') (ht : t ≤ t') :
    purgeAt t' D' = purgeAt t' D ∧ liveKeys t' D' = liveKeys t' D ∧
    (fun k => Db.live ⟨D', t'⟩ k) = fun k => Db.live ⟨D, t'⟩ k := by
  have e := reads_later ht h.eq
  refine ⟨e, by unfold liveKeys; rw [e], ?_⟩
  funext k
  rw [live_def, live_def, e]

theorem lazyOnly_purge {D : Dict} (nd : NodupKeys D) (t : Int) : LazyOnly t D (purgeAt t D) :=
  ⟨Db.purge_nodup (db := ⟨D, t⟩) nd, purgeAt_idem t D, fun _ hq => (mem_purgeAt.1 hq).1⟩

theorem lazyOnly_refl {D : Dict} (nd : NodupKeys D) (t : Int) : LazyOnly t D D := ⟨nd, rfl, fun _ h => h⟩

/-- **EXISTS k₁ … kₙ** replies the number of arguments that are live keys (with multiplicity); the database is left
as it was up to lazy deletion of dead entries. -/
theorem exists_spec (mode : Mode) (c : Nat) (nameB k : Bytes) (ks : List Bytes) (s : Sys)
    (hname : lookupSig nameB = some sigExists) (hinv : s.DataInv) (hn : Normal s c) :
    ∃ D', Answered s (processCommand mode c (nameB :: k :: ks) s).2 c (reading s)
        (.int ((k :: ks).filter (fun x => decide (x ∈ liveKeys (reading s) (dictOf s c)))).length) D' ∧
      LazyOnly (reading s) (dictOf s c) D' := by
  obtain ⟨nd, ne⟩ := good_dictOf hinv c
  have har : sigExists.checkArity (k :: ks).length = true := by
    simp [Sig.checkArity, sigExists]
  have ha := regular_answered mode c nameB (k :: ks) sigExists Cmd.exists_ s hname rfl har (by decide)
    hn.tx hn.pubsub hn.closed
  have hsp := FR.Props.C01k.exists_spec (ctxAt s c) (viewAt s c) nd ne k ks
  have hr : (runRegular sigExists Cmd.exists_ (ctxAt s c) none (k :: ks) (viewAt s c)).reply =
      .int ((k :: ks).filter (fun x => decide (x ∈ liveKeys (reading s) (dictOf s c)))).length := by
    have := congrArg Prod.fst hsp
    simp only at this
    rw [this]
    congr 3
    apply List.filter_congr
    intro x _
    rw [Bool.eq_iff_iff, decide_eq_true_iff, mem_liveKeys_iff_live]
    rfl
  rw [hr] at ha
  refine ⟨_, ha, ?_⟩
  have hreads := runRegular_reads_of_readOnly sigExists Cmd.exists_ FR.NotifyKeys.Cmd.exists__ro (ctxAt s c) none
    (k :: ks) (db := viewAt s c) nd
  have ht : (runRegular sigExists Cmd.exists_ (ctxAt s c) none (k :: ks) (viewAt s c)).db.time = reading s :=
    runRegular_time sigExists Cmd.exists_ (ctxAt s c) none (k :: ks) (db := viewAt s c) nd
  have : (runRegular sigExists Cmd.exists_ (ctxAt s c) none (k :: ks) (viewAt s c)).db =
      ⟨(runRegular sigExists Cmd.exists_ (ctxAt s c) none (k :: ks) (viewAt s c)).db.dict, reading s⟩ := by
    rw [← ht]
  rw [this] at hreads
  exact LazyOnly.of_reads hreads

/-- **EXISTS k = 1 ⇔ k is live** (and the reply is 0 otherwise). -/
theorem exists_iff_live (mode : Mode) (c : Nat) (nameB k : Bytes) (s : Sys)
    (hname : lookupSig nameB = some sigExists) (hinv : s.DataInv) (hn : Normal s c) :
    ∃ D', Answered s (processCommand mode c [nameB, k] s).2 c (reading s)
        (.int (if k ∈ liveKeys (reading s) (dictOf s c) then 1 else 0)) D' ∧
      LazyOnly (reading s) (dictOf s c) D' := by
  obtain ⟨D', h1, h2⟩ := exists_spec mode c nameB k [] s hname hinv hn
  refine ⟨D', ?_, h2⟩
  by_cases hk : k ∈ liveKeys (reading s) (dictOf s c)
  · simpa [hk] using h1
  · simpa [hk] using h1

/-- **TYPE k** replies the status `none` for a key that is not live, and otherwise the name of the constructor of the
stored value (`string`, `list`, `set`, `hash`, `zset`) — a function of the single live entry of the key. -/
theorem type_spec (mode : Mode) (c : Nat) (nameB k : Bytes) (s : Sys)
    (hname : lookupSig nameB = some sigType) (hinv : s.DataInv) (hn : Normal s c) :
    ∃ D', Answered s (processCommand mode c [nameB, k] s).2 c (reading s)
        (.status (strBytes (typeNameAt (reading s) (dictOf s c) k))) D' ∧
      LazyOnly (reading s) (dictOf s c) D' := by
  obtain ⟨nd, ne⟩ := good_dictOf hinv c
  have ha := regular_answered mode c nameB [k] sigType Cmd.type_ s hname rfl (by rfl) (by decide)
    hn.tx hn.pubsub hn.closed
  have hsp := FR.Props.C01k.type_spec (ctxAt s c) (viewAt s c) nd k
  have hr : (runRegular sigType Cmd.type_ (ctxAt s c) none [k] (viewAt s c)).reply =
      .status (strBytes (typeNameAt (reading s) (dictOf s c) k)) := by
    have := congrArg Prod.fst hsp
    simp only at this
    rw [this]
    rfl
  rw [hr] at ha
  refine ⟨_, ha, ?_⟩
  have hreads := runRegular_reads_of_readOnly sigType Cmd.type_ FR.NotifyKeys.Cmd.type__ro (ctxAt s c) none
    [k] (db := viewAt s c) nd
  have ht : (runRegular sigType Cmd.type_ (ctxAt s c) none [k] (viewAt s c)).db.time = reading s :=
    runRegular_time sigType Cmd.type_ (ctxAt s c) none [k] (db := viewAt s c) nd
  have : (runRegular sigType Cmd.type_ (ctxAt s c) none [k] (viewAt s c)).db =
      ⟨(runRegular sigType Cmd.type_ (ctxAt s c) none [k] (viewAt s c)).db.dict, reading s⟩ := by
    rw [← ht]
  rw [this] at hreads
  exact LazyOnly.of_reads hreads

/-- the five type names are different from `none` and from each other: the TYPE reply determines the constructor -/
theorem typeName_injective :
    (∀ T : Ty, strBytes T.name ≠ strBytes "none") ∧ ∀ T T' : Ty, strBytes T.name = strBytes T'.name → T = T' := by
  refine ⟨fun T => ?_, fun T T' => ?_⟩
  · cases T <;> decide +kernel
  · cases T <;> cases T' <;> first | (intro _; rfl) | (intro h; exact absurd h (by decide +kernel))

/-- **TYPE k ≠ none ⇔ k is live; exactly one type per key.**  The reply is `none` iff the key is not live; when the
key is live with entry `it`, the reply is the name of `it.value.ty`, and `it` is the only entry stored under `k`. -/
theorem type_iff_live {D : Dict} (nd : NodupKeys D) (t : Int) (k : Bytes) :
    (strBytes (typeNameAt t D k) ≠ strBytes "none" ↔ k ∈ liveKeys t D) ∧
    (∀ it, Db.live ⟨D, t⟩ k = some it →
      typeNameAt t D k = it.value.ty.name ∧ ∀ it', (k, it') ∈ D → it' = it) := by
  constructor
  · rw [mem_liveKeys_iff_live]
    unfold typeNameAt
    cases h : Db.live ⟨D, t⟩ k with
    | none => simp
    | some it =>
      simp only [Option.isSome_some, iff_true]
      exact typeName_injective.1 _
  · intro it h
    refine ⟨by unfold typeNameAt; rw [h], fun it' hm => ?_⟩
    have hmem := ((live_some_iff nd t k it).1 h).1
    have hl : D.lookup k = some it := by
      cases hl : D.lookup k with
      | none => exact absurd rfl (Db.lookup_none_iff.1 hl _ hmem)
      | some x =>
        have := Db.nodup_unique nd hl _ hmem rfl
        simp only [Prod.mk.injEq, true_and] at this
        rw [this]
    have := Db.nodup_unique nd hl _ hm rfl
    simpa using this


/-! ## 3. RANDOMKEY -/

theorem randomkeyAnswer_cases (K : List Bytes) (picks : List (List Bytes)) :
    (randomkeyLegal K picks = true →
      randomkeyAnswer K picks = .nil ∨ ∃ x ∈ K, randomkeyAnswer K picks = .bulk x) ∧
    (randomkeyLegal K picks = false → randomkeyAnswer K picks = .err (strBytes "model: bad hint")) := by
  unfold randomkeyLegal randomkeyAnswer
  cases K with
  | nil => simp
  | cons a as =>
    simp only [List.isEmpty_cons, Bool.false_or, Bool.false_eq_true, if_false]
    rcases picks with _ | ⟨p, rest⟩
    · simp
    · rcases p with _ | ⟨x, _ | ⟨y, ys⟩⟩
      · simp
      · simp only
        by_cases hx : (a :: as).contains x = true
        · simp only [hx, if_true, true_implies, Bool.true_eq_false, false_implies, and_true]
          exact Or.inr ⟨x, by simpa using hx, rfl⟩
        · have hx : (a :: as).contains x = false := by simpa using hx
          simp only [hx, Bool.false_eq_true, false_implies, if_false, true_implies, true_and]
      · simp

/-- **RANDOMKEY** (the random choice is a recorded hint `s.picks`, a list whose head should be `[x]` for the key `x`
that `random.choice` returned).  With `K` the live keys of the selected database at the clock reading:
* the reply is nil iff there is no live key — for every hint; then no hint is consumed;
* a bulk reply is always a live key; every live key is answered when it is the recorded choice (then the hint is
  consumed and no model fault is raised);
* the only other reply is the model's own error for a hint that is not a single live key, and that hint is reported
  as a model fault (the replay is then void) — it is never nil and never a key that is not live;
* the database is left purged of its dead entries, nothing else changes. -/
theorem randomkey_spec (mode : Mode) (c : Nat) (nameB : Bytes) (s : Sys)
    (hname : lookupSig nameB = some randomkeySig) (hn : Normal s c) :
    let K := liveKeys (reading s) (dictOf s c)
    let s' := (processCommand mode c [nameB] s).2
    ∃ r, Answered s s' c (reading s) r (purgeAt (reading s) (dictOf s c)) ∧
      (r = .nil ↔ K = []) ∧
      (K = [] → s'.picks = s.picks ∧ s'.fault = (prologue s).fault) ∧
      (∀ x, r = .bulk x → x ∈ K) ∧
      (∀ x rest, s.picks = [x] :: rest → x ∈ K →
        r = .bulk x ∧ s'.picks = rest ∧ s'.fault = (prologue s).fault) ∧
      (r = .nil ∨ (∃ x ∈ K, r = .bulk x) ∨
        (r = .err (strBytes "model: bad hint") ∧ ((prologue s).fault = none → s'.fault ≠ none))) := by
  intro K s'
  have ha := randomkey_answered mode c nameB s hname hn.tx hn.pubsub hn.closed
  obtain ⟨hleg, hill⟩ := randomkey_fault_picks mode c nameB s hname hn.tx hn.pubsub
  refine ⟨_, ha, ?_, ?_, ?_, ?_, ?_⟩
  · show randomkeyAnswer K s.picks = .nil ↔ K = []
    unfold randomkeyAnswer
    cases hK : K with
    | nil => simp
    | cons a as =>
      simp only [List.isEmpty_cons, Bool.false_eq_true, if_false, reduceCtorEq, iff_false]
      split
      · split <;> simp
      · simp
  · intro hK
    have h := hleg (by show randomkeyLegal K s.picks = true; rw [hK]; rfl)
    have h2 : ((purgeAt (reading s) (s.srv.dbs.getD (s.conn c).db [])).map Prod.fst) = [] := hK
    rw [h2] at h
    exact ⟨h.2, h.1⟩
  · intro x hx
    have hx : randomkeyAnswer K s.picks = .bulk x := hx
    unfold randomkeyAnswer at hx
    split at hx
    · cases hx
    · split at hx
      · split at hx
        · rename_i hc
          simp only [Reply.bulk.injEq] at hx
          subst hx
          simpa using hc
        · cases hx
      · cases hx
  · intro x rest hp hx
    have hne : K.isEmpty = false := by
      cases hK : K with
      | nil => rw [hK] at hx; cases hx
      | cons _ _ => rfl
    have hc : K.contains x = true := by simpa using hx
    have h := hleg (by show randomkeyLegal K s.picks = true; unfold randomkeyLegal; rw [hp, hne]; simpa using hx)
    refine ⟨?_, ?_, h.1⟩
    · show randomkeyAnswer K s.picks = .bulk x
      unfold randomkeyAnswer
      rw [hp, hne]
      simp only [Bool.false_eq_true, if_false, hc, if_true]
    · have h2 := h.2
      have hne' : ((purgeAt (reading s) (s.srv.dbs.getD (s.conn c).db [])).map Prod.fst).isEmpty = false := hne
      rw [hne', hp] at h2
      simpa using h2
  · show randomkeyAnswer K s.picks = .nil ∨ (∃ x ∈ K, randomkeyAnswer K s.picks = .bulk x) ∨
      (randomkeyAnswer K s.picks = .err (strBytes "model: bad hint") ∧ _)
    obtain ⟨h1, h2⟩ := randomkeyAnswer_cases K s.picks
    by_cases hl : randomkeyLegal K s.picks = true
    · rcases h1 hl with h | h
      · exact Or.inl h
      · exact Or.inr (Or.inl h)
    · have hl : randomkeyLegal K s.picks = false := by simpa using hl
      exact Or.inr (Or.inr ⟨h2 hl, hill hl⟩)


/-! ## 4. the five views agree -/

/-- from `processCommand` to the event "connection `c` sends `fields`, taking the clock reading `h.time`" -/
theorem event_eq (s : Sys) (mode : Mode) (c : Nat) (fields : List Bytes) (h : Hint) :
    stepEv s (request mode c fields h) = (processCommand mode c fields (start s h)).2 := rfl

theorem start_facts (s : Sys) (h : Hint) (c : Nat) :
    reading (start s h) = h.time ∧ dictOf (start s h) c = dictOf s c ∧ (start s h).out = [] ∧
    (Normal s c → Normal (start s h) c) ∧ (s.DataInv → (start s h).DataInv) ∧ (start s h).conn c = s.conn c ∧
    (start s h).srv = s.srv :=
  ⟨rfl, rfl, rfl, fun hn => ⟨hn.tx, hn.pubsub, hn.closed⟩, fun hi => hi, rfl, rfl⟩

/-- the selected dictionary after an answered request that made lazy deletions only -/
theorem answered_dict {s s' : Sys} {c : Nat} {t t0 : Int} {r : Reply} {D' : Dict} (ha : Answered s s' c t r D')
    (nd : NodupKeys (dictOf s c)) (hl : LazyOnly t0 (dictOf s c) D') : LazyOnly t0 (dictOf s c) (dictOf s' c) := by
  unfold dictOf at *
  rw [ha.db, ha.dbs]
  by_cases hd : (s.conn c).db < s.srv.dbs.length
  · rw [getD_set_self _ _ _ _ hd]; exact hl
  · have hd : s.srv.dbs.length ≤ (s.conn c).db := by omega
    rw [List.set_eq_of_length_le hd]
    exact ⟨nd, rfl, fun _ hq => hq⟩

theorem answered_normal {s s' : Sys} {c : Nat} {t : Int} {r : Reply} {D' : Dict} (ha : Answered s s' c t r D') :
    Normal s' c := ⟨ha.tx, ha.pubsub, ha.closed⟩

theorem matchPredicate_trivial (ty : Bytes → Bytes) (o : ScanOpts) (hp : o.pattern = none) (ht : o.ty = none)
    (k : Bytes) : matchPredicate id ty o k = true := by
  unfold matchPredicate
  rw [hp, ht]
  rfl

/-- **The five views of the key space agree.**  State `s` satisfies the invariant of reachable states; connection `c`
is in normal mode with any database selected; `t` is any clock reading; `D` the stored dictionary of the selected
database and `K = liveKeys t D` its keys that are live at `t` (dict order, pairwise different).  Each of the following
requests is sent in state `s` and takes the clock reading `t` (the SCAN loop: `SCAN 0 opts`, then `SCAN cursor opts`
with the returned cursor until 0 comes back, `opts` being any list of `COUNT n` options, every request at clock `t`):

* `KEYS *` replies exactly `K`; `DBSIZE` replies `|K|`; the complete SCAN returns exactly the keys of `K`, sorted
  byte-wise, each once — so `|KEYS *| = DBSIZE = number of keys returned by the complete SCAN`;
* for every key `k`:  `k ∈ KEYS *`  ⇔  `EXISTS k` replies 1 (else 0)  ⇔  `TYPE k` replies something other than `none`
  (namely the type name of the one live entry of `k`)  ⇔  `k` is returned by the complete SCAN;
* none of the requests changes the live key space: in each resulting state the selected database differs from `D` by
  deletions of entries that are dead at `t` only (`LazyOnly`), so its live entries at `t` and at every later clock
  reading are those of `D` (`LazyOnly.later`), the state satisfies the invariant again and `c` is still in normal mode
  — hence the same answers are obtained when the requests are sent one after the other. -/
theorem views_agree (mode : Mode) (c : Nat) (nKeys nDbsize nExists nType nScan : Bytes) (opts : List Bytes)
    (o : ScanOpts) (s : Sys) (t : Int) (hs : List Hint)
    (hk : lookupSig nKeys = some keysSig) (hd : lookupSig nDbsize = some dbsizeSig)
    (he : lookupSig nExists = some sigExists) (hty : lookupSig nType = some sigType)
    (hsc : lookupSig nScan = some scanSig)
    (hp : parseScanOpts true opts {} = .ok o) (hpat : o.pattern = none) (hoty : o.ty = none)
    (hinv : s.DataInv) (hn : Normal s c) (hclk : ∀ h ∈ hs, h.time = t)
    (hbound : (liveKeys t (dictOf s c)).length ≤ 2 ^ 63)
    (hlen : scanCalls (liveKeys t (dictOf s c)).length o.count.toNat ≤ hs.length) :
    let D := dictOf s c
    let K := liveKeys t D
    let h : Hint := ⟨t, [], []⟩
    let sK := stepEv s (request mode c [nKeys, [42]] h)
    let sD := stepEv s (request mode c [nDbsize] h)
    let sE := fun k => stepEv s (request mode c [nExists, k] h)
    let sT := fun k => stepEv s (request mode c [nType, k] h)
    let scan := iter mode c (scanReq nScan opts) hs 0 s
    K.Nodup ∧
    sK.out = [(c, Reply.bulks K)] ∧ sD.out = [(c, .int K.length)] ∧
    scan.finished = true ∧ scan.pages.flatten = (sortBy bytesLt K).map Reply.bulk ∧
    scan.pages.flatten.length = K.length ∧
    (∀ k, (sE k).out = [(c, .int (if k ∈ K then 1 else 0))] ∧
          (sT k).out = [(c, .status (strBytes (typeNameAt t D k)))] ∧
          (k ∈ K ↔ strBytes (typeNameAt t D k) ≠ strBytes "none") ∧
          (k ∈ K ↔ Reply.bulk k ∈ scan.pages.flatten)) ∧
    (∀ s', (s' = sK ∨ s' = sD ∨ s' = scan.final ∨ ∃ k, s' = sE k ∨ s' = sT k) →
      LazyOnly t D (dictOf s' c) ∧ Normal s' c ∧ s'.DataInv ∧ (s'.conn c).db = (s.conn c).db) := by
  intro D K h sK sD sE sT scan
  obtain ⟨nd, ne⟩ := good_dictOf hinv c
  obtain ⟨hr, hdict, hout0, hnorm, hinv0, hconn, hsrv⟩ := start_facts s h c
  have hn0 := hnorm hn
  -- KEYS *
  have aK := keys_star_spec mode c nKeys (start s h) hk hn0
  rw [hr, hdict] at aK
  -- DBSIZE
  have aD := dbsize_spec mode c nDbsize (start s h) hd hn0
  rw [hr, hdict] at aD
  -- EXISTS, TYPE
  have aE := fun k => exists_iff_live mode c nExists k (start s h) he (hinv0 hinv) hn0
  have aT := fun k => type_spec mode c nType k (start s h) hty (hinv0 hinv) hn0
  -- SCAN
  have hKlen : K.length = (purgeAt t D).length := List.length_map _
  have hscan := FR.Props.C15s.scan_iteration mode c (s.conn c).db nScan opts o (purgeAt t D) hs s hsc hp hinv hn.tx
    hn.pubsub hn.closed rfl (fun x hx => by rw [hclk x hx]; rfl) (by rw [← hKlen]; exact hbound)
    (by rw [← hKlen]; exact hlen)
  simp only at hscan
  obtain ⟨hfin, _, _, hflat, hfdbs, hfinv⟩ := hscan
  have hfilter : (sortBy bytesLt ((purgeAt t D).map Prod.fst)).filter
      (matchPredicate id (dictType (purgeAt t D)) o) = sortBy bytesLt K :=
    List.filter_eq_self.2 (fun k _ => matchPredicate_trivial _ o hpat hoty k)
  rw [hfilter] at hflat
  have hinvOf : ∀ s' : Sys, ∀ D', s'.srv.dbs = s.srv.dbs.set (s.conn c).db D' → LazyOnly t D D' → s'.DataInv := by
    intro s' D' hdbs hl x hx
    rw [hdbs] at hx
    rcases List.mem_or_eq_of_mem_set hx with hx | rfl
    · exact hinv x hx
    · exact ⟨hl.nd, fun q hq => ne q (hl.sub q hq)⟩
  have hKnd : K.Nodup := liveKeys_nodup nd t
  have hperm := sortBy_perm bytesLt K
  refine ⟨hKnd, ?_, ?_, hfin, hflat, ?_, ?_, ?_⟩
  · show (processCommand mode c [nKeys, [42]] (start s h)).2.out = _
    rw [aK.out, hout0]
  · show (processCommand mode c [nDbsize] (start s h)).2.out = _
    rw [aD.out, hout0]
  · rw [hflat, List.length_map, hperm.length_eq]
  · intro k
    obtain ⟨DE, aE1, aE2⟩ := aE k
    obtain ⟨DT, aT1, aT2⟩ := aT k
    rw [hr, hdict] at aE1 aT1
    refine ⟨?_, ?_, ((type_iff_live nd t k).1).symm, ?_⟩
    · show (processCommand mode c [nExists, k] (start s h)).2.out = _
      rw [aE1.out, hout0]
    · show (processCommand mode c [nType, k] (start s h)).2.out = _
      rw [aT1.out, hout0]
    · rw [hflat, List.mem_map]
      constructor
      · intro hk'; exact ⟨k, (mem_sortBy bytesLt).2 hk', rfl⟩
      · rintro ⟨k', hk', e⟩
        cases e
        exact (mem_sortBy bytesLt).1 hk'
  · intro s' hs'
    have mk : ∀ (s' : Sys) (r : Reply) (D' : Dict), Answered (start s h) s' c t r D' → LazyOnly t D D' →
        LazyOnly t D (dictOf s' c) ∧ Normal s' c ∧ s'.DataInv ∧ (s'.conn c).db = (s.conn c).db := by
      intro s' r D' ha hl
      have hd' := answered_dict ha (by rw [hdict]; exact nd) (by rw [hdict]; exact hl)
      rw [hdict] at hd'
      refine ⟨hd', answered_normal ha, hinvOf s' D' ?_ hl, by rw [ha.db, hconn]⟩
      rw [ha.dbs, hconn, hsrv]
    rcases hs' with rfl | rfl | rfl | ⟨k, rfl | rfl⟩
    · exact mk _ _ _ aK (lazyOnly_purge nd t)
    · exact mk _ _ _ aD (lazyOnly_purge nd t)
    · obtain ⟨hi, h1, h2, h3, h4, _⟩ := hfinv
      refine ⟨?_, ⟨h1, h2, h3⟩, hi, h4⟩
      unfold dictOf
      rw [h4, hfdbs]
      have := getD_set_purge s.srv.dbs (s.conn c).db t
      show LazyOnly t D ((s.srv.dbs.set (s.conn c).db (purgeAt t (s.srv.dbs.getD (s.conn c).db []))).getD (s.conn c).db [])
      rw [this]
      exact lazyOnly_purge nd t
    · obtain ⟨DE, aE1, aE2⟩ := aE k
      rw [hr, hdict] at aE1 aE2
      exact mk _ _ _ aE1 aE2
    · obtain ⟨DT, aT1, aT2⟩ := aT k
      rw [hr, hdict] at aT1 aT2
      exact mk _ _ _ aT1 aT2


theorem LazyOnly.trans {t : Int} {D D1 D2 : Dict} (h1 : LazyOnly t D D1) (h2 : LazyOnly t D1 D2) : LazyOnly t D D2 :=
  ⟨h2.nd, h2.eq.trans h1.eq, fun q hq => h1.sub q (h2.sub q hq)⟩

/-- **… also when the requests are sent ONE AFTER THE OTHER** (same connection, every request taking the clock reading
`t`): `KEYS *`, then `DBSIZE`, then `EXISTS k`, then `TYPE k`, then the complete SCAN loop.  Every reply is the one
computed from the live keys `K` of the ORIGINAL dictionary `D` at `t`: the purges and lazy deletions the earlier
requests perform are invisible to the later ones. -/
theorem views_agree_in_sequence (mode : Mode) (c : Nat) (nKeys nDbsize nExists nType nScan k : Bytes)
    (opts : List Bytes) (o : ScanOpts) (s : Sys) (t : Int) (hs : List Hint)
    (hk : lookupSig nKeys = some keysSig) (hd : lookupSig nDbsize = some dbsizeSig)
    (he : lookupSig nExists = some sigExists) (hty : lookupSig nType = some sigType)
    (hsc : lookupSig nScan = some scanSig)
    (hp : parseScanOpts true opts {} = .ok o) (hpat : o.pattern = none) (hoty : o.ty = none)
    (hinv : s.DataInv) (hn : Normal s c) (hclk : ∀ h ∈ hs, h.time = t)
    (hbound : (liveKeys t (dictOf s c)).length ≤ 2 ^ 63)
    (hlen : scanCalls (liveKeys t (dictOf s c)).length o.count.toNat ≤ hs.length) :
    let D := dictOf s c
    let K := liveKeys t D
    let h : Hint := ⟨t, [], []⟩
    let s1 := stepEv s (request mode c [nKeys, [42]] h)
    let s2 := stepEv s1 (request mode c [nDbsize] h)
    let s3 := stepEv s2 (request mode c [nExists, k] h)
    let s4 := stepEv s3 (request mode c [nType, k] h)
    let scan := iter mode c (scanReq nScan opts) hs 0 s4
    s1.out = [(c, Reply.bulks K)] ∧ s2.out = [(c, .int K.length)] ∧
    s3.out = [(c, .int (if k ∈ K then 1 else 0))] ∧ s4.out = [(c, .status (strBytes (typeNameAt t D k)))] ∧
    scan.finished = true ∧ scan.pages.flatten = (sortBy bytesLt K).map Reply.bulk ∧
    LazyOnly t D (dictOf scan.final c) ∧ scan.final.DataInv ∧ Normal scan.final c := by
  intro D K h s1 s2 s3 s4 scan
  -- one step of the chain: the facts `views_agree` gives in a state whose dictionary is a lazy variant of `D`
  have step : ∀ s' : Sys, s'.DataInv → Normal s' c → LazyOnly t D (dictOf s' c) →
      liveKeys t (dictOf s' c) = K ∧ typeNameAt t (dictOf s' c) k = typeNameAt t D k := by
    intro s' _ _ hl
    have := hl.later (Int.le_refl t)
    refine ⟨this.2.1, ?_⟩
    unfold typeNameAt
    rw [congrFun this.2.2 k]
  have va := fun (s' : Sys) (hi : s'.DataInv) (hn' : Normal s' c) (hl : LazyOnly t D (dictOf s' c)) =>
    views_agree mode c nKeys nDbsize nExists nType nScan opts o s' t hs hk hd he hty hsc hp hpat hoty hi hn' hclk
      (by rw [(step s' hi hn' hl).1]; exact hbound) (by rw [(step s' hi hn' hl).1]; exact hlen)
  obtain ⟨nd, _⟩ := good_dictOf hinv c
  -- KEYS *
  have v0 := va s hinv hn (lazyOnly_refl nd t)
  simp only at v0
  obtain ⟨_, o1, _, _, _, _, _, p0⟩ := v0
  obtain ⟨l1, n1, i1, _⟩ := p0 s1 (Or.inl rfl)
  -- DBSIZE
  have v1 := va s1 i1 n1 l1
  simp only at v1
  obtain ⟨_, _, o2, _, _, _, _, p1⟩ := v1
  obtain ⟨l2', n2, i2, _⟩ := p1 s2 (Or.inr (Or.inl rfl))
  have l2 := l1.trans l2'
  -- EXISTS k
  have v2 := va s2 i2 n2 l2
  simp only at v2
  obtain ⟨_, _, _, _, _, _, k2, p2⟩ := v2
  obtain ⟨l3', n3, i3, _⟩ := p2 s3 (Or.inr (Or.inr (Or.inr ⟨k, Or.inl rfl⟩)))
  have l3 := l2.trans l3'
  -- TYPE k
  have v3 := va s3 i3 n3 l3
  simp only at v3
  obtain ⟨_, _, _, _, _, _, k3, p3⟩ := v3
  obtain ⟨l4', n4, i4, _⟩ := p3 s4 (Or.inr (Or.inr (Or.inr ⟨k, Or.inr rfl⟩)))
  have l4 := l3.trans l4'
  -- SCAN
  have v4 := va s4 i4 n4 l4
  simp only at v4
  obtain ⟨_, _, _, f4, fl4, _, _, p4⟩ := v4
  obtain ⟨l5', n5, i5, _⟩ := p4 scan.final (Or.inr (Or.inr (Or.inl rfl)))
  refine ⟨o1, ?_, ?_, ?_, f4, ?_, l4.trans l5', i5, n5⟩
  · rw [o2, (step s1 i1 n1 l1).1]
  · rw [(k2 k).1, (step s2 i2 n2 l2).1]
  · rw [(k3 k).2.1, (step s3 i3 n3 l3).2]
  · rw [fl4, (step s4 i4 n4 l4).1]

/-! ## 5. removing the last element deletes the key -/

/-- **Nothing stored under `k` ⇒ every view says so** (pure runner, any context, any clock): EXISTS replies 0, TYPE
replies `none`, the key is not among the live keys (so KEYS, SCAN, DBSIZE, RANDOMKEY do not see it). -/
theorem absent_views {D : Dict} (nd : NodupKeys D) (ne : NoEmpty D) {k : Bytes} (h : Absent D k) (ctx : Ctx) (t : Int) :
    (runRegular sigExists Cmd.exists_ ctx none [k] ⟨D, t⟩).reply = .int 0 ∧
    (runRegular sigType Cmd.type_ ctx none [k] ⟨D, t⟩).reply = .status (strBytes "none") ∧
    k ∉ liveKeys t D ∧ Db.live ⟨D, t⟩ k = none := by
  have hl : Db.live ⟨D, t⟩ k = none := absent_not_live h t
  have h1 := congrArg Prod.fst (FR.Props.C01k.exists_spec ctx ⟨D, t⟩ nd ne k [])
  have h2 := congrArg Prod.fst (FR.Props.C01k.type_spec ctx ⟨D, t⟩ nd k)
  simp only at h1 h2
  refine ⟨?_, ?_, ?_, hl⟩
  · rw [h1]; simp [hl]
  · rw [h2, hl]
  · rw [mem_liveKeys_iff_live, hl]; simp

/-- **THE GENERIC THEOREM: removing the last element deletes the key.**  For EVERY command run by the generic runner —
any signature, any body, hence every removing command of every family (LPOP / RPOP / LREM / LTRIM / RPOPLPUSH / LMOVE
source, SREM / SPOP / SMOVE source / S…STORE with an empty result, HDEL, ZREM / ZREMRANGEBY…) — on a database with
unique keys and no stored empty collection: if the last item the body hands back for key `k` is modified and carries
an empty list / set / hash / sorted set (or no value), then afterwards
* NOTHING is stored under `k` (`Absent`: the write-back pops the key instead of storing the empty collection),
  and the watchers of `k` were notified;
* the two dictionary invariants hold again;
* at every clock and in every context `EXISTS k` replies 0 and `TYPE k` replies `none`, and `k` is not a live key.
The per-family instances below discharge the hypothesis on the body for each removing command. -/
theorem last_element_removal_deletes (sig : Sig) (body : Body) (ctx : Ctx) (raw : List Bytes) (db : Db)
    (nd : NodupKeys db.dict) (ne : NoEmpty db.dict) {args : List Arg} {cis : List CI} {o : BodyOut}
    (hap : (sig.apply raw db).2 = .ok (.ok args cis)) (hb : body ctx args cis = .ok o) {k : Bytes}
    (he : EmptiedLast o.cis k) :
    let out := runRegular sig body ctx none raw db
    Absent out.db.dict k ∧ k ∈ out.notified ∧ NodupKeys out.db.dict ∧ NoEmpty out.db.dict ∧
    ∀ (ctx' : Ctx) (t' : Int),
      (runRegular sigExists Cmd.exists_ ctx' none [k] ⟨out.db.dict, t'⟩).reply = .int 0 ∧
      (runRegular sigType Cmd.type_ ctx' none [k] ⟨out.db.dict, t'⟩).reply = .status (strBytes "none") ∧
      k ∉ liveKeys t' out.db.dict := by
  intro out
  have hg := runRegular_emptied sig body ctx raw db hap hb he
  have nd' := runRegular_nodup sig body ctx none raw nd
  have ne' := runRegular_noEmpty sig body ctx none raw nd ne
  refine ⟨hg.1, hg.2, nd', ne', fun ctx' t' => ?_⟩
  have := absent_views nd' ne' hg.1 ctx' t'
  exact ⟨this.1, this.2.1, this.2.2.1⟩

/-- the hypothesis of the generic theorem for a body that replaces ONE of the items it was given (all bodies of the
table do this through `key.update(…)` / `key.value = …`): the new item is modified and holds an empty collection -/
theorem emptiedLast_of_set (sig : Sig) (raw : List Bytes) (db : Db) {args : List Arg} {cis : List CI}
    (hap : (sig.apply raw db).2 = .ok (.ok args cis)) {i : Nat} (hi : i < cis.length) {c' : CI}
    (hm : c'.modified = true) (hn : NoContent c') : EmptiedLast (cis.set i c') c'.key :=
  emptiedLast_set (fun c hc => (Sig.apply_clean sig raw db hap c hc).1) hi hm hn

/-- **… and at system level.**  A regular command of the table sent by a connection in normal mode, whose body (run on
the selected database at the clock reading of the request) empties key `k`: in the state after the request nothing is
stored under `k` in the selected database, the state satisfies the invariant, the connection is in normal mode — so
(`absent_key_invisible`) every later EXISTS / TYPE / KEYS / DBSIZE / SCAN treats `k` as missing. -/
theorem last_element_removal_deletes_sys (mode : Mode) (c : Nat) (nameB : Bytes) (raw : List Bytes) (sig : Sig)
    (body : Body) (s : Sys) (hname : lookupSig nameB = some sig) (hreg : Cmd.regular sig.name = some body)
    (har : sig.checkArity raw.length = true) (hns : scriptNames.contains sig.name = false)
    (hinv : s.DataInv) (hn : Normal s c)
    {args : List Arg} {cis : List CI} {o : BodyOut} (hap : (sig.apply raw (viewAt s c)).2 = .ok (.ok args cis))
    (hb : body (ctxAt s c) args cis = .ok o) {k : Bytes} (he : EmptiedLast o.cis k) :
    let s' := (processCommand mode c (nameB :: raw) s).2
    Absent (dictOf s' c) k ∧ s'.DataInv ∧ Normal s' c ∧
    s'.out = (c, (runRegular sig body (ctxAt s c) none raw (viewAt s c)).reply) :: s.out := by
  intro s'
  obtain ⟨nd, ne⟩ := good_dictOf hinv c
  have ha := regular_answered mode c nameB raw sig body s hname hreg har hns hn.tx hn.pubsub hn.closed
  have hg := last_element_removal_deletes sig body (ctxAt s c) raw (viewAt s c) nd ne hap hb he
  simp only at hg
  obtain ⟨habs, _, nd', ne', _⟩ := hg
  refine ⟨?_, ?_, answered_normal ha, ha.out⟩
  · show Absent (s'.srv.dbs.getD (s'.conn c).db []) k
    rw [ha.db, ha.dbs]
    by_cases hd : (s.conn c).db < s.srv.dbs.length
    · rw [getD_set_self _ _ _ _ hd]; exact habs
    · have hd : s.srv.dbs.length ≤ (s.conn c).db := by omega
      rw [List.getD_eq_getElem?_getD, List.getElem?_eq_none (by simpa using hd)]
      intro q hq; cases hq
  · intro x hx
    rw [ha.dbs] at hx
    rcases List.mem_or_eq_of_mem_set hx with hx | rfl
    · exact hinv x hx
    · exact ⟨nd', ne'⟩

/-- nothing is stored under `k` in the selected database: EXISTS replies 0, TYPE replies `none`, KEYS * does not list
`k` — at whatever clock reading the request takes -/
theorem absent_key_invisible (mode : Mode) (c : Nat) (nExists nType nKeys k : Bytes) (s : Sys)
    (he : lookupSig nExists = some sigExists) (hty : lookupSig nType = some sigType)
    (hk : lookupSig nKeys = some keysSig) (hinv : s.DataInv) (hn : Normal s c) (habs : Absent (dictOf s c) k) :
    (processCommand mode c [nExists, k] s).2.out = (c, .int 0) :: s.out ∧
    (processCommand mode c [nType, k] s).2.out = (c, .status (strBytes "none")) :: s.out ∧
    ∃ K, (processCommand mode c [nKeys, [42]] s).2.out = (c, Reply.bulks K) :: s.out ∧ k ∉ K := by
  obtain ⟨nd, ne⟩ := good_dictOf hinv c
  have hl : Db.live ⟨dictOf s c, reading s⟩ k = none := absent_not_live habs _
  have hnk : k ∉ liveKeys (reading s) (dictOf s c) := by rw [mem_liveKeys_iff_live, hl]; simp
  obtain ⟨_, a1, _⟩ := exists_iff_live mode c nExists k s he hinv hn
  obtain ⟨_, a2, _⟩ := type_spec mode c nType k s hty hinv hn
  have a3 := keys_star_spec mode c nKeys s hk hn
  rw [if_neg hnk] at a1
  have ht : typeNameAt (reading s) (dictOf s c) k = "none" := by unfold typeNameAt; rw [hl]
  rw [ht] at a2
  exact ⟨a1.out, a2.out, _, a3.out, hnk⟩


/-! ### the removing command families (registered signature and body, arbitrary database with unique keys)

`Gone out k` : after the run nothing is stored under `k` and the watchers of `k` were notified.  By `gone_views` this
means `EXISTS k = 0`, `TYPE k = none` and `k` not live, at every later clock. -/

/-- after the run nothing is stored under `k`, and `k` was notified -/
def Gone (out : RunOut) (k : Bytes) : Prop := Absent out.db.dict k ∧ k ∈ out.notified

open FR.HashSet in
/-- the commands below are the registered ones: `sigOf name` is the entry of the signature table -/
theorem family_tables :
    (∀ name ∈ ["lpop", "rpop", "lrem", "ltrim", "rpoplpush", "lmove", "srem", "spop", "smove", "sdiffstore",
        "sinterstore", "sunionstore", "hdel", "zrem", "zremrangebyrank", "zremrangebyscore", "zremrangebylex",
        "lpushx", "rpushx", "sadd"], SigTable.find name = some (sigOf name)) ∧
    Cmd.regular "lpop" = some (Cmd.listPop true) ∧ Cmd.regular "rpop" = some (Cmd.listPop false) ∧
    Cmd.regular "lrem" = some Cmd.lrem ∧ Cmd.regular "ltrim" = some Cmd.ltrim ∧
    Cmd.regular "rpoplpush" = some Cmd.rpoplpush ∧ Cmd.regular "lmove" = some Cmd.lmove ∧
    Cmd.regular "srem" = some Cmd.srem ∧ Cmd.regular "spop" = some Cmd.spop ∧ Cmd.regular "smove" = some Cmd.smove ∧
    Cmd.regular "sdiffstore" = some (Cmd.setopStore .diff) ∧ Cmd.regular "sinterstore" = some (Cmd.setopStore .inter) ∧
    Cmd.regular "sunionstore" = some (Cmd.setopStore .union) ∧ Cmd.regular "hdel" = some Cmd.hdel ∧
    Cmd.regular "zrem" = some Cmd.zrem ∧ Cmd.regular "zremrangebyrank" = some Cmd.zremrangebyrank ∧
    Cmd.regular "zremrangebyscore" = some Cmd.zremrangebyscore ∧
    Cmd.regular "zremrangebylex" = some Cmd.zremrangebylex := by
  refine ⟨by decide +kernel, rfl, rfl, rfl, rfl, rfl, rfl, rfl, rfl, rfl, rfl, rfl, rfl, rfl, rfl, rfl, rfl, rfl⟩

/-- what `Gone` means for the views: EXISTS 0, TYPE none, not a live key — in every context and at every clock -/
theorem gone_views (sig : Sig) (body : Body) (ctx : Ctx) (raw : List Bytes) {db : Db} (nd : NodupKeys db.dict)
    (ne : NoEmpty db.dict) {k : Bytes} (h : Gone (runRegular sig body ctx none raw db) k) (ctx' : Ctx) (t' : Int) :
    (runRegular sigExists Cmd.exists_ ctx' none [k] ⟨(runRegular sig body ctx none raw db).db.dict, t'⟩).reply = .int 0 ∧
    (runRegular sigType Cmd.type_ ctx' none [k] ⟨(runRegular sig body ctx none raw db).db.dict, t'⟩).reply =
      .status (strBytes "none") ∧
    k ∉ liveKeys t' (runRegular sig body ctx none raw db).db.dict := by
  have := absent_views (runRegular_nodup sig body ctx none raw nd) (runRegular_noEmpty sig body ctx none raw nd ne)
    h.1 ctx' t'
  exact ⟨this.1, this.2.1, this.2.2.1⟩

section families
open FR.HashSet
variable (ctx : Ctx) {db : Db} (nd : NodupKeys db.dict)
include nd

/-- **LISTS.**
1. `LPOP k` / `RPOP k` on a list with one element `x`: reply `x`, key gone.
2. `LPOP k n` / `RPOP k n` with `n ≥` the length: all elements are returned (in pop order), key gone.
3. `LREM k count v` removing as many elements as the list has (all elements equal `v`; `count = 0` or `|count| ≥`
   the length): reply the length, key gone.
4. `LTRIM k a b` with an empty window: OK, key gone.
5. `RPOPLPUSH src dst`, `LMOVE src dst …` with a one-element source and another destination (missing or a list):
   reply the element, source key gone. -/
theorem list_removal_deletes (k : Bytes) (e : Option Int) :
    (∀ left x, db.live k = some ⟨.list [x], e⟩ →
      let out := runRegular (sigOf (popName left)) (Cmd.listPop left) ctx none [k] db
      out.reply = .bulk x ∧ Gone out k) ∧
    (∀ left l nb n, db.live k = some ⟨.list l, e⟩ → l ≠ [] → Conv.int nb = .ok n → (l.length : Int) ≤ n →
      let out := runRegular (sigOf (popName left)) (Cmd.listPop left) ctx none [k, nb] db
      out.reply = Reply.bulks (if left then l else l.reverse) ∧ Gone out k) ∧
    (∀ l cb count v, db.live k = some ⟨.list l, e⟩ → l ≠ [] → Conv.int cb = .ok count →
      (if count = 0 then l.count v else min count.natAbs (l.count v)) = l.length →
      let out := runRegular (sigOf "lrem") Cmd.lrem ctx none [k, cb, v] db
      out.reply = .int (l.length : Nat) ∧ Gone out k) ∧
    (∀ l sb eb a b, db.live k = some ⟨.list l, e⟩ → l ≠ [] → Conv.int sb = .ok a → Conv.int eb = .ok b →
      FR.Spec.lrangeSpec l a b = [] →
      let out := runRegular (sigOf "ltrim") Cmd.ltrim ctx none [k, sb, eb] db
      out.reply = .ok ∧ Gone out k) ∧
    (∀ x dst, db.live k = some ⟨.list [x], e⟩ → typeOK db.live (some .list) dst = true → dst ≠ k →
      let out := runRegular (sigOf "rpoplpush") Cmd.rpoplpush ctx none [k, dst] db
      out.reply = .bulk x ∧ Gone out k) ∧
    (∀ x dst a b, db.live k = some ⟨.list [x], e⟩ → typeOK db.live (some .list) dst = true → dst ≠ k →
      (casenorm a = strBytes "left" ∨ casenorm a = strBytes "right") →
      (casenorm b = strBytes "left" ∨ casenorm b = strBytes "right") →
      let out := runRegular (sigOf "lmove") Cmd.lmove ctx none [k, dst, a, b] db
      out.reply = .bulk x ∧ Gone out k) := by
  refine ⟨fun left x h => ?_, fun left l nb n h hne hn hall => ?_, fun l cb count v h hne hc hall => ?_,
    fun l sb eb a b h hne hs he hw => ?_, fun x dst h hd hne => ?_, fun x dst a b h hd hne ha hb => ?_⟩
  · have := run_pop_last left ctx k nd h; exact ⟨this.1, this.2⟩
  · have := run_pop_all left ctx k nb n nd h hne hn hall; exact ⟨this.1, this.2⟩
  · have := run_lrem_all ctx k cb v count nd h hne hc hall; exact ⟨this.1, this.2⟩
  · have := run_ltrim_all ctx k sb eb a b nd h hne hs he hw; exact ⟨this.1, this.2⟩
  · have := run_rpoplpush_last ctx k dst nd h hd hne; exact ⟨this.1, this.2⟩
  · have := run_lmove_last ctx k dst a b nd h hd hne ha hb; exact ⟨this.1, this.2⟩

/-- **SETS.**
1. `SREM k m …` naming every member: reply the cardinality, key gone.
2. `SPOP k` on a one-member set (the recorded random choice is that member): reply the member, key gone.
3. `SMOVE src dst m` when `m` is the only member of the source and the destination is another key (missing or a
   set): reply 1, source key gone.
4. `SDIFFSTORE` / `SINTERSTORE` / `SUNIONSTORE dst k …` with an empty result: reply 0 and NOTHING is stored under `dst`
   afterwards — whatever `dst` held before (any type, any deadline). -/
theorem set_removal_deletes (k : Bytes) (e : Option Int) :
    (∀ s m rest, db.live k = some ⟨.set s, e⟩ → s ≠ [] → (∀ x ∈ s, x ∈ m :: rest) →
      let out := runRegular (sigOf "srem") Cmd.srem ctx none (k :: m :: rest) db
      out.reply = .int (s.length : Nat) ∧ Gone out k) ∧
    (∀ x rest, db.live k = some ⟨.set [x], e⟩ → ctx.picks = [x] :: rest →
      let out := runRegular (sigOf "spop") Cmd.spop ctx none [k] db
      out.reply = .bulk x ∧ Gone out k) ∧
    (∀ m dst sd ed, db.live k = some ⟨.set [m], e⟩ → setView db.live dst = some (sd, ed) → dst ≠ k →
      let out := runRegular (sigOf "smove") Cmd.smove ctx none [k, dst, m] db
      out.reply = .int 1 ∧ Gone out k) ∧
    (∀ name op, (name, op) ∈ [("sdiffstore", Cmd.SetOp.diff), ("sinterstore", .inter), ("sunionstore", .union)] →
      ∀ src srcs, (src :: srcs).all (typeOK db.live (some .set)) = true →
        Cmd.calcSetop op (setAt db.live src) (srcs.map (setAt db.live)) = [] →
        let out := runRegular (sigOf name) (Cmd.setopStore op) ctx none (k :: src :: srcs) db
        out.reply = .int 0 ∧ Gone out k) := by
  refine ⟨fun s m rest h hne hall => ?_, fun x rest h hp => ?_, fun m dst sd ed h hd hne => ?_,
    fun name op hmem src srcs hty hem => ?_⟩
  · have := run_srem_all ctx k m rest nd h hne hall; exact ⟨this.1, this.2⟩
  · have := run_spop_last ctx k nd h rest hp; exact ⟨this.1, this.2⟩
  · have := run_smove_last ctx k dst m nd h hd hne; exact ⟨this.1, this.2⟩
  · simp only [List.mem_cons, Prod.mk.injEq, List.mem_nil_iff, or_false] at hmem
    rcases hmem with ⟨rfl, rfl⟩ | ⟨rfl, rfl⟩ | ⟨rfl, rfl⟩
    · have := run_setopStore_empty ctx nd "sdiffstore" .diff rfl rfl k src srcs hty hem; exact ⟨this.1, this.2⟩
    · have := run_setopStore_empty ctx nd "sinterstore" .inter rfl rfl k src srcs hty hem; exact ⟨this.1, this.2⟩
    · have := run_setopStore_empty ctx nd "sunionstore" .union rfl rfl k src srcs hty hem; exact ⟨this.1, this.2⟩

/-- **HASHES.**  `HDEL k f …` naming every field: the reply is the (positive) number of fields removed, key gone. -/
theorem hash_removal_deletes (k : Bytes) (e : Option Int) (h : HashSet.HashV) (f : Bytes) (rest : List Bytes)
    (hl : db.live k = some ⟨.hash h, e⟩) (hne : h ≠ []) (hall : ∀ p ∈ h, p.1 ∈ f :: rest) :
    let out := runRegular (sigOf "hdel") Cmd.hdel ctx none (k :: f :: rest) db
    out.reply = .int ((hdelRec h (f :: rest)).2 : Nat) ∧ 0 < (hdelRec h (f :: rest)).2 ∧ Gone out k := by
  have := run_hdel_all ctx k f rest nd hl hne hall
  exact ⟨this.1, this.2.1, this.2.2⟩

/-- **SORTED SETS.**  `ZREM k m …` naming every member, and `ZREMRANGEBYRANK` / `ZREMRANGEBYSCORE` / `ZREMRANGEBYLEX`
whose range (as the model computes it) covers every member: the reply is the cardinality, key gone. -/
theorem zset_removal_deletes (k : Bytes) (e : Option Int) (z : ZSet) (hl : db.live k = some ⟨.zset z, e⟩)
    (hz : z.bylex ≠ []) :
    (∀ m rest, (∀ p ∈ z.bylex, p.1 ∈ m :: rest) →
      let out := runRegular (sigOf "zrem") Cmd.zrem ctx none (k :: m :: rest) db
      out.reply = .int (z.len : Nat) ∧ Gone out k) ∧
    (∀ sb eb a b, Conv.int sb = .ok a → Conv.int eb = .ok b →
      (∀ p ∈ z.bylex, p.1 ∈ (Py.slice z.byscore (fixRange a b z.len).1 (fixRange a b z.len).2).map Prod.snd) →
      let out := runRegular (sigOf "zremrangebyrank") Cmd.zremrangebyrank ctx none [k, sb, eb] db
      out.reply = .int (z.len : Nat) ∧ Gone out k) ∧
    (∀ mnb mxb mn mx mne mxe, Conv.scoreTest mnb = .ok (mn, mne) → Conv.scoreTest mxb = .ok (mx, mxe) →
      (∀ p ∈ z.bylex, p.1 ∈ ((z.irange mn (Cmd.lowerTail mne) mx (Cmd.upperTail mxe) true true).map Prod.snd)) →
      let out := runRegular (sigOf "zremrangebyscore") Cmd.zremrangebyscore ctx none [k, mnb, mxb] db
      out.reply = .int (z.len : Nat) ∧ Gone out k) ∧
    (∀ mnb mxb mn mx mne mxe, Conv.stringTest mnb = .ok (mn, mne) → Conv.stringTest mxb = .ok (mx, mxe) →
      (∀ p ∈ z.bylex, p.1 ∈ z.irangeLex mn mx (!mne) (!mxe)) →
      let out := runRegular (sigOf "zremrangebylex") Cmd.zremrangebylex ctx none [k, mnb, mxb] db
      out.reply = .int (z.len : Nat) ∧ Gone out k) := by
  refine ⟨fun m rest hall => ?_, fun sb eb a b hs he hall => ?_, fun mnb mxb mn mx mne mxe hs he hall => ?_,
    fun mnb mxb mn mx mne mxe hs he hall => ?_⟩
  · have := run_zrem_all ctx k m rest nd hl hz hall; exact ⟨this.1, this.2⟩
  · have := run_zremrangebyrank_all ctx k sb eb a b nd hl hz hs he hall; exact ⟨this.1, this.2⟩
  · have := run_zremrangebyscore_all ctx k mnb mxb mn mx mne mxe nd hl hz hs he hall; exact ⟨this.1, this.2⟩
  · have := run_zremrangebylex_all ctx k mnb mxb mn mx mne mxe nd hl hz hs he hall; exact ⟨this.1, this.2⟩

/-- **A no-op write creates nothing.**  In each of the following cases the reply is as stated and the live key space of
the database is literally the same function as before (`out.db.live = db.live`): no key was created, none removed.
1. `SADD k` without a member is refused with the arity error (for whatever `k` holds).
2. On a key `k` that is not live: `LPUSHX` / `RPUSHX k v …` reply 0; `SREM k m …`, `HDEL k f …`, `ZREM k m …`,
   `LREM k count v` reply 0; `SMOVE k dst m` (missing source) replies 0; `SDIFFSTORE` / `SINTERSTORE` / `SUNIONSTORE k src …`
   with an empty result reply 0 — and `k` is still not live.
3. `SMOVE src dst m` with `m` not a member of the source set replies 0. -/
theorem noop_write_creates_nothing (k : Bytes) :
    ((runRegular (sigOf "sadd") Cmd.sadd ctx none [k] db).reply = .err (strBytes (sigOf "sadd").wrongArgs) ∧
      (runRegular (sigOf "sadd") Cmd.sadd ctx none [k] db).db.live = db.live) ∧
    (db.live k = none →
      (∀ (left : Bool) v vs,
        let out := runRegular (sigOf (if left then "lpushx" else "rpushx")) (if left then Cmd.lpushx else Cmd.rpushx)
          ctx none (k :: v :: vs) db
        out.reply = .int 0 ∧ out.db.live = db.live) ∧
      (∀ m rest, let out := runRegular (sigOf "srem") Cmd.srem ctx none (k :: m :: rest) db
        out.reply = .int 0 ∧ out.db.live = db.live) ∧
      (∀ f rest, let out := runRegular (sigOf "hdel") Cmd.hdel ctx none (k :: f :: rest) db
        out.reply = .int 0 ∧ out.db.live = db.live) ∧
      (∀ m rest, let out := runRegular (sigOf "zrem") Cmd.zrem ctx none (k :: m :: rest) db
        out.reply = .int 0 ∧ out.db.live = db.live) ∧
      (∀ cb count v, Conv.int cb = .ok count →
        let out := runRegular (sigOf "lrem") Cmd.lrem ctx none [k, cb, v] db
        out.reply = .int 0 ∧ out.db.live = db.live) ∧
      (∀ dst m, let out := runRegular (sigOf "smove") Cmd.smove ctx none [k, dst, m] db
        out.reply = .int 0 ∧ out.db.live = db.live) ∧
      (∀ name op, (name, op) ∈ [("sdiffstore", Cmd.SetOp.diff), ("sinterstore", .inter), ("sunionstore", .union)] →
        ∀ src srcs, (src :: srcs).all (typeOK db.live (some .set)) = true →
          Cmd.calcSetop op (setAt db.live src) (srcs.map (setAt db.live)) = [] →
          let out := runRegular (sigOf name) (Cmd.setopStore op) ctx none (k :: src :: srcs) db
          out.reply = .int 0 ∧ out.db.live = db.live)) ∧
    (∀ src dst m it ss es sd ed, db.live src = some it → setView db.live src = some (ss, es) →
      setView db.live dst = some (sd, ed) → m ∉ ss →
      let out := runRegular (sigOf "smove") Cmd.smove ctx none [src, dst, m] db
      out.reply = .int 0 ∧ out.db.live = db.live) := by
  refine ⟨?_, fun hm => ⟨fun left v vs => ?_, fun m rest => ?_, fun f rest => ?_, fun m rest => ?_,
    fun cb count v hc => ?_, fun dst m => ?_, fun name op hmem src srcs hty hem => ?_⟩,
    fun src dst m it ss es sd ed hs hvs hvd hnm => ?_⟩
  · have hbad : ¬ ArityOK (sigOf "sadd") ([k] : List Bytes).length := by
      show ¬ ArityOK (sigOf "sadd") 1
      decide
    have := run_bad_arity "sadd" ctx [k] nd hbad
    exact ⟨this.1, this.2.1⟩
  · exact run_pushx_missing left ctx k v vs nd hm
  · have hv : setView db.live k = some ([], none) := by unfold setView; rw [hm]
    have := run_srem_none ctx k nd hv m rest (by simp)
    exact ⟨this.1, this.2.1⟩
  · have hv : hashView db.live k = some ([], none) := hashView_missing hm
    have hz : (hdelRec [] (f :: rest)).2 = 0 := by
      have := hdelRec_length (h := []) List.nodup_nil (f :: rest)
      simp at this; omega
    have := run_hdel_none ctx k nd hv f rest hz
    exact ⟨this.1, this.2.1⟩
  · exact run_zrem_missing ctx k m rest nd hm
  · exact run_lrem_missing ctx k cb v count nd hm hc
  · have := run_smove_missing ctx k dst m nd hm
    exact ⟨this.1, this.2.1⟩
  · have key : ∀ name op, (sigOf name).fixed = [.key none .unspecified, .key (some .set) .unspecified] →
        (sigOf name).rep = [.key (some .set) .unspecified] →
        Cmd.calcSetop op (setAt db.live src) (srcs.map (setAt db.live)) = [] →
        (runRegular (sigOf name) (Cmd.setopStore op) ctx none (k :: src :: srcs) db).reply = .int 0 ∧
        (runRegular (sigOf name) (Cmd.setopStore op) ctx none (k :: src :: srcs) db).db.live = db.live := by
      intro name op hfix hrep hem
      have := run_setopStore ctx nd name op hfix hrep k src srcs
      simp only at this
      rw [if_pos hty, hem] at this
      refine ⟨this.1, this.2.1.trans ?_⟩
      funext x
      unfold putAt
      by_cases hx : x = k
      · subst hx; simp [hm, Value.isEmptyColl]
      · simp [hx]
    simp only [List.mem_cons, Prod.mk.injEq, List.mem_nil_iff, or_false] at hmem
    rcases hmem with ⟨rfl, rfl⟩ | ⟨rfl, rfl⟩ | ⟨rfl, rfl⟩
    · exact key "sdiffstore" .diff rfl rfl hem
    · exact key "sinterstore" .inter rfl rfl hem
    · exact key "sunionstore" .union rfl rfl hem
  · have := run_smove_absent ctx src dst m nd hs hvs hvd hnm
    exact ⟨this.1, this.2.1⟩

/-- **FINDING (a deviation from Redis that concerns this property).**  `PFADD k` WITHOUT elements on a key that is not
live replies 0 and creates NO key in the model — and in the code (replayed: `PFADD k` → 0, `EXISTS k` → 0,
`TYPE k` → none).  Real Redis documents the opposite: "if the key does not exist, the data structure is created and 1
is returned"; a HyperLogLog is a string there (`TYPE` → string), here it is a set (`TYPE` → set after `PFADD k a`). -/
theorem pfadd_without_elements_creates_no_key (k : Bytes) (hm : db.live k = none) :
    (runRegular (sigOf "pfadd") Cmd.pfadd ctx none [k] db).reply = .int 0 ∧
    (runRegular (sigOf "pfadd") Cmd.pfadd ctx none [k] db).db.live = db.live := by
  have hv : setView db.live k = some ([], none) := by unfold setView; rw [hm]
  have := run_pfadd ctx k nd hv []
  refine ⟨this.1, this.2.1.trans ?_⟩
  funext x
  unfold putAt
  by_cases hx : x = k
  · subst hx; simp [hm, Value.isEmptyColl, Cmd.setUnion]
  · simp [hx]

end families


/-! ## 6. reads create nothing -/

/-- the read requests: the read commands of the regular table (`readNames`: GET, MGET, STRLEN, GETRANGE, …, EXISTS, TTL,
PTTL, TYPE, DUMP, the hash / list / set / sorted-set readers, SRANDMEMBER, the three keyed SCANs, …) and the four views
of the key space KEYS, DBSIZE, SCAN, RANDOMKEY -/
def IsRead (sig : Sig) : Prop :=
  (sig.name ∈ FR.NotifyKeys.readNames ∧ (Cmd.regular sig.name).isSome = true) ∨
    sig = keysSig ∨ sig = dbsizeSig ∨ sig = scanSig ∨ sig = randomkeySig

/-- every name of `readNames` is a regular command, is not a script command and is not EXEC -/
theorem readNames_facts : ∀ n ∈ FR.NotifyKeys.readNames,
    (Cmd.regular n).isSome = true ∧ scriptNames.contains n = false ∧ n ≠ "exec" := by decide +kernel

theorem lazyOnly_set {dbs : List Dict} (hg : ∀ D ∈ dbs, NodupKeys D) (d : Nat) {D' : Dict} {t : Int}
    (hl : LazyOnly t (dbs.getD d []) D') (i : Nat) : LazyOnly t (dbs.getD i []) ((dbs.set d D').getD i []) := by
  have hnd : ∀ j, NodupKeys (dbs.getD j []) := by
    intro j
    rw [List.getD_eq_getElem?_getD]
    cases hj : dbs[j]? with
    | none => exact (by unfold NodupKeys; simp)
    | some D => exact hg D (List.mem_of_getElem? hj)
  by_cases hi : i = d
  · subst hi
    by_cases hd : i < dbs.length
    · rw [getD_set_self _ _ _ _ hd]; exact hl
    · have hd : dbs.length ≤ i := by omega
      rw [List.set_eq_of_length_le hd]
      exact lazyOnly_refl (hnd i) t
  · rw [getD_set_ne _ _ _ _ _ hi]
    exact lazyOnly_refl (hnd i) t

theorem lazyOnly_same {s s' : Sys} (hinv : s.DataInv) (h : s'.srv.dbs = s.srv.dbs) (t : Int) (i : Nat) :
    LazyOnly t (s.srv.dbs.getD i []) (s'.srv.dbs.getD i []) := by
  rw [h]
  exact lazyOnly_refl (hinv.dbAt i).1 t

/-- **Reads create nothing.**  Whatever read request a connection in normal mode sends — with a good or a bad number
of arguments, of a good or a wrong type, whatever its reply — EVERY database of the server is afterwards what it was
before up to the removal of entries that are dead at the clock reading of the request (`LazyOnly`): no key is created
as a side effect, no value and no deadline is changed, in no database. -/
theorem read_creates_nothing (mode : Mode) (c : Nat) (nameB : Bytes) (args : List Bytes) (s : Sys) (sig : Sig)
    (hname : lookupSig nameB = some sig) (hread : IsRead sig) (hinv : s.DataInv) (hn : Normal s c) :
    ∀ i, LazyOnly (reading s) (s.srv.dbs.getD i []) ((processCommand mode c (nameB :: args) s).2.srv.dbs.getD i []) := by
  have hg : ∀ D ∈ s.srv.dbs, NodupKeys D := fun D hD => (hinv D hD).1
  obtain ⟨nd, ne⟩ := good_dictOf hinv c
  have hne : sig.name ≠ "exec" := by
    rcases hread with ⟨h, _⟩ | rfl | rfl | rfl | rfl
    · exact (readNames_facts _ h).2.2
    all_goals decide
  -- a request with a bad number of arguments touches no database
  have hbad : sig.checkArity args.length = false →
      ∀ i, LazyOnly (reading s) (s.srv.dbs.getD i []) ((processCommand mode c (nameB :: args) s).2.srv.dbs.getD i []) := by
    intro har
    have h := FR.ErrSys.pc_arity mode c nameB args s hname har hne
    intro i
    apply lazyOnly_same hinv _ _ i
    rw [h, Sys.emitS_srv]
    have hp : s.prologue.srv.dbs = s.srv.dbs := FR.ErrSys.prologue_dbs s
    split
    · rw [Sys.updConn_dbs, hp]
    · exact hp
  cases har : sig.checkArity args.length with
  | false => exact hbad har
  | true =>
    rcases hread with ⟨hr, hreg⟩ | rfl | rfl | rfl | rfl
    · -- a read command of the regular table
      obtain ⟨body, hb⟩ := Option.isSome_iff_exists.1 hreg
      have ha := regular_answered mode c nameB args sig body s hname hb har (readNames_facts _ hr).2.1
        hn.tx hn.pubsub hn.closed
      have hro := FR.NotifyKeys.regular_readOnly sig.name hr body hb
      have hreads := runRegular_reads_of_readOnly sig body hro (ctxAt s c) none args (db := viewAt s c) nd
      have ht : (runRegular sig body (ctxAt s c) none args (viewAt s c)).db.time = reading s :=
        runRegular_time sig body (ctxAt s c) none args (db := viewAt s c) nd
      have e : (runRegular sig body (ctxAt s c) none args (viewAt s c)).db =
          ⟨(runRegular sig body (ctxAt s c) none args (viewAt s c)).db.dict, reading s⟩ := by rw [← ht]
      rw [e] at hreads
      intro i
      rw [ha.dbs]
      exact lazyOnly_set hg _ (LazyOnly.of_reads hreads) i
    · -- KEYS
      obtain ⟨p, rfl⟩ : ∃ p, args = [p] := by
        rcases args with _ | ⟨p, _ | ⟨q, r⟩⟩
        · exact absurd har (by decide)
        · exact ⟨p, rfl⟩
        · simp [Sig.checkArity, keysSig] at har
      have ha := (keys_answered mode c nameB p s hname hn.tx hn.pubsub hn.closed).1
      intro i
      rw [ha.dbs]
      exact lazyOnly_set hg _ (lazyOnly_purge nd _) i
    · -- DBSIZE
      obtain rfl : args = [] := by
        rcases args with _ | ⟨p, r⟩
        · rfl
        · simp [Sig.checkArity, dbsizeSig] at har
      have ha := (dbsize_answered mode c nameB s hname hn.tx hn.pubsub hn.closed).1
      intro i
      rw [ha.dbs]
      exact lazyOnly_set hg _ (lazyOnly_purge nd _) i
    · -- SCAN
      obtain ⟨cb, opts, rfl⟩ : ∃ cb opts, args = cb :: opts := by
        rcases args with _ | ⟨cb, opts⟩
        · exact absurd har (by decide)
        · exact ⟨cb, opts, rfl⟩
      rw [FR.Props.C15s.scan_processCommand mode c nameB cb opts s hname hn.tx hn.pubsub]
      have hd : (scanStep s c cb opts).srv.dbs =
          if scanReaches cb opts then s.srv.dbs.set (s.conn c).db (purgeAt (reading s) (dictOf s c)) else s.srv.dbs := by
        unfold scanStep
        rw [markDead_srv_dbs, Sys.emitS_srv, afterScan_dbs, prologue_dbAt, prologue_dbs]
        rfl
      intro i
      show LazyOnly _ _ ((scanStep s c cb opts).srv.dbs.getD i [])
      rw [hd]
      split
      · exact lazyOnly_set hg _ (lazyOnly_purge nd _) i
      · exact lazyOnly_refl (hinv.dbAt i).1 _
    · -- RANDOMKEY
      obtain rfl : args = [] := by
        rcases args with _ | ⟨p, r⟩
        · rfl
        · simp [Sig.checkArity, randomkeySig] at har
      have ha := randomkey_answered mode c nameB s hname hn.tx hn.pubsub hn.closed
      intro i
      rw [ha.dbs]
      exact lazyOnly_set hg _ (lazyOnly_purge nd _) i

/-- … in terms of the live entries: after a read request, at the clock reading of the request and at every later one,
every key of every database has exactly the live entry it had before -/
theorem read_creates_nothing_live (mode : Mode) (c : Nat) (nameB : Bytes) (args : List Bytes) (s : Sys) (sig : Sig)
    (hname : lookupSig nameB = some sig) (hread : IsRead sig) (hinv : s.DataInv) (hn : Normal s c)
    (i : Nat) (k : Bytes) (t' : Int) (ht : reading s ≤ t') :
    Db.live ⟨(processCommand mode c (nameB :: args) s).2.srv.dbs.getD i [], t'⟩ k =
      Db.live ⟨s.srv.dbs.getD i [], t'⟩ k := by
  have h := read_creates_nothing mode c nameB args s sig hname hread hinv hn i
  exact congrFun (h.later ht).2.2 k


/-! ## 7. non-vacuity: the theorems applied to concrete states -/

section examples
open FR.Props.C15s (S str)
open FR.HashSet (sigOf typeOK setView)

/-- a history: connection 1 selects database 1 and stores a string with a deadline, two plain strings, a list of one
element, a set of one member, a hash of one field, a sorted set of one member (clock readings 100, 200, …) -/
def hist : List Ev := [
  .open 1,
  .request {} 1 [S "SELECT", S "1"] [100] [],
  .request {} 1 [S "SET", S "ka", S "1", S "PX", S "5"] [200] [],
  .request {} 1 [S "SET", S "kd", S "4"] [300] [],
  .request {} 1 [S "SET", S "kb", S ""] [400] [],
  .request {} 1 [S "RPUSH", S "l", S "a"] [500] [],
  .request {} 1 [S "SADD", S "s", S "m"] [600] [],
  .request {} 1 [S "HSET", S "h", S "f", S "v"] [700] [],
  .request {} 1 [S "ZADD", S "z", S "1", S "m"] [800] []]

/-- the state after the history -/
def sx : Sys := runHistory hist

/-- the hypotheses of the view theorems hold in `sx` for connection 1: the invariant (by the history theorem of C09b),
normal mode, database 1 selected; `ka` carries the deadline 200 + 5 ms = 50200 ticks -/
theorem sx_ok : sx.DataInv ∧ Normal sx 1 ∧ (sx.conn 1).db = 1 ∧ sx.fault = none ∧
    (dictOf sx 1).map Prod.fst = [S "ka", S "kd", S "kb", S "l", S "s", S "h", S "z"] ∧
    ((dictOf sx 1).lookup (S "ka")).map (·.expireat) = some (some 50200) :=
  ⟨FR.Props.C09.no_empty_collections_all_histories hist, ⟨by decide +kernel, by decide +kernel, by decide +kernel⟩,
    by decide +kernel, by decide +kernel, by decide +kernel, by decide +kernel⟩

theorem look : lookupSig (S "KEYS") = some keysSig ∧ lookupSig (S "dbsize") = some dbsizeSig ∧
    lookupSig (S "Exists") = some sigExists ∧ lookupSig (S "TYPE") = some sigType ∧
    lookupSig (S "SCAN") = some scanSig ∧ lookupSig (S "RANDOMKEY") = some randomkeySig := by
  refine ⟨by decide +kernel, by decide +kernel, by decide +kernel, by decide +kernel, by decide +kernel,
    by decide +kernel⟩

/-- at clock 60000 the key `ka` is dead (deadline 50200), the six others are live; at clock 50200 it is still live -/
example : liveKeys 60000 (dictOf sx 1) = [S "kd", S "kb", S "l", S "s", S "h", S "z"] ∧
    liveKeys 50200 (dictOf sx 1) = [S "ka", S "kd", S "kb", S "l", S "s", S "h", S "z"] := by decide +kernel

/-- `sx` about to take the clock reading 60000 -/
def s0 : Sys := sx.withHints [60000] []

/-- a reply as a list of byte strings (for decidable comparison): `:n` for integers, `+s` for status replies -/
def toks : Reply → List Bytes
  | .bulk b => [b]
  | .int n => [58 :: intBytes n]
  | .status b => [43 :: b]
  | .nil => [S "(nil)"]
  | .arr xs => xs.map fun r => match r with | .bulk b => b | _ => S "?"
  | _ => [S "?"]

/-- the newest reply queued for connection `c` -/
def lastOut (s : Sys) (c : Nat) : Option (List Bytes) :=
  s.out.head?.bind fun p => if p.1 = c then some (toks p.2) else none

/-- `dbsize_spec`, `keys_star_spec`, `keys_pattern_spec`, `exists_iff_live`, `type_spec` applied to `sx` with the clock
reading 60000: the replies the model really computes -/
example :
    lastOut (processCommand {} 1 [S "dbsize"] s0).2 1 = some [S ":6"] ∧
    lastOut (processCommand {} 1 [S "KEYS", S "*"] s0).2 1 = some [S "kd", S "kb", S "l", S "s", S "h", S "z"] ∧
    lastOut (processCommand {} 1 [S "KEYS", S "k?"] s0).2 1 = some [S "kd", S "kb"] ∧
    lastOut (processCommand {} 1 [S "Exists", S "ka"] s0).2 1 = some [S ":0"] ∧
    lastOut (processCommand {} 1 [S "Exists", S "kb"] s0).2 1 = some [S ":1"] ∧
    lastOut (processCommand {} 1 [S "TYPE", S "ka"] s0).2 1 = some [S "+none"] ∧
    lastOut (processCommand {} 1 [S "TYPE", S "kb"] s0).2 1 = some [S "+string"] ∧
    lastOut (processCommand {} 1 [S "TYPE", S "z"] s0).2 1 = some [S "+zset"] ∧
    ((processCommand {} 1 [S "KEYS", S "*"] s0).2.srv.dbs.getD 1 []).map Prod.fst =
      [S "kd", S "kb", S "l", S "s", S "h", S "z"] := by decide +kernel

/-- hints do not change the mode of a connection, the invariant or the dictionaries -/
theorem withHints_ok {s : Sys} {c : Nat} (cl : List Int) (pk : List (List Bytes)) :
    (Normal s c → Normal (s.withHints cl pk) c) ∧ (s.DataInv → (s.withHints cl pk).DataInv) ∧
    dictOf (s.withHints cl pk) c = dictOf s c ∧ (s.withHints cl pk).out = s.out :=
  ⟨fun h => ⟨h.tx, h.pubsub, h.closed⟩, fun h => h, rfl, rfl⟩

/-- the same through the theorem (any clock reading `t`) -/
example (t : Int) (rest : List Int) :
    (processCommand {} 1 [S "dbsize"] (sx.withHints (t :: rest) [])).2.out =
      (1, .int (liveKeys t (dictOf sx 1)).length) :: sx.out :=
  (dbsize_spec {} 1 (S "dbsize") (sx.withHints (t :: rest) []) look.2.1 ((withHints_ok _ _).1 sx_ok.2.1)).out

/-- the hints of a SCAN loop whose requests all take the clock reading 60000 -/
def hs2 : List Hint := [⟨60000, [], []⟩, ⟨60000, [], []⟩]

theorem hs2_clock : ∀ h ∈ hs2, h.time = 60000 := by
  intro h hh
  simp only [hs2, List.mem_cons, List.not_mem_nil, or_false] at hh
  rcases hh with rfl | rfl <;> rfl

/-- `views_agree` applied to `sx` at the clock reading 60000 (`ka` is dead, six keys are live): e.g. the complete SCAN
returned as many keys as DBSIZE says, `EXISTS ka` replies 0, and after `TYPE kb` the live keys are the same -/
example :
    (iter {} 1 (scanReq (S "SCAN") []) hs2 0 sx).pages.flatten.length = (liveKeys 60000 (dictOf sx 1)).length ∧
    (stepEv sx (request {} 1 [S "dbsize"] ⟨60000, [], []⟩)).out = [(1, .int (liveKeys 60000 (dictOf sx 1)).length)] ∧
    (stepEv sx (request {} 1 [S "Exists", S "ka"] ⟨60000, [], []⟩)).out =
      [(1, .int (if S "ka" ∈ liveKeys 60000 (dictOf sx 1) then 1 else 0))] ∧
    liveKeys 60000 (dictOf (stepEv sx (request {} 1 [S "TYPE", S "kb"] ⟨60000, [], []⟩)) 1) =
      liveKeys 60000 (dictOf sx 1) := by
  have h := views_agree {} 1 (S "KEYS") (S "dbsize") (S "Exists") (S "TYPE") (S "SCAN") [] {} sx 60000 hs2
    look.1 look.2.1 look.2.2.1 look.2.2.2.1 look.2.2.2.2.1 rfl rfl rfl sx_ok.1 sx_ok.2.1 hs2_clock
    (by decide +kernel) (by decide +kernel)
  simp only at h
  obtain ⟨_, _, hD, _, _, hlen, hk, hpres⟩ := h
  refine ⟨hlen, hD, (hk (S "ka")).1, ?_⟩
  have := (hpres _ (Or.inr (Or.inr (Or.inr ⟨S "kb", Or.inr rfl⟩)))).1
  exact (this.later (Int.le_refl _)).2.1

/-- `views_agree_in_sequence` applied to `sx`: KEYS *, DBSIZE, EXISTS s, TYPE s, then the SCAN loop, one after the other -/
example :
    (stepEv (stepEv sx (request {} 1 [S "KEYS", [42]] ⟨60000, [], []⟩)) (request {} 1 [S "dbsize"] ⟨60000, [], []⟩)).out =
      [(1, .int (liveKeys 60000 (dictOf sx 1)).length)] :=
  (views_agree_in_sequence {} 1 (S "KEYS") (S "dbsize") (S "Exists") (S "TYPE") (S "SCAN") (S "s") [] {} sx 60000 hs2
    look.1 look.2.1 look.2.2.1 look.2.2.2.1 look.2.2.2.2.1 rfl rfl rfl sx_ok.1 sx_ok.2.1 hs2_clock
    (by decide +kernel) (by decide +kernel)).2.1

/-- … and the loop really runs: one page with the six live keys in byte order, the dead key is purged -/
example :
    (iter {} 1 (scanReq (S "SCAN") []) hs2 0 sx).finished = true ∧
    (iter {} 1 (scanReq (S "SCAN") []) hs2 0 sx).pages.map (·.map FR.Props.C15s.bulkOf) =
      [[some (S "h"), some (S "kb"), some (S "kd"), some (S "l"), some (S "s"), some (S "z")]] ∧
    ((iter {} 1 (scanReq (S "SCAN") []) hs2 0 sx).final.srv.dbs.getD 1 []).map Prod.fst =
      [S "kd", S "kb", S "l", S "s", S "h", S "z"] := by decide +kernel

/-- `randomkey_spec`: with the recorded choice `kb` the reply is `kb`; with an empty database it is nil -/
example :
    lastOut (processCommand {} 1 [S "RANDOMKEY"] (sx.withHints [60000] [[S "kb"]])).2 1 = some [S "kb"] ∧
    (processCommand {} 1 [S "RANDOMKEY"] (sx.withHints [60000] [[S "kb"]])).2.fault = none ∧
    (processCommand {} 1 [S "RANDOMKEY"] (sx.withHints [60000] [[S "kb"]])).2.picks = [] ∧
    lastOut (processCommand {} 1 [S "RANDOMKEY"] ((stepEv sx (.request {} 1 [S "SELECT", S "2"] [1] [])).withHints
      [60000] [[S "kb"]])).2 1 = some [S "(nil)"] := by decide +kernel

example (pk : List (List Bytes)) :
    ∃ r, (processCommand {} 1 [S "RANDOMKEY"] (sx.withHints [60000] pk)).2.out = (1, r) :: sx.out ∧ r ≠ .nil := by
  have h := randomkey_spec {} 1 (S "RANDOMKEY") (sx.withHints [60000] pk) look.2.2.2.2.2
    ((withHints_ok _ _).1 sx_ok.2.1)
  simp only at h
  obtain ⟨r, ha, hnil, _⟩ := h
  refine ⟨r, ha.out, fun e => ?_⟩
  have := hnil.1 e
  have hne : liveKeys 60000 (dictOf sx 1) ≠ [] := by decide +kernel
  exact hne this

/-! ### removing the last element -/

/-- a database (clock 10): a one-element list, a list `a a`, a one-member set, a set `m n`, a one-field hash, a sorted
set with the members `a` (score 1) and `b` (score 2), a string, a sorted set with one member -/
def dbx : Db :=
  ⟨[(S "l", ⟨.list [S "a"], none⟩), (S "l2", ⟨.list [S "a", S "a"], some 99⟩), (S "s", ⟨.set [S "m"], none⟩),
    (S "s2", ⟨.set [S "m", S "n"], none⟩), (S "h", ⟨.hash [(S "f", S "v")], none⟩),
    (S "z", ⟨.zset ((ZSet.empty.add (S "a") Dbl.one).1.add (S "b") (Dbl.ofInt 2)).1, none⟩),
    (S "str", ⟨.str (S "x"), none⟩), (S "z1", ⟨.zset (ZSet.empty.add (S "a") Dbl.one).1, none⟩)], 10⟩
def ctxx : Ctx := { version := 7, time := 10, picks := [[S "m"]] }

theorem dbx_ok : NodupKeys dbx.dict ∧ NoEmpty dbx.dict := by
  refine ⟨by decide +kernel, ?_⟩
  unfold NoEmpty
  decide +kernel

/-- the hypotheses of the family theorems hold of `dbx` -/
example : dbx.live (S "l") = some ⟨.list [S "a"], none⟩ ∧ dbx.live (S "s") = some ⟨.set [S "m"], none⟩ ∧
    dbx.live (S "h") = some ⟨.hash [(S "f", S "v")], none⟩ ∧ dbx.live (S "nokey") = none ∧
    typeOK dbx.live (some .list) (S "nokey") = true ∧ setView dbx.live (S "nokey") = some ([], none) ∧
    Conv.int (S "5") = .ok 5 ∧ Conv.int (S "-1") = .ok (-1) ∧ Conv.int (S "0") = .ok 0 ∧
    FR.Spec.lrangeSpec [S "a", S "a"] 5 (-1) = [] ∧
    (if (0 : Int) = 0 then [S "a", S "a"].count (S "a") else min (0 : Int).natAbs ([S "a", S "a"].count (S "a"))) = 2 :=
  ⟨by with_unfolding_all rfl, by with_unfolding_all rfl, by with_unfolding_all rfl, by with_unfolding_all rfl,
    by with_unfolding_all rfl, by with_unfolding_all rfl, by with_unfolding_all rfl, by with_unfolding_all rfl,
    by with_unfolding_all rfl, by decide +kernel, by decide +kernel⟩

/-- the keys of the dictionary after running the registered command `name` on `dbx` -/
def keysAfter (name : String) (raw : List Bytes) : List Bytes :=
  ((FR.HashSet.run name ctxx raw dbx).db.dict.map Prod.fst)

/-- every removing command really drops the key it empties (and only that key); a removal that leaves an element keeps
the key -/
example :
    keysAfter "lpop" [S "l"] = [S "l2", S "s", S "s2", S "h", S "z", S "str", S "z1"] ∧
    keysAfter "rpop" [S "l2", S "5"] = [S "l", S "s", S "s2", S "h", S "z", S "str", S "z1"] ∧
    keysAfter "rpop" [S "l2"] = [S "l", S "l2", S "s", S "s2", S "h", S "z", S "str", S "z1"] ∧
    keysAfter "lrem" [S "l2", S "0", S "a"] = [S "l", S "s", S "s2", S "h", S "z", S "str", S "z1"] ∧
    keysAfter "ltrim" [S "l2", S "5", S "-1"] = [S "l", S "s", S "s2", S "h", S "z", S "str", S "z1"] ∧
    keysAfter "rpoplpush" [S "l", S "new"] = [S "l2", S "s", S "s2", S "h", S "z", S "str", S "z1", S "new"] ∧
    keysAfter "lmove" [S "l", S "l2", S "LEFT", S "right"] = [S "l2", S "s", S "s2", S "h", S "z", S "str", S "z1"] ∧
    keysAfter "srem" [S "s2", S "n", S "m", S "q"] = [S "l", S "l2", S "s", S "h", S "z", S "str", S "z1"] ∧
    keysAfter "spop" [S "s"] = [S "l", S "l2", S "s2", S "h", S "z", S "str", S "z1"] ∧
    keysAfter "smove" [S "s", S "s2", S "m"] = [S "l", S "l2", S "s2", S "h", S "z", S "str", S "z1"] ∧
    keysAfter "sinterstore" [S "str", S "s", S "nokey"] = [S "l", S "l2", S "s", S "s2", S "h", S "z", S "z1"] ∧
    keysAfter "sdiffstore" [S "l", S "s", S "s2"] = [S "l2", S "s", S "s2", S "h", S "z", S "str", S "z1"] ∧
    keysAfter "hdel" [S "h", S "f", S "g"] = [S "l", S "l2", S "s", S "s2", S "z", S "str", S "z1"] ∧
    keysAfter "zrem" [S "z", S "b", S "a"] = [S "l", S "l2", S "s", S "s2", S "h", S "str", S "z1"] ∧
    keysAfter "zrem" [S "z", S "b"] = [S "l", S "l2", S "s", S "s2", S "h", S "z", S "str", S "z1"] ∧
    keysAfter "zremrangebyrank" [S "z", S "0", S "-1"] = [S "l", S "l2", S "s", S "s2", S "h", S "str", S "z1"] ∧
    keysAfter "zremrangebyscore" [S "z", S "-inf", S "+inf"] = [S "l", S "l2", S "s", S "s2", S "h", S "str", S "z1"] ∧
    keysAfter "zremrangebylex" [S "z1", S "-", S "+"] = [S "l", S "l2", S "s", S "s2", S "h", S "z", S "str"] := by
  decide +kernel

/-- the generic theorem applied to `LPOP l` on `dbx`: its three hypotheses hold, hence EXISTS / TYPE answer 0 / none -/
example :
    (runRegular sigExists Cmd.exists_ ctxx none [S "l"]
      ⟨(runRegular (sigOf "lpop") Cmd.lpop ctxx none [S "l"] dbx).db.dict, 12345⟩).reply = .int 0 ∧
    (runRegular sigType Cmd.type_ ctxx none [S "l"]
      ⟨(runRegular (sigOf "lpop") Cmd.lpop ctxx none [S "l"] dbx).db.dict, 12345⟩).reply = .status (strBytes "none") := by
  have h := last_element_removal_deletes (sigOf "lpop") Cmd.lpop ctxx [S "l"] dbx dbx_ok.1 dbx_ok.2
    (args := [.key 0]) (cis := [⟨S "l", some (.list [S "a"]), none, false, false⟩])
    (o := { reply := .bulk (S "a"), cis := [⟨S "l", some (.list []), none, true, false⟩] })
    (by with_unfolding_all rfl) (by with_unfolding_all rfl) (k := S "l")
    ⟨[], _, [], rfl, rfl, rfl, by with_unfolding_all rfl, fun _ h => by cases h⟩
  exact ⟨(h.2.2.2.2 ctxx 12345).1, (h.2.2.2.2 ctxx 12345).2.1⟩

/-- the family theorem for lists applied to `dbx` -/
example : Gone (runRegular (sigOf (FR.C09v.popName true)) (Cmd.listPop true) ctxx none [S "l"] dbx) (S "l") :=
  ((list_removal_deletes ctxx dbx_ok.1 (S "l") none).1 true (S "a") (by with_unfolding_all rfl)).2

/-- the family theorems for sets, hashes and sorted sets applied to `dbx` -/
example :
    Gone (runRegular (sigOf "srem") Cmd.srem ctxx none [S "s", S "m", S "q"] dbx) (S "s") ∧
    Gone (runRegular (sigOf "sinterstore") (Cmd.setopStore .inter) ctxx none [S "str", S "s", S "nokey"] dbx) (S "str") ∧
    Gone (runRegular (sigOf "hdel") Cmd.hdel ctxx none [S "h", S "f", S "g"] dbx) (S "h") ∧
    Gone (runRegular (sigOf "zrem") Cmd.zrem ctxx none [S "z1", S "a"] dbx) (S "z1") := by
  refine ⟨?_, ?_, ?_, ?_⟩
  · exact ((set_removal_deletes ctxx dbx_ok.1 (S "s") none).1 [S "m"] (S "m") [S "q"] (by with_unfolding_all rfl)
      (by simp) (by intro x hx; simp only [List.mem_singleton] at hx; subst hx; simp)).2
  · exact ((set_removal_deletes ctxx dbx_ok.1 (S "str") none).2.2.2 "sinterstore" .inter (by simp) (S "s") [S "nokey"]
      (by with_unfolding_all rfl) (by with_unfolding_all rfl)).2
  · exact (hash_removal_deletes ctxx dbx_ok.1 (S "h") none [(S "f", S "v")] (S "f") [S "g"] (by with_unfolding_all rfl)
      (by simp) (by intro p hp; simp only [List.mem_singleton] at hp; subst hp; simp)).2.2
  · exact ((zset_removal_deletes ctxx dbx_ok.1 (S "z1") none (ZSet.empty.add (S "a") Dbl.one).1
      (by with_unfolding_all rfl) (by with_unfolding_all (intro h; cases h))).1 (S "a") []
      (by
        have e : (ZSet.empty.add (S "a") Dbl.one).1.bylex = [(S "a", Dbl.one)] := by with_unfolding_all rfl
        intro p hp
        rw [e] at hp
        simp only [List.mem_singleton] at hp
        subst hp
        simp)).2

/-- the hypothesis `t ≤ t'` of `LazyOnly.later` cannot be dropped: a purge made at clock 100 is visible to a request
that takes an EARLIER clock reading (the key with deadline 50 is live at 10 in the stored dictionary, but no longer
after a `KEYS` at 100).  Clock readings that go backwards are outside the property (and outside `time.time()`). -/
example :
    let D : Dict := [(S "k", ⟨.str (S "v"), some 50⟩)]
    LazyOnly 100 D (purgeAt 100 D) ∧ liveKeys 10 D = [S "k"] ∧ liveKeys 10 (purgeAt 100 D) = [] := by
  intro D
  exact ⟨lazyOnly_purge (by decide +kernel) 100, by decide +kernel, by decide +kernel⟩

/-- through the server: in `sx` (clock 60000) connection 1 sends `LPOP l` — the list had one element — and then asks -/
def s1 : Sys := (processCommand {} 1 [S "LPOP", S "l"] s0).2

example :
    lastOut s1 1 = some [S "a"] ∧
    (dictOf s1 1).map Prod.fst = [S "ka", S "kd", S "kb", S "s", S "h", S "z"] ∧
    lastOut (processCommand {} 1 [S "Exists", S "l"] (s1.withHints [60001] [])).2 1 = some [S ":0"] ∧
    lastOut (processCommand {} 1 [S "TYPE", S "l"] (s1.withHints [60001] [])).2 1 = some [S "+none"] ∧
    lastOut (processCommand {} 1 [S "dbsize"] (s1.withHints [60001] [])).2 1 = some [S ":5"] ∧
    lastOut (processCommand {} 1 [S "KEYS", S "*"] (s1.withHints [60001] [])).2 1 =
      some [S "kd", S "kb", S "s", S "h", S "z"] := by decide +kernel

/-- `last_element_removal_deletes_sys` applies to that request … -/
theorem s1_absent : Absent (dictOf s1 1) (S "l") ∧ s1.DataInv ∧ Normal s1 1 := by
  have hl : lookupSig (S "LPOP") = some (sigOf "lpop") := by decide +kernel
  have h := last_element_removal_deletes_sys {} 1 (S "LPOP") [S "l"] (sigOf "lpop") Cmd.lpop s0 hl rfl
    (by decide +kernel) (by decide +kernel) ((withHints_ok (c := 1) _ _).2.1 sx_ok.1) ((withHints_ok _ _).1 sx_ok.2.1)
    (args := [.key 0]) (cis := [⟨S "l", some (.list [S "a"]), none, false, false⟩])
    (o := { reply := .bulk (S "a"), cis := [⟨S "l", some (.list []), none, true, false⟩] })
    (by with_unfolding_all rfl) (by with_unfolding_all rfl) (k := S "l")
    ⟨[], _, [], rfl, rfl, rfl, by with_unfolding_all rfl, fun _ h => by cases h⟩
  exact ⟨h.1, h.2.1, h.2.2.1⟩

/-- … hence `absent_key_invisible`: EXISTS 0, TYPE none, whatever the clock reading `t` of the later request -/
example (t : Int) :
    (processCommand {} 1 [S "Exists", S "l"] (s1.withHints [t] [])).2.out = (1, .int 0) :: s1.out :=
  (absent_key_invisible {} 1 (S "Exists") (S "TYPE") (S "KEYS") (S "l") (s1.withHints [t] []) look.2.2.1 look.2.2.2.1
    look.1 ((withHints_ok (c := 1) _ _).2.1 s1_absent.2.1) ((withHints_ok _ _).1 s1_absent.2.2) s1_absent.1).1

/-! ### no-op writes, reads -/

/-- the no-op writes of `noop_write_creates_nothing` on `dbx`: the set of stored keys is what it was -/
example :
    (∀ p ∈ [("lpushx", [S "nokey", S "v"]), ("rpushx", [S "nokey", S "v"]), ("srem", [S "nokey", S "m"]),
        ("hdel", [S "nokey", S "f"]), ("zrem", [S "nokey", S "m"]), ("lrem", [S "nokey", S "0", S "a"]),
        ("smove", [S "nokey", S "s", S "m"]), ("smove", [S "s", S "s2", S "zz"]),
        ("sinterstore", [S "nokey", S "s", S "nokey2"]), ("sadd", [S "nokey"]), ("sadd", [S "s"])],
      keysAfter p.1 p.2 = [S "l", S "l2", S "s", S "s2", S "h", S "z", S "str", S "z1"]) := by decide +kernel

/-- `noop_write_creates_nothing` applied to `dbx` -/
example : (runRegular (sigOf "zrem") Cmd.zrem ctxx none [S "nokey", S "m"] dbx).db.live = dbx.live :=
  ((noop_write_creates_nothing ctxx dbx_ok.1 (S "nokey")).2.1 (by with_unfolding_all rfl)).2.2.2.1 (S "m") [] |>.2

/-- the read requests of `read_creates_nothing`: some members of the class -/
example : IsRead (sigOf "get") ∧ IsRead (sigOf "hgetall") ∧ IsRead (sigOf "zrangebyscore") ∧ IsRead (sigOf "ttl") ∧
    IsRead (sigOf "srandmember") ∧ IsRead keysSig ∧ IsRead scanSig ∧ lookupSig (S "get") = some (sigOf "get") := by
  refine ⟨Or.inl ?_, Or.inl ?_, Or.inl ?_, Or.inl ?_, Or.inl ?_, Or.inr (Or.inl rfl), Or.inr (Or.inr (Or.inr (Or.inl rfl))),
    by decide +kernel⟩ <;> decide +kernel

/-- a read of a dead key (`GET ka` at clock 60000) removes the dead entry and nothing else; a read of a missing key
(`LLEN nokey`, `SMEMBERS nokey`, `TYPE nokey`, a bad `GET`) leaves the dictionary untouched -/
example :
    ((processCommand {} 1 [S "get", S "ka"] s0).2.srv.dbs.getD 1 []).map Prod.fst =
      [S "kd", S "kb", S "l", S "s", S "h", S "z"] ∧
    (∀ req ∈ [[S "llen", S "nokey"], [S "smembers", S "nokey"], [S "TYPE", S "nokey"], [S "get"], [S "get", S "l"],
        [S "hgetall", S "nokey"], [S "zrange", S "nokey", S "0", S "-1"], [S "srandmember", S "nokey"]],
      ((processCommand {} 1 req s0).2.srv.dbs.getD 1 []).map Prod.fst =
        [S "ka", S "kd", S "kb", S "l", S "s", S "h", S "z"]) := by decide +kernel

/-- `read_creates_nothing` applied to `sx` -/
example (args : List Bytes) (t : Int) (k : Bytes) :
    Db.live ⟨(processCommand {} 1 (S "get" :: args) (sx.withHints [t] [])).2.srv.dbs.getD 1 [], t⟩ k =
      Db.live ⟨sx.srv.dbs.getD 1 [], t⟩ k :=
  read_creates_nothing_live {} 1 (S "get") args (sx.withHints [t] []) (sigOf "get") (by decide +kernel)
    (Or.inl (by decide +kernel)) ((withHints_ok (c := 1) _ _).2.1 sx_ok.1) ((withHints_ok _ _).1 sx_ok.2.1) 1 k t
    (Int.le_refl _)

/-- the finding `pfadd_without_elements_creates_no_key` on `dbx`; `TYPE` of a HyperLogLog key is `set` -/
example :
    keysAfter "pfadd" [S "nokey"] = [S "l", S "l2", S "s", S "s2", S "h", S "z", S "str", S "z1"] ∧
    toks (FR.HashSet.run "pfadd" ctxx [S "nokey"] dbx).reply = [S ":0"] ∧
    toks (FR.HashSet.run "type" ctxx [S "hll"] (FR.HashSet.run "pfadd" ctxx [S "hll", S "a"] dbx).db).reply =
      [S "+set"] := by decide +kernel

end examples

end FR.Props.C09v
