import FR.Proofs.C13w
import FR.Props.C13s
/-!
# C13 (system level, raw writes) — the databases stay independent under `sendall` of arbitrary bytes

`FR/Props/C13s.lean` states frame and non-interference for one parsed request (`processCommand`) and for histories of
`.request` events.  Here the same statements for what a client really does: `FakeSocket.sendall(data)` with arbitrary
bytes (`sendallGuarded`: outage check, append to the connection's buffer, `drain` = parse and process every complete
request — none, one, or several pipelined ones; an incomplete tail stays in the buffer), and for histories with
`.send` events.

* `sendReqs mode c data s` is the list of requests the write `sendallGuarded mode c data` hands to `processCommand`
  when it is run from `s`, in order (empty during an outage / on a dead connection; it stops when the connection gets
  paused or dies).  The side conditions quantify over this list — "every request the write processes".
* `*_of_parse` : the same with the static condition "every complete request in `buffer ++ data`" (`parseAll`).
* `*_encoded` : the same for `data = encodeRequest r₁ ++ … ++ encodeRequest rₙ ++ tail`, `tail` incomplete, on a
  connection with an empty buffer.
-/
namespace FR.Props.C13w
open FR FR.M FR.DbFrame FR.Props.C13s
set_option linter.unusedVariables false

/-- the name condition of `request_frame` -/
def NameOk (fields : List Bytes) : Prop := cmdName fields ∉ "select" :: crossDb

instance (fields : List Bytes) : Decidable (NameOk fields) := by unfold NameOk; infer_instance

theorem NameOk.reqOkA {fields : List Bytes} (h : NameOk fields) (d : Nat) :
    ReqOkA (fun j => j = d) (fun _ => True) fields := by
  simp only [NameOk, crossDb, List.mem_cons, List.not_mem_nil, or_false, not_or] at h
  obtain ⟨h0, h1, h2, h3, h4, h5, h6⟩ := h
  exact ⟨⟨h1, h2, h3, fun h => absurd h h0, h5, h6⟩, h5, h6, trivial, fun h => absurd h h4⟩

theorem reqOkA_iff (T : Nat → Prop) (fields : List Bytes) : ReqOkA T (QAllowed T) fields ↔ ReqOk T fields :=
  ⟨fun h => ⟨h.1, h.2.1, h.2.2.1⟩, ReqOk.toA⟩

/-! ## 1. Frame: one write -/

/-- **Frame, raw write.**  A write of arbitrary bytes on connection `c` — whatever is pending in its buffer, however
many pipelined requests become complete — leaves every database other than the one selected on `c` identical, if every
request the write processes is none of SELECT, SWAPDB, MOVE, FLUSHALL, EXEC, EVAL, EVALSHA. -/
theorem sendall_frame (mode : Mode) (c : Nat) (data : Bytes) (s : Sys)
    (hok : ∀ f ∈ sendReqs mode c data s, NameOk f) :
    ∀ j, j ≠ (s.conn c).db → (sendallGuarded mode c data s).2.srv.dbs.getD j [] = s.srv.dbs.getD j [] := by
  intro j hj
  have hs : SendOkA (fun j => j = (s.conn c).db) (fun _ => True) mode c data s :=
    (sendOkA_iff mode c data s).2 (fun f hf => (hok f hf).reqOkA _)
  exact (sendallGuarded_sim (T := fun j => j = (s.conn c).db) (c := c) (A := fun _ => True) mode data
    (Sim.refl s (fun _ => rfl) (fun _ _ _ _ => trivial)) hs).off1 j hj

/-- the same for `sendall` (no outage check) -/
theorem sendall_frame' (mode : Mode) (c : Nat) (data : Bytes) (s : Sys)
    (hok : (s.conn c).dead = false →
      ∀ f ∈ drainReqs mode c ((s.conn c).buf.length + data.length + 1) (appendBuf c data s), NameOk f) :
    ∀ j, j ≠ (s.conn c).db → (sendall mode c data s).2.srv.dbs.getD j [] = s.srv.dbs.getD j [] := by
  intro j hj
  exact (sendall_sim (T := fun j => j = (s.conn c).db) (A := fun _ => True) mode data
    (Sim.refl s (fun _ => rfl) (fun _ _ _ _ => trivial))
    (fun hd => (drainOkA_iff mode c _ _).2 (fun f hf => (hok hd f hf).reqOkA _))).off1 j hj

/-- static side condition: every complete request in `buffer ++ data` satisfies the name condition -/
theorem sendall_frame_of_parse (mode : Mode) (c : Nat) (data : Bytes) (s : Sys)
    (hok : ∀ n, ∀ f ∈ (parseAll n ((s.conn c).buf ++ data)).1, NameOk f) :
    ∀ j, j ≠ (s.conn c).db → (sendallGuarded mode c data s).2.srv.dbs.getD j [] = s.srv.dbs.getD j [] := by
  intro j hj
  have hs : SendOkA (fun j => j = (s.conn c).db) (fun _ => True) mode c data s :=
    sendOkA_of_parse mode c data s (fun n f hf => (hok n f hf).reqOkA _)
  exact (sendallGuarded_sim (T := fun j => j = (s.conn c).db) (c := c) (A := fun _ => True) mode data
    (Sim.refl s (fun _ => rfl) (fun _ _ _ _ => trivial)) hs).off1 j hj

/-- `n` pipelined requests in one write, followed by arbitrary incomplete bytes, on a connection with an empty buffer -/
theorem sendall_frame_encoded (mode : Mode) (c : Nat) (reqs : List (List Bytes)) (tail : Bytes) (s : Sys)
    (hbuf : (s.conn c).buf = []) (htail : tryParse tail = none) (hok : ∀ r ∈ reqs, NameOk r) :
    ∀ j, j ≠ (s.conn c).db →
      (sendallGuarded mode c (encodeStream reqs ++ tail) s).2.srv.dbs.getD j [] = s.srv.dbs.getD j [] := by
  refine sendall_frame_of_parse mode c _ s (fun n f hf => hok f ?_)
  rw [hbuf, List.nil_append] at hf
  exact parseAll_encodeStream_sub reqs tail htail n f hf

/-! ## 2. Non-interference: one write -/

/-- **Non-interference, raw write.**  Two states that agree except for the content of the databases outside `T`, the
same write on a connection selected on `T` whose queue is covered, every request the write processes (in the first run)
covered by `ReqOk T`: the same replies, agreeing final states (buffers included), the databases outside `T` untouched
in both runs; the side conditions hold again afterwards. -/
theorem send_noninterference (T : Nat → Prop) (mode : Mode) (c : Nat) (data : Bytes) {s1 s2 : Sys} (h : Agree T s1 s2)
    (hsel : T (s1.conn c).db) (hq : ∀ q, (s1.conn c).tx = some q → ∀ e ∈ q, QAllowed T e)
    (hok : ∀ f ∈ sendReqs mode c data s1, ReqOk T f) :
    (sendallGuarded mode c data s2).2.out = (sendallGuarded mode c data s1).2.out ∧
    Agree T (sendallGuarded mode c data s1).2 (sendallGuarded mode c data s2).2 ∧
    (∀ j, ¬ T j → (sendallGuarded mode c data s1).2.srv.dbs.getD j [] = s1.srv.dbs.getD j []) ∧
    (∀ j, ¬ T j → (sendallGuarded mode c data s2).2.srv.dbs.getD j [] = s2.srv.dbs.getD j []) ∧
    T ((sendallGuarded mode c data s1).2.conn c).db ∧
    (∀ q, ((sendallGuarded mode c data s1).2.conn c).tx = some q → ∀ e ∈ q, QAllowed T e) := by
  have hs : SendOkA T (QAllowed T) mode c data s1 := (sendOkA_iff mode c data s1).2 (fun f hf => (hok f hf).toA)
  have hr := sendallGuarded_sim mode data (h.toSim c true (QAllowed T) (fun _ => hsel) hq) hs
  exact ⟨hr.agree.out, hr.agree, hr.off1, hr.off2, hr.sel rfl, hr.qok⟩

/-- the two runs process the same requests -/
theorem send_noninterference_of_parse (T : Nat → Prop) (mode : Mode) (c : Nat) (data : Bytes) {s1 s2 : Sys}
    (h : Agree T s1 s2) (hsel : T (s1.conn c).db) (hq : ∀ q, (s1.conn c).tx = some q → ∀ e ∈ q, QAllowed T e)
    (hok : ∀ n, ∀ f ∈ (parseAll n ((s1.conn c).buf ++ data)).1, ReqOk T f) :
    (sendallGuarded mode c data s2).2.out = (sendallGuarded mode c data s1).2.out ∧
    Agree T (sendallGuarded mode c data s1).2 (sendallGuarded mode c data s2).2 ∧
    (∀ j, ¬ T j → (sendallGuarded mode c data s1).2.srv.dbs.getD j [] = s1.srv.dbs.getD j []) ∧
    (∀ j, ¬ T j → (sendallGuarded mode c data s2).2.srv.dbs.getD j [] = s2.srv.dbs.getD j []) := by
  have hs : SendOkA T (QAllowed T) mode c data s1 := sendOkA_of_parse mode c data s1 (fun n f hf => (hok n f hf).toA)
  have hr := sendallGuarded_sim mode data (h.toSim c true (QAllowed T) (fun _ => hsel) hq) hs
  exact ⟨hr.agree.out, hr.agree, hr.off1, hr.off2⟩

theorem send_noninterference_encoded (T : Nat → Prop) (mode : Mode) (c : Nat) (reqs : List (List Bytes)) (tail : Bytes)
    {s1 s2 : Sys} (h : Agree T s1 s2) (hsel : T (s1.conn c).db)
    (hq : ∀ q, (s1.conn c).tx = some q → ∀ e ∈ q, QAllowed T e)
    (hbuf : (s1.conn c).buf = []) (htail : tryParse tail = none) (hok : ∀ r ∈ reqs, ReqOk T r) :
    (sendallGuarded mode c (encodeStream reqs ++ tail) s2).2.out =
      (sendallGuarded mode c (encodeStream reqs ++ tail) s1).2.out ∧
    Agree T (sendallGuarded mode c (encodeStream reqs ++ tail) s1).2
      (sendallGuarded mode c (encodeStream reqs ++ tail) s2).2 := by
  have := send_noninterference_of_parse T mode c (encodeStream reqs ++ tail) h hsel hq (fun n f hf => hok f (by
    rw [hbuf, List.nil_append] at hf
    exact parseAll_encodeStream_sub reqs tail htail n f hf))
  exact ⟨this.1, this.2.1⟩

/-! ## 3. Histories with raw writes -/

/-- what `OkHistW` asks of a `.send` event -/
theorem okEvW_send (T : Nat → Prop) (s : Sys) (mode : Mode) (c : Nat) (data : Bytes) (clocks : List Int)
    (picks : List (List Bytes)) :
    OkEvW T s (.send mode c data clocks picks) ↔
      (T (s.conn c).db ∧ (∀ q, (s.conn c).tx = some q → ∀ e ∈ q, QAllowed T e) ∧
        ∀ f ∈ sendReqs mode c data (s.beginEvent.withHints clocks picks), ReqOk T f) := by
  show (_ ∧ _ ∧ SendOkA _ _ _ _ _ _) ↔ _
  rw [sendOkA_iff]
  simp only [reqOkA_iff]

/-- … and of every other event: what `OkHist` asks -/
theorem okEvW_request (T : Nat → Prop) (s : Sys) (mode : Mode) (c : Nat) (fields : List Bytes) (clocks : List Int)
    (picks : List (List Bytes)) :
    OkEvW T s (.request mode c fields clocks picks) ↔ OkEv T s (.request mode c fields clocks picks) := Iff.rfl

/-- single-database case, no open transaction: a check on the names of the processed requests -/
theorem okEvW_send_of_names (i : Nat) (s : Sys) (mode : Mode) (c : Nat) (data : Bytes) (clocks : List Int)
    (picks : List (List Bytes)) (hdb : (s.conn c).db = i) (htx : (s.conn c).tx = none)
    (hn : ∀ f ∈ sendReqs mode c data (s.beginEvent.withHints clocks picks), NameOk f) :
    OkEvW (fun j => j = i) s (.send mode c data clocks picks) :=
  (okEvW_send _ s mode c data clocks picks).2 ⟨hdb, tx_none_ok htx, fun f hf => reqOk_of_name i f (hn f hf)⟩

/-- **Non-interference, histories with raw writes.**  As `history_noninterference`, with `.send` events (arbitrary
bytes, pipelining, requests split over several writes) admitted. -/
theorem history_noninterference_send (T : Nat → Prop) (evs : List Ev) {s1 s2 : Sys} (h : Agree T s1 s2)
    (hok : OkHistW T s1 evs) :
    outs s2 evs = outs s1 evs ∧ Agree T (evs.foldl stepEv s1) (evs.foldl stepEv s2) ∧
    (∀ j, ¬ T j → (evs.foldl stepEv s1).srv.dbs.getD j [] = s1.srv.dbs.getD j []) ∧
    (∀ j, ¬ T j → (evs.foldl stepEv s2).srv.dbs.getD j [] = s2.srv.dbs.getD j []) := by
  have := history_agreeW evs h hok
  exact ⟨this.1, this.2.agree, this.2.off1, this.2.off2⟩

theorem history_independent_of_other_dbs_send (i : Nat) (evs : List Ev) (s : Sys) (dbs2 : List Dict)
    (hlen : dbs2.length = s.srv.dbs.length) (hi : dbs2.getD i [] = s.srv.dbs.getD i [])
    (hok : OkHistW (fun j => j = i) s evs) :
    outs (withDbs s dbs2) evs = outs s evs ∧
    (∀ j, j ≠ i → (evs.foldl stepEv s).srv.dbs.getD j [] = s.srv.dbs.getD j []) ∧
    (∀ j, j ≠ i → (evs.foldl stepEv (withDbs s dbs2)).srv.dbs.getD j [] = dbs2.getD j []) ∧
    (evs.foldl stepEv (withDbs s dbs2)).srv.dbs.getD i [] = (evs.foldl stepEv s).srv.dbs.getD i [] := by
  have hag : Agree (fun j => j = i) s (withDbs s dbs2) := ⟨rfl, hlen, fun j hj => by subst hj; exact hi⟩
  have := history_noninterference_send _ evs hag hok
  exact ⟨this.1, this.2.2.1, this.2.2.2, this.2.1.on i rfl⟩

/-- the history theorems of `FR/Props/C13s.lean` are the special case without `.send` -/
theorem okHistW_of_okHist {T : Nat → Prop} {s : Sys} {evs : List Ev} (h : OkHist T s evs) : OkHistW T s evs := h.toW

/-! ## Non-vacuity (state `w0` of `FR/Props/C13s.lean`: database 1 holds `k`, connection 7 selected on database 0) -/

def rSet : List Bytes := [strBytes "SET", strBytes "k", strBytes "v"]
def rGet : List Bytes := [strBytes "GET", strBytes "k"]
def rDbsize : List Bytes := [strBytes "DBSIZE"]

/-- an incomplete request -/
def tailPI : Bytes := strBytes "*1\r\n$4\r\nPI"

/-- one write: `SET k v`, `GET k` pipelined, then the beginning of a `PING` -/
def pipe0 : Bytes := encodeStream [rSet, rGet] ++ tailPI

/-- the write processes the two complete requests, answers both, changes database 0, keeps the tail buffered, and the
model followed the run without complaint -/
example : sendReqs {} 7 pipe0 w0 = [rSet, rGet] ∧ (sendallGuarded {} 7 pipe0 w0).2.out.length = 2 ∧
    keysOf (sendallGuarded {} 7 pipe0 w0).2 0 = [strBytes "k"] ∧
    ((sendallGuarded {} 7 pipe0 w0).2.conn 7).buf = tailPI ∧ (sendallGuarded {} 7 pipe0 w0).2.fault = none := by
  decide +kernel

/-- `sendall_frame` applies to it (side condition through the processed requests) -/
example : (sendallGuarded {} 7 pipe0 w0).2.srv.dbs.getD 1 [] = w0.srv.dbs.getD 1 [] :=
  sendall_frame {} 7 pipe0 w0 (by decide +kernel) 1 (by decide +kernel)

/-- … and `sendall_frame_encoded` (side condition on the encoded requests) -/
example : (sendallGuarded {} 7 pipe0 w0).2.srv.dbs.getD 1 [] = w0.srv.dbs.getD 1 [] :=
  sendall_frame_encoded {} 7 [rSet, rGet] tailPI w0 (by decide +kernel) (by decide +kernel) (by decide +kernel) 1
    (by decide +kernel)

/-- the name condition cannot be dropped: a FLUSHALL pipelined behind a GET empties database 1 -/
theorem pipelined_flushall_touches_other_db :
    sendReqs {} 7 (encodeStream [rGet, [strBytes "FLUSHALL"]]) w0 = [rGet, [strBytes "FLUSHALL"]] ∧
    keysOf w0 1 = [strBytes "k"] ∧
    keysOf (sendallGuarded {} 7 (encodeStream [rGet, [strBytes "FLUSHALL"]]) w0).2 1 = [] ∧
    (sendallGuarded {} 7 (encodeStream [rGet, [strBytes "FLUSHALL"]]) w0).2.fault = none := by decide +kernel

/-- `send_noninterference`: the replies of the write do not depend on database 1 holding `k` or not -/
example : (sendallGuarded {} 7 pipe0 (withDbs w0 (List.replicate 16 []))).2.out = (sendallGuarded {} 7 pipe0 w0).2.out :=
  (send_noninterference (fun j => j = 0) {} 7 pipe0 (s1 := w0) (s2 := withDbs w0 (List.replicate 16 []))
    ⟨rfl, by decide +kernel, fun j hj => by subst hj; rfl⟩ (by decide +kernel) (tx_none_ok (by decide +kernel))
    (fun f hf => reqOk_of_name 0 f ((by decide +kernel : ∀ f ∈ sendReqs {} 7 pipe0 w0, NameOk f) f hf))).1

/-- a history of raw writes on connection 7: the pipelined write above; then `PING` is completed and a `DBSIZE` begun;
then the `DBSIZE` is completed (a request split over two writes) -/
def histW : List Ev :=
  [.send {} 7 pipe0 [0, 0] [],
   .send {} 7 (strBytes "NG\r\n" ++ (encodeRequest rDbsize).take 5) [0] [],
   .send {} 7 ((encodeRequest rDbsize).drop 5) [0] []]

theorem histW_ok : OkHistW (fun j => j = 0) w0 histW :=
  ⟨okEvW_send_of_names 0 _ _ _ _ _ _ (by decide +kernel) (by decide +kernel) (by decide +kernel),
   okEvW_send_of_names 0 _ _ _ _ _ _ (by decide +kernel) (by decide +kernel) (by decide +kernel),
   okEvW_send_of_names 0 _ _ _ _ _ _ (by decide +kernel) (by decide +kernel) (by decide +kernel), trivial⟩

/-- the three writes answer 2, 1 and 1 requests -/
example : (outs w0 histW).map List.length = [2, 1, 1] := by decide +kernel

/-- the replies of `histW` do not depend on database 1 holding `k` or not -/
example : outs (withDbs w0 (List.replicate 16 [])) histW = outs w0 histW :=
  (history_independent_of_other_dbs_send 0 histW w0 (List.replicate 16 []) (by decide +kernel) rfl histW_ok).1

end FR.Props.C13w
