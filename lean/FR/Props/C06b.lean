import FR.Props.C06
import FR.Props.C08
import FR.Props.C09
import FR.Proofs.Discipline
/-!
# C06/C08/C09 for the real command table, unconditionally

`FR.Proofs.Discipline` proves that every body of `Cmd.regular` satisfies `Body.ExpModSound`
(`regular_expModSound`) and never returns an error reply through `.ok` (`regular_reply_not_err`).
This discharges the per-body hypotheses of `step_notifies_partial` (C06) and `reads_create_nothing`
(C09), and identifies "the reply is an error" with the `failed` flag of C08.
-/
namespace FR.Props.C06
open FR

/-- C06 for every command of the table: any change of the live entry of a key is accompanied by a
watch notification for that key. -/
theorem step_notifies_regular (name : String) (body : Body) (h : Cmd.regular name = some body)
    (sig : Sig) (ctx : Ctx) (gate : Option Err) (raw : List Bytes) (db : Db) (nd : NodupKeys db.dict)
    (k : Bytes) :
    let o := runRegular sig body ctx gate raw db
    (Db.purge o.db).dict.lookup k ≠ (Db.purge db).dict.lookup k → k ∈ o.notified :=
  step_notifies_partial sig body (regular_expModSound name body h) ctx gate raw db nd k

/-- C09 for every command of the table: a key that is live after the command but was not live before
is in `notified`. -/
theorem reads_create_nothing_regular (name : String) (body : Body) (h : Cmd.regular name = some body)
    (sig : Sig) (ctx : Ctx) (gate : Option Err) (raw : List Bytes) (db : Db) (nd : NodupKeys db.dict)
    (k : Bytes) :
    let o := runRegular sig body ctx gate raw db
    (Db.purge db).dict.lookup k = none → (Db.purge o.db).dict.lookup k ≠ none → k ∈ o.notified :=
  FR.Props.C09.reads_create_nothing sig body (regular_expModSound name body h) ctx gate raw db nd k

/-- For every command of the table the reply is an error reply exactly when the run ended on an error
path.  (A `missing_return` short-circuit replies `nil` or an integer, and a body never returns an error
reply through `.ok`.) -/
theorem error_reply_iff_failed_regular (name : String) (body : Body) (h : Cmd.regular name = some body)
    (sig : Sig) (ctx : Ctx) (gate : Option Err) (raw : List Bytes) (db : Db) :
    (runRegular sig body ctx gate raw db).reply.isErr = true ↔
      (runRegular sig body ctx gate raw db).failed = true :=
  runRegular_isErr_iff_failed sig body (regular_reply_not_err name body h) ctx gate raw db

/-- non-vacuity: the real APPEND, through the table -/
example :
    let sig : Sig := ⟨"append", [.key (some .str) .unspecified, .bytes], [], false, 2, 0, false⟩
    let db : Db := ⟨[([97], ⟨.str [1], none⟩)], 10⟩
    [97] ∈ (runRegular sig FR.Cmd.append ⟨7, 10, 0, false, []⟩ none [[97], [120]] db).notified := by
  intro sig db
  apply step_notifies_regular "append" FR.Cmd.append rfl sig ⟨7, 10, 0, false, []⟩ none [[97], [120]] db
    (by decide) [97]
  intro h
  have := congrArg (fun o => o.map (fun it => match it.value with | .str b => b | _ => [])) h
  revert this
  decide

end FR.Props.C06

namespace FR.Props.C08
open FR

/-- For every command of the table: if the reply is an error reply, the live content of the database
is unchanged and no watch notification is sent. -/
theorem error_reply_changes_nothing_regular (name : String) (body : Body)
    (h : Cmd.regular name = some body) (sig : Sig) (ctx : Ctx) (gate : Option Err) (raw : List Bytes)
    (db : Db) (nd : NodupKeys db.dict) :
    let o := runRegular sig body ctx gate raw db
    o.reply.isErr = true → Db.purge o.db = Db.purge db ∧ o.notified = [] := by
  intro o he
  exact error_changes_nothing sig body ctx gate raw db nd
    ((FR.Props.C06.error_reply_iff_failed_regular name body h sig ctx gate raw db).1 he)

/-- non-vacuity: APPEND to a list key replies WRONGTYPE -/
example :
    let sig : Sig := ⟨"append", [.key (some .str) .unspecified, .bytes], [], false, 2, 0, false⟩
    let db : Db := ⟨[([97], ⟨.str [1], some 5⟩), ([98], ⟨.list [[2]], none⟩)], 10⟩
    let o := runRegular sig FR.Cmd.append ⟨7, 10, 0, false, []⟩ none [[98], [120]] db
    o.reply.isErr = true ∧ Db.purge o.db = Db.purge db ∧ o.notified = [] := by
  intro sig db o
  have he : o.reply.isErr = true := by decide
  exact ⟨he, error_reply_changes_nothing_regular "append" _ rfl sig _ _ _ db (by decide) he⟩

end FR.Props.C08

