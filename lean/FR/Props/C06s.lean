import FR.Proofs.WatchSys
import FR.Props.C05
/-!
# C06 at system level — WATCH over all events and all histories

`FR/Props/C06.lean`, `C06b.lean` prove "a change of the live entry of `k` notifies `k`" for the generic runner on one
database.  Here the statement is lifted to the system model (`Sys`, `Ev`, `stepEv`): every event, including the special
commands (MOVE, SWAPDB, FLUSHDB / FLUSHALL, SORT … STORE, ZUNIONSTORE / ZINTERSTORE, the blocking pops and their
wake-ups, EXEC's inner commands, the script commands) and the watch bookkeeping.

Vocabulary (all from `FR/Proofs/WatchSys.lean`):

* `liveAt s d k` — the live entry of `k` in database `d` of `s` (value, deadline; an expired entry counts as absent);
  `rawAt s d k` — the entry as stored (lazy deletion not applied); `liveOf t a` — `a` seen through lazy expiry at
  clock reading `t`.
* `Base c d k s` — `s.DataInv`, 16 databases (both hold in every reachable state, `reachable_base`), `c` is not on
  the list of closed sockets, `c` watches `(d, k)`.
* `Quiet c s e` — event `e` run from `s` does not clear the watches of `c`: it is not `close c` / `gc c`, and no
  request it makes `c` itself process is EXEC, DISCARD or UNWATCH (`Clearing`; for a `send` / asyncio wake-up the
  requests are the ones the parser loop actually processes, `sendCmds` / `awakeCmds` / `atimeoutCmds`).  Every event of
  another connection is quiet for `c`.  The classification is conservative: an EXEC / DISCARD answered with
  "without MULTI" counts as clearing although it clears nothing.
* `NoCross R T` — no two clock readings in `T` lie on different sides of the deadline of the entry `R`: the precise
  form of the property's "the clock not crossing an expiry deadline between WATCH and EXEC".  `Times s evs` are the
  readings that can be in force during `evs`: the clock of `s`, its unread readings, the readings the events bring.
-/
namespace FR.Props.C06s
open FR FR.WatchSys

/-! ## 0. the side invariants hold in every reachable state -/

/-- `DataInv` and "16 databases" hold after every history from the initial state. -/
theorem reachable_base (evs : List Ev) : (runHistory evs).DataInv ∧ (runHistory evs).srv.dbs.length = 16 :=
  ⟨foldl_stepEv_preserves evs {} Sys.dataInv_init, runHistory_len evs⟩

/-! ## 1. one step, soundness -/

/-- ONE EVENT.  `c` watches `(d,k)`, the event does not clear the watches of `c`, and no clock reading available to
the event crosses the deadline of the entry stored under `k`.  Then `c` still watches `(d,k)`, and if the live entry of
`k` in database `d` (value, existence or deadline) differs between `s` and `stepEv s e`, `c.watchNotified` is set. -/
theorem step_sound (s : Sys) (e : Ev) (c d : Nat) (k : Bytes) (b : Base c d k s) (hq : Quiet c s e)
    (nc : NoCross (rawAt s d k) (Times s [e])) :
    Base c d k (stepEv s e) ∧
    (liveAt (stepEv s e) d k ≠ liveAt s d k → ((stepEv s e).conn c).watchNotified = true) :=
  history_sound s [e] b ⟨hq, trivial⟩ nc

/-- ONE REQUEST, sharp form: compare the dictionary of `s` and the dictionary of the new state both at the NEW state's
time.  For a request that brings one clock reading nothing at all is excluded. -/
theorem request_sound (s : Sys) (mode : Mode) (c c' d : Nat) (k nameB : Bytes) (args : List Bytes) (t : Int)
    (picks : List (List Bytes)) (sig : Sig) (hl : lookupSig nameB = some sig)
    (b : Base c d k s) (hq : c' ≠ c ∨ ¬ Clearing (nameB :: args)) :
    let s' := stepEv s (.request mode c' (nameB :: args) [t] picks)
    Base c d k s' ∧ (liveAt s' d k ≠ liveOf s'.srv.time (rawAt s d k) → (s'.conn c).watchNotified = true) :=
  request_sound_single s mode c' nameB args t picks sig hl b hq

/-- the same with further readings `rest` for the command's own use (TIME, SAVE, blocking pops) -/
theorem request_sound' (s : Sys) (mode : Mode) (c c' d : Nat) (k nameB : Bytes) (args : List Bytes) (t : Int)
    (rest : List Int) (picks : List (List Bytes)) (sig : Sig) (hl : lookupSig nameB = some sig)
    (b : Base c d k s) (hq : c' ≠ c ∨ ¬ Clearing (nameB :: args))
    (nc : NoCross (rawAt s d k) (· ∈ t :: rest)) :
    let s' := stepEv s (.request mode c' (nameB :: args) (t :: rest) picks)
    Base c d k s' ∧ (liveAt s' d k ≠ liveOf s'.srv.time (rawAt s d k) → (s'.conn c).watchNotified = true) :=
  request_sound_sharp s mode c' nameB args t rest picks sig hl b hq nc

/-! ### the exclusions are needed -/

/-- key `k` with deadline 5, clock 0; connection 1 watches it; connection 2 sends PING with clock reading 10 -/
def sCross : Sys :=
  { srv := { dbs := [([107], ⟨.str [1], some 5⟩)] :: List.replicate 15 [],
             conns := [{ id := 1, watches := [(0, [107])] }, { id := 2 }] } }
def ePing (t : Int) : Ev := .request {} 2 [[112, 105, 110, 103]] [t] []

theorem base_sCross : Base 1 0 [107] sCross :=
  ⟨by unfold Sys.DataInv NoEmpty; decide, by decide, by decide, by decide⟩

/-- WITHOUT `NoCross` the one-step statement is FALSE: the clock advances past the deadline, the live entry
disappears, nobody is notified.  (This is exactly what the property's quantifier excludes.) -/
theorem step_sound_needs_noCross :
    ¬ ∀ (s : Sys) (e : Ev) (c d : Nat) (k : Bytes), Base c d k s → Quiet c s e →
        liveAt (stepEv s e) d k ≠ liveAt s d k → ((stepEv s e).conn c).watchNotified = true := by
  intro h
  have := h sCross (ePing 10) 1 0 [107] base_sCross (.inl (by decide)) (by
    intro e
    have := congrArg Option.isSome e
    revert this
    decide +kernel)
  revert this
  decide +kernel

/-- an expired, not yet deleted entry; the clock is set BACK before its deadline: the entry is live again -/
def sBack : Sys :=
  { srv := { time := 10, dbs := [([107], ⟨.str [1], some 5⟩)] :: List.replicate 15 [],
             conns := [{ id := 1, watches := [(0, [107])] }, { id := 2 }] } }

/-- `NoCross` is needed in the other direction too (a clock that goes backwards resurrects a dead entry). -/
theorem step_sound_needs_noCross_backward :
    Base 1 0 [107] sBack ∧ Quiet 1 sBack (ePing 3) ∧
    (liveAt sBack 0 [107]).isSome = false ∧ (liveAt (stepEv sBack (ePing 3)) 0 [107]).isSome = true ∧
    ((stepEv sBack (ePing 3)).conn 1).watchNotified = false :=
  ⟨⟨by unfold Sys.DataInv NoEmpty; decide, by decide, by decide, by decide⟩, .inl (by decide),
    by decide +kernel, by decide +kernel, by decide +kernel⟩

/-- connection 1 watches `k` and then pipelines `UNWATCH`, `SET k v`, `WATCH k` in ONE `sendall` -/
def sPipe : Sys :=
  { srv := { dbs := [([107], ⟨.str [1], none⟩)] :: List.replicate 15 [],
             conns := [{ id := 1, watches := [(0, [107])] }] } }
def ePipe : Ev :=
  .send {} 1 (encodeRequest [[117, 110, 119, 97, 116, 99, 104]] ++ encodeRequest [[115, 101, 116], [107], [118]] ++
    encodeRequest [[119, 97, 116, 99, 104], [107]]) [1, 2, 3] []

/-- The literal state-based one-step formulation ("`(d,k)` is watched in `s` and in `stepEv s e`") is FALSE for a
pipelined `send`: the batch clears the watch, changes the key and watches it again.  No deadline is involved.  Hence
`Quiet` is phrased over the requests the event processes. -/
theorem statewise_step_false :
    Base 1 0 [107] sPipe ∧ (0, [107]) ∈ ((stepEv sPipe ePipe).conn 1).watches ∧
    liveAt (stepEv sPipe ePipe) 0 [107] ≠ liveAt sPipe 0 [107] ∧
    ((stepEv sPipe ePipe).conn 1).watchNotified = false ∧ (stepEv sPipe ePipe).fault = none := by
  refine ⟨⟨by unfold Sys.DataInv NoEmpty; decide, by decide, by decide, by decide⟩, by decide +kernel, ?_,
    by decide +kernel, by decide +kernel⟩
  intro e
  have := congrArg (fun o => o.map (fun it => match it.value with | .str b => b | _ => [])) e
  revert this
  decide +kernel

/-- connection 1 is on the list of closed sockets, has a dirty watch on `k`, and sends `WATCH k`: the clean-up at the
start of the command clears its watches, the command watches `k` afresh.  State-wise `k` is watched before and after,
the request is not EXEC / DISCARD / UNWATCH, yet the flag is lost.  Hence `Base` asks for `c ∉ closedSockets`
(`close c` is a clearing event). -/
def sClosed : Sys :=
  { srv := { closedSockets := [1], dbs := [([107], ⟨.str [1], none⟩)] :: List.replicate 15 [],
             conns := [{ id := 1, watches := [(0, [107])], watchNotified := true }] } }
def eWatch : Ev := .request {} 1 [[119, 97, 116, 99, 104], [107]] [1] []

theorem sticky_needs_not_closed :
    (0, [107]) ∈ (sClosed.conn 1).watches ∧ (sClosed.conn 1).watchNotified = true ∧
    (0, [107]) ∈ ((stepEv sClosed eWatch).conn 1).watches ∧
    ((stepEv sClosed eWatch).conn 1).watchNotified = false :=
  ⟨by decide, by decide, by decide +kernel, by decide +kernel⟩

/-! ### non-vacuity of the one-step theorems -/

/-- connection 1 watches `k` (no deadline); connection 2 runs `SET k v` -/
def sSet : Sys :=
  { srv := { dbs := [([107], ⟨.str [1], none⟩)] :: List.replicate 15 [],
             conns := [{ id := 1, watches := [(0, [107])] }, { id := 2 }] } }
def eSet : Ev := .request {} 2 [[115, 101, 116], [107], [118]] [7] []

example : Base 1 0 [107] sSet ∧ Quiet 1 sSet eSet ∧ NoCross (rawAt sSet 0 [107]) (Times sSet [eSet]) ∧
    liveAt (stepEv sSet eSet) 0 [107] ≠ liveAt sSet 0 [107] := by
  refine ⟨⟨by unfold Sys.DataInv NoEmpty; decide, by decide, by decide, by decide⟩, .inl (by decide), ?_, ?_⟩
  · intro it hit t t' _ _ he
    have : rawAt sSet 0 [107] = some ⟨.str [1], none⟩ := rfl
    rw [this] at hit
    cases hit
    cases he
  · intro e
    have := congrArg (fun o => o.map (fun it => match it.value with | .str b => b | _ => [])) e
    revert this
    decide +kernel

/-- …and indeed the flag is set (computed) -/
example : ((stepEv sSet eSet).conn 1).watchNotified = true := by decide +kernel

example : lookupSig [115, 101, 116] = SigTable.find "set" := by decide +kernel

/-! ## 2. the flag is sticky -/

/-- `watchNotified` of `c` stays set under every event that does not clear the watches of `c`. -/
theorem step_sticky (s : Sys) (e : Ev) (c d : Nat) (k : Bytes) (b : Base c d k s) (hq : Quiet c s e)
    (hn : (s.conn c).watchNotified = true) :
    Base c d k (stepEv s e) ∧ ((stepEv s e).conn c).watchNotified = true :=
  history_sticky s [e] b ⟨hq, trivial⟩ hn

/-- …over a whole history -/
theorem sticky (s : Sys) (evs : List Ev) (c d : Nat) (k : Bytes) (b : Base c d k s) (hq : QuietRun c s evs)
    (hn : (s.conn c).watchNotified = true) :
    Base c d k (evs.foldl stepEv s) ∧ ((evs.foldl stepEv s).conn c).watchNotified = true :=
  history_sticky s evs b hq hn

example : Base 1 0 [107] (stepEv sSet eSet) ∧ Quiet 1 (stepEv sSet eSet) (ePing 9) :=
  ⟨(history_keeps_watch sSet [eSet] ⟨by unfold Sys.DataInv NoEmpty; decide, by decide, by decide, by decide⟩
      ⟨.inl (by decide), trivial⟩), .inl (by decide)⟩

/-! ## 3. which events clear the watches of `c`, which add -/

/-- ONLY the clearing events clear: a history all of whose events are quiet for `c` keeps every watch of `c`
(and `c` off the list of closed sockets).  No hypothesis on the clock. -/
theorem quiet_keeps_watch (s : Sys) (evs : List Ev) (c d : Nat) (k : Bytes) (b : Base c d k s)
    (hq : QuietRun c s evs) : Base c d k (evs.foldl stepEv s) :=
  history_keeps_watch s evs b hq

/-- UNWATCH clears the watches and the flag -/
theorem unwatch_clears (inner : Inner) (mode : Mode) (c : Nat) (args : List Arg) (cis : List CI) (s : Sys) :
    ((special inner mode c "unwatch" args cis s).2.conn c).watches = [] ∧
    ((special inner mode c "unwatch" args cis s).2.conn c).watchNotified = false :=
  FR.WatchSys.unwatch_clears inner mode c args cis s

/-- EXEC (inside MULTI, any branch) and DISCARD (inside MULTI) clear: `FR.C05.after_exec_normal_mode`,
`FR.C05.after_discard_normal_mode`.  Restated for DISCARD: -/
theorem discard_clears (s : Sys) (c : Nat) (cis : List CI) (h : (s.conn c).tx.isSome) :
    ((discardCmd c cis s).2.conn c).watches = [] ∧ ((discardCmd c cis s).2.conn c).watchNotified = false :=
  ⟨(FR.C05.after_discard_normal_mode s c cis h).2.1, (FR.C05.after_discard_normal_mode s c cis h).2.2⟩

/-- garbage collection of the connection object drops its watches -/
theorem gc_clears (s : Sys) (c : Nat) :
    ((stepEv s (.gc c)).conn c).watches = [] ∧ ((stepEv s (.gc c)).conn c).watchNotified = false :=
  FR.WatchSys.gc_clears s c

/-- after `close c`, the clean-up at the start of the next executed command (of any connection) clears them -/
theorem close_then_cleanup_clears (s : Sys) (c : Nat) (hc : c ∈ s.srv.closedSockets) :
    ((cleanupClosed s).2.conn c).watches = [] ∧ ((cleanupClosed s).2.conn c).watchNotified = false :=
  cleanup_clears s c hc

/-- WATCH (outside MULTI) adds `(d', key)` for each of its keys, `d'` the selected database -/
theorem watch_adds (c d' : Nat) (args : List Arg) (cis : List CI) (s : Sys) (hh : s.HasConn c)
    (htx : (s.conn c).tx = none) (i : Nat) (hi : i ∈ Cmd.keyIdxs args) :
    (d', (ciAt cis i).key) ∈ ((watchCmd c d' args cis s).2.conn c).watches :=
  FR.WatchSys.watch_adds c d' args cis s hh htx i hi

example : (0, [107]) ∈ ((stepEv sClosed eWatch).conn 1).watches := by decide +kernel

/-! ## 4. history form -/

/-- SOUNDNESS OVER A HISTORY.  From a state in which `c` watches `(d,k)`, through any events none of which clears the
watches of `c`, no clock reading crossing the deadline of the entry stored under `k` at the start: if at the end the
live entry of `k` differs from the one at the start, `c.watchNotified` is set. -/
theorem history_sound (s : Sys) (evs : List Ev) (c d : Nat) (k : Bytes) (b : Base c d k s)
    (hq : QuietRun c s evs) (nc : NoCross (rawAt s d k) (Times s evs)) :
    Base c d k (evs.foldl stepEv s) ∧
    (liveAt (evs.foldl stepEv s) d k ≠ liveAt s d k → ((evs.foldl stepEv s).conn c).watchNotified = true) :=
  FR.WatchSys.history_sound s evs b hq nc

/-- "EVEN IF IT WAS LATER CHANGED BACK".  If after the prefix `pre` the live entry of `k` differs from the one in `s`
(the readings of `pre` not crossing the deadline of the entry stored in `s`), then after `pre ++ post` the flag of `c`
is set — whatever `post` does to the key or to the clock, as long as it does not clear the watches of `c`. -/
theorem history_changed (s : Sys) (pre post : List Ev) (c d : Nat) (k : Bytes) (b : Base c d k s)
    (hq : QuietRun c s (pre ++ post)) (nc : NoCross (rawAt s d k) (Times s pre))
    (hch : liveAt (pre.foldl stepEv s) d k ≠ liveAt s d k) :
    Base c d k ((pre ++ post).foldl stepEv s) ∧ (((pre ++ post).foldl stepEv s).conn c).watchNotified = true :=
  FR.WatchSys.history_changed s pre post b hq nc hch

/-- HENCE EXEC ANSWERS NIL AND APPLIES NOTHING: in the state reached, an EXEC of `c` (MULTI open, no queueing error)
replies nil, leaves every database as it is, and puts `c` back in normal mode (watches consumed). -/
theorem exec_nil_after_change (s : Sys) (pre post : List Ev) (c d : Nat) (k : Bytes) (b : Base c d k s)
    (hq : QuietRun c s (pre ++ post)) (nc : NoCross (rawAt s d k) (Times s pre))
    (hch : liveAt (pre.foldl stepEv s) d k ≠ liveAt s d k)
    (inner : Inner) (cis : List CI) (q : List (String × List Bytes))
    (htx : (((pre ++ post).foldl stepEv s).conn c).tx = some q)
    (hf : (((pre ++ post).foldl stepEv s).conn c).txFailed = false) :
    (execCmd inner c cis ((pre ++ post).foldl stepEv s)).1 = .ok (some .nil, cis) ∧
    ((execCmd inner c cis ((pre ++ post).foldl stepEv s)).2.conn c).normal ∧
    (execCmd inner c cis ((pre ++ post).foldl stepEv s)).2.srv.dbs = ((pre ++ post).foldl stepEv s).srv.dbs :=
  FR.C05.exec_watch_dirty_nil _ inner c cis q htx hf (FR.WatchSys.history_changed s pre post b hq nc hch).2

/-- the same from the initial state: `evs0` is any history after which `c` watches `(d,k)` and is not closed -/
theorem history_changed_reachable (evs0 pre post : List Ev) (c d : Nat) (k : Bytes)
    (hopen : c ∉ (runHistory evs0).srv.closedSockets) (hw : (d, k) ∈ ((runHistory evs0).conn c).watches)
    (hq : QuietRun c (runHistory evs0) (pre ++ post))
    (nc : NoCross (rawAt (runHistory evs0) d k) (Times (runHistory evs0) pre))
    (hch : liveAt (pre.foldl stepEv (runHistory evs0)) d k ≠ liveAt (runHistory evs0) d k) :
    ((runHistory (evs0 ++ (pre ++ post))).conn c).watchNotified = true := by
  have b : Base c d k (runHistory evs0) := ⟨(reachable_base evs0).1, (reachable_base evs0).2, hopen, hw⟩
  have := (FR.WatchSys.history_changed (runHistory evs0) pre post b hq nc hch).2
  unfold runHistory at this ⊢
  rw [List.foldl_append]
  exact this

/-- non-vacuity: 2 sets `k`, then sets it back; 1 is notified at the end although the entry is the old one again -/
def eSetBack : Ev := .request {} 2 [[115, 101, 116], [107], [1]] [8] []

/-- what the examples compare of an entry: its string value and its deadline -/
def view (o : Option Item) : Option (Bytes × Option Int) :=
  o.map fun it => (match it.value with | .str b => b | _ => [], it.expireat)

example : QuietRun 1 sSet ([eSet] ++ [eSetBack]) ∧
    view (liveAt ([eSet].foldl stepEv sSet) 0 [107]) ≠ view (liveAt sSet 0 [107]) ∧
    view (liveAt (([eSet] ++ [eSetBack]).foldl stepEv sSet) 0 [107]) = view (liveAt sSet 0 [107]) ∧
    ((([eSet] ++ [eSetBack]).foldl stepEv sSet).conn 1).watchNotified = true :=
  ⟨⟨.inl (by decide), .inl (by decide), trivial⟩, by decide +kernel, by decide +kernel, by decide +kernel⟩

/-! ## 5. completeness ("EXEC proceeds") for the regular commands -/

/-- A REGULAR command (any of the 105 bodies of `Cmd.regular`) run by connection `c'` leaves every watch list alone and
sets the flag of `c` EXACTLY when one of the keys it notifies is watched by `c` in the database selected by `c'`.
(The notified keys are the keys of the `CommandItem`s the body stored: `(s.regularOut …).notified`.) -/
theorem regular_flag_exact (sp : SpecialFn) (mode : Mode) (c' : Nat) (sig : Sig) (raw : List Bytes) (fs : Bool)
    (body : Body) (hreg : Cmd.regular sig.name = some body) (s : Sys) (c : Nat) :
    ((runWith sp mode c' sig raw fs s).2.conn c).watches = (s.conn c).watches ∧
    ((runWith sp mode c' sig raw fs s).2.conn c).watchNotified =
      ((s.conn c).watchNotified ||
        (s.regularOut c' sig body raw fs).notified.any fun key => (s.conn c).watches.contains ((s.conn c').db, key)) :=
  runWith_regular_flag sp mode c' sig raw fs hreg s c

/-- Event form: a request of `c'` running a regular command that notifies no key watched by `c` in the database
selected by `c'` leaves `c.watches` and `c.watchNotified` unchanged (so a clean `c` stays clean and its EXEC proceeds).
`H` is stated for every state in which `c'` has the same database selected, because the command runs after the
clean-up and the clock refresh of `_process_command`. -/
theorem request_regular_flag (s : Sys) (mode : Mode) (c c' : Nat) (nameB : Bytes) (args : List Bytes)
    (clocks : List Int) (picks : List (List Bytes)) (sig : Sig) (body : Body)
    (hl : lookupSig nameB = some sig) (hreg : Cmd.regular sig.name = some body)
    (hopen : c ∉ s.srv.closedSockets)
    (H : ∀ u : Sys, (u.conn c').db = (s.conn c').db →
      ∀ key ∈ (u.regularOut c' sig body args false).notified, ((s.conn c').db, key) ∉ (s.conn c).watches) :
    ((stepEv s (.request mode c' (nameB :: args) clocks picks)).conn c).watches = (s.conn c).watches ∧
    ((stepEv s (.request mode c' (nameB :: args) clocks picks)).conn c).watchNotified = (s.conn c).watchNotified :=
  FR.WatchSys.request_regular_flag s mode c c' nameB args clocks picks sig body hl hreg hopen H

/-- non-vacuity: 2 sets another key `j`; the flag of 1 (watching `k`) stays clear -/
def eSetOther : Ev := .request {} 2 [[115, 101, 116], [106], [118]] [7] []

example : ((stepEv sSet eSetOther).conn 1).watchNotified = false ∧
    ((stepEv sSet eSetOther).conn 1).watches = [(0, [107])] := ⟨by decide +kernel, by decide +kernel⟩

end FR.Props.C06s
