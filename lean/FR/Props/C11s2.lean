import FR.Proofs.C11s2
import FR.Props.C11r
/-!
# C11s2 — the exact reply count of BRPOPLPUSH run at once

The BRPOPLPUSH analogue of `FR.Props.C11r.reply_count_blocking`.  Differences from BLPOP / BRPOP: the time-out is
converted by the signature (`sigBrpoplpush` has a `.timeout` converter), so an invalid time-out is refused by
`Signature.apply`, before the body and without touching the state; the two keys are the source and the destination;
the pass is `brpoplpushPass d src dst true` (WRONGTYPE when the source or the destination holds another type).

`Outcome` / `expected` are those of C11r (`expected mode tb pass`: time-out error, pass error, served, parks / nil).
-/
namespace FR.Props.C11s2
open FR FR.M FR.C04k FR.C11c FR.C11r FR.C11s2 FR.ErrSys FR.Props.C11r

/-- `_run_command` level: the exact result of BRPOPLPUSH outside a transaction, not in subscriber mode.  The request
`[src, dst, tb]` is the only shape `check_arity` accepts (three fixed arguments, no repetition). -/
theorem runCommand_brpoplpush_exact (mode : Mode) (c : Nat) (src dst tb : Bytes) (s : Sys)
    (hps : (s.conn c).pubsub = 0) (hin : (s.conn c).inTx = false) (hc : s.HasConn c) :
    match expected mode tb (brpoplpushPass (s.conn c).db src dst true s).1 with
    | .reply r => (runCommand mode c sigBrpoplpush [src, dst, tb] false s).1 = some r
    | .parks =>
      (runCommand mode c sigBrpoplpush [src, dst, tb] false s).1 = none ∧
      (∃ p, ((runCommand mode c sigBrpoplpush [src, dst, tb] false s).2.conn c).parked = some p ∧
        p.kind = "brpoplpush" ∧ p.keys = [src, dst] ∧ p.db = (s.conn c).db) ∧
      (mode.async = true → ((runCommand mode c sigBrpoplpush [src, dst, tb] false s).2.conn c).paused = true) := by
  rw [runCommand_brpl mode c src dst tb s hps]
  unfold expected
  cases Conv.timeout tb with
  | error e => rfl
  | ok t =>
    simp only
    rw [afterSpecial_run, brplBody_run mode c src dst t s]
    have h := blkB_cases mode c src dst t (s.conn c).db s hin hc
    revert h
    generalize blkB mode c src dst t (s.conn c).db s = X
    obtain ⟨br, s2⟩ := X
    cases (brpoplpushPass (s.conn c).db src dst true s).1 with
    | error e => intro h; cases h; rfl
    | ok o =>
      cases o with
      | some r => intro h; cases h; rfl
      | none =>
        simp only
        split
        · rintro ⟨h1, ⟨p, hp1, hp2, hp3, hp4, _⟩, h3⟩
          cases h1
          exact ⟨rfl, ⟨p, hp1, hp2, hp3, hp4⟩, h3⟩
        · intro h; cases h; rfl

/-- an invalid time-out is refused by `Signature.apply`: the error reply, and the state is untouched (no key of the
request is looked at, nothing is parked) -/
theorem runCommand_brpoplpush_bad_timeout (mode : Mode) (c : Nat) (src dst tb : Bytes) (s : Sys)
    (hps : (s.conn c).pubsub = 0) (e : Err) (ht : Conv.timeout tb = .error e) :
    runCommand mode c sigBrpoplpush [src, dst, tb] false s = (some (.err (strBytes e)), s) := by
  rw [runCommand_brpl mode c src dst tb s hps, ht]

/-- **C11s2 — `reply_count_brpoplpush`.**  As `FR.Props.C11r.reply_count_blocking`, for BRPOPLPUSH `src dst tb`
(with `P = s.prologue`):

* `expected … = .parks` (valid time-out, the source holds no live list, `mode.park` or `mode.async`): **no reply**, the
  connection is **parked** on `[src, dst]` and its database with kind "brpoplpush", and on the asyncio front-end
  **paused**;
* `expected … = .reply r`: **exactly one reply, `r`** — the time-out error, WRONGTYPE (source or destination), the
  moved element, or nil when the mode does not park. -/
theorem reply_count_brpoplpush (mode : Mode) (c : Nat) (nameB src dst tb : Bytes) (s : Sys)
    (hwf : TxWf s) (hcl : (s.conn c).closed = false) (hl : lookupSig nameB = some sigBrpoplpush)
    (hq : ((s.conn c).tx.isSome && !SigTable.notQueued.contains sigBrpoplpush.name) = false)
    (hc : s.HasConn c) (hps : (s.conn c).pubsub = 0) (hin : (s.conn c).inTx = false) :
    let s' := (processCommand mode c [nameB, src, dst, tb] s).2
    ∃ D, (∀ p ∈ D, IsMsg p.2) ∧
      match expected mode tb (brpoplpushPass (s.conn c).db src dst true s.prologue).1 with
      | .reply r => s'.out = (c, r) :: D ++ s.out
      | .parks =>
        s'.out = D ++ s.out ∧
        (∃ p, (s'.conn c).parked = some p ∧ p.kind = "brpoplpush" ∧ p.keys = [src, dst] ∧ p.db = (s.conn c).db) ∧
        (mode.async = true → (s'.conn c).paused = true) := by
  dsimp only
  have hp := small_prologue s
  have hwfp : TxWf s.prologue := hwf.le hp.conns
  have hcP : s.prologue.HasConn c := (hp.conns.hasConn c).2 hc
  have hpsP : (s.prologue.conn c).pubsub = 0 := (ScanSys.prologue_conn_pubsub s c).trans hps
  have hinP : (s.prologue.conn c).inTx = false := (ScanSys.prologue_conn_inTx s c).trans hin
  have hdbP : (s.prologue.conn c).db = (s.conn c).db := ScanSys.prologue_conn_db s c
  have hsub : sigBrpoplpush.name ∉ SigTable.notInMulti := by decide
  have ha : sigBrpoplpush.checkArity ([src, dst, tb] : List Bytes).length = true := rfl
  have hex := runCommand_brpoplpush_exact mode c src dst tb s.prologue hpsP hinP hcP
  rw [hdbP] at hex
  obtain ⟨hsm, _⟩ := runCommand_reply mode c sigBrpoplpush [src, dst, tb] s.prologue hsub (hwfp.queue_not_gated c)
  rw [pc_run mode c nameB [src, dst, tb] s hl ha hq, afterRun_out]
  revert hex hsm
  generalize expected mode tb (brpoplpushPass (s.conn c).db src dst true s.prologue).1 = E
  generalize hR : runCommand mode c sigBrpoplpush [src, dst, tb] false s.prologue = R
  obtain ⟨r1, s2⟩ := R
  intro hex hsm
  obtain ⟨D, hD, hmsg⟩ := hsm.out
  rw [prologue_out] at hD
  simp only at hD
  refine ⟨D, hmsg, ?_⟩
  cases E with
  | reply r =>
    simp only at hex ⊢
    subst hex
    have hc2 : (s2.conn c).closed = false := by
      rw [hsm.conns.closed c, hp.conns.closed c]; exact hcl
    simp only [Sys.emitS_out, hc2, Bool.false_eq_true, if_false, hD, List.cons_append]
  | parks =>
    simp only at hex ⊢
    obtain ⟨h1, ⟨p, hp1, hp2⟩, h3⟩ := hex
    subst h1
    simp only
    have hconn : ∀ {β} (proj : Conn → β), (∀ x, proj (markDead x) = proj x) →
        proj ((afterRun c (none, s2)).conn c) = proj (s2.conn c) := by
      intro β proj hproj
      unfold afterRun
      simp only
      split
      · exact Sys.conn_updConn_proj s2 c c markDead proj (fun _ => rfl) hproj
      · rfl
    refine ⟨hD, ⟨p, ?_, hp2⟩, fun h => ?_⟩
    · rw [hconn Conn.parked (fun _ => rfl)]; exact hp1
    · rw [hconn Conn.paused (fun _ => rfl)]; exact h3 h

/-! ## non-vacuity: every outcome occurs (`sData`: connection 1 open, `k` (107) = list `[a]`, `s` (115) = a string) -/

example : lookupSig (strBytes "BRPOPLPUSH") = some sigBrpoplpush := by decide +kernel

example :
    -- served: the moved element
    ((processCommand { park := true } 1 [strBytes "BRPOPLPUSH", [107], [100], [48]] sData).2.out.map
      (fun p => (p.1, p.2.render))) = [(1, (Reply.bulk [97]).render)] ∧
    -- destination of another type: WRONGTYPE
    ((processCommand { park := true } 1 [strBytes "BRPOPLPUSH", [107], [115], [48]] sData).2.out.map
      (fun p => (p.1, p.2.render))) = [(1, (Reply.err (strBytes Msgs.WRONGTYPE_MSG)).render)] ∧
    -- source of another type: WRONGTYPE
    ((processCommand { park := true } 1 [strBytes "BRPOPLPUSH", [115], [100], [48]] sData).2.out.map
      (fun p => (p.1, p.2.render))) = [(1, (Reply.err (strBytes Msgs.WRONGTYPE_MSG)).render)] ∧
    -- invalid time-out
    ((processCommand { park := true } 1 [strBytes "BRPOPLPUSH", [120], [100], [45, 49]] sData).2.out.map
      (fun p => (p.1, p.2.render))) = [(1, (Reply.err (strBytes Msgs.TIMEOUT_NEGATIVE_MSG)).render)] ∧
    -- a mode that does not park: nil at once
    ((processCommand {} 1 [strBytes "BRPOPLPUSH", [120], [100], [48]] sData).2.out.map
      (fun p => (p.1, p.2.render))) = [(1, Reply.nil.render)] ∧
    -- scheduler harness: no reply, parked on both keys
    (processCommand { park := true } 1 [strBytes "BRPOPLPUSH", [120], [100], [48]] sData).2.out = [] ∧
    (((processCommand { park := true } 1 [strBytes "BRPOPLPUSH", [120], [100], [48]] sData).2.conn 1).parked.map
      (fun p => (p.kind, p.keys))) = some ("brpoplpush", [[120], [100]]) ∧
    -- asyncio front-end: no reply, parked and paused
    (processCommand { async := true } 1 [strBytes "BRPOPLPUSH", [120], [100], [48]] sData).2.out = [] ∧
    ((processCommand { async := true } 1 [strBytes "BRPOPLPUSH", [120], [100], [48]] sData).2.conn 1).paused = true ∧
    ((processCommand { async := true } 1 [strBytes "BRPOPLPUSH", [120], [100], [48]] sData).2.conn 1).parked.isSome = true := by
  decide +kernel

/-- the theorem applies on `sData` and its `.parks` branch is the one taken (scheduler harness, no list under `x`) -/
example : (expected { park := true } [48]
    (brpoplpushPass (sData.conn 1).db [120] [100] true sData.prologue).1).isParks = true := by decide +kernel

example := reply_count_brpoplpush { park := true } 1 (strBytes "BRPOPLPUSH") [120] [100] [48] sData sData_wf
  (by decide +kernel) (by decide +kernel) (by decide +kernel) (by decide +kernel) (by decide +kernel) (by decide +kernel)

end FR.Props.C11s2
