import FR.Proofs.Ttl
import FR.Props.C05
/-!
# C07 (second half) — the TTL rules

Vocabulary (all from `FR/Proofs/Ttl.lean`, `FR/Proofs/Runner.lean`):

* `Db.live db k`       the entry of `k` a client can see (`none` when missing or expired);
* `Ttl.deadline db k`  the deadline stored in that entry (`none`: no entry or no deadline);
* `Ttl.run name ctx raw db`  = `runRegular sig body ctx none raw db` for the real signature `SigTable.find name` and
  the real body `Cmd.regular name`;
* the clock counts 100 ns ticks: `TICKS = 10^7` per second, `TICKS_MS = 10^4` per millisecond;
* `Db.purge out.db = Db.purge db` : nothing changed (only expired entries may have been dropped lazily).

Every theorem holds for an arbitrary database with unique keys (`NodupKeys`), arbitrary key / argument bytes, any
emulated version, any `dbnum`/`inTx` in the context; `ctx.time = db.time` is what `_run_command` guarantees
(`runInner_regular` below).  The hypothesis `it.value.isEmptyColl = false` excludes a stored empty collection,
which no command ever stores (`NoEmpty`, `runRegular_noEmpty`).
-/
namespace FR.Props.C07t
open FR FR.Ttl

/-! ## examples used for non-vacuity: clock at 1 s; `a` expires at 5 s, `b` has no deadline, `l` is a list with
deadline 3 s -/

def db0 : Db :=
  ⟨[([97], ⟨.str [1], some 50000000⟩), ([98], ⟨.str [2], none⟩), ([108], ⟨.list [[1], [2]], some 30000000⟩)], 10000000⟩
def ctx0 : Ctx := ⟨7, 10000000, 0, false, []⟩

theorem db0_nd : NodupKeys db0.dict := by decide
/-- `a` a string expiring at 5 s, `s` a set expiring at 5 s -/
def dbS : Db := ⟨[([97], ⟨.str [1], some 50000000⟩), ([115], ⟨.set [[5]], some 50000000⟩)], 10000000⟩
theorem cm_ex : casematch [69, 120] "ex" = true := by unfold casematch; rw [strBytes_eq]; rfl
theorem cm_px : casematch [112, 88] "px" = true := by unfold casematch; rw [strBytes_eq]; rfl
theorem cm_keepttl : casematch [75, 69, 69, 80, 84, 84, 76] "keepttl" = true := by
  unfold casematch; rw [strBytes_eq]; rfl

/-! ## 1. TTL / PTTL -/

/-- TTL answers `ttlAnswer now 1 (live entry)` and PTTL `ttlAnswer now 1000 (live entry)`, where
`ttlAnswer now scale` is `-2` without live entry, `-1` without deadline, and otherwise
`roundHalfUp ((deadline - now) * scale) TICKS` = `floor(x + 1/2)`: nearest, ties UP — Redis' `(ttl_ms + 500) / 1000`;
nothing changes. -/
theorem ttl_reply (ctx : Ctx) (k : Bytes) (db : Db) (nd : NodupKeys db.dict) :
    (run "ttl" ctx [k] db).reply = ttlAnswer ctx.time 1 (db.live k) ∧
    Db.purge (run "ttl" ctx [k] db).db = Db.purge db := ttl_spec ctx k nd

theorem pttl_reply (ctx : Ctx) (k : Bytes) (db : Db) (nd : NodupKeys db.dict) :
    (run "pttl" ctx [k] db).reply = ttlAnswer ctx.time 1000 (db.live k) ∧
    Db.purge (run "pttl" ctx [k] db).db = Db.purge db := pttl_spec ctx k nd

/-- `-2` iff the key is not live; `-1` iff it is live without deadline; otherwise the rounded remaining time,
which is never negative (so the three cases cannot be confused). -/
theorem ttl_cases (ctx : Ctx) (k : Bytes) (db : Db) (nd : NodupKeys db.dict) (hctx : ctx.time = db.time)
    (hne : ∀ it, db.live k = some it → it.value.isEmptyColl = false) :
    ((run "ttl" ctx [k] db).reply = .int (-2) ↔ db.live k = none) ∧
    ((run "ttl" ctx [k] db).reply = .int (-1) ↔ ∃ it, db.live k = some it ∧ it.expireat = none) ∧
    (∀ it e, db.live k = some it → it.expireat = some e →
      (run "ttl" ctx [k] db).reply = .int (roundHalfUp ((e - ctx.time) * 1) TICKS) ∧
      0 ≤ roundHalfUp ((e - ctx.time) * 1) TICKS) := by
  rw [(ttl_spec ctx k nd).1]
  exact ttlAnswer_cases k ctx.time 1 hctx (by decide) hne

theorem pttl_cases (ctx : Ctx) (k : Bytes) (db : Db) (nd : NodupKeys db.dict) (hctx : ctx.time = db.time)
    (hne : ∀ it, db.live k = some it → it.value.isEmptyColl = false) :
    ((run "pttl" ctx [k] db).reply = .int (-2) ↔ db.live k = none) ∧
    ((run "pttl" ctx [k] db).reply = .int (-1) ↔ ∃ it, db.live k = some it ∧ it.expireat = none) ∧
    (∀ it e, db.live k = some it → it.expireat = some e →
      (run "pttl" ctx [k] db).reply = .int (roundHalfUp ((e - ctx.time) * 1000) TICKS) ∧
      0 ≤ roundHalfUp ((e - ctx.time) * 1000) TICKS) := by
  rw [(pttl_spec ctx k nd).1]
  exact ttlAnswer_cases k ctx.time 1000 hctx (by decide) hne

/-- the rounding: for `den > 0`, `roundHalfUp num den = q` iff `q ≤ num/den + 1/2 < q + 1`, written in integers -/
theorem rounding_rule (num den : Int) (hd : 0 < den) (q : Int) :
    roundHalfUp num den = q ↔ 2 * den * q ≤ 2 * num + den ∧ 2 * num + den < 2 * den * (q + 1) :=
  roundHalfUp_iff hd q

/-- 2.5 s gives 3 and 2.4999999 s gives 2 (ticks of 100 ns); half-to-even would have given 2 for 2.5 s.
On the commands: clock 1 s, deadlines 3.5 s and 3.4999999 s. -/
example : roundHalfUp (25000000 * 1) TICKS = 3 ∧ roundHalfUp (24999999 * 1) TICKS = 2 ∧
    roundHalfEven (25000000 * 1) TICKS = 2 ∧
    (run "ttl" ctx0 [[97]] ⟨[([97], ⟨.str [1], some 35000000⟩)], 10000000⟩).reply = .int 3 ∧
    (run "ttl" ctx0 [[97]] ⟨[([97], ⟨.str [1], some 34999999⟩)], 10000000⟩).reply = .int 2 ∧
    (run "pttl" ctx0 [[97]] ⟨[([97], ⟨.str [1], some 35000000⟩)], 10000000⟩).reply = .int 2500 :=
  ⟨by decide, by decide, by decide, rfl, rfl, rfl⟩

example : (run "ttl" ctx0 [[97]] db0).reply = .int 4 ∧ (run "pttl" ctx0 [[97]] db0).reply = .int 4000 ∧
    (run "ttl" ctx0 [[98]] db0).reply = .int (-1) ∧ (run "ttl" ctx0 [[99]] db0).reply = .int (-2) :=
  ⟨rfl, rfl, rfl, rfl⟩

/-! ## 2. EXPIRE / PEXPIRE / EXPIREAT / PEXPIREAT / PERSIST -/

/-- The refusal conditions (`FR/Proofs/Ttl.lean`), spelled out.  The deadline of EXPIRE / PEXPIRE / EXPIREAT is a
signed 64-bit number of milliseconds in Redis: with `ms` the argument in milliseconds and `basetime_ms` =
`int(self._db.time * 1000)` = `now / TICKS_MS` (0 for EXPIREAT) the command is refused iff
`ms + basetime_ms ≥ 2^63 ∨ ms < -2^63`. -/
theorem overflow_conditions (now n : Int) :
    (expireOverflow now n ↔ (n * 1000 + now / TICKS_MS ≥ 2 ^ 63 ∨ n * 1000 < -(2 ^ 63))) ∧
    (pexpireOverflow now n ↔ (n + now / TICKS_MS ≥ 2 ^ 63 ∨ n < -(2 ^ 63))) ∧
    (expireatOverflow n ↔ (n * 1000 ≥ 2 ^ 63 ∨ n * 1000 < -(2 ^ 63))) := ⟨Iff.rfl, Iff.rfl, Iff.rfl⟩

/-- EXPIRE k n with a deadline outside the signed 64-bit millisecond range (`expireOverflow now n`): refused with
`ERR invalid expire time in expire`, and nothing changes — whether or not the key exists. -/
theorem expire_overflow_refused (ctx : Ctx) (k sb : Bytes) (n : Int) (hs : Conv.int sb = .ok n) (db : Db)
    (nd : NodupKeys db.dict) (hctx : ctx.time = db.time) (hov : expireOverflow db.time n) :
    let out := run "expire" ctx [k, sb] db
    out.reply = .err (strBytes (Msgs.fmt1 Msgs.INVALID_EXPIRE_MSG "expire")) ∧ Db.purge out.db = Db.purge db :=
  (expire_spec ctx k sb n hs nd hctx).1 hov

/-- PEXPIRE k n out of range (`pexpireOverflow now n`): refused with `ERR invalid expire time in pexpire`. -/
theorem pexpire_overflow_refused (ctx : Ctx) (k sb : Bytes) (n : Int) (hs : Conv.int sb = .ok n) (db : Db)
    (nd : NodupKeys db.dict) (hctx : ctx.time = db.time) (hov : pexpireOverflow db.time n) :
    let out := run "pexpire" ctx [k, sb] db
    out.reply = .err (strBytes (Msgs.fmt1 Msgs.INVALID_EXPIRE_MSG "pexpire")) ∧ Db.purge out.db = Db.purge db :=
  (pexpire_spec ctx k sb n hs nd hctx).1 hov

/-- EXPIREAT k n out of range (`expireatOverflow n`, independent of the clock): refused with
`ERR invalid expire time in expireat`. -/
theorem expireat_overflow_refused (ctx : Ctx) (k sb : Bytes) (n : Int) (hs : Conv.int sb = .ok n) (db : Db)
    (nd : NodupKeys db.dict) (hctx : ctx.time = db.time) (hov : expireatOverflow n) :
    let out := run "expireat" ctx [k, sb] db
    out.reply = .err (strBytes (Msgs.fmt1 Msgs.INVALID_EXPIRE_MSG "expireat")) ∧ Db.purge out.db = Db.purge db :=
  (expireat_spec ctx k sb n hs nd hctx).1 hov

/-- EXPIRE k n (n any 64-bit integer): refused with the invalid-expire error, nothing changed, when the deadline is
out of range (`expireOverflow`); otherwise: on a missing key reply 0 and nothing changes; on a live key reply 1 and
the deadline becomes exactly `now + n·TICKS` — unless that instant is not in the future, then the key is removed.
No other key is touched. -/
theorem expire_rule (ctx : Ctx) (k sb : Bytes) (n : Int) (hs : Conv.int sb = .ok n) (db : Db)
    (nd : NodupKeys db.dict) (hctx : ctx.time = db.time) :
    let out := run "expire" ctx [k, sb] db
    (expireOverflow db.time n →
      out.reply = .err (strBytes (Msgs.fmt1 Msgs.INVALID_EXPIRE_MSG "expire")) ∧ Db.purge out.db = Db.purge db) ∧
    (¬ expireOverflow db.time n →
      (db.live k = none → out.reply = .int 0 ∧ Db.purge out.db = Db.purge db) ∧
      (∀ it, db.live k = some it → it.value.isEmptyColl = false →
        out.reply = .int 1 ∧
        out.db.live k =
          (if db.time + n * TICKS ≤ db.time then none else some ⟨it.value, some (db.time + n * TICKS)⟩) ∧
        ∀ k', k' ≠ k → out.db.live k' = db.live k')) := expire_spec ctx k sb n hs nd hctx

/-- PEXPIRE: the instant is `now + n·TICKS_MS`; refused when `pexpireOverflow`. -/
theorem pexpire_rule (ctx : Ctx) (k sb : Bytes) (n : Int) (hs : Conv.int sb = .ok n) (db : Db)
    (nd : NodupKeys db.dict) (hctx : ctx.time = db.time) :
    let out := run "pexpire" ctx [k, sb] db
    (pexpireOverflow db.time n →
      out.reply = .err (strBytes (Msgs.fmt1 Msgs.INVALID_EXPIRE_MSG "pexpire")) ∧ Db.purge out.db = Db.purge db) ∧
    (¬ pexpireOverflow db.time n →
      (db.live k = none → out.reply = .int 0 ∧ Db.purge out.db = Db.purge db) ∧
      (∀ it, db.live k = some it → it.value.isEmptyColl = false →
        out.reply = .int 1 ∧
        out.db.live k =
          (if db.time + n * TICKS_MS ≤ db.time then none else some ⟨it.value, some (db.time + n * TICKS_MS)⟩) ∧
        ∀ k', k' ≠ k → out.db.live k' = db.live k')) := pexpire_spec ctx k sb n hs nd hctx

/-- EXPIREAT: the instant is the absolute `n·TICKS`; refused when `expireatOverflow`. -/
theorem expireat_rule (ctx : Ctx) (k sb : Bytes) (n : Int) (hs : Conv.int sb = .ok n) (db : Db)
    (nd : NodupKeys db.dict) (hctx : ctx.time = db.time) :
    let out := run "expireat" ctx [k, sb] db
    (expireatOverflow n →
      out.reply = .err (strBytes (Msgs.fmt1 Msgs.INVALID_EXPIRE_MSG "expireat")) ∧ Db.purge out.db = Db.purge db) ∧
    (¬ expireatOverflow n →
      (db.live k = none → out.reply = .int 0 ∧ Db.purge out.db = Db.purge db) ∧
      (∀ it, db.live k = some it → it.value.isEmptyColl = false →
        out.reply = .int 1 ∧
        out.db.live k = (if n * TICKS ≤ db.time then none else some ⟨it.value, some (n * TICKS)⟩) ∧
        ∀ k', k' ≠ k → out.db.live k' = db.live k')) := expireat_spec ctx k sb n hs nd hctx

/-- PEXPIREAT: the instant is the absolute `n·TICKS_MS`. -/
theorem pexpireat_rule (ctx : Ctx) (k sb : Bytes) (n : Int) (hs : Conv.int sb = .ok n) (db : Db)
    (nd : NodupKeys db.dict) (hctx : ctx.time = db.time) :
    let out := run "pexpireat" ctx [k, sb] db
    (db.live k = none → out.reply = .int 0 ∧ Db.purge out.db = Db.purge db) ∧
    (∀ it, db.live k = some it → it.value.isEmptyColl = false →
      out.reply = .int 1 ∧
      out.db.live k = (if n * TICKS_MS ≤ db.time then none else some ⟨it.value, some (n * TICKS_MS)⟩) ∧
      ∀ k', k' ≠ k → out.db.live k' = db.live k') := pexpireat_spec ctx k sb n hs nd hctx

/-- PERSIST: reply 1 iff there was a deadline, which is removed (value untouched); otherwise reply 0, no change. -/
theorem persist_rule (ctx : Ctx) (k : Bytes) (db : Db) (nd : NodupKeys db.dict) :
    let out := run "persist" ctx [k] db
    (deadline db k = none → out.reply = .int 0 ∧ Db.purge out.db = Db.purge db) ∧
    (∀ it e, db.live k = some it → it.expireat = some e → it.value.isEmptyColl = false →
      out.reply = .int 1 ∧ out.db.live k = some ⟨it.value, none⟩ ∧
      ∀ k', k' ≠ k → out.db.live k' = db.live k') := persist_spec ctx k nd

/-- non-vacuity: EXPIRE b 5 sets 6 s; EXPIRE a -1 removes a; EXPIRE of a missing key; PERSIST a -/
example : Conv.int [53] = .ok 5 ∧ Conv.int [45, 49] = .ok (-1) ∧ db0.live [98] = some ⟨.str [2], none⟩ ∧
    (run "expire" ctx0 [[98], [53]] db0).reply = .int 1 ∧
    (run "expire" ctx0 [[98], [53]] db0).db.live [98] = some ⟨.str [2], some 60000000⟩ ∧
    (run "expire" ctx0 [[97], [45, 49]] db0).db.live [97] = none ∧
    (run "expire" ctx0 [[99], [53]] db0).reply = .int 0 ∧
    (run "pexpireat" ctx0 [[98], [53]] db0).db.live [98] = none ∧
    (run "persist" ctx0 [[97]] db0).reply = .int 1 ∧
    (run "persist" ctx0 [[97]] db0).db.live [97] = some ⟨.str [1], none⟩ ∧
    (run "persist" ctx0 [[98]] db0).reply = .int 0 :=
  ⟨rfl, rfl, rfl, rfl, rfl, rfl, rfl, rfl, rfl, rfl, rfl⟩

/-- `9223372036854775807` = 2^63 - 1 and `-9223372036854775808` = -2^63 as argument bytes -/
def maxB : Bytes := [57, 50, 50, 51, 51, 55, 50, 48, 51, 54, 56, 53, 52, 55, 55, 53, 56, 48, 55]
def minB : Bytes := [45, 57, 50, 50, 51, 51, 55, 50, 48, 51, 54, 56, 53, 52, 55, 55, 53, 56, 48, 56]
/-- `9223372036854775` = (2^63 - 1) / 1000 (rounded down) -/
def maxSecB : Bytes := [57, 50, 50, 51, 51, 55, 50, 48, 51, 54, 56, 53, 52, 55, 55, 53]

/-- non-vacuity of the refusals (clock 1 s): `EXPIRE k 9223372036854775807`, `EXPIRE k -9223372036854775808`,
`PEXPIRE k 9223372036854775807`, `EXPIREAT k 9223372036854775807` are refused on the live key `b` and on the missing key
`c` alike, and `b` is untouched; `EXPIRE b 9223372036854775` (deadline 2^63 - 808 + 1000 ms ≥ 2^63) is refused too
while `EXPIREAT b 9223372036854775` is accepted; `PEXPIRE k -9223372036854775808` is in range: accepted, removes the
key. -/
example : Conv.int maxB = .ok 9223372036854775807 ∧ Conv.int minB = .ok (-9223372036854775808) ∧
    Conv.int maxSecB = .ok 9223372036854775 ∧
    expireOverflow db0.time 9223372036854775807 ∧ expireOverflow db0.time (-9223372036854775808) ∧
    expireOverflow db0.time 9223372036854775 ∧
    pexpireOverflow db0.time 9223372036854775807 ∧ ¬ pexpireOverflow db0.time (-9223372036854775808) ∧
    expireatOverflow 9223372036854775807 ∧ ¬ expireatOverflow 9223372036854775 ∧
    (run "expire" ctx0 [[98], maxB] db0).reply = .err (strBytes (Msgs.fmt1 Msgs.INVALID_EXPIRE_MSG "expire")) ∧
    (run "expire" ctx0 [[98], maxB] db0).db.live [98] = some ⟨.str [2], none⟩ ∧
    (run "expire" ctx0 [[99], maxB] db0).reply = .err (strBytes (Msgs.fmt1 Msgs.INVALID_EXPIRE_MSG "expire")) ∧
    (run "expire" ctx0 [[98], minB] db0).reply = .err (strBytes (Msgs.fmt1 Msgs.INVALID_EXPIRE_MSG "expire")) ∧
    (run "expire" ctx0 [[98], maxSecB] db0).reply = .err (strBytes (Msgs.fmt1 Msgs.INVALID_EXPIRE_MSG "expire")) ∧
    (run "pexpire" ctx0 [[98], maxB] db0).reply = .err (strBytes (Msgs.fmt1 Msgs.INVALID_EXPIRE_MSG "pexpire")) ∧
    (run "pexpire" ctx0 [[99], maxB] db0).reply = .err (strBytes (Msgs.fmt1 Msgs.INVALID_EXPIRE_MSG "pexpire")) ∧
    (run "pexpire" ctx0 [[98], minB] db0).reply = .int 1 ∧
    (run "pexpire" ctx0 [[98], minB] db0).db.live [98] = none ∧
    (run "expireat" ctx0 [[98], maxB] db0).reply = .err (strBytes (Msgs.fmt1 Msgs.INVALID_EXPIRE_MSG "expireat")) ∧
    (run "expireat" ctx0 [[99], maxB] db0).reply = .err (strBytes (Msgs.fmt1 Msgs.INVALID_EXPIRE_MSG "expireat")) ∧
    (run "expireat" ctx0 [[98], maxSecB] db0).reply = .int 1 ∧
    (run "expireat" ctx0 [[98], maxSecB] db0).db.live [98] = some ⟨.str [2], some 92233720368547750000000⟩ ∧
    (run "pexpireat" ctx0 [[98], maxB] db0).reply = .int 1 :=
  ⟨rfl, rfl, rfl,
   by decide, by decide, by decide, by decide, by decide, by decide, by decide,
   (expire_overflow_refused ctx0 [98] maxB 9223372036854775807 rfl db0 db0_nd rfl (by decide)).1,
   rfl, rfl, rfl, rfl,
   (pexpire_overflow_refused ctx0 [98] maxB 9223372036854775807 rfl db0 db0_nd rfl (by decide)).1, rfl, rfl, rfl,
   (expireat_overflow_refused ctx0 [98] maxB 9223372036854775807 rfl db0 db0_nd rfl (by decide)).1, rfl, rfl, rfl, rfl⟩

/-! ## 3. SETEX / PSETEX / SET EX|PX -/

/-- SETEX k n v: a non-positive (or overflowing) time is an error and changes nothing; otherwise the string is
stored with exactly the deadline `now + n·TICKS`, whatever was there before. -/
theorem setex_rule (ctx : Ctx) (k sb v : Bytes) (n : Int) (hs : Conv.int sb = .ok n) (db : Db)
    (nd : NodupKeys db.dict) (hctx : ctx.time = db.time) :
    let out := run "setex" ctx [k, sb, v] db
    ((n ≤ 0 ∨ db.time + n * TICKS ≥ 2 ^ 63 * TICKS_MS) →
      out.reply = .err (strBytes (Msgs.fmt1 Msgs.INVALID_EXPIRE_MSG "setex")) ∧ Db.purge out.db = Db.purge db) ∧
    (¬ (n ≤ 0 ∨ db.time + n * TICKS ≥ 2 ^ 63 * TICKS_MS) →
      out.reply = .ok ∧ out.db.live k = some ⟨.str v, some (db.time + n * TICKS)⟩ ∧
      ∀ k', k' ≠ k → out.db.live k' = db.live k') := setex_spec ctx k sb v n hs nd hctx

theorem psetex_rule (ctx : Ctx) (k sb v : Bytes) (n : Int) (hs : Conv.int sb = .ok n) (db : Db)
    (nd : NodupKeys db.dict) (hctx : ctx.time = db.time) :
    let out := run "psetex" ctx [k, sb, v] db
    ((n ≤ 0 ∨ db.time + n * TICKS_MS ≥ 2 ^ 63 * TICKS_MS) →
      out.reply = .err (strBytes (Msgs.fmt1 Msgs.INVALID_EXPIRE_MSG "psetex")) ∧ Db.purge out.db = Db.purge db) ∧
    (¬ (n ≤ 0 ∨ db.time + n * TICKS_MS ≥ 2 ^ 63 * TICKS_MS) →
      out.reply = .ok ∧ out.db.live k = some ⟨.str v, some (db.time + n * TICKS_MS)⟩ ∧
      ∀ k', k' ≠ k → out.db.live k' = db.live k') := psetex_spec ctx k sb v n hs nd hctx

/-- SET k v EX n (the option word in any letter case) -/
theorem set_ex_rule (ctx : Ctx) (k v tok sb : Bytes) (n : Int) (htok : casematch tok "ex" = true)
    (hs : Conv.int sb = .ok n) (db : Db) (nd : NodupKeys db.dict) (hctx : ctx.time = db.time) :
    let out := run "set" ctx [k, v, tok, sb] db
    ((n ≤ 0 ∨ db.time + n * TICKS ≥ 2 ^ 63 * TICKS_MS) →
      out.reply = .err (strBytes (Msgs.fmt1 Msgs.INVALID_EXPIRE_MSG "set")) ∧ Db.purge out.db = Db.purge db) ∧
    (¬ (n ≤ 0 ∨ db.time + n * TICKS ≥ 2 ^ 63 * TICKS_MS) →
      out.reply = .ok ∧ out.db.live k = some ⟨.str v, some (db.time + n * TICKS)⟩ ∧
      ∀ k', k' ≠ k → out.db.live k' = db.live k') := set_ex ctx k v tok sb n htok hs nd hctx

/-- SET k v PX n -/
theorem set_px_rule (ctx : Ctx) (k v tok sb : Bytes) (n : Int) (htok : casematch tok "px" = true)
    (hs : Conv.int sb = .ok n) (db : Db) (nd : NodupKeys db.dict) (hctx : ctx.time = db.time) :
    let out := run "set" ctx [k, v, tok, sb] db
    ((n ≤ 0 ∨ db.time + n * TICKS_MS ≥ 2 ^ 63 * TICKS_MS) →
      out.reply = .err (strBytes (Msgs.fmt1 Msgs.INVALID_EXPIRE_MSG "set")) ∧ Db.purge out.db = Db.purge db) ∧
    (¬ (n ≤ 0 ∨ db.time + n * TICKS_MS ≥ 2 ^ 63 * TICKS_MS) →
      out.reply = .ok ∧ out.db.live k = some ⟨.str v, some (db.time + n * TICKS_MS)⟩ ∧
      ∀ k', k' ≠ k → out.db.live k' = db.live k') := set_px ctx k v tok sb n htok hs nd hctx

example : casematch [69, 120] "ex" = true ∧ casematch [112, 88] "px" = true ∧ Conv.int [48] = .ok 0 ∧
    (run "setex" ctx0 [[97], [53], [9]] db0).db.live [97] = some ⟨.str [9], some 60000000⟩ ∧
    (run "psetex" ctx0 [[108], [53], [9]] db0).db.live [108] = some ⟨.str [9], some 10050000⟩ ∧
    (run "set" ctx0 [[98], [9], [69, 120], [53]] db0).db.live [98] = some ⟨.str [9], some 60000000⟩ ∧
    (run "set" ctx0 [[98], [9], [112, 88], [53]] db0).db.live [98] = some ⟨.str [9], some 10050000⟩ ∧
    (run "setex" ctx0 [[97], [48], [9]] db0).failed = true ∧
    (run "set" ctx0 [[98], [9], [69, 120], [48]] db0).reply =
      .err (strBytes (Msgs.fmt1 Msgs.INVALID_EXPIRE_MSG "set")) :=
  ⟨cm_ex, cm_px, rfl, rfl, rfl,
    ((set_ex_rule ctx0 [98] [9] [69, 120] [53] 5 cm_ex rfl db0 db0_nd rfl).2 (by decide)).2.1,
    ((set_px_rule ctx0 [98] [9] [112, 88] [53] 5 cm_px rfl db0 db0_nd rfl).2 (by decide)).2.1, rfl,
    ((set_ex_rule ctx0 [98] [9] [69, 120] [48] 0 cm_ex rfl db0 db0_nd rfl).1 (Or.inl (by decide))).1⟩

/-- RESTORE k ttl payload (no REPLACE option) on a free key with a well-formed payload that decodes to `v`:
a negative ttl is an error; otherwise `v` is stored with deadline `now + ttl·TICKS_MS` (ttl is relative, so it is
never in the past), and with no deadline for ttl 0. -/
theorem restore_rule (ctx : Ctx) (k tb payload : Bytes) (t : Int) (v : Value)
    (ht : Conv.int tb = .ok t) (hmagic : (payload.take Cmd.dumpMagic.length == Cmd.dumpMagic) = true)
    (hload : Cmd.loadValue (payload.drop Cmd.dumpMagic.length) = some v) (hv : v.isEmptyColl = false)
    (db : Db) (nd : NodupKeys db.dict) (hctx : ctx.time = db.time) (hfree : db.live k = none) :
    let out := run "restore" ctx [k, tb, payload] db
    (t < 0 → out.reply = .err (strBytes Msgs.RESTORE_INVALID_TTL_MSG) ∧ Db.purge out.db = Db.purge db) ∧
    (0 ≤ t → out.reply = .ok ∧
      out.db.live k = some ⟨v, if t = 0 then none else some (db.time + t * TICKS_MS)⟩ ∧
      ∀ k', k' ≠ k → out.db.live k' = db.live k') :=
  restore_gen "restore" ctx k tb payload t v ht hmagic hload hv nd hctx hfree

/-- non-vacuity: the payload of the empty string, ttl 5 ms, on the free key `x` -/
example : (run "restore" ctx0 [[120], [53], Cmd.dumpMagic ++ [83, 95]] db0).db.live [120] =
    some ⟨.str [], some 10050000⟩ :=
  ((restore_rule ctx0 [120] [53] (Cmd.dumpMagic ++ [83, 95]) 5 (.str []) rfl (by simp) (by simp; rfl) rfl
    db0 db0_nd rfl rfl).2 (by decide)).2.1

/-! ## 4. replacing commands clear the deadline; SET KEEPTTL keeps it -/

/-- SET k v -/
theorem set_clears (ctx : Ctx) (k v : Bytes) (db : Db) (nd : NodupKeys db.dict) (hctx : ctx.time = db.time) :
    let out := run "set" ctx [k, v] db
    out.reply = .ok ∧ out.db.live k = some ⟨.str v, none⟩ ∧ ∀ k', k' ≠ k → out.db.live k' = db.live k' :=
  set_plain ctx k v nd hctx

/-- SET k v KEEPTTL: new value, old deadline (none when the key did not exist) -/
theorem set_keepttl_keeps (ctx : Ctx) (k v tok : Bytes) (htok : casematch tok "keepttl" = true) (db : Db)
    (nd : NodupKeys db.dict) (hctx : ctx.time = db.time) :
    let out := run "set" ctx [k, v, tok] db
    out.reply = .ok ∧ out.db.live k = some ⟨.str v, deadline db k⟩ ∧ ∀ k', k' ≠ k → out.db.live k' = db.live k' :=
  set_keepttl ctx k v tok htok nd hctx

/-- SET with ANY option list that parses to `o` and passes the syntax checks: when NX/XX do not skip the write, the
deadline afterwards is `setDeadline now o old` = PX instant, else EX instant, else the old deadline under KEEPTTL,
else none. -/
theorem set_general (ctx : Ctx) (k v : Bytes) (opts : List Bytes) (db : Db) (nd : NodupKeys db.dict)
    (hctx : ctx.time = db.time) (o : Cmd.SetOpts)
    (hp : Cmd.parseSetOpts ctx.time opts {} = .ok o) (hsyn : setSyntaxBad ctx o = false)
    (hw : setWrong o (ciOf none k (db.live k)) = false) :
    let out := run "set" ctx (k :: v :: opts) db
    (setSkips o (ciOf none k (db.live k)) = true →
      out.reply = setOld o (ciOf none k (db.live k)) ∧ Db.purge out.db = Db.purge db) ∧
    (setSkips o (ciOf none k (db.live k)) = false →
      out.reply = (if o.get then setOld o (ciOf none k (db.live k)) else .ok) ∧
      out.db.live k = some ⟨.str v, setDeadline db.time o (deadline db k)⟩ ∧
      ∀ k', k' ≠ k → out.db.live k' = db.live k') := set_spec ctx k v opts nd hctx o hp hsyn hw

/-- GETSET: old string (or nil) returned, new string stored WITHOUT deadline; on a non-string: WRONGTYPE, no change -/
theorem getset_clears (ctx : Ctx) (k v : Bytes) (db : Db) (nd : NodupKeys db.dict) :
    let out := run "getset" ctx [k, v] db
    (∀ it, db.live k = some it → it.value.ty ≠ .str →
      out.reply = .err (strBytes Msgs.WRONGTYPE_MSG) ∧ Db.purge out.db = Db.purge db) ∧
    ((∀ it, db.live k = some it → it.value.ty = .str) →
      out.reply = (match db.live k with | some ⟨.str b, _⟩ => .bulk b | _ => .nil) ∧
      out.db.live k = some ⟨.str v, none⟩ ∧ ∀ k', k' ≠ k → out.db.live k' = db.live k') :=
  getset_spec ctx k v nd

example : casematch [75, 69, 69, 80, 84, 84, 76] "keepttl" = true ∧
    (run "set" ctx0 [[97], [9]] db0).db.live [97] = some ⟨.str [9], none⟩ ∧
    deadline db0 [97] = some 50000000 ∧
    (run "set" ctx0 [[97], [9], [75, 69, 69, 80, 84, 84, 76]] db0).db.live [97] = some ⟨.str [9], deadline db0 [97]⟩ ∧
    (run "getset" ctx0 [[97], [9]] db0).db.live [97] = some ⟨.str [9], none⟩ ∧
    (run "getset" ctx0 [[97], [9]] db0).reply = .bulk [1] ∧
    (run "getset" ctx0 [[108], [9]] db0).failed = true :=
  ⟨cm_keepttl, rfl, rfl, (set_keepttl_keeps ctx0 [97] [9] _ cm_keepttl db0 db0_nd rfl).2.1, rfl, rfl, rfl⟩

/-- MSET k₁ v₁ … kₙ vₙ (n ≥ 1, `flat` lays the pairs out as the argument list): reply OK; EVERY named key holds the
string of its last pair and has NO deadline; every other key is untouched. -/
theorem mset_clears (ctx : Ctx) (p : Bytes × Bytes) (ps : List (Bytes × Bytes)) (db : Db) (nd : NodupKeys db.dict) :
    let out := run "mset" ctx (flat (p :: ps)) db
    out.reply = .ok ∧
    (∀ k, k ∈ (p :: ps).map Prod.fst → ∃ v, out.db.live k = some ⟨.str v, none⟩) ∧
    (∀ k, k ∉ (p :: ps).map Prod.fst → out.db.live k = db.live k) := by
  intro out
  have h := mset_spec ctx p ps nd
  refine ⟨h.1, fun k hk => ?_, fun k hk => ?_⟩
  · obtain ⟨v, hv⟩ := lastVal_mem (p :: ps) k hk
    exact ⟨v, by rw [h.2 k, hv]⟩
  · rw [h.2 k, lastVal_not_mem (p :: ps) k hk]

/-- SUNIONSTORE / SINTERSTORE / SDIFFSTORE dst src₁ … (any number of sources, the destination may be one of them):
whenever the command runs (no arity / type error), the destination holds the computed set WITHOUT deadline — or is
removed when the set is empty — and no other key changes. -/
theorem store_clears (name : String) (hn : name ∈ storeNames) (ctx : Ctx) (dst : Bytes) (srcs : List Bytes)
    (db : Db) (nd : NodupKeys db.dict) :
    let out := run name ctx (dst :: srcs) db
    out.failed = false →
      (∃ ans, out.reply = .int ans.length ∧
        out.db.live dst = (if ans.isEmpty then none else some ⟨.set ans, none⟩)) ∧
      ∀ k', k' ≠ dst → out.db.live k' = db.live k' := setop_store_spec name hn ctx dst srcs nd

example : "sunionstore" ∈ storeNames ∧
    (run "mset" ctx0 (flat [([97], [7]), ([108], [8])]) db0).db.live [97] = some ⟨.str [7], none⟩ ∧
    (run "mset" ctx0 (flat [([97], [7]), ([108], [8])]) db0).db.live [108] = some ⟨.str [8], none⟩ ∧
    (run "sunionstore" ctx0 [[97], [115]] dbS).failed = false ∧
    (run "sunionstore" ctx0 [[97], [115]] dbS).db.live [97] = some ⟨.set [[5]], none⟩ ∧
    (run "sinterstore" ctx0 [[115], [115], [120]] dbS).db.live [115] = none :=
  ⟨by decide, rfl, rfl, rfl, rfl, rfl⟩

/-! ## 5. the general rules for ANY body, and the in-place commands -/

/-- GENERAL (in place): for any signature and any body — if the items the body returns differ from the applied ones
only by in-place modifications (`InPlace`: same keys, same deadlines, deadline never assigned — what `CI.update`,
`CI.updated` and `{c with val := …, modified := true}` produce), every key that exists afterwards has the deadline it
had before (a created key has none). -/
theorem inplace_general (sig : Sig) (body : Body) (ctx : Ctx) (raw : List Bytes) (db : Db) (nd : NodupKeys db.dict)
    (args : List Arg) (cis : List CI) (o : BodyOut)
    (ha : applyL db.live sig raw = .ok (.ok args cis)) (hb : body ctx args cis = .ok o)
    (hip : InPlace cis o.cis) (k : Bytes) (it : Item)
    (hl : (runRegular sig body ctx none raw db).db.live k = some it) :
    it.expireat = deadline db k := inplace_keeps sig body ctx raw nd ha hb hip k it hl

/-- GENERAL (`CI.update`): the item produced by `update v` is stored with the OLD deadline. -/
theorem update_general (sig : Sig) (body : Body) (ctx : Ctx) (raw : List Bytes) (db : Db) (nd : NodupKeys db.dict)
    (args : List Arg) (cis : List CI) (o : BodyOut)
    (ha : applyL db.live sig raw = .ok (.ok args cis)) (hb : body ctx args cis = .ok o)
    (i : Nat) (hi : i < cis.length) (v : Value) (hv : v.isEmptyColl = false)
    (ho : o.cis = cis.set i ((ciAt cis i).update v)) :
    (runRegular sig body ctx none raw db).db.live (ciAt cis i).key = some ⟨v, deadline db (ciAt cis i).key⟩ :=
  update_keeps sig body ctx raw nd ha hb i hi v hv ho

/-- GENERAL (value setter): the item produced by `CommandItem.value = v` is stored WITHOUT deadline. -/
theorem setter_general (sig : Sig) (body : Body) (ctx : Ctx) (raw : List Bytes) (db : Db) (nd : NodupKeys db.dict)
    (args : List Arg) (cis : List CI) (o : BodyOut)
    (ha : applyL db.live sig raw = .ok (.ok args cis)) (hb : body ctx args cis = .ok o)
    (i : Nat) (hi : i < cis.length) (v : Value) (hv : v.isEmptyColl = false)
    (ho : o.cis = cis.set i ((ciAt cis i).setValue (some v))) :
    (runRegular sig body ctx none raw db).db.live (ciAt cis i).key = some ⟨v, none⟩ :=
  setter_clears sig body ctx raw nd ha hb i hi v hv ho

/-- `applyL` is `Signature.apply` (its result part) expressed on the live view -/
theorem applyL_is_apply (sig : Sig) (raw : List Bytes) (db : Db) (nd : NodupKeys db.dict) :
    (sig.apply raw db).2 = applyL db.live sig raw := apply_eq sig raw nd

/-- APPEND, INCRBY, SETRANGE, SETBIT, LPUSH, RPUSH, SADD, HSET, ZADD, LPOP, RPOP, PFMERGE — with ANY arguments, on any
outcome (success, error, wrong type): every key that exists afterwards has the deadline it had before. -/
theorem inplace_commands_keep (name : String) (hn : name ∈ inplaceNames) (ctx : Ctx) (raw : List Bytes) (db : Db)
    (nd : NodupKeys db.dict) (k : Bytes) (it : Item) (hl : (run name ctx raw db).db.live k = some it) :
    it.expireat = deadline db k := inplace_commands name hn ctx raw nd k it hl

/-- non-vacuity: the commands do modify the value, and the key does survive with its deadline -/
example : "lpop" ∈ inplaceNames ∧
    (run "append" ctx0 [[97], [7]] db0).db.live [97] = some ⟨.str [1, 7], some 50000000⟩ ∧
    (run "sadd" ctx0 [[115], [5]] db0).db.live [115] = some ⟨.set [[5]], none⟩ ∧
    (run "setrange" ctx0 [[97], [49], [7]] db0).db.live [97] = some ⟨.str [1, 7], some 50000000⟩ ∧
    (run "lpush" ctx0 [[108], [0]] db0).db.live [108] = some ⟨.list [[0], [1], [2]], some 30000000⟩ ∧
    (run "rpush" ctx0 [[108], [0]] db0).db.live [108] = some ⟨.list [[1], [2], [0]], some 30000000⟩ ∧
    (run "lpop" ctx0 [[108]] db0).db.live [108] = some ⟨.list [[2]], some 30000000⟩ ∧
    (run "lpop" ctx0 [[108]] db0).reply = .bulk [1] :=
  ⟨by decide, rfl, rfl, rfl, rfl, rfl, rfl, rfl⟩

/-- PFMERGE dst src… keeps the destination's deadline (the destination is updated in place, `CI.update`; before the
fix it went through the value setter and dropped the deadline).  Whenever the command runs (no arity / type
error): reply OK, the destination holds the merged set with the deadline it had before (none when it did not exist)
— or is removed when the merged set is empty — and no other key changes.  Moreover, with ANY arguments and on any
outcome, every key that exists afterwards has the deadline it had before. -/
theorem pfmerge_keeps (ctx : Ctx) (dst : Bytes) (srcs : List Bytes) (db : Db) (nd : NodupKeys db.dict) :
    let out := run "pfmerge" ctx (dst :: srcs) db
    (out.failed = false →
      out.reply = .ok ∧
      (∃ ans, out.db.live dst = (if ans.isEmpty then none else some ⟨.set ans, deadline db dst⟩)) ∧
      ∀ k', k' ≠ dst → out.db.live k' = db.live k') ∧
    (∀ k it, out.db.live k = some it → it.expireat = deadline db k) :=
  ⟨pfmerge_spec ctx dst srcs nd,
   fun k it hl => inplace_commands "pfmerge" (by decide) ctx (dst :: srcs) nd k it hl⟩

/-- non-vacuity: `s = {5}` with deadline 5 s; PFMERGE s s, and PFMERGE s t into the same destination -/
example : (run "pfmerge" ctx0 [[115], [115]] dbS).failed = false ∧
    (run "pfmerge" ctx0 [[115], [115]] dbS).db.live [115] = some ⟨.set [[5]], some 50000000⟩ ∧
    deadline dbS [115] = some 50000000 ∧
    (run "pfmerge" ctx0 [[120], [115]] dbS).db.live [120] = some ⟨.set [[5]], none⟩ := ⟨rfl, rfl, rfl, rfl⟩

/-! ## 6. RENAME / RENAMENX / MOVE: the deadline travels with the key -/

/-- RENAME a b (a ≠ b): `b` receives the WHOLE entry of `a` (value and deadline), `a` disappears, nothing else
changes; a missing source is an error; RENAME a a is a no-op. -/
theorem rename_rule (ctx : Ctx) (a b : Bytes) (db : Db) (nd : NodupKeys db.dict) :
    let out := run "rename" ctx [a, b] db
    (db.live a = none → out.reply = .err (strBytes Msgs.NO_KEY_MSG) ∧ Db.purge out.db = Db.purge db) ∧
    (∀ it, db.live a = some it → it.value.isEmptyColl = false → a ≠ b →
      out.reply = .ok ∧ out.db.live b = some it ∧ out.db.live a = none ∧
      ∀ k', k' ≠ a → k' ≠ b → out.db.live k' = db.live k') ∧
    (∀ it, db.live a = some it → it.value.isEmptyColl = false → a = b →
      out.reply = .ok ∧ Db.purge out.db = Db.purge db) := rename_spec ctx a b nd

/-- RENAMENX: the same when the destination is free (reply 1); reply 0 and no change when it exists. -/
theorem renamenx_rule (ctx : Ctx) (a b : Bytes) (db : Db) (nd : NodupKeys db.dict) :
    let out := run "renamenx" ctx [a, b] db
    (db.live a = none → out.reply = .err (strBytes Msgs.NO_KEY_MSG) ∧ Db.purge out.db = Db.purge db) ∧
    (∀ it, db.live a = some it → it.value.isEmptyColl = false → db.live b = none →
      out.reply = .int 1 ∧ out.db.live b = some it ∧ out.db.live a = none ∧
      ∀ k', k' ≠ a → k' ≠ b → out.db.live k' = db.live k') ∧
    (∀ it it', db.live a = some it → it.value.isEmptyColl = false → db.live b = some it' →
      it'.value.isEmptyColl = false → out.reply = .int 0 ∧ Db.purge out.db = Db.purge db) :=
  renamenx_spec ctx a b nd

example : (run "rename" ctx0 [[97], [98]] db0).db.live [98] = some ⟨.str [1], some 50000000⟩ ∧
    (run "rename" ctx0 [[97], [98]] db0).db.live [97] = none ∧
    (run "renamenx" ctx0 [[108], [120]] db0).db.live [120] = some ⟨.list [[1], [2]], some 30000000⟩ ∧
    (run "renamenx" ctx0 [[97], [98]] db0).reply = .int 0 :=
  ⟨rfl, rfl, rfl, rfl⟩

/-- MOVE k dst (special command `moveCmd`, run on source database `d` with the applied item of `k`): when `k` is
live in `d` and free in `dst ≠ d`, the reply is 1, the target database receives the WHOLE entry (value and
deadline), no other key of the target changes, the source database is only read, and the returned item
(`value = None`) makes the generic write-back delete the source key. -/
theorem move_rule (s : Sys) (d : Nat) (dst : Int) (cis : List CI) (it : Item)
    (hne : dst.toNat ≠ d) (htr : (ciAt cis 0).truthy = true)
    (hd : d < s.srv.dbs.length) (hdst : dst.toNat < s.srv.dbs.length)
    (nds : NodupKeys (dbAt s d).dict) (ndd : NodupKeys (dbAt s dst.toNat).dict)
    (hsrc : (dbAt s d).live (ciAt cis 0).key = some it)
    (hfree : (dbAt s dst.toNat).live (ciAt cis 0).key = none) :
    let r := moveCmd d [.key 0, .int dst] cis s
    r.1 = .ok (some (.int 1), cis.set 0 ((ciAt cis 0).setValue none)) ∧
    (dbAt r.2 dst.toNat).live (ciAt cis 0).key = some it ∧
    (∀ k', k' ≠ (ciAt cis 0).key → (dbAt r.2 dst.toNat).live k' = (dbAt s dst.toNat).live k') ∧
    Db.purge (dbAt r.2 d) = Db.purge (dbAt s d) ∧
    r.2.srv.time = s.srv.time := move_spec s d dst cis it hne htr hd hdst nds ndd hsrc hfree

/-- the write-back of the item MOVE returns removes the key (any clock, any previous entry) -/
theorem move_source_deleted (t : Int) (c : CI) (cur : Option Item) : wbLive t (c.setValue none) cur = none := by
  simp [wbLive, CI.setValue]

example :
    let s : Sys := { srv := { time := 10000000, dbs := [db0.dict, []] } }
    let cis : List CI := [ciOf none [97] (db0.live [97])]
    (moveCmd 0 [.key 0, .int 1] cis s).1 = .ok (some (.int 1), cis.set 0 ((ciAt cis 0).setValue none)) ∧
    (dbAt (moveCmd 0 [.key 0, .int 1] cis s).2 1).live [97] = some ⟨.str [1], some 50000000⟩ :=
  ⟨rfl, rfl⟩

/-! ## 7. inside MULTI / EXEC -/

/-- EXEC runs its queue with `runInner` (`FR.C05.exec_eq_sequential`), which for every command but EXEC (script
commands included) is `runCommand` (`FR.C05.runInner_eq_runCommand`); for a regular command this is `runRegular` on the
selected database with `ctx.time = db.time`, `ctx.inTx` and `ctx.dbnum` arbitrary — exactly the situation of every
theorem above.  So all rules hold in every database and inside transactions. -/
theorem inside_exec (mode : Mode) (c : Nat) (sig : Sig) (raw : List Bytes) (body : Body)
    (h : Cmd.regular sig.name = some body) (s : Sys) (hps : (s.conn c).pubsub = 0) :
    let o := runRegular sig body (ctxOf s c) none raw (dbAt s (s.conn c).db)
    (runInner mode c sig raw s).1 = some o.reply ∧
    (runInner mode c sig raw s).2.srv.dbs = s.srv.dbs.set (s.conn c).db o.db.dict ∧
    (runInner mode c sig raw s).2.srv.time = s.srv.time ∧
    (ctxOf s c).time = (dbAt s (s.conn c).db).time :=
  let r := runInner_regular mode c sig raw body h s hps
  ⟨r.1, r.2.1, r.2.2, rfl⟩

/-- and outside a transaction the very same function is used -/
theorem outside_exec (mode : Mode) (c : Nat) (sig : Sig) (raw : List Bytes) (hx : sig.name ≠ "exec") :
    runInner mode c sig raw = runCommand mode c sig raw false :=
  FR.C05.runInner_eq_runCommand mode c sig raw hx

/-- instance: TTL queued in a transaction on connection `c` (any selected database) answers by the rule of §1 -/
theorem ttl_inside_exec (mode : Mode) (c : Nat) (k : Bytes) (s : Sys) (hps : (s.conn c).pubsub = 0)
    (nd : NodupKeys (dbAt s (s.conn c).db).dict) (sig : Sig) (hsig : SigTable.find "ttl" = some sig) :
    (runInner mode c sig [k] s).1 = some (ttlAnswer s.srv.time 1 ((dbAt s (s.conn c).db).live k)) := by
  have : sig = _ := (Option.some.inj hsig).symm
  subst this
  rw [(inside_exec mode c _ [k] Cmd.ttl rfl s hps).1]
  exact congrArg some (ttl_spec (ctxOf s c) k nd).1

example : ∃ (s : Sys) (sig : Sig), (s.conn 7).pubsub = 0 ∧ SigTable.find "ttl" = some sig ∧
    NodupKeys (dbAt s (s.conn 7).db).dict ∧ (runInner {} 7 sig [[97]] s).1 = some (.int 4) :=
  ⟨{ srv := { time := 10000000, dbs := [[], db0.dict], conns := [{ id := 7, db := 1, inTx := true }] } }, _, rfl, rfl,
    by decide, rfl⟩

end FR.Props.C07t
