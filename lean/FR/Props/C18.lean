import FR.Proofs.Decimal
/-!
# C18 — argument converters: canonical integers, ranges, float rejection rules
-/
namespace FR
namespace C18

/-- A range-checked integer converter accepts exactly the canonical rendering of an in-range integer. -/
theorem intRange_iff (lo hi : Int) (msg : String) (b : Bytes) (n : Int) :
    Conv.intRange lo hi msg b = .ok n ↔ (b = intBytes n ∧ lo ≤ n ∧ n ≤ hi) := by
  unfold Conv.intRange
  constructor
  · intro h
    split at h
    · rename_i m hm
      split at h
      · rename_i hr
        cases h
        exact ⟨parseCanonInt_canonical hm, hr⟩
      · cases h
    · cases h
  · rintro ⟨rfl, hr⟩
    rw [parseCanonInt_intBytes]
    simp only [hr, and_self, if_true]

/-- every rejection of a range-checked integer converter carries the converter's own message -/
theorem intRange_error (lo hi : Int) (msg : String) (b : Bytes) (e : Err) :
    Conv.intRange lo hi msg b = .error e → e = msg := by
  unfold Conv.intRange
  intro h
  split at h
  · split at h
    · cases h
    · cases h; rfl
  · cases h; rfl

theorem int_decode_iff (b : Bytes) (n : Int) :
    Conv.int b = .ok n ↔ (b = intBytes n ∧ Conv.INT_MIN ≤ n ∧ n ≤ Conv.INT_MAX) :=
  intRange_iff _ _ _ b n

theorem dbIndex_decode_iff (b : Bytes) (n : Int) :
    Conv.dbIndex b = .ok n ↔ (b = intBytes n ∧ 0 ≤ n ∧ n ≤ 15) :=
  intRange_iff _ _ _ b n

theorem bitValue_decode_iff (b : Bytes) (n : Int) :
    Conv.bitValue b = .ok n ↔ (b = intBytes n ∧ 0 ≤ n ∧ n ≤ 1) :=
  intRange_iff _ _ _ b n

theorem bitOffset_decode_iff (b : Bytes) (n : Int) :
    Conv.bitOffset b = .ok n ↔ (b = intBytes n ∧ 0 ≤ n ∧ n ≤ 2 ^ 32 - 1) :=
  intRange_iff 0 Conv.BIT_OFFSET_MAX _ b n

theorem timeout_decode_iff (b : Bytes) (n : Int) :
    Conv.timeout b = .ok n ↔ (b = intBytes n ∧ 0 ≤ n ∧ n ≤ 2 ^ 63 - 1) :=
  intRange_iff 0 Conv.INT_MAX _ b n

theorem encode_guard (n : Int) (b : Bytes) :
    Conv.encodeInt n = .ok b ↔ (Conv.INT_MIN ≤ n ∧ n ≤ Conv.INT_MAX ∧ b = intBytes n) := by
  unfold Conv.encodeInt
  constructor
  · intro h
    split at h
    · rename_i hr
      cases h
      exact ⟨hr.1, hr.2, rfl⟩
    · cases h
  · rintro ⟨h1, h2, rfl⟩
    rw [if_pos ⟨h1, h2⟩]

theorem encode_overflow (n : Int) (h : ¬(Conv.INT_MIN ≤ n ∧ n ≤ Conv.INT_MAX)) :
    Conv.encodeInt n = .error Msgs.OVERFLOW_MSG := by
  unfold Conv.encodeInt
  rw [if_neg h]

theorem decode_encode_roundtrip (n : Int) (h1 : Conv.INT_MIN ≤ n) (h2 : n ≤ Conv.INT_MAX) :
    (Conv.encodeInt n).bind Conv.int = .ok n := by
  rw [(encode_guard n (intBytes n)).mpr ⟨h1, h2, rfl⟩]
  exact (int_decode_iff _ _).mpr ⟨rfl, h1, h2⟩

/-- the other direction: an accepted integer argument re-encodes to the very same bytes -/
theorem encode_decode_roundtrip (b : Bytes) (n : Int) (h : Conv.int b = .ok n) :
    Conv.encodeInt n = .ok b := by
  obtain ⟨rfl, h1, h2⟩ := (int_decode_iff b n).mp h
  exact (encode_guard _ _).mpr ⟨h1, h2, rfl⟩

/-! ## floats -/

theorem floatGen_never_nan (msg : String) (w e m c : Bool) (b : Bytes) (d : Dbl) :
    Conv.floatGen msg w e m c b = .ok d → d.isNaN = false := by
  unfold Conv.floatGen
  intro h
  simp only at h
  repeat' split at h
  all_goals cases h
  all_goals exact Bool.eq_false_iff.mpr ‹_›

theorem floatGen_error (msg : String) (w e m c : Bool) (b : Bytes) (err : Err) :
    Conv.floatGen msg w e m c b = .error err → err = msg := by
  unfold Conv.floatGen
  intro h
  simp only at h
  repeat' split at h
  all_goals first | (cases h; rfl) | cases h

theorem float_never_nan (b : Bytes) (d : Dbl) : Conv.float b = .ok d → d.isNaN = false :=
  floatGen_never_nan _ _ _ _ _ b d

theorem sortFloat_never_nan (b : Bytes) (d : Dbl) : Conv.sortFloat b = .ok d → d.isNaN = false :=
  floatGen_never_nan _ _ _ _ _ b d

theorem scoreTest_never_nan (b : Bytes) (d : Dbl) (excl : Bool) :
    Conv.scoreTest b = .ok (d, excl) → d.isNaN = false := by
  unfold Conv.scoreTest
  intro h
  simp only at h
  split at h
  · rename_i d' hd
    cases h
    exact floatGen_never_nan _ _ _ _ _ _ _ hd
  · cases h

theorem float_rejects_underscore (b : Bytes) (h : b.contains 95 = true) :
    Conv.float b = .error Msgs.INVALID_FLOAT_MSG := by
  unfold Conv.float Conv.floatGen
  simp only [Bool.false_and, Bool.false_eq_true, if_false, h, if_true]
  split
  · rfl
  · split <;> rfl

theorem float_rejects_leading_space (c : UInt8) (rest : Bytes) (h : PyFloat.isSpace c = true) :
    Conv.float (c :: rest) = .error Msgs.INVALID_FLOAT_MSG := by
  unfold Conv.float Conv.floatGen
  simp [h]

theorem float_rejects_trailing_space (b : Bytes) (c : UInt8) (hl : b.getLast? = some c)
    (h : PyFloat.isSpace c = true) :
    Conv.float b = .error Msgs.INVALID_FLOAT_MSG := by
  unfold Conv.float Conv.floatGen
  simp only [Bool.false_and, Bool.false_eq_true, if_false, hl, Option.map_some, Option.getD_some, h,
    if_true]
  split <;> rfl

/-! ## non-vacuity -/

example : Conv.int (strBytes "007") = .error Msgs.INVALID_INT_MSG := by rw [strBytes_eq]; rfl
example : Conv.int (strBytes "-0") = .error Msgs.INVALID_INT_MSG := by rw [strBytes_eq]; rfl
example : Conv.int (strBytes "+1") = .error Msgs.INVALID_INT_MSG := by rw [strBytes_eq]; rfl
example : Conv.int (strBytes " 1") = .error Msgs.INVALID_INT_MSG := by rw [strBytes_eq]; rfl
example : Conv.int (strBytes "1\n") = .error Msgs.INVALID_INT_MSG := by rw [strBytes_eq]; rfl
example : Conv.int (strBytes "") = .error Msgs.INVALID_INT_MSG := by rw [strBytes_eq]; rfl
example : Conv.int (strBytes "-") = .error Msgs.INVALID_INT_MSG := by rw [strBytes_eq]; rfl
example : Conv.int (strBytes "-12") = .ok (-12) := by rw [strBytes_eq]; rfl
example : Conv.int (strBytes "0") = .ok 0 := by rw [strBytes_eq]; rfl
example : Conv.int (strBytes "9223372036854775807") = .ok (2 ^ 63 - 1) := by rw [strBytes_eq]; rfl
example : Conv.int (strBytes "9223372036854775808") = .error Msgs.INVALID_INT_MSG := by
  rw [strBytes_eq]; rfl
example : Conv.int (strBytes "-9223372036854775808") = .ok (-(2 ^ 63)) := by rw [strBytes_eq]; rfl
example : Conv.int (strBytes "-9223372036854775809") = .error Msgs.INVALID_INT_MSG := by
  rw [strBytes_eq]; rfl
example : Conv.dbIndex (strBytes "16") = .error Msgs.INVALID_DB_MSG := by rw [strBytes_eq]; rfl
example : Conv.dbIndex (strBytes "15") = .ok 15 := by rw [strBytes_eq]; rfl
example : Conv.bitValue (strBytes "2") = .error Msgs.INVALID_BIT_VALUE_MSG := by rw [strBytes_eq]; rfl
example : Conv.bitOffset (strBytes "4294967296") = .error Msgs.INVALID_BIT_OFFSET_MSG := by
  rw [strBytes_eq]; rfl
example : Conv.bitOffset (strBytes "4294967295") = .ok 4294967295 := by rw [strBytes_eq]; rfl
example : Conv.timeout (strBytes "-1") = .error Msgs.TIMEOUT_NEGATIVE_MSG := by rw [strBytes_eq]; rfl
example : Conv.encodeInt (2 ^ 63) = .error Msgs.OVERFLOW_MSG := rfl
example : Conv.encodeInt (-5) = .ok (intBytes (-5)) := rfl
example : intBytes (-120) = strBytes "-120" := by
  rw [strBytes_eq]; exact (parseCanonInt_canonical (b := [45, 49, 50, 48]) (n := -120) rfl).symm
example : Conv.float (strBytes "1_0") = .error Msgs.INVALID_FLOAT_MSG :=
  float_rejects_underscore _ (by rw [strBytes_eq]; rfl)
example : Conv.float (strBytes " 1") = .error Msgs.INVALID_FLOAT_MSG := by
  rw [strBytes_eq]; exact float_rejects_leading_space 32 [49] rfl
example : Conv.float (strBytes "1 ") = .error Msgs.INVALID_FLOAT_MSG :=
  float_rejects_trailing_space _ 32 (by rw [strBytes_eq]; rfl) rfl

end C18
end FR
