import FR.Proofs.C04kHist
import FR.Props.C04s
/-!
# C04 after the fix of KF-1 — "never a crash, exactly its replies", without aliveness hypotheses

The code now refuses (P)SUBSCRIBE / (P)UNSUBSCRIBE while a MULTI is open ("ERR Command not allowed inside a
transaction", transaction marked failed, nothing queued).  Before, they were queued and EXEC died on their
`NoResponse` (`AssertionError`, connection dead: known finding KF-1); the C04 theorems carried aliveness hypotheses
to exclude it.  This file proves, over ALL reachable states (`runHistory evs`, any `evs`):

* (a) **`TxClean`** — no transaction queue holds (P)SUBSCRIBE / (P)UNSUBSCRIBE — together with its companions
  `TxNoCtl` (no EXEC / DISCARD / MULTI / WATCH queued) and `TxKnown` (every queued name is in the command table);
  the three form `TxWf`, which holds initially and is preserved by EVERY event (`txWf_step`, `txWf_reachable`).
* (b) from a `TxWf` state **`_process_command` leaves `crashed` alone for every request** — any name, any arguments,
  any mode, EXEC, scripts, blocking pops on both front-ends, and an EXEC whose queue holds script commands (EXEC runs a
  queued EVAL / EVALSHA / SCRIPT with the direct script runner; the former exception `ExecOfScript` and its witness
  `unconditional_no_crash_false` are gone): `processCommand_crashed_unchanged`, `processCommand_never_crashes`,
  `unconditional_no_crash`; and over histories: no connection is ever dead and `crashed` is `none` after every event,
  for histories without a write during an outage (`reachable_alive`) - whether or not the model's `fault` marker is
  set.  A write during an outage sets `crashed := some "ConnectionError"` by design — the client library's own error
  type (`outage_send`).
* (c) the reply count of one request (`reply_count_*`).
* (d) the positive replacement of the KF-1 witness (`subscribe_in_multi_refused`, `exec_after_refusal_aborts`) and the
  chunking theorems of `FR/Props/C04s.lean` with the aliveness hypothesis discharged from reachability.

Vocabulary (defined in `FR/Proofs/C04k.lean`, `C04kExec.lean`, `C04kHist.lean`): `TxClean`, `TxNoCtl`, `TxKnown`, `TxWf`,
`AllAlive s` (no connection record has `dead = true`), `UpFrom s evs` (no `.send` while disconnected), `GoodFrom s evs`
(`UpFrom`, and no event ends with `fault` set), `IsMsg r` (`r` is a `message` / `pmessage` push).  `fault` is the
MODEL's "I could not follow" flag (e.g. a script whose recorded trace cannot be followed), not a crash.
-/
namespace FR.Props.C04k
open FR FR.M FR.C04k FR.ErrSys FR.BufIndep

/-- the table entry of a command name (for the examples) -/
def sigOf' (n : String) : Sig := (SigTable.find n).getD default

/-! ## (a) the queue invariant -/

/-- initially there is no connection, hence no queue -/
theorem txWf_init : TxWf {} := FR.C04k.txWf_init

theorem txClean_init : TxClean {} := txWf_init.clean

/-- **every event preserves the queue invariant** (`.request`, `.send` of arbitrary bytes — connected or not —, wake,
time-out, the asyncio events, open / close / gc, version and connectivity switches) -/
theorem txWf_step (s : Sys) (e : Ev) (h : TxWf s) : TxWf (stepEv s e) := stepEv_txWf s e h

/-- in particular `TxClean` after the event -/
theorem txClean_step (s : Sys) (e : Ev) (h : TxWf s) : TxClean (stepEv s e) := (txWf_step s e h).clean

/-- **in every reachable state** no queue holds (P)SUBSCRIBE / (P)UNSUBSCRIBE, nor EXEC / DISCARD / MULTI / WATCH, and
every queued name is a command of the table -/
theorem txWf_reachable (evs : List Ev) : TxWf (runHistory evs) := runHistory_txWf evs

theorem txClean_reachable (evs : List Ev) : TxClean (runHistory evs) := (txWf_reachable evs).clean
theorem txNoCtl_reachable (evs : List Ev) : TxNoCtl (runHistory evs) := (txWf_reachable evs).noCtl
theorem txKnown_reachable (evs : List Ev) : TxKnown (runHistory evs) := (txWf_reachable evs).known

/-- what `TxClean` says, spelled out -/
theorem txClean_def (s : Sys) :
    TxClean s ↔ ∀ x ∈ s.srv.conns, ∀ q, x.tx = some q → ∀ a ∈ q, a.1 ∉ SigTable.notInMulti := Iff.rfl

/-- non-vacuity: a history that tries — MULTI, GET k, SUBSCRIBE x, PSUBSCRIBE y, UNSUBSCRIBE, SET k v — ends with the
queue `[get k, set k v]`: the three pub/sub commands were refused, the transaction is marked failed -/
def demoA : List Ev :=
  [.open 1, .request {} 1 [strBytes "MULTI"] [1] [], .request {} 1 [strBytes "GET", [107]] [2] [],
   .request {} 1 [strBytes "SUBSCRIBE", [120]] [3] [], .request {} 1 [strBytes "PSUBSCRIBE", [121]] [4] [],
   .request {} 1 [strBytes "UNSUBSCRIBE"] [5] [], .request {} 1 [strBytes "SET", [107], [118]] [6] []]

example : ((runHistory demoA).conn 1).tx = some [("get", [[107]]), ("set", [[107], [118]])] ∧
    ((runHistory demoA).conn 1).txFailed = true ∧ (runHistory demoA).fault = none := by decide +kernel

example : TxClean (runHistory demoA) := txClean_reachable demoA

/-! ## (b) no crash -/

/-- **Exact characterisation.**  One request through `_process_command` from a state with well-formed queues: `crashed`
is left as it was — for every request, an EXEC whose queue holds script commands included. -/
theorem processCommand_crashed_unchanged (mode : Mode) (c : Nat) (fields : List Bytes) (s : Sys) (h : TxWf s) :
    (processCommand mode c fields s).2.crashed = s.crashed :=
  (processCommand_spec mode c fields s h).crashed

/-- **No crash, outright**: any request — any name, arguments, mode; EXEC (of any well-formed queue, script commands
included), scripts, blocking pops — on any connection of a state with well-formed queues and `crashed = none`.
No connection dies either. -/
theorem processCommand_never_crashes (mode : Mode) (c : Nat) (fields : List Bytes) (s : Sys) (h : TxWf s)
    (hcr : s.crashed = none) :
    (processCommand mode c fields s).2.crashed = none ∧
    (AllAlive s → AllAlive (processCommand mode c fields s).2) := by
  have hf := processCommand_spec mode c fields s h
  have : (processCommand mode c fields s).2.crashed = none := hf.crashed.trans hcr
  exact ⟨this, fun ha => hf.alive ha this⟩

/-- the special case of a run the model follows (kept from the time when `processCommand_never_crashes` had an
exclusion; the hypothesis `hff` is not needed any more) -/
theorem processCommand_faultfree_never_crashes (mode : Mode) (c : Nat) (fields : List Bytes) (s : Sys) (h : TxWf s)
    (hcr : s.crashed = none) (_hff : (processCommand mode c fields s).2.fault = none) :
    (processCommand mode c fields s).2.crashed = none ∧
    (AllAlive s → AllAlive (processCommand mode c fields s).2) :=
  processCommand_never_crashes mode c fields s h hcr

/-- the `fault` marker is never cleared by a request, and the queues stay well-formed -/
theorem processCommand_keeps (mode : Mode) (c : Nat) (fields : List Bytes) (s : Sys) (h : TxWf s) :
    TxWf (processCommand mode c fields s).2 ∧
    (s.fault.isSome = true → (processCommand mode c fields s).2.fault.isSome = true) :=
  ⟨(processCommand_spec mode c fields s h).wf, (processCommand_spec mode c fields s h).fault⟩

/-- EXEC in particular: from a reachable state EXEC does not take the `AssertionError` path, whatever was queued -/
theorem exec_never_asserts (evs : List Ev) (mode : Mode) (c : Nat) (fields : List Bytes) (cl : List Int) (pk) :
    (stepEv (runHistory evs) (.request mode c fields cl pk)).crashed = none :=
  (processCommand_never_crashes mode c fields ((runHistory evs).beginEvent.withHints cl pk)
    (txWf_reachable evs) rfl).1

/-- non-vacuity of the three theorems above: `MULTI; SET k v` then EXEC from a reachable state -/
def demoB : List Ev :=
  [.open 1, .request {} 1 [strBytes "MULTI"] [1] [], .request {} 1 [strBytes "SET", [107], [118]] [2] []]

theorem demoB_queue : (((runHistory demoB).beginEvent.withHints [3] []).conn 1).tx = some [("set", [[107], [118]])] := by
  decide +kernel

example : (stepEv (runHistory demoB) (.request {} 1 [strBytes "EXEC"] [3] [])).crashed = none :=
  exec_never_asserts demoB {} 1 _ [3] []

example : (stepEv (runHistory demoB) (.request {} 1 [strBytes "EXEC"] [3] [])).fault = none ∧
    (stepEv (runHistory demoB) (.request {} 1 [strBytes "EXEC"] [3] [])).out.map (fun p => (p.1, p.2.render)) =
      [(1, (Reply.arr [.ok]).render)] := by decide +kernel

example : (processCommand {} 1 [strBytes "EXEC"] ((runHistory demoB).beginEvent.withHints [3] [])).2.crashed = none :=
  (processCommand_faultfree_never_crashes {} 1 [strBytes "EXEC"] ((runHistory demoB).beginEvent.withHints [3] [])
    (txWf_reachable demoB) rfl (by decide +kernel)).1

/-- non-vacuity of `processCommand_never_crashes` / `processCommand_keeps` / the characterisation: the EXEC of `demoB` -/
example : (processCommand {} 1 [strBytes "EXEC"] ((runHistory demoB).beginEvent.withHints [3] [])).2.crashed = none ∧
    (AllAlive ((runHistory demoB).beginEvent.withHints [3] []) →
      AllAlive (processCommand {} 1 [strBytes "EXEC"] ((runHistory demoB).beginEvent.withHints [3] [])).2) :=
  processCommand_never_crashes {} 1 [strBytes "EXEC"] ((runHistory demoB).beginEvent.withHints [3] [])
    (txWf_reachable demoB) rfl

example : TxWf (processCommand {} 1 [strBytes "EXEC"] ((runHistory demoB).beginEvent.withHints [3] [])).2 :=
  (processCommand_keeps {} 1 [strBytes "EXEC"] ((runHistory demoB).beginEvent.withHints [3] [])
    (txWf_reachable demoB)).1

/-- `MULTI; EVAL "return 1" 0` - the history whose EXEC used to be the witness `unconditional_no_crash_false` -/
def demoE : List Ev :=
  [.open 1, .request {} 1 [strBytes "MULTI"] [1] [],
   .request {} 1 [strBytes "EVAL", strBytes "return 1", strBytes "0"] [2] []]

theorem demoE_queue : (((runHistory demoE).beginEvent.withHints [3] []).conn 1).tx =
    some [("eval", [strBytes "return 1", strBytes "0"])] := by decide +kernel

/-- **The unconditional statement holds** (replaces `unconditional_no_crash_false`, the kernel-checked witness that
`MULTI; EVAL "return 1" 0; EXEC` ended with `crashed = some "AssertionError"` while the model did not run queued
script commands): from a state with well-formed queues no request at all crashes. -/
theorem unconditional_no_crash :
    ∀ (s : Sys) (mode : Mode) (c : Nat) (fields : List Bytes), TxWf s → s.crashed = none →
        (processCommand mode c fields s).2.crashed = none :=
  fun s mode c fields h hcr => (processCommand_never_crashes mode c fields s h hcr).1

/-- … in particular the EXEC of the former witness, whatever hints the host supplies (`pk`): `crashed = none` -/
theorem former_witness_no_crash (cl : List Int) (pk : List (List Bytes)) :
    (stepEv (runHistory demoE) (.request {} 1 [strBytes "EXEC"] cl pk)).crashed = none :=
  exec_never_asserts demoE {} 1 _ cl pk

/-- … with the hints of a run of the script (SHA-1, the Lua error it ended in) the model follows it: no `fault`, and
the reply is the one-element array holding the script's error; without hints the replay cannot follow the script and
says so (`fault`) - which is not a crash -/
example :
    (stepEv (runHistory demoE) (.request {} 1 [strBytes "EXEC"] [3] FR.Props.C04s.evalHints)).fault = none ∧
    (stepEv (runHistory demoE) (.request {} 1 [strBytes "EXEC"] [3] FR.Props.C04s.evalHints)).crashed = none ∧
    (stepEv (runHistory demoE) (.request {} 1 [strBytes "EXEC"] [3] FR.Props.C04s.evalHints)).out.map
        (fun p => (p.1, p.2.render)) =
      [(1, (Reply.arr [.err (strBytes (scriptErrorMsg (strBytes "e0e1f9fabfc9d4800c877a703b823ac0578ff8db") "boom"))]).render)] ∧
    (stepEv (runHistory demoE) (.request {} 1 [strBytes "EXEC"] [3] [])).fault = some "eval: sha hint missing" ∧
    (stepEv (runHistory demoE) (.request {} 1 [strBytes "EXEC"] [3] [])).crashed = none := by decide +kernel

/-! ### events and histories -/

/-- **One event from a healthy state** (queues well-formed, no dead connection) that is not a write during an
outage: the queues stay well-formed, `crashed = none` afterwards and no connection is dead - whether or not the model
has flagged the run (`fault`).  For `.send` this covers the outage check, the parser loop over arbitrary bytes and every
complete request in them; for the asyncio events the resumed parser loop as well. -/
theorem event_never_crashes (s : Sys) (e : Ev) (h : TxWf s) (ha : AllAlive s) (hup : e.up s) :
    (stepEv s e).crashed = none ∧ AllAlive (stepEv s e) ∧ TxWf (stepEv s e) := by
  have hk := stepEv_K s e h ha hup
  obtain ⟨h1, h2⟩ := hk.healthy
  exact ⟨h1, h2, hk.1⟩

/-- the `.send` event, spelled out: server connected, connection `c` (like every other) not dead -/
theorem send_never_crashes (s : Sys) (mode : Mode) (c : Nat) (data : Bytes) (cl : List Int) (pk : List (List Bytes))
    (h : TxWf s) (ha : AllAlive s) (hup : s.srv.connected = true) :
    (stepEv s (.send mode c data cl pk)).crashed = none ∧
    ((stepEv s (.send mode c data cl pk)).conn c).dead = false ∧ AllAlive (stepEv s (.send mode c data cl pk)) := by
  obtain ⟨h1, h2, _⟩ := event_never_crashes s (.send mode c data cl pk) h ha hup
  exact ⟨h1, h2.conn c, h2⟩

/-- a write while the server is marked disconnected raises the client library's `ConnectionError` — by design — and
does nothing else: no byte is buffered, no request processed, no connection dies -/
theorem outage_send (s : Sys) (mode : Mode) (c : Nat) (data : Bytes) (cl : List Int) (pk : List (List Bytes))
    (hdown : s.srv.connected = false) :
    stepEv s (.send mode c data cl pk) =
      { (s.beginEvent.withHints cl pk) with crashed := some "ConnectionError" } := by
  show (sendallGuarded mode c data (s.beginEvent.withHints cl pk)).2 = _
  rw [sendallGuarded_run_down mode c data (s.beginEvent.withHints cl pk) hdown]

/-- **Over histories.**  For every history without a write during an outage (`UpFrom`; the model need not follow it:
`fault` may be set on the way): in the state it reaches no connection is dead, the queues are well-formed, and (if the
history is not empty) the last event left `crashed = none`. -/
theorem reachable_alive (evs : List Ev) (hg : UpFrom {} evs) :
    AllAlive (runHistory evs) ∧ TxWf (runHistory evs) ∧ (evs ≠ [] → (runHistory evs).crashed = none) := by
  have := foldl_alive_up evs {} txWf_init (fun x hx => by cases hx) hg
  exact ⟨this.1, txWf_reachable evs, this.2⟩

/-- the other conjunct of the former `reachable_alive`: a history the model follows (`GoodFrom`) ends with
`fault = none` (by the definition of `GoodFrom`) - and with everything `reachable_alive` says -/
theorem reachable_alive_followed (evs : List Ev) (hg : GoodFrom {} evs) :
    AllAlive (runHistory evs) ∧ TxWf (runHistory evs) ∧
    (evs ≠ [] → (runHistory evs).crashed = none ∧ (runHistory evs).fault = none) := by
  have := foldl_alive evs {} txWf_init (fun x hx => by cases hx) hg
  exact ⟨this.1, txWf_reachable evs, this.2⟩

/-- … and every connection read off such a state is usable: `dead = false` -/
theorem reachable_conn_alive (evs : List Ev) (hg : UpFrom {} evs) (c : Nat) : ((runHistory evs).conn c).dead = false :=
  (reachable_alive evs hg).1.conn c

/-- non-vacuity of `event_never_crashes` / `send_never_crashes`: the former KF-1 stream written to a fresh connection -/
example : (stepEv (runHistory [.open 1]) (.send {} 1 FR.Props.C04s.multiSubExec [1, 2, 3] [])).crashed = none ∧
    ((stepEv (runHistory [.open 1]) (.send {} 1 FR.Props.C04s.multiSubExec [1, 2, 3] [])).conn 1).dead = false ∧
    AllAlive (stepEv (runHistory [.open 1]) (.send {} 1 FR.Props.C04s.multiSubExec [1, 2, 3] [])) :=
  send_never_crashes (runHistory [.open 1]) {} 1 _ [1, 2, 3] [] (txWf_reachable _)
    (reachable_alive [.open 1] (by decide +kernel)).1 (by decide +kernel)

example : (stepEv (runHistory [.open 1]) (.request {} 1 [strBytes "PING"] [1] [])).crashed = none :=
  (event_never_crashes (runHistory [.open 1]) (.request {} 1 [strBytes "PING"] [1] []) (txWf_reachable _)
    (reachable_alive [.open 1] (by decide +kernel)).1 trivial).1

/-- non-vacuity: the former KF-1 history, sent over the wire, followed by a PING -/
def demoC : List Ev :=
  [.open 1, .send {} 1 FR.Props.C04s.multiSubExec [1, 2, 3] [], .send {} 1 FR.Props.C04s.ping [4] []]

example : GoodFrom {} demoC := by decide +kernel
example : UpFrom {} demoC := by decide +kernel

example : ((runHistory demoC).conn 1).dead = false := reachable_conn_alive demoC (by decide +kernel) 1

example : (runHistory demoC).out.map (fun p => (p.1, p.2.render)) = [(1, Reply.pong.render)] := by decide +kernel

/-- non-vacuity of `outage_send`: the server goes down, a PING is written -/
example : (stepEv (runHistory [.open 1, .conn false]) (.send {} 1 FR.Props.C04s.ping [1] [])).crashed =
    some "ConnectionError" := by
  rw [outage_send _ _ _ _ _ _ (by decide +kernel)]

/-! ## (c) the reply count of one request

`out` is the list of emitted replies `(connection, reply)`, newest first.  The request is processed on connection `c`,
which is open (`closed = false`; a closed socket's replies are dropped by `emit`).  "Exactly one" is stated as
`out' = (c, r) :: D ++ out` where `D` are the pub/sub messages (`IsMsg`: `message` / `pmessage` pushes, to whatever
connection — possibly `c` itself, when it publishes on a channel it listens to) delivered while the command ran; the
command's own reply is the newest entry. -/

/-- the empty request is ignored: no reply -/
theorem reply_count_empty (mode : Mode) (c : Nat) (s : Sys) : processCommand mode c [] s = ((), s) := rfl

theorem out_emitS_open {s : Sys} {c : Nat} (r : Reply) (h : (s.conn c).closed = false) :
    (s.emitS c r).out = (c, r) :: s.out := by
  rw [Sys.emitS_out, h]; rfl

theorem closed_updConn (s : Sys) (c : Nat) (f : Conn → Conn) (hid : ∀ x, (f x).id = x.id)
    (hf : ∀ x, (f x).closed = x.closed) : ((s.updConn c f).conn c).closed = (s.conn c).closed :=
  Sys.conn_updConn_proj s c c f Conn.closed hid hf

theorem prologue_closed (s : Sys) (c : Nat) : (s.prologue.conn c).closed = (s.conn c).closed :=
  (small_prologue s).conns.closed c

/-- unknown command (any bytes as name, any arguments, inside or outside MULTI): exactly one reply, the error -/
theorem reply_count_unknown (mode : Mode) (c : Nat) (nameB : Bytes) (args : List Bytes) (s : Sys)
    (hl : lookupSig nameB = none) (hcl : (s.conn c).closed = false) :
    (processCommand mode c (nameB :: args) s).2.out = (c, .err (strBytes unknownCommandPrefix)) :: s.out := by
  rw [pc_unknown mode c nameB args s hl]
  split
  · rw [out_emitS_open _ (by refine (closed_updConn _ c _ ?_ ?_).trans (hcl) <;> exact fun _ => rfl)]; rfl
  · rw [out_emitS_open _ hcl]

/-- wrong number of arguments (any command, EXEC included, inside or outside MULTI): exactly one reply, an error -/
theorem reply_count_arity (mode : Mode) (c : Nat) (nameB : Bytes) (args : List Bytes) (s : Sys) {sig : Sig}
    (hl : lookupSig nameB = some sig) (ha : sig.checkArity args.length = false) (hcl : (s.conn c).closed = false) :
    ∃ e, (processCommand mode c (nameB :: args) s).2.out = (c, .err e) :: s.out := by
  have hpc := (prologue_closed s c).trans hcl
  by_cases hex : sig.name = "exec"
  · rw [pc_arity_exec mode c nameB args s hl ha hex,
      out_emitS_open _ (by refine (closed_updConn _ c _ ?_ ?_).trans (hpc) <;> exact fun _ => rfl)]
    exact ⟨_, by rw [Sys.updConn_out, prologue_out]⟩
  · rw [pc_arity mode c nameB args s hl ha hex]
    split
    · rw [out_emitS_open _ (by refine (closed_updConn _ c _ ?_ ?_).trans (hpc) <;> exact fun _ => rfl)]
      exact ⟨_, by rw [Sys.updConn_out, prologue_out]⟩
    · rw [out_emitS_open _ hpc]
      exact ⟨_, by rw [prologue_out]⟩

/-- a command queued inside MULTI: exactly one reply, `QUEUED` -/
theorem reply_count_queued (mode : Mode) (c : Nat) (nameB : Bytes) (args : List Bytes) (s : Sys) {sig : Sig}
    (hl : lookupSig nameB = some sig) (ha : sig.checkArity args.length = true)
    (hq : ((s.conn c).tx.isSome && !SigTable.notQueued.contains sig.name) = true)
    (hnm : SigTable.notInMulti.contains sig.name = false) (hcl : (s.conn c).closed = false) :
    (processCommand mode c (nameB :: args) s).2.out = (c, .queued) :: s.out := by
  rw [pc_queued mode c nameB args s hl ha hq hnm,
    out_emitS_open _ (by refine (closed_updConn _ c _ ?_ ?_).trans ((prologue_closed s c).trans hcl) <;> exact fun _ => rfl),
    Sys.updConn_out, prologue_out]

/-- (P)SUBSCRIBE / (P)UNSUBSCRIBE inside MULTI: exactly one reply, the refusal (whatever the number of channels) -/
theorem reply_count_refused (mode : Mode) (c : Nat) (nameB : Bytes) (args : List Bytes) (s : Sys) {sig : Sig}
    (hl : lookupSig nameB = some sig) (ha : sig.checkArity args.length = true)
    (hq : ((s.conn c).tx.isSome && !SigTable.notQueued.contains sig.name) = true)
    (hnm : SigTable.notInMulti.contains sig.name = true) (hcl : (s.conn c).closed = false) :
    (processCommand mode c (nameB :: args) s).2.out = (c, .err (strBytes Msgs.COMMAND_IN_MULTI_MSG)) :: s.out := by
  rw [pc_refused mode c nameB args s hl ha hq hnm,
    out_emitS_open _ (by refine (closed_updConn _ c _ ?_ ?_).trans ((prologue_closed s c).trans hcl) <;> exact fun _ => rfl),
    Sys.updConn_out, prologue_out]

theorem finish_out (c : Nat) (s : Sys) : (PubSubHist.finish c s).out = s.out := by
  unfold PubSubHist.finish; split <;> rfl

/-- (P)SUBSCRIBE outside MULTI: one acknowledgement per channel / pattern argument, all to `c` -/
theorem reply_count_subscribe (mode : Mode) (c : Nat) (nameB : Bytes) (args : List Bytes) (s : Sys) (p : Bool)
    (hname : commandName nameB = some (if p then "psubscribe" else "subscribe")) (hargs : args ≠ [])
    (htx : (s.conn c).tx = none) (hcl : (s.conn c).closed = false) :
    ∃ acks : List (Nat × Reply), (processCommand mode c (nameB :: args) s).2.out = acks ++ s.out ∧
      acks.length = args.length ∧ ∀ a ∈ acks, a.1 = c := by
  rw [PubSubHist.process_subscribe mode c nameB args s p hname hargs htx]
  obtain ⟨acks, h1, h2, h3⟩ := subscribeGen_out c p args (PubSubHist.prep s)
    (by rw [PubSubHist.prep_closed]; exact hcl)
  exact ⟨acks, by rw [finish_out, h1, PubSubHist.prep_out], h2, h3⟩

/-- (P)UNSUBSCRIBE outside MULTI: one acknowledgement per argument; without arguments one per current subscription of
that kind (after the clean-up of closed sockets), and one if there is none -/
theorem reply_count_unsubscribe (mode : Mode) (c : Nat) (nameB : Bytes) (args : List Bytes) (s : Sys) (p : Bool)
    (hname : commandName nameB = some (if p then "punsubscribe" else "unsubscribe"))
    (htx : (s.conn c).tx = none) (hcl : (s.conn c).closed = false) :
    ∃ acks : List (Nat × Reply), (processCommand mode c (nameB :: args) s).2.out = acks ++ s.out ∧
      acks.length = (if args = [] then max 1 ((PubSubHist.prep s).subscribedNames c p).length else args.length) ∧
      ∀ a ∈ acks, a.1 = c := by
  rw [PubSubHist.process_unsubscribe mode c nameB args s p hname htx]
  obtain ⟨acks, h1, h2, h3⟩ := unsubscribeGen_out c p args (PubSubHist.prep s)
    (by rw [PubSubHist.prep_closed]; exact hcl)
  exact ⟨acks, by rw [finish_out, h1, PubSubHist.prep_out], h2, h3⟩

/-- **every other command, run at once** (outside MULTI, or EXEC / DISCARD / MULTI / WATCH inside): regular commands,
the special ones, scripts, EXEC (of any well-formed queue, script commands included) — not (P)SUBSCRIBE /
(P)UNSUBSCRIBE, not a blocking pop — from a state with well-formed queues: **exactly one reply** to `c`, on top of the
pub/sub messages delivered meanwhile -/
theorem reply_count_run (mode : Mode) (c : Nat) (nameB : Bytes) (args : List Bytes) (s : Sys) (hwf : TxWf s)
    (hcl : (s.conn c).closed = false) {sig : Sig} (hl : lookupSig nameB = some sig)
    (ha : sig.checkArity args.length = true)
    (hq : ((s.conn c).tx.isSome && !SigTable.notQueued.contains sig.name) = false)
    (hsub : sig.name ∉ SigTable.notInMulti) (hb : sig.name ∉ blockingNames) :
    ∃ r D, (processCommand mode c (nameB :: args) s).2.out = (c, r) :: D ++ s.out ∧ ∀ p ∈ D, IsMsg p.2 := by
  rcases processCommand_reply mode c nameB args s hwf hcl hl ha hq hsub with h | ⟨h, _⟩
  · exact h
  · exact absurd h hb

/-- a blocking pop (BLPOP / BRPOP / BRPOPLPUSH, either front-end, parking or not), run at once: **at most one** reply —
one when it is served or gives up at once, none when it parks (the later wake-up / time-out event answers).
`_partial`: the theorem does not say WHICH of the two happens (it would need the specification of `_blocking`:
none iff `mode.park` / `mode.async` is set, no key holds a list and the command is not run by EXEC). -/
theorem reply_count_blocking_partial (mode : Mode) (c : Nat) (nameB : Bytes) (args : List Bytes) (s : Sys)
    (hwf : TxWf s) (hcl : (s.conn c).closed = false) {sig : Sig} (hl : lookupSig nameB = some sig)
    (ha : sig.checkArity args.length = true)
    (hq : ((s.conn c).tx.isSome && !SigTable.notQueued.contains sig.name) = false)
    (hb : sig.name ∈ blockingNames) :
    ∃ D, (∀ p ∈ D, IsMsg p.2) ∧
      ((processCommand mode c (nameB :: args) s).2.out = D ++ s.out ∨
       ∃ r, (processCommand mode c (nameB :: args) s).2.out = (c, r) :: D ++ s.out) := by
  have hsub : sig.name ∉ SigTable.notInMulti := by
    intro h
    have : ∀ n ∈ blockingNames, n ∉ SigTable.notInMulti := by decide
    exact this _ hb h
  rcases processCommand_reply mode c nameB args s hwf hcl hl ha hq hsub with ⟨r, D, h1, h2⟩ | ⟨_, D, h1, h2⟩
  · exact ⟨D, h2, .inr ⟨r, h1⟩⟩
  · exact ⟨D, h2, .inl h1⟩

/-! ### non-vacuity of (c) -/

/-- the table entry of a command name -/
def sigOf (n : String) : Sig := (SigTable.find n).getD default

/-- one open connection; one open connection inside MULTI -/
def sIdle : Sys := (runHistory [.open 1]).beginEvent.withHints [5] []
def sMulti : Sys := (runHistory [.open 1, .request {} 1 [strBytes "MULTI"] [1] []]).beginEvent.withHints [5] []

theorem sIdle_wf : TxWf sIdle := txWf_reachable [.open 1]
theorem sMulti_wf : TxWf sMulti := txWf_reachable [.open 1, .request {} 1 [strBytes "MULTI"] [1] []]

example : (processCommand {} 1 [strBytes "nosuch", [1], [2]] sIdle).2.out =
    (1, .err (strBytes unknownCommandPrefix)) :: sIdle.out :=
  reply_count_unknown {} 1 _ _ sIdle (by decide +kernel) (by decide +kernel)

example : ∃ e, (processCommand {} 1 [strBytes "GET"] sIdle).2.out = (1, .err e) :: sIdle.out :=
  reply_count_arity {} 1 _ _ sIdle (sig := sigOf "get") (by decide +kernel) (by decide +kernel) (by decide +kernel)

example : (processCommand {} 1 [strBytes "GET", [107]] sMulti).2.out = (1, .queued) :: sMulti.out :=
  reply_count_queued {} 1 _ _ sMulti (sig := sigOf "get") (by decide +kernel) (by decide +kernel) (by decide +kernel)
    (by decide +kernel) (by decide +kernel)

example : (processCommand {} 1 [strBytes "SUBSCRIBE", [120], [121], [122]] sMulti).2.out =
    (1, .err (strBytes Msgs.COMMAND_IN_MULTI_MSG)) :: sMulti.out :=
  reply_count_refused {} 1 _ _ sMulti (sig := sigOf "subscribe") (by decide +kernel) (by decide +kernel)
    (by decide +kernel) (by decide +kernel) (by decide +kernel)

example : ∃ acks : List (Nat × Reply),
    (processCommand {} 1 [strBytes "SUBSCRIBE", [120], [121], [122]] sIdle).2.out = acks ++ sIdle.out ∧
      acks.length = 3 ∧ ∀ a ∈ acks, a.1 = 1 :=
  reply_count_subscribe {} 1 _ _ sIdle false (by decide +kernel) (by simp) (by decide +kernel) (by decide +kernel)

/-- UNSUBSCRIBE without arguments on a connection subscribed to nothing: one acknowledgement -/
example : ∃ acks : List (Nat × Reply),
    (processCommand {} 1 [strBytes "UNSUBSCRIBE"] sIdle).2.out = acks ++ sIdle.out ∧ acks.length = 1 ∧
      ∀ a ∈ acks, a.1 = 1 := by
  obtain ⟨acks, h1, h2, h3⟩ := reply_count_unsubscribe {} 1 (strBytes "UNSUBSCRIBE") [] sIdle false
    (by decide +kernel) (by decide +kernel) (by decide +kernel)
  refine ⟨acks, h1, ?_, h3⟩
  rw [h2]; decide +kernel

theorem look_ping : lookupSig (strBytes "PING") = some (sigOf "ping") := by decide +kernel

example : ∃ r D, (processCommand {} 1 [strBytes "PING"] sIdle).2.out = (1, r) :: D ++ sIdle.out ∧ ∀ p ∈ D, IsMsg p.2 := by
  exact reply_count_run {} 1 _ _ sIdle sIdle_wf (by decide +kernel) look_ping (by decide +kernel)
    (by decide +kernel) (by decide +kernel) (by decide +kernel)

example : ∃ D, (∀ p ∈ D, IsMsg p.2) ∧
    ((processCommand {} 1 [strBytes "BLPOP", [107], [48]] sIdle).2.out = D ++ sIdle.out ∨
     ∃ r, (processCommand {} 1 [strBytes "BLPOP", [107], [48]] sIdle).2.out = (1, r) :: D ++ sIdle.out) :=
  reply_count_blocking_partial {} 1 _ _ sIdle sIdle_wf (by decide +kernel) (sig := sigOf "blpop") (by decide +kernel)
    (by decide +kernel) (by decide +kernel) (by decide +kernel)

/-- both outcomes of a blocking pop occur: answered at once (plain harness), parked (scheduler harness) -/
example : (processCommand {} 1 [strBytes "BLPOP", [107], [48]] sIdle).2.out.length = 1 ∧
    (processCommand { park := true } 1 [strBytes "BLPOP", [107], [48]] sIdle).2.out.length = 0 ∧
    ((processCommand { park := true } 1 [strBytes "BLPOP", [107], [48]] sIdle).2.conn 1).parked.isSome = true := by
  decide +kernel

/-! ## (d) the positive replacement of the KF-1 witness -/

/-- **(P)SUBSCRIBE / (P)UNSUBSCRIBE inside MULTI: refused.**  For each of the four commands (any spelling of the name,
any arguments of acceptable number) sent while a MULTI is open on `c`: the event is exactly the clean-up / clock
refresh that precedes every known command, `txFailed := true`, and the one reply
`ERR Command not allowed inside a transaction`.  The queue is as it was, nothing is subscribed or unsubscribed, no
database is touched, `crashed` is untouched. -/
theorem subscribe_in_multi_refused (mode : Mode) (c : Nat) (nameB : Bytes) (args : List Bytes) (s : Sys)
    {sig : Sig} {q : List (String × List Bytes)} (hl : lookupSig nameB = some sig)
    (hsub : sig.name ∈ SigTable.notInMulti) (ha : sig.checkArity args.length = true)
    (htx : (s.conn c).tx = some q) :
    processCommand mode c (nameB :: args) s =
      ((), (s.prologue.updConn c markTxFailed).emitS c (.err (strBytes Msgs.COMMAND_IN_MULTI_MSG))) ∧
    ((processCommand mode c (nameB :: args) s).2.conn c).tx = some q ∧
    ((processCommand mode c (nameB :: args) s).2.conn c).txFailed = true ∧
    ((processCommand mode c (nameB :: args) s).2.conn c).pubsub = (s.conn c).pubsub ∧
    (processCommand mode c (nameB :: args) s).2.srv.subs = s.prologue.srv.subs ∧
    (processCommand mode c (nameB :: args) s).2.srv.psubs = s.prologue.srv.psubs ∧
    (processCommand mode c (nameB :: args) s).2.srv.dbs = s.srv.dbs ∧
    (processCommand mode c (nameB :: args) s).2.crashed = s.crashed ∧
    ((s.conn c).closed = false →
      (processCommand mode c (nameB :: args) s).2.out = (c, .err (strBytes Msgs.COMMAND_IN_MULTI_MSG)) :: s.out) := by
  have hnq : SigTable.notQueued.contains sig.name = false := by
    have : ∀ n ∈ SigTable.notInMulti, SigTable.notQueued.contains n = false := by decide
    exact this _ hsub
  have hq : ((s.conn c).tx.isSome && !SigTable.notQueued.contains sig.name) = true := by rw [htx, hnq]; rfl
  have hnm : SigTable.notInMulti.contains sig.name = true := by simpa using hsub
  have hst := pc_refused mode c nameB args s hl ha hq hnm
  have hc : s.HasConn c := Sys.hasConn_of_tx (by rw [htx]; rfl)
  have hcp : s.prologue.HasConn c := ((small_prologue s).conns.hasConn c).2 hc
  have hconn : ((processCommand mode c (nameB :: args) s).2.conn c) = markTxFailed (s.prologue.conn c) := by
    rw [hst, Sys.emitS_conn, Sys.conn_updConn_same markTxFailed hcp (fun _ => rfl)]
  have hps : (s.prologue.conn c).pubsub = (s.conn c).pubsub := PubSubHist.prep_pubsub s c
  refine ⟨Prod.ext rfl hst, ?_, ?_, ?_, ?_, ?_, ?_, ?_, ?_⟩
  · rw [hconn]; exact (prologue_tx s c).trans htx
  · rw [hconn]; rfl
  · rw [hconn]; exact hps
  · rw [hst, Sys.emitS_srv]; rfl
  · rw [hst, Sys.emitS_srv]; rfl
  · rw [hst, Sys.emitS_srv, Sys.updConn_dbs, prologue_dbs]
  · rw [hst, emitS_crashed']; exact (small_prologue s).crashed
  · intro hcl
    exact reply_count_refused mode c nameB args s hl ha hq hnm hcl

/-- the four commands by name: SUBSCRIBE / PSUBSCRIBE with at least one argument, UNSUBSCRIBE / PUNSUBSCRIBE with any
number -/
theorem subscribe_in_multi_refused_names (mode : Mode) (c : Nat) (nameB : Bytes) (args : List Bytes) (s : Sys)
    {n : String} {q : List (String × List Bytes)} (hname : commandName nameB = some n)
    (hn : n ∈ SigTable.notInMulti) (hargs : n = "subscribe" ∨ n = "psubscribe" → args ≠ [])
    (htx : (s.conn c).tx = some q) :
    processCommand mode c (nameB :: args) s =
      ((), (s.prologue.updConn c markTxFailed).emitS c (.err (strBytes Msgs.COMMAND_IN_MULTI_MSG))) := by
  simp only [SigTable.notInMulti, List.mem_cons, List.not_mem_nil, or_false] at hn
  have hne : ∀ (as : List Bytes), as ≠ [] → (!as.isEmpty) = true := by intro as h; cases as <;> simp_all
  rcases hn with rfl | rfl | rfl | rfl
  · exact (subscribe_in_multi_refused mode c nameB args s (sig := PubSubHist.sigSubscribe false)
      (by rw [PubSubHist.lookupSig_of_name _ _ hname (by decide +kernel)]; exact PubSubHist.find_subscribe false)
      (by decide) (by rw [PubSubHist.arity_subscribe]; exact hne _ (hargs (.inl rfl))) htx).1
  · exact (subscribe_in_multi_refused mode c nameB args s (sig := PubSubHist.sigSubscribe true)
      (by rw [PubSubHist.lookupSig_of_name _ _ hname (by decide +kernel)]; exact PubSubHist.find_subscribe true)
      (by decide) (by rw [PubSubHist.arity_subscribe]; exact hne _ (hargs (.inr rfl))) htx).1
  · exact (subscribe_in_multi_refused mode c nameB args s (sig := PubSubHist.sigUnsubscribe false)
      (by rw [PubSubHist.lookupSig_of_name _ _ hname (by decide +kernel)]; exact PubSubHist.find_unsubscribe false)
      (by decide) (PubSubHist.arity_unsubscribe false args) htx).1
  · exact (subscribe_in_multi_refused mode c nameB args s (sig := PubSubHist.sigUnsubscribe true)
      (by rw [PubSubHist.lookupSig_of_name _ _ hname (by decide +kernel)]; exact PubSubHist.find_unsubscribe true)
      (by decide) (PubSubHist.arity_unsubscribe true args) htx).1

/-- non-vacuity, all four, with their replies -/
example :
    (processCommand {} 1 [strBytes "SUBSCRIBE", [120]] sMulti).2.out.map (fun p => (p.1, p.2.render)) =
      [(1, (Reply.err (strBytes Msgs.COMMAND_IN_MULTI_MSG)).render)] ∧
    (processCommand {} 1 [strBytes "pSubscribe", [120], [121]] sMulti).2.out.map (fun p => (p.1, p.2.render)) =
      [(1, (Reply.err (strBytes Msgs.COMMAND_IN_MULTI_MSG)).render)] ∧
    (processCommand {} 1 [strBytes "UNSUBSCRIBE"] sMulti).2.out.map (fun p => (p.1, p.2.render)) =
      [(1, (Reply.err (strBytes Msgs.COMMAND_IN_MULTI_MSG)).render)] ∧
    (processCommand {} 1 [strBytes "PUNSUBSCRIBE", [42]] sMulti).2.out.map (fun p => (p.1, p.2.render)) =
      [(1, (Reply.err (strBytes Msgs.COMMAND_IN_MULTI_MSG)).render)] ∧
    ((processCommand {} 1 [strBytes "SUBSCRIBE", [120]] sMulti).2.conn 1).tx = some [] ∧
    ((processCommand {} 1 [strBytes "SUBSCRIBE", [120]] sMulti).2.conn 1).txFailed = true ∧
    (processCommand {} 1 [strBytes "SUBSCRIBE", [120]] sMulti).2.srv.subs = [] := by decide +kernel

example : processCommand {} 1 [strBytes "SUBSCRIBE", [120]] sMulti =
    ((), (sMulti.prologue.updConn 1 markTxFailed).emitS 1 (.err (strBytes Msgs.COMMAND_IN_MULTI_MSG))) :=
  subscribe_in_multi_refused_names {} 1 _ _ sMulti (n := "subscribe") (q := []) (by decide +kernel) (by decide)
    (fun _ => by simp) (by decide +kernel)

/-- **The EXEC that follows answers EXECABORT, executes nothing, and leaves the connection in normal mode.**
`s1` is the state after the refusal; the EXEC event on it is exactly: clean-up / clock refresh, the transaction dropped,
the watches cleared, the reply `EXECABORT Transaction discarded because of previous errors.` — no queued command runs,
no database is touched. -/
theorem exec_after_refusal_aborts (mode mode' : Mode) (c : Nat) (nameB execB : Bytes) (args : List Bytes) (s : Sys)
    {sig : Sig} {q : List (String × List Bytes)} (hl : lookupSig nameB = some sig)
    (hsub : sig.name ∈ SigTable.notInMulti) (ha : sig.checkArity args.length = true)
    (htx : (s.conn c).tx = some q) (hps : (s.conn c).pubsub = 0) (hexec : commandName execB = some "exec") :
    let s1 := (processCommand mode c (nameB :: args) s).2
    let s2 := (processCommand mode' c [execB] s1).2
    s2 = PubSubHist.finish c ((((PubSubHist.prep s1).updConn c fun x => { x with tx := none }).updConn c
        fun x => { x with watchNotified := false, watches := [] }).emitS c (.err (strBytes Msgs.EXECABORT_MSG))) ∧
    Conn.normal (s2.conn c) ∧ s2.srv.dbs = s.srv.dbs ∧ s2.crashed = s.crashed ∧
    ((s.conn c).closed = false → s2.out = (c, .err (strBytes Msgs.EXECABORT_MSG)) :: s1.out) := by
  intro s1 s2
  obtain ⟨h1eq, h1tx, h1f, h1ps, _, _, h1dbs, h1cr, _⟩ :=
    subscribe_in_multi_refused mode c nameB args s hl hsub ha htx
  have hst : s2 = _ := congrArg Prod.snd
    (process_exec_failed mode' c execB s1 q hexec h1tx h1f (h1ps.trans hps))
  have hc1 : s1.HasConn c := Sys.hasConn_of_tx (by rw [h1tx]; rfl)
  have hcp : (PubSubHist.prep s1).HasConn c := ((small_prologue s1).conns.hasConn c).2 hc1
  have hcp2 : ((PubSubHist.prep s1).updConn c fun x => { x with tx := none }).HasConn c := by
    refine (Sys.hasConn_updConn _ ?_).2 hcp
    exact fun _ => rfl
  -- the record of `c` in the state before `finish`
  have key : (((((PubSubHist.prep s1).updConn c fun x => { x with tx := none }).updConn c
      fun x => { x with watchNotified := false, watches := [] }).emitS c
        (.err (strBytes Msgs.EXECABORT_MSG))).conn c) =
      { ({ (PubSubHist.prep s1).conn c with tx := none } : Conn) with watchNotified := false, watches := [] } := by
    rw [Sys.emitS_conn, Sys.conn_updConn_same (fun x => { x with watchNotified := false, watches := [] }) hcp2
      (fun _ => rfl), Sys.conn_updConn_same (fun x => { x with tx := none }) hcp (fun _ => rfl)]
  have hrec : ∀ {β} (p : Conn → β), (∀ x, p { x with dead := true } = p x) →
      p (s2.conn c) = p ({ ({ (PubSubHist.prep s1).conn c with tx := none } : Conn) with
        watchNotified := false, watches := [] }) := by
    intro β p hp
    rw [hst]
    unfold PubSubHist.finish
    split
    · rw [Sys.conn_updConn_proj _ c c (fun x => { x with dead := true }) p (fun _ => rfl) hp, key]
    · rw [key]
  have hfin : ∀ t : Sys, (PubSubHist.finish c t).srv.dbs = t.srv.dbs ∧ (PubSubHist.finish c t).crashed = t.crashed := by
    intro t; unfold PubSubHist.finish; split <;> exact ⟨rfl, rfl⟩
  have hdbs : s2.srv.dbs = s.srv.dbs := by
    rw [hst, (hfin _).1, Sys.emitS_srv, Sys.updConn_dbs, Sys.updConn_dbs]
    exact (prologue_dbs s1).trans h1dbs
  have hcr : s2.crashed = s.crashed := by
    rw [hst, (hfin _).2, emitS_crashed']
    exact (small_prologue s1).crashed.trans h1cr
  refine ⟨hst, ⟨hrec Conn.tx (fun _ => rfl), hrec Conn.watches (fun _ => rfl),
    hrec Conn.watchNotified (fun _ => rfl)⟩, hdbs, hcr, ?_⟩
  intro hcl
  have hs1 : s1 = (s.prologue.updConn c markTxFailed).emitS c (.err (strBytes Msgs.COMMAND_IN_MULTI_MSG)) :=
    congrArg Prod.snd h1eq
  have hcl1 : (s1.conn c).closed = false := by
    rw [hs1, Sys.emitS_conn]
    refine (closed_updConn _ c _ ?_ ?_).trans ((prologue_closed s c).trans hcl) <;> exact fun _ => rfl
  rw [hst, finish_out, out_emitS_open]
  · rw [Sys.updConn_out, Sys.updConn_out, PubSubHist.prep_out]
  · refine (closed_updConn _ c _ ?_ ?_).trans ((closed_updConn _ c _ ?_ ?_).trans
      ((PubSubHist.prep_closed s1 c).trans hcl1)) <;> exact fun _ => rfl

/-- non-vacuity: `MULTI; SET k v` (queued), `SUBSCRIBE x` (refused), `EXEC`: EXECABORT, `k` was never set, the
connection is in normal mode again and answers a following GET -/
def sR1 : Sys := (processCommand {} 1 [strBytes "SUBSCRIBE", [120]] ((runHistory demoB).beginEvent.withHints [3] [])).2
def sR2 : Sys := (processCommand {} 1 [strBytes "EXEC"] (sR1.withHints [4] [])).2

example :
    sR2.out.map (fun p => (p.1, p.2.render)) =
      [(1, (Reply.err (strBytes Msgs.EXECABORT_MSG)).render), (1, (Reply.err (strBytes Msgs.COMMAND_IN_MULTI_MSG)).render)] ∧
    (sR2.conn 1).tx = none ∧ sR2.srv.dbs.map (·.map Prod.fst) = List.replicate 16 [] ∧ sR2.crashed = none ∧
    sR2.fault = none ∧
    (processCommand {} 1 [strBytes "GET", [107]] ({ sR2 with out := [] }.withHints [5] [])).2.out.map
      (fun p => (p.1, p.2.render)) = [(1, Reply.nil.render)] := by decide +kernel

example : Conn.normal ((processCommand {} 1 [strBytes "EXEC"]
    (processCommand {} 1 [strBytes "SUBSCRIBE", [120]] ((runHistory demoB).beginEvent.withHints [3, 4] [])).2).2.conn 1) :=
  (exec_after_refusal_aborts {} {} 1 (strBytes "SUBSCRIBE") (strBytes "EXEC") [[120]]
    ((runHistory demoB).beginEvent.withHints [3, 4] []) (sig := sigOf "subscribe") (q := [("set", [[107], [118]])])
    (by decide +kernel) (by decide +kernel) (by decide +kernel) (by decide +kernel) (by decide +kernel)
    (by decide +kernel)).2.1

/-! ### the chunking theorems of `C04s`, aliveness discharged

`C04s.sendall_append`, `sendChunks_flatten`, `all_chunkings_agree` need "the connection is alive after the first chunk /
after each chunk / after the one-shot write".  From a healthy state — in particular from every state reached by a
history without a write during an outage (`UpFrom`) — that always holds: no request kills a connection, EXEC of a
queue with script commands included (before the model ran queued scripts the theorems below needed `fault = none`
after the write). -/

/-- the state at the start of a `.send` event in a reachable healthy state satisfies the event invariant -/
theorem K_of_reachable (evs : List Ev) (hg : UpFrom {} evs) (cl : List Int) (pk : List (List Bytes)) :
    K ((runHistory evs).beginEvent.withHints cl pk) :=
  ⟨txWf_reachable evs, rfl, (reachable_alive evs hg).1⟩

/-- after a write, from a state satisfying the event invariant, the connection is alive -/
theorem alive_after_sendall (mode : Mode) (c : Nat) (data : Bytes) (s : Sys) (hk : K s) :
    (connOf ((sendall mode c data).run s).2 c).dead = false :=
  (sendall_K mode c data s hk).healthy.2.conn c

/-- **`sendall a; sendall b = sendall (a ++ b)`** for any split of any byte stream, from any state satisfying the
event invariant — no aliveness hypothesis, no hypothesis on the `fault` marker -/
theorem sendall_append (mode : Mode) (c : Nat) (a b : Bytes) (s : Sys) (hk : K s) :
    (do sendall mode c a; sendall mode c b : M Unit).run s = (sendall mode c (a ++ b)).run s :=
  FR.Props.C04s.sendall_append mode c a b s (alive_after_sendall mode c a s hk)

/-- **All chunkings agree**: every chunking `cs` of a stream does exactly what the one-shot write does — same replies
in the same order, same final state -/
theorem all_chunkings_agree (mode : Mode) (c : Nat) (stream : Bytes) (s : Sys) (hk : K s)
    (cs : List Bytes) (hne : cs ≠ []) (hflat : cs.flatten = stream) :
    (sendChunks mode c cs).run s = (sendall mode c stream).run s :=
  FR.Props.C04s.all_chunkings_agree mode c stream s (alive_after_sendall mode c stream s hk) cs hne hflat

/-- … and two chunkings of the same stream end in the same state, with the same replies -/
theorem chunking_irrelevant (mode : Mode) (c : Nat) (cs cs' : List Bytes) (hne : cs ≠ []) (hne' : cs' ≠ [])
    (hflat : cs.flatten = cs'.flatten) (s : Sys) (hk : K s) :
    (sendChunks mode c cs).run s = (sendChunks mode c cs').run s := by
  rw [all_chunkings_agree mode c cs.flatten s hk cs hne rfl,
    all_chunkings_agree mode c cs.flatten s hk cs' hne' hflat.symm]

/-- the same from reachable states: after any history without a write during an outage, at the start of a `.send`
event -/
theorem all_chunkings_agree_reachable (evs : List Ev) (hg : UpFrom {} evs) (mode : Mode) (c : Nat) (stream : Bytes)
    (cl : List Int) (pk : List (List Bytes))
    (cs : List Bytes) (hne : cs ≠ []) (hflat : cs.flatten = stream) :
    (sendChunks mode c cs).run ((runHistory evs).beginEvent.withHints cl pk) =
      (sendall mode c stream).run ((runHistory evs).beginEvent.withHints cl pk) :=
  all_chunkings_agree mode c stream _ (K_of_reachable evs hg cl pk) cs hne hflat

/-- non-vacuity: the former KF-1 stream `MULTI / SUBSCRIBE x / EXEC / PING`, byte by byte (69 chunks), from the state
after a connection was opened — before the fix the byte-wise delivery and the one-shot write differed -/
example :
    (sendChunks {} 1 ((FR.Props.C04s.multiSubExec ++ FR.Props.C04s.ping).map fun x => [x])).run
        ((runHistory [.open 1]).beginEvent.withHints [1, 2, 3, 4] []) =
      (sendall {} 1 (FR.Props.C04s.multiSubExec ++ FR.Props.C04s.ping)).run
        ((runHistory [.open 1]).beginEvent.withHints [1, 2, 3, 4] []) :=
  all_chunkings_agree_reachable [.open 1] (by decide +kernel) {} 1 _ [1, 2, 3, 4] [] _
    (by decide) (by decide +kernel)

example : ((sendall {} 1 (FR.Props.C04s.multiSubExec ++ FR.Props.C04s.ping)).run
    ((runHistory [.open 1]).beginEvent.withHints [1, 2, 3, 4] [])).2.out.reverse.map (fun p => (p.1, p.2.render)) =
    [(1, Reply.ok.render), (1, (Reply.err (strBytes Msgs.COMMAND_IN_MULTI_MSG)).render),
     (1, (Reply.err (strBytes Msgs.EXECABORT_MSG)).render), (1, Reply.pong.render)] := by decide +kernel

example : (do sendall {} 1 FR.Props.C04s.multiSubExec; sendall {} 1 FR.Props.C04s.ping : M Unit).run
      ((runHistory [.open 1]).beginEvent.withHints [1, 2, 3, 4] []) =
    (sendall {} 1 (FR.Props.C04s.multiSubExec ++ FR.Props.C04s.ping)).run
      ((runHistory [.open 1]).beginEvent.withHints [1, 2, 3, 4] []) :=
  sendall_append {} 1 _ _ _ (K_of_reachable [.open 1] (by decide +kernel) _ _)

/-- non-vacuity with a script command in the queue: `MULTI / EVAL "return 1" 0 / EXEC / PING`, byte by byte, whatever
the hints (here: none, so the replay sets `fault` - and the chunkings still agree) -/
example :
    (sendChunks {} 1 ((FR.Props.C04s.multiEvalExec ++ FR.Props.C04s.ping).map fun x => [x])).run
        ((runHistory [.open 1]).beginEvent.withHints [1, 2, 3, 4] []) =
      (sendall {} 1 (FR.Props.C04s.multiEvalExec ++ FR.Props.C04s.ping)).run
        ((runHistory [.open 1]).beginEvent.withHints [1, 2, 3, 4] []) :=
  all_chunkings_agree_reachable [.open 1] (by decide +kernel) {} 1 _ [1, 2, 3, 4] [] _
    (by decide) (by decide +kernel)

end FR.Props.C04k
