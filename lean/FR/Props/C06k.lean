import FR.Proofs.NotifyKeys
import FR.Props.C06s
/-!
# C06, completeness direction — "EXEC proceeds whenever no command addressed a watched key as a write target"

`FR/Props/C06s.lean` (`regular_flag_exact`, `request_regular_flag`) shows that a regular command sets the watch flag
of connection `c` exactly when one of the keys in `(regularOut …).notified` is watched by `c`.  Here the missing link
is supplied: the notified keys of a regular command are among its KEY ARGUMENTS — the raw arguments at the positions
which the command's signature declares as keys (`keyArgs`), and they are notified in argument order.

1. `notified_sublist_keyArgs` / `notified_mem_keyArgs`: the statement for `runRegular` with ANY body that keeps the
   keys of its `CommandItem`s (`Body.KeepsKeys`: same `key` at the same index), and `regular_keepsKeys`: every one of
   the bodies of `Cmd.regular` does.  `read_notifies_nothing`: the read commands notify nothing at all.
2. `request_regular_unwatched` (one request, via C06s), `harmless_history` and `exec_proceeds` (histories, via C05).
3. the special commands: which keys each may notify (`SpecialAvoids`, one theorem per body, the dispatch
   `special_notifies_only`, the runner `runWith_notifies_only`), and the event-level theorem for ANY command other than
   SELECT / EXEC / DISCARD / WATCH / UNWATCH / EVAL / EVALSHA / SCRIPT: `request_any_unwatched(')`.
-/
namespace FR.Props.C06k
open FR FR.WatchSys FR.NotifyKeys FR.M

/-! ## 1. the notified keys of a regular command are key arguments -/

/-- THE DISCIPLINE HOLDS FOR THE WHOLE TABLE: every body of `Cmd.regular` returns a list of `CommandItem`s that has
the same `key` at the same index as the list it was given. -/
theorem regular_keepsKeys (name : String) (body : Body) (h : Cmd.regular name = some body) : Body.KeepsKeys body :=
  FR.NotifyKeys.regular_keepsKeys name body h

/-- `Signature.apply` creates one `CommandItem` per key argument, in argument order, keyed by that argument. -/
theorem apply_items_are_keyArgs (sig : Sig) (raw : List Bytes) (db : Db) (args : List Arg) (cis : List CI)
    (h : (sig.apply raw db).2 = .ok (.ok args cis)) : cis.map CI.key = keyArgs sig raw :=
  apply_keys sig raw db h

/-- MAIN THEOREM (generic runner, one database).  For any body that keeps the keys of its items, the keys for which
`runRegular` calls `notify_watch` form a SUBLIST of the key arguments of the request: only key arguments are
notified, each position at most once, in argument order.  Holds on every path (argument error, gate refusal, body
error, success). -/
theorem notified_sublist_keyArgs (sig : Sig) (body : Body) (hb : Body.KeepsKeys body) (ctx : Ctx) (gate : Option Err)
    (raw : List Bytes) (db : Db) : (runRegular sig body ctx gate raw db).notified.Sublist (keyArgs sig raw) :=
  runRegular_notified_sublist sig body hb ctx gate raw db

/-- the membership form asked for -/
theorem notified_mem_keyArgs (sig : Sig) (body : Body) (hb : Body.KeepsKeys body) (ctx : Ctx) (gate : Option Err)
    (raw : List Bytes) (db : Db) : ∀ k ∈ (runRegular sig body ctx gate raw db).notified, k ∈ keyArgs sig raw :=
  runRegular_notified_mem sig body hb ctx gate raw db

/-- for the commands of the table -/
theorem regular_notified_mem_keyArgs (sig : Sig) (body : Body) (hreg : Cmd.regular sig.name = some body) (ctx : Ctx)
    (gate : Option Err) (raw : List Bytes) (db : Db) :
    ∀ k ∈ (runRegular sig body ctx gate raw db).notified, k ∈ keyArgs sig raw :=
  runRegular_notified_mem sig body (FR.NotifyKeys.regular_keepsKeys _ _ hreg) ctx gate raw db

/-- THE READ COMMANDS (`readNames`: GET, MGET, EXISTS, TTL, TYPE, HGET…, LRANGE, SMEMBERS, SINTER, ZRANGE…, the
SCAN family on one key, …) return the very items they were given, hence notify nothing — whatever keys they name. -/
theorem read_notifies_nothing (sig : Sig) (body : Body) (hreg : Cmd.regular sig.name = some body)
    (hr : sig.name ∈ readNames) (ctx : Ctx) (gate : Option Err) (raw : List Bytes) (db : Db) :
    (runRegular sig body ctx gate raw db).notified = [] :=
  runRegular_readOnly sig body (regular_readOnly _ hr _ hreg) ctx gate raw db

/-- the hypothesis `KeepsKeys` is needed: a body that hands back an item under another key notifies that key -/
def rogue : Body := fun _ _ _ => .ok { reply := .ok, cis := [⟨[120], some (.str [1]), none, true, false⟩] }

theorem keepsKeys_needed : ∃ sig, (runRegular sig rogue { version := 7, time := 0 } none [[107]] ⟨[], 0⟩).notified = [[120]] ∧
    keyArgs sig [[107]] = [[107]] :=
  ⟨⟨"get", [.key (some .str) .unspecified], [], false, 1, 0, false⟩, by decide +kernel, by decide +kernel⟩

/-! ### non-vacuity -/

/-- `MSET a 1 b 2`: key arguments `a`, `b`; both are notified -/
example : ∃ sig body, SigTable.find "mset" = some sig ∧ Cmd.regular sig.name = some body ∧
    keyArgs sig [[97], [49], [98], [50]] = [[97], [98]] ∧
    (runRegular sig body { version := 7, time := 0 } none [[97], [49], [98], [50]] ⟨[], 0⟩).notified = [[97], [98]] :=
  ⟨_, _, rfl, rfl, by decide +kernel, by decide +kernel⟩

/-- `RENAME a b` with `a` present: both key arguments are notified, in ARGUMENT order (`a`, then `b`) — the body
stores the destination first, but the write-back walks the items in the order of the arguments. -/
example : ∃ sig body, SigTable.find "rename" = some sig ∧ Cmd.regular sig.name = some body ∧
    keyArgs sig [[97], [98]] = [[97], [98]] ∧
    (runRegular sig body { version := 7, time := 0 } none [[97], [98]] ⟨[([97], ⟨.str [1], none⟩)], 0⟩).notified =
      [[97], [98]] :=
  ⟨_, _, rfl, rfl, by decide +kernel, by decide +kernel⟩

/-- `SET k v EX 10`: the options are not key arguments; `DEL a b` with only `b` present notifies only `b` -/
example : ∃ sig body, SigTable.find "set" = some sig ∧ Cmd.regular sig.name = some body ∧
    keyArgs sig [[107], [118], [69, 88], [49, 48]] = [[107]] ∧
    (runRegular sig body { version := 7, time := 0 } none [[107], [118], [69, 88], [49, 48]] ⟨[], 0⟩).notified = [[107]] :=
  ⟨_, _, rfl, rfl, by decide +kernel, by decide +kernel⟩

example : ∃ sig body, SigTable.find "del" = some sig ∧ Cmd.regular sig.name = some body ∧
    keyArgs sig [[97], [98]] = [[97], [98]] ∧
    (runRegular sig body { version := 7, time := 0 } none [[97], [98]] ⟨[([98], ⟨.str [1], none⟩)], 0⟩).notified = [[98]] :=
  ⟨_, _, rfl, rfl, by decide +kernel, by decide +kernel⟩

example : "get" ∈ readNames ∧ "zrangebyscore" ∈ readNames ∧ "set" ∉ readNames := by decide

/-! ## 2. system level -/

/-- in the system model: the keys a regular command of connection `c'` notifies are key arguments of the request -/
theorem regularOut_notified_keyArgs (s : Sys) (c' : Nat) (sig : Sig) (body : Body)
    (hreg : Cmd.regular sig.name = some body) (raw : List Bytes) (fs : Bool) :
    (s.regularOut c' sig body raw fs).notified.Sublist (keyArgs sig raw) :=
  regularOut_notified_sublist s c' sig body hreg raw fs

/-- ONLY-IF DIRECTION OF THE FLAG (runner level, from `C06s.regular_flag_exact`): a regular command run by `c'` sets
the flag of `c` only if `c` watches, in the database selected by `c'`, one of the KEY ARGUMENTS of the command. -/
theorem regular_flag_only_keyArgs (sp : SpecialFn) (mode : Mode) (c' : Nat) (sig : Sig) (raw : List Bytes)
    (fs : Bool) (body : Body) (hreg : Cmd.regular sig.name = some body) (s : Sys) (c : Nat)
    (h : ((runWith sp mode c' sig raw fs s).2.conn c).watchNotified = true) :
    (s.conn c).watchNotified = true ∨ ∃ k ∈ keyArgs sig raw, ((s.conn c').db, k) ∈ (s.conn c).watches := by
  rw [(FR.Props.C06s.regular_flag_exact sp mode c' sig raw fs body hreg s c).2, Bool.or_eq_true] at h
  rcases h with h | h
  · exact .inl h
  · obtain ⟨k, hk, hw⟩ := List.any_eq_true.1 h
    exact .inr ⟨k, (regularOut_notified_sublist s c' sig body hreg raw fs).subset hk, List.contains_iff_mem.1 hw⟩

/-- ONE REQUEST (event level, via `C06s.request_regular_flag`).  Connection `c` (not closed) has some watch list;
connection `c'`, which has database `d'` selected, sends a request that names a REGULAR command.  If for every pair
`(d, k)` watched by `c` either `d' ≠ d` or `k` is not a key argument of the request, then the watch list and the
`watchNotified` flag of `c` are the same after the request.  (`c' = c` is allowed, as is a request queued in MULTI.) -/
theorem request_regular_unwatched (s : Sys) (mode : Mode) (c c' : Nat) (nameB : Bytes) (args : List Bytes)
    (clocks : List Int) (picks : List (List Bytes)) (sig : Sig) (body : Body)
    (hl : lookupSig nameB = some sig) (hreg : Cmd.regular sig.name = some body)
    (hopen : c ∉ s.srv.closedSockets)
    (H : ∀ d k, (d, k) ∈ (s.conn c).watches → (s.conn c').db ≠ d ∨ k ∉ keyArgs sig args) :
    ((stepEv s (.request mode c' (nameB :: args) clocks picks)).conn c).watches = (s.conn c).watches ∧
    ((stepEv s (.request mode c' (nameB :: args) clocks picks)).conn c).watchNotified = (s.conn c).watchNotified := by
  refine FR.Props.C06s.request_regular_flag s mode c c' nameB args clocks picks sig body hl hreg hopen ?_
  intro u _ key hk hw
  rcases H _ _ hw with h | h
  · exact h rfl
  · exact h ((regularOut_notified_sublist u c' sig body hreg args false).subset hk)

/-- …and a READ command of the table changes nothing of `c`'s watch state even when it names a watched key. -/
theorem request_read_unwatched (s : Sys) (mode : Mode) (c c' : Nat) (nameB : Bytes) (args : List Bytes)
    (clocks : List Int) (picks : List (List Bytes)) (sig : Sig) (body : Body)
    (hl : lookupSig nameB = some sig) (hreg : Cmd.regular sig.name = some body) (hr : sig.name ∈ readNames)
    (hopen : c ∉ s.srv.closedSockets) :
    ((stepEv s (.request mode c' (nameB :: args) clocks picks)).conn c).watches = (s.conn c).watches ∧
    ((stepEv s (.request mode c' (nameB :: args) clocks picks)).conn c).watchNotified = (s.conn c).watchNotified := by
  refine FR.Props.C06s.request_regular_flag s mode c c' nameB args clocks picks sig body hl hreg hopen ?_
  intro u _ key hk
  rw [regularOut_read_notified u c' sig body hreg hr] at hk
  cases hk

/-! ### histories

The events allowed between WATCH and EXEC are the `Harmless` ones (`FR/Proofs/NotifyKeys.lean`):

* `.request _ c' fields _ _` for ANY connection `c'` (also `c` itself; also while a MULTI is open, when the request
  is queued) where `fields` is empty, or names no known command, or — `d'` being the database that `c'` has selected
  when the request is made —
  - names a REGULAR command that is a read command (`readNames`) or none of whose key arguments `k` makes `(d', k)` a
    watch of `c`;
  - names a SPECIAL command other than SELECT, EXEC, DISCARD, WATCH, UNWATCH, EVAL, EVALSHA, SCRIPT (`touchy`), none
    of whose key arguments `k` makes `(d', k)` a watch of `c`, and the watch list of `c` avoids what the command may
    notify itself (`SpecialAvoids`: MOVE — the key in the target database; SORT — the STORE destination; FLUSHDB —
    database `d'`; FLUSHALL — databases 0…15; SWAPDB — both databases; BLPOP / BRPOP / BRPOPLPUSH — the listed keys);
* `.version`, `.conn`, `.open` (any connection id), and `.close c'` / `.gc c'` with `c' ≠ c`.

Not covered by these theorems: the `touchy` commands (SELECT changes the database the next condition refers to; EXEC
and the script commands run nested commands — each nested command goes through `runWith_notifies_only`; WATCH /
UNWATCH / DISCARD of `c` itself edit the watch list), raw `send` events (a `send` is the parser loop around the
`request`s it contains), wake-ups and time-outs of blocked connections (a wake-up runs one more pass:
`bpop_notifies_only_listed`). -/

/-- HISTORY FORM.  Through any history of harmless events, connection `c` stays open and keeps its watch list and its
flag. -/
theorem harmless_history (s : Sys) (evs : List Ev) (c : Nat) (hopen : c ∉ s.srv.closedSockets)
    (hh : HarmlessRun c s evs) :
    c ∉ (evs.foldl stepEv s).srv.closedSockets ∧
    ((evs.foldl stepEv s).conn c).watches = (s.conn c).watches ∧
    ((evs.foldl stepEv s).conn c).watchNotified = (s.conn c).watchNotified :=
  let h := history_harmless evs s ⟨hopen, rfl, rfl⟩ hh
  ⟨h.opened, h.watches, h.flag⟩

/-- "EXEC PROCEEDS".  `c` is clean in `s` (flag not set — e.g. right after its WATCH); a harmless history follows,
during which `c` opens a MULTI and queues `q` without a queueing error.  Then the EXEC of `c` runs the queue: it is
the sequential run of the queued commands (`FR.C05.exec_eq_sequential`), not the nil reply. -/
theorem exec_proceeds (s : Sys) (evs : List Ev) (c : Nat) (hopen : c ∉ s.srv.closedSockets)
    (hclean : (s.conn c).watchNotified = false) (hh : HarmlessRun c s evs)
    (inner : Inner) (cis : List CI) (q : List (String × List Bytes))
    (htx : ((evs.foldl stepEv s).conn c).tx = some q) (hf : ((evs.foldl stepEv s).conn c).txFailed = false) :
    execCmd inner c cis (evs.foldl stepEv s) = (do
      modifyConn c fun x => { x with tx := none, txFailed := false }
      clearWatches c
      let results ← runQueue inner c q
      if results.any Option.isNone then
        modify fun s => { s with crashed := some "AssertionError" }
        return .ok (none, cis)
      else okR (.arr (results.map fun r => r.getD .nil)) cis : M SpecialOut) (evs.foldl stepEv s) :=
  FR.C05.exec_eq_sequential _ inner c cis q htx hf ((harmless_history s evs c hopen hh).2.2.trans hclean)

/-- the same from the initial state: `evs0` is any history after which `c` is open and clean -/
theorem exec_proceeds_reachable (evs0 evs : List Ev) (c : Nat)
    (hopen : c ∉ (runHistory evs0).srv.closedSockets)
    (hclean : ((runHistory evs0).conn c).watchNotified = false) (hh : HarmlessRun c (runHistory evs0) evs) :
    ((runHistory (evs0 ++ evs)).conn c).watchNotified = false ∧
    ((runHistory (evs0 ++ evs)).conn c).watches = ((runHistory evs0).conn c).watches := by
  have h := harmless_history (runHistory evs0) evs c hopen hh
  unfold runHistory at h hclean ⊢
  rw [List.foldl_append]
  exact ⟨h.2.2.trans hclean, h.2.1⟩

/-! ### non-vacuity of the history theorems

State `C06s.sSet`: connection 1 watches `k` in database 0.  Connection 2 runs `SET j v` (another key), `GET k` (a read
of the watched key), `DEL j x` and an unknown command; a third connection is opened, closed and collected. -/

def eGetK : Ev := .request {} 2 [[103, 101, 116], [107]] [8] []
def eDel : Ev := .request {} 2 [[100, 101, 108], [106], [120]] [9] []
def eUnknown : Ev := .request {} 2 [[110, 111, 112, 101]] [10] []

def quietEvs : List Ev := [FR.Props.C06s.eSetOther, eGetK, eDel, eUnknown, .open 3, .close 3, .gc 3]

theorem harmlessReq_of {W : List (Nat × Bytes)} {d' : Nat} {nameB : Bytes} {args : List Bytes} (sig : Sig)
    (hl : lookupSig nameB = some sig) (h1 : (Cmd.regular sig.name).isSome = true)
    (h2 : sig.name ∈ readNames ∨ ∀ k ∈ keyArgs sig args, (d', k) ∉ W) : HarmlessReq W d' (nameB :: args) := by
  simp only [HarmlessReq, hl]
  exact .inl ⟨h1, h2⟩

/-- …and one that names a special command -/
theorem harmlessReq_special {W : List (Nat × Bytes)} {d' : Nat} {nameB : Bytes} {args : List Bytes} (sig : Sig)
    (hl : lookupSig nameB = some sig) (h1 : Cmd.regular sig.name = none) (h2 : sig.name ∉ touchy)
    (h3 : ∀ k ∈ keyArgs sig args, (d', k) ∉ W)
    (h4 : ∀ cargs cis, (∃ db, (sig.apply args db).2 = .ok (.ok cargs cis)) → SpecialAvoids W d' sig.name cargs cis) :
    HarmlessReq W d' (nameB :: args) := by
  simp only [HarmlessReq, hl]
  exact .inr ⟨h1, h2, h3, h4⟩

theorem quietEvs_harmless : HarmlessRun 1 FR.Props.C06s.sSet quietEvs := by
  refine ⟨?_, ?_, ?_, ?_, trivial, ?_, ?_, trivial⟩
  · exact harmlessReq_of (SigTable.sigs.getD 89 default) (by decide +kernel) (by decide +kernel)
      (.inr (by decide +kernel))
  · exact harmlessReq_of (SigTable.sigs.getD 21 default) (by decide +kernel) (by decide +kernel)
      (.inl (by decide +kernel))
  · exact harmlessReq_of (SigTable.sigs.getD 9 default) (by decide +kernel) (by decide +kernel)
      (.inr (by decide +kernel))
  · show HarmlessReq _ _ ([110, 111, 112, 101] :: [])
    have : lookupSig [110, 111, 112, 101] = none := by decide +kernel
    simp only [HarmlessReq, this]
  · show (3 : Nat) ≠ 1; decide
  · show (3 : Nat) ≠ 1; decide

example : ((quietEvs.foldl stepEv FR.Props.C06s.sSet).conn 1).watchNotified = false ∧
    ((quietEvs.foldl stepEv FR.Props.C06s.sSet).conn 1).watches = [(0, [107])] := by
  have := harmless_history FR.Props.C06s.sSet quietEvs 1 (by decide) quietEvs_harmless
  exact ⟨this.2.2, this.2.1⟩

/-- the key-argument condition is sharp: `SET k v` by connection 2 (naming the watched key) does set the flag -/
example : ¬ Harmless 1 FR.Props.C06s.sSet FR.Props.C06s.eSet ∧
    ((stepEv FR.Props.C06s.sSet FR.Props.C06s.eSet).conn 1).watchNotified = true := by
  refine ⟨?_, by decide +kernel⟩
  intro h
  have hl : lookupSig [115, 101, 116] = some (SigTable.sigs.getD 89 default) := by decide +kernel
  simp only [Harmless, FR.Props.C06s.eSet, HarmlessReq, hl] at h
  rcases h with ⟨_, h | h⟩ | ⟨h, _⟩
  · revert h; decide +kernel
  · exact h [107] (by decide +kernel) (by decide +kernel)
  · revert h; decide +kernel

/-! ## 3. the special commands: which keys each may notify

For a special command `_run_command` (`runWith`) converts the arguments with the same `Signature.apply`, runs the
special body, and writes back the `CommandItem`s the body returns.  Hence a special command can notify
(a) through the write-back: only KEY ARGUMENTS again, because every special body hands back items with the keys it was
    given (`special_keepsKeys`; MOVE's source key, the destination of ZUNIONSTORE / ZINTERSTORE — a declared key in
    this model — and SORT's source key are of this kind), and
(b) through its own calls of `notify_watch`: what `SpecialAvoids` lists, one theorem per body below.

All statements have the form `Pres (FlagInv c c' W b d0) m`: a connection `c` with watch list `W` and flag `b` (not
closed) keeps both through `m`, under the stated hypothesis that `W` avoids the pairs `m` may notify. -/

section
variable {c c' : Nat} {W : List (Nat × Bytes)} {b : Bool} {d0 : Nat}

/-- (a) every special body returns items with the keys, index by index, of the items it was given -/
theorem special_keepsKeys (inner : Inner) : SpecialKK (special inner) := special_kk inner

/-- the write-back of a list of items notifies at most `(d, key)` for the keys of the items -/
theorem writeback_notifies_only_item_keys (d : Nat) (cis : List CI) (h : ∀ ci ∈ cis, (d, ci.key) ∉ W) :
    Pres (FlagInv c c' W b d0) (M.writebackAll d cis) := flag_writebackAll d cis h

/-- FLUSHDB: `Database.clear` of database `d` notifies only keys of database `d` (namely its live keys) -/
theorem clearDb_notifies_only_own_db (d : Nat) (h : ∀ k, (d, k) ∉ W) : Pres (FlagInv c c' W b d0) (M.clearDb d) :=
  flag_clearDb d h

/-- FLUSHALL notifies only keys of the databases 0 … 15 -/
theorem flushall_notifies_only_dbs (h : ∀ p ∈ W, 16 ≤ p.1) :
    Pres (FlagInv c c' W b d0) ((List.range 16).forM M.clearDb) := flag_flushall h

/-- SWAPDB `a b` notifies only keys of the databases `a` and `b` -/
theorem swapdb_notifies_only_both_dbs (args : List Arg) (cis : List CI)
    (h : ∀ i1 i2, args = [.int i1, .int i2] → ∀ k, (i1.toNat, k) ∉ W ∧ (i2.toNat, k) ∉ W) :
    Pres (FlagInv c c' W b d0) (swapdbCmd args cis) := flag_swapdbCmd args cis h

/-- MOVE itself notifies only the key in the TARGET database (the key in the source database is notified by the
write-back of the item of its key argument) -/
theorem move_notifies_only_target (d : Nat) (args : List Arg) (cis : List CI)
    (h : ∀ k dst, args = [.key k, .int dst] → (dst.toNat, (ciAt cis k).key) ∉ W) :
    Pres (FlagInv c c' W b d0) (moveCmd d args cis) := flag_moveCmd d args cis h

/-- SORT notifies only the STORE destination, in the selected database (the items come back unchanged) -/
theorem sort_notifies_only_store (x d : Nat) (args : List Arg) (cis : List CI)
    (h : ∀ k rest o dst, args = .key k :: rest → parseSortOpts (Cmd.rawArgs rest) {} = .ok o → o.store = some dst →
      (d, dst) ∉ W) :
    Pres (FlagInv c c' W b d0) (sortCmd x d args cis) := flag_sortCmd x d args cis h

/-- ZUNIONSTORE / ZINTERSTORE call `notify_watch` for nothing themselves: the destination is a declared key argument,
stored through its `CommandItem`, hence covered by (a) -/
theorem zunioninter_notifies_nothing_itself (u : Bool) (d : Nat) (args : List Arg) (cis : List CI) :
    Pres (FlagInv c c' W b d0) (zunioninter u d args cis) := flag_zunioninter u d args cis

/-- one pass of BLPOP / BRPOP (at the command, or at a wake-up of the blocked connection) notifies only `(d, k)` for
the listed keys `k` — plain arguments, not declared keys -/
theorem bpop_notifies_only_listed (d : Nat) (left first : Bool) (keys : List Bytes) (h : ∀ k ∈ keys, (d, k) ∉ W) :
    Pres (FlagInv c c' W b d0) (bpopPass d left first keys) := flag_bpopPass d left first keys h

/-- one pass of BRPOPLPUSH notifies only source and destination -/
theorem brpoplpush_notifies_only_src_dst (d : Nat) (src dst : Bytes) (first : Bool) (h1 : (d, src) ∉ W)
    (h2 : (d, dst) ∉ W) : Pres (FlagInv c c' W b d0) (brpoplpushPass d src dst first) :=
  flag_brpoplpushPass d src dst first h1 h2

/-- THE DISPATCH: any special command other than SELECT, EXEC, DISCARD, WATCH, UNWATCH, EVAL, EVALSHA, SCRIPT -/
theorem special_notifies_only (inner : Inner) (mode : Mode) (name : String) (args : List Arg) (cis : List CI)
    (hname : name ∉ touchy) (hav : SpecialAvoids W d0 name args cis) :
    Pres (FlagInv c c' W b d0) (special inner mode c' name args cis) := special_flag inner mode name args cis hname hav

/-- `_run_command` of ANY command of `c'` (regular or special; directly, inside EXEC, or from a script — for any
`special` function that keeps keys): it may notify only key arguments and what its special body notifies itself.
Inside a script each `redis.call` goes through this very runner (`from_script = true`), so a script notifies only
what its individual calls notify. -/
theorem runWith_notifies_only (sp : SpecialFn) (hkk : SpecialKK sp) (mode : Mode) (sig : Sig) (raw : List Bytes)
    (fs : Bool) (hkeys : ∀ k ∈ keyArgs sig raw, (d0, k) ∉ W)
    (hsp : Cmd.regular sig.name = none → ∀ args cis, (∃ db, (sig.apply raw db).2 = .ok (.ok args cis)) →
      Pres (FlagInv c c' W b d0) (sp mode c' sig.name args cis)) :
    Pres (FlagInv c c' W b d0) (runWith sp mode c' sig raw fs) := runWith_flag sp hkk mode sig raw fs hkeys hsp

end

/-- EVENT LEVEL, any command.  A request of `c'` naming a command other than the `touchy` ones, none of whose key
arguments is watched by `c` in the database selected by `c'`, and such that the watch list of `c` avoids what the
command (if special) may notify itself, leaves the watch list and the flag of `c` unchanged. -/
theorem request_any_unwatched (s : Sys) (mode : Mode) (c c' : Nat) (nameB : Bytes) (args : List Bytes)
    (clocks : List Int) (picks : List (List Bytes)) (sig : Sig) (hl : lookupSig nameB = some sig)
    (hopen : c ∉ s.srv.closedSockets) (hname : sig.name ∉ touchy)
    (hkeys : ∀ k ∈ keyArgs sig args, ((s.conn c').db, k) ∉ (s.conn c).watches)
    (hsp : Cmd.regular sig.name = none → ∀ cargs cis, (∃ db, (sig.apply args db).2 = .ok (.ok cargs cis)) →
      SpecialAvoids (s.conn c).watches (s.conn c').db sig.name cargs cis) :
    ((stepEv s (.request mode c' (nameB :: args) clocks picks)).conn c).watches = (s.conn c).watches ∧
    ((stepEv s (.request mode c' (nameB :: args) clocks picks)).conn c).watchNotified = (s.conn c).watchNotified := by
  have h0 : FlagInv c c' (s.conn c).watches (s.conn c).watchNotified (s.conn c').db
      (s.beginEvent.withHints clocks picks) := ⟨hopen, rfl, rfl, rfl⟩
  have := processCommand_flag_of_run (c := c) (c' := c') mode nameB args (by
    intro sig' hl'
    rw [hl] at hl'
    cases hl'
    exact ⟨fun he => hname (by rw [he]; decide), runCommand_flag mode sig args hname hkeys hsp⟩) _ h0
  exact ⟨this.watches, this.flag⟩

/-! ### non-vacuity: special commands in a harmless history

From `C06s.sSet` (connection 1 watches `k` in database 0): connection 2 sends PING, DBSIZE and MULTI — harmless.
FLUSHDB by a connection that has database 0 selected is not (it notifies `k`), nor is `SORT j STORE k`, although `k`
is not a key argument of that request. -/

def ePing' : Ev := .request {} 2 [[112, 105, 110, 103]] [11] []
def eDbsize : Ev := .request {} 2 [[100, 98, 115, 105, 122, 101]] [12] []
def eMulti2 : Ev := .request {} 2 [[109, 117, 108, 116, 105]] [13] []

theorem avoids_trivial {W : List (Nat × Bytes)} {d0 : Nat} {name : String} {args : List Arg} {cis : List CI}
    (h : name ∉ ["move", "sort", "flushdb", "flushall", "swapdb", "blpop", "brpop", "brpoplpush"]) :
    SpecialAvoids W d0 name args cis := by
  refine ⟨?_, ?_, ?_, ?_, ?_, ?_, ?_⟩
  all_goals intro e
  · exact absurd (by rw [e]; decide) h
  · exact absurd (by rw [e]; decide) h
  · exact absurd (by rw [e]; decide) h
  · exact absurd (by rw [e]; decide) h
  · exact absurd (by rw [e]; decide) h
  · rcases e with e | e <;> exact absurd (by rw [e]; decide) h
  · exact absurd (by rw [e]; decide) h

theorem specialEvs_harmless : HarmlessRun 1 FR.Props.C06s.sSet [ePing', eDbsize, eMulti2] := by
  refine ⟨?_, ?_, ?_, trivial⟩
  · exact harmlessReq_special (SigTable.sigs.getD 67 default) (by decide +kernel) (by decide +kernel)
      (by decide +kernel) (by decide +kernel) (fun _ _ _ => avoids_trivial (by decide +kernel))
  · exact harmlessReq_special (SigTable.sigs.getD 6 default) (by decide +kernel) (by decide +kernel)
      (by decide +kernel) (by decide +kernel) (fun _ _ _ => avoids_trivial (by decide +kernel))
  · exact harmlessReq_special (SigTable.sigs.getD 60 default) (by decide +kernel) (by decide +kernel)
      (by decide +kernel) (by decide +kernel) (fun _ _ _ => avoids_trivial (by decide +kernel))

example : (([ePing', eDbsize, eMulti2].foldl stepEv FR.Props.C06s.sSet).conn 1).watchNotified = false :=
  (harmless_history FR.Props.C06s.sSet _ 1 (by decide) specialEvs_harmless).2.2

/-- FLUSHDB in the watched database does set the flag (computed): the hypothesis of `clearDb_notifies_only_own_db`
cannot be dropped -/
example : ((stepEv FR.Props.C06s.sSet (.request {} 2 [[102, 108, 117, 115, 104, 100, 98]] [11] [])).conn 1).watchNotified
    = true := by decide +kernel

/-- THE KEY-ARGUMENT THEOREM DOES NOT EXTEND TO THE SPECIAL COMMANDS: `SORT j STORE k` has the single key argument
`j`, yet notifies `k` (computed) — exactly the pair `sort_notifies_only_store` names. -/
example : keyArgs (SigTable.sigs.getD 100 default) [[106], [83, 84, 79, 82, 69], [107]] = [[106]] ∧
    lookupSig [115, 111, 114, 116] = some (SigTable.sigs.getD 100 default) ∧
    ((stepEv FR.Props.C06s.sSet (.request {} 2 [[115, 111, 114, 116], [106], [83, 84, 79, 82, 69], [107]] [11] [])).conn 1).watchNotified
      = true := ⟨by decide +kernel, by decide +kernel, by decide +kernel⟩

/-! ### the side condition on a special command, stated on the request alone -/

/-- the same with the side condition on the special command stated for `argsOf sig args` — the converted arguments as
a function of the request alone — and for items keyed by the key arguments -/
theorem request_any_unwatched' (s : Sys) (mode : Mode) (c c' : Nat) (nameB : Bytes) (args : List Bytes)
    (clocks : List Int) (picks : List (List Bytes)) (sig : Sig) (hl : lookupSig nameB = some sig)
    (hopen : c ∉ s.srv.closedSockets) (hname : sig.name ∉ touchy)
    (hkeys : ∀ k ∈ keyArgs sig args, ((s.conn c').db, k) ∉ (s.conn c).watches)
    (hsp : Cmd.regular sig.name = none → ∀ cargs cis, argsOf sig args = some cargs →
      cis.map CI.key = keyArgs sig args → SpecialAvoids (s.conn c).watches (s.conn c').db sig.name cargs cis) :
    ((stepEv s (.request mode c' (nameB :: args) clocks picks)).conn c).watches = (s.conn c).watches ∧
    ((stepEv s (.request mode c' (nameB :: args) clocks picks)).conn c).watchNotified = (s.conn c).watchNotified :=
  request_any_unwatched s mode c c' nameB args clocks picks sig hl hopen hname hkeys
    (fun hreg cargs cis ⟨db, h⟩ => hsp hreg cargs cis (apply_args sig args db h) (apply_keys sig args db h))

theorem harmlessReq_special' {W : List (Nat × Bytes)} {d' : Nat} {nameB : Bytes} {args : List Bytes} (sig : Sig)
    (hl : lookupSig nameB = some sig) (h1 : Cmd.regular sig.name = none) (h2 : sig.name ∉ touchy)
    (h3 : ∀ k ∈ keyArgs sig args, (d', k) ∉ W)
    (h4 : ∀ cargs cis, argsOf sig args = some cargs → cis.map CI.key = keyArgs sig args →
      SpecialAvoids W d' sig.name cargs cis) :
    HarmlessReq W d' (nameB :: args) :=
  harmlessReq_special sig hl h1 h2 h3
    (fun cargs cis ⟨db, h⟩ => h4 cargs cis (apply_args sig args db h) (apply_keys sig args db h))

/-- `MOVE j 1` and `BLPOP l 0` by connection 2 (database 0 selected), connection 1 watching `(0, k)` -/
def eMove : Ev := .request {} 2 [[109, 111, 118, 101], [106], [49]] [14] []
def eBlpop : Ev := .request {} 2 [[98, 108, 112, 111, 112], [108], [48]] [15, 16] []

example : argsOf (SigTable.sigs.getD 57 default) [[106], [49]] = some [.key 0, .int 1] := by rfl

/-- MOVE of an unwatched key into database 1, where `c` watches nothing: harmless -/
theorem eMove_harmless : Harmless 1 FR.Props.C06s.sSet eMove := by
  have hW : (FR.Props.C06s.sSet.conn 1).watches = [(0, [107])] := by decide
  show HarmlessReq _ _ ([109, 111, 118, 101] :: [[106], [49]])
  refine harmlessReq_special' (SigTable.sigs.getD 57 default) (by decide +kernel) (by decide +kernel)
    (by decide +kernel) (by decide +kernel) ?_
  intro cargs cis ha _
  have ha' : cargs = [.key 0, .int 1] :=
    Option.some.inj (ha.symm.trans (show argsOf _ _ = some [.key 0, .int 1] by rfl))
  subst ha'
  refine ⟨?_, fun e => absurd e (by decide), fun e => absurd e (by decide), fun e => absurd e (by decide),
    fun e => absurd e (by decide), fun e => e.elim (fun e => absurd e (by decide)) (fun e => absurd e (by decide)),
    fun e => absurd e (by decide)⟩
  intro _ k dst e hm
  cases e
  rw [hW] at hm
  have h1 : (Int.toNat 1) = 0 := congrArg Prod.fst (List.mem_singleton.1 hm)
  exact absurd h1 (by decide)

/-- BLPOP on an unwatched list key (a plain argument, not a declared key): harmless -/
theorem eBlpop_harmless : Harmless 1 FR.Props.C06s.sSet eBlpop := by
  have hW : (FR.Props.C06s.sSet.conn 1).watches = [(0, [107])] := by decide
  show HarmlessReq _ _ ([98, 108, 112, 111, 112] :: [[108], [48]])
  refine harmlessReq_special' (SigTable.sigs.getD 3 default) (by decide +kernel) (by decide +kernel)
    (by decide +kernel) (by decide +kernel) ?_
  intro cargs cis ha _
  have ha' : cargs = [.raw [108], .raw [48]] :=
    Option.some.inj (ha.symm.trans (show argsOf _ _ = some [.raw [108], .raw [48]] by rfl))
  subst ha'
  refine ⟨fun e => absurd e (by decide), fun e => absurd e (by decide), fun e => absurd e (by decide),
    fun e => absurd e (by decide), fun e => absurd e (by decide), ?_, fun e => absurd e (by decide)⟩
  intro _ k hk hm
  have hk' : k = [108] := by simpa [Cmd.rawArgs] using hk
  rw [hW, hk'] at hm
  have h1 : ([108] : Bytes) = [107] := congrArg Prod.snd (List.mem_singleton.1 hm)
  exact absurd h1 (by decide)

example : ((stepEv FR.Props.C06s.sSet eMove).conn 1).watchNotified = false ∧
    ((stepEv FR.Props.C06s.sSet eBlpop).conn 1).watchNotified = false :=
  ⟨(harmless_history _ [eMove] 1 (by decide) ⟨eMove_harmless, trivial⟩).2.2,
   (harmless_history _ [eBlpop] 1 (by decide) ⟨eBlpop_harmless, trivial⟩).2.2⟩

end FR.Props.C06k
