import FR.Proofs.HashSetAlg
/-!
# C02 — hashes and the set algebra: refinement to finite maps / membership predicates

Every theorem is about `run name ctx raw db`, i.e. `runRegular` applied to the *registered*
signature (`SigTable`) and the *registered* body (`Cmd.regular`) of the command, on an arbitrary
database with unique keys and arbitrary byte strings.

Vocabulary (all defined in `FR/Proofs/HashSetAlg.lean`):
* `hmap db key : Bytes → Option Bytes` — the hash stored at `key` read as a finite map (lookup in the
  stored association list; the empty map for a missing key);
  `smem db key m` — membership in the set stored at `key`.
* `hashView db.live key = some (h, e)` — the key is missing (`h = []`, `e = none`) or holds the hash `h`
  with deadline `e`; `= none` — it holds another type.  Same for `setView`.
* `out.db.live = putAt db.live key v e` — the only change is that `key` now holds `v` with deadline `e`, and
  is *deleted* when `v` is an empty collection (`putAt_self`, `putAt_ne`).
* `CardEq P n` — `n` is the number of byte strings satisfying `P` (`CardEq.unique`).
* `LiveWF db` — representation invariant: field names of every live hash unique, every live set duplicate
  free.  Each theorem assumes it for `db` and proves it for the resulting database.
-/
namespace FR.Props.C02h
open FR FR.HashSet

/-- the database of the non-vacuity examples: a hash with a deadline, a string, two sets, a hash holding an
integer; key `[3]` is missing; the clock stands at 5 -/
def exDb : Db :=
  ⟨[([1], ⟨.hash [([10], [20])], some 50⟩), ([2], ⟨.str [7], none⟩),
    ([4], ⟨.set [[1], [2], [3]], some 90⟩), ([5], ⟨.set [[2], [3], [4]], none⟩),
    ([6], ⟨.hash [([10], [53])], none⟩)], 5⟩
def exCtx : Ctx := { version := 7, time := 5 }

/-- the standing hypotheses hold of `exDb`; the three kinds of view all occur -/
example : NodupKeys exDb.dict ∧ LiveWF exDb ∧
    hashView exDb.live [1] = some ([([10], [20])], some 50) ∧ hashView exDb.live [3] = some ([], none) ∧
    hashView exDb.live [2] = none ∧ setView exDb.live [4] = some ([[1], [2], [3]], some 90) ∧
    setView exDb.live [1] = none :=
  ⟨by decide, liveWF_of_dict (by decide), by rfl, by rfl, by rfl, by rfl, by rfl⟩

/-! ## A. Hashes -/

section hashes
variable (ctx : Ctx) (db : Db) (nd : NodupKeys db.dict) (wf : LiveWF db) (key : Bytes)
  (h : HashV) (e : Option Int) (hv : hashView db.live key = some (h, e))
include nd wf hv

/-- HSET sets all given pairs (later duplicates win), replies the number of NEW fields, keeps the deadline
and the position of the existing fields and appends the new ones (insertion order). -/
theorem hset_refines (f v : Bytes) (rest : List Bytes) (heven : rest.length % 2 = 0) :
    let out := run "hset" ctx (key :: f :: v :: rest) db
    let ps := Cmd.fieldPairs (f :: v :: rest)
    ∃ (h' : HashV) (n : Nat) (new : List Bytes),
      out.reply = .int n ∧ out.failed = false ∧
      CardEq (fun x => x ∈ ps.map Prod.fst ∧ hmap db key x = none) n ∧
      (∀ x, hmap out.db key x = (ps.reverse.lookup x).or (hmap db key x)) ∧
      out.db.live = putAt db.live key (.hash h') e ∧ h' ≠ [] ∧
      h'.map Prod.fst = h.map Prod.fst ++ new ∧
      LiveWF out.db := by
  intro out ps
  obtain ⟨h1, h2, h3⟩ := run_hset ctx key nd hv f v rest heven
  obtain ⟨new, hk, _⟩ := hsetRec_keys h ps
  have hn := hashView_wf wf hv
  refine ⟨(hsetRec h ps).1, (hsetRec h ps).2, new, h1, h3, ?_, ?_, h2, hsetRec_ne_nil h (f, v) _, hk, ?_⟩
  · exact (hsetRec_card hn ps).congr (fun x => by rw [hmap_of_view hv])
  · intro x
    rw [hmap_putAt h2, hsetRec_lookup, hmap_of_view hv]
  · exact liveWF_putAt wf h2 (hsetRec_nodup hn ps)

/-- HMSET: the same update, reply `OK`. -/
theorem hmset_refines (f v : Bytes) (rest : List Bytes) (heven : rest.length % 2 = 0) :
    let out := run "hmset" ctx (key :: f :: v :: rest) db
    let ps := Cmd.fieldPairs (f :: v :: rest)
    ∃ (h' : HashV) (new : List Bytes),
      out.reply = .ok ∧ out.failed = false ∧
      (∀ x, hmap out.db key x = (ps.reverse.lookup x).or (hmap db key x)) ∧
      out.db.live = putAt db.live key (.hash h') e ∧ h' ≠ [] ∧
      h'.map Prod.fst = h.map Prod.fst ++ new ∧
      LiveWF out.db := by
  intro out ps
  obtain ⟨h1, h2, h3⟩ := run_hmset ctx key nd hv f v rest heven
  obtain ⟨new, hk, _⟩ := hsetRec_keys h ps
  have hn := hashView_wf wf hv
  refine ⟨(hsetRec h ps).1, new, h1, h3, ?_, h2, hsetRec_ne_nil h (f, v) _, hk, ?_⟩
  · intro x
    rw [hmap_putAt h2, hsetRec_lookup, hmap_of_view hv]
  · exact liveWF_putAt wf h2 (hsetRec_nodup hn ps)

/-- HSETNX sets the field only if it is absent. -/
theorem hsetnx_refines (f v : Bytes) :
    let out := run "hsetnx" ctx [key, f, v] db
    out.failed = false ∧
    out.reply = .int (if hmap db key f = none then 1 else 0) ∧
    (∀ x, hmap out.db key x = if x = f ∧ hmap db key f = none then some v else hmap db key x) ∧
    (hmap db key f ≠ none → out.db.live = db.live) ∧
    (hmap db key f = none → out.db.live = putAt db.live key (.hash (h ++ [(f, v)])) e) ∧
    (∀ k', k' ≠ key → out.db.live k' = db.live k') ∧
    LiveWF out.db := by
  intro out
  have hn := hashView_wf wf hv
  cases hl : h.lookup f with
  | some v0 =>
    have hm : hmap db key f = some v0 := by rw [hmap_of_view hv, hl]
    obtain ⟨h1, h2, h3⟩ := run_hsetnx_present ctx key nd hv f v (by rw [hl]; rfl)
    refine ⟨h3, (by rw [h1, hm]; rfl), fun x => ?_, fun _ => h2, (fun hc => by rw [hm] at hc; cases hc),
      (fun k' _ => by rw [h2]), liveWF_same wf h2⟩
    have : hmap out.db key x = hmap db key x := by unfold hmap; rw [h2]
    rw [this, hm]; simp
  | none =>
    have hm : hmap db key f = none := by rw [hmap_of_view hv, hl]
    obtain ⟨h1, h2, h3⟩ := run_hsetnx_absent ctx key nd hv f v hl
    refine ⟨h3, (by rw [h1, hm]; rfl), fun x => ?_, fun hc => absurd hm hc, fun _ => h2,
      (fun k' hk' => by rw [h2, putAt_ne _ _ _ hk']), liveWF_putAt wf h2 ?_⟩
    · rw [hmap_putAt h2, hm, List.lookup_append, hmap_of_view hv]
      by_cases hx : x = f
      · subst hx; simp [hl]
      · have : (x == f) = false := by simpa using hx
        simp [hx, List.lookup_cons, this]
    · show NodupF _
      have := nodupF_dictSet hn f v
      have hany : h.any (fun p => p.1 == f) = false := by rw [any_eq_isSome, hl]; rfl
      simpa [ZSet.dictSet, hany] using this

omit wf in
/-- HGET / HMGET / HEXISTS / HSTRLEN read the map and change nothing. -/
theorem hash_point_reads (f : Bytes) (rest : List Bytes) :
    ((run "hget" ctx [key, f] db).reply = Reply.ofOptBulk (hmap db key f) ∧
      (run "hget" ctx [key, f] db).db.live = db.live ∧ (run "hget" ctx [key, f] db).failed = false) ∧
    ((run "hmget" ctx (key :: f :: rest) db).reply =
        .arr ((f :: rest).map fun x => Reply.ofOptBulk (hmap db key x)) ∧
      (run "hmget" ctx (key :: f :: rest) db).db.live = db.live ∧
      (run "hmget" ctx (key :: f :: rest) db).failed = false) ∧
    ((run "hexists" ctx [key, f] db).reply = .int (if (hmap db key f).isSome then 1 else 0) ∧
      (run "hexists" ctx [key, f] db).db.live = db.live ∧ (run "hexists" ctx [key, f] db).failed = false) ∧
    ((run "hstrlen" ctx [key, f] db).reply = .int ((hmap db key f).getD []).length ∧
      (run "hstrlen" ctx [key, f] db).db.live = db.live ∧ (run "hstrlen" ctx [key, f] db).failed = false) := by
  have hm : ∀ x, hmap db key x = h.lookup x := hmap_of_view hv
  refine ⟨?_, ?_, ?_, ?_⟩
  · rw [hm]; exact run_hget ctx key nd hv f
  · have := run_hmget ctx key nd hv f rest
    rw [show (fun x => Reply.ofOptBulk (hmap db key x)) = fun x => Reply.ofOptBulk (h.lookup x) from
      funext fun x => by rw [hm]]
    exact this
  · rw [hm]; exact run_hexists ctx key nd hv f
  · rw [hm]; exact run_hstrlen ctx key nd hv f

/-- HLEN = number of fields; HGETALL / HKEYS / HVALS list exactly the pairs / fields / values of the map,
each field once.  The list `l` is the stored association list, i.e. the fields come out in insertion order
(`hset_refines`, `hdel_refines` say how that order evolves). -/
theorem hash_listing_reads :
    ∃ l : List (Bytes × Bytes),
      l = h ∧ (l.map Prod.fst).Nodup ∧ (∀ f v, (f, v) ∈ l ↔ hmap db key f = some v) ∧
      CardEq (fun f => hmap db key f ≠ none) l.length ∧
      ((run "hlen" ctx [key] db).reply = .int l.length ∧
        (run "hlen" ctx [key] db).db.live = db.live ∧ (run "hlen" ctx [key] db).failed = false) ∧
      ((run "hgetall" ctx [key] db).reply = .arr (l.flatMap fun p => [.bulk p.1, .bulk p.2]) ∧
        (run "hgetall" ctx [key] db).db.live = db.live ∧ (run "hgetall" ctx [key] db).failed = false) ∧
      ((run "hkeys" ctx [key] db).reply = Reply.bulks (l.map Prod.fst) ∧
        (run "hkeys" ctx [key] db).db.live = db.live ∧ (run "hkeys" ctx [key] db).failed = false) ∧
      ((run "hvals" ctx [key] db).reply = Reply.bulks (l.map Prod.snd) ∧
        (run "hvals" ctx [key] db).db.live = db.live ∧ (run "hvals" ctx [key] db).failed = false) := by
  have hn := hashView_wf wf hv
  refine ⟨h, rfl, hn, fun f v => ?_, ⟨h.map Prod.fst, hn, fun f => ?_, by simp⟩,
    run_hlen ctx key nd hv, run_hgetall ctx key nd hv, run_hkeys ctx key nd hv, run_hvals ctx key nd hv⟩
  · rw [hmap_of_view hv]; exact (ZSet.lookup_iff_mem_of_nodup hn).symm
  · show f ∈ _ ↔ hmap db key f ≠ none
    rw [hmap_of_view hv]; exact mem_keys_iff h f

/-- HDEL removes the given fields, replies the number actually removed (duplicates in the argument list count
once), keeps the order of the remaining fields and deletes the key when the hash becomes empty. -/
theorem hdel_refines (f : Bytes) (rest : List Bytes) :
    let out := run "hdel" ctx (key :: f :: rest) db
    let fs := f :: rest
    ∃ n : Nat,
      out.reply = .int n ∧ out.failed = false ∧
      CardEq (fun x => x ∈ fs ∧ hmap db key x ≠ none) n ∧
      (∀ x, hmap out.db key x = if x ∈ fs then none else hmap db key x) ∧
      (n = 0 → out.db.live = db.live) ∧
      (n > 0 → out.db.live = putAt db.live key (.hash (h.filter fun p => !fs.contains p.1)) e) ∧
      (n > 0 → (∀ x, hmap out.db key x = none) → out.db.live key = none) ∧
      (∀ k', k' ≠ key → out.db.live k' = db.live k') ∧
      LiveWF out.db := by
  intro out fs
  have hn := hashView_wf wf hv
  have hcard := (hdelRec_card hn fs).congr (Q := fun x => x ∈ fs ∧ hmap db key x ≠ none)
    (fun x => by rw [hmap_of_view hv])
  by_cases hz : (hdelRec h fs).2 = 0
  · obtain ⟨h1, h2, h3⟩ := run_hdel_none ctx key nd hv f rest hz
    refine ⟨0, h1, h3, (by rw [← hz]; exact hcard), fun x => ?_, fun _ => h2, (fun hc => by omega),
      (fun hc => by omega), (fun k' _ => by rw [h2]), liveWF_same wf h2⟩
    have e1 : hmap out.db key x = hmap db key x := by unfold hmap; rw [h2]
    rw [e1]
    split
    · rename_i hx
      rw [hz] at hcard
      have := hcard.zero x
      simp only [not_and, Decidable.not_not] at this
      exact this hx
    · rfl
  · have hpos : (hdelRec h fs).2 > 0 := by omega
    obtain ⟨h1, h2, h3⟩ := run_hdel_some ctx key nd hv f rest hpos
    have hmo : ∀ x, hmap out.db key x = if x ∈ fs then none else hmap db key x := by
      intro x
      rw [hmap_putAt h2, hdelRec_lookup, hmap_of_view hv]
    refine ⟨(hdelRec h fs).2, h1, h3, hcard, hmo, (fun hc => by omega),
      (fun _ => by rw [h2, hdelRec_fst]), fun _ hall => ?_, (fun k' hk' => by rw [h2, putAt_ne _ _ _ hk']),
      liveWF_putAt wf h2 ?_⟩
    · have : (hdelRec h fs).1 = [] := lookup_all_none (fun x => by rw [← hmap_putAt h2]; exact hall x)
      rw [h2, putAt_self, this]; rfl
    · rw [hdelRec_fst]; exact hn.sublist (List.filter_sublist.map _)

/-- HINCRBY adds to the integer value of the field (missing field = 0); a stored value that is not an integer
("ERR hash value is not an integer") or an overflow of the signed 64-bit range is an error that changes
nothing. -/
theorem hincrby_refines (f nb : Bytes) (amount : Int) (hnb : Conv.int nb = .ok amount) :
    let out := run "hincrby" ctx [key, f, nb] db
    match Conv.int ((hmap db key f).getD (strBytes "0")) with
    | .error _ =>
      out.reply = .err (strBytes Msgs.HASH_NOT_INT_MSG) ∧ out.db.live = db.live ∧ out.failed = true
    | .ok cur =>
      if Conv.INT_MIN ≤ cur + amount ∧ cur + amount ≤ Conv.INT_MAX then
        out.reply = .int (cur + amount) ∧ out.failed = false ∧
        (∀ x, hmap out.db key x = if x = f then some (intBytes (cur + amount)) else hmap db key x) ∧
        out.db.live = putAt db.live key (.hash (ZSet.dictSet h f (intBytes (cur + amount)))) e ∧
        (∀ k', k' ≠ key → out.db.live k' = db.live k') ∧
        LiveWF out.db
      else out.reply = .err (strBytes Msgs.OVERFLOW_MSG) ∧ out.db.live = db.live ∧ out.failed = true := by
  intro out
  rw [hmap_of_view hv]
  cases hcur : Conv.int ((h.lookup f).getD (strBytes "0")) with
  | error er => exact run_hincrby_notint ctx key f nb nd hv hnb hcur
  | ok cur =>
    simp only
    split
    · rename_i hin
      obtain ⟨h1, h2, h3⟩ := run_hincrby_ok ctx key f nb nd hv hnb hcur hin
      refine ⟨h1, h3, fun x => ?_, h2, (fun k' hk' => by rw [h2, putAt_ne _ _ _ hk']),
        liveWF_putAt wf h2 (nodupF_dictSet (hashView_wf wf hv) _ _)⟩
      rw [hmap_putAt h2, ZSet.lookup_dictSet, hmap_of_view hv]
    · rename_i hov
      exact run_hincrby_overflow ctx key f nb nd hv hnb hcur hov

/-- HINCRBYFLOAT: likewise with the model's binary64 arithmetic (`Dbl.add`) and number formatting
(`Cmd.encodeFloat`); a stored value that is not a float ("ERR hash value is not a float"), an increment that is
not a float (the converter's message), or a non-finite sum, is an error that changes nothing. -/
theorem hincrbyfloat_refines (f amt : Bytes) :
    let out := run "hincrbyfloat" ctx [key, f, amt] db
    match Conv.float ((hmap db key f).getD (strBytes "0")), Conv.float amt with
    | .error _, _ =>
      out.reply = .err (strBytes Msgs.HASH_NOT_FLOAT_MSG) ∧ out.db.live = db.live ∧ out.failed = true
    | .ok _, .error er => out.reply = .err (strBytes er) ∧ out.db.live = db.live ∧ out.failed = true
    | .ok cur, .ok a =>
      if (Dbl.add cur a).isFinite = true then
        let enc := Cmd.encodeFloat ctx.version (Dbl.add cur a) true
        out.reply = .bulk enc ∧ out.failed = false ∧
        (∀ x, hmap out.db key x = if x = f then some enc else hmap db key x) ∧
        out.db.live = putAt db.live key (.hash (ZSet.dictSet h f enc)) e ∧
        (∀ k', k' ≠ key → out.db.live k' = db.live k') ∧
        LiveWF out.db
      else out.reply = .err (strBytes Msgs.NONFINITE_MSG) ∧ out.db.live = db.live ∧ out.failed = true := by
  intro out
  rw [hmap_of_view hv]
  cases hcur : Conv.float ((h.lookup f).getD (strBytes "0")) with
  | error er => exact run_hincrbyfloat_badcur ctx key f amt nd hv hcur
  | ok cur =>
    cases ha : Conv.float amt with
    | error er => exact run_hincrbyfloat_badarg ctx key f amt nd hv hcur ha
    | ok a =>
      simp only
      split
      · rename_i hfin
        obtain ⟨h1, h2, h3⟩ := run_hincrbyfloat_ok ctx key f amt nd hv hcur ha hfin
        refine ⟨h1, h3, fun x => ?_, h2, (fun k' hk' => by rw [h2, putAt_ne _ _ _ hk']),
          liveWF_putAt wf h2 (nodupF_dictSet (hashView_wf wf hv) _ _)⟩
        rw [hmap_putAt h2, ZSet.lookup_dictSet, hmap_of_view hv]
      · rename_i hfin
        exact run_hincrbyfloat_nonfinite ctx key f amt nd hv hcur ha (by simpa using hfin)

end hashes

/-- HINCRBY with an increment that is not a 64-bit integer: an error before the key is even looked at. -/
theorem hincrby_badarg (ctx : Ctx) (db : Db) (nd : NodupKeys db.dict) (key f nb : Bytes) (er : Err)
    (hnb : Conv.int nb = .error er) :
    let out := run "hincrby" ctx [key, f, nb] db
    out.reply = .err (strBytes er) ∧ out.db.live = db.live ∧ out.failed = true :=
  run_hincrby_badarg ctx key f nb nd hnb

/-- the hash commands of the property (HINCRBY is treated separately because of its integer argument) -/
def hashCmds : List String :=
  ["hset", "hmset", "hsetnx", "hget", "hmget", "hgetall", "hkeys", "hvals", "hlen", "hexists", "hdel",
   "hstrlen", "hincrbyfloat"]

/-- every hash command on a key holding another type: WRONGTYPE, nothing changes (any accepted arity) -/
theorem hash_wrongtype (ctx : Ctx) (db : Db) (nd : NodupKeys db.dict) (name : String) (hname : name ∈ hashCmds)
    (key : Bytes) (rest : List Bytes) (har : ArityOK (sigOf name) (rest.length + 1))
    (hv : hashView db.live key = none) :
    let out := run name ctx (key :: rest) db
    out.reply = .err (strBytes Msgs.WRONGTYPE_MSG) ∧ out.db.live = db.live ∧ out.failed = true := by
  intro out
  simp only [hashCmds, List.mem_cons, List.mem_nil_iff, or_false] at hname
  rcases hname with rfl | rfl | rfl | rfl | rfl | rfl | rfl | rfl | rfl | rfl | rfl | rfl | rfl
  · exact run_hash_wrongtype ctx key nd "hset" _ 2 rfl (by decide) rest har hv
  · exact run_hash_wrongtype ctx key nd "hmset" _ 2 rfl (by decide) rest har hv
  · exact run_hash_wrongtype ctx key nd "hsetnx" _ 2 rfl (by decide) rest har hv
  · exact run_hash_wrongtype ctx key nd "hget" _ 1 rfl (by decide) rest har hv
  · exact run_hash_wrongtype ctx key nd "hmget" _ 1 rfl (by decide) rest har hv
  · exact run_hash_wrongtype ctx key nd "hgetall" _ 0 rfl (by decide) rest har hv
  · exact run_hash_wrongtype ctx key nd "hkeys" _ 0 rfl (by decide) rest har hv
  · exact run_hash_wrongtype ctx key nd "hvals" _ 0 rfl (by decide) rest har hv
  · exact run_hash_wrongtype ctx key nd "hlen" _ 0 rfl (by decide) rest har hv
  · exact run_hash_wrongtype ctx key nd "hexists" _ 1 rfl (by decide) rest har hv
  · exact run_hash_wrongtype ctx key nd "hdel" _ 1 rfl (by decide) rest har hv
  · exact run_hash_wrongtype ctx key nd "hstrlen" _ 1 rfl (by decide) rest har hv
  · exact run_hash_wrongtype ctx key nd "hincrbyfloat" _ 2 rfl (by decide) rest har hv

theorem hincrby_wrongtype (ctx : Ctx) (db : Db) (nd : NodupKeys db.dict) (key f nb : Bytes) (amount : Int)
    (hnb : Conv.int nb = .ok amount) (hv : hashView db.live key = none) :
    let out := run "hincrby" ctx [key, f, nb] db
    out.reply = .err (strBytes Msgs.WRONGTYPE_MSG) ∧ out.db.live = db.live ∧ out.failed = true :=
  run_hincrby_wrongtype ctx key f nb nd hnb hv

/-- On a missing key the hash is the empty map (so every theorem above applies with `h = []`, `e = none`);
in particular the read commands answer as for the empty map and create nothing. -/
theorem hash_missing_key (ctx : Ctx) (db : Db) (nd : NodupKeys db.dict) (key f : Bytes) (rest : List Bytes)
    (hmiss : db.live key = none) :
    hashView db.live key = some ([], none) ∧ (∀ x, hmap db key x = none) ∧
    (run "hget" ctx [key, f] db).reply = .nil ∧ (run "hget" ctx [key, f] db).db.live key = none ∧
    (run "hmget" ctx (key :: f :: rest) db).reply = .arr ((f :: rest).map fun _ => .nil) ∧
    (run "hexists" ctx [key, f] db).reply = .int 0 ∧ (run "hstrlen" ctx [key, f] db).reply = .int 0 ∧
    (run "hlen" ctx [key] db).reply = .int 0 ∧ (run "hgetall" ctx [key] db).reply = .arr [] ∧
    (run "hkeys" ctx [key] db).reply = .arr [] ∧ (run "hvals" ctx [key] db).reply = .arr [] ∧
    (run "hdel" ctx (key :: f :: rest) db).reply = .int 0 ∧
    (run "hdel" ctx (key :: f :: rest) db).db.live key = none ∧
    (run "hgetall" ctx [key] db).db.live key = none := by
  have hv := hashView_missing (live := db.live) hmiss
  have hm : ∀ x, hmap db key x = none := fun x => by rw [hmap_of_view hv]; rfl
  have hz : (hdelRec [] (f :: rest)).2 = 0 := by
    have := hdelRec_length (h := []) List.nodup_nil (f :: rest)
    simp at this; omega
  refine ⟨hv, hm, (run_hget ctx key nd hv f).1, ?_, (run_hmget ctx key nd hv f rest).1,
    (run_hexists ctx key nd hv f).1, (run_hstrlen ctx key nd hv f).1, (run_hlen ctx key nd hv).1,
    (run_hgetall ctx key nd hv).1, (run_hkeys ctx key nd hv).1, (run_hvals ctx key nd hv).1,
    (run_hdel_none ctx key nd hv f rest hz).1, ?_, ?_⟩
  · rw [(run_hget ctx key nd hv f).2.1]; exact hmiss
  · rw [(run_hdel_none ctx key nd hv f rest hz).2.1]; exact hmiss
  · rw [(run_hgetall ctx key nd hv).2.1]; exact hmiss

/-! ### non-vacuity of part A (the hypotheses of every theorem hold of `exDb`, see above) -/

/-- `hset_refines` / `hmset_refines`: two new fields of which one given twice (later value wins), one
overwritten: reply 1... here `[11]` is new, `[10]` is overwritten; the deadline 50 stays -/
example :
    (run "hset" exCtx [[1], [11], [21], [10], [22], [11], [23]] exDb).reply = .int 1 ∧
    (run "hset" exCtx [[1], [11], [21], [10], [22], [11], [23]] exDb).db.live [1]
      = some ⟨.hash [([10], [22]), ([11], [23])], some 50⟩ ∧
    (run "hmset" exCtx [[3], [11], [21]] exDb).reply = .ok ∧
    (run "hmset" exCtx [[3], [11], [21]] exDb).db.live [3] = some ⟨.hash [([11], [21])], none⟩ :=
  ⟨by rfl, by rfl, by rfl, by rfl⟩
/-- `hsetnx_refines`: present field untouched, absent field set -/
example :
    (run "hsetnx" exCtx [[1], [10], [9]] exDb).reply = .int 0 ∧
    hmap (run "hsetnx" exCtx [[1], [10], [9]] exDb).db [1] [10] = some [20] ∧
    (run "hsetnx" exCtx [[1], [12], [9]] exDb).reply = .int 1 ∧
    hmap (run "hsetnx" exCtx [[1], [12], [9]] exDb).db [1] [12] = some [9] :=
  ⟨by rfl, by decide +kernel, by rfl, by decide +kernel⟩
/-- `hash_point_reads`, `hash_listing_reads` -/
example :
    (run "hget" exCtx [[1], [10]] exDb).reply = .bulk [20] ∧
    (run "hmget" exCtx [[1], [10], [99]] exDb).reply = .arr [.bulk [20], .nil] ∧
    (run "hexists" exCtx [[1], [99]] exDb).reply = .int 0 ∧
    (run "hstrlen" exCtx [[1], [10]] exDb).reply = .int 1 ∧
    (run "hlen" exCtx [[1]] exDb).reply = .int 1 ∧
    (run "hgetall" exCtx [[1]] exDb).reply = .arr [.bulk [10], .bulk [20]] :=
  ⟨by rfl, by rfl, by rfl, by rfl, by rfl, by rfl⟩
/-- `hdel_refines`: a duplicate in the argument list counts once; the emptied hash is deleted -/
example :
    (run "hdel" exCtx [[1], [10], [10], [99]] exDb).reply = .int 1 ∧
    (run "hdel" exCtx [[1], [10], [10], [99]] exDb).db.live [1] = none ∧
    (run "hdel" exCtx [[1], [99]] exDb).reply = .int 0 :=
  ⟨by rfl, by rfl, by rfl⟩
/-- `hincrby_refines`: 5 + 3 = 8; 5 + (2^63 - 1) overflows and changes nothing; missing field counts as 0;
a stored value that is not an integer gets its own message -/
example :
    Conv.int [51] = .ok 3 ∧
    (run "hincrby" exCtx [[6], [10], [51]] exDb).reply = .int 8 ∧
    hmap (run "hincrby" exCtx [[6], [10], [51]] exDb).db [6] [10] = some [56] ∧
    (match (run "hincrby" exCtx [[6], [77], [51]] exDb).reply with | .int n => n | _ => -1) = 3 ∧
    (run "hincrby" exCtx
      [[6], [10], [57, 50, 50, 51, 51, 55, 50, 48, 51, 54, 56, 53, 52, 55, 55, 53, 56, 48, 55]] exDb).reply
      = .err (strBytes Msgs.OVERFLOW_MSG) ∧
    (run "hincrby" exCtx [[1], [10], [51]] exDb).reply = .err (strBytes Msgs.HASH_NOT_INT_MSG) ∧
    (run "hincrby" exCtx [[1], [10], [51]] exDb).db.live = exDb.live :=
  ⟨by rfl, by rfl, by decide +kernel, by decide +kernel, by rfl, by rfl, by rfl⟩
/-- `hincrbyfloat_refines`: "5" + "0.5" = "5.5"; a stored value that is not a float and an increment that is not
a float get different messages -/
example :
    (match (run "hincrbyfloat" exCtx [[6], [10], [48, 46, 53]] exDb).reply with | .bulk b => b | _ => [])
      = [53, 46, 53] ∧
    hmap (run "hincrbyfloat" exCtx [[6], [10], [48, 46, 53]] exDb).db [6] [10] = some [53, 46, 53] ∧
    (match (run "hincrbyfloat" exCtx [[1], [10], [49]] exDb).reply with | .err b => b | _ => [])
      = strBytes Msgs.HASH_NOT_FLOAT_MSG ∧
    (match (run "hincrbyfloat" exCtx [[6], [10], [120]] exDb).reply with | .err b => b | _ => [])
      = strBytes Msgs.INVALID_FLOAT_MSG :=
  ⟨by decide +kernel, by decide +kernel, by decide +kernel, by decide +kernel⟩
/-- `hash_wrongtype`, `hincrby_badarg`, `hash_missing_key` -/
example :
    "hset" ∈ hashCmds ∧ ArityOK (sigOf "hset") 3 ∧
    (run "hset" exCtx [[2], [1], [1]] exDb).reply = .err (strBytes Msgs.WRONGTYPE_MSG) ∧
    (run "hincrby" exCtx [[2], [10], [120]] exDb).reply = .err (strBytes Msgs.INVALID_INT_MSG) ∧
    (run "hgetall" exCtx [[3]] exDb).reply = .arr [] ∧ (run "hgetall" exCtx [[3]] exDb).db.live [3] = none :=
  ⟨by decide, by decide, by rfl, by rfl, by rfl, by rfl⟩

/-! ## B. Sets -/

section sets
variable (ctx : Ctx) (db : Db) (nd : NodupKeys db.dict) (wf : LiveWF db) (key : Bytes)
  (s : List Bytes) (e : Option Int) (hv : setView db.live key = some (s, e))
include nd wf hv

/-- SADD adds the members and replies the number of new ones. -/
theorem sadd_refines (m : Bytes) (rest : List Bytes) :
    let out := run "sadd" ctx (key :: m :: rest) db
    let ms := m :: rest
    ∃ (s' : List Bytes) (n : Nat),
      out.reply = .int n ∧ out.failed = false ∧
      CardEq (fun x => x ∈ ms ∧ ¬ smem db key x) n ∧
      (∀ x, smem out.db key x ↔ smem db key x ∨ x ∈ ms) ∧
      out.db.live = putAt db.live key (.set s') e ∧ s' ≠ [] ∧
      LiveWF out.db := by
  intro out ms
  obtain ⟨h1, h2, h3⟩ := run_sadd ctx key nd hv m rest
  have hn := setView_wf wf hv
  refine ⟨Cmd.setUnion s ms, _, h1, h3, ?_, fun x => ?_, h2, ?_, liveWF_putAt wf h2 (nodup_setUnion hn ms)⟩
  · exact (setUnion_card s ms).congr (fun x => by rw [smem_of_view hv])
  · rw [smem_putAt h2, mem_setUnion, smem_of_view hv]
  · intro hnil
    have : m ∈ Cmd.setUnion s ms := (mem_setUnion s ms m).2 (Or.inr (by simp [ms]))
    rw [hnil] at this; cases this

/-- PFADD (HyperLogLog as an exact set): adds the members, replies 1 iff something was new. -/
theorem pfadd_refines (ms : List Bytes) :
    let out := run "pfadd" ctx (key :: ms) db
    out.failed = false ∧
    ((out.reply = .int 1 ∧ ∃ x ∈ ms, ¬ smem db key x) ∨ (out.reply = .int 0 ∧ ∀ x ∈ ms, smem db key x)) ∧
    (∀ x, smem out.db key x ↔ smem db key x ∨ x ∈ ms) ∧
    out.db.live = putAt db.live key (.set (Cmd.setUnion s ms)) e ∧
    LiveWF out.db := by
  intro out
  obtain ⟨h1, h2, h3⟩ := run_pfadd ctx key nd hv ms
  have hn := setView_wf wf hv
  have hcard := (setUnion_card s ms).congr (Q := fun x => x ∈ ms ∧ ¬ smem db key x)
    (fun x => by rw [smem_of_view hv])
  refine ⟨h3, ?_, fun x => ?_, h2, liveWF_putAt wf h2 (nodup_setUnion hn ms)⟩
  · by_cases hp : (Cmd.setUnion s ms).length - s.length > 0
    · rw [if_pos hp] at h1
      obtain ⟨x, hx1, hx2⟩ := hcard.pos.1 hp
      exact Or.inl ⟨h1, x, hx1, hx2⟩
    · rw [if_neg hp] at h1
      refine Or.inr ⟨h1, fun x hx => ?_⟩
      by_cases hsm : smem db key x
      · exact hsm
      · exact absurd (hcard.pos.2 ⟨x, hx, hsm⟩) hp
  · rw [smem_putAt h2, mem_setUnion, smem_of_view hv]

/-- SREM removes the members, replies the number actually removed, deletes the key when the set becomes
empty. -/
theorem srem_refines (m : Bytes) (rest : List Bytes) :
    let out := run "srem" ctx (key :: m :: rest) db
    let ms := m :: rest
    ∃ n : Nat,
      out.reply = .int n ∧ out.failed = false ∧
      CardEq (fun x => x ∈ ms ∧ smem db key x) n ∧
      (∀ x, smem out.db key x ↔ smem db key x ∧ x ∉ ms) ∧
      (n = 0 → out.db.live = db.live) ∧
      (n > 0 → out.db.live = putAt db.live key (.set (s.filter fun x => !ms.contains x)) e) ∧
      (n > 0 → (∀ x, ¬ smem out.db key x) → out.db.live key = none) ∧
      (∀ k', k' ≠ key → out.db.live k' = db.live k') ∧
      LiveWF out.db := by
  intro out ms
  have hn := setView_wf wf hv
  have hcard := (setDiff_card hn ms).congr (Q := fun x => x ∈ ms ∧ smem db key x)
    (fun x => by rw [smem_of_view hv])
  by_cases hz : s.length - (Cmd.setDiff s (m :: rest)).length = 0
  · obtain ⟨h1, h2, h3⟩ := run_srem_none ctx key nd hv m rest hz
    refine ⟨0, h1, h3, (by rw [← hz]; exact hcard), fun x => ?_, fun _ => h2, (fun hc => by omega),
      (fun hc => by omega), (fun k' _ => by rw [h2]), liveWF_same wf h2⟩
    have e1 : smem out.db key x ↔ smem db key x := by unfold smem; rw [h2]
    rw [e1]
    rw [hz] at hcard
    have := hcard.zero x
    constructor
    · intro hx; exact ⟨hx, fun hm => this ⟨hm, hx⟩⟩
    · exact fun hx => hx.1
  · have hpos : s.length - (Cmd.setDiff s (m :: rest)).length > 0 := by omega
    obtain ⟨h1, h2, h3⟩ := run_srem_some ctx key nd hv m rest hpos
    refine ⟨_, h1, h3, hcard, fun x => ?_, (fun hc => by omega), fun _ => h2, fun _ hall => ?_,
      (fun k' hk' => by rw [h2, putAt_ne _ _ _ hk']), liveWF_putAt wf h2 (nodup_setDiff hn ms)⟩
    · rw [smem_putAt h2, FR.Proofs.mem_setDiff, smem_of_view hv]
    · have : Cmd.setDiff s ms = [] := by
        cases hd : Cmd.setDiff s ms with
        | nil => rfl
        | cons y ys =>
          exfalso
          exact hall y ((smem_putAt h2 y).2 (by rw [hd]; simp))
      rw [h2, putAt_self, this]; rfl

/-- SCARD / SMEMBERS / SISMEMBER / SMISMEMBER read the set and change nothing; SMEMBERS lists every member
exactly once. -/
theorem set_reads (m : Bytes) (rest : List Bytes) :
    ∃ l : List Bytes,
      l.Nodup ∧ (∀ x, x ∈ l ↔ smem db key x) ∧
      ((run "scard" ctx [key] db).reply = .int l.length ∧
        (run "scard" ctx [key] db).db.live = db.live ∧ (run "scard" ctx [key] db).failed = false) ∧
      ((run "smembers" ctx [key] db).reply = Reply.bulks l ∧
        (run "smembers" ctx [key] db).db.live = db.live ∧ (run "smembers" ctx [key] db).failed = false) ∧
      ((run "sismember" ctx [key, m] db).reply = .int (if smem db key m then 1 else 0) ∧
        (run "sismember" ctx [key, m] db).db.live = db.live ∧
        (run "sismember" ctx [key, m] db).failed = false) ∧
      ((run "smismember" ctx (key :: m :: rest) db).reply =
          .arr ((m :: rest).map fun x => .int (if smem db key x then 1 else 0)) ∧
        (run "smismember" ctx (key :: m :: rest) db).db.live = db.live ∧
        (run "smismember" ctx (key :: m :: rest) db).failed = false) := by
  have hn := setView_wf wf hv
  have hc : ∀ x, (if smem db key x then (1 : Int) else 0) = if s.contains x then 1 else 0 := by
    intro x
    by_cases hx : x ∈ s
    · simp [(smem_of_view hv x).2 hx, hx]
    · have : ¬ smem db key x := fun h' => hx ((smem_of_view hv x).1 h')
      simp [this, hx]
  refine ⟨s, hn, fun x => (smem_of_view hv x).symm, run_scard ctx key nd hv, run_smembers ctx key nd hv, ?_, ?_⟩
  · rw [hc]; exact run_sismember ctx key nd hv m
  · have := run_smismember ctx key nd hv m rest
    rw [show (fun x => Reply.int (if smem db key x then 1 else 0)) =
      fun x => Reply.int (if s.contains x then 1 else 0) from funext fun x => by rw [hc]]
    exact this

end sets

/-- the single-key set commands -/
def setCmds : List String := ["sadd", "srem", "scard", "sismember", "smismember", "smembers", "pfadd"]

/-- a single-key set command on a key holding another type: WRONGTYPE, nothing changes -/
theorem set_wrongtype (ctx : Ctx) (db : Db) (nd : NodupKeys db.dict) (name : String) (hname : name ∈ setCmds)
    (key : Bytes) (rest : List Bytes) (har : ArityOK (sigOf name) (rest.length + 1))
    (hv : setView db.live key = none) :
    let out := run name ctx (key :: rest) db
    out.reply = .err (strBytes Msgs.WRONGTYPE_MSG) ∧ out.db.live = db.live ∧ out.failed = true := by
  intro out
  simp only [setCmds, List.mem_cons, List.mem_nil_iff, or_false] at hname
  rcases hname with rfl | rfl | rfl | rfl | rfl | rfl | rfl
  · exact run_set_wrongtype ctx key nd "sadd" _ 1 rfl (by decide) rest har hv
  · exact run_set_wrongtype ctx key nd "srem" _ 1 rfl (by decide) rest har hv
  · exact run_set_wrongtype ctx key nd "scard" _ 0 rfl (by decide) rest har hv
  · exact run_set_wrongtype ctx key nd "sismember" _ 1 rfl (by decide) rest har hv
  · exact run_set_wrongtype ctx key nd "smismember" _ 1 rfl (by decide) rest har hv
  · exact run_set_wrongtype ctx key nd "smembers" _ 0 rfl (by decide) rest har hv
  · exact run_set_wrongtype ctx key nd "pfadd" _ 0 rfl (by decide) rest har hv

/-! ### non-vacuity of the single-key set theorems -/

/-- `sadd_refines` (a duplicate argument counts once; a missing key is the empty set), `pfadd_refines` -/
example :
    (run "sadd" exCtx [[3], [1], [1], [3]] exDb).reply = .int 2 ∧
    (run "sadd" exCtx [[4], [3], [9]] exDb).reply = .int 1 ∧
    (run "sadd" exCtx [[4], [3], [9]] exDb).db.live [4] = some ⟨.set [[1], [2], [3], [9]], some 90⟩ ∧
    (run "pfadd" exCtx [[4], [3]] exDb).reply = .int 0 ∧ (run "pfadd" exCtx [[4], [3], [9]] exDb).reply = .int 1 :=
  ⟨by rfl, by rfl, by rfl, by rfl, by rfl⟩
/-- `srem_refines`: emptying the set deletes the key -/
example :
    (run "srem" exCtx [[4], [1], [2], [3], [3]] exDb).reply = .int 3 ∧
    (run "srem" exCtx [[4], [1], [2], [3], [3]] exDb).db.live [4] = none ∧
    (run "srem" exCtx [[4], [9]] exDb).reply = .int 0 :=
  ⟨by rfl, by rfl, by rfl⟩
/-- `set_reads`, `set_wrongtype` -/
example :
    (run "scard" exCtx [[4]] exDb).reply = .int 3 ∧
    (run "smembers" exCtx [[4]] exDb).reply = Reply.bulks [[1], [2], [3]] ∧
    (run "sismember" exCtx [[4], [2]] exDb).reply = .int 1 ∧
    (run "smismember" exCtx [[4], [2], [9]] exDb).reply = .arr [.int 1, .int 0] ∧
    "scard" ∈ setCmds ∧ ArityOK (sigOf "scard") 1 ∧
    (run "scard" exCtx [[1]] exDb).reply = .err (strBytes Msgs.WRONGTYPE_MSG) :=
  ⟨by rfl, by rfl, by rfl, by rfl, by decide, by decide, by rfl⟩

/-! ### SUNION / SINTER / SDIFF and their STORE forms -/

section setops
variable (ctx : Ctx) (db : Db) (nd : NodupKeys db.dict) (wf : LiveWF db)
include nd wf

/-- generic form: `name` is registered with the signature `(Key(set),) (Key(set),)` and the body
`setopRead op` -/
theorem setop_read_generic (name : String) (op : Cmd.SetOp)
    (hfix : (sigOf name).fixed = List.replicate 1 (.key (some .set) .unspecified))
    (hrep : (sigOf name).rep = [.key (some .set) .unspecified])
    (k : Bytes) (ks : List Bytes) (hall : ∀ k' ∈ k :: ks, setView db.live k' ≠ none) :
    let out := runRegular (sigOf name) (Cmd.setopRead op) ctx none (k :: ks) db
    ∃ l : List Bytes,
      out.reply = Reply.bulks l ∧ l.Nodup ∧ (∀ m, m ∈ l ↔ SetopAbs op db k ks m) ∧
      out.db.live = db.live ∧ out.failed = false := by
  intro out
  have := run_setopRead ctx nd name op hfix hrep k ks
  simp only at this
  rw [if_pos ((all_typeOK_iff _ _).2 hall)] at this
  refine ⟨_, this.1.1, calcSetop_nodup op (setAt_nodup wf k) _, fun m => ?_, this.2, this.1.2⟩
  rw [calcSetop_mem, setopSpec_smem op k ks hall]

/-- SUNION: `m` is in the reply iff it is in some operand; no duplicates; missing keys are empty sets -/
theorem sunion_refines (k : Bytes) (ks : List Bytes) (hall : ∀ k' ∈ k :: ks, setView db.live k' ≠ none) :
    let out := run "sunion" ctx (k :: ks) db
    ∃ l : List Bytes,
      out.reply = Reply.bulks l ∧ l.Nodup ∧ (∀ m, m ∈ l ↔ ∃ k' ∈ k :: ks, smem db k' m) ∧
      out.db.live = db.live ∧ out.failed = false :=
  setop_read_generic ctx db nd wf "sunion" .union rfl rfl k ks hall

/-- SINTER: `m` is in the reply iff it is in every operand -/
theorem sinter_refines (k : Bytes) (ks : List Bytes) (hall : ∀ k' ∈ k :: ks, setView db.live k' ≠ none) :
    let out := run "sinter" ctx (k :: ks) db
    ∃ l : List Bytes,
      out.reply = Reply.bulks l ∧ l.Nodup ∧ (∀ m, m ∈ l ↔ ∀ k' ∈ k :: ks, smem db k' m) ∧
      out.db.live = db.live ∧ out.failed = false :=
  setop_read_generic ctx db nd wf "sinter" .inter rfl rfl k ks hall

/-- SDIFF: `m` is in the reply iff it is in the first operand and in none of the others -/
theorem sdiff_refines (k : Bytes) (ks : List Bytes) (hall : ∀ k' ∈ k :: ks, setView db.live k' ≠ none) :
    let out := run "sdiff" ctx (k :: ks) db
    ∃ l : List Bytes,
      out.reply = Reply.bulks l ∧ l.Nodup ∧ (∀ m, m ∈ l ↔ smem db k m ∧ ∀ k' ∈ ks, ¬ smem db k' m) ∧
      out.db.live = db.live ∧ out.failed = false :=
  setop_read_generic ctx db nd wf "sdiff" .diff rfl rfl k ks hall

/-- PFCOUNT of several keys = cardinality of the union -/
theorem pfcount_refines (k : Bytes) (ks : List Bytes) (hall : ∀ k' ∈ k :: ks, setView db.live k' ≠ none) :
    let out := run "pfcount" ctx (k :: ks) db
    ∃ n : Nat, out.reply = .int n ∧ CardEq (fun m => ∃ k' ∈ k :: ks, smem db k' m) n ∧
      out.db.live = db.live ∧ out.failed = false := by
  intro out
  have := run_pfcount ctx nd k ks
  simp only at this
  rw [if_pos ((all_typeOK_iff _ _).2 hall)] at this
  refine ⟨_, this.1.1, ⟨_, calcSetop_nodup .union (setAt_nodup wf k) _, fun m => ?_, rfl⟩, this.2, this.1.2⟩
  rw [calcSetop_mem, setopSpec_smem .union k ks hall]; rfl

/-- generic form of the STORE commands: signature `(Key(), Key(set)) (Key(set),)`, body `setopStore op`.
The destination may hold any type and any deadline, and may be one of the sources: the sources are read
before anything is written.  The result replaces the destination, without deadline; an empty result deletes
it. -/
theorem setop_store_generic (name : String) (op : Cmd.SetOp)
    (hfix : (sigOf name).fixed = [.key none .unspecified, .key (some .set) .unspecified])
    (hrep : (sigOf name).rep = [.key (some .set) .unspecified])
    (dst k : Bytes) (ks : List Bytes) (hall : ∀ k' ∈ k :: ks, setView db.live k' ≠ none) :
    let out := runRegular (sigOf name) (Cmd.setopStore op) ctx none (dst :: k :: ks) db
    ∃ l : List Bytes,
      out.reply = .int l.length ∧ l.Nodup ∧ (∀ m, m ∈ l ↔ SetopAbs op db k ks m) ∧
      out.db.live = putAt db.live dst (.set l) none ∧
      (∀ m, smem out.db dst m ↔ SetopAbs op db k ks m) ∧
      out.failed = false ∧ LiveWF out.db := by
  intro out
  have := run_setopStore ctx nd name op hfix hrep dst k ks
  simp only at this
  rw [if_pos ((all_typeOK_iff _ _).2 hall)] at this
  have hnd := calcSetop_nodup op (setAt_nodup wf k) (ks.map (setAt db.live))
  have hmem : ∀ m, m ∈ Cmd.calcSetop op (setAt db.live k) (ks.map (setAt db.live)) ↔ SetopAbs op db k ks m :=
    fun m => by rw [calcSetop_mem, setopSpec_smem op k ks hall]
  exact ⟨_, this.1, hnd, hmem, this.2.1, fun m => by rw [smem_putAt this.2.1, hmem], this.2.2,
    liveWF_putAt wf this.2.1 hnd⟩

theorem sunionstore_refines (dst k : Bytes) (ks : List Bytes)
    (hall : ∀ k' ∈ k :: ks, setView db.live k' ≠ none) :
    let out := run "sunionstore" ctx (dst :: k :: ks) db
    ∃ l : List Bytes,
      out.reply = .int l.length ∧ l.Nodup ∧ (∀ m, m ∈ l ↔ ∃ k' ∈ k :: ks, smem db k' m) ∧
      out.db.live = putAt db.live dst (.set l) none ∧
      (∀ m, smem out.db dst m ↔ ∃ k' ∈ k :: ks, smem db k' m) ∧
      out.failed = false ∧ LiveWF out.db :=
  setop_store_generic ctx db nd wf "sunionstore" .union rfl rfl dst k ks hall

theorem sinterstore_refines (dst k : Bytes) (ks : List Bytes)
    (hall : ∀ k' ∈ k :: ks, setView db.live k' ≠ none) :
    let out := run "sinterstore" ctx (dst :: k :: ks) db
    ∃ l : List Bytes,
      out.reply = .int l.length ∧ l.Nodup ∧ (∀ m, m ∈ l ↔ ∀ k' ∈ k :: ks, smem db k' m) ∧
      out.db.live = putAt db.live dst (.set l) none ∧
      (∀ m, smem out.db dst m ↔ ∀ k' ∈ k :: ks, smem db k' m) ∧
      out.failed = false ∧ LiveWF out.db :=
  setop_store_generic ctx db nd wf "sinterstore" .inter rfl rfl dst k ks hall

theorem sdiffstore_refines (dst k : Bytes) (ks : List Bytes)
    (hall : ∀ k' ∈ k :: ks, setView db.live k' ≠ none) :
    let out := run "sdiffstore" ctx (dst :: k :: ks) db
    ∃ l : List Bytes,
      out.reply = .int l.length ∧ l.Nodup ∧ (∀ m, m ∈ l ↔ smem db k m ∧ ∀ k' ∈ ks, ¬ smem db k' m) ∧
      out.db.live = putAt db.live dst (.set l) none ∧
      (∀ m, smem out.db dst m ↔ smem db k m ∧ ∀ k' ∈ ks, ¬ smem db k' m) ∧
      out.failed = false ∧ LiveWF out.db :=
  setop_store_generic ctx db nd wf "sdiffstore" .diff rfl rfl dst k ks hall

/-- PFMERGE stores the union of destination and sources at the destination (which must itself be a set or
missing).  The destination is modified in place: its deadline `ed` is KEPT (a missing destination has none). -/
theorem pfmerge_refines (dst k : Bytes) (ks : List Bytes) (sd : List Bytes) (ed : Option Int)
    (hvd : setView db.live dst = some (sd, ed))
    (hall : ∀ k' ∈ k :: ks, setView db.live k' ≠ none) :
    let out := run "pfmerge" ctx (dst :: k :: ks) db
    ∃ l : List Bytes,
      out.reply = .ok ∧ l.Nodup ∧ (∀ m, m ∈ l ↔ ∃ k' ∈ dst :: k :: ks, smem db k' m) ∧
      out.db.live = putAt db.live dst (.set l) ed ∧
      (∀ m, smem out.db dst m ↔ smem db dst m ∨ ∃ k' ∈ k :: ks, smem db k' m) ∧
      (∀ k', k' ≠ dst → out.db.live k' = db.live k') ∧
      out.failed = false ∧ LiveWF out.db := by
  intro out
  have hall' : ∀ k' ∈ dst :: k :: ks, setView db.live k' ≠ none := by
    intro k' hk'
    rcases List.mem_cons.1 hk' with rfl | hk'
    · rw [hvd]; exact fun h => by cases h
    · exact hall k' hk'
  have := run_pfmerge ctx nd dst k ks
  simp only at this
  rw [if_pos ((all_typeOK_iff _ _).2 hall'), (setView_some hvd).2] at this
  have hnd := calcSetop_nodup .union (setAt_nodup wf dst) ((k :: ks).map (setAt db.live))
  have hmem : ∀ m, m ∈ Cmd.calcSetop .union (setAt db.live dst) ((k :: ks).map (setAt db.live)) ↔
      ∃ k' ∈ dst :: k :: ks, smem db k' m :=
    fun m => by rw [calcSetop_mem, setopSpec_smem .union dst (k :: ks) hall']; rfl
  refine ⟨_, this.1, hnd, hmem, this.2.1, fun m => ?_, (fun k' hk' => by rw [this.2.1, putAt_ne _ _ _ hk']),
    this.2.2, liveWF_putAt wf this.2.1 hnd⟩
  rw [smem_putAt this.2.1, hmem]
  simp only [List.mem_cons, exists_eq_or_imp]

end setops

/-- a multi-key set command with an operand of another type: WRONGTYPE, nothing changes -/
theorem setop_wrongtype (ctx : Ctx) (db : Db) (nd : NodupKeys db.dict) (dst k : Bytes) (ks : List Bytes)
    (hbad : ∃ k' ∈ k :: ks, setView db.live k' = none) :
    (∀ name ∈ ["sunion", "sinter", "sdiff", "pfcount"],
      (run name ctx (k :: ks) db).reply = .err (strBytes Msgs.WRONGTYPE_MSG) ∧
      (run name ctx (k :: ks) db).db.live = db.live ∧ (run name ctx (k :: ks) db).failed = true) ∧
    (∀ name ∈ ["sunionstore", "sinterstore", "sdiffstore"],
      (run name ctx (dst :: k :: ks) db).reply = .err (strBytes Msgs.WRONGTYPE_MSG) ∧
      (run name ctx (dst :: k :: ks) db).db.live = db.live ∧
      (run name ctx (dst :: k :: ks) db).failed = true) := by
  have hnot : ¬ ((k :: ks).all (typeOK db.live (some .set)) = true) := by
    rw [all_typeOK_iff]
    obtain ⟨k', hk', hv⟩ := hbad
    exact fun h => h k' hk' hv
  constructor
  · intro name hname
    simp only [List.mem_cons, List.mem_nil_iff, or_false] at hname
    rcases hname with rfl | rfl | rfl | rfl
    · have := run_setopRead ctx nd "sunion" .union rfl rfl k ks
      simp only at this
      rw [if_neg hnot] at this; exact ⟨this.1.1, this.2, this.1.2⟩
    · have := run_setopRead ctx nd "sinter" .inter rfl rfl k ks
      simp only at this
      rw [if_neg hnot] at this; exact ⟨this.1.1, this.2, this.1.2⟩
    · have := run_setopRead ctx nd "sdiff" .diff rfl rfl k ks
      simp only at this
      rw [if_neg hnot] at this; exact ⟨this.1.1, this.2, this.1.2⟩
    · have := run_pfcount ctx nd k ks
      simp only at this
      rw [if_neg hnot] at this; exact ⟨this.1.1, this.2, this.1.2⟩
  · intro name hname
    simp only [List.mem_cons, List.mem_nil_iff, or_false] at hname
    rcases hname with rfl | rfl | rfl
    · have := run_setopStore ctx nd "sunionstore" .union rfl rfl dst k ks
      simp only at this
      rw [if_neg hnot] at this; exact this
    · have := run_setopStore ctx nd "sinterstore" .inter rfl rfl dst k ks
      simp only at this
      rw [if_neg hnot] at this; exact this
    · have := run_setopStore ctx nd "sdiffstore" .diff rfl rfl dst k ks
      simp only at this
      rw [if_neg hnot] at this; exact this

/-- PFMERGE with a destination or source of another type: WRONGTYPE, nothing changes -/
theorem pfmerge_wrongtype (ctx : Ctx) (db : Db) (nd : NodupKeys db.dict) (dst k : Bytes) (ks : List Bytes)
    (hbad : ∃ k' ∈ dst :: k :: ks, setView db.live k' = none) :
    let out := run "pfmerge" ctx (dst :: k :: ks) db
    out.reply = .err (strBytes Msgs.WRONGTYPE_MSG) ∧ out.db.live = db.live ∧ out.failed = true := by
  intro out
  have hnot : ¬ ((dst :: k :: ks).all (typeOK db.live (some .set)) = true) := by
    rw [all_typeOK_iff]
    obtain ⟨k', hk', hv⟩ := hbad
    exact fun h => h k' hk' hv
  have := run_pfmerge ctx nd dst k ks
  simp only at this
  rw [if_neg hnot] at this
  exact this

/-! ### non-vacuity of the multi-key theorems -/

example : ∀ k' ∈ [[4], [5], [3]], setView exDb.live k' ≠ none := by decide +kernel
/-- `sunion_refines`, `sinter_refines`, `sdiff_refines`, `pfcount_refines`; the missing key `[3]` is empty -/
example :
    (run "sunion" exCtx [[4], [5], [3]] exDb).reply = Reply.bulks [[1], [2], [3], [4]] ∧
    (run "sinter" exCtx [[4], [5]] exDb).reply = Reply.bulks [[2], [3]] ∧
    (run "sinter" exCtx [[4], [5], [3]] exDb).reply = Reply.bulks [] ∧
    (run "sdiff" exCtx [[4], [5], [3]] exDb).reply = Reply.bulks [[1]] ∧
    (run "pfcount" exCtx [[4], [5], [3]] exDb).reply = .int 4 :=
  ⟨by rfl, by rfl, by rfl, by rfl, by rfl⟩
/-- the STORE forms: destination = a source (its deadline 90 is dropped); destination of another type is
replaced; an empty result deletes the destination -/
example :
    (run "sunionstore" exCtx [[4], [4], [5]] exDb).reply = .int 4 ∧
    (run "sunionstore" exCtx [[4], [4], [5]] exDb).db.live [4] = some ⟨.set [[1], [2], [3], [4]], none⟩ ∧
    (run "sdiffstore" exCtx [[2], [4], [5]] exDb).db.live [2] = some ⟨.set [[1]], none⟩ ∧
    (run "sinterstore" exCtx [[4], [5], [3]] exDb).reply = .int 0 ∧
    (run "sinterstore" exCtx [[4], [5], [3]] exDb).db.live [4] = none :=
  ⟨by rfl, by rfl, by rfl, by rfl, by rfl⟩
/-- `pfmerge_refines` (the destination's deadline 90 is kept; a missing destination gets none),
`setop_wrongtype` -/
example :
    (run "pfmerge" exCtx [[4], [5], [3]] exDb).reply = .ok ∧
    (run "pfmerge" exCtx [[4], [5], [3]] exDb).db.live [4] = some ⟨.set [[1], [2], [3], [4]], some 90⟩ ∧
    (run "pfmerge" exCtx [[3], [4]] exDb).db.live [3] = some ⟨.set [[1], [2], [3]], none⟩ ∧
    (run "pfmerge" exCtx [[1], [4]] exDb).reply = .err (strBytes Msgs.WRONGTYPE_MSG) ∧
    (run "sunion" exCtx [[4], [1]] exDb).reply = .err (strBytes Msgs.WRONGTYPE_MSG) :=
  ⟨by rfl, by rfl, by rfl, by rfl, by rfl⟩

/-! ### SMOVE -/

section smove
variable (ctx : Ctx) (db : Db) (nd : NodupKeys db.dict) (wf : LiveWF db) (src dst m : Bytes)
include nd

/-- SMOVE from a missing source replies 0 (whatever the destination holds) -/
theorem smove_missing (hs : db.live src = none) :
    let out := run "smove" ctx [src, dst, m] db
    out.reply = .int 0 ∧ out.db.live = db.live ∧ out.failed = false :=
  run_smove_missing ctx src dst m nd hs

/-- SMOVE with a source or destination of another type: WRONGTYPE -/
theorem smove_wrongtype (it : Item) (hs : db.live src = some it)
    (hbad : setView db.live src = none ∨ setView db.live dst = none) :
    let out := run "smove" ctx [src, dst, m] db
    out.reply = .err (strBytes Msgs.WRONGTYPE_MSG) ∧ out.db.live = db.live ∧ out.failed = true :=
  run_smove_wrongtype ctx src dst m nd hs (hbad.imp setView_none setView_none)

variable (it : Item) (hs : db.live src = some it) (ss sd : List Bytes) (es ed : Option Int)
  (hvs : setView db.live src = some (ss, es)) (hvd : setView db.live dst = some (sd, ed))
include hs hvs hvd

/-- SMOVE of a non-member moves nothing and replies 0 -/
theorem smove_absent (hm : ¬ smem db src m) :
    let out := run "smove" ctx [src, dst, m] db
    out.reply = .int 0 ∧ out.db.live = db.live ∧ out.failed = false :=
  run_smove_absent ctx src dst m nd hs hvs hvd (fun h => hm ((smem_of_view hvs m).2 h))

include wf

/-- `SMOVE s s m` with `m ∈ s` replies 1 and leaves every set as it was (a no-op on memberships) -/
theorem smove_same (hm : smem db src m) (hsd : src = dst) :
    let out := run "smove" ctx [src, dst, m] db
    out.reply = .int 1 ∧ out.failed = false ∧
    (∀ k x, smem out.db k x ↔ smem db k x) ∧
    (∀ k', k' ≠ src → out.db.live k' = db.live k') ∧
    (∃ s', out.db.live src = some ⟨.set s', es⟩) ∧
    LiveWF out.db := by
  intro out
  have hmem : m ∈ ss := (smem_of_view hvs m).1 hm
  obtain ⟨h1, h2, h3⟩ := run_smove_same ctx src dst m nd hs hvs hvd hmem hsd
  have hn := setView_wf wf hvs
  have hmem' : ∀ x, x ∈ Cmd.setIns (ss.filter (· != m)) m ↔ x ∈ ss := by
    intro x
    rw [mem_setIns]
    simp only [List.mem_filter, bne_iff_ne, ne_eq]
    constructor
    · rintro (⟨h, _⟩ | rfl)
      · exact h
      · exact hmem
    · intro h
      by_cases hx : x = m
      · exact Or.inr hx
      · exact Or.inl ⟨h, hx⟩
  refine ⟨h1, h3, fun k x => ?_, (fun k' hk' => by rw [h2, putAt_ne _ _ _ hk']), ?_,
    liveWF_putAt wf h2 (nodup_setIns (hn.sublist List.filter_sublist) m)⟩
  · by_cases hk : k = src
    · subst hk
      rw [smem_putAt h2, hmem', smem_of_view hvs]
    · unfold smem; rw [h2, putAt_ne _ _ _ hk]
  · refine ⟨Cmd.setIns (ss.filter (· != m)) m, ?_⟩
    rw [h2, putAt_self]
    have : Cmd.setIns (ss.filter (· != m)) m ≠ [] := by
      intro hnil
      have := (hmem' m).2 hmem
      rw [hnil] at this; cases this
    cases hc : Cmd.setIns (ss.filter (· != m)) m with
    | nil => exact absurd hc this
    | cons a b => rfl

/-- SMOVE of a member between two different keys moves exactly that member, replies 1, keeps both
deadlines, and deletes the source when it becomes empty -/
theorem smove_moved (hm : smem db src m) (hsd : src ≠ dst) :
    let out := run "smove" ctx [src, dst, m] db
    out.reply = .int 1 ∧ out.failed = false ∧
    (∀ x, smem out.db src x ↔ smem db src x ∧ x ≠ m) ∧
    (∀ x, smem out.db dst x ↔ smem db dst x ∨ x = m) ∧
    (∀ k', k' ≠ src → k' ≠ dst → out.db.live k' = db.live k') ∧
    out.db.live src = (if ss.filter (· != m) = [] then none else some ⟨.set (ss.filter (· != m)), es⟩) ∧
    out.db.live dst = some ⟨.set (Cmd.setIns sd m), ed⟩ ∧
    LiveWF out.db := by
  intro out
  have hmem : m ∈ ss := (smem_of_view hvs m).1 hm
  obtain ⟨h1, h2, h3⟩ := run_smove_moved ctx src dst m nd hs hvs hvd hmem hsd
  have hns := setView_wf wf hvs
  have hnd := setView_wf wf hvd
  have hsrc : out.db.live src =
      if (Value.set (ss.filter (· != m))).isEmptyColl then none else some ⟨.set (ss.filter (· != m)), es⟩ := by
    rw [h2, putAt_ne _ _ _ hsd, putAt_self]
  have hdst : out.db.live dst =
      if (Value.set (Cmd.setIns sd m)).isEmptyColl then none else some ⟨.set (Cmd.setIns sd m), ed⟩ := by
    rw [h2, putAt_self]
  have hne : Cmd.setIns sd m ≠ [] := by
    intro hnil
    have := (mem_setIns sd m m).2 (Or.inr rfl)
    rw [hnil] at this; cases this
  refine ⟨h1, h3, fun x => ?_, fun x => ?_, fun k' h1' h2' => ?_, ?_, ?_, ?_⟩
  · rw [smem_of_live hsrc, smem_of_view hvs]
    simp
  · rw [smem_of_live hdst, mem_setIns, smem_of_view hvd]
  · rw [h2, putAt_ne _ _ _ h2', putAt_ne _ _ _ h1']
  · rw [hsrc]
    cases hc : ss.filter (· != m) with
    | nil => rfl
    | cons a b => rfl
  · rw [hdst]
    cases hc : Cmd.setIns sd m with
    | nil => exact absurd hc hne
    | cons a b => rfl
  · intro k it' hk
    by_cases hkd : k = dst
    · subst hkd
      rw [hdst] at hk
      split at hk
      · cases hk
      · cases hk; exact nodup_setIns hnd m
    · by_cases hks : k = src
      · subst hks
        rw [hsrc] at hk
        split at hk
        · cases hk
        · cases hk; exact hns.sublist List.filter_sublist
      · rw [h2, putAt_ne _ _ _ hkd, putAt_ne _ _ _ hks] at hk
        exact wf k it' hk

end smove

/-! ### non-vacuity of the SMOVE theorems -/
example :
    (run "smove" exCtx [[3], [2], [1]] exDb).reply = .int 0 ∧                                    -- smove_missing
    (run "smove" exCtx [[4], [2], [1]] exDb).reply = .err (strBytes Msgs.WRONGTYPE_MSG) ∧       -- smove_wrongtype
    (run "smove" exCtx [[4], [5], [9]] exDb).reply = .int 0 ∧                                    -- smove_absent
    (run "smove" exCtx [[4], [4], [1]] exDb).reply = .int 1 ∧                                    -- smove_same
    (run "smove" exCtx [[4], [4], [1]] exDb).db.live [4] = some ⟨.set [[2], [3], [1]], some 90⟩ ∧
    (run "smove" exCtx [[4], [5], [1]] exDb).reply = .int 1 ∧                                    -- smove_moved
    (run "smove" exCtx [[4], [5], [1]] exDb).db.live [4] = some ⟨.set [[2], [3]], some 90⟩ ∧
    (run "smove" exCtx [[4], [5], [1]] exDb).db.live [5] = some ⟨.set [[2], [3], [4], [1]], none⟩ :=
  ⟨by rfl, by rfl, by rfl, by rfl, by rfl, by rfl, by rfl, by rfl⟩

/-! ## C. The representation invariants, for arbitrary arguments -/

/-- Field names unique / sets duplicate free, for EVERY stored entry: preserved by every hash and set command
of the property, whatever the arguments are (wrong arity, wrong types, errors included), inside or outside a
script / subscriber-mode gate.  So it holds for everything these commands ever create. -/
theorem invariants_preserved (name : String) (hname : name ∈ allCmds) (ctx : Ctx) (gate : Option Err)
    (raw : List Bytes) (db : Db) (nd : NodupKeys db.dict) (wf : DictWF db.dict) :
    DictWF (runRegular (sigOf name) ((Cmd.regular name).getD (fun _ _ _ => .error "model: no body"))
      ctx gate raw db).db.dict ∧
    LiveWF (runRegular (sigOf name) ((Cmd.regular name).getD (fun _ _ _ => .error "model: no body"))
      ctx gate raw db).db := by
  have := runRegular_wf (sigOf name) _ (wf_all name hname) ctx gate raw nd wf
  exact ⟨this, this.live⟩
example : "hset" ∈ allCmds ∧ DictWF exDb.dict ∧ DictWF ([] : Dict) := ⟨by decide, by decide, by decide⟩

/-- every listed command is registered: `run` really runs the command's own signature and body -/
theorem allCmds_registered : ∀ name ∈ allCmds,
    (SigTable.find name).isSome = true ∧ (Cmd.regular name).isSome = true ∧ (sigOf name).name = name := by
  decide

/-- a request whose arity the signature rejects gets the arity error and changes nothing -/
theorem bad_arity (name : String) (ctx : Ctx) (raw : List Bytes) (db : Db) (nd : NodupKeys db.dict)
    (h : ¬ ArityOK (sigOf name) raw.length) :
    let out := run name ctx raw db
    out.reply = .err (strBytes (sigOf name).wrongArgs) ∧ out.db.live = db.live ∧ out.failed = true :=
  run_bad_arity name ctx raw nd h
/-- an odd number of field/value arguments is such a request -/
example : ¬ ArityOK (sigOf "hset") 4 ∧ ¬ ArityOK (sigOf "hget") 3 ∧ ArityOK (sigOf "hset") 5 := by decide

/-- the standing hypotheses survive every run, so the single-step theorems above chain along any sequence of
commands (`invariants_preserved` gives `DictWF`, hence `LiveWF`, of the next state; the clock is untouched) -/
theorem hypotheses_chain (name : String) (ctx : Ctx) (raw : List Bytes) (db : Db) (nd : NodupKeys db.dict) :
    NodupKeys (run name ctx raw db).db.dict ∧ (run name ctx raw db).db.time = db.time :=
  ⟨runRegular_nodup _ _ ctx none raw nd, runRegular_time _ _ ctx none raw nd⟩
/-- a two-step history: HSET of two new fields, then HDEL of the oldest, then HGETALL — the fields come out
in insertion order -/
example :
    (run "hgetall" exCtx [[1]]
      (run "hdel" exCtx [[1], [10]]
        (run "hset" exCtx [[1], [30], [1], [29], [2]] exDb).db).db).reply
      = .arr [.bulk [30], .bulk [1], .bulk [29], .bulk [2]] := by rfl

/-- `CardEq` determines the number -/
theorem cardEq_unique {P : Bytes → Prop} {n m : Nat} (h1 : CardEq P n) (h2 : CardEq P m) : n = m :=
  h1.unique h2

end FR.Props.C02h
