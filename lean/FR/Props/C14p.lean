import FR.Proofs.C14p
import FR.Props.C04k
import FR.Props.C14
/-!
# C14, last sentence — requests pipelined behind a parked blocking pop are answered afterwards, in order

"A blocking pop that has to wait suspends only its own connection, produces exactly one reply when it is served or
times out, and requests pipelined behind it are answered afterwards, in order."

`FR/Props/C14.lean` has the pieces (`blockingAsync_parks_and_pauses`, `paused_buffers`, `wakeConnAsync_one_reply`,
`timeoutConnAsync_one_reply`, `only_own_connection_suspends`).  This file has the composition:

1. writing to a parked, paused connection commutes with its re-try task and with its time-out
   (`buffered_then_wake_eq_wake_then_send`, `buffered_then_timeout_eq_timeout_then_send`): as STATES - same replies in
   the same order, same databases, same left-over hints;
2. the property in its own words (`pipelined_behind_parked_pop`, `wake_with_buffered`, `timeout_with_buffered`);
3. any number of pipelined requests (`pipelined_one_by_one`, `one_request`, `pipeline_with_parking_pop`), and two
   blocking pops in one write (`two_parking_pops`).

Vocabulary: `K s` (`FR.C04k.K`) is the invariant of an event that `FR/Props/C04k.lean` proves for every reachable state
at the start of an event (`K_of_reachable`): queues well-formed, `crashed = none`, no connection record dead.
`setBuf c X s` / `appendBuf c b s` overwrite / extend the input buffer of connection `c`; `s.conn c` is the record of
connection `c`; `Sys.out` lists the emitted replies `(connection, reply)`, NEWEST FIRST.
The theorems hold for every `mode`; the asyncio front-end is `mode.async = true` (only there a pop parks with
`paused := true`).
-/
namespace FR.Props.C14p
open FR FR.M FR.C04k FR.BufIndep FR.C14p

/-! ## 1. a write to the parked connection commutes with the re-try task / the time-out -/

/-- **Buffer, then wake = wake, then write.**  `c` is parked and paused in `s`.  Writing `data` while it waits and
then running the re-try task ends in the same state as running the re-try task first and writing `data` afterwards.
(`sendall` on a paused connection consumes no hint, so both orders consume the same hints in the same order; the hint
lists are part of the state.)  Stated with the one hypothesis that is needed: the connection is alive after the
re-try task (a write to a dead connection raises). -/
theorem buffered_then_wake_eq_wake_then_send_of_alive (mode : Mode) (c : Nat) (data : Bytes) (s : Sys) (p : Parked)
    (hp : (s.conn c).parked = some p) (hpa : (s.conn c).paused = true) (hd : (s.conn c).dead = false)
    (halive : (((wakeConnAsync mode c).run s).2.conn c).dead = false) :
    (do sendall mode c data; wakeConnAsync mode c : M Unit).run s =
      (do wakeConnAsync mode c; sendall mode c data : M Unit).run s :=
  wake_send_comm mode c data s p hp hpa hd halive

/-- the same from a state satisfying the event invariant (every reachable state at the start of an event) -/
theorem buffered_then_wake_eq_wake_then_send (mode : Mode) (c : Nat) (data : Bytes) (s : Sys) (hk : K s) (p : Parked)
    (hp : (s.conn c).parked = some p) (hpa : (s.conn c).paused = true) :
    (do sendall mode c data; wakeConnAsync mode c : M Unit).run s =
      (do wakeConnAsync mode c; sendall mode c data : M Unit).run s :=
  wake_send_comm mode c data s p hp hpa (hk.healthy.2.conn c)
    ((sc_wakeConnAsync k_stepClosed mode c (processCommand_K mode c) s hk).healthy.2.conn c)

/-- … and when the re-try task finds nothing to pop, both orders end in "still parked, still paused, `data` appended to
the buffer, no reply" -/
theorem buffered_then_wake_still_parked (mode : Mode) (c : Nat) (data : Bytes) (s : Sys) (p : Parked)
    (hp : (s.conn c).parked = some p) (hpa : (s.conn c).paused = true) (hd : (s.conn c).dead = false)
    (hcl : (s.conn c).closed = false) (hnone : (parkedPass c p s).1 = .ok none) :
    let t := ((do sendall mode c data; wakeConnAsync mode c : M Unit).run s).2
    t = ((do wakeConnAsync mode c; sendall mode c data : M Unit).run s).2 ∧
    (t.conn c).parked = some { p with woken := false } ∧ (t.conn c).paused = true ∧
    (t.conn c).buf = (s.conn c).buf ++ data ∧ t.out = s.out := by
  intro t
  rcases C14.wakeConnAsync_one_reply mode c s p hp hcl with ⟨_, h2, h3, h4, h5⟩ | ⟨r, s3, h1, _⟩
  · have hd' : (((wakeConnAsync mode c).run s).2.conn c).dead = false := by
      have f := (framed_parkedPass c p).frame s
      rw [h2]
      exact (Sys.conn_updConn_proj (parkedPass c p s).2 c c
        (fun x => { x with parked := some { p with woken := false } }) Conn.dead (fun _ => rfl) (fun _ => rfl)).trans
        ((f.dead c).trans hd)
    have e : t = ((do wakeConnAsync mode c; sendall mode c data : M Unit).run s).2 :=
      congrArg Prod.snd (wake_send_comm mode c data s p hp hpa hd hd')
    have hb := C14.paused_buffers mode c data ((wakeConnAsync mode c).run s).2 (h4.trans hpa) hd'
    have hbuf : (((wakeConnAsync mode c).run s).2.conn c).buf = (s.conn c).buf := by
      have f := (framed_parkedPass c p).frame s
      rw [h2]
      exact (Sys.conn_updConn_proj (parkedPass c p s).2 c c
        (fun x => { x with parked := some { p with woken := false } }) Conn.buf (fun _ => rfl) (fun _ => rfl)).trans
        (f.buf c)
    have hst : ((do wakeConnAsync mode c; sendall mode c data : M Unit).run s).2 =
        (((wakeConnAsync mode c).run s).2.updConn c fun x => { x with buf := x.buf ++ data }) :=
      congrArg Prod.snd hb.1
    have hcw : ((wakeConnAsync mode c).run s).2.HasConn c := Sys.hasConn_of_parked h3
    have hconn := Sys.conn_updConn_same (s := ((wakeConnAsync mode c).run s).2) (c := c)
      (fun x => { x with buf := x.buf ++ data }) hcw (fun _ => rfl)
    refine ⟨e, ?_, ?_, ?_, ?_⟩
    · rw [e, hst, hconn]; exact h3
    · rw [e, hst, hconn]; exact h4.trans hpa
    · rw [e, hst, hconn]; show (((wakeConnAsync mode c).run s).2.conn c).buf ++ data = _; rw [hbuf]
    · rw [e, hst]; exact h5
  · rcases h1 with h1 | ⟨e, h1, _⟩ <;> rw [hnone] at h1 <;> cases h1

/-- **Buffer, then time out = time out, then write.** -/
theorem buffered_then_timeout_eq_timeout_then_send_of_alive (mode : Mode) (c : Nat) (data : Bytes) (s : Sys)
    (p : Parked) (hp : (s.conn c).parked = some p) (hpa : (s.conn c).paused = true) (hd : (s.conn c).dead = false)
    (halive : (((timeoutConnAsync mode c).run s).2.conn c).dead = false) :
    (do sendall mode c data; timeoutConnAsync mode c : M Unit).run s =
      (do timeoutConnAsync mode c; sendall mode c data : M Unit).run s :=
  timeout_send_comm mode c data s p hp hpa hd halive

theorem buffered_then_timeout_eq_timeout_then_send (mode : Mode) (c : Nat) (data : Bytes) (s : Sys) (hk : K s)
    (p : Parked) (hp : (s.conn c).parked = some p) (hpa : (s.conn c).paused = true) :
    (do sendall mode c data; timeoutConnAsync mode c : M Unit).run s =
      (do timeoutConnAsync mode c; sendall mode c data : M Unit).run s :=
  timeout_send_comm mode c data s p hp hpa (hk.healthy.2.conn c)
    ((sc_timeoutConnAsync k_stepClosed mode c (processCommand_K mode c) s hk).healthy.2.conn c)

/-! ## 2. the property in its own words -/

/-- **Waking a parked connection whose buffer holds `rest`** = waking it with an empty buffer (the pop's one reply, or
nothing if it stays parked) and THEN writing `rest` to it - so `rest` gets exactly the replies it would get if it were
written at that moment.  `u` is any state in which `c` is parked and paused (whatever other connections did since). -/
theorem wake_with_buffered (mode : Mode) (c : Nat) (rest : Bytes) (u : Sys) (hk : K u) (p : Parked)
    (hp : (u.conn c).parked = some p) (hpa : (u.conn c).paused = true) :
    (wakeConnAsync mode c).run (setBuf c rest u) =
      (sendall mode c rest).run ((wakeConnAsync mode c).run (setBuf c [] u)).2 := by
  have hc : u.HasConn c := Sys.hasConn_of_parked hp
  have hk0 := K_setBuf c [] u hk
  have hp0 : ((setBuf c [] u).conn c).parked = some p := by
    rw [conn_setBuf_proj c c [] u Conn.parked (fun _ => rfl)]; exact hp
  have hpa0 : ((setBuf c [] u).conn c).paused = true := by
    rw [conn_setBuf_proj c c [] u Conn.paused (fun _ => rfl)]; exact hpa
  have h := buffered_then_wake_eq_wake_then_send mode c rest (setBuf c [] u) hk0 p hp0 hpa0
  have hs : (sendall mode c rest).run (setBuf c [] u) = ((), setBuf c rest u) := by
    have e : (sendall mode c rest).run (setBuf c [] u) = _ :=
      sendall_paused mode c rest (setBuf c [] u) hpa0 (hk0.healthy.2.conn c)
    rw [e]
    show ((), appendBuf c rest (setBuf c [] u)) = _
    rw [appendBuf_setBuf]; rfl
  have h' : (wakeConnAsync mode c).run ((sendall mode c rest).run (setBuf c [] u)).2 =
      (sendall mode c rest).run ((wakeConnAsync mode c).run (setBuf c [] u)).2 := h
  rw [hs] at h'
  exact h'

theorem timeout_with_buffered (mode : Mode) (c : Nat) (rest : Bytes) (u : Sys) (hk : K u) (p : Parked)
    (hp : (u.conn c).parked = some p) (hpa : (u.conn c).paused = true) :
    (timeoutConnAsync mode c).run (setBuf c rest u) =
      (sendall mode c rest).run ((timeoutConnAsync mode c).run (setBuf c [] u)).2 := by
  have hc : u.HasConn c := Sys.hasConn_of_parked hp
  have hk0 := K_setBuf c [] u hk
  have hp0 : ((setBuf c [] u).conn c).parked = some p := by
    rw [conn_setBuf_proj c c [] u Conn.parked (fun _ => rfl)]; exact hp
  have hpa0 : ((setBuf c [] u).conn c).paused = true := by
    rw [conn_setBuf_proj c c [] u Conn.paused (fun _ => rfl)]; exact hpa
  have h := buffered_then_timeout_eq_timeout_then_send mode c rest (setBuf c [] u) hk0 p hp0 hpa0
  have hs : (sendall mode c rest).run (setBuf c [] u) = ((), setBuf c rest u) := by
    have e : (sendall mode c rest).run (setBuf c [] u) = _ :=
      sendall_paused mode c rest (setBuf c [] u) hpa0 (hk0.healthy.2.conn c)
    rw [e]
    show ((), appendBuf c rest (setBuf c [] u)) = _
    rw [appendBuf_setBuf]; rfl
  have h' : (timeoutConnAsync mode c).run ((sendall mode c rest).run (setBuf c [] u)).2 =
      (sendall mode c rest).run ((timeoutConnAsync mode c).run (setBuf c [] u)).2 := h
  rw [hs] at h'
  exact h'

/-- waking a parked connection with an EMPTY buffer when the pop can be served: exactly the pop's reply is emitted, the
connection is un-parked and un-paused, nothing else happens -/
theorem wake_empty_served (mode : Mode) (c : Nat) (u : Sys) (p : Parked) (r : Reply)
    (hp : (u.conn c).parked = some p) (hcl : (u.conn c).closed = false) (hb : (u.conn c).buf = [])
    (hr : (parkedPass c p u).1 = .ok (some r)) :
    let w := ((wakeConnAsync mode c).run u).2
    w.out = (c, r) :: u.out ∧ (w.conn c).parked = none ∧ (w.conn c).paused = false ∧ (w.conn c).buf = [] ∧
    w.srv.dbs = (parkedPass c p u).2.srv.dbs := by
  intro w
  rcases C14.wakeConnAsync_one_reply mode c u p hp hcl with ⟨h, _⟩ | ⟨r', s3, h1, h2, h3, h4, h5, h6, h7⟩
  · rw [hr] at h; cases h
  · have hrr : r' = r := by
      rcases h1 with h1 | ⟨e, h1, _⟩
      · rw [hr] at h1; cases h1; rfl
      · rw [hr] at h1; cases h1
    subst hrr
    have hw : w = s3 := by
      show ((wakeConnAsync mode c).run u).2 = s3
      rw [h7]
      have := drain_empty mode c ((s3.conn c).buf.length + 1) s3 (h5.trans hb)
      exact congrArg Prod.snd this
    rw [hw]
    exact ⟨h2, h3, h4, h5.trans hb, h6⟩

/-- the served wake-up of a connection with an empty buffer keeps the connection registered -/
theorem wake_empty_served_hasConn (mode : Mode) (c : Nat) (u : Sys) (p : Parked) (r : Reply)
    (hp : (u.conn c).parked = some p) (hcl : (u.conn c).closed = false) (hb : (u.conn c).buf = [])
    (hr : (parkedPass c p u).1 = .ok (some r)) : ((wakeConnAsync mode c).run u).2.HasConn c := by
  have hc := Sys.hasConn_of_parked hp
  have f := (framed_parkedPass c p).frame u
  have e : (wakeConnAsync mode c).run u = _ := wakeConnAsync_run mode c u p hp
  generalize hres : parkedPass c p u = res at f e hr
  obtain ⟨r0, s1⟩ := res
  simp only at hr; subst hr
  simp only at e
  have hc1 : s1.HasConn c := (f.hasConn c).2 hc
  obtain ⟨_, _, _, g4, _, _⟩ := Sys.resumed_facts s1 c r hc1 ((f.closed c).trans hcl)
  rw [e, drain_empty mode c _ _ (g4.trans ((f.buf c).trans hb))]
  exact (resumed_hasConn r).2 hc1

/-- **Requests pipelined behind a blocking pop that parks.**  One write `encodeRequest blk ++ rest` to a live,
un-paused connection `c` with an empty input buffer, where processing `blk` pauses the connection (a blocking pop that
cannot be served on the asyncio front-end; `s1` is the state after `blk` ALONE):

* (i) right after the write the state is `s1` with `rest` sitting unparsed in the buffer: the replies, the databases,
  the hints are exactly those after `blk` alone - nothing of `rest` was processed -, `c` is paused and parked;
* (ii) when the re-try task runs: the state is the wake-up of the connection with an empty buffer, and THEN `rest`
  written to it;
* when that re-try task serves the pop, `wake_buffered_served` (stated for an arbitrary later state, since the pop can
  only be served after some OTHER connection has pushed) says that the wake-up with an empty buffer emits exactly the
  pop's reply and resumes the connection: in `out` the pop's reply comes first, then the replies of `rest`, computed at
  that moment. -/
theorem pipelined_behind_parked_pop (mode : Mode) (c : Nat) (blk : List Bytes) (rest : Bytes) (s : Sys) (hk : K s)
    (hc : s.HasConn c) (hb : (s.conn c).buf = []) (hpa : (s.conn c).paused = false) (p : Parked)
    (hpark : ((processCommand mode c blk s).2.conn c).paused = true)
    (hparked : ((processCommand mode c blk s).2.conn c).parked = some p) :
    let s1 := (processCommand mode c blk s).2
    let t := ((sendall mode c (encodeRequest blk ++ rest)).run s).2
    (t = setBuf c rest s1 ∧ t.out = s1.out ∧ t.srv.dbs = s1.srv.dbs ∧ t.clocks = s1.clocks ∧ t.picks = s1.picks ∧
      (t.conn c).paused = true ∧ (t.conn c).parked = some p ∧ (t.conn c).buf = rest) ∧
    (wakeConnAsync mode c).run t = (sendall mode c rest).run ((wakeConnAsync mode c).run (setBuf c [] s1)).2 := by
  intro s1 t
  have hk1 : K s1 := processCommand_K mode c blk s hk
  have hc1 : s1.HasConn c := Sys.hasConn_of_parked hparked
  have ht : t = setBuf c rest s1 :=
    congrArg Prod.snd (sendall_encode_parks mode c blk rest s hc hb hpa (hk.healthy.2.conn c) hpark)
  have hconn : (setBuf c rest s1).conn c = { s1.conn c with buf := rest } := conn_setBuf rest hc1
  refine ⟨⟨ht, by rw [ht]; rfl, by rw [ht]; rfl, by rw [ht]; rfl, by rw [ht]; rfl, ?_, ?_, ?_⟩, ?_⟩
  · rw [ht, hconn]; exact hpark
  · rw [ht, hconn]; exact hparked
  · rw [ht, hconn]
  · rw [ht]; exact wake_with_buffered mode c rest s1 hk1 p hparked hpark

/-- **The served wake-up of a connection with `rest` buffered behind its pop**, in any later state `u` (connection `c`
parked and paused; other connections may have done anything since): the pop's reply `(c, r)` is emitted FIRST, on top
of `u.out`, the connection is un-parked and un-paused (`w`), and then `rest` is processed exactly as if it were written
to `w` at that moment. -/
theorem wake_buffered_served (mode : Mode) (c : Nat) (rest : Bytes) (u : Sys) (hk : K u) (p : Parked) (r : Reply)
    (hp : (u.conn c).parked = some p) (hpa : (u.conn c).paused = true) (hcl : (u.conn c).closed = false)
    (hr : (parkedPass c p (setBuf c [] u)).1 = .ok (some r)) :
    let w := ((wakeConnAsync mode c).run (setBuf c [] u)).2
    (wakeConnAsync mode c).run (setBuf c rest u) = (sendall mode c rest).run w ∧
    w.out = (c, r) :: u.out ∧ (w.conn c).parked = none ∧ (w.conn c).paused = false ∧ (w.conn c).buf = [] ∧
    w.HasConn c ∧ K w := by
  intro w
  have hc : u.HasConn c := Sys.hasConn_of_parked hp
  have hconn0 : (setBuf c [] u).conn c = { u.conn c with buf := [] } := conn_setBuf [] hc
  obtain ⟨g1, g2, g3, g4, _⟩ := wake_empty_served mode c (setBuf c [] u) p r
    (by rw [hconn0]; exact hp) (by rw [hconn0]; exact hcl) (by rw [hconn0]) hr
  exact ⟨wake_with_buffered mode c rest u hk p hp hpa, g1, g2, g3, g4,
    wake_empty_served_hasConn mode c (setBuf c [] u) p r (by rw [hconn0]; exact hp) (by rw [hconn0]; exact hcl)
      (by rw [hconn0]) hr,
    sc_wakeConnAsync k_stepClosed mode c (processCommand_K mode c) _ (K_setBuf c [] u hk)⟩

/-! ### non-vacuity of sections 1 and 2

Two connections on the asyncio front-end.  Connection 1 writes `BLPOP k 0` and `PING` in ONE write; connection 2 then
pushes `v` onto `k`; then the re-try task of connection 1 runs. -/

/-- the asyncio front-end -/
def am : Mode := { async := true }
def blpopReq : List Bytes := [strBytes "BLPOP", [107], [48]]
def pingReq : List Bytes := [strBytes "PING"]
def rpushReq : List Bytes := [strBytes "RPUSH", [107], [118]]

/-- a reachable state at the start of an event: two open connections -/
def sInit : Sys := (runHistory [.open 1, .open 2]).beginEvent.withHints [1, 2, 3, 4, 5, 6, 7, 8, 9] []
theorem sInit_K : K sInit := FR.Props.C04k.K_of_reachable [.open 1, .open 2] (by decide +kernel) _ _

/-- connection 1: `BLPOP k 0` + `PING`, pipelined -/
def sA : Sys := ((sendall am 1 (encodeRequest blpopReq ++ encodeRequest pingReq)).run sInit).2
theorem sA_K : K sA := sendall_K am 1 _ sInit sInit_K
/-- connection 2: `RPUSH k v` -/
def sB : Sys := ((sendall am 2 (encodeRequest rpushReq)).run sA).2
theorem sB_K : K sB := sendall_K am 2 _ sA sA_K
/-- the re-try task of connection 1 -/
def sC : Sys := ((wakeConnAsync am 1).run sB).2

/-- (i) after the write: no reply, connection 1 paused and parked, `PING` unparsed in its buffer; connection 2 is not
suspended -/
example : sA.out.length = 0 ∧ (sA.conn 1).paused = true ∧ (sA.conn 1).parked.isSome = true ∧
    (sA.conn 1).buf = encodeRequest pingReq ∧ (sA.conn 2).paused = false ∧ sA.fault = none := by decide +kernel

/-- the push of connection 2 is answered at once; connection 1 still waits, `PING` still buffered -/
example : sB.out.map (fun p => (p.1, p.2.render)) = [(2, (Reply.int 1).render)] ∧ (sB.conn 1).paused = true ∧
    (sB.conn 1).buf = encodeRequest pingReq := by decide +kernel

/-- (ii) the re-try task: the pop's reply FIRST, then `PONG` (`out` is newest first) -/
example : sC.out.map (fun p => (p.1, p.2.render)) =
    [(1, Reply.pong.render), (1, (Reply.arr [.bulk [107], .bulk [118]]).render), (2, (Reply.int 1).render)] ∧
    (sC.conn 1).paused = false ∧ (sC.conn 1).parked.isSome = false ∧ (sC.conn 1).buf = [] ∧ sC.fault = none := by
  decide +kernel

/-- the hypotheses of `buffered_then_wake_eq_wake_then_send` hold in `sB` (the wake-up serves the pop) … -/
example : (do sendall am 1 (encodeRequest pingReq); wakeConnAsync am 1 : M Unit).run sB =
    (do wakeConnAsync am 1; sendall am 1 (encodeRequest pingReq) : M Unit).run sB := by
  cases h : (sB.conn 1).parked with
  | none => exact absurd (show (sB.conn 1).parked.isSome = true by decide +kernel) (by rw [h]; decide)
  | some p => exact buffered_then_wake_eq_wake_then_send am 1 _ sB sB_K p h (by decide +kernel)

/-- … and in `sA` (nothing to pop yet: the wake-up leaves it parked), together with `buffered_then_wake_still_parked` -/
example : (do sendall am 1 (encodeRequest pingReq); wakeConnAsync am 1 : M Unit).run sA =
    (do wakeConnAsync am 1; sendall am 1 (encodeRequest pingReq) : M Unit).run sA := by
  cases h : (sA.conn 1).parked with
  | none => exact absurd (show (sA.conn 1).parked.isSome = true by decide +kernel) (by rw [h]; decide)
  | some p => exact buffered_then_wake_eq_wake_then_send am 1 _ sA sA_K p h (by decide +kernel)

example : (((do sendall am 1 (encodeRequest pingReq); wakeConnAsync am 1 : M Unit).run sA).2.conn 1).paused = true ∧
    (((do sendall am 1 (encodeRequest pingReq); wakeConnAsync am 1 : M Unit).run sA).2.conn 1).buf =
      encodeRequest pingReq ++ encodeRequest pingReq ∧
    ((do sendall am 1 (encodeRequest pingReq); wakeConnAsync am 1 : M Unit).run sA).2.out.length = 0 := by
  decide +kernel

/-- both orders, computed: the same three replies in the same order -/
example :
    ((do sendall am 1 (encodeRequest pingReq); wakeConnAsync am 1 : M Unit).run sB).2.out.map (fun p => (p.1, p.2.render)) =
      [(1, Reply.pong.render), (1, Reply.pong.render), (1, (Reply.arr [.bulk [107], .bulk [118]]).render),
       (2, (Reply.int 1).render)] ∧
    ((do wakeConnAsync am 1; sendall am 1 (encodeRequest pingReq) : M Unit).run sB).2.out.map (fun p => (p.1, p.2.render)) =
      [(1, Reply.pong.render), (1, Reply.pong.render), (1, (Reply.arr [.bulk [107], .bulk [118]]).render),
       (2, (Reply.int 1).render)] := by decide +kernel

/-- the time-out: `nil` first, then `PONG`; and the hypotheses of the time-out theorem hold in `sA` -/
example : ((timeoutConnAsync am 1).run sA).2.out.map (fun p => (p.1, p.2.render)) =
    [(1, Reply.pong.render), (1, Reply.nil.render)] := by decide +kernel

example : (do sendall am 1 (encodeRequest pingReq); timeoutConnAsync am 1 : M Unit).run sA =
    (do timeoutConnAsync am 1; sendall am 1 (encodeRequest pingReq) : M Unit).run sA := by
  cases h : (sA.conn 1).parked with
  | none => exact absurd (show (sA.conn 1).parked.isSome = true by decide +kernel) (by rw [h]; decide)
  | some p => exact buffered_then_timeout_eq_timeout_then_send am 1 _ sA sA_K p h (by decide +kernel)

/-- the hypotheses of `pipelined_behind_parked_pop` hold for the write that produced `sA` -/
example : ((wakeConnAsync am 1).run sA) =
    (sendall am 1 (encodeRequest pingReq)).run
      ((wakeConnAsync am 1).run (setBuf 1 [] (processCommand am 1 blpopReq sInit).2)).2 := by
  cases h : ((processCommand am 1 blpopReq sInit).2.conn 1).parked with
  | none =>
    exact absurd (show ((processCommand am 1 blpopReq sInit).2.conn 1).parked.isSome = true by decide +kernel)
      (by rw [h]; decide)
  | some p =>
    exact (pipelined_behind_parked_pop am 1 blpopReq (encodeRequest pingReq) sInit sInit_K (by decide +kernel)
      (by decide +kernel) (by decide +kernel) p (by decide +kernel) h).2

/-- "the pass serves the pop", as a Boolean (replies have no decidable equality) -/
def servedB : Except Err (Option Reply) → Bool
  | .ok (some _) => true
  | _ => false

theorem served_of_servedB {x : Except Err (Option Reply)} (h : servedB x = true) : ∃ r, x = .ok (some r) := by
  match x, h with
  | .ok (some r), _ => exact ⟨r, rfl⟩

deriving instance DecidableEq for Parked

/-- what connection 1 is parked on in `sB` (woken: connection 2 pushed onto `k`) -/
def pB : Parked := { kind := "blpop", keys := [[107]], db := 0, deadline := none, woken := true }

/-- the hypotheses of `wake_buffered_served` hold in `sB`, with `PING` buffered behind the pop (`setBuf 1 _ sB` is `sB`
with the buffer of connection 1 spelled out) -/
example : ∃ r, ((wakeConnAsync am 1).run (setBuf 1 [] sB)).2.out = (1, r) :: sB.out ∧
    (wakeConnAsync am 1).run (setBuf 1 (encodeRequest pingReq) sB) =
      (sendall am 1 (encodeRequest pingReq)).run ((wakeConnAsync am 1).run (setBuf 1 [] sB)).2 := by
  obtain ⟨r, hr⟩ := served_of_servedB (x := (parkedPass 1 pB (setBuf 1 [] sB)).1) (by decide +kernel)
  obtain ⟨h1, h2, _⟩ := wake_buffered_served am 1 (encodeRequest pingReq) sB sB_K pB r (by decide +kernel)
    (by decide +kernel) (by decide +kernel) hr
  exact ⟨r, h2, h1⟩

/-! ## 3. any number of pipelined requests; two blocking pops in one write

`reply order = request order`: a pipelined write is processed head first (`pipelined_head_first`), i.e. like the
requests written one at a time (`pipelined_one_by_one`); a single request written to a live un-paused connection is one
`_process_command` (`one_request`) and to a paused one it is buffered (`C14.paused_buffers`); `_process_command` emits
the request's replies on top of `out`.  With a pop that parks in the middle, `pipelined_behind_parked_pop` says the rest
is processed - again head first - after the pop's reply. -/

/-- one complete request written to a live, un-paused connection with an empty buffer: exactly one
`_process_command` -/
theorem one_request (mode : Mode) (c : Nat) (req : List Bytes) (s : Sys) (hc : s.HasConn c)
    (hb : (s.conn c).buf = []) (hpa : (s.conn c).paused = false) (hd : (s.conn c).dead = false) :
    (sendall mode c (encodeRequest req)).run s = ((), setBuf c [] (processCommand mode c req s).2) := by
  have h := sendall_encode_head mode c req [] s hc hb hpa hd
  rw [List.append_nil] at h
  refine h.trans (drain_empty mode c _ _ ?_)
  by_cases hc' : (processCommand mode c req s).2.HasConn c
  · rw [conn_setBuf [] hc']
  · rw [Sys.conn_of_not_hasConn (fun h' => hc' ((hasConn_setBuf []).1 h'))]

/-- **head first**: a write that starts with a complete request = that request processed, then the rest of the write
written to the resulting state -/
theorem pipelined_head_first (mode : Mode) (c : Nat) (req : List Bytes) (rest : Bytes) (s : Sys) (hk : K s)
    (hc : s.HasConn c) (hb : (s.conn c).buf = []) (hpa : (s.conn c).paused = false) :
    (sendall mode c (encodeRequest req ++ rest)).run s =
      (sendall mode c rest).run (setBuf c [] (processCommand mode c req s).2) := by
  rw [← FR.Props.C04k.sendall_append mode c (encodeRequest req) rest s hk]
  show (sendall mode c rest).run ((sendall mode c (encodeRequest req)).run s).2 = _
  rw [one_request mode c req s hc hb hpa (hk.healthy.2.conn c)]

/-- a pipelined write of `n ≥ 1` requests = the requests written one at a time, in order -/
theorem pipelined_one_by_one (mode : Mode) (c : Nat) (reqs : List (List Bytes)) (s : Sys) (hk : K s) (hne : reqs ≠ []) :
    (sendall mode c (reqs.map encodeRequest).flatten).run s = (sendChunks mode c (reqs.map encodeRequest)).run s :=
  (FR.Props.C04k.all_chunkings_agree mode c _ s hk (reqs.map encodeRequest) (by simpa using hne) rfl).symm

/-- **Two blocking pops in one write** `blk1, blk2, rest`: the first parks and `encodeRequest blk2 ++ rest` is buffered
(`pipelined_behind_parked_pop`).  In any later state `u` in which the re-try task serves the first pop with `r1`: its
reply is emitted, the parser resumes, the SECOND pop is processed in that state `w` and - if it cannot be served -
parks, and `rest` stays buffered behind it (to be handled by `wake_buffered_served` again): no reply of `rest` before
the second pop's. -/
theorem two_parking_pops (mode : Mode) (c : Nat) (blk2 : List Bytes) (rest : Bytes) (u : Sys) (hk : K u)
    (p1 : Parked) (r1 : Reply) (hp : (u.conn c).parked = some p1) (hpa : (u.conn c).paused = true)
    (hcl : (u.conn c).closed = false) (hserved : (parkedPass c p1 (setBuf c [] u)).1 = .ok (some r1))
    (hpark2 : ((processCommand mode c blk2 ((wakeConnAsync mode c).run (setBuf c [] u)).2).2.conn c).paused = true) :
    let w := ((wakeConnAsync mode c).run (setBuf c [] u)).2
    let t := ((wakeConnAsync mode c).run (setBuf c (encodeRequest blk2 ++ rest) u)).2
    w.out = (c, r1) :: u.out ∧ t = setBuf c rest (processCommand mode c blk2 w).2 ∧
    (t.conn c).paused = true ∧ t.out = (processCommand mode c blk2 w).2.out := by
  intro w t
  obtain ⟨hw, g1, _, g3, g4, hcw, hkw⟩ := wake_buffered_served mode c (encodeRequest blk2 ++ rest) u hk p1 r1 hp hpa hcl
    hserved
  have e : t = setBuf c rest (processCommand mode c blk2 w).2 := by
    show ((wakeConnAsync mode c).run (setBuf c (encodeRequest blk2 ++ rest) u)).2 = _
    rw [hw]
    exact congrArg Prod.snd (sendall_encode_parks mode c blk2 rest w hcw g4 g3 (hkw.healthy.2.conn c) hpark2)
  refine ⟨g1, e, ?_, ?_⟩
  · rw [e]
    exact (conn_setBuf_proj c c rest _ Conn.paused (fun _ => rfl)).trans hpark2
  · rw [e]; rfl

/-! ### non-vacuity of section 3 -/

/-- connection 1 writes `BLPOP k 0`, `BLPOP k 0`, `PING` in one write; connection 2 pushes `v`; re-try task of 1;
connection 2 pushes `w`; re-try task of 1 -/
def tA : Sys :=
  ((sendall am 1 (encodeRequest blpopReq ++ (encodeRequest blpopReq ++ encodeRequest pingReq))).run sInit).2
def tB : Sys := ((sendall am 2 (encodeRequest rpushReq)).run tA).2
def tC : Sys := ((wakeConnAsync am 1).run tB).2
def tD : Sys := ((sendall am 2 (encodeRequest [strBytes "RPUSH", [107], [119]])).run tC).2
def tE : Sys := ((wakeConnAsync am 1).run tD).2

example : tA.out.length = 0 ∧ (tA.conn 1).paused = true ∧
    (tA.conn 1).buf = encodeRequest blpopReq ++ encodeRequest pingReq := by decide +kernel

/-- after the first wake-up: the first pop's reply, the second pop parked, `PING` still buffered -/
example : tC.out.map (fun p => (p.1, p.2.render)) =
      [(1, (Reply.arr [.bulk [107], .bulk [118]]).render), (2, (Reply.int 1).render)] ∧
    (tC.conn 1).paused = true ∧ (tC.conn 1).parked.isSome = true ∧ (tC.conn 1).buf = encodeRequest pingReq := by
  decide +kernel

/-- after the second: replies in request order - pop 1, pop 2, `PONG` (newest first) -/
example : tE.out.map (fun p => (p.1, p.2.render)) =
      [(1, Reply.pong.render), (1, (Reply.arr [.bulk [107], .bulk [119]]).render), (2, (Reply.int 1).render),
       (1, (Reply.arr [.bulk [107], .bulk [118]]).render), (2, (Reply.int 1).render)] ∧
    (tE.conn 1).paused = false ∧ (tE.conn 1).buf = [] ∧ tE.fault = none := by decide +kernel

theorem tA_K : K tA := sendall_K am 1 _ sInit sInit_K
theorem tB_K : K tB := sendall_K am 2 _ tA tA_K

/-- the hypotheses of `two_parking_pops` hold in `tB` -/
example :
    let w := ((wakeConnAsync am 1).run (setBuf 1 [] tB)).2
    let t := ((wakeConnAsync am 1).run (setBuf 1 (encodeRequest blpopReq ++ encodeRequest pingReq) tB)).2
    (t.conn 1).paused = true ∧ t.out = (processCommand am 1 blpopReq w).2.out := by
  obtain ⟨r, hr⟩ := served_of_servedB (x := (parkedPass 1 pB (setBuf 1 [] tB)).1) (by decide +kernel)
  obtain ⟨_, _, h3, h4⟩ := two_parking_pops am 1 blpopReq (encodeRequest pingReq) tB tB_K pB r (by decide +kernel)
    (by decide +kernel) (by decide +kernel) hr (by decide +kernel)
  exact ⟨h3, h4⟩

/-- `one_request`, `pipelined_head_first`, `pipelined_one_by_one` apply to `sInit` -/
example : (sendall am 1 (encodeRequest pingReq)).run sInit = ((), setBuf 1 [] (processCommand am 1 pingReq sInit).2) :=
  one_request am 1 pingReq sInit (by decide +kernel) (by decide +kernel) (by decide +kernel) (by decide +kernel)

example : (sendall am 1 (encodeRequest pingReq ++ encodeRequest blpopReq)).run sInit =
    (sendall am 1 (encodeRequest blpopReq)).run (setBuf 1 [] (processCommand am 1 pingReq sInit).2) :=
  pipelined_head_first am 1 pingReq _ sInit sInit_K (by decide +kernel) (by decide +kernel) (by decide +kernel)

example : (sendall am 1 ([pingReq, blpopReq, pingReq].map encodeRequest).flatten).run sInit =
    (sendChunks am 1 ([pingReq, blpopReq, pingReq].map encodeRequest)).run sInit :=
  pipelined_one_by_one am 1 _ sInit sInit_K (by simp)

/-- three requests, the middle one a pop that parks: `PONG` at once, the second `PING` waits -/
example :
    let u := ((sendall am 1 ([pingReq, blpopReq, pingReq].map encodeRequest).flatten).run sInit).2
    u.out.map (fun p => (p.1, p.2.render)) = [(1, Reply.pong.render)] ∧ (u.conn 1).paused = true ∧
    (u.conn 1).buf = encodeRequest pingReq := by decide +kernel

end FR.Props.C14p
