import FR.Proofs.Wire
/-!
# C17, end to end — bytes in over the socket, the same bytes out

Every theorem below is about the SOCKET interface of the model.  `Wire.after mode s (c, fields)` is the state after
connection `c` wrote the RESP encoding `encodeRequest fields` with `sendallGuarded` (`FakeSocket.sendall`), and
`Wire.run mode s [(c₁, fields₁), (c₂, fields₂), …]` the state after these writes, one `sendall` each (`run_def`).
The conclusions are about `Sys.out`, the list of emitted replies `(receiver, reply)`, newest first.

There is NO hypothesis on the bytes of keys, values, fields, members, channels and messages: empty, NUL, CR LF,
`*3\r\n$…`, bytes ≥ 0x80 are all covered by the universally quantified `k v f m ch : Bytes`.

Standing hypotheses:
* `Wire.Ready s c` — `c` is an ordinary idle client connection: registered, open, alive, parser running, input buffer
  empty, not in MULTI, not subscribed, a valid database selected; the server is connected and no exception is pending;
* `s.DataInv` — every database has unique keys and stores no empty collection (an invariant of all histories,
  `FR.stepEv_preserves`);
* `Wire.Spells name "set"` — the command name is `set` in ANY letter case (item 7: only the name is normalised).
No hypothesis on the clock hints: the theorems hold for every sequence of clock readings, even an exhausted or a
non-monotone one, because nothing written here carries a deadline (`keys_are_case_sensitive`, which speaks about a
key that is NOT live, is the one place where the clock must not run backwards).

The proofs compose `C04.tryParse_encode` + `C04s.bufIndependent` (one encoded request = one `processCommand` on
exactly its fields, `Wire.sendallGuarded_encode`), `processCommand`'s definition (`Wire.processCommand_regular`,
`Wire.processCommand_special`), and the refinement theorems of the single commands (`C01k`, `C02h` / `HashSetAlg`,
`C02`, `C05.exec_eq_sequential`, `C10.publish_spec`, `C17.processCommand_case_insensitive`).
-/
namespace FR.Props.C17s
open FR FR.Wire

/-! ## 0. vocabulary -/

/-- `run` is: one `sendallGuarded` of the encoded request after the other -/
theorem run_def (mode : Mode) (s : Sys) (c : Nat) (fields : List Bytes) (rest : List (Nat × List Bytes)) :
    run mode s [] = s ∧
    run mode s ((c, fields) :: rest) = run mode ((sendallGuarded mode c (encodeRequest fields)).run s).2 rest :=
  ⟨rfl, rfl⟩

/-- one encoded request on an idle connection is one `processCommand` on exactly its fields, whatever the bytes -/
theorem one_request_one_command (mode : Mode) (c : Nat) (fields : List Bytes) (s : Sys) (hr : Ready s c) :
    (sendallGuarded mode c (encodeRequest fields)).run s =
      ((), setBuf c [] ((processCommand mode c fields).run s).2) :=
  sendallGuarded_encode mode c fields s hr.has hr.buf hr.dead hr.paused hr.connected

/-- the state used in the non-vacuity examples: a fresh server with two connections -/
def s0 : Sys := { srv := { conns := [{ id := 1 }, { id := 2 }] } }

theorem ready1 : Ready s0 1 :=
  ⟨⟨_, List.mem_cons_self, rfl⟩, rfl, rfl, rfl, rfl, rfl, rfl, by decide, rfl, rfl⟩
theorem ready2 : Ready s0 2 :=
  ⟨⟨_, List.mem_cons_of_mem _ List.mem_cons_self, rfl⟩, rfl, rfl, rfl, rfl, rfl, rfl, by decide, rfl, rfl⟩
theorem inv0 : s0.DataInv := Sys.dataInv_init.frame rfl

/-- a key made of NUL, CR LF and 0xFF, a value that looks like a RESP header -/
def wk : Bytes := [0, 13, 10, 255]
def wv : Bytes := [42, 51, 13, 10, 36, 51, 13, 10]

/-! ## 1. strings -/

/-- `SET k v` (reply OK), then `GET k` replies `v` -/
theorem set_get (mode : Mode) (s : Sys) (c : Nat) (hr : Ready s c) (hi : s.DataInv) (nSet nGet : Bytes)
    (h1 : Spells nSet "set") (h2 : Spells nGet "get") (k v : Bytes) :
    (run mode s [(c, [nSet, k, v]), (c, [nGet, k])]).out = (c, .bulk v) :: (c, .ok) :: s.out := by
  obtain ⟨o1, r1, i1, hk⟩ := set_step mode hr hi h1 k v
  obtain ⟨o2, _⟩ := get_step mode r1 i1 h2 k
  simp only [run_cons, run_nil]
  rw [o2, o1, hk.view]

example : (run {} s0 [(1, [strBytes "SeT", wk, wv]), (1, [strBytes "get", wk])]).out = [(1, .bulk wv), (1, .ok)] :=
  set_get {} s0 1 ready1 inv0 _ _ (by decide +kernel) (by decide +kernel) wk wv
/-- the empty key and the empty value -/
example : (run {} s0 [(1, [strBytes "SET", [], []]), (1, [strBytes "GET", []])]).out = [(1, .bulk []), (1, .ok)] :=
  set_get {} s0 1 ready1 inv0 _ _ (by decide +kernel) (by decide +kernel) [] []

/-- `SET k v; APPEND k w; GET k`: the new length, then `v ++ w` (within the 512 MB limit of a string) -/
theorem set_append_get (mode : Mode) (s : Sys) (c : Nat) (hr : Ready s c) (hi : s.DataInv) (nSet nApp nGet : Bytes)
    (h1 : Spells nSet "set") (h2 : Spells nApp "append") (h3 : Spells nGet "get") (k v w : Bytes)
    (hsz : v.length + w.length ≤ Conv.MAX_STRING_SIZE) :
    (run mode s [(c, [nSet, k, v]), (c, [nApp, k, w]), (c, [nGet, k])]).out =
      (c, .bulk (v ++ w)) :: (c, .int ((v ++ w).length : Nat)) :: (c, .ok) :: s.out := by
  obtain ⟨o1, r1, i1, hk1⟩ := set_step mode hr hi h1 k v
  obtain ⟨o2, r2, i2, hk2⟩ := append_step mode r1 i1 h2 k v w hk1 hsz
  obtain ⟨o3, _⟩ := get_step mode r2 i2 h3 k
  simp only [run_cons, run_nil]
  rw [o3, o2, o1, hk2.view]

example : (run {} s0 [(1, [strBytes "set", wk, wv]), (1, [strBytes "APPEND", wk, [0]]), (1, [strBytes "get", wk])]).out =
    [(1, .bulk (wv ++ [0])), (1, .int 9), (1, .ok)] :=
  set_append_get {} s0 1 ready1 inv0 _ _ _ (by decide +kernel) (by decide +kernel) (by decide +kernel) wk wv [0]
    (by decide)

/-- `SET k v; GETRANGE k 0 -1; STRLEN k`: the whole value, and its length in bytes -/
theorem set_getrange_strlen (mode : Mode) (s : Sys) (c : Nat) (hr : Ready s c) (hi : s.DataInv)
    (nSet nGr nLen : Bytes) (h1 : Spells nSet "set") (h2 : Spells nGr "getrange") (h3 : Spells nLen "strlen")
    (k v : Bytes) :
    (run mode s [(c, [nSet, k, v]), (c, [nGr, k, strBytes "0", strBytes "-1"]), (c, [nLen, k])]).out =
      (c, .int (v.length : Nat)) :: (c, .bulk v) :: (c, .ok) :: s.out := by
  have e0 : strBytes "0" = [48] := by decide +kernel
  have e1 : strBytes "-1" = [45, 49] := by decide +kernel
  obtain ⟨o1, r1, i1, hk1⟩ := set_step mode hr hi h1 k v
  obtain ⟨o2, r2, i2, hk2⟩ := getrange_all_step mode r1 i1 h2 k v hk1
  obtain ⟨o3, _⟩ := strlen_step mode r2 i2 h3 k v (hk2 _ _ hk1)
  simp only [run_cons, run_nil, e0, e1]
  rw [o3, o2, o1]

example : (run {} s0 [(1, [strBytes "set", wk, wv]), (1, [strBytes "getrange", wk, strBytes "0", strBytes "-1"]),
    (1, [strBytes "strlen", wk])]).out = [(1, .int 8), (1, .bulk wv), (1, .ok)] :=
  set_getrange_strlen {} s0 1 ready1 inv0 _ _ _ (by decide +kernel) (by decide +kernel) (by decide +kernel) wk wv

/-- `MSET k₁ v₁ … kₙ vₙ` then `MGET k₁ … kₙ`: per key the value of the LAST pair naming it (`lastVal`) — arbitrary
keys, duplicates allowed -/
theorem mset_mget (mode : Mode) (s : Sys) (c : Nat) (hr : Ready s c) (hi : s.DataInv) (nMset nMget : Bytes)
    (h1 : Spells nMset "mset") (h2 : Spells nMget "mget") (p : Bytes × Bytes) (ps : List (Bytes × Bytes)) :
    (run mode s [(c, nMset :: FR.StrKeys.flat (p :: ps)), (c, nMget :: (p :: ps).map Prod.fst)]).out =
      (c, .arr ((p :: ps).map fun q => .bulk (lastVal (p :: ps) q.1))) :: (c, .ok) :: s.out := by
  obtain ⟨o1, r1, i1, hk1⟩ := mset_step mode hr hi h1 p ps
  obtain ⟨o2, _⟩ := mget_step mode r1 i1 h2 p.1 (ps.map Prod.fst)
  simp only [run_cons, run_nil, List.map_cons]
  rw [o2, o1]
  congr 2
  have : ∀ q ∈ p :: ps, FR.StrKeys.mgetOne ((view (after mode s (c, nMset :: FR.StrKeys.flat (p :: ps))) c).live q.1) =
      Reply.bulk (lastVal (p :: ps) q.1) := by
    intro q hq
    rw [(hk1 q hq).view]; rfl
  have h := List.map_congr_left this
  simpa [List.map_map, Function.comp] using h

/-- later duplicates win: `MSET k a k b` then `MGET k k` -/
example : (run {} s0 [(1, [strBytes "mset", wk, [1], wk, [2]]), (1, [strBytes "mget", wk, wk])]).out =
    [(1, .arr [.bulk [2], .bulk [2]]), (1, .ok)] := by
  have h := mset_mget {} s0 1 ready1 inv0 _ _ (by decide +kernel : Spells (strBytes "mset") "mset")
    (by decide +kernel : Spells (strBytes "mget") "mget") (wk, [1]) [(wk, [2])]
  have e : lastVal [(wk, [1]), (wk, [2])] wk = [2] := by decide
  have e0 : s0.out = [] := rfl
  simpa [FR.StrKeys.flat, e, e0] using h

/-! ## 2. lists -/

/-- `RPUSH k v₁ … vₙ` on a key that is not live, then `LRANGE k 0 -1`: exactly `[v₁, …, vₙ]`, in order -/
theorem rpush_lrange (mode : Mode) (s : Sys) (c : Nat) (hr : Ready s c) (hi : s.DataInv) (nPush nRange : Bytes)
    (h1 : Spells nPush "rpush") (h2 : Spells nRange "lrange") (k v : Bytes) (vs : List Bytes)
    (hk : (view s c).live k = none) :
    (run mode s [(c, nPush :: k :: v :: vs), (c, [nRange, k, strBytes "0", strBytes "-1"])]).out =
      (c, Reply.bulks (v :: vs)) :: (c, .int ((v :: vs).length : Nat)) :: s.out := by
  have e0 : strBytes "0" = [48] := by decide +kernel
  have e1 : strBytes "-1" = [45, 49] := by decide +kernel
  obtain ⟨o1, r1, i1, hk1⟩ := rpush_step mode hr hi h1 k [] (listView_of_missing hk) v vs
  obtain ⟨o2, _⟩ := lrange_step mode r1 i1 h2 k _ hk1 [48] [45, 49] 0 (-1) rfl rfl
  simp only [run_cons, run_nil, e0, e1]
  rw [o2, o1, lrangeSpec_all]
  rfl

example : (run {} s0 [(1, [strBytes "RPUSH", wk, wv, [], wv]), (1, [strBytes "lrange", wk, strBytes "0", strBytes "-1"])]).out =
    [(1, Reply.bulks [wv, [], wv]), (1, .int 3)] :=
  rpush_lrange {} s0 1 ready1 inv0 _ _ (by decide +kernel) (by decide +kernel) wk wv [[], wv] (by decide +kernel)

/-- `LPUSH k v₁ … vₙ` on a key that is not live, then `LRANGE k 0 -1`: the values REVERSED -/
theorem lpush_lrange (mode : Mode) (s : Sys) (c : Nat) (hr : Ready s c) (hi : s.DataInv) (nPush nRange : Bytes)
    (h1 : Spells nPush "lpush") (h2 : Spells nRange "lrange") (k v : Bytes) (vs : List Bytes)
    (hk : (view s c).live k = none) :
    (run mode s [(c, nPush :: k :: v :: vs), (c, [nRange, k, strBytes "0", strBytes "-1"])]).out =
      (c, Reply.bulks (v :: vs).reverse) :: (c, .int ((v :: vs).length : Nat)) :: s.out := by
  have e0 : strBytes "0" = [48] := by decide +kernel
  have e1 : strBytes "-1" = [45, 49] := by decide +kernel
  obtain ⟨o1, r1, i1, hk1⟩ := lpush_step mode hr hi h1 k [] (listView_of_missing hk) v vs
  obtain ⟨o2, _⟩ := lrange_step mode r1 i1 h2 k _ hk1 [48] [45, 49] 0 (-1) rfl rfl
  simp only [run_cons, run_nil, e0, e1]
  rw [o2, o1, lrangeSpec_all]
  simp

example : (run {} s0 [(1, [strBytes "lpush", wk, [1], [2]]), (1, [strBytes "LRANGE", wk, strBytes "0", strBytes "-1"])]).out =
    [(1, Reply.bulks [[2], [1]]), (1, .int 2)] :=
  lpush_lrange {} s0 1 ready1 inv0 _ _ (by decide +kernel) (by decide +kernel) wk [1] [[2]] (by decide +kernel)

/-- `RPUSH k v₁ … vₙ` on a key that is not live, then `LINDEX k i` (any index, Python-style negative indices) and
`LPOP k`: the element at `i` (nil when out of range), then `v₁` -/
theorem rpush_lindex_lpop (mode : Mode) (s : Sys) (c : Nat) (hr : Ready s c) (hi : s.DataInv)
    (nPush nIdx nPop : Bytes) (h1 : Spells nPush "rpush") (h2 : Spells nIdx "lindex") (h3 : Spells nPop "lpop")
    (k v : Bytes) (vs : List Bytes) (hk : (view s c).live k = none) (ib : Bytes) (i : Int)
    (hib : Conv.int ib = .ok i) :
    (run mode s [(c, nPush :: k :: v :: vs), (c, [nIdx, k, ib]), (c, [nPop, k])]).out =
      (c, .bulk v) :: (c, Reply.ofOptBulk (Py.index? (v :: vs) i)) :: (c, .int ((v :: vs).length : Nat)) :: s.out := by
  obtain ⟨o1, r1, i1, hk1⟩ := rpush_step mode hr hi h1 k [] (listView_of_missing hk) v vs
  obtain ⟨o2, r2, i2, hk2⟩ := lindex_step mode r1 i1 h2 k _ hk1 ib i hib
  obtain ⟨o3, _⟩ := lpop_step mode r2 i2 h3 k v vs (hk2 _ _ hk1)
  simp only [run_cons, run_nil]
  rw [o3, o2, o1]
  rfl

example : (run {} s0 [(1, [strBytes "rpush", wk, wv, [0]]), (1, [strBytes "lindex", wk, strBytes "-1"]),
    (1, [strBytes "lpop", wk])]).out = [(1, .bulk wv), (1, .bulk [0]), (1, .int 2)] :=
  rpush_lindex_lpop {} s0 1 ready1 inv0 _ _ _ (by decide +kernel) (by decide +kernel) (by decide +kernel) wk wv [[0]]
    (by decide +kernel) _ (-1) (by rw [show strBytes "-1" = [45, 49] by decide +kernel]; rfl)

/-! ## 3. hashes, sets, sorted sets -/

/-- `HSET k f v` on a key that is not live or holds a hash without deadline, then `HGET k f`: `v` -/
theorem hset_hget (mode : Mode) (s : Sys) (c : Nat) (hr : Ready s c) (hi : s.DataInv) (nSet nGet : Bytes)
    (h1 : Spells nSet "hset") (h2 : Spells nGet "hget") (k f v : Bytes) (h : FR.HashSet.HashV)
    (hv : FR.HashSet.hashView (view s c).live k = some (h, none)) :
    (run mode s [(c, [nSet, k, f, v]), (c, [nGet, k, f])]).out =
      (c, .bulk v) :: (c, .int (if (h.lookup f).isSome then 0 else 1)) :: s.out := by
  obtain ⟨o1, r1, i1, hk1⟩ := hset_step mode hr hi h1 k f v h hv
  obtain ⟨o2, _⟩ := hget_step mode r1 i1 h2 k f _ hk1
  simp only [run_cons, run_nil]
  rw [o2, o1, hsetRec_single_lookup]
  have : (FR.HashSet.hsetRec h [(f, v)]).2 = if (h.lookup f).isSome then 0 else 1 := by
    simp only [FR.HashSet.hsetRec, FR.HashSet.any_eq_isSome]
    cases (h.lookup f).isSome <;> rfl
  rw [this]
  cases (h.lookup f).isSome <;> rfl

/-- `HSET k f v` on a key that is not live, then `HGETALL k`: exactly `[f, v]` -/
theorem hset_hgetall (mode : Mode) (s : Sys) (c : Nat) (hr : Ready s c) (hi : s.DataInv) (nSet nAll : Bytes)
    (h1 : Spells nSet "hset") (h2 : Spells nAll "hgetall") (k f v : Bytes) (hk : (view s c).live k = none) :
    (run mode s [(c, [nSet, k, f, v]), (c, [nAll, k])]).out = (c, .arr [.bulk f, .bulk v]) :: (c, .int 1) :: s.out := by
  obtain ⟨o1, r1, i1, hk1⟩ := hset_step mode hr hi h1 k f v [] (hashView_of_missing hk)
  obtain ⟨o2, _⟩ := hgetall_step mode r1 i1 h2 k _ hk1
  simp only [run_cons, run_nil]
  rw [o2, o1, hsetRec_nil_single]
  rfl

example : (run {} s0 [(1, [strBytes "HSET", wk, wv, wk]), (1, [strBytes "hgetall", wk])]).out =
    [(1, .arr [.bulk wv, .bulk wk]), (1, .int 1)] :=
  hset_hgetall {} s0 1 ready1 inv0 _ _ (by decide +kernel) (by decide +kernel) wk wv wk (by decide +kernel)
example : (run {} s0 [(1, [strBytes "hset", wk, [], []]), (1, [strBytes "HGET", wk, []])]).out =
    [(1, .bulk []), (1, .int 1)] :=
  hset_hget {} s0 1 ready1 inv0 _ _ (by decide +kernel) (by decide +kernel) wk [] [] []
    (hashView_of_missing (by decide +kernel))

/-- `SADD k m` on a key that is not live, then `SISMEMBER k m` and `SMEMBERS k`: 1, and exactly `[m]` -/
theorem sadd_sismember_smembers (mode : Mode) (s : Sys) (c : Nat) (hr : Ready s c) (hi : s.DataInv)
    (nAdd nIs nMem : Bytes) (h1 : Spells nAdd "sadd") (h2 : Spells nIs "sismember") (h3 : Spells nMem "smembers")
    (k m : Bytes) (hk : (view s c).live k = none) :
    (run mode s [(c, [nAdd, k, m]), (c, [nIs, k, m]), (c, [nMem, k])]).out =
      (c, Reply.bulks [m]) :: (c, .int 1) :: (c, .int 1) :: s.out := by
  obtain ⟨o1, r1, i1, hk1⟩ := sadd_step mode hr hi h1 k m [] (setView_of_missing hk)
  obtain ⟨o2, r2, i2, hk2⟩ := sismember_step mode r1 i1 h2 k m _ hk1
  obtain ⟨o3, _⟩ := smembers_step mode r2 i2 h3 k _ (hk2 _ _ hk1)
  have e : Cmd.setUnion [] [m] = [m] := rfl
  simp only [run_cons, run_nil]
  rw [o3, o2, o1, e]
  simp

example : (run {} s0 [(1, [strBytes "sadd", wk, wv]), (1, [strBytes "SISMEMBER", wk, wv]), (1, [strBytes "smembers", wk])]).out =
    [(1, Reply.bulks [wv]), (1, .int 1), (1, .int 1)] :=
  sadd_sismember_smembers {} s0 1 ready1 inv0 _ _ _ (by decide +kernel) (by decide +kernel) (by decide +kernel) wk wv
    (by decide +kernel)

/-- `ZADD k 1 m` on a key that is not live, then `ZRANGE k 0 -1` and `ZSCORE k m`: exactly `[m]`, and the score `1` -/
theorem zadd_zrange_zscore (mode : Mode) (s : Sys) (c : Nat) (hr : Ready s c) (hi : s.DataInv)
    (nAdd nRange nScore : Bytes) (h1 : Spells nAdd "zadd") (h2 : Spells nRange "zrange") (h3 : Spells nScore "zscore")
    (k m : Bytes) (hk : (view s c).live k = none) :
    (run mode s [(c, [nAdd, k, strBytes "1", m]), (c, [nRange, k, strBytes "0", strBytes "-1"]),
      (c, [nScore, k, m])]).out =
      (c, .bulk (strBytes "1")) :: (c, .arr [.bulk m]) :: (c, .int 1) :: s.out := by
  have e0 : strBytes "0" = [48] := by decide +kernel
  have e1 : strBytes "-1" = [45, 49] := by decide +kernel
  have e2 : strBytes "1" = [49] := by decide +kernel
  obtain ⟨o1, r1, i1, hk1⟩ := zadd_one_step mode hr hi h1 k m hk
  obtain ⟨o2, r2, i2, hk2⟩ := zrange_one_step mode r1 i1 h2 k m hk1
  obtain ⟨o3, _⟩ := zscore_one_step mode r2 i2 h3 k m (hk2 _ _ hk1)
  simp only [run_cons, run_nil, e0, e1, e2]
  rw [o3, o2, o1]

example : (run {} s0 [(1, [strBytes "ZADD", wk, strBytes "1", wv]), (1, [strBytes "zrange", wk, strBytes "0", strBytes "-1"]),
    (1, [strBytes "zscore", wk, wv])]).out = [(1, .bulk (strBytes "1")), (1, .arr [.bulk wv]), (1, .int 1)] :=
  zadd_zrange_zscore {} s0 1 ready1 inv0 _ _ _ (by decide +kernel) (by decide +kernel) (by decide +kernel) wk wv
    (by decide +kernel)

/-! ## 4. key names -/

/-- `SET k v; EXISTS k; DEL k`: 1 and 1 -/
theorem set_exists_del (mode : Mode) (s : Sys) (c : Nat) (hr : Ready s c) (hi : s.DataInv) (nSet nEx nDel : Bytes)
    (h1 : Spells nSet "set") (h2 : Spells nEx "exists") (h3 : Spells nDel "del") (k v : Bytes) :
    (run mode s [(c, [nSet, k, v]), (c, [nEx, k]), (c, [nDel, k])]).out =
      (c, .int 1) :: (c, .int 1) :: (c, .ok) :: s.out := by
  obtain ⟨o1, r1, i1, hk1⟩ := set_step mode hr hi h1 k v
  obtain ⟨o2, r2, i2, hk2⟩ := exists_step mode r1 i1 h2 k
  obtain ⟨o3, _⟩ := del_step mode r2 i2 h3 k (by rw [(hk2 _ _ hk1).view]; rfl)
  simp only [run_cons, run_nil]
  rw [o3, o2, o1, hk1.view]
  rfl

/-- `SET k v; RENAME k k'; GET k'`: the value arrives under the new name (also for `k' = k`) -/
theorem set_rename_get (mode : Mode) (s : Sys) (c : Nat) (hr : Ready s c) (hi : s.DataInv) (nSet nRen nGet : Bytes)
    (h1 : Spells nSet "set") (h2 : Spells nRen "rename") (h3 : Spells nGet "get") (k k' v : Bytes) :
    (run mode s [(c, [nSet, k, v]), (c, [nRen, k, k']), (c, [nGet, k'])]).out =
      (c, .bulk v) :: (c, .ok) :: (c, .ok) :: s.out := by
  obtain ⟨o1, r1, i1, hk1⟩ := set_step mode hr hi h1 k v
  obtain ⟨o2, r2, i2, hk2⟩ := rename_step mode r1 i1 h2 k k' _ hk1
  obtain ⟨o3, _⟩ := get_step mode r2 i2 h3 k'
  simp only [run_cons, run_nil]
  rw [o3, o2, o1, hk2.view]

/-- `SET k v; TYPE k`: `string` -/
theorem set_type (mode : Mode) (s : Sys) (c : Nat) (hr : Ready s c) (hi : s.DataInv) (nSet nType : Bytes)
    (h1 : Spells nSet "set") (h2 : Spells nType "type") (k v : Bytes) :
    (run mode s [(c, [nSet, k, v]), (c, [nType, k])]).out = (c, .status (strBytes "string")) :: (c, .ok) :: s.out := by
  obtain ⟨o1, r1, i1, hk1⟩ := set_step mode hr hi h1 k v
  obtain ⟨o2, _⟩ := type_step mode r1 i1 h2 k
  simp only [run_cons, run_nil]
  rw [o2, o1, hk1.view]
  rfl

example : (run {} s0 [(1, [strBytes "set", wk, wv]), (1, [strBytes "EXISTS", wk]), (1, [strBytes "del", wk])]).out =
    [(1, .int 1), (1, .int 1), (1, .ok)] :=
  set_exists_del {} s0 1 ready1 inv0 _ _ _ (by decide +kernel) (by decide +kernel) (by decide +kernel) wk wv
example : (run {} s0 [(1, [strBytes "set", wk, wv]), (1, [strBytes "rename", wk, []]), (1, [strBytes "get", []])]).out =
    [(1, .bulk wv), (1, .ok), (1, .ok)] :=
  set_rename_get {} s0 1 ready1 inv0 _ _ _ (by decide +kernel) (by decide +kernel) (by decide +kernel) wk [] wv
example : (run {} s0 [(1, [strBytes "set", wk, wv]), (1, [strBytes "type", wk])]).out =
    [(1, .status (strBytes "string")), (1, .ok)] :=
  set_type {} s0 1 ready1 inv0 _ _ (by decide +kernel) (by decide +kernel) wk wv

/-! ## 5. MULTI / EXEC -/

/-- `MULTI; SET k v; GET k; EXEC` (nothing watched was touched): OK, QUEUED, QUEUED and the array `[OK, v]` — the
argument bytes travel through the queue unchanged -/
theorem multi_set_get_exec (mode : Mode) (s : Sys) (c : Nat) (hr : Ready s c) (hi : s.DataInv)
    (hw : (s.conn c).watchNotified = false) (nMulti nSet nGet nExec : Bytes)
    (h1 : Spells nMulti "multi") (h2 : Spells nSet "set") (h3 : Spells nGet "get") (h4 : Spells nExec "exec")
    (k v : Bytes) :
    (run mode s [(c, [nMulti]), (c, [nSet, k, v]), (c, [nGet, k]), (c, [nExec])]).out =
      (c, .arr [.ok, .bulk v]) :: (c, .queued) :: (c, .queued) :: (c, .ok) :: s.out := by
  obtain ⟨o1, q1, d1, _⟩ := multi_step mode hr hw h1
  obtain ⟨o2, q2, d2, _⟩ := queued_step mode q1 nSet [k, v] (h2.lookup.trans reg_set.look)
    (show FR.StrKeys.sigSet.checkArity 2 = true by decide) (by decide) (by decide)
  obtain ⟨o3, q3, d3, _⟩ := queued_step mode q2 nGet [k] (h3.lookup.trans reg_get.look)
    (show FR.StrKeys.sigGet.checkArity 1 = true by decide) (by decide) (by decide)
  have i3 : (after mode (after mode (after mode s (c, [nMulti])) (c, [nSet, k, v])) (c, [nGet, k])).DataInv :=
    hi.frame (d3.trans (d2.trans d1))
  obtain ⟨o4, _⟩ := exec_set_get_step mode k v q3 i3 h4
  simp only [run_cons, run_nil]
  rw [o4, o3, o2, o1]

example : (run {} s0 [(1, [strBytes "MULTI"]), (1, [strBytes "set", wk, wv]), (1, [strBytes "GET", wk]),
    (1, [strBytes "exec"])]).out = [(1, .arr [.ok, .bulk wv]), (1, .queued), (1, .queued), (1, .ok)] :=
  multi_set_get_exec {} s0 1 ready1 inv0 rfl _ _ _ _ (by decide +kernel) (by decide +kernel) (by decide +kernel)
    (by decide +kernel) wk wv

/-! ## 6. pub/sub -/

/-- `PUBLISH ch m` from an idle connection (no closed socket waiting for clean-up), in general: the messages of
`deliveries` (C10: `["message", ch, m]` to the subscribers of `ch`, `["pmessage", pat, ch, m]` to the matching pattern
subscribers) go out first, then the publisher gets their number.  Channel and message bytes are copied, never
interpreted. -/
theorem publish_on_the_wire (mode : Mode) (s : Sys) (P : Nat) (hr : Ready s P) (hcs : s.srv.closedSockets = [])
    (nPub : Bytes) (h : Spells nPub "publish") (ch m : Bytes) :
    (run mode s [(P, [nPub, ch, m])]).out =
      (P, .int (deliveries s.srv ch m).length) ::
        (((deliveries s.srv ch m).filter fun d => !(s.conn d.1).closed).reverse ++ s.out) :=
  publish_step mode hr hcs h ch m

/-- On a server without subscriptions: `S` sends `SUBSCRIBE ch` and is acknowledged with the very bytes of `ch`; then
`PUBLISH ch m` from another connection `P` emits to `S` exactly `["message", ch, m]` and answers 1 to `P` -/
theorem subscribe_publish (mode : Mode) (s : Sys) (S P : Nat) (hS : Ready s S) (hP : Ready s P) (hne : P ≠ S)
    (hsubs : s.srv.subs = []) (hpsubs : s.srv.psubs = []) (nSub nPub : Bytes)
    (h1 : Spells nSub "subscribe") (h2 : Spells nPub "publish") (ch m : Bytes) :
    (run mode s [(S, [nSub, ch]), (P, [nPub, ch, m])]).out =
      (P, .int 1) :: (S, .arr [.bulk (strBytes "message"), .bulk ch, .bulk m]) ::
        (S, .arr [.bulk (strBytes "subscribe"), .bulk ch, .int 1]) :: s.out := by
  obtain ⟨o1, hs, hps, hcs, hcl, _, hready⟩ := subscribe_step mode hS hsubs hpsubs h1 ch
  have o2 := publish_step mode (hready P hne hP) hcs h2 ch m
  simp only [run_cons, run_nil]
  rw [o2, o1]
  have hd : deliveries (after mode s (S, [nSub, ch])).srv ch m =
      [(S, .arr [.bulk (strBytes "message"), .bulk ch, .bulk m])] := by
    unfold deliveries
    rw [hs, hps]
    simp
  rw [hd]
  simp [hcl]

example : (run {} s0 [(1, [strBytes "SUBSCRIBE", wk]), (2, [strBytes "publish", wk, wv])]).out =
    [(2, .int 1), (1, .arr [.bulk (strBytes "message"), .bulk wk, .bulk wv]),
      (1, .arr [.bulk (strBytes "subscribe"), .bulk wk, .int 1])] :=
  subscribe_publish {} s0 1 2 ready1 ready2 (by decide) rfl rfl _ _ (by decide +kernel) (by decide +kernel) wk wv

/-! ## 7. only the command NAME is case-normalised -/

/-- any letter case of the name spells the command; nothing else does -/
example : Spells (strBytes "SET") "set" ∧ Spells (strBytes "sEt") "set" ∧ Spells (strBytes "set") "SET" ∧
    ¬ Spells (strBytes "se") "set" ∧ ¬ Spells [83, 69, 84, 0] "set" := by
  refine ⟨by decide +kernel, by decide +kernel, by decide +kernel, ?_, ?_⟩ <;> (unfold Spells; decide +kernel)

/-- two requests whose names differ only in ASCII letter case and whose arguments are the same bytes leave the same
state (same replies, same data) — hence every theorem above holds for every spelling of the names -/
theorem name_case_irrelevant (mode : Mode) (s : Sys) (c : Nat) (hr : Ready s c) (n1 n2 : Bytes)
    (h : n1.map lowerByte = n2.map lowerByte) (args : List Bytes) :
    run mode s [(c, n1 :: args)] = run mode s [(c, n2 :: args)] :=
  after_case_insensitive mode hr.has hr.buf hr.dead hr.paused hr.connected n1 n2 h args

/-- … while keys are NOT normalised: after `SET K v`, a `GET k` for a key `k ≠ K` (for instance `K` in another letter
case) that was not live replies nil (clock readings `t1 ≤ t2` of the two commands) -/
theorem keys_are_case_sensitive (mode : Mode) (s : Sys) (c : Nat) (hr : Ready s c) (hi : s.DataInv)
    (nSet nGet : Bytes) (h1 : Spells nSet "set") (h2 : Spells nGet "get") (K k v : Bytes) (hne : k ≠ K)
    (t1 t2 : Int) (rest : List Int) (hclk : s.clocks = t1 :: t2 :: rest) (hmono : t1 ≤ t2)
    (hk : (view s c).live k = none) :
    (run mode s [(c, [nSet, K, v]), (c, [nGet, k])]).out = (c, .nil) :: (c, .ok) :: s.out := by
  obtain ⟨o1, r1, i1, _⟩ := set_step mode hr hi h1 K v
  obtain ⟨o2, _⟩ := get_step mode r1 i1 h2 k
  have hk' := set_other_step mode hr hi h1 K v k hne hclk hmono hk
  simp only [run_cons, run_nil]
  rw [o2, o1, hk']

/-- `SET KEY v` then `GET key` on the fresh server: nil — and `GET KEY`: `v` -/
example : (run {} { s0 with clocks := [5, 7] } [(1, [strBytes "set", strBytes "KEY", wv]), (1, [strBytes "get", strBytes "key"])]).out =
    [(1, .nil), (1, .ok)] :=
  keys_are_case_sensitive {} { s0 with clocks := [5, 7] } 1
    ⟨⟨_, List.mem_cons_self, rfl⟩, rfl, rfl, rfl, rfl, rfl, rfl, by decide, rfl, rfl⟩ (Sys.dataInv_init.frame rfl)
    _ _ (by decide +kernel) (by decide +kernel) (strBytes "KEY") (strBytes "key") wv (by decide +kernel) 5 7 [] rfl
    (by decide) (by decide +kernel)

/-! ## 8. pipelining: several requests in one write -/

theorem sendallGuarded_up (mode : Mode) (c : Nat) (data : Bytes) (s : Sys) (hup : s.srv.connected = true) :
    (sendallGuarded mode c data).run s = (sendall mode c data).run s := by
  unfold sendallGuarded
  simp only [StateT.run, bind, StateT.bind, get, getThe, MonadStateOf.get, StateT.get, pure, hup,
    Bool.not_true, Bool.false_eq_true, if_false]

/-- PIPELINING: two requests written with ONE `sendall` leave the same state as two separate writes, when the
connection is alive (and the server up) after the first -/
theorem pipelined (mode : Mode) (s : Sys) (c : Nat) (r1 r2 : List Bytes) (hup : s.srv.connected = true)
    (hup1 : (after mode s (c, r1)).srv.connected = true)
    (halive : ((after mode s (c, r1)).conn c).dead = false) :
    ((sendallGuarded mode c (encodeRequest r1 ++ encodeRequest r2)).run s).2 = run mode s [(c, r1), (c, r2)] := by
  have e1 : after mode s (c, r1) = ((sendall mode c (encodeRequest r1)).run s).2 := by
    unfold after; rw [sendallGuarded_up mode c _ s hup]
  simp only [run_cons, run_nil]
  have e2 : after mode (after mode s (c, r1)) (c, r2) =
      ((sendall mode c (encodeRequest r2)).run (after mode s (c, r1))).2 := by
    show ((sendallGuarded mode c (encodeRequest r2)).run (after mode s (c, r1))).2 = _
    rw [sendallGuarded_up mode c _ _ hup1]
  rw [e2, e1, sendallGuarded_up mode c _ s hup]
  have h := FR.BufIndep.sendall_append mode c (encodeRequest r1) (encodeRequest r2) s (by rw [← e1]; exact halive)
  rw [← h]
  rfl

/-- `SET k v` and `GET k` pipelined in one write: same replies -/
theorem set_get_pipelined (mode : Mode) (s : Sys) (c : Nat) (hr : Ready s c) (hi : s.DataInv) (nSet nGet : Bytes)
    (h1 : Spells nSet "set") (h2 : Spells nGet "get") (k v : Bytes) :
    ((sendallGuarded mode c (encodeRequest [nSet, k, v] ++ encodeRequest [nGet, k])).run s).2.out =
      (c, .bulk v) :: (c, .ok) :: s.out := by
  obtain ⟨_, r1, _, _⟩ := set_step mode hr hi h1 k v
  rw [pipelined mode s c _ _ hr.connected r1.connected r1.dead]
  exact set_get mode s c hr hi nSet nGet h1 h2 k v

example : ((sendallGuarded {} 1 (encodeRequest [strBytes "SET", wk, wv] ++ encodeRequest [strBytes "get", wk])).run s0).2.out =
    [(1, .bulk wv), (1, .ok)] :=
  set_get_pipelined {} s0 1 ready1 inv0 _ _ (by decide +kernel) (by decide +kernel) wk wv

end FR.Props.C17s
