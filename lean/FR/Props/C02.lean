import FR.Proofs.Lists
import FR.Proofs.Lrem
import FR.Proofs.Sets
/-! # C02 — lists (and the random set commands): final theorems -/
namespace FR.Props.C02
open FR FR.Spec FR.Proofs

/-- LRANGE: Redis index normalisation + Python slice = the declarative window -/
theorem lrange_eq_spec {α} (l : List α) (a b : Int) :
    (let (x, y) := fixRange a b l.length; Py.slice l x y) = lrangeSpec l a b :=
  FR.Proofs.lrange_eq_spec l a b
example : lrangeSpec [10, 20, 30, 40, 50] (-3) 100 = [30, 40, 50] := by decide

/-- the body of LRANGE replies with the declarative window -/
theorem lrange_body (ctx : Ctx) (cis : List CI) (k : Nat) (s e : Int) :
    Cmd.lrange ctx [.key k, .int s, .int e] cis =
      ret (Reply.bulks (lrangeSpec (Cmd.listOf (ciAt cis k)) s e)) cis :=
  FR.Proofs.lrange_body ctx cis k s e

/-- LTRIM keeps exactly the LRANGE window -/
theorem ltrim_eq_spec {α} (l : List α) (s e : Int) :
    (if e == -1 then Py.sliceFrom l s else Py.slice l s (e + 1)) = lrangeSpec l s e :=
  FR.Proofs.ltrim_eq_spec l s e
example : (if (-2 : Int) == -1 then Py.sliceFrom [1, 2, 3, 4] 1 else Py.slice [1, 2, 3, 4] 1 (-2 + 1))
    = [2, 3] := by decide

theorem ltrim_body (ctx : Ctx) (cis : List CI) (k : Nat) (s e : Int) :
    Cmd.ltrim ctx [.key k, .int s, .int e] cis =
      (let c := ciAt cis k
       if !c.truthy then ret .ok cis
       else
         let nv := lrangeSpec (Cmd.listOf c) s e
         if nv.length != (Cmd.listOf c).length then ret .ok (cis.set k (c.update (.list nv)))
         else ret .ok cis) :=
  FR.Proofs.ltrim_body ctx cis k s e

/-- LINDEX -/
theorem lindex_spec {α} (l : List α) (i : Int) :
    Py.index? l i = (if 0 ≤ norm i l.length then l[(norm i l.length).toNat]? else none) :=
  FR.Proofs.lindex_spec l i
example : Py.index? [1, 2, 3] (-1) = some 3 ∧ Py.index? [1, 2, 3] (-4) = none ∧
    Py.index? [1, 2, 3] 3 = none := by decide

/-- LSET: updates exactly position `norm i`; `none` (index error) iff out of range -/
theorem lset_spec {α} (l : List α) (i : Int) (v : α) :
    Py.setIndex? l i v =
      (if 0 ≤ norm i l.length ∧ norm i l.length < l.length
       then some (l.set (norm i l.length).toNat v) else none) :=
  FR.Proofs.lset_spec l i v

theorem lset_some {α} (l l' : List α) (i : Int) (v : α) (h : Py.setIndex? l i v = some l') :
    0 ≤ norm i l.length ∧ norm i l.length < l.length ∧ l'.length = l.length ∧
    l'[(norm i l.length).toNat]? = some v ∧
    ∀ j : Nat, j ≠ (norm i l.length).toNat → l'[j]? = l[j]? :=
  FR.Proofs.lset_some l l' i v h
example : Py.setIndex? [1, 2, 3] (-1) 9 = some [1, 2, 9] ∧ Py.setIndex? [1, 2, 3] 3 9 = none := by
  decide

/-- LPOP/RPOP with COUNT: what is popped, what stays, nothing lost -/
theorem pop_count_semantics (l : List Bytes) (n : Nat) :
    Cmd.popLeftN l n = (l.take n, l.drop n) ∧
    (Cmd.popLeftN l n).1 ++ (Cmd.popLeftN l n).2 = l ∧
    (Cmd.popRightN l n).1 = l.reverse.take n ∧
    (Cmd.popRightN l n).2 ++ (Cmd.popRightN l n).1.reverse = l ∧
    (Cmd.popLeftN l n).1.length = min n l.length ∧
    (Cmd.popRightN l n).1.length = min n l.length ∧
    (Cmd.popLeftN l n).1.length + (Cmd.popLeftN l n).2.length = l.length ∧
    (Cmd.popRightN l n).1.length + (Cmd.popRightN l n).2.length = l.length :=
  ⟨rfl, popLeftN_conserve l n, popRightN_popped l n, popRightN_conserve l n,
   (popLeftN_length l n).1, (popRightN_length l n).1, (popLeftN_length l n).2,
   (popRightN_length l n).2⟩
example : Cmd.popRightN [[1], [2], [3]] 2 = ([[3], [2]], [[1]]) := by decide

/-- the body applies those functions to the stored list -/
theorem pop_count_body (left : Bool) (ctx : Ctx) (cis : List CI) (k : Nat) (n : Int)
    (l : List Bytes) (hv : (ciAt cis k).val = some (.list l)) (hne : l ≠ [])
    (hn : 0 ≤ n) (hver : ¬ (n = 0 ∧ ctx.version = 6)) :
    Cmd.listPop left ctx [.key k, .int n] cis =
      (let pr := if left then Cmd.popLeftN l n.toNat else Cmd.popRightN l n.toNat
       ret (Reply.bulks pr.1) (Cmd.setList cis k pr.2)) :=
  listPop_count_body left ctx cis k n l hv hne hn hver
example : ∃ (cis : List CI) (l : List Bytes), (ciAt cis 0).val = some (.list l) ∧ l ≠ [] :=
  ⟨[{ key := [1], val := some (.list [[7]]), expireat := none }], [[7]], rfl, by decide⟩

/-- RPOPLPUSH with source = destination rotates the list; both items see the rotated list -/
theorem rpoplpush_same_key_rotates (ctx : Ctx) (cis : List CI) (s d : Nat) (l : List Bytes)
    (hs : s < cis.length) (hd : d < cis.length)
    (hkey : (ciAt cis s).key = (ciAt cis d).key) (hl : Cmd.listOf (ciAt cis s) = l) (hne : l ≠ []) :
    ∃ o, Cmd.rpoplpush ctx [.key s, .key d] cis = .ok o ∧
      o.reply = .bulk (l.getLast hne) ∧
      Cmd.listOf (ciAt o.cis s) = l.getLast hne :: l.dropLast ∧
      Cmd.listOf (ciAt o.cis d) = l.getLast hne :: l.dropLast := by
  refine ⟨_, (rpoplpush_body ctx cis s d).trans
    (FR.Proofs.rpoplpush_same_key_rotates cis s d l hkey hl hne), rfl, ?_⟩
  exact listOf_setList_setList cis s d _ hs hd
example :
    let c : CI := { key := [1], val := some (.list [[1], [2], [3]]), expireat := none }
    (Cmd.rpoplpush default [.key 0, .key 1] [c, c]).toOption.map
      (fun o => (Cmd.listOf (ciAt o.cis 0), Cmd.listOf (ciAt o.cis 1)))
      = some ([[3], [1], [2]], [[3], [1], [2]]) := by decide

/-- LREM: number removed, length, what was removed, what is preserved -/
theorem lrem_count_semantics (l : List Bytes) (count : Int) (v : Bytes) :
    let rm := lremRm l count v
    let l' := lremKeep l rm
    rm.length = (if count = 0 then l.count v else min count.natAbs (l.count v)) ∧
    l'.length = l.length - rm.length ∧
    (∀ i ∈ rm, l[i]? = some v) ∧
    l'.filter (· != v) = l.filter (· != v) ∧
    l'.count v = l.count v - rm.length :=
  FR.Proofs.lrem_count_semantics l count v

/-- which occurrences go: the first `count`, the last `-count`, or all, of the ascending list of the
indices holding `v`; the result is `l` with exactly those indices deleted -/
theorem lrem_which (l : List Bytes) (count : Int) (v : Bytes) :
    (0 < count → lremRm l count v = (Cmd.occurrences l v).take count.natAbs) ∧
    (count < 0 → lremRm l count v = ((Cmd.occurrences l v).reverse.take count.natAbs).reverse) ∧
    (count = 0 → lremRm l count v = Cmd.occurrences l v) ∧
    (∀ i, i ∈ Cmd.occurrences l v ↔ l[i]? = some v) ∧
    (Cmd.occurrences l v).Pairwise (· < ·) ∧
    (∀ rm : List Nat, lremKeep l rm = (l.zipIdx.filter (fun p => !rm.contains p.2)).map Prod.fst) :=
  ⟨(lremRm_shape l count v).1, (lremRm_shape l count v).2.1, (lremRm_shape l count v).2.2,
   mem_occurrences l v, occurrences_sorted l v, fun _ => rfl⟩

/-- `lremRm` / `lremKeep` are what the body of LREM computes -/
theorem lrem_body (ctx : Ctx) (cis : List CI) (k : Nat) (count : Int) (v : Bytes) :
    Cmd.lrem ctx [.key k, .int count, .raw v] cis =
      (let l := Cmd.listOf (ciAt cis k)
       let rm := lremRm l count v
       if rm.isEmpty then ret (.int 0) cis
       else ret (.int rm.length) (Cmd.setList cis k (lremKeep l rm))) :=
  FR.Proofs.lrem_body ctx cis k count v
example : lremKeep [[1], [2], [1], [3], [1]] (lremRm [[1], [2], [1], [3], [1]] (-2) [1])
    = [[1], [2], [3]] := by decide

/-- LREM, index-free: the stored result is the structural specification `lremSpec`
(`eraseFirstN` for `count > 0`, "keep only the first `occ - |count|` occurrences" for `count < 0`,
`filter (· ≠ v)` for `count = 0`) and the reply is the number of deleted elements -/
theorem lrem_eq_spec (l : List Bytes) (count : Int) (v : Bytes) :
    lremKeep l (lremRm l count v) = lremSpec l count v ∧
    (lremRm l count v).length = l.length - (lremSpec l count v).length :=
  ⟨FR.Proofs.lrem_eq_spec l count v, by
    have h : (lremKeep l (lremRm l count v)).length = l.length - (lremRm l count v).length :=
      (FR.Proofs.lrem_count_semantics l count v).2.1
    have hs : ((lremRm l count v).length ≤ l.length) := by
      have := lremKeep_length l (lremRm l count v)
        ((lremRm_sublist l count v).trans (occurrences_sublist l v))
      omega
    rw [← FR.Proofs.lrem_eq_spec]
    omega⟩
example : lremSpec [[1], [2], [1], [3], [1]] 2 [1] = [[2], [3], [1]] ∧
    lremSpec [[1], [2], [1], [3], [1]] (-2) [1] = [[1], [2], [3]] ∧
    lremSpec [[1], [2], [1], [3], [1]] (-7) [1] = [[2], [3]] ∧
    lremSpec [[1], [2], [1], [3], [1]] 0 [1] = [[2], [3]] ∧
    lremSpec [[1], [2], [1], [3], [1]] (-1) [1]
      = (eraseFirstN [1] 1 ([[1], [2], [1], [3], [1]] : List Bytes).reverse).reverse := by decide

/-- the three cases of `lremSpec` in their familiar form -/
theorem lremSpec_cases (l : List Bytes) (count : Int) (v : Bytes) :
    (0 < count → lremSpec l count v = eraseFirstN v count.natAbs l) ∧
    (count < 0 → lremSpec l count v = (eraseFirstN v count.natAbs l.reverse).reverse) ∧
    (count = 0 → lremSpec l count v = l.filter (· != v)) := by
  refine ⟨fun h => ?_, lremSpec_neg l count v, fun h => ?_⟩
  · unfold lremSpec; rw [if_pos h]; congr 1; omega
  · subst h; rfl

/-- SRANDMEMBER / SPOP core: every accepted random pick is a legal one -/
theorem srandmember_valid_pick (ctx : Ctx) (s : List Bytes) (count : Option Int) (r : Reply)
    (used : Nat) (picked : List Bytes) (h : Cmd.srandCore ctx s count = some (r, used, picked)) :
    (∀ x ∈ picked, x ∈ s) ∧
    (match count with
     | none => picked.length ≤ 1 ∧ (s ≠ [] → picked.length = 1) ∧
               r = Reply.ofOptBulk picked.head?
     | some n =>
       r = Reply.bulks picked ∧
       (0 ≤ n → picked.length = min n.toNat s.length ∧ picked.Nodup) ∧
       (n < 0 → (s ≠ [] → picked.length = (-n).toNat) ∧ (s = [] → picked = []))) :=
  srandCore_spec ctx s count r used picked h
example : (Cmd.srandCore { version := 7, time := 0, picks := [[[2], [1]]] } [[1], [2], [3]] (some 2)).map
    (fun t => t.2) = some (1, [[2], [1]]) := by decide

/-- SPOP: the reply is an accepted pick and exactly the picked members leave the set -/
theorem spop_valid_pick (ctx : Ctx) (k : Nat) (rest : List Arg) (cis : List CI) (o : BodyOut)
    (h : Cmd.spop ctx (.key k :: rest) cis = .ok o) :
    ∃ r used picked,
      Cmd.srandCore ctx (Cmd.setOf (ciAt cis k)) (Cmd.intArgs rest).head? = some (r, used, picked) ∧
      o.reply = r ∧ o.picksUsed = used ∧
      (o.cis = if picked.isEmpty then cis
               else Cmd.putSet cis k (Cmd.setDiff (Cmd.setOf (ciAt cis k)) picked)) ∧
      (∀ x ∈ picked, x ∈ Cmd.setOf (ciAt cis k)) ∧
      (∀ x, x ∈ Cmd.setDiff (Cmd.setOf (ciAt cis k)) picked ↔ x ∈ Cmd.setOf (ciAt cis k) ∧ x ∉ picked) := by
  obtain ⟨r, used, picked, h1, h2, h3, h4⟩ := spop_spec ctx k rest cis o h
  exact ⟨r, used, picked, h1, h2, h3, h4, (srandCore_spec _ _ _ _ _ _ h1).1, mem_setDiff _ _⟩
example :
    (Cmd.spop { version := 7, time := 0, picks := [[[2]]] } [.key 0]
      [{ key := [1], val := some (.set [[1], [2]]), expireat := none }]).toOption.map
      (fun o => (o.picksUsed, Cmd.setOf (ciAt o.cis 0))) = some (1, [[1]]) := by decide

end FR.Props.C02
