import FR.Proofs.Parser
/-!
# C17 — command-name normalisation touches the first field only
-/
namespace FR
namespace C17
open M

/-- `commandName` is ASCII lower-casing: lower-casing the input beforehand changes nothing … -/
theorem commandName_lowercase_invariant (b : Bytes) : commandName (b.map lowerByte) = commandName b :=
  commandName_lower b

/-- … the result is the lower-cased spelling, defined exactly for 7-bit names … -/
theorem commandName_spec (b : Bytes) :
    commandName b = if b.all (fun c => c < 128) then some (bytesStr (b.map lowerByte)) else none := rfl

/-- … and names that differ only in ASCII case denote the same command. -/
theorem commandName_case_insensitive (a b : Bytes) (h : a.map lowerByte = b.map lowerByte) :
    commandName a = commandName b :=
  commandName_congr h

theorem lookupSig_case_insensitive (a b : Bytes) (h : a.map lowerByte = b.map lowerByte) :
    lookupSig a = lookupSig b := by
  unfold lookupSig
  rw [commandName_congr h]

/-- `lowerByte` only moves `A`–`Z`. -/
theorem lowerByte_spec (c : UInt8) :
    (lowerByte c).toNat = if 65 ≤ c.toNat ∧ c.toNat ≤ 90 then c.toNat + 32 else c.toNat :=
  lowerByte_toNat c

/-- Structure of `processCommand`: the signature is a function (`lookupSig`) of the FIRST field alone, and
the remaining fields are handed on (`dispatch … args`) byte for byte. -/
theorem name_normalisation_first_field_only (mode : Mode) (c : Nat) (name : Bytes) (args : List Bytes) :
    processCommand mode c (name :: args) = (do
      let conn ← getConn c
      match lookupSig name with
      | none =>
        if conn.tx.isSome then modifyConn c fun x => { x with txFailed := true }
        emit c (.err (strBytes unknownCommandPrefix))
      | some sig => dispatch mode c conn sig args) :=
  processCommand_cons mode c name args

/-- Hence two requests whose names differ only in ASCII case and whose arguments are identical
are processed identically. -/
theorem processCommand_case_insensitive (mode : Mode) (c : Nat) (n1 n2 : Bytes) (args : List Bytes)
    (h : n1.map lowerByte = n2.map lowerByte) :
    processCommand mode c (n1 :: args) = processCommand mode c (n2 :: args) := by
  rw [processCommand_cons, processCommand_cons, lookupSig_case_insensitive n1 n2 h]

/-- MULTI branch, semantically: with an open transaction `q` on connection `c`, a known, arity-correct,
queueable command appends exactly `(sig.name, args)` — the argument bytes are stored unchanged
(not lower-cased, not truncated). -/
theorem multi_queues_args_unchanged (mode : Mode) (c : Nat) (name : Bytes) (args : List Bytes) (s : Sys)
    (sig : Sig) (q : List (String × List Bytes))
    (hsig : lookupSig name = some sig)
    (htx : txOf s c = some (some q))
    (har : sig.checkArity args.length = true)
    (hnq : SigTable.notQueued.contains sig.name = false)
    (hnm : SigTable.notInMulti.contains sig.name = false) :
    txOf ((processCommand mode c (name :: args)).run s).2 c = some (some (q ++ [(sig.name, args)])) := by
  rw [processCommand_cons]
  simp only [StateT.run_bind, getConn_run_p, hsig]
  have hconn : ((findConn s c).getD { id := c }).tx.isSome = true := by
    unfold txOf at htx
    cases hf : findConn s c with
    | none => rw [hf] at htx; simp at htx
    | some x =>
      rw [hf] at htx
      simp only [Option.map_some, Option.some.injEq] at htx
      simp [htx]
  show txOf ((dispatch mode c ((findConn s c).getD { id := c }) sig args).run s).2 c = _
  rw [txOf_queued mode c _ sig args s hconn har hnq hnm, htx]
  rfl

/-- MULTI branch, the refused commands ((P)SUBSCRIBE / (P)UNSUBSCRIBE, any case of the name): the queue is
left exactly as it was - nothing is stored. -/
theorem multi_refused_queue_unchanged (mode : Mode) (c : Nat) (name : Bytes) (args : List Bytes) (s : Sys)
    (sig : Sig) (q : List (String × List Bytes))
    (hsig : lookupSig name = some sig)
    (htx : txOf s c = some (some q))
    (har : sig.checkArity args.length = true)
    (hnq : SigTable.notQueued.contains sig.name = false)
    (hnm : SigTable.notInMulti.contains sig.name = true) :
    txOf ((processCommand mode c (name :: args)).run s).2 c = some (some q) := by
  rw [processCommand_cons]
  simp only [StateT.run_bind, getConn_run_p, hsig]
  have hconn : ((findConn s c).getD { id := c }).tx.isSome = true := by
    unfold txOf at htx
    cases hf : findConn s c with
    | none => rw [hf] at htx; simp at htx
    | some x =>
      rw [hf] at htx
      simp only [Option.map_some, Option.some.injEq] at htx
      simp [htx]
  show txOf ((dispatch mode c ((findConn s c).getD { id := c }) sig args).run s).2 c = _
  rw [txOf_refused mode c _ sig args s hconn har hnq hnm, htx]

/-! ## non-vacuity -/

/-- `SeT` and `set` are the same command … -/
example : commandName [83, 101, 84] = commandName [115, 101, 116] :=
  commandName_case_insensitive _ _ (by decide)
/-- … a name with a byte ≥ 0x80 is no command at all … -/
example : commandName [115, 101, 116, 200] = none := by rfl
/-- … and only `A`–`Z` move: `@`, `[`, `_`, NUL, CR stay -/
example : [64, 65, 90, 91, 95, 0, 13].map lowerByte = [64, 97, 122, 91, 95, 0, 13] := by decide


/-- `GeT KeY` inside MULTI: looked up as `get`, queued with the key's case intact -/
example :
    txOf ((processCommand {} 0 [[71, 101, 84], [75, 101, 89]]).run
      { srv := { conns := [{ id := 0, tx := some [] }] } }).2 0 =
      some (some [("get", [[75, 101, 89]])]) := by
  have hcn : commandName [71, 101, 84] = some "get" := by simp [commandName, bytesStr, lowerByte]
  have hsw : ("get".startsWith "_") = false := by simp
  have hsig : lookupSig [71, 101, 84] =
      some ⟨"get", [.key (some .str) .unspecified], [], false, 1, 0, false⟩ := by
    simp only [lookupSig, hcn, hsw]
    simp [SigTable.find, SigTable.sigs]
    rfl
  exact multi_queues_args_unchanged {} 0 _ _ _ _ [] hsig rfl rfl (by simp [SigTable.notQueued])
    (by simp [SigTable.notInMulti])

/-- `SubScribe Ch` inside MULTI: looked up as `subscribe`, refused, the queue stays empty -/
example :
    txOf ((processCommand {} 0 [[83, 117, 98, 83, 99, 114, 105, 98, 101], [67, 104]]).run
      { srv := { conns := [{ id := 0, tx := some [] }] } }).2 0 = some (some []) := by
  decide +kernel

end C17
end FR
