import FR.Proofs.System
/-!
# C13 — isolation: databases, connections, servers

`s.conn c` abbreviates `(M.getConn c s).1`; `s.HasConn c` says a connection with id `c` is registered.
-/
namespace FR.C13
open FR FR.M

/-! ## 10. a regular command touches the selected database only -/

/-- frame: the other databases are untouched (whatever the `special` dispatcher is) -/
theorem regular_frame_other_dbs (special) (mode : Mode) (c : Nat) (sig : Sig) (raw : List Bytes)
    (fromScript : Bool) (body : Body) (hreg : Cmd.regular sig.name = some body) (s : Sys) :
    ∀ j, j ≠ (s.conn c).db →
      (runWith special mode c sig raw fromScript s).2.srv.dbs.getD j [] = s.srv.dbs.getD j [] := by
  intro j hj
  cases hr : s.refuses c sig with
  | true => rw [runWith_refused special mode c sig raw fromScript hr]
  | false =>
    rw [runWith_regular_run special mode c sig raw fromScript hreg s hr, Sys.afterRegular_dbs]
    exact getD_set_ne _ _ _ _ _ hj

/-- the number of databases does not change -/
theorem regular_dbs_length (special) (mode : Mode) (c : Nat) (sig : Sig) (raw : List Bytes)
    (fromScript : Bool) (body : Body) (hreg : Cmd.regular sig.name = some body) (s : Sys) :
    (runWith special mode c sig raw fromScript s).2.srv.dbs.length = s.srv.dbs.length := by
  cases hr : s.refuses c sig with
  | true => rw [runWith_refused special mode c sig raw fromScript hr]
  | false => rw [runWith_regular_run special mode c sig raw fromScript hreg s hr, Sys.afterRegular_dbs, List.length_set]

/-- independence: replacing the other databases changes neither the reply nor the new selected database -/
theorem regular_independent_of_other_dbs (special) (mode : Mode) (c : Nat) (sig : Sig) (raw : List Bytes)
    (fromScript : Bool) (body : Body) (hreg : Cmd.regular sig.name = some body) (s : Sys) (dbs2 : List Dict)
    (hd : (s.conn c).db < s.srv.dbs.length) (hd2 : (s.conn c).db < dbs2.length)
    (hsame : dbs2.getD (s.conn c).db [] = s.srv.dbs.getD (s.conn c).db []) :
    let s2 : Sys := { s with srv := { s.srv with dbs := dbs2 } }
    (runWith special mode c sig raw fromScript s2).1 = (runWith special mode c sig raw fromScript s).1 ∧
    (runWith special mode c sig raw fromScript s2).2.srv.dbs.getD (s.conn c).db []
      = (runWith special mode c sig raw fromScript s).2.srv.dbs.getD (s.conn c).db [] ∧
    (∀ j, j ≠ (s.conn c).db →
      (runWith special mode c sig raw fromScript s2).2.srv.dbs.getD j [] = dbs2.getD j []) := by
  intro s2
  have hconn : s2.conn c = s.conn c := rfl
  have ho : s2.regularOut c sig body raw fromScript = s.regularOut c sig body raw fromScript := by
    unfold Sys.regularOut
    rw [hconn]
    show runRegular _ _ _ _ _ ⟨dbs2.getD (s.conn c).db [], s.srv.time⟩ = _
    rw [hsame]
  have hr2 : s2.refuses c sig = s.refuses c sig := rfl
  cases hr : s.refuses c sig with
  | true =>
    -- refused in subscriber mode: the same error reply, no database is touched
    rw [runWith_refused special mode c sig raw fromScript (hr2.trans hr),
      runWith_refused special mode c sig raw fromScript hr]
    exact ⟨rfl, hsame, fun _ _ => rfl⟩
  | false =>
    rw [runWith_regular_run special mode c sig raw fromScript hreg s2 (hr2.trans hr),
      runWith_regular_run special mode c sig raw fromScript hreg s hr, ho, hconn]
    refine ⟨rfl, ?_, ?_⟩
    · rw [Sys.afterRegular_dbs, Sys.afterRegular_dbs, getD_set_self _ _ _ _ hd]
      exact getD_set_self _ _ _ _ hd2
    · intro j hj
      rw [Sys.afterRegular_dbs]
      exact getD_set_ne _ _ _ _ _ hj

example : ∃ (sig : Sig) (body : Body) (s : Sys), SigTable.find "get" = some sig ∧
    Cmd.regular sig.name = some body ∧ (s.conn 7).db < s.srv.dbs.length ∧ s.srv.dbs.length = 16 :=
  ⟨_, _, { srv := { conns := [{ id := 7, db := 3 }] } }, rfl, rfl, by decide, rfl⟩

/-! ## 11. SELECT -/

theorem select_persists (s : Sys) (c : Nat) (i : Int) (cis : List CI) (hc : s.HasConn c) :
    (selectCmd c [.int i] cis s).1 = .ok (some .ok, cis) ∧
    ((selectCmd c [.int i] cis s).2.conn c).db = i.toNat ∧
    (∀ c', c' ≠ c → (selectCmd c [.int i] cis s).2.conn c' = s.conn c') ∧
    (selectCmd c [.int i] cis s).2.srv.dbs = s.srv.dbs ∧
    (selectCmd c [.int i] cis s).2 =
      { s with srv := { s.srv with conns := (selectCmd c [.int i] cis s).2.srv.conns } } := by
  rw [selectCmd_run]
  refine ⟨rfl, ?_, ?_, rfl, rfl⟩
  · rw [Sys.conn_updConn_same (fun x => { x with db := i.toNat }) hc (fun _ => rfl)]
  · intro c' hne
    exact Sys.conn_updConn_ne (fun x => { x with db := i.toNat }) hne (fun _ => rfl)

/-- nothing but the `db` field of the record changes -/
theorem select_only_db (s : Sys) (c : Nat) (i : Int) (cis : List CI) (hc : s.HasConn c) :
    (selectCmd c [.int i] cis s).2.conn c = { s.conn c with db := i.toNat } := by
  rw [selectCmd_run, Sys.conn_updConn_same (fun x => { x with db := i.toNat }) hc (fun _ => rfl)]

example : ∃ s : Sys, s.HasConn 7 ∧ ((selectCmd 7 [.int 5] [] s).2.conn 7).db = 5 :=
  ⟨{ srv := { conns := [{ id := 7 }] } }, ⟨_, List.mem_singleton.2 rfl, rfl⟩, rfl⟩

/-! ## 12. a new connection starts in database 0, outside MULTI, without subscriptions -/

theorem openConn_fresh (s : Sys) (c : Nat) (h : ¬ s.HasConn c) :
    (openConn c s).2.HasConn c ∧
    ((openConn c s).2.conn c).db = 0 ∧ ((openConn c s).2.conn c).tx = none ∧
    ((openConn c s).2.conn c).pubsub = 0 ∧ ((openConn c s).2.conn c).watches = [] ∧
    (∀ c', c' ≠ c → (openConn c s).2.conn c' = s.conn c') ∧
    (openConn c s).2.srv.dbs = s.srv.dbs := by
  obtain ⟨h1, h2⟩ := openConn_conn_new c s h
  refine ⟨h1, ?_, ?_, ?_, ?_, fun c' hne => openConn_conn_other c c' s hne, rfl⟩ <;> rw [h2]

example : ¬ ({} : Sys).HasConn 7 := by rintro ⟨x, hx, _⟩; cases hx

end FR.C13
