import FR.Proofs.C04o
import FR.Props.C14p
/-!
# C04, first sentence: "... IN REQUEST ORDER"

`Sys.out` lists the emitted replies `(connection, reply)`, NEWEST FIRST.  `FR/Props/C04k.lean` has the reply COUNT of
one request; this file has the ORDER:

1. `processCommand_out_suffix` (and the same for the parser loop, `sendall`, the wake-up / time-out events, a whole
   event): processing only ever PREPENDS to `out` - unconditionally; `drain_out_mono` without its hypothesis.
2. `replies_in_request_order`: one write of `n ≥ 1` complete requests to a live, un-paused connection `c` with an empty
   buffer, none of which parks: the replies `c` receives (oldest first) are `own r1 ++ own r2 ++ … ++ own rn`, `own ri`
   being what `_process_command` of `ri` ALONE emits for `c` in the state reached after `r1 … r(i-1)`.
3. `n_requests_n_replies`: with the counts of C04k - each request that is not (P)SUBSCRIBE / (P)UNSUBSCRIBE outside
   MULTI, not a blocking pop and not empty contributes `pushes ++ [answer]` where `pushes` are the pub/sub messages
   delivered to `c` ITSELF while the command ran (PUBLISH on a channel the publisher listens to); when there are none,
   `n` requests give exactly `n` replies, the `i`-th being the answer to the `i`-th request.

Vocabulary: `repliesOf c out = ((out.filter (·.1 == c)).reverse).map (·.2)`; `next mode c r s` = the state after request
`r` (processed, input buffer of `c` empty again); `K s` the event invariant of `FR/Props/C04k.lean`.
-/
namespace FR.Props.C04o
open FR FR.M FR.C04k FR.BufIndep FR.C14p FR.C04o

/-! ## 1. processing only prepends to the reply list -/

/-- **`_process_command` only prepends to `out`**: every mode, connection, request, state -/
theorem processCommand_out_suffix (mode : Mode) (c : Nat) (fields : List Bytes) (s : Sys) :
    ∃ pre, (processCommand mode c fields s).2.out = pre ++ s.out :=
  processCommand_grows mode c fields s (Grows.refl s)

theorem drain_out_suffix (mode : Mode) (c : Nat) (fuel : Nat) (s : Sys) :
    ∃ pre, (drain mode c fuel s).2.out = pre ++ s.out := drain_grows mode c fuel s (Grows.refl s)

theorem sendall_out_suffix (mode : Mode) (c : Nat) (data : Bytes) (s : Sys) :
    ∃ pre, (sendall mode c data s).2.out = pre ++ s.out := sendall_grows mode c data s (Grows.refl s)

theorem sendallGuarded_out_suffix (mode : Mode) (c : Nat) (data : Bytes) (s : Sys) :
    ∃ pre, (sendallGuarded mode c data s).2.out = pre ++ s.out := sendallGuarded_grows mode c data s (Grows.refl s)

theorem wakeConn_out_suffix (c : Nat) (s : Sys) : ∃ pre, (wakeConn c s).2.out = pre ++ s.out :=
  wakeConn_grows c s (Grows.refl s)

theorem timeoutConn_out_suffix (c : Nat) (s : Sys) : ∃ pre, (timeoutConn c s).2.out = pre ++ s.out :=
  timeoutConn_grows c s (Grows.refl s)

theorem wakeConnAsync_out_suffix (mode : Mode) (c : Nat) (s : Sys) :
    ∃ pre, (wakeConnAsync mode c s).2.out = pre ++ s.out := wakeConnAsync_grows mode c s (Grows.refl s)

theorem timeoutConnAsync_out_suffix (mode : Mode) (c : Nat) (s : Sys) :
    ∃ pre, (timeoutConnAsync mode c s).2.out = pre ++ s.out := timeoutConnAsync_grows mode c s (Grows.refl s)

/-- what an event does after the per-event reset `beginEvent` -/
def evBody (e : Ev) (s : Sys) : Sys :=
  match e with
  | .version v => { s with srv := { s.srv with version := v } }
  | .open c => (openConn c s).2
  | .close c => (closeConn c s).2
  | .gc c => (gcConn c s).2
  | .conn up => { s with srv := { s.srv with connected := up } }
  | .request mode c fields clocks picks => (processCommand mode c fields (s.withHints clocks picks)).2
  | .send mode c data clocks picks => (sendallGuarded mode c data (s.withHints clocks picks)).2
  | .wake c clocks => (wakeConn c (s.withHints clocks [])).2
  | .timeout c => (timeoutConn c s).2
  | .awake mode c clocks picks => (wakeConnAsync mode c (s.withHints clocks picks)).2
  | .atimeout mode c clocks picks => (timeoutConnAsync mode c (s.withHints clocks picks)).2

theorem stepEv_eq_evBody (s : Sys) (e : Ev) : stepEv s e = evBody e s.beginEvent := by
  cases e <;> rfl

/-- **every event only prepends to `out`** - modulo `beginEvent`, which resets `out` at the start of the event -/
theorem evBody_out_suffix (e : Ev) (s : Sys) : ∃ pre, (evBody e s).out = pre ++ s.out := by
  cases e with
  | version v => exact ⟨[], rfl⟩
  | «open» c => exact ⟨[], rfl⟩
  | close c => exact ⟨[], rfl⟩
  | gc c => exact ⟨[], rfl⟩
  | conn up => exact ⟨[], rfl⟩
  | request mode c fields clocks picks => exact processCommand_out_suffix mode c fields (s.withHints clocks picks)
  | send mode c data clocks picks => exact sendallGuarded_out_suffix mode c data (s.withHints clocks picks)
  | wake c clocks => exact wakeConn_out_suffix c (s.withHints clocks [])
  | timeout c => exact timeoutConn_out_suffix c s
  | awake mode c clocks picks => exact wakeConnAsync_out_suffix mode c (s.withHints clocks picks)
  | atimeout mode c clocks picks => exact timeoutConnAsync_out_suffix mode c (s.withHints clocks picks)

/-- `drain_out_mono` (`FR/Proofs/AsyncLife.lean`) with its hypothesis discharged -/
theorem drain_out_mono_unconditional (mode : Mode) (c : Nat) (n : Nat) (s : Sys) :
    ∃ l, (drain mode c n s).2.out = l ++ s.out :=
  drain_out_mono mode c (processCommand_out_suffix mode c) n s

/-! ## 2. replies in request order -/

/-- what `_process_command` of `r` alone pushes on the reply list in state `s` (newest first, all connections) -/
def ownOut (mode : Mode) (c : Nat) (r : List Bytes) (s : Sys) : List (Nat × Reply) :=
  (processCommand mode c r s).2.out.take ((processCommand mode c r s).2.out.length - s.out.length)

theorem ownOut_spec (mode : Mode) (c : Nat) (r : List Bytes) (s : Sys) :
    (processCommand mode c r s).2.out = ownOut mode c r s ++ s.out := by
  obtain ⟨pre, h⟩ := processCommand_out_suffix mode c r s
  unfold ownOut
  rw [h]; simp

/-- `ownOut` is THE prefix -/
theorem ownOut_unique (mode : Mode) (c : Nat) (r : List Bytes) (s : Sys) (pre : List (Nat × Reply))
    (h : (processCommand mode c r s).2.out = pre ++ s.out) : ownOut mode c r s = pre := by
  have := ownOut_spec mode c r s
  rw [h] at this
  exact (List.append_cancel_right this).symm

/-- the replies `c` itself receives for request `r` processed in state `s`, oldest first -/
def own (mode : Mode) (c : Nat) (r : List Bytes) (s : Sys) : List Reply := repliesOf c (ownOut mode c r s)

/-- the state after request `r`: processed, and the input buffer of `c` empty again -/
def next (mode : Mode) (c : Nat) (r : List Bytes) (s : Sys) : Sys := setBuf c [] (processCommand mode c r s).2

/-- the requests processed one after the other, threading the state -/
def runReqs (mode : Mode) (c : Nat) : List (List Bytes) → Sys → Sys
  | [], s => s
  | r :: rs, s => runReqs mode c rs (next mode c r s)

/-- `own r1 ++ own r2 ++ … ++ own rn`, each in the state reached after its predecessors -/
def ownAll (mode : Mode) (c : Nat) : List (List Bytes) → Sys → List Reply
  | [], _ => []
  | r :: rs, s => own mode c r s ++ ownAll mode c rs (next mode c r s)

/-- no request parks the connection (and it stays registered): after each request `c` is un-paused.  On the SYNC
front-end (`mode.async = false`) a connection is never paused. -/
def Flowing (mode : Mode) (c : Nat) : List (List Bytes) → Sys → Prop
  | [], _ => True
  | r :: rs, s => (next mode c r s).HasConn c ∧ ((next mode c r s).conn c).paused = false ∧
      Flowing mode c rs (next mode c r s)

theorem next_out (mode : Mode) (c : Nat) (r : List Bytes) (s : Sys) :
    (next mode c r s).out = ownOut mode c r s ++ s.out := ownOut_spec mode c r s

theorem next_K (mode : Mode) (c : Nat) (r : List Bytes) (s : Sys) (hk : K s) : K (next mode c r s) :=
  K_setBuf c [] _ (processCommand_K mode c r s hk)

theorem next_buf (mode : Mode) (c : Nat) (r : List Bytes) (s : Sys) (h : (next mode c r s).HasConn c) :
    ((next mode c r s).conn c).buf = [] := by
  unfold next at h ⊢
  rw [conn_setBuf [] ((hasConn_setBuf []).1 h)]

/-- **a pipelined write = the requests one after the other** (as states) -/
theorem pipelined_runReqs (mode : Mode) (c : Nat) (r : List Bytes) (rs : List (List Bytes)) (s : Sys) (hk : K s)
    (hc : s.HasConn c) (hb : (s.conn c).buf = []) (hpa : (s.conn c).paused = false)
    (hfl : Flowing mode c (r :: rs) s) :
    ((sendall mode c ((r :: rs).map encodeRequest).flatten).run s).2 = runReqs mode c (r :: rs) s := by
  induction rs generalizing r s with
  | nil =>
    have h := FR.Props.C14p.one_request mode c r s hc hb hpa (hk.healthy.2.conn c)
    simp only [List.map_cons, List.map_nil, List.flatten_cons, List.flatten_nil, List.append_nil]
    rw [h]; rfl
  | cons r' rs ih =>
    obtain ⟨h1, h2, h3⟩ := hfl
    have e : ((r :: r' :: rs).map encodeRequest).flatten =
        encodeRequest r ++ ((r' :: rs).map encodeRequest).flatten := by simp
    rw [e, FR.Props.C14p.pipelined_head_first mode c r _ s hk hc hb hpa]
    exact ih r' (next mode c r s) (next_K mode c r s hk) h1 (next_buf mode c r s h1) h2 h3

theorem repliesOf_runReqs (mode : Mode) (c : Nat) (reqs : List (List Bytes)) (s : Sys) :
    repliesOf c (runReqs mode c reqs s).out = repliesOf c s.out ++ ownAll mode c reqs s := by
  induction reqs generalizing s with
  | nil => simp [runReqs, ownAll]
  | cons r rs ih =>
    show repliesOf c (runReqs mode c rs (next mode c r s)).out = _
    rw [ih, next_out, repliesOf_append, List.append_assoc]
    rfl

/-- **Replies in request order.**  One write of the requests `r :: rs` (RESP-encoded, concatenated) to a registered,
un-paused connection `c` with an empty input buffer, in a state satisfying the event invariant, none of the requests
parking the connection: the replies connection `c` has received afterwards (oldest first) are those it had received
before, followed by `own r1 ++ own r2 ++ … ++ own rn` - the own replies of each request, in request order, each computed
in the state its predecessors left. -/
theorem replies_in_request_order (mode : Mode) (c : Nat) (r : List Bytes) (rs : List (List Bytes)) (s : Sys) (hk : K s)
    (hc : s.HasConn c) (hb : (s.conn c).buf = []) (hpa : (s.conn c).paused = false)
    (hfl : Flowing mode c (r :: rs) s) :
    repliesOf c ((sendall mode c ((r :: rs).map encodeRequest).flatten).run s).2.out =
      repliesOf c s.out ++ ownAll mode c (r :: rs) s := by
  rw [pipelined_runReqs mode c r rs s hk hc hb hpa hfl, repliesOf_runReqs]


/-! ### the connection stays registered: only "no request parks" is a hypothesis -/

/-- no request of the list leaves the connection paused (a blocking pop that parks on the asyncio front-end does) -/
def NoPark (mode : Mode) (c : Nat) : List (List Bytes) → Sys → Prop
  | [], _ => True
  | r :: rs, s => ((next mode c r s).conn c).paused = false ∧ NoPark mode c rs (next mode c r s)

theorem next_hasConn (mode : Mode) (c : Nat) (r : List Bytes) (s : Sys) (hc : s.HasConn c) :
    (next mode c r s).HasConn c :=
  (hasConn_setBuf []).2 (processCommand_hasConn mode c r s c hc)

theorem flowing_of_noPark (mode : Mode) (c : Nat) (reqs : List (List Bytes)) (s : Sys) (hc : s.HasConn c)
    (h : NoPark mode c reqs s) : Flowing mode c reqs s := by
  induction reqs generalizing s with
  | nil => trivial
  | cons r rs ih => exact ⟨next_hasConn mode c r s hc, h.1, ih _ (next_hasConn mode c r s hc) h.2⟩

/-- `replies_in_request_order` with the one hypothesis on the requests: none of them parks the connection -/
theorem replies_in_request_order_noPark (mode : Mode) (c : Nat) (r : List Bytes) (rs : List (List Bytes)) (s : Sys)
    (hk : K s) (hc : s.HasConn c) (hb : (s.conn c).buf = []) (hpa : (s.conn c).paused = false)
    (hnp : NoPark mode c (r :: rs) s) :
    repliesOf c ((sendall mode c ((r :: rs).map encodeRequest).flatten).run s).2.out =
      repliesOf c s.out ++ ownAll mode c (r :: rs) s :=
  replies_in_request_order mode c r rs s hk hc hb hpa (flowing_of_noPark mode c _ s hc hnp)

/-- the same as a `.send` event of a history (the event starts with an empty `out`) -/
theorem replies_in_request_order_event (mode : Mode) (c : Nat) (r : List Bytes) (rs : List (List Bytes)) (s : Sys)
    (cl : List Int) (pk : List (List Bytes)) (hk : K (s.beginEvent.withHints cl pk))
    (hup : s.srv.connected = true)
    (hc : s.HasConn c) (hb : (s.conn c).buf = []) (hpa : (s.conn c).paused = false)
    (hfl : Flowing mode c (r :: rs) (s.beginEvent.withHints cl pk)) :
    repliesOf c (stepEv s (.send mode c ((r :: rs).map encodeRequest).flatten cl pk)).out =
      ownAll mode c (r :: rs) (s.beginEvent.withHints cl pk) := by
  show repliesOf c (sendallGuarded mode c _ (s.beginEvent.withHints cl pk)).2.out = _
  rw [sendallGuarded_run_up mode c _ (s.beginEvent.withHints cl pk) hup]
  exact replies_in_request_order mode c r rs _ hk hc hb hpa hfl

/-! ## 3. with the counts: `n` requests, `n` replies -/

/-- the pub/sub messages delivered to `c` itself while its request `r` ran (oldest first) -/
def pushes (mode : Mode) (c : Nat) (r : List Bytes) (s : Sys) : List Reply := repliesOf c (ownOut mode c r s).tail

/-- the newest entry the request pushed: its answer, for a request with exactly one reply of its own -/
def answer (mode : Mode) (c : Nat) (r : List Bytes) (s : Sys) : Reply :=
  ((ownOut mode c r s).head?.map (·.2)).getD .nil

/-- **a request with exactly one reply of its own** (the cases of `FR/Props/C04k.lean`, (c)): unknown command; wrong
number of arguments; queued inside MULTI; (P)SUBSCRIBE / (P)UNSUBSCRIBE refused inside MULTI; any other command run at
once that is not (P)SUBSCRIBE / (P)UNSUBSCRIBE and not a blocking pop.  Not: the empty request. -/
inductive Plain (c : Nat) (s : Sys) : List Bytes → Prop
  | unknown (nameB : Bytes) (args : List Bytes) : lookupSig nameB = none → Plain c s (nameB :: args)
  | arity (nameB : Bytes) (args : List Bytes) (sig : Sig) : lookupSig nameB = some sig →
      sig.checkArity args.length = false → Plain c s (nameB :: args)
  | inMulti (nameB : Bytes) (args : List Bytes) (sig : Sig) : lookupSig nameB = some sig →
      sig.checkArity args.length = true →
      ((s.conn c).tx.isSome && !SigTable.notQueued.contains sig.name) = true → Plain c s (nameB :: args)
  | run (nameB : Bytes) (args : List Bytes) (sig : Sig) : lookupSig nameB = some sig →
      sig.checkArity args.length = true →
      ((s.conn c).tx.isSome && !SigTable.notQueued.contains sig.name) = false →
      sig.name ∉ SigTable.notInMulti → sig.name ∉ blockingNames → Plain c s (nameB :: args)

/-- **one plain request: the answer on top of the messages delivered meanwhile** (to whatever connection) -/
theorem plain_ownOut (mode : Mode) (c : Nat) (r : List Bytes) (s : Sys) (hwf : TxWf s)
    (hcl : (s.conn c).closed = false) (hp : Plain c s r) :
    ∃ a D, ownOut mode c r s = (c, a) :: D ∧ ∀ p ∈ D, IsMsg p.2 := by
  have nomsg : ∀ p ∈ ([] : List (Nat × Reply)), IsMsg p.2 := fun _ h => by cases h
  cases hp with
  | unknown nameB args hl =>
    exact ⟨_, [], ownOut_unique mode c _ s [_] (FR.Props.C04k.reply_count_unknown mode c nameB args s hl hcl), nomsg⟩
  | arity nameB args sig hl ha =>
    obtain ⟨e, he⟩ := FR.Props.C04k.reply_count_arity mode c nameB args s hl ha hcl
    exact ⟨_, [], ownOut_unique mode c _ s [_] he, nomsg⟩
  | inMulti nameB args sig hl ha hq =>
    cases hnm : SigTable.notInMulti.contains sig.name with
    | true =>
      exact ⟨_, [], ownOut_unique mode c _ s [_]
        (FR.Props.C04k.reply_count_refused mode c nameB args s hl ha hq hnm hcl), nomsg⟩
    | false =>
      exact ⟨_, [], ownOut_unique mode c _ s [_]
        (FR.Props.C04k.reply_count_queued mode c nameB args s hl ha hq hnm hcl), nomsg⟩
  | run nameB args sig hl ha hq hsub hb =>
    obtain ⟨a, D, h1, h2⟩ := FR.Props.C04k.reply_count_run mode c nameB args s hwf hcl hl ha hq hsub hb
    exact ⟨a, D, ownOut_unique mode c _ s ((c, a) :: D) h1, h2⟩

/-- … so what `c` itself receives for it: the pushes to `c` (pub/sub messages - e.g. PUBLISH on a channel the publisher
itself listens to), then the answer, LAST -/
theorem plain_own (mode : Mode) (c : Nat) (r : List Bytes) (s : Sys) (hwf : TxWf s)
    (hcl : (s.conn c).closed = false) (hp : Plain c s r) :
    own mode c r s = pushes mode c r s ++ [answer mode c r s] ∧
    (ownOut mode c r s).head? = some (c, answer mode c r s) ∧
    ∀ p ∈ (ownOut mode c r s).tail, IsMsg p.2 := by
  obtain ⟨a, D, h1, h2⟩ := plain_ownOut mode c r s hwf hcl hp
  unfold own pushes answer
  rw [h1]
  exact ⟨repliesOf_cons_self c a D, rfl, h2⟩

/-- every request of the list is plain in the state it is processed in, on an open socket -/
def AllPlain (mode : Mode) (c : Nat) : List (List Bytes) → Sys → Prop
  | [], _ => True
  | r :: rs, s => (s.conn c).closed = false ∧ Plain c s r ∧ AllPlain mode c rs (next mode c r s)

/-- no request of the list had a pub/sub message delivered to its own connection while it ran -/
def Quiet (mode : Mode) (c : Nat) : List (List Bytes) → Sys → Prop
  | [], _ => True
  | r :: rs, s => (pushes mode c r s).isEmpty = true ∧ Quiet mode c rs (next mode c r s)

/-- pushes and answer of each request, in request order -/
def expected (mode : Mode) (c : Nat) : List (List Bytes) → Sys → List Reply
  | [], _ => []
  | r :: rs, s => pushes mode c r s ++ answer mode c r s :: expected mode c rs (next mode c r s)

/-- the answers of the requests, in request order -/
def answers (mode : Mode) (c : Nat) : List (List Bytes) → Sys → List Reply
  | [], _ => []
  | r :: rs, s => answer mode c r s :: answers mode c rs (next mode c r s)

theorem answers_length (mode : Mode) (c : Nat) (reqs : List (List Bytes)) (s : Sys) :
    (answers mode c reqs s).length = reqs.length := by
  induction reqs generalizing s with
  | nil => rfl
  | cons r rs ih => simp [answers, ih]

theorem ownAll_plain (mode : Mode) (c : Nat) (reqs : List (List Bytes)) (s : Sys) (hk : K s)
    (hpl : AllPlain mode c reqs s) : ownAll mode c reqs s = expected mode c reqs s := by
  induction reqs generalizing s with
  | nil => rfl
  | cons r rs ih =>
    obtain ⟨hcl, hp, hrest⟩ := hpl
    show own mode c r s ++ ownAll mode c rs (next mode c r s) = _
    rw [(plain_own mode c r s hk.1 hcl hp).1, ih _ (next_K mode c r s hk) hrest]
    simp [expected]

theorem expected_quiet (mode : Mode) (c : Nat) (reqs : List (List Bytes)) (s : Sys)
    (hq : Quiet mode c reqs s) : expected mode c reqs s = answers mode c reqs s := by
  induction reqs generalizing s with
  | nil => rfl
  | cons r rs ih =>
    obtain ⟨h1, h2⟩ := hq
    have : pushes mode c r s = [] := List.isEmpty_iff.1 h1
    simp [expected, answers, this, ih _ h2]

/-- **The exact statement**: `n` plain requests in one write - the replies `c` receives are, request by request, the
pub/sub messages pushed to `c` itself while the request ran, then the request's answer -/
theorem n_requests_replies_exact (mode : Mode) (c : Nat) (r : List Bytes) (rs : List (List Bytes)) (s : Sys) (hk : K s)
    (hc : s.HasConn c) (hb : (s.conn c).buf = []) (hpa : (s.conn c).paused = false)
    (hfl : Flowing mode c (r :: rs) s) (hpl : AllPlain mode c (r :: rs) s) :
    repliesOf c ((sendall mode c ((r :: rs).map encodeRequest).flatten).run s).2.out =
      repliesOf c s.out ++ expected mode c (r :: rs) s := by
  rw [replies_in_request_order mode c r rs s hk hc hb hpa hfl, ownAll_plain mode c _ s hk hpl]

/-- **`n` requests, `n` replies, the `i`-th reply answering the `i`-th request**: `n ≥ 1` plain requests in one write,
no pub/sub message delivered to `c` itself meanwhile: the new replies of `c` are exactly `answers` - a list of length `n`
whose `i`-th element is the answer `_process_command` gives to the `i`-th request in the state after the first `i-1`. -/
theorem n_requests_n_replies (mode : Mode) (c : Nat) (r : List Bytes) (rs : List (List Bytes)) (s : Sys) (hk : K s)
    (hc : s.HasConn c) (hb : (s.conn c).buf = []) (hpa : (s.conn c).paused = false)
    (hfl : Flowing mode c (r :: rs) s) (hpl : AllPlain mode c (r :: rs) s) (hq : Quiet mode c (r :: rs) s) :
    repliesOf c ((sendall mode c ((r :: rs).map encodeRequest).flatten).run s).2.out =
      repliesOf c s.out ++ answers mode c (r :: rs) s ∧
    (answers mode c (r :: rs) s).length = (r :: rs).length ∧
    (repliesOf c ((sendall mode c ((r :: rs).map encodeRequest).flatten).run s).2.out).length =
      (repliesOf c s.out).length + (r :: rs).length := by
  have h := n_requests_replies_exact mode c r rs s hk hc hb hpa hfl hpl
  rw [expected_quiet mode c _ s hq] at h
  refine ⟨h, answers_length mode c _ s, ?_⟩
  rw [h, List.length_append, answers_length]

/-! ## non-vacuity -/

open FR.Props.C14p

/-- `PING`, `SET k v`, `GET k` -/
def reqs3 : List (List Bytes) := [pingReq, [strBytes "SET", [107], [118]], [strBytes "GET", [107]]]

/-- section 1 on a concrete state -/
example : ∃ pre, (processCommand {} 1 pingReq sInit).2.out = pre ++ sInit.out :=
  processCommand_out_suffix {} 1 pingReq sInit

example : (processCommand {} 1 pingReq sInit).2.out.map (fun p => (p.1, p.2.render)) = [(1, Reply.pong.render)] := by
  decide +kernel

example : ∃ l, (drain am 1 5 sA).2.out = l ++ sA.out := drain_out_mono_unconditional am 1 5 sA

example : ∃ pre, (stepEv sB (.awake am 1 [] [])).out = pre ++ sB.beginEvent.out := by
  rw [stepEv_eq_evBody]; exact evBody_out_suffix _ _

/-- the hypotheses of section 2 hold for the three requests written to connection 1 of `sInit` (sync front-end) -/
theorem reqs3_flowing : Flowing {} 1 reqs3 sInit := by
  simp only [reqs3, Flowing]; decide +kernel

theorem reqs3_noPark : NoPark {} 1 reqs3 sInit := by
  simp only [reqs3, NoPark]; decide +kernel

example : repliesOf 1 ((sendall {} 1 (reqs3.map encodeRequest).flatten).run sInit).2.out =
    repliesOf 1 sInit.out ++ ownAll {} 1 reqs3 sInit :=
  replies_in_request_order {} 1 _ _ sInit sInit_K (by decide +kernel) (by decide +kernel) (by decide +kernel)
    reqs3_flowing

example : repliesOf 1 ((sendall {} 1 (reqs3.map encodeRequest).flatten).run sInit).2.out =
    repliesOf 1 sInit.out ++ ownAll {} 1 reqs3 sInit :=
  replies_in_request_order_noPark {} 1 _ _ sInit sInit_K (by decide +kernel) (by decide +kernel) (by decide +kernel)
    reqs3_noPark

/-- … and the concatenation is `PONG`, `OK`, `v` -/
example : (ownAll {} 1 reqs3 sInit).map Reply.render =
    [Reply.pong.render, Reply.ok.render, (Reply.bulk [118]).render] := by decide +kernel

/-- the three requests are plain, each in the state it is processed in -/
theorem reqs3_plain : AllPlain {} 1 reqs3 sInit := by
  simp only [reqs3, AllPlain]
  refine ⟨by decide +kernel, ?_, by decide +kernel, ?_, by decide +kernel, ?_, trivial⟩
  · exact .run (strBytes "PING") [] (FR.Props.C04k.sigOf "ping") (by decide +kernel) (by decide +kernel) (by decide +kernel)
      (by decide +kernel) (by decide +kernel)
  · exact .run (strBytes "SET") [[107], [118]] (FR.Props.C04k.sigOf "set") (by decide +kernel) (by decide +kernel) (by decide +kernel)
      (by decide +kernel) (by decide +kernel)
  · exact .run (strBytes "GET") [[107]] (FR.Props.C04k.sigOf "get") (by decide +kernel) (by decide +kernel) (by decide +kernel)
      (by decide +kernel) (by decide +kernel)

theorem reqs3_quiet : Quiet {} 1 reqs3 sInit := by
  simp only [reqs3, Quiet]; decide +kernel

/-- three requests, three replies, in request order -/
example : (repliesOf 1 ((sendall {} 1 (reqs3.map encodeRequest).flatten).run sInit).2.out).length =
    (repliesOf 1 sInit.out).length + 3 :=
  (n_requests_n_replies {} 1 _ _ sInit sInit_K (by decide +kernel) (by decide +kernel) (by decide +kernel)
    reqs3_flowing reqs3_plain reqs3_quiet).2.2

example : repliesOf 1 ((sendall {} 1 (reqs3.map encodeRequest).flatten).run sInit).2.out =
    repliesOf 1 sInit.out ++ expected {} 1 reqs3 sInit :=
  n_requests_replies_exact {} 1 _ _ sInit sInit_K (by decide +kernel) (by decide +kernel) (by decide +kernel)
    reqs3_flowing reqs3_plain

example : (answers {} 1 reqs3 sInit).map Reply.render =
    [Reply.pong.render, Reply.ok.render, (Reply.bulk [118]).render] := by decide +kernel

/-- a request that is NOT plain: `SUBSCRIBE x y` has two replies of its own -/
example : (own {} 1 [strBytes "SUBSCRIBE", [120], [121]] sInit).length = 2 := by decide +kernel

/-- `NoPark` is a real hypothesis: on the asyncio front-end `BLPOP k 0` parks (and `PING` behind it is not answered) -/
example : ¬ NoPark am 1 [blpopReq, pingReq] sInit := by
  simp only [NoPark]; decide +kernel

end FR.Props.C04o
