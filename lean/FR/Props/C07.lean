import FR.Proofs.Runner
/-!
# C07 — lazy expiry is unobservable: an expired key is indistinguishable from a deleted one
-/
namespace FR.Props.C07
open FR

/-- Running any regular command on `db` and on `Db.purge db` gives the same reply, notifications,
failure flag and pick count, and result databases that agree after `purge`. -/
theorem run_purge_sim (sig : Sig) (body : Body) (ctx : Ctx) (gate : Option Err) (raw : List Bytes)
    (db : Db) (nd : NodupKeys db.dict) :
    let o1 := runRegular sig body ctx gate raw db
    let o2 := runRegular sig body ctx gate raw (Db.purge db)
    o1.reply = o2.reply ∧ o1.notified = o2.notified ∧ o1.failed = o2.failed ∧
      o1.picksUsed = o2.picksUsed ∧ Db.purge o1.db = Db.purge o2.db := by
  intro o1 o2
  have h := runRegular_sim sig body ctx gate raw (Db.Sim.purge_right nd)
  exact ⟨h.1, h.2.1, h.2.2.1, h.2.2.2.1, h.2.2.2.2.2.eq⟩

/-- An expired key is indistinguishable from a deleted one, for every regular command. -/
theorem expired_eq_deleted (sig : Sig) (body : Body) (ctx : Ctx) (gate : Option Err) (raw : List Bytes)
    (db : Db) (nd : NodupKeys db.dict) (k : Bytes) (it : Item)
    (hk : db.dict.lookup k = some it) (he : db.expired it = true) :
    let o1 := runRegular sig body ctx gate raw db
    let o2 := runRegular sig body ctx gate raw { db with dict := Db.erase db.dict k }
    o1.reply = o2.reply ∧ o1.notified = o2.notified ∧ o1.failed = o2.failed ∧
      o1.picksUsed = o2.picksUsed ∧ Db.purge o1.db = Db.purge o2.db := by
  intro o1 o2
  have hg : (db.get k).1 = { db with dict := Db.erase db.dict k } := by
    unfold Db.get; simp [hk, he]
  have hs : Db.Sim db { db with dict := Db.erase db.dict k } :=
    ⟨nd, Db.nodup_erase k nd, by rw [← hg, Db.get_purge k nd]⟩
  have h := runRegular_sim sig body ctx gate raw hs
  exact ⟨h.1, h.2.1, h.2.2.1, h.2.2.2.1, h.2.2.2.2.2.eq⟩

/-- non-vacuity: APPEND on a database whose key `a` expired at 5 (clock 10) -/
example :
    let sig : Sig := ⟨"append", [.key (some .str) .unspecified, .bytes], [], false, 2, 0, false⟩
    let db : Db := ⟨[([97], ⟨.str [1], some 5⟩), ([98], ⟨.str [2], none⟩)], 10⟩
    let o1 := runRegular sig FR.Cmd.append ⟨7, 10, 0, false, []⟩ none [[97], [120]] db
    let o2 := runRegular sig FR.Cmd.append ⟨7, 10, 0, false, []⟩ none [[97], [120]]
      { db with dict := Db.erase db.dict [97] }
    o1.reply = o2.reply ∧ o1.notified = o2.notified ∧ o1.failed = o2.failed ∧
      o1.picksUsed = o2.picksUsed ∧ Db.purge o1.db = Db.purge o2.db :=
  expired_eq_deleted _ _ _ _ _ _ (by decide) [97] ⟨.str [1], some 5⟩ rfl rfl

end FR.Props.C07
