import FR.Proofs.History
/-!
# C09 (continued) — no empty collection is ever stored, over ALL histories

`FR/Props/C09.lean` states the one-step fact for the generic runner.  Here the invariant
`Sys.DataInv` (every database dictionary has unique keys and stores no empty list / set / hash / zset) is
established for every state reachable from the initial state by any sequence of events `Ev`
(connections opening, closing and being collected, arbitrary bytes written to a socket, direct
`_process_command` steps, blocked connections being woken or timing out, in the threaded and in the asyncio
front-end, outages), for every choice of the hints (clock readings, random picks, script traces).

Nothing is excluded: the special bodies (SELECT, SWAPDB, MOVE, RANDOMKEY, SCAN, KEYS, DBSIZE, FLUSHDB, FLUSHALL,
SORT with and without STORE, ZUNIONSTORE / ZINTERSTORE, MULTI / EXEC / DISCARD / WATCH / UNWATCH, the pub/sub
commands, the blocking pops, SAVE / BGSAVE / LASTSAVE / TIME / ECHO / PING) and EVAL / EVALSHA / SCRIPT are
all covered.
-/
namespace FR.Props.C09
open FR

/-- the special bodies preserve the invariant, provided the nested runner (used by EXEC) does; the items they
return need no side condition, because `writebackAll` preserves the invariant for arbitrary items -/
theorem special_preserves (inner : Inner) (hinner : ∀ sig raw s, s.DataInv → (inner sig raw s).2.DataInv)
    (mode : Mode) (c : Nat) (name : String) (args : List Arg) (cis : List CI) (s : Sys) (h : s.DataInv) :
    (special inner mode c name args cis s).2.DataInv ∧
      ∀ (d : Nat) (cis' : List CI) (s' : Sys), s'.DataInv → (M.writebackAll d cis' s').2.DataInv :=
  ⟨FR.special_preserves inner hinner mode c name args cis s h, fun d cis' s' h' => pres_writebackAll d cis' s' h'⟩

/-- `_run_command` (regular or special command, script commands included) preserves the invariant -/
theorem runCommand_preserves (mode : Mode) (c : Nat) (sig : Sig) (raw : List Bytes) (fromScript : Bool)
    (s : Sys) (h : s.DataInv) : (runCommand mode c sig raw fromScript s).2.DataInv :=
  FR.runCommand_preserves mode c sig raw fromScript s h

/-- `_process_command` preserves the invariant, for every request (unknown commands, arity errors, queued
commands, EXEC, …) -/
theorem processCommand_preserves (mode : Mode) (c : Nat) (fields : List Bytes) (s : Sys) (h : s.DataInv) :
    (processCommand mode c fields s).2.DataInv :=
  FR.processCommand_preserves mode c fields s h

/-- `sendall` of arbitrary bytes preserves the invariant -/
theorem sendall_preserves (mode : Mode) (c : Nat) (data : Bytes) (s : Sys) (h : s.DataInv) :
    (sendallGuarded mode c data s).2.DataInv :=
  FR.sendallGuarded_preserves mode c data s h

/-- every event preserves the invariant -/
theorem stepEv_preserves (s : Sys) (e : Ev) (h : s.DataInv) : (stepEv s e).DataInv :=
  FR.stepEv_preserves s e h

/-- **History theorem.**  At every point of every history, every database dictionary has unique keys and stores no
empty collection. -/
theorem no_empty_collections_all_histories (evs : List Ev) : (evs.foldl stepEv {}).DataInv :=
  foldl_stepEv_preserves evs {} Sys.dataInv_init

/-- the same from any good starting state -/
theorem no_empty_collections_from (s : Sys) (h : s.DataInv) (evs : List Ev) : (evs.foldl stepEv s).DataInv :=
  foldl_stepEv_preserves evs s h

/-- **Observable form.**  In every reachable state, for every database and key, a lookup returns an item only
if that item is a string or a non-empty collection: a key exists iff it holds a string or a non-empty
collection, and no command can leave an observable empty collection. -/
theorem lookup_never_empty (evs : List Ev) (i : Nat) (k : Bytes) (it : Item)
    (h : (((evs.foldl stepEv {}).dbAt i).get k).2 = some it) : it.value.isEmptyColl = false :=
  ((no_empty_collections_all_histories evs).dbAt i).get_snd h

/-- … the same for the live view (after purging expired keys), and the live view has unique keys -/
theorem live_never_empty (evs : List Ev) (i : Nat) (k : Bytes) (it : Item)
    (h : ((evs.foldl stepEv {}).dbAt i).live k = some it) : it.value.isEmptyColl = false :=
  ((no_empty_collections_all_histories evs).dbAt i).2 _ (live_some_mem h)

/-! ## non-vacuity -/

/-- open a connection; `RPUSH l a`; `LPOP l`; `DBSIZE` (requests written to the socket in RESP encoding) -/
def demo : List Ev :=
  [ .open 1,
    .cmd {} 1 [[82, 80, 85, 83, 72], [108], [97]] [100],
    .cmd {} 1 [[76, 80, 79, 80], [108]] [200],
    .cmd {} 1 [[68, 66, 83, 73, 90, 69]] [300] ]

/-- after the push the key `l` is stored; after the pop of its last element the key is gone from the
dictionary (not kept with an empty list), and DBSIZE answers one reply -/
example : ((runHistory (demo.take 2)).srv.dbs.getD 0 []).map Prod.fst = [[108]] ∧
    (runHistory (demo.take 3)).srv.dbs.getD 0 [] = [] ∧
    (runHistory demo).srv.dbs.getD 0 [] = [] ∧ (runHistory demo).out.length = 1 ∧
    (runHistory demo).fault = none ∧ (runHistory demo).crashed = none := by decide +kernel

/-- the history theorem applies to it (the theorem has no side condition on the events) -/
example : (runHistory demo).DataInv := no_empty_collections_all_histories demo

/-- the invariant is not trivially true: a state holding an empty list violates it -/
example : ¬ Sys.DataInv { srv := { dbs := [[([108], ⟨.list [], none⟩)]] } } := by
  intro h
  have := (h _ (List.mem_singleton.2 rfl)).2 _ (List.mem_singleton.2 rfl)
  exact absurd this (by decide)

end FR.Props.C09
