import FR.Proofs.Runner
/-!
# C06 — every change of a key's live entry is accompanied by a watch notification

The unrestricted statement (arbitrary body) is FALSE: `CommandItem.writeback` has a branch
`elif self._expireat_modified` that rewrites the deadline *without* `notify_watch`.  The branch is dead
for every `CommandItem` produced through the setters (`expMod → modified`), but an arbitrary `Body` can
return a `CI` with `expMod = true ∧ modified = false`.  `unrestricted_false` is the counterexample;
`step_notifies_partial` is the theorem under exactly that invariant (`Body.ExpModSound`).
-/
namespace FR.Props.C06
open FR

/-- Any change of the live entry of a key (value, existence or deadline) is accompanied by a watch
notification for that key — for bodies whose returned `CommandItem`s satisfy `expMod → modified`. -/
theorem step_notifies_partial (sig : Sig) (body : Body) (hb : body.ExpModSound) (ctx : Ctx)
    (gate : Option Err) (raw : List Bytes) (db : Db) (nd : NodupKeys db.dict) (k : Bytes) :
    let o := runRegular sig body ctx gate raw db
    (Db.purge o.db).dict.lookup k ≠ (Db.purge db).dict.lookup k → k ∈ o.notified := by
  intro o h
  apply Classical.byContradiction
  intro hk
  exact h (runRegular_live sig body hb ctx gate raw nd hk)

/-- The hypothesis `Body.ExpModSound` cannot be dropped: a body returning a `CommandItem` with
`expMod = true`, `modified = false` and a past deadline makes the key disappear without notification. -/
theorem unrestricted_false :
    ∃ (sig : Sig) (body : Body) (ctx : Ctx) (raw : List Bytes) (db : Db) (k : Bytes),
      NodupKeys db.dict ∧
      (Db.purge (runRegular sig body ctx none raw db).db).dict.lookup k ≠ (Db.purge db).dict.lookup k ∧
      k ∉ (runRegular sig body ctx none raw db).notified := by
  refine ⟨⟨"x", [.key none .unspecified], [], false, 1, 0, false⟩,
    fun _ _ cis => .ok { reply := .nil, cis := cis.map (fun c => { c with expireat := some 5, expMod := true }) },
    ⟨7, 10, 0, false, []⟩, [[97]], ⟨[([97], ⟨.str [], none⟩)], 10⟩, [97], by decide, ?_, by decide⟩
  intro h
  have := congrArg Option.isSome h
  revert this
  decide

/-- non-vacuity: APPEND changes key `a`; the theorem yields the notification -/
example :
    let sig : Sig := ⟨"append", [.key (some .str) .unspecified, .bytes], [], false, 2, 0, false⟩
    let body : Body := fun _ _ cis => .ok { reply := .nil, cis := cis.map (fun c => c.update (.str [9])) }
    let db : Db := ⟨[([97], ⟨.str [1], none⟩)], 10⟩
    [97] ∈ (runRegular sig body ⟨7, 10, 0, false, []⟩ none [[97], [120]] db).notified := by
  intro sig body db
  have hb : body.ExpModSound := by
    intro ctx args cis o _ ho c hc he
    simp only [body, Except.ok.injEq] at ho
    subst ho
    obtain ⟨c', _, rfl⟩ := List.mem_map.1 hc
    rfl
  apply step_notifies_partial sig body hb ⟨7, 10, 0, false, []⟩ none [[97], [120]] db (by decide) [97]
  intro h
  have := congrArg (fun o => o.map (fun it => match it.value with | .str b => b | _ => [])) h
  revert this
  decide

/-- the real APPEND body satisfies the hypothesis -/
example : Body.ExpModSound FR.Cmd.append := by
  intro ctx args cis o hcl ho c hc
  unfold FR.Cmd.append at ho
  split at ho
  · simp only at ho
    split at ho
    · cases ho
    · simp only [ret, Except.ok.injEq] at ho
      subst ho
      rcases List.mem_or_eq_of_mem_set hc with h | rfl
      · exact (hcl c h).sound
      · exact CI.update_sound _ _
  · cases ho

end FR.Props.C06
