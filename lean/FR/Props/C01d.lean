import FR.Proofs.DumpRound
import FR.Props.C01k
/-!
# C01 (DUMP / RESTORE, all five types) — "a DUMP payload is opaque, but RESTORE of it yields an independent
copy of the dumped value with the requested TTL"

`FR.Props.C01k` proves the string case.  This file proves the round trip of the model's payload codec
(`Cmd.dumpValue` / `Cmd.loadValue`) for lists, sets, hashes and sorted sets, lifts it to `DUMP` and `RESTORE` run
by the REAL runner `runRegular` with the REAL signatures, and states the independent-copy property for every
collection type (a later RPUSH / SADD / HSET / ZADD on the copy leaves the original alone).

Vocabulary (defined in `FR/Proofs/DumpRound.lean`):
* `restoredValue v` — what the decoder makes of the payload of `v`: `v` itself for strings, lists, hashes; the
  members in ascending byte order for a set; `restoredZ z` for a sorted set (same `byscore` index, `bylex`
  re-created in `byscore` order).
* `Same v' v` — equal up to what the codec normalises (see `same_def`).
* `ZWF v` — for a sorted set: the two-index invariant `ZSet.Inv` (C03) and `ScoresCanon` (every score is a
  canonical `Dbl`, `Canon`); nothing for the other types.
* `Canon d` — `d` is the canonical representation of a binary64 value; EXACTLY the doubles with
  `Dbl.ofBits (Dbl.toBits d) = d` (`canon_iff`).
* `deadline time ttl` — `none` for ttl 0, else `time + ttl` milliseconds.

Results that are NEGATIVE (the literal statement "`loadValue (dumpValue v) = some v`" is false of the model):
`set_not_exact`, `zset_not_exact` (member order / `bylex` order is normalised), `noncanonical_score_not_kept`
(a non-canonical `Dbl` changes its VALUE), `nonimage_payload_accepted` (the decoder accepts bodies the encoder
never emits).
-/
namespace FR.Props.C01d
open FR FR.StrKeys FR.DumpRound

/-! ## 1. The codec -/

/-- ROUND TRIP, all five types at once: the payload of a value decodes to `restoredValue v`, which is the same
value up to what the codec normalises.  The only hypothesis concerns sorted sets (`ZWF`). -/
theorem roundtrip (v : Value) (h : ZWF v) :
    Cmd.loadValue (Cmd.dumpValue v) = some (restoredValue v) ∧ Same (restoredValue v) v ∧
    (restoredValue v).ty = v.ty ∧ (restoredValue v).isEmptyColl = v.isEmptyColl :=
  ⟨loadValue_dumpValue v h, restoredValue_same v h, restoredValue_ty v, restoredValue_isEmptyColl v h⟩

/-- what `Same` says, type by type -/
theorem same_def :
    (∀ a b : Bytes, Same (.str a) (.str b) ↔ a = b) ∧
    (∀ a b : List Bytes, Same (.list a) (.list b) ↔ a = b) ∧
    (∀ a b : List (Bytes × Bytes), Same (.hash a) (.hash b) ↔ a = b) ∧
    (∀ a b : List Bytes, Same (.set a) (.set b) ↔ a.Perm b) ∧
    (∀ a b : ZSet, Same (.zset a) (.zset b) ↔
      (a.byscore = b.byscore ∧ (∀ m, a.get m = b.get m) ∧ a.bylex.Perm b.bylex ∧ a.Inv)) :=
  ⟨fun _ _ => Iff.rfl, fun _ _ => Iff.rfl, fun _ _ => Iff.rfl, fun _ _ => Iff.rfl, fun _ _ => Iff.rfl⟩

/-- the same through the header check of RESTORE (`decodePayload`) -/
theorem decode_of_dump (v : Value) (h : ZWF v) :
    decodePayload (Cmd.dumpMagic ++ Cmd.dumpValue v) = some (restoredValue v) := by
  rw [decodePayload_dump, loadValue_dumpValue v h]

/-- LIST: exact, element order included; arbitrary bytes (empty elements, `,` `=` `_` inside elements) -/
theorem roundtrip_list (l : List Bytes) : Cmd.loadValue (Cmd.dumpValue (.list l)) = some (.list l) :=
  loadValue_dumpValue_list l

/-- HASH: exact, field order included; arbitrary field and value bytes -/
theorem roundtrip_hash (h : List (Bytes × Bytes)) : Cmd.loadValue (Cmd.dumpValue (.hash h)) = some (.hash h) :=
  loadValue_dumpValue_hash h

/-- STRING (from C01k) -/
theorem roundtrip_str (b : Bytes) : Cmd.loadValue (Cmd.dumpValue (.str b)) = some (.str b) :=
  loadValue_dumpValue_str b

/-- non-vacuity: elements that are empty or look like the separators, the empty list, `[""]` vs `[]` -/
example :
    Cmd.dumpValue (.list [[], [44], [61, 95], [95]]) = strBytes "L_,2c,3d5f,5f" ∧
    Cmd.dumpValue (.list [[]]) = strBytes "L_" ∧ Cmd.dumpValue (.list []) = strBytes "L" ∧
    Cmd.dumpValue (.hash [([], [44]), ([61], [])]) = strBytes "H_=2c,3d=_" := by
  decide +kernel

/-- SET: the decoded set has the same members, no duplicates if there were none, the same cardinality, and is
in ascending byte order — whatever the stored order was -/
theorem roundtrip_set (s : List Bytes) :
    ∃ s', Cmd.loadValue (Cmd.dumpValue (.set s)) = some (.set s') ∧
      (∀ x, x ∈ s' ↔ x ∈ s) ∧ (s.Nodup → s'.Nodup) ∧ s'.length = s.length ∧ s'.Perm s ∧
      s'.Pairwise (fun a b => bytesLt b a = false) ∧
      (s.Nodup → s'.Pairwise (fun a b => bytesLt a b = true)) :=
  ⟨sortBy bytesLt s, loadValue_dumpValue_set s, fun _ => ScanSys.mem_sortBy bytesLt,
    ScanSys.nodup_sortBy bytesLt, ScanSys.length_sortBy bytesLt s, ScanSys.sortBy_perm bytesLt s,
    ScanSys.sortBy_sorted bytesLt (fun _ _ h => bytesLt_asymm h) (fun _ _ _ h1 h2 => bytesLt_trans h1 h2) s,
    ScanSys.sortBy_bytes_strict⟩

/-- NEGATIVE: for sets the literal round trip `= some v` is false (insertion order is not kept).
Witness: the set stored as `[b, a]` (SADD k b; SADD k a) comes back as `[a, b]`. -/
theorem set_not_exact :
    ∃ s : List Bytes, s.Nodup ∧ Cmd.loadValue (Cmd.dumpValue (.set s)) ≠ some (.set s) := by
  refine ⟨[[98], [97]], by decide, ?_⟩
  rw [loadValue_dumpValue_set]
  intro h
  have h' : sortBy bytesLt [[98], [97]] = [[98], [97]] := by
    injection h with h; injection h
  exact absurd h' (by decide)

/-- SORTED SET, unconditionally: the decoder rebuilds the sorted set by inserting the `byscore` entries in
order, every score sent through its 64-bit image -/
theorem roundtrip_zset_raw (z : ZSet) :
    Cmd.loadValue (Cmd.dumpValue (.zset z)) =
      some (.zset (rebuild (z.byscore.map fun p => (p.2, Dbl.ofBits (Dbl.toBits p.1))))) :=
  loadValue_dumpValue_zset_raw z

/-- SORTED SET with the two-index invariant and canonical scores: the copy has EXACTLY the same `byscore`
index (scores bit for bit: ±inf, −0.0, subnormals included), the same member → score map, a `bylex` index with
the same pairs (in `byscore` order), and satisfies the invariant again -/
theorem roundtrip_zset (z : ZSet) (hz : z.Inv) (hc : ScoresCanon z) :
    ∃ z', Cmd.loadValue (Cmd.dumpValue (.zset z)) = some (.zset z') ∧
      z'.byscore = z.byscore ∧ z'.bylex = z.byscore.map (fun p => (p.2, p.1)) ∧
      (∀ m, z'.get m = z.get m) ∧ z'.bylex.Perm z.bylex ∧ z'.len = z.len ∧ z'.Inv ∧ ScoresCanon z' :=
  ⟨restoredZ z, loadValue_dumpValue_zset hz hc, rfl, rfl, restoredZ_get hz, restoredZ_bylex_perm hz,
    (restoredZ_bylex_perm hz).length_eq, restoredZ_inv hz, hc⟩

/-- the hypothesis on the scores is exact: `Canon d` holds iff `d` survives the 64-bit image -/
theorem canon_iff (d : Dbl) : Canon d ↔ Dbl.ofBits (Dbl.toBits d) = d := DumpRound.canon_iff d

/-- what `Canon` says -/
theorem canon_def :
    Canon .nan ∧ (∀ b, Canon (.inf b)) ∧
    (∀ neg m e, Canon (.fin neg m e) ↔
      ((m < 2^52 ∧ e = -1074) ∨ (2^52 ≤ m ∧ m < 2^53 ∧ -1074 ≤ e ∧ e ≤ 971))) :=
  ⟨trivial, fun _ => trivial, fun _ _ _ => Iff.rfl⟩

/-- everything the decoder itself produces is canonical (so a restored copy can be dumped again) -/
theorem canon_ofBits (b : UInt64) : Canon (Dbl.ofBits b) := DumpRound.canon_ofBits b

/-- non-vacuity: −inf, +inf, −0.0, +0.0, the smallest and the largest subnormal, the smallest normal, 1.0, the
largest double are canonical, and their images are the IEEE bit patterns -/
example :
    Canon (.inf true) ∧ Canon (.inf false) ∧ Canon (.fin true 0 (-1074)) ∧ Canon Dbl.zero ∧
    Canon (.fin false 1 (-1074)) ∧ Canon (.fin false (2^52 - 1) (-1074)) ∧ Canon (.fin false (2^52) (-1074)) ∧
    Canon Dbl.one ∧ Canon (.fin false (2^53 - 1) 971) ∧
    Dbl.toBits (.inf true) = 0xFFF0000000000000 ∧ Dbl.toBits (.fin true 0 (-1074)) = 0x8000000000000000 ∧
    Dbl.toBits (.fin false 1 (-1074)) = 1 ∧ Dbl.toBits Dbl.one = 0x3FF0000000000000 ∧
    Dbl.toBits (.fin false (2^53 - 1) 971) = 0x7FEFFFFFFFFFFFFF := by
  decide +kernel

/-- the sorted set of the examples: members e, a, d, b, c added in this order with the scores
+inf, −inf, 1.0, −0.0, 2^−1074 -/
def exZ : ZSet :=
  rebuild [([101], .inf false), ([97], .inf true), ([100], Dbl.one), ([98], .fin true 0 (-1074)),
    ([99], .fin false 1 (-1074))]

theorem exZ_wf : ZWF (.zset exZ) :=
  ⟨rebuild_inv _ (by decide), by unfold ScoresCanon; decide +kernel⟩

/-- non-vacuity of `roundtrip_zset`, and the two indexes of the example before and after the round trip -/
example :
    exZ.bylex.map Prod.fst = [[101], [97], [100], [98], [99]] ∧
    exZ.byscore.map Prod.snd = [[97], [98], [99], [100], [101]] ∧
    (restoredZ exZ).bylex.map Prod.fst = [[97], [98], [99], [100], [101]] ∧
    Cmd.dumpValue (.zset exZ) =
      strBytes "Z61=18442240474082181120,62=9223372036854775808,63=1,64=4607182418800017408,65=9218868437227405312" := by
  decide +kernel

/-- NEGATIVE: for sorted sets the literal round trip `= some v` is false: the `bylex` index (a Python dict in
insertion order) comes back in `byscore` order.  Witness: ZADD k 2 b; ZADD k 1 a.  (No command reply of the model
depends on the order of `bylex` alone — ZSCAN sorts it — so this is a difference of representation.) -/
theorem zset_not_exact :
    ∃ z : ZSet, z.Inv ∧ ScoresCanon z ∧ Cmd.loadValue (Cmd.dumpValue (.zset z)) ≠ some (.zset z) := by
  refine ⟨rebuild [([98], Dbl.ofInt 2), ([97], Dbl.ofInt 1)], rebuild_inv _ (by decide),
    by unfold ScoresCanon; decide +kernel, ?_⟩
  rw [loadValue_dumpValue_zset (rebuild_inv _ (by decide)) (by unfold ScoresCanon; decide +kernel)]
  intro h
  have h' : restoredZ (rebuild [([98], Dbl.ofInt 2), ([97], Dbl.ofInt 1)]) =
      rebuild [([98], Dbl.ofInt 2), ([97], Dbl.ofInt 1)] := by
    injection h with h; injection h
  have h'' := congrArg (fun z => z.bylex.map Prod.fst) h'
  exact absurd h'' (by decide +kernel)

/-- NEGATIVE: a NON-canonical `Dbl` does not survive: `.fin false 1 0` (the value 1.0 written with an
unnormalised mantissa) is encoded as the bit pattern 1 and comes back as 2^−1074, a different VALUE.
`Canon` is therefore a necessary hypothesis of `roundtrip_zset` in the model; `scores_are_canonical` and the three
theorems after it show that the commands never store such a `Dbl`. -/
theorem noncanonical_score_not_kept :
    ¬ Canon (.fin false 1 0) ∧ Dbl.eq (.fin false 1 0) Dbl.one = true ∧
    Dbl.ofBits (Dbl.toBits (.fin false 1 0)) = .fin false 1 (-1074) ∧
    Dbl.eq (Dbl.ofBits (Dbl.toBits (.fin false 1 0))) (.fin false 1 0) = false := by
  decide +kernel

/-- WHERE CANONICAL SCORES COME FROM: every double the model computes is canonical — the rounding function
`Dbl.roundPos` (positive denominator), hence `+`, `*`, `int → float`, decimal literals, `0.0 + x`, and whatever a
`Float` converter (`Conv.float`, used for every score argument) accepts; `max`/`min` return one of their operands -/
theorem scores_are_canonical :
    (∀ neg num den, 0 < den → Canon (Dbl.roundPos neg num den)) ∧
    (∀ a b, Canon (Dbl.add a b)) ∧ (∀ a b, Canon (Dbl.mul a b)) ∧ (∀ n, Canon (Dbl.ofInt n)) ∧
    (∀ neg digits exp10, Canon (Dbl.ofDecimal neg digits exp10)) ∧ (∀ d : Dbl, Canon d.plusZero) ∧
    (∀ a b, Canon a → Canon b → Canon (Dbl.pyMax a b) ∧ Canon (Dbl.pyMin a b)) ∧
    (∀ x r, Conv.float x = .ok r → Canon r) :=
  ⟨roundPos_canon, add_canon, mul_canon, ofInt_canon, ofDecimal_canon, plusZero_canon,
    fun _ _ ha hb => ⟨pyMax_canon ha hb, pyMin_canon ha hb⟩, fun _ _ h => float_canon h⟩

example : (Conv.float (strBytes "1e-320")).isOk = true ∧ (Conv.float (strBytes "-0")).isOk = true ∧
    (Conv.float (strBytes "-inf")).isOk = true := by decide +kernel

/-- ZADD (all option combinations, INCR included) stores canonical scores only, whatever its arguments -/
theorem zadd_keeps_canonical (ctx : Ctx) (args : List Arg) (cis : List CI) (out : BodyOut)
    (hc : CIsCanon cis) (h : Cmd.zadd ctx args cis = .ok out) : CIsCanon out.cis :=
  zadd_canon hc h

/-- ZINCRBY stores canonical scores only (its increment argument comes out of a `Float` converter) -/
theorem zincrby_keeps_canonical (ctx : Ctx) (args : List Arg) (cis : List CI) (out : BodyOut)
    (hc : CIsCanon cis) (ha : ∀ d, Arg.flt d ∈ args → Canon d) (h : Cmd.zincrby ctx args cis = .ok out) :
    CIsCanon out.cis :=
  zincrby_canon hc ha h

/-- `ZSet.add` / `ZSet.discard` (all the other sorted-set writers are built from them) keep canonical scores, and
whatever sorted set RESTORE decodes — from a forged payload as well — has canonical scores only -/
theorem zset_ops_keep_canonical :
    (∀ z m s, ScoresCanon z → Canon s → ScoresCanon (ZSet.add z m s).1) ∧
    (∀ z m, ScoresCanon z → ScoresCanon (ZSet.discard z m)) ∧
    (∀ body z, Cmd.loadValue body = some (.zset z) → ScoresCanon z) :=
  ⟨fun _ m _ hz hs => scoresCanon_add hz m hs, fun _ m hz => scoresCanon_discard hz m,
    fun _ _ h => loadValue_zset_canon h⟩

example : CIsCanon [⟨[1], some (.zset exZ), none, false, false⟩] := by
  intro c hc z hz
  simp only [List.mem_singleton] at hc
  subst hc
  simp only [Option.some.injEq, Value.zset.injEq] at hz
  subst hz
  exact exZ_wf.2

/-- THE PAYLOAD IS CANONICAL: dumping the restored copy gives the very same payload as dumping the original,
and decoding is idempotent -/
theorem payload_canonical (v : Value) :
    Cmd.dumpValue (restoredValue v) = Cmd.dumpValue v ∧ restoredValue (restoredValue v) = restoredValue v :=
  ⟨dumpValue_restoredValue v, restoredValue_idem v⟩

/-- the copy is well formed again: `ZWF`, unique hash fields, duplicate-free sets -/
theorem copy_wf (v : Value) (h : ZWF v) (hw : HashSet.ValueWF v) :
    ZWF (restoredValue v) ∧ HashSet.ValueWF (restoredValue v) :=
  ⟨restoredValue_zwf v h, restoredValue_valueWF hw⟩

/-- where the hypotheses come from: `ZSet.Inv` of every stored sorted set is the database invariant `DbZInv` of
C03 (`FR.Props.C03.zset_inv_preserved`, `FR.Props.C03s.run_ok_preserves_zinv`); unique hash fields and
duplicate-free sets are `FR.Props.C02h.invariants_preserved`; `DbCanon` says that the stored scores are canonical -/
theorem hypotheses_of_db (db : Db) (hz : ZStore.DbZInv db) (hc : DbCanon db) (k : Bytes) (it : Item)
    (h : db.live k = some it) : ZWF it.value :=
  zwf_of_db hz hc h

/-! ## 2. RESTORE of a DUMP payload through the real runner -/

/-- the database of the examples: a list, a set, a hash, a sorted set, with and without deadlines; the clock
stands at 50; key `[9]` is free -/
def exDb : Db :=
  ⟨[([1], ⟨.list [[], [44], [61, 95]], some 70⟩), ([2], ⟨.set [[3], [1], [2]], none⟩),
    ([3], ⟨.hash [([], [44]), ([61], [])], none⟩), ([4], ⟨.zset exZ, some 90⟩)], 50⟩
def exCtx : Ctx := { version := 7, time := 50 }

theorem exDb_ok : NodupKeys exDb.dict ∧ NoEmpty exDb.dict ∧ exCtx.time = exDb.time ∧
    (exDb.live [9]).isSome = false ∧ Conv.int [53] = .ok 5 := by
  refine ⟨by decide, ?_, rfl, by decide +kernel, rfl⟩
  unfold NoEmpty; decide +kernel

/-- RESTORE k ttl payload [REPLACE …] where the payload is the DUMP of ANY stored value `v` (any of the five
types): BUSYKEY and no change iff `k` is live and no REPLACE is given; otherwise the reply is OK, `k` holds
`restoredValue v` (equal to `v` in the sense of `roundtrip`) with deadline `none` for ttl 0 and `now + ttl` ms
otherwise, and no other key changes. -/
theorem restore_of_dump (ctx : Ctx) (db : Db) (nd : NodupKeys db.dict) (ne : NoEmpty db.dict)
    (ht : ctx.time = db.time) (k ttlb : Bytes) (ttl : Int) (httl : Conv.int ttlb = .ok ttl) (h0 : 0 ≤ ttl)
    (v : Value) (hw : ZWF v) (hv : v.isEmptyColl = false)
    (opts : List Bytes) (hopts : ∀ a ∈ opts, casematch a "replace" = true) :
    let out := runRegular sigRestore Cmd.restore ctx none (k :: ttlb :: (Cmd.dumpMagic ++ Cmd.dumpValue v) :: opts) db
    (out.reply, out.db.live) =
      if (db.live k).isSome = true ∧ opts = [] then (.err (strBytes Msgs.RESTORE_KEY_EXISTS), db.live)
      else (.ok, upd db.live k (some ⟨restoredValue v, deadline db.time ttl⟩)) :=
  DumpRound.restore_of_dump ctx db nd ne ht k ttlb ttl httl h0 v hw hv opts hopts

/-- `DUMP k₀` then `RESTORE k ttl payload [REPLACE …]` (`k` free, or a REPLACE given — `k = k₀` allowed then), for
every type: DUMP replies a payload and changes nothing; RESTORE replies OK; afterwards `k` holds a value that is
the same as the one at `k₀` (up to the codec's normalisation) with the requested deadline; every other key —
`k₀` included when `k ≠ k₀` — holds exactly what it held. -/
theorem dump_then_restore (ctx : Ctx) (db : Db) (nd : NodupKeys db.dict) (ne : NoEmpty db.dict)
    (ht : ctx.time = db.time) (k0 k ttlb : Bytes) (v : Value) (e0 : Option Int) (ttl : Int)
    (hlive : db.live k0 = some ⟨v, e0⟩) (hw : ZWF v)
    (httl : Conv.int ttlb = .ok ttl) (hpos : 0 ≤ ttl)
    (opts : List Bytes) (hopts : ∀ a ∈ opts, casematch a "replace" = true)
    (hfree : (db.live k).isSome = true → opts ≠ []) :
    let o1 := runRegular sigDump Cmd.dump ctx none [k0] db
    ∃ payload, o1.reply = .bulk payload ∧ o1.db.live = db.live ∧
      let o2 := runRegular sigRestore Cmd.restore ctx none (k :: ttlb :: payload :: opts) o1.db
      ∃ v', o2.reply = .ok ∧
        o2.db.live k = some ⟨v', deadline db.time ttl⟩ ∧ Same v' v ∧ v'.ty = v.ty ∧
        (∀ x, x ≠ k → o2.db.live x = db.live x) ∧
        (k ≠ k0 → o2.db.live k0 = some ⟨v, e0⟩) := by
  intro o1
  obtain ⟨payload, h1, h2⟩ := DumpRound.dump_then_restore ctx db nd ne ht k0 k ttlb v e0 ttl hlive hw httl hpos
    opts hopts hfree
  have hl1 : o1.db.live = db.live := congrArg Prod.snd (dump_run ctx db nd k0)
  refine ⟨payload, h1, hl1, ?_⟩
  intro o2
  obtain ⟨r2, l2, _, _, _⟩ := h2
  have l2' : o2.db.live = upd db.live k (some ⟨restoredValue v, deadline db.time ttl⟩) := l2
  refine ⟨restoredValue v, r2, by rw [l2', upd_self], restoredValue_same v hw, restoredValue_ty v, ?_, ?_⟩
  · intro x hx; rw [l2', upd_ne _ _ hx]
  · intro hne; rw [l2', upd_ne _ _ (fun e => hne e.symm), hlive]

/-- non-vacuity: the hypotheses hold for each of the four collection keys of `exDb`, free target key `[9]` -/
example :
    exDb.live [1] = some ⟨.list [[], [44], [61, 95]], some 70⟩ ∧
    exDb.live [2] = some ⟨.set [[3], [1], [2]], none⟩ ∧
    exDb.live [3] = some ⟨.hash [([], [44]), ([61], [])], none⟩ ∧
    exDb.live [4] = some ⟨.zset exZ, some 90⟩ ∧ ZWF (.zset exZ) ∧ ZWF (.set [[3], [1], [2]]) ∧
    casematch (strBytes "RePlAcE") "replace" = true :=
  ⟨rfl, rfl, rfl, rfl, exZ_wf, trivial, by decide +kernel⟩

/-- the representation invariants of C02 (unique hash fields, duplicate-free sets) hold again after the two
steps, and the copy of a sorted set satisfies `ZWF` again -/
theorem dump_then_restore_invariants (ctx : Ctx) (db : Db) (nd : NodupKeys db.dict) (ne : NoEmpty db.dict)
    (ht : ctx.time = db.time) (k0 k ttlb : Bytes) (v : Value) (e0 : Option Int) (ttl : Int)
    (hlive : db.live k0 = some ⟨v, e0⟩) (hw : ZWF v) (wf : HashSet.LiveWF db)
    (httl : Conv.int ttlb = .ok ttl) (hpos : 0 ≤ ttl)
    (opts : List Bytes) (hopts : ∀ a ∈ opts, casematch a "replace" = true)
    (hfree : (db.live k).isSome = true → opts ≠ []) :
    let o1 := runRegular sigDump Cmd.dump ctx none [k0] db
    ∃ payload, o1.reply = .bulk payload ∧
      let o2 := runRegular sigRestore Cmd.restore ctx none (k :: ttlb :: payload :: opts) o1.db
      NodupKeys o2.db.dict ∧ NoEmpty o2.db.dict ∧ o2.db.time = db.time ∧ HashSet.LiveWF o2.db ∧
      ∃ it, o2.db.live k = some it ∧ ZWF it.value := by
  intro o1
  obtain ⟨payload, h1, h2⟩ := DumpRound.dump_then_restore ctx db nd ne ht k0 k ttlb v e0 ttl hlive hw httl hpos
    opts hopts hfree
  refine ⟨payload, h1, ?_⟩
  intro o2
  obtain ⟨_, l2, nd2, ne2, t2⟩ := h2
  have l2' : o2.db.live = upd db.live k (some ⟨restoredValue v, deadline db.time ttl⟩) := l2
  refine ⟨nd2, ne2, t2, liveWF_upd wf l2' (restoredValue_valueWF (wf k0 _ hlive)), _, by rw [l2', upd_self],
    restoredValue_zwf v hw⟩

/-! ## 3. Independent copies: a later in-place command on the copy leaves the original alone -/

section copies
variable (ctx : Ctx) (db : Db) (nd : NodupKeys db.dict) (ne : NoEmpty db.dict) (ht : ctx.time = db.time)
  (k0 k ttlb : Bytes) (e0 : Option Int) (ttl : Int) (hk : db.live k = none) (hne : k ≠ k0)
  (httl : Conv.int ttlb = .ok ttl) (hpos : 0 ≤ ttl)
include nd ne ht hk hne httl hpos

/-- LIST: `DUMP k₀`, `RESTORE k ttl payload`, `RPUSH k x xs…`.  The copy got the list (same order) and the
requested deadline; RPUSH appended to the copy only and kept its deadline; `k₀` holds exactly what it held. -/
theorem independent_copy_list (l : List Bytes) (h0 : db.live k0 = some ⟨.list l, e0⟩) (x : Bytes) (xs : List Bytes) :
    let o1 := runRegular sigDump Cmd.dump ctx none [k0] db
    ∃ payload, o1.reply = .bulk payload ∧
      let o2 := runRegular sigRestore Cmd.restore ctx none [k, ttlb, payload] o1.db
      let o3 := HashSet.run "rpush" ctx (k :: x :: xs) o2.db
      o2.reply = .ok ∧
      o2.db.live k = some ⟨.list l, deadline db.time ttl⟩ ∧
      o2.db.live k0 = some ⟨.list l, e0⟩ ∧
      o3.reply = .int ((l ++ x :: xs).length : Nat) ∧
      o3.db.live k = some ⟨.list (l ++ x :: xs), deadline db.time ttl⟩ ∧
      o3.db.live k0 = some ⟨.list l, e0⟩ := by
  intro o1
  obtain ⟨payload, h1, h2⟩ := copy_made ctx db nd ne ht k0 k ttlb (.list l) e0 ttl h0 trivial hk hne httl hpos
  refine ⟨payload, h1, ?_⟩
  intro o2 o3
  obtain ⟨r2, hk2, hk02, nd2⟩ := h2
  obtain ⟨r3, l3⟩ := rpush_run ctx o2.db nd2 k l _ hk2 x xs
  refine ⟨r2, hk2, hk02, r3, ?_, ?_⟩
  · rw [show o3.db.live = _ from l3, upd_self]
  · rw [show o3.db.live = _ from l3, upd_ne _ _ (fun e => hne e.symm)]; exact hk02

/-- SET: `DUMP k₀`, `RESTORE k ttl payload`, `SADD k m ms…`.  The copy got the members (ascending order); SADD
changed the copy only. -/
theorem independent_copy_set (s : List Bytes) (h0 : db.live k0 = some ⟨.set s, e0⟩) (m : Bytes) (ms : List Bytes) :
    let o1 := runRegular sigDump Cmd.dump ctx none [k0] db
    ∃ payload, o1.reply = .bulk payload ∧
      let o2 := runRegular sigRestore Cmd.restore ctx none [k, ttlb, payload] o1.db
      let o3 := HashSet.run "sadd" ctx (k :: m :: ms) o2.db
      o2.reply = .ok ∧
      o2.db.live k = some ⟨.set (sortBy bytesLt s), deadline db.time ttl⟩ ∧
      o2.db.live k0 = some ⟨.set s, e0⟩ ∧
      o3.reply = .int ((Cmd.setUnion (sortBy bytesLt s) (m :: ms)).length - s.length : Nat) ∧
      o3.db.live k = some ⟨.set (Cmd.setUnion (sortBy bytesLt s) (m :: ms)), deadline db.time ttl⟩ ∧
      (∀ x, x ∈ Cmd.setUnion (sortBy bytesLt s) (m :: ms) ↔ x ∈ s ∨ x ∈ m :: ms) ∧
      o3.db.live k0 = some ⟨.set s, e0⟩ := by
  intro o1
  obtain ⟨payload, h1, h2⟩ := copy_made ctx db nd ne ht k0 k ttlb (.set s) e0 ttl h0 trivial hk hne httl hpos
  refine ⟨payload, h1, ?_⟩
  intro o2 o3
  obtain ⟨r2, hk2, hk02, nd2⟩ := h2
  obtain ⟨r3, l3⟩ := sadd_run ctx o2.db nd2 k (sortBy bytesLt s) _ hk2 m ms
  refine ⟨r2, hk2, hk02, ?_, ?_, ?_, ?_⟩
  · rw [show o3.reply = _ from r3, ScanSys.length_sortBy]
  · rw [show o3.db.live = _ from l3, upd_self]
  · intro x; rw [HashSet.mem_setUnion, ScanSys.mem_sortBy]
  · rw [show o3.db.live = _ from l3, upd_ne _ _ (fun e => hne e.symm)]; exact hk02

/-- HASH: `DUMP k₀`, `RESTORE k ttl payload`, `HSET k f v`.  The copy got the same fields in the same order;
HSET changed the copy only. -/
theorem independent_copy_hash (h : List (Bytes × Bytes)) (h0 : db.live k0 = some ⟨.hash h, e0⟩) (f v : Bytes) :
    let o1 := runRegular sigDump Cmd.dump ctx none [k0] db
    ∃ payload, o1.reply = .bulk payload ∧
      let o2 := runRegular sigRestore Cmd.restore ctx none [k, ttlb, payload] o1.db
      let o3 := HashSet.run "hset" ctx [k, f, v] o2.db
      o2.reply = .ok ∧
      o2.db.live k = some ⟨.hash h, deadline db.time ttl⟩ ∧
      o2.db.live k0 = some ⟨.hash h, e0⟩ ∧
      o3.reply = .int (if (h.lookup f).isSome then 0 else 1) ∧
      o3.db.live k = some ⟨.hash (ZSet.dictSet h f v), deadline db.time ttl⟩ ∧
      o3.db.live k0 = some ⟨.hash h, e0⟩ := by
  intro o1
  obtain ⟨payload, h1, h2⟩ := copy_made ctx db nd ne ht k0 k ttlb (.hash h) e0 ttl h0 trivial hk hne httl hpos
  refine ⟨payload, h1, ?_⟩
  intro o2 o3
  obtain ⟨r2, hk2, hk02, nd2⟩ := h2
  obtain ⟨r3, l3⟩ := hset_run ctx o2.db nd2 k h _ hk2 f v
  refine ⟨r2, hk2, hk02, r3, ?_, ?_⟩
  · rw [show o3.db.live = _ from l3, upd_self]
  · rw [show o3.db.live = _ from l3, upd_ne _ _ (fun e => hne e.symm)]; exact hk02

/-- SORTED SET: `DUMP k₀`, `RESTORE k ttl payload`, `ZADD k score member`.  The copy got the same `byscore`
index; ZADD changed the copy only (`ZSet.add` on the copy), the original keeps both of its indexes. -/
theorem independent_copy_zset (z : ZSet) (hz : z.Inv) (hc : ScoresCanon z)
    (h0 : db.live k0 = some ⟨.zset z, e0⟩) (sb m : Bytes) (s : Dbl)
    (hf : notZaddFlag sb) (hs : Conv.float sb = .ok s) :
    let o1 := runRegular sigDump Cmd.dump ctx none [k0] db
    ∃ payload, o1.reply = .bulk payload ∧
      let o2 := runRegular sigRestore Cmd.restore ctx none [k, ttlb, payload] o1.db
      let o3 := HashSet.run "zadd" ctx [k, sb, m] o2.db
      let z3 := ((restoredZ z).add m (zaddScore ctx.version s)).1
      o2.reply = .ok ∧
      o2.db.live k = some ⟨.zset (restoredZ z), deadline db.time ttl⟩ ∧
      (restoredZ z).byscore = z.byscore ∧
      o2.db.live k0 = some ⟨.zset z, e0⟩ ∧
      o3.reply = .int ((z3.len : Int) - z.len) ∧
      o3.db.live k = some ⟨.zset z3, deadline db.time ttl⟩ ∧ z3.Inv ∧ ScoresCanon z3 ∧
      o3.db.live k0 = some ⟨.zset z, e0⟩ := by
  intro o1
  obtain ⟨payload, h1, h2⟩ := copy_made ctx db nd ne ht k0 k ttlb (.zset z) e0 ttl h0 ⟨hz, hc⟩ hk hne httl hpos
  refine ⟨payload, h1, ?_⟩
  intro o2 o3 z3
  obtain ⟨r2, hk2, hk02, nd2⟩ := h2
  obtain ⟨r3, l3⟩ := zadd_run ctx o2.db nd2 k (restoredZ z) _ hk2 sb m s hf hs
  have hnan : (zaddScore ctx.version s).isNaN = false := by
    unfold zaddScore
    split
    · exact Dbl.plusZero_not_nan (Cmd.Conv.float_not_nan hs)
    · exact Cmd.Conv.float_not_nan hs
  have hcan : Canon (zaddScore ctx.version s) := by
    unfold zaddScore
    split
    · exact plusZero_canon _
    · exact float_canon hs
  refine ⟨r2, hk2, rfl, hk02, ?_, ?_, ZSet.add_inv (restoredZ_inv hz) hnan,
    scoresCanon_add (z := restoredZ z) hc m hcan, ?_⟩
  · rw [show o3.reply = _ from r3]
    have : (restoredZ z).len = z.len := (restoredZ_bylex_perm hz).length_eq
    rw [this]
  · rw [show o3.db.live = _ from l3, upd_self]
  · rw [show o3.db.live = _ from l3, upd_ne _ _ (fun e => hne e.symm)]; exact hk02

end copies

/-- `HashSet.run name` runs the registered signature and body of the command; the DUMP / RESTORE signatures used
above are the registered ones -/
theorem tables :
    (HashSet.sigOf "rpush", Cmd.regular "rpush") = (HashSet.sigOf "rpush", some Cmd.rpush) ∧
    Cmd.regular "sadd" = some Cmd.sadd ∧ Cmd.regular "hset" = some Cmd.hset ∧ Cmd.regular "zadd" = some Cmd.zadd ∧
    SigTable.find "dump" = some sigDump ∧ Cmd.regular "dump" = some Cmd.dump ∧
    SigTable.find "restore" = some sigRestore ∧ Cmd.regular "restore" = some Cmd.restore ∧
    (SigTable.find "rpush").isSome = true ∧ (SigTable.find "sadd").isSome = true ∧
    (SigTable.find "hset").isSome = true ∧ (SigTable.find "zadd").isSome = true :=
  ⟨rfl, rfl, rfl, rfl, by decide, rfl, by decide, rfl, by decide, by decide, by decide, by decide⟩

/-- non-vacuity of the four independent-copy theorems on `exDb` (ttl `5`, target key `[9]`), and the replayable
run for the sorted set: ZADD of a new member `f` with score `1.5` to the copy -/
example :
    ([9] : Bytes) ≠ [1] ∧ ([9] : Bytes) ≠ [2] ∧ ([9] : Bytes) ≠ [3] ∧ ([9] : Bytes) ≠ [4] ∧
    exDb.live [9] = none ∧ notZaddFlag (strBytes "1.5") ∧
    (∃ s, Conv.float (strBytes "1.5") = .ok s) ∧ exZ.Inv ∧ ScoresCanon exZ := by
  refine ⟨by decide, by decide, by decide, by decide, by decide +kernel, by decide +kernel, ?_, exZ_wf.1, exZ_wf.2⟩
  have hok : (Conv.float (strBytes "1.5")).isOk = true := by decide +kernel
  cases h : Conv.float (strBytes "1.5") with
  | ok s => exact ⟨s, rfl⟩
  | error e => rw [h] at hok; cases hok

/-- (for the example) the three steps on `exDb`: DUMP key `[4]`, RESTORE into `[9]` with ttl 5, ZADD `[9] 1.5 f` -/
def exO1 : RunOut := runRegular sigDump Cmd.dump exCtx none [[4]] exDb
def exO2 : RunOut :=
  runRegular sigRestore Cmd.restore exCtx none [[9], [53], match exO1.reply with | .bulk p => p | _ => []] exO1.db
def exO3 : RunOut := HashSet.run "zadd" exCtx [[9], strBytes "1.5", [102]] exO2.db
/-- (for the example) the members of a sorted-set entry in score order -/
def members (oi : Option Item) : List Bytes :=
  match oi with | some ⟨.zset z, _⟩ => z.byscore.map Prod.snd | _ => []

example :
    (match exO2.reply with | .status b => b | _ => []) = strBytes "OK" ∧ C01k.intView exO3.reply = some 1 ∧
    members (exO3.db.live [9]) = [[97], [98], [99], [100], [102], [101]] ∧
    members (exO3.db.live [4]) = [[97], [98], [99], [100], [101]] ∧
    (exO3.db.live [9]).map (·.expireat) = some (some (50 + 5 * TICKS_MS)) ∧
    (exO3.db.live [4]).map (·.expireat) = some (some 90) := by
  decide +kernel

/-! ## 4. Payloads that are not DUMP outputs -/

/-- the payloads RESTORE rejects are exactly: no DUMP header, or a header followed by a body that does not
decode -/
theorem rejected_iff (payload : Bytes) :
    decodePayload payload = none ↔
      (payload.take Cmd.dumpMagic.length == Cmd.dumpMagic) = false ∨
      ∃ body, payload = Cmd.dumpMagic ++ body ∧ Cmd.loadValue body = none :=
  decodePayload_none_iff payload

/-- RESTORE with a rejected payload — in particular a well-formed header ("checksum") with an undecodable body —
on a free key or with REPLACE: the payload error and no change at all; the ttl is not even looked at -/
theorem restore_undecodable (ctx : Ctx) (db : Db) (nd : NodupKeys db.dict) (ne : NoEmpty db.dict)
    (ht : ctx.time = db.time) (k ttlb payload : Bytes) (ttl : Int) (httl : Conv.int ttlb = .ok ttl)
    (hbad : decodePayload payload = none)
    (opts : List Bytes) (hopts : ∀ a ∈ opts, casematch a "replace" = true)
    (hfree : (db.live k).isSome = true → opts ≠ []) :
    let out := runRegular sigRestore Cmd.restore ctx none (k :: ttlb :: payload :: opts) db
    (out.reply, out.db.live) = (.err (strBytes Msgs.RESTORE_INVALID_CHECKSUM_MSG), db.live) :=
  DumpRound.restore_undecodable ctx db nd ne ht k ttlb payload ttl httl hbad opts hopts hfree

/-- bodies that do not decode: the empty body and every unknown type tag … -/
theorem undecodable_tag (t : UInt8) (rest : Bytes) (h : t ≠ 83 ∧ t ≠ 76 ∧ t ≠ 84 ∧ t ≠ 72 ∧ t ≠ 90) :
    decodePayload (Cmd.dumpMagic ++ t :: rest) = none ∧ decodePayload Cmd.dumpMagic = none :=
  ⟨decodePayload_undecodable _ (loadValue_bad_tag t rest h), by
    have := decodePayload_undecodable [] loadValue_nil
    simpa using this⟩

/-- … and, with a known tag: an odd number of hex digits, a non-hex character, a hash item without `=` or with
two, a sorted-set item whose score is not a decimal number (each is a replayable witness) -/
example :
    (Cmd.loadValue (strBytes "L6")).isNone ∧ (Cmd.loadValue (strBytes "Szz")).isNone ∧
    (Cmd.loadValue (strBytes "L61,6")).isNone ∧ (Cmd.loadValue (strBytes "T6g")).isNone ∧
    (Cmd.loadValue (strBytes "H61")).isNone ∧ (Cmd.loadValue (strBytes "H61=62=63")).isNone ∧
    (Cmd.loadValue (strBytes "Z61=x")).isNone ∧ (Cmd.loadValue (strBytes "Z61=")).isNone ∧
    (Cmd.loadValue (strBytes "Z61=-1")).isNone := by
  decide +kernel

/-- NEGATIVE ("a payload that is not the image of `dumpValue` is rejected" is false of the model): the decoder
accepts upper-case hex digits, which the encoder never emits.  Witness: body `S4A` decodes (to the string `J`)
although no value is dumped as `S4A`.  (The real implementation accepts every correctly checksummed pickle, so
this does not contradict it.) -/
theorem nonimage_payload_accepted :
    (Cmd.loadValue (strBytes "S4A")).isSome = true ∧ ∀ v, Cmd.dumpValue v ≠ strBytes "S4A" := by
  refine ⟨by decide +kernel, ?_⟩
  have hlit : strBytes "S4A" = [83, 52, 65] := by decide +kernel
  rw [hlit]
  intro v hv
  cases v with
  | str b =>
    simp only [Cmd.dumpValue, List.cons.injEq, true_and] at hv
    rw [hexB_eq] at hv
    cases b with
    | nil => simp at hv
    | cons c cs =>
      simp only [List.isEmpty_cons, Bool.false_eq_true, if_false, hexChars, List.flatMap_cons, List.cons_append,
        List.nil_append, List.map_cons, List.cons.injEq] at hv
      have : ∀ n < 16, UInt8.ofNat (hexDigit n).toNat ≠ 65 := by decide
      exact this (c.toNat % 16) (by omega) hv.2.1
  | list l => simp [Cmd.dumpValue] at hv
  | set s => simp [Cmd.dumpValue] at hv
  | hash h => simp [Cmd.dumpValue] at hv
  | zset z => simp [Cmd.dumpValue] at hv

/-- more accepted non-images: an empty item (the encoder writes `_` for the empty string) decodes to the empty
string; and a forged payload can even break the representation invariant of sets (a duplicate member): RESTORE
does not validate what it decodes.  Witnesses: bodies `L61,,62` and `T61,61`. -/
example :
    (match Cmd.loadValue (strBytes "L61,,62") with | some (.list l) => l | _ => []) = [[97], [], [98]] ∧
    (match Cmd.loadValue (strBytes "T61,61") with | some (.set s) => s | _ => []) = [[97], [97]] := by
  decide +kernel

end FR.Props.C01d
