import FR.Proofs.ZSet
/-!
# C03 — sorted sets: the two indexes agree, stay sorted, never hold NaN, and the read commands agree

Only final property theorems and non-vacuity examples.  Helper lemmas and the definition of the
invariant `ZSet.Inv` live in `FR/Proofs/ZSet.lean`.
-/
namespace FR.Props.C03
open FR FR.Cmd

/-! ## 1. Orders -/

/-- Python bytes comparison is a strict total order -/
theorem bytesLt_strict_total :
    (∀ a : Bytes, bytesLt a a = false) ∧
    (∀ a b c : Bytes, bytesLt a b = true → bytesLt b c = true → bytesLt a c = true) ∧
    (∀ a b : Bytes, bytesLt a b = true ∨ a = b ∨ bytesLt b a = true) :=
  ⟨bytesLt_irrefl, fun _ _ _ => bytesLt_trans, bytesLt_trichotomy⟩

/-- IEEE `<` / `==` on non-NaN doubles: `==` is an equivalence, `<` is transitive and compatible
with `==`, and exactly one of `a < b`, `a == b`, `b < a` holds -/
theorem dbl_strict_weak_order :
    (∀ a : Dbl, a.isNaN = false → Dbl.eq a a = true) ∧
    (∀ a b : Dbl, Dbl.eq a b = true → Dbl.eq b a = true) ∧
    (∀ a b c : Dbl, Dbl.eq a b = true → Dbl.eq b c = true → Dbl.eq a c = true) ∧
    (∀ a : Dbl, Dbl.lt a a = false) ∧
    (∀ a b c : Dbl, Dbl.lt a b = true → Dbl.lt b c = true → Dbl.lt a c = true) ∧
    (∀ a b c : Dbl, Dbl.lt a b = true → Dbl.eq b c = true → Dbl.lt a c = true) ∧
    (∀ a b c : Dbl, Dbl.eq a b = true → Dbl.lt b c = true → Dbl.lt a c = true) ∧
    (∀ a b : Dbl, a.isNaN = false → b.isNaN = false →
      (Dbl.lt a b = true ∧ Dbl.eq a b = false ∧ Dbl.lt b a = false) ∨
      (Dbl.lt a b = false ∧ Dbl.eq a b = true ∧ Dbl.lt b a = false) ∨
      (Dbl.lt a b = false ∧ Dbl.eq a b = false ∧ Dbl.lt b a = true)) :=
  ⟨fun _ => Dbl.eq_refl, fun _ _ => Dbl.eq_symm, fun _ _ _ => Dbl.eq_trans, Dbl.lt_irrefl,
   fun _ _ _ => Dbl.lt_trans, fun _ _ _ => Dbl.lt_of_lt_of_eq, fun _ _ _ => Dbl.lt_of_eq_of_lt,
   fun _ _ => Dbl.trichotomy⟩

/-- Python tuple comparison `(s1, m1) < (s2, m2)`: irreflexive and transitive for all scores
(comparisons with NaN are false), total up to `Dbl.eq` of the scores when no score is NaN -/
theorem pairLt_strict_total :
    (∀ (s : Dbl) (m : LexB), pairLt s m s m = false) ∧
    (∀ (s1 s2 s3 : Dbl) (m1 m2 m3 : LexB),
      pairLt s1 m1 s2 m2 = true → pairLt s2 m2 s3 m3 = true → pairLt s1 m1 s3 m3 = true) ∧
    (∀ (s1 s2 : Dbl) (m1 m2 : LexB), s1.isNaN = false → s2.isNaN = false →
      pairLt s1 m1 s2 m2 = true ∨ (Dbl.eq s1 s2 = true ∧ m1 = m2) ∨ pairLt s2 m2 s1 m1 = true) ∧
    (∀ (s1 s2 : Dbl) (m1 m2 : Bytes), s1.isNaN = false → s2.isNaN = false → m1 ≠ m2 →
      pairLt s1 (.val m1) s2 (.val m2) = true ∨ pairLt s2 (.val m2) s1 (.val m1) = true) :=
  ⟨pairLt_irrefl, fun _ _ _ _ _ _ => pairLt_trans, fun _ _ m1 m2 h1 h2 => pairLt_trichotomy m1 m2 h1 h2,
   fun _ _ _ _ h1 h2 hne => pairLt_total_of_ne h1 h2 (fun e => hne (LexB.val.inj e))⟩

/-! ## 2. The invariant and the write operations -/

/-- what `ZSet.Inv` says (so that the statement is visible here) -/
theorem inv_iff (z : ZSet) : z.Inv ↔
    (z.byscore.Pairwise (fun a b => pairLt a.1 (.val a.2) b.1 (.val b.2) = true)
     ∧ (z.bylex.map Prod.fst).Nodup
     ∧ (∀ m s, (m, s) ∈ z.bylex ↔ (s, m) ∈ z.byscore)
     ∧ (∀ p ∈ z.byscore, p.1.isNaN = false)) := Iff.rfl

theorem empty_inv : ZSet.empty.Inv := ZSet.empty_inv

theorem add_inv (z : ZSet) (m : Bytes) (s : Dbl) (hz : z.Inv) (hs : s.isNaN = false) : (z.add m s).1.Inv :=
  ZSet.add_inv hz hs

theorem discard_inv (z : ZSet) (m : Bytes) (hz : z.Inv) : (z.discard m).Inv := ZSet.discard_inv hz

/-- scores after `add`: the added member gets the new score unless the old score is IEEE-equal
(then the old one is kept: `-0.0` does not overwrite `0.0`); every other member is untouched -/
theorem get_add (z : ZSet) (m : Bytes) (s : Dbl) (m' : Bytes) :
    (z.add m s).1.get m' =
      if m' = m then
        (match z.get m with
         | some old => if Dbl.eq s old then some old else some s
         | none => some s)
      else z.get m' := ZSet.get_add z m s m'

theorem get_add_self (z : ZSet) (m : Bytes) (s : Dbl) :
    ∃ s', (z.add m s).1.get m = some s' ∧ (s' = s ∨ Dbl.eq s s' = true) := ZSet.get_add_self_eq z m s

/-- the "changed" flag of `add` is false exactly when an IEEE-equal score was already stored,
and then the zset is unchanged -/
theorem add_changed (z : ZSet) (m : Bytes) (s : Dbl) :
    ((z.add m s).2 = match z.get m with
      | some old => !Dbl.eq s old
      | none => true) ∧ ((z.add m s).2 = false → (z.add m s).1 = z) :=
  ⟨ZSet.add_changed z m s, ZSet.add_unchanged⟩

theorem get_discard (z : ZSet) (m m' : Bytes) :
    (z.discard m).get m' = if m' = m then none else z.get m' := ZSet.get_discard z m m'

theorem len_add (z : ZSet) (m : Bytes) (s : Dbl) :
    (z.add m s).1.len = if z.get m = none then z.len + 1 else z.len := ZSet.len_add z m s

theorem len_discard (z : ZSet) (m : Bytes) (hz : z.Inv) :
    (z.discard m).len = if z.get m = none then z.len else z.len - 1 := ZSet.len_discard hz m

/-! ## 3. The read operations agree -/

theorem members_sorted (z : ZSet) (hz : z.Inv) :
    z.byscore.Pairwise (fun a b => pairLt a.1 (.val a.2) b.1 (.val b.2) = true) := ZSet.members_sorted hz

theorem members_nodup (z : ZSet) (hz : z.Inv) : (z.byscore.map Prod.snd).Nodup := ZSet.members_nodup hz

theorem byscore_length (z : ZSet) (hz : z.Inv) : z.byscore.length = z.len := ZSet.byscore_length hz

/-- `get` (ZSCORE) reads the same data as the sorted index -/
theorem get_iff_mem_byscore (z : ZSet) (hz : z.Inv) (m : Bytes) (s : Dbl) :
    z.get m = some s ↔ (s, m) ∈ z.byscore := ZSet.get_iff_mem_byscore hz

/-- ZRANK is the index of the member in ZRANGE order, and carries the ZSCORE score -/
theorem rank_is_index (z : ZSet) (hz : z.Inv) (m : Bytes) (i : Nat) (h : z.rank m = some i) :
    ∃ s, z.byscore[i]? = some (s, m) ∧ z.get m = some s := ZSet.rank_is_index hz h

theorem rank_of_index (z : ZSet) (hz : z.Inv) (m : Bytes) (s : Dbl) (i : Nat)
    (h : z.byscore[i]? = some (s, m)) : z.rank m = some i := ZSet.rank_of_index hz h

theorem rank_none_iff (z : ZSet) (m : Bytes) : z.rank m = none ↔ z.get m = none := ZSet.rank_none_iff z m

/-- ZRANK = number of entries strictly below `(score, member)` -/
theorem rank_eq_bisectLeft (z : ZSet) (hz : z.Inv) (m : Bytes) (s : Dbl) (hg : z.get m = some s) :
    z.rank m = some (z.bisectLeft s (.val m)) := ZSet.rank_eq_bisectLeft hz hg

/-- ZREVRANK replies `len - 1 - rank` … -/
theorem zrevrank_mirror (ctx : Ctx) (k : Nat) (m : Bytes) (cis : List CI) :
    zrevrank ctx [.key k, .raw m] cis =
      match (zsetOf (ciAt cis k)).rank m with
      | some r => ret (.int (((zsetOf (ciAt cis k)).len : Int) - 1 - r)) cis
      | none => ret .nil cis := Cmd.zrevrank_mirror ctx k m cis

/-- … which is a valid index into the reversed list and holds the member there -/
theorem revrank_is_index (z : ZSet) (hz : z.Inv) (m : Bytes) (i : Nat) (h : z.rank m = some i) :
    i < z.len ∧ ∃ s, z.byscore.reverse[z.len - 1 - i]? = some (s, m) ∧ z.get m = some s :=
  ⟨ZSet.rank_lt_len hz h, ZSet.revrank_is_index hz h⟩

/-- bisect window on the sorted list = filter (holds for all `s1 s2`, NaN included) -/
theorem irange_eq_filter (z : ZSet) (hz : z.Inv) (s1 : Dbl) (b1 : LexB) (s2 : Dbl) (b2 : LexB) :
    z.irange s1 b1 s2 b2 true true =
      z.byscore.filter (fun p => !pairLt p.1 (.val p.2) s1 b1 && !pairLt s2 b2 p.1 (.val p.2)) :=
  ZSet.irange_eq_filter hz s1 b1 s2 b2

/-- the same for all four inclusive / exclusive flag combinations of `SortedList.irange` -/
theorem irange_eq_filter_gen (z : ZSet) (hz : z.Inv) (s1 : Dbl) (b1 : LexB) (s2 : Dbl) (b2 : LexB)
    (inc1 inc2 : Bool) :
    z.irange s1 b1 s2 b2 inc1 inc2 =
      z.byscore.filter (fun p =>
        !(if inc1 then pairLt p.1 (.val p.2) s1 b1 else !pairLt s1 b1 p.1 (.val p.2)) &&
         (if inc2 then !pairLt s2 b2 p.1 (.val p.2) else pairLt p.1 (.val p.2) s2 b2)) :=
  ZSet.irange_eq_filter_gen hz s1 b1 s2 b2 inc1 inc2

/-- ZCOUNT (two `bisect_left`s) = number of elements of the ZRANGEBYSCORE window;
only the upper score has to be non-NaN -/
theorem zcount_eq_length (z : ZSet) (hz : z.Inv) (s1 : Dbl) (e1 : Bool) (s2 : Dbl) (e2 : Bool)
    (h2 : s2.isNaN = false) :
    z.zcount s1 (lowerTail e1) s2 (upperTail e2) =
      (z.irange s1 (lowerTail e1) s2 (upperTail e2) true true).length :=
  ZSet.zcount_eq_length hz s1 e1 e2 h2

/-- inclusive / exclusive score bounds -/
theorem zrangebyscore_spec (z : ZSet) (hz : z.Inv) (mn mx : Dbl) (mne mxe : Bool)
    (hmn : mn.isNaN = false) (hmx : mx.isNaN = false) (s : Dbl) (m : Bytes) :
    (s, m) ∈ z.irange mn (lowerTail mne) mx (upperTail mxe) true true ↔
      (s, m) ∈ z.byscore ∧
      (if mne then Dbl.lt mn s else Dbl.le mn s) = true ∧
      (if mxe then Dbl.lt s mx else Dbl.le s mx) = true :=
  ZSet.zrangebyscore_spec hz mne mxe hmn hmx s m

/-- command bodies: ZCOUNT replies the number of members ZRANGEBYSCORE (no options) replies -/
theorem zcount_matches_zrangebyscore (ctx : Ctx) (cis : List CI) (hc : CIsInv cis) (k : Nat)
    (mn : Dbl) (mne : Bool) (mx : Dbl) (mxe : Bool) (hmx : mx.isNaN = false) :
    ∃ items : List (Dbl × Bytes),
      zrangebyscore ctx [.key k, .score mn mne, .score mx mxe] cis
        = ret (.arr (items.map fun p => .bulk p.2)) cis ∧
      zcount ctx [.key k, .score mn mne, .score mx mxe] cis = ret (.int items.length) cis :=
  Cmd.zcount_matches_zrangebyscore ctx hc k mn mne mxe hmx

/-! ## 4. Command bodies preserve the invariant; no NaN score is ever stored -/

/-- what `CIsInv` says -/
theorem cisInv_iff (cis : List CI) :
    CIsInv cis ↔ ∀ c ∈ cis, ∀ z, c.val = some (.zset z) → z.Inv := Iff.rfl

/-- `Conv.float` (the score / increment argument decoder) never yields NaN -/
theorem conv_float_never_nan (b : Bytes) (d : Dbl) (h : Conv.float b = .ok d) : d.isNaN = false :=
  Conv.float_not_nan h

/-- all write commands on sorted sets preserve the invariant of every sorted set in the items
(for every argument list, in particular for a NaN increment handed to ZINCRBY) -/
theorem zset_inv_preserved (ctx : Ctx) (args : List Arg) (cis : List CI) (out : BodyOut)
    (hc : CIsInv cis) (body : Body)
    (hb : body = zadd ∨ body = zincrby ∨ body = zrem ∨ body = zremrangebyrank ∨
          body = zremrangebyscore ∨ body = zremrangebylex)
    (h : body ctx args cis = .ok out) : CIsInv out.cis := by
  rcases hb with e | e | e | e | e | e <;> subst e
  · exact zadd_inv hc h
  · exact zincrby_inv hc h
  · exact zrem_inv hc h
  · exact zremrangebyrank_inv hc h
  · exact zremrangebyscore_inv hc h
  · exact zremrangebylex_inv hc h

/-- ZADD (all flag combinations, INCR included) never stores a NaN score -/
theorem zadd_never_nan (ctx : Ctx) (args : List Arg) (cis : List CI) (out : BodyOut)
    (hc : CIsInv cis) (h : zadd ctx args cis = .ok out) :
    ∀ c ∈ out.cis, ∀ z, c.val = some (.zset z) → ∀ m s, z.get m = some s → s.isNaN = false :=
  (zadd_inv hc h).no_nan

theorem zincrby_never_nan (ctx : Ctx) (args : List Arg) (cis : List CI) (out : BodyOut)
    (hc : CIsInv cis) (h : zincrby ctx args cis = .ok out) :
    ∀ c ∈ out.cis, ∀ z, c.val = some (.zset z) → ∀ m s, z.get m = some s → s.isNaN = false :=
  (zincrby_inv hc h).no_nan

/-! ## Non-vacuity witnesses -/

-- `ZSet.example3`: members `b ↦ 2`, `a ↦ 1`, `c ↦ 2` added in this order (defined in FR/Proofs/ZSet.lean)
example : ZSet.example3.Inv :=
  ZSet.add_inv (ZSet.add_inv (ZSet.add_inv ZSet.empty_inv (by decide)) (by decide)) (by decide)

example : ZSet.example3.bylex.map Prod.fst = [[98], [97], [99]] := by decide
example : ZSet.example3.byscore = [(Dbl.ofInt 1, [97]), (Dbl.ofInt 2, [98]), (Dbl.ofInt 2, [99])] := by decide
-- 2 ≤ score ≤ 2
example : (ZSet.example3.irange (Dbl.ofInt 2) (lowerTail false) (Dbl.ofInt 2) (upperTail false) true true).map Prod.snd
    = [[98], [99]] := by decide
-- 1 < score ≤ 2
example : (ZSet.example3.irange (Dbl.ofInt 1) (lowerTail true) (Dbl.ofInt 2) (upperTail false) true true).map Prod.snd
    = [[98], [99]] := by decide
-- 1 ≤ score < 2
example : (ZSet.example3.irange (Dbl.ofInt 1) (lowerTail false) (Dbl.ofInt 2) (upperTail true) true true).map Prod.snd
    = [[97]] := by decide
example : ZSet.example3.zcount (Dbl.ofInt 1) (lowerTail false) (Dbl.ofInt 2) (upperTail true) = 1 := by decide
example : ZSet.example3.rank [99] = some 2 ∧ ZSet.example3.rank [100] = none := by decide
-- `-0.0` does not overwrite `0.0`; the call reports "unchanged"
example : ((ZSet.empty.add [97] Dbl.zero).1.add [97] (.fin true 0 (-1074))).1.get [97] = some Dbl.zero ∧
    ((ZSet.empty.add [97] Dbl.zero).1.add [97] (.fin true 0 (-1074))).2 = false := by decide
-- a NaN score would break the sortedness-based reads, hence the `isNaN = false` hypothesis of `add_inv`:
-- after inserting NaN, a later smaller element is placed after it
example : ((ZSet.empty.add [97] .nan).1.add [98] (Dbl.ofInt 1)).1.byscore = [(.nan, [97]), (Dbl.ofInt 1, [98])] ∧
    pairLt .nan (.val [97]) (Dbl.ofInt 1) (.val [98]) = false := by decide
-- discard
example : (ZSet.example3.discard [98]).byscore = [(Dbl.ofInt 1, [97]), (Dbl.ofInt 2, [99])] ∧ (ZSet.example3.discard [98]).len = 2 := by
  decide

end FR.Props.C03
