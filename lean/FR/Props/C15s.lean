import FR.Proofs.ScanSys
/-!
# C15 (system level) — SCAN / SSCAN / HSCAN / ZSCAN as the server runs them

`FR/Props/C15.lean` is about the pure function `_scan`.  Here the commands are run the way a client reaches them:
`_process_command` (clean-up of closed sockets, clock refresh, arity check, MULTI queueing), `_run_command`
(`Signature.apply`, the gates, the body, write-back), the reply queue — and the client loop that follows the returned
cursors from 0 until 0 comes back.

Vocabulary (all in `FR.ScanSys`):
* `Hint`            : the clock reading a request takes under the lock (plus unused extra hints);
* `request mode c fields h` : the event "connection `c` sends `fields`" (`Ev.request`, run by `stepEv`);
* `iter mode c req hints 0 s` : the client loop — send `req cursor`, decode the reply, go on with the returned cursor
  until it is 0; one `Hint` per request; returns the pages, whether 0 came back, and the final state;
* `purgeAt t dict`   : the entries of `dict` not expired at clock `t` (what `list(db)` leaves behind);
* `dictType L`       : the stored type name of a key of `L` (what `TYPE` compares with);
* `scanPages`        : the list of pages of a complete iteration of the pure `_scan` (`scanAll` = their concatenation).

Results.
1. `scan_event` / `scan_iteration` : SCAN, one request and the complete iteration.
2. `kscan_event` / `sscan_iteration`, `hscan_iteration`, `zscan_iteration`, `kscan_missing`, `kscan_wrongtype`.
3. `scan_errors`, `kscan_errors`: the error replies, and that nothing but lazy expiry happens.
4. `interleaved_miss` (the guarantee "present for the whole iteration ⇒ returned" FAILS, documented deviation),
   `interleaved_guarantee` (what is guaranteed instead).

Two deviations from Redis are visible in the statements (both are faithful to the Python code, see the report):
a cursor that is not an integer is answered with `ERR value is not an integer or out of range`, and an odd number of
option words with `ERR wrong number of arguments for 'scan' command`, because `Signature.apply` rejects the request
before `_scan` could answer `ERR invalid cursor` / `ERR syntax error`.
-/
namespace FR.Props.C15s
open FR FR.M FR.Cmd FR.Spec FR.Proofs FR.ScanSys

/-! ## 1. SCAN -/

/-- **One SCAN request at system level.**  Connection `c` (not inside MULTI, not in subscriber mode, socket open)
sends `SCAN cb opts…` (`nameB` is any spelling of the command name) and nothing else happens.  Then
* exactly one reply is queued for `c`: `scanAnswer` computed on the selected database at the clock reading of the
  request (`scanAnswer` is `_scan` over the byte-wise sorted live keys, with every error path);
* the selected database is purged of its expired entries when the body was reached (`scanReaches`: even number of
  option words and an integer cursor), otherwise it is untouched; no other database changes;
* no model fault, no crash; the connection keeps its database, stays outside MULTI and subscriber mode. -/
theorem scan_event (mode : Mode) (c : Nat) (nameB cb : Bytes) (opts : List Bytes) (s : Sys) (h : Hint)
    (hname : lookupSig nameB = some scanSig) (htx : (s.conn c).tx = none) (hpub : (s.conn c).pubsub = 0)
    (hclosed : (s.conn c).closed = false) :
    let s' := stepEv s (request mode c (nameB :: cb :: opts) h)
    let db : Db := ⟨s.srv.dbs.getD (s.conn c).db [], h.time⟩
    s'.out = [(c, scanAnswer db cb opts)] ∧
    s'.srv.dbs = (if scanReaches cb opts then s.srv.dbs.set (s.conn c).db (Db.purge db).dict else s.srv.dbs) ∧
    s'.srv.time = h.time ∧ s'.fault = none ∧ s'.crashed = none ∧
    (s'.conn c).db = (s.conn c).db ∧ (s'.conn c).tx = none ∧ (s'.conn c).pubsub = 0 ∧
    (s'.conn c).closed = false :=
  FR.ScanSys.scan_event mode c nameB cb opts s h hname htx hpub hclosed

/-- the same for `_process_command` called directly, from any state (no reset of the per-event outputs):
the final state in closed form (`scanStep`) -/
theorem scan_processCommand (mode : Mode) (c : Nat) (nameB cb : Bytes) (opts : List Bytes) (s : Sys)
    (hname : lookupSig nameB = some scanSig) (htx : (s.conn c).tx = none) (hpub : (s.conn c).pubsub = 0) :
    processCommand mode c (nameB :: cb :: opts) s = ((), scanStep s c cb opts) :=
  processCommand_scan mode c nameB cb opts s hname htx hpub

/-- what a well-formed request is answered with: one `scanPage` over the sorted live keys, as the client decodes it -/
theorem scan_reply_is_page (db : Db) (cur : Int) (opts : List Bytes) (o : ScanOpts)
    (hp : parseScanOpts true opts {} = .ok o) (hc : 0 ≤ cur) (hb : cur < 2 ^ 63) :
    decodeScanReply (scanAnswer db (intBytes cur) opts) =
      some ((scanPage (scanKeys db) id (scanType db) cur o).1,
        ((scanPage (scanKeys db) id (scanType db) cur o).2).map .bulk) :=
  scanAnswer_decode db cur opts o hp hc (convInt_intBytes hc hb)

/-- **The complete SCAN iteration.**  State `s` satisfies `Sys.DataInv`; connection `c` has database `d` selected, is
outside MULTI and subscriber mode, its socket is open.  `c` sends `SCAN 0 opts…`, then `SCAN cursor opts…` with the
cursor it got back, and so on until 0 comes back; no other event happens in between.  Request `j` takes the clock
reading `hs[j].time`.

Hypothesis on the clock (`hL`): purging database `d` at any of the readings gives the same dictionary `L` —
equivalently (`stable_iff_same_live_keys`) the list of live keys is the same at every reading: no reading crosses a
deadline of a key that is live at another reading.  `hbound` (fewer than 2^63 live keys) is needed because the cursor
travels as a decimal string that must pass the `Int` converter on the way back.

Then, with `K` the byte-wise sorted list of the live keys (`scan_key_list`):
* cursor 0 comes back (`finished`), after exactly `scanCalls |K| COUNT` requests (`⌈|K| / COUNT⌉`, at least one);
* the pages are those of the pure `_scan` over `K`; concatenated they are exactly the keys of `K` that satisfy the
  MATCH glob and whose stored type is the TYPE argument — in sorted order, each exactly once (`K` has no duplicates);
* database `d` is now `L` (purged, otherwise unchanged, `purgeAt_sub`), all other databases are untouched;
* the invariant of the iteration (`ScanInv`: `DataInv`, the connection as before) holds in the final state. -/
theorem scan_iteration (mode : Mode) (c d : Nat) (nameB : Bytes) (opts : List Bytes) (o : ScanOpts) (L : Dict)
    (hs : List Hint) (s : Sys)
    (hname : lookupSig nameB = some scanSig) (hp : parseScanOpts true opts {} = .ok o)
    (hinv : s.DataInv) (htx : (s.conn c).tx = none) (hpub : (s.conn c).pubsub = 0)
    (hcl : (s.conn c).closed = false) (hdb : (s.conn c).db = d)
    (hL : ∀ h ∈ hs, purgeAt h.time (s.srv.dbs.getD d []) = L)
    (hbound : L.length ≤ 2 ^ 63) (hlen : scanCalls L.length o.count.toNat ≤ hs.length) :
    let K := sortBy bytesLt (L.map Prod.fst)
    let out := iter mode c (scanReq nameB opts) hs 0 s
    out.finished = true ∧
    out.pages = (scanPages K id (dictType L) o (K.length + 1) 0).map (fun p => p.map Reply.bulk) ∧
    out.pages.length = scanCalls L.length o.count.toNat ∧
    out.pages.flatten = (K.filter (matchPredicate id (dictType L) o)).map Reply.bulk ∧
    out.final.srv.dbs = s.srv.dbs.set d L ∧
    ScanInv c d L (hs.drop (scanCalls L.length o.count.toNat)) out.final :=
  FR.ScanSys.scan_iteration mode c d nameB opts o L hs s hname hp hinv htx hpub hcl hdb hL hbound hlen

/-- the list the iteration pages through: a duplicate-free, strictly increasing (byte-wise) list whose members are
exactly the keys that are live at the reading (`Db.live`: stored and not expired); the type the TYPE filter
compares with is the type of the live item -/
theorem scan_key_list (dict : Dict) (t : Int) (nd : NodupKeys dict) :
    let K := sortBy bytesLt ((purgeAt t dict).map Prod.fst)
    K.Nodup ∧ K.Pairwise (fun a b => bytesLt a b = true) ∧
    (∀ k, k ∈ K ↔ (Db.live ⟨dict, t⟩ k).isSome = true) ∧
    (∀ k it, Db.live ⟨dict, t⟩ k = some it → dictType (purgeAt t dict) k = strBytes it.value.ty.name) := by
  intro K
  have hn : ((purgeAt t dict).map Prod.fst).Nodup := Db.purge_nodup (db := ⟨dict, t⟩) nd
  refine ⟨nodup_sortBy _ hn, sortBy_bytes_strict hn, fun k => mem_scanKeys (db := ⟨dict, t⟩), ?_⟩
  intro k it h
  show typeNameOf ⟨(Db.purge ⟨dict, t⟩).dict, 0⟩ k = _
  unfold typeNameOf
  have : (Db.purge ⟨dict, t⟩).dict.lookup k = some it := h
  rw [this]

/-- purging only removes entries: `L` is `dict` without its expired entries, in the same order -/
theorem purgeAt_sub (dict : Dict) (t : Int) : (purgeAt t dict).Sublist dict := List.filter_sublist

/-- the clock hypothesis of `scan_iteration` is exactly "the live key list is the same at both readings" -/
theorem stable_iff_same_live_keys {dict : Dict} (nd : NodupKeys dict) (t t' : Int) :
    purgeAt t dict = purgeAt t' dict ↔ (purgeAt t dict).map Prod.fst = (purgeAt t' dict).map Prod.fst :=
  purgeAt_eq_iff_keys nd t t'

/-- … and it holds in particular when no stored deadline lies between the readings -/
theorem stable_of_no_deadline_crossed (dict : Dict) (t t' : Int)
    (h : ∀ p ∈ dict, ∀ e, p.2.expireat = some e → (e < t ↔ e < t')) : purgeAt t dict = purgeAt t' dict := by
  unfold purgeAt Db.purge
  simp only
  apply List.filter_congr
  intro p hp
  unfold Db.expired
  cases he : p.2.expireat with
  | none => rfl
  | some e =>
    have := h p hp e he
    simp only [Bool.not_eq_eq_eq_not, Bool.not_not]
    by_cases h1 : e < t
    · simp [h1, this.1 h1]
    · have h2 : ¬ e < t' := fun h' => h1 (this.2 h')
      simp [h1, h2]

/-! ### non-vacuity: a concrete iteration -/

def S (x : String) : Bytes := strBytes x
def str (v : String) (e : Option Int := none) : Item := ⟨.str (S v), e⟩

/-- database 1: six keys in insertion order; `ka` expired at 5, `kc` is a set that expires at 100 -/
def dict1 : Dict :=
  [(S "kd", str "4"), (S "kb", str "2"), (S "x", str "9"), (S "ka", str "1" (some 5)), (S "ke", str "5"),
   (S "kc", ⟨.set [S "m"], some 100⟩)]
/-- the same without the expired entry -/
def live1 : Dict :=
  [(S "kd", str "4"), (S "kb", str "2"), (S "x", str "9"), (S "ke", str "5"), (S "kc", ⟨.set [S "m"], some 100⟩)]
def s1 : Sys := { srv := { time := 7, dbs := [[], dict1], conns := [{ id := 1, db := 1 }] } }
def hints3 : List Hint := [⟨10, [], []⟩, ⟨11, [], []⟩, ⟨12, [], []⟩]
def bulkOf : Reply → Option Bytes | .bulk b => some b | _ => none

theorem s1_dataInv : s1.DataInv := by unfold Sys.DataInv NoEmpty; decide +kernel
theorem lookup_SCAN : lookupSig (S "SCAN") = some scanSig := by decide +kernel
theorem parse_count2_match : parseScanOpts true [S "COUNT", S "2", S "match", S "k*"] {} =
    .ok { count := 2, pattern := some (S "k*") } := by with_unfolding_all rfl

/-- the hypotheses of `scan_iteration` hold for `SCAN 0 COUNT 2 MATCH k*` on `s1` with readings 10, 11, 12 … -/
theorem s1_stable : ∀ h ∈ hints3, purgeAt h.time (s1.srv.dbs.getD 1 []) = live1 := by
  intro h hh
  simp only [hints3, List.mem_cons, List.not_mem_nil, or_false] at hh
  rcases hh with rfl | rfl | rfl <;> rfl

example : lookupSig (S "SCAN") = some scanSig ∧ s1.DataInv ∧ (s1.conn 1).tx = none ∧ (s1.conn 1).pubsub = 0 ∧
    (s1.conn 1).closed = false ∧ (s1.conn 1).db = 1 ∧
    (∀ h ∈ hints3, purgeAt h.time (s1.srv.dbs.getD 1 []) = live1) ∧
    scanCalls live1.length 2 = 3 :=
  ⟨lookup_SCAN, s1_dataInv, rfl, rfl, rfl, rfl, s1_stable, by decide⟩

/-- … and the loop really returns `kb kc | kd ke | (x is filtered out)` in three requests and leaves `live1` behind -/
example :
    (iter {} 1 (scanReq (S "SCAN") [S "COUNT", S "2", S "match", S "k*"]) hints3 0 s1).finished = true ∧
    (iter {} 1 (scanReq (S "SCAN") [S "COUNT", S "2", S "match", S "k*"]) hints3 0 s1).pages.map (·.map bulkOf) =
      [[some (S "kb"), some (S "kc")], [some (S "kd"), some (S "ke")], []] ∧
    (iter {} 1 (scanReq (S "SCAN") [S "COUNT", S "2", S "match", S "k*"]) hints3 0 s1).final.srv.dbs.map
      (·.map Prod.fst) = [[], live1.map Prod.fst] := by decide +kernel

/-- the theorem applied to the example -/
example : (iter {} 1 (scanReq (S "SCAN") [S "COUNT", S "2", S "match", S "k*"]) hints3 0 s1).pages.length = 3 :=
  (scan_iteration {} 1 1 (S "SCAN") _ _ live1 hints3 s1 lookup_SCAN parse_count2_match s1_dataInv rfl rfl rfl rfl
    s1_stable (by decide) (by decide)).2.2.1

/-! ## 2. SSCAN / HSCAN / ZSCAN -/

/-- **One SSCAN / HSCAN / ZSCAN request at system level** (`K` is `sscanK`, `hscanK` or `zscanK`; `K.Ok` is proved
for the three: `sscanK_ok`, `hscanK_ok`, `zscanK_ok`).  The reply is `kscanAnswer` on the item found under the key
in the selected database at the clock reading of the request (`none`: missing or expired); the only possible change
of any database is the lazy deletion of that key when it is stored but expired (`(db.get key).1`), and only when the
request got as far as the key look-up; nobody is notified, no fault, no crash. -/
theorem kscan_event (K : KScan) (hK : K.Ok) (mode : Mode) (c : Nat) (nameB key cb : Bytes) (opts : List Bytes)
    (s : Sys) (h : Hint)
    (hname : lookupSig nameB = some K.sig) (htx : (s.conn c).tx = none) (hpub : (s.conn c).pubsub = 0)
    (hclosed : (s.conn c).closed = false) :
    let s' := stepEv s (request mode c (nameB :: key :: cb :: opts) h)
    let db : Db := ⟨s.srv.dbs.getD (s.conn c).db [], h.time⟩
    s'.out = [(c, kscanAnswer K s.srv.version (db.get key).2 key cb opts)] ∧
    s'.srv.dbs = (if scanReaches cb opts then s.srv.dbs.set (s.conn c).db (db.get key).1.dict else s.srv.dbs) ∧
    s'.srv.time = h.time ∧ s'.srv.version = s.srv.version ∧ s'.fault = none ∧ s'.crashed = none ∧
    (s'.conn c).db = (s.conn c).db ∧ (s'.conn c).tx = none ∧ (s'.conn c).pubsub = 0 ∧
    (s'.conn c).closed = false :=
  FR.ScanSys.kscan_event K hK mode c nameB key cb opts s h hname htx hpub hclosed

/-- the three variants through the pure runner `runRegular` (for any database, no invariant needed) -/
theorem kscan_runRegular (K : KScan) (hK : K.Ok) (ctx : Ctx) (key cb : Bytes) (opts : List Bytes) (db : Db) :
    (runRegular K.sig K.body ctx none (key :: cb :: opts) db).db =
      (if scanReaches cb opts then (db.get key).1 else db) ∧
    (runRegular K.sig K.body ctx none (key :: cb :: opts) db).reply =
      kscanAnswer K ctx.version (db.get key).2 key cb opts ∧
    (runRegular K.sig K.body ctx none (key :: cb :: opts) db).notified = [] ∧
    (runRegular K.sig K.body ctx none (key :: cb :: opts) db).picksUsed = 0 ∧
    (runRegular K.sig K.body ctx none (key :: cb :: opts) db).fault = none :=
  runRegular_kscan K hK ctx key cb opts db

theorem kscan_processCommand (K : KScan) (hK : K.Ok) (mode : Mode) (c : Nat) (nameB key cb : Bytes)
    (opts : List Bytes) (s : Sys)
    (hname : lookupSig nameB = some K.sig) (htx : (s.conn c).tx = none) (hpub : (s.conn c).pubsub = 0) :
    processCommand mode c (nameB :: key :: cb :: opts) s = ((), kscanStep K s c key cb opts) :=
  processCommand_kscan K hK mode c nameB key cb opts s hname htx hpub

/-- **The complete iteration, generic form.**  The key holds the item `it` of the right type in database `d`, and
its deadline (if any) is not before any of the clock readings (`LiveAt`).  Then cursor 0 comes back after
`scanCalls |E| COUNT` requests, the pages are those of the pure `_scan` over the element list `E` of the variant,
concatenated they are the rendering of the elements of `E` whose MATCH key passes the glob, in the order of `E`;
all databases are literally unchanged. -/
theorem kscan_iteration (K : KScan) (hK : K.Ok) (mode : Mode) (c d : Nat) (nameB key : Bytes) (opts : List Bytes)
    (o : ScanOpts) (it : Item) (hs : List Hint) (s : Sys)
    (hname : lookupSig nameB = some K.sig) (hp : parseScanOpts false opts {} = .ok o)
    (htx : (s.conn c).tx = none) (hpub : (s.conn c).pubsub = 0)
    (hcl : (s.conn c).closed = false) (hdb : (s.conn c).db = d)
    (hlook : (s.srv.dbs.getD d []).lookup key = some it) (hty : it.value.ty = K.T)
    (hlive : ∀ h ∈ hs, LiveAt it h.time)
    (hbound : (K.elems (ciFor K.T key (some it))).length ≤ 2 ^ 63)
    (hlen : scanCalls (K.elems (ciFor K.T key (some it))).length o.count.toNat ≤ hs.length) :
    let ci := ciFor K.T key (some it)
    let E := K.elems ci
    let out := iter mode c (kscanReq nameB key opts) hs 0 s
    out.finished = true ∧
    out.pages = (scanPages E K.keyOf (fun _ => []) o (E.length + 1) 0).map (K.render s.srv.version ci) ∧
    out.pages.length = scanCalls E.length o.count.toNat ∧
    out.pages.flatten = K.render s.srv.version ci (E.filter (matchPredicate K.keyOf (fun _ => []) o)) ∧
    out.final.srv.dbs = s.srv.dbs ∧
    KInv c d key it s.srv.version s.srv.dbs (hs.drop (scanCalls E.length o.count.toNat)) out.final :=
  FR.ScanSys.kscan_iteration K hK mode c d nameB key opts o it hs s hname hp htx hpub hcl hdb hlook hty hlive
    hbound hlen

/-- the MATCH filter of the keyed variants looks at the member / field only (there is no TYPE) -/
theorem kscan_filter {α : Type} (keyOf : α → Bytes) (o : ScanOpts) (ht : o.ty = none) (x : α) :
    matchPredicate keyOf (fun _ => []) o x =
      (match o.pattern with | some p => Glob.globMatch p (keyOf x) | none => true) := by
  unfold matchPredicate
  rw [ht]
  cases o.pattern <;> simp

/-- TYPE is not an option of the keyed variants, so the parsed options never carry one -/
theorem kscan_no_type : ∀ (opts : List Bytes) (o0 o : ScanOpts), parseScanOpts false opts o0 = .ok o →
    o0.ty = none → o.ty = none
  | [], o0, o, h, h0 => by simp only [parseScanOpts, Except.ok.injEq] at h; subst h; exact h0
  | [_], o0, o, h, h0 => by simp [parseScanOpts] at h
  | a :: v :: rest, o0, o, h, h0 => by
    rw [parseScanOpts] at h
    split at h
    · exact kscan_no_type rest _ o h h0
    · split at h
      · split at h
        · cases h
        · split at h
          · cases h
          · exact kscan_no_type rest _ o h h0
      · split at h
        · rename_i hc; simp at hc
        · cases h

/-- **SSCAN**: the pages concatenate to the members of the set, sorted byte-wise, filtered by MATCH;
each exactly once when the stored set has no duplicate. -/
theorem sscan_iteration (mode : Mode) (c d : Nat) (nameB key : Bytes) (opts : List Bytes) (o : ScanOpts)
    (members : List Bytes) (e : Option Int) (hs : List Hint) (s : Sys)
    (hname : lookupSig nameB = some sscanK.sig) (hp : parseScanOpts false opts {} = .ok o)
    (htx : (s.conn c).tx = none) (hpub : (s.conn c).pubsub = 0)
    (hcl : (s.conn c).closed = false) (hdb : (s.conn c).db = d)
    (hlook : (s.srv.dbs.getD d []).lookup key = some ⟨.set members, e⟩)
    (hlive : ∀ h ∈ hs, LiveAt ⟨.set members, e⟩ h.time)
    (hbound : members.length ≤ 2 ^ 63) (hlen : scanCalls members.length o.count.toNat ≤ hs.length) :
    let out := iter mode c (kscanReq nameB key opts) hs 0 s
    out.finished = true ∧ out.pages.length = scanCalls members.length o.count.toNat ∧
    out.pages.flatten =
      ((sortBy bytesLt members).filter (matchPredicate id (fun _ => []) o)).map Reply.bulk ∧
    out.final.srv.dbs = s.srv.dbs ∧
    (members.Nodup → (sortBy bytesLt members).Pairwise (fun a b => bytesLt a b = true)) := by
  have hl : (sortBy bytesLt members).length = members.length := length_sortBy _ _
  have := kscan_iteration sscanK sscanK_ok mode c d nameB key opts o ⟨.set members, e⟩ hs s hname hp htx hpub hcl
    hdb hlook rfl hlive (by show (sortBy bytesLt members).length ≤ _; rw [hl]; exact hbound)
    (by show scanCalls (sortBy bytesLt members).length _ ≤ _; rw [hl]; exact hlen)
  simp only at this
  obtain ⟨h1, _, h3, h4, h5, _⟩ := this
  refine ⟨h1, ?_, h4, h5, sortBy_bytes_strict⟩
  rw [h3]; show scanCalls (sortBy bytesLt members).length _ = _; rw [hl]

/-- **HSCAN**: the pages concatenate to `field, value, field, value, …` over the fields sorted byte-wise and
filtered by MATCH on the field; the value is the one stored under the field. -/
theorem hscan_iteration (mode : Mode) (c d : Nat) (nameB key : Bytes) (opts : List Bytes) (o : ScanOpts)
    (h : List (Bytes × Bytes)) (e : Option Int) (hs : List Hint) (s : Sys)
    (hname : lookupSig nameB = some hscanK.sig) (hp : parseScanOpts false opts {} = .ok o)
    (htx : (s.conn c).tx = none) (hpub : (s.conn c).pubsub = 0)
    (hcl : (s.conn c).closed = false) (hdb : (s.conn c).db = d)
    (hlook : (s.srv.dbs.getD d []).lookup key = some ⟨.hash h, e⟩)
    (hlive : ∀ x ∈ hs, LiveAt ⟨.hash h, e⟩ x.time)
    (hbound : h.length ≤ 2 ^ 63) (hlen : scanCalls h.length o.count.toNat ≤ hs.length) :
    let out := iter mode c (kscanReq nameB key opts) hs 0 s
    out.finished = true ∧ out.pages.length = scanCalls h.length o.count.toNat ∧
    out.pages.flatten =
      ((sortBy bytesLt (h.map Prod.fst)).filter (matchPredicate id (fun _ => []) o)).flatMap
        (fun f => [Reply.bulk f, Reply.bulk ((h.lookup f).getD [])]) ∧
    out.final.srv.dbs = s.srv.dbs ∧
    ((h.map Prod.fst).Nodup → (sortBy bytesLt (h.map Prod.fst)).Pairwise (fun a b => bytesLt a b = true)) := by
  have hl : (sortBy bytesLt (h.map Prod.fst)).length = h.length := by rw [length_sortBy, List.length_map]
  have := kscan_iteration hscanK hscanK_ok mode c d nameB key opts o ⟨.hash h, e⟩ hs s hname hp htx hpub hcl
    hdb hlook rfl hlive (by show (sortBy bytesLt (h.map Prod.fst)).length ≤ _; rw [hl]; exact hbound)
    (by show scanCalls (sortBy bytesLt (h.map Prod.fst)).length _ ≤ _; rw [hl]; exact hlen)
  simp only at this
  obtain ⟨h1, _, h3, h4, h5, _⟩ := this
  refine ⟨h1, ?_, h4, h5, sortBy_bytes_strict⟩
  rw [h3]; show scanCalls (sortBy bytesLt (h.map Prod.fst)).length _ = _; rw [hl]

/-- **ZSCAN**: the order the model defines is BY MEMBER (byte-wise), not by score: the pages concatenate to
`member, score, member, score, …` over the `(member, score)` pairs sorted by member and filtered by MATCH on the
member; the score is rendered by `encodeFloat` for the emulated version. -/
theorem zscan_iteration (mode : Mode) (c d : Nat) (nameB key : Bytes) (opts : List Bytes) (o : ScanOpts)
    (z : ZSet) (e : Option Int) (hs : List Hint) (s : Sys)
    (hname : lookupSig nameB = some zscanK.sig) (hp : parseScanOpts false opts {} = .ok o)
    (htx : (s.conn c).tx = none) (hpub : (s.conn c).pubsub = 0)
    (hcl : (s.conn c).closed = false) (hdb : (s.conn c).db = d)
    (hlook : (s.srv.dbs.getD d []).lookup key = some ⟨.zset z, e⟩)
    (hlive : ∀ x ∈ hs, LiveAt ⟨.zset z, e⟩ x.time)
    (hbound : z.bylex.length ≤ 2 ^ 63) (hlen : scanCalls z.bylex.length o.count.toNat ≤ hs.length) :
    let E := sortBy (fun (a b : Bytes × Dbl) => bytesLt a.1 b.1) z.bylex
    let out := iter mode c (kscanReq nameB key opts) hs 0 s
    out.finished = true ∧ out.pages.length = scanCalls z.bylex.length o.count.toNat ∧
    out.pages.flatten =
      (E.filter (matchPredicate Prod.fst (fun _ => []) o)).flatMap
        (fun x => [Reply.bulk x.1, Reply.bulk (encodeFloat s.srv.version x.2 false)]) ∧
    out.final.srv.dbs = s.srv.dbs ∧ E.Perm z.bylex ∧
    ((z.bylex.map Prod.fst).Nodup → E.Pairwise (fun a b => bytesLt a.1 b.1 = true)) := by
  intro E
  have hl : E.length = z.bylex.length := length_sortBy _ _
  have := kscan_iteration zscanK zscanK_ok mode c d nameB key opts o ⟨.zset z, e⟩ hs s hname hp htx hpub hcl
    hdb hlook rfl hlive (by show E.length ≤ _; rw [hl]; exact hbound)
    (by show scanCalls E.length _ ≤ _; rw [hl]; exact hlen)
  simp only at this
  obtain ⟨h1, _, h3, h4, h5, _⟩ := this
  refine ⟨h1, ?_, h4, h5, sortBy_perm _ _, sortBy_key_strict Prod.fst⟩
  rw [h3]; show scanCalls E.length _ = _; rw [hl]

/-- **A missing (or expired) key** is scanned as an empty collection: `[0, []]`, for any cursor ≥ 0 and any valid
options. -/
theorem kscan_missing (K : KScan) (hK : K.Ok) (v : Nat) (key cb : Bytes) (opts : List Bytes) (cur : Int)
    (heven : opts.length % 2 = 0) (hint : Conv.int cb = .ok cur) (hc : 0 ≤ cur)
    (hok : allPairsOk false opts = true) :
    kscanAnswer K v none key cb opts = .arr [.bulk (intBytes 0), .arr []] :=
  kscanAnswer_missing K hK v key cb opts cur heven hint hc hok

/-- **A key of another type** is refused with WRONGTYPE (once the cursor has passed the `Int` converter). -/
theorem kscan_wrongtype (K : KScan) (v : Nat) (it : Item) (hty : it.value.ty ≠ K.T) (key cb : Bytes)
    (opts : List Bytes) (cur : Int) (heven : opts.length % 2 = 0) (hint : Conv.int cb = .ok cur) :
    kscanAnswer K v (some it) key cb opts = .err (strBytes Msgs.WRONGTYPE_MSG) :=
  kscanAnswer_wrongtype K v it hty key cb opts cur heven hint

/-- what "found under the key" means: with unique keys, `(db.get key).2` is the live entry -/
theorem kscan_item_is_live {db : Db} (nd : NodupKeys db.dict) (key : Bytes) : (db.get key).2 = db.live key :=
  get_snd_eq_live nd key

/-! ### non-vacuity -/

def dictH : Dict :=
  [(S "h", ⟨.hash [(S "fb", S "2"), (S "fa", S "1"), (S "g", S "3")], none⟩), (S "s", ⟨.set [S "m2", S "m1"], none⟩),
   (S "z", ⟨.zset ((ZSet.empty.add (S "b") Dbl.one).1.add (S "a") (Dbl.ofInt 2)).1, none⟩)]
def s2 : Sys := { srv := { time := 7, dbs := [dictH], conns := [{ id := 1 }] } }

theorem lookup_HSCAN : lookupSig (S "HSCAN") = some hscanK.sig := by decide +kernel
theorem lookup_SSCAN : lookupSig (S "sscan") = some sscanK.sig := by decide +kernel
theorem lookup_ZSCAN : lookupSig (S "ZScan") = some zscanK.sig := by decide +kernel
theorem parse_count2 : parseScanOpts false [S "COUNT", S "2"] {} = .ok { count := 2 } := by with_unfolding_all rfl

/-- HSCAN h 0 COUNT 2, then HSCAN h 2 COUNT 2: `fa 1 fb 2 | g 3` -/
example :
    (iter {} 1 (kscanReq (S "HSCAN") (S "h") [S "COUNT", S "2"]) hints3 0 s2).finished = true ∧
    (iter {} 1 (kscanReq (S "HSCAN") (S "h") [S "COUNT", S "2"]) hints3 0 s2).pages.map (·.map bulkOf) =
      [[some (S "fa"), some (S "1"), some (S "fb"), some (S "2")], [some (S "g"), some (S "3")]] := by
  decide +kernel

example : (iter {} 1 (kscanReq (S "HSCAN") (S "h") [S "COUNT", S "2"]) hints3 0 s2).pages.length = 2 :=
  (hscan_iteration {} 1 0 (S "HSCAN") (S "h") _ _ [(S "fb", S "2"), (S "fa", S "1"), (S "g", S "3")] none hints3 s2
    lookup_HSCAN parse_count2 rfl rfl rfl rfl (by with_unfolding_all rfl) (fun _ _ _ h => by cases h) (by decide) (by decide)).2.1

/-- SSCAN of a set, of a missing key, of a key of another type; ZSCAN is ordered by member -/
example :
    ((iter {} 1 (kscanReq (S "sscan") (S "s") []) hints3 0 s2).pages.map (·.map bulkOf) =
      [[some (S "m1"), some (S "m2")]]) ∧
    ((iter {} 1 (kscanReq (S "sscan") (S "nokey") []) hints3 0 s2).pages.map (·.map bulkOf) = [[]]) ∧
    ((stepEv s2 (request {} 1 (kscanReq (S "sscan") (S "h") [] 0) ⟨10, [], []⟩)).out.map
        (fun p => p.2.isErr) = [true]) ∧
    ((iter {} 1 (kscanReq (S "ZScan") (S "z") []) hints3 0 s2).pages.map (·.map bulkOf) =
      [[some (S "a"), some (S "2"), some (S "b"), some (S "1")]]) := by decide +kernel

/-! ## 3. Errors at command level -/

/-- **SCAN: the error replies** (`D` is the selected database at the clock reading; by `scan_event` the state
changes by the purge of that database at most, and not at all in the first two cases).
1. an odd number of option words: `ERR wrong number of arguments for 'scan' command` (raised by `Signature.apply`);
2. a cursor that is not a canonical 64-bit integer: `ERR value is not an integer or out of range`;
3. a negative cursor: `ERR invalid cursor`;
4. the first bad option pair (unknown option, `COUNT` ≤ 0 or not an integer) decides: `optPairErr`
   (`ERR syntax error`, or the `Int` converter's message for a non-integer COUNT, see `C15.scan_bad_pair`);
5. there is no other error. -/
theorem scan_errors (D : Db) (cb : Bytes) (opts : List Bytes) :
    (opts.length % 2 = 1 → scanAnswer D cb opts = .err (strBytes (Msgs.fmt1 Msgs.WRONG_ARGS_MSG "scan")) ∧
      scanReaches cb opts = false) ∧
    (opts.length % 2 = 0 → ∀ e, Conv.int cb = .error e →
      scanAnswer D cb opts = .err (strBytes Msgs.INVALID_INT_MSG) ∧ scanReaches cb opts = false) ∧
    (opts.length % 2 = 0 → ∀ cur, Conv.int cb = .ok cur → cur < 0 →
      scanAnswer D cb opts = .err (strBytes Msgs.INVALID_CURSOR_MSG)) ∧
    (opts.length % 2 = 0 → ∀ cur, Conv.int cb = .ok cur → 0 ≤ cur →
      ∀ pre a v rest, opts = pre ++ a :: v :: rest → rest.length % 2 = 0 → pre.length % 2 = 0 →
        allPairsOk true pre = true → optPairOk true a v = false →
        scanAnswer D cb opts = .err (strBytes (optPairErr a v))) ∧
    ((scanAnswer D cb opts).isErr = true ↔
      (opts.length % 2 = 1 ∨ (∃ e, Conv.int cb = .error e) ∨
        ∃ cur, Conv.int cb = .ok cur ∧ (cur < 0 ∨ allPairsOk true opts = false))) := by
  rw [scanAnswer_eq]
  refine ⟨fun h => ?_, fun h e he => ?_, fun h cur hc hneg => ?_, fun h cur hc hpos pre a v rest e hr hp hok hbad => ?_, ?_⟩
  · have h0 : ¬ opts.length % 2 = 0 := by omega
    rw [if_pos h]; exact ⟨rfl, by simp [scanReaches, h0]⟩
  · rw [if_neg (by omega), he, convInt_error he]; exact ⟨rfl, by simp [scanReaches, he]⟩
  · rw [if_neg (by omega), hc]
    exact (replyOf_errors _ _ _ _ _ _ _).1 hneg
  · rw [if_neg (by omega), hc]
    exact (replyOf_errors _ _ _ _ _ _ _).2 pre a v rest e hpos hr hp hok hbad
  · by_cases hodd : opts.length % 2 = 1
    · rw [if_pos hodd]; simp [Reply.isErr, hodd]
    · rw [if_neg hodd]
      cases hc : Conv.int cb with
      | error e => simp [Reply.isErr, hodd]
      | ok cur =>
        simp only [scanResult, replyOf_isErr, hodd, false_or, reduceCtorEq, exists_false, Except.ok.injEq,
          exists_eq_left']

/-- **SSCAN / HSCAN / ZSCAN: the error replies**; as for SCAN, plus WRONGTYPE, and `TYPE` is not an option
(it is an unknown option: `ERR syntax error`, case 4 with `a = TYPE`, see `type_not_allowed`).  The order of the
checks: arity, cursor conversion, type of the key, then `_scan`'s own checks. -/
theorem kscan_errors (K : KScan) (v : Nat) (item : Option Item) (key cb : Bytes) (opts : List Bytes) :
    (opts.length % 2 = 1 → kscanAnswer K v item key cb opts = .err (strBytes (Msgs.fmt1 Msgs.WRONG_ARGS_MSG K.name))) ∧
    (opts.length % 2 = 0 → ∀ e, Conv.int cb = .error e →
      kscanAnswer K v item key cb opts = .err (strBytes Msgs.INVALID_INT_MSG)) ∧
    (opts.length % 2 = 0 → ∀ cur, Conv.int cb = .ok cur → ∀ it, item = some it → it.value.ty ≠ K.T →
      kscanAnswer K v item key cb opts = .err (strBytes Msgs.WRONGTYPE_MSG)) ∧
    (opts.length % 2 = 0 → ∀ cur, Conv.int cb = .ok cur → (∀ it, item = some it → it.value.ty = K.T) → cur < 0 →
      kscanAnswer K v item key cb opts = .err (strBytes Msgs.INVALID_CURSOR_MSG)) ∧
    (opts.length % 2 = 0 → ∀ cur, Conv.int cb = .ok cur → (∀ it, item = some it → it.value.ty = K.T) → 0 ≤ cur →
      ∀ pre a v' rest, opts = pre ++ a :: v' :: rest → rest.length % 2 = 0 → pre.length % 2 = 0 →
        allPairsOk false pre = true → optPairOk false a v' = false →
        kscanAnswer K v item key cb opts = .err (strBytes (optPairErr a v'))) := by
  rw [kscanAnswer_eq]
  refine ⟨fun h => ?_, fun h e he => ?_, fun h cur hc it hi hty => ?_, fun h cur hc hty hneg => ?_,
    fun h cur hc hty hpos pre a v' rest e hr hp hok hbad => ?_⟩
  · rw [if_pos h]; rfl
  · rw [if_neg (by omega), he, convInt_error he]
  · rw [if_neg (by omega), hc, hi]
    have : (it.value.ty != K.T) = true := by simp [hty]
    simp only [this, if_true]
  · rw [if_neg (by omega), hc]
    cases item with
    | none =>
      simp only [Bool.false_eq_true, if_false]
      exact (replyOf_errors _ _ _ _ _ _ _).1 hneg
    | some it =>
      simp only [hty it rfl, bne_self_eq_false, Bool.false_eq_true, if_false]
      exact (replyOf_errors _ _ _ _ _ _ _).1 hneg
  · rw [if_neg (by omega), hc]
    cases item with
    | none =>
      simp only [Bool.false_eq_true, if_false]
      exact (replyOf_errors _ _ _ _ _ _ _).2 pre a v' rest e hpos hr hp hok hbad
    | some it =>
      simp only [hty it rfl, bne_self_eq_false, Bool.false_eq_true, if_false]
      exact (replyOf_errors _ _ _ _ _ _ _).2 pre a v' rest e hpos hr hp hok hbad

/-- `TYPE x` is a bad option pair for the keyed variants (and a good one for SCAN) -/
theorem type_not_allowed (a v : Bytes) (h : casematch a "type" = true) :
    optPairOk false a v = false ∧ optPairErr a v = Msgs.SYNTAX_ERROR_MSG ∧ optPairOk true a v = true := by
  have h1 : casematch a "match" = false := by
    unfold casematch at h ⊢
    have : casenorm a = strBytes "type" := by simpa using h
    rw [this]; decide +kernel
  have h2 : casematch a "count" = false := by
    unfold casematch at h ⊢
    have : casenorm a = strBytes "type" := by simpa using h
    rw [this]; decide +kernel
  simp [optPairOk, optPairErr, h, h1, h2]

/-- the error paths change nothing but lazy expiry: this is `scan_event` / `kscan_event` (second component);
in particular a request refused for its arity or its cursor leaves every database literally unchanged -/
theorem scan_refused_unchanged (mode : Mode) (c : Nat) (nameB cb : Bytes) (opts : List Bytes) (s : Sys) (h : Hint)
    (hname : lookupSig nameB = some scanSig) (htx : (s.conn c).tx = none) (hpub : (s.conn c).pubsub = 0)
    (hclosed : (s.conn c).closed = false) (hr : scanReaches cb opts = false) :
    (stepEv s (request mode c (nameB :: cb :: opts) h)).srv.dbs = s.srv.dbs := by
  have := (scan_event mode c nameB cb opts s h hname htx hpub hclosed).2.1
  simp only [hr, Bool.false_eq_true, if_false] at this
  exact this

/-- the error message(s) connection 1 receives for the request `fields` sent in state `s1` -/
def errOf (fields : List Bytes) : List (Option Bytes) :=
  (stepEv s1 (request {} 1 fields ⟨10, [], []⟩)).out.map fun p => match p.2 with | .err m => some m | _ => none

/-- non-vacuity: the kinds of malformed requests, run through the server -/
example :
    (errOf [S "SCAN", S "0", S "COUNT"]).map Option.isSome = [true] ∧
    errOf [S "SCAN", S "x"] = [some (S "ERR value is not an integer or out of range")] ∧
    errOf [S "SCAN", S "-1"] = [some (S "ERR invalid cursor")] ∧
    errOf [S "SCAN", S "0", S "COUNT", S "0"] = [some (S "ERR syntax error")] ∧
    errOf [S "SCAN", S "0", S "COUNT", S "x"] = [some (S "ERR value is not an integer or out of range")] ∧
    errOf [S "SCAN", S "0", S "FOO", S "1"] = [some (S "ERR syntax error")] ∧
    errOf [S "SSCAN", S "kc", S "0", S "TYPE", S "set"] = [some (S "ERR syntax error")] ∧
    errOf [S "HSCAN", S "kc", S "0"] =
      [some (S "WRONGTYPE Operation against a key holding the wrong kind of value")] := by decide +kernel

/-! ## 4. Interleaved writes -/

/-- the history of the counter-example: three keys, `SCAN 0 COUNT 2`, `DEL a`, `SCAN 2 COUNT 2` -/
def missHistory : List Ev := [
  .open 1,
  .request {} 1 [S "SET", S "a", S "x"] [1] [],
  .request {} 1 [S "SET", S "b", S "x"] [2] [],
  .request {} 1 [S "SET", S "c", S "x"] [3] [],
  .request {} 1 [S "SCAN", S "0", S "COUNT", S "2"] [4] [],
  .request {} 1 [S "DEL", S "a"] [5] [],
  .request {} 1 [S "SCAN", S "2", S "COUNT", S "2"] [6] []]

/-- the replies of every event of a history, from the initial state -/
def replies (evs : List Ev) : List (List (Nat × Reply)) :=
  (evs.foldl (fun (p : Sys × List (List (Nat × Reply))) e => (stepEv p.1 e, p.2 ++ [(stepEv p.1 e).out])) ({}, [])).2

/-- the states before every event of a history, from the initial state -/
def statesBefore (evs : List Ev) : List Sys :=
  (evs.foldl (fun (p : Sys × List Sys) e => (stepEv p.1 e, p.2 ++ [p.1])) ({}, [])).2

def isLive (s : Sys) (k : Bytes) : Bool := ((s.srv.dbs.getD 0 []).lookup k).isSome

/-- a reply as a token list (for decidable comparison): bulk strings and integers as bytes, arrays bracketed -/
def toks : Reply → List Bytes
  | .bulk b => [b]
  | .int n => [intBytes n]
  | .arr [a, .arr page] => toks a ++ [S "["] ++ page.map (fun r => match r with | .bulk b => b | _ => S "?") ++ [S "]"]
  | _ => [S "?"]

/-- **The guarantee "a key present during the whole iteration is returned at least once" FAILS** for this cursor
scheme, as the docstring of `_scan` says.  Witness: keys `a b c`; `SCAN 0 COUNT 2` returns `a b` and cursor 2;
`DEL a` (a key other than `c`, smaller than `c`); `SCAN 2 COUNT 2` returns nothing and cursor 0.  The key `c` is live
before and after every one of these events and matches (no filter), yet it is on no page. -/
theorem interleaved_miss :
    ((replies missHistory).drop 4).map (·.map fun p => (p.1, toks p.2)) =
      [[(1, [S "2", S "[", S "a", S "b", S "]"])], [(1, [S "1"])], [(1, [S "0", S "[", S "]"])]] ∧
    ((statesBefore missHistory).drop 4).map (isLive · (S "c")) = [true, true, true] ∧
    isLive (missHistory.foldl stepEv {}) (S "c") = true ∧
    (missHistory.foldl stepEv {}).fault = none := by
  refine ⟨by decide +kernel, by decide +kernel, by decide +kernel, by decide +kernel⟩

/-- **What IS guaranteed.**  Connection `c` runs a SCAN dialogue (`sysDialogue`: call `j` is made with the cursor
returned by call `j-1`, from an ARBITRARY pre-state `calls[j].1` — whatever events happened in between).  If at
every call the connection is fit for SCAN, the pre-state satisfies `Sys.DataInv`, `k` is a live key of the selected
database at the clock reading of the call and passes MATCH and TYPE, and the number of live keys smaller than `k`
(`liveRank`) never decreases from a call to a later call, then a dialogue that reaches cursor 0 has returned `k` at
least once.  (Additions anywhere and removals of keys greater than `k` are harmless; only the removal of a smaller
key can make the scan miss `k`, as in `interleaved_miss`.) -/
theorem interleaved_guarantee (mode : Mode) (c : Nat) (nameB : Bytes) (opts : List Bytes) (o : ScanOpts) (k : Bytes)
    (hname : lookupSig nameB = some scanSig) (hp : parseScanOpts true opts {} = .ok o)
    (calls : List (Sys × Hint))
    (hok : ∀ p ∈ calls, CallOk c p) (hinv : ∀ p ∈ calls, p.1.DataInv)
    (hlive : ∀ p ∈ calls, ((callDb c p).live k).isSome = true)
    (hmatch : ∀ p ∈ calls, matchPredicate id (scanType (callDb c p)) o k = true)
    (hrank : calls.Pairwise (fun a b => liveRank k (callDb c a) ≤ liveRank k (callDb c b)))
    (hfin : ((sysDialogue mode c nameB opts calls 0).getLast?).map Prod.fst = some 0) :
    ∃ p ∈ sysDialogue mode c nameB opts calls 0, Reply.bulk k ∈ p.2 :=
  sys_cover mode c nameB opts o k hname hp calls hok hinv hlive hmatch hrank hfin

/-- the rank hypothesis in the words of the task: if no live key smaller than `k` disappears between two moments,
the rank of `k` does not decrease -/
theorem rank_mono_if_no_smaller_key_removed {k : Bytes} {a b : Db} (nd : NodupKeys a.dict)
    (h : ∀ x, bytesLt x k = true → (a.live x).isSome = true → (b.live x).isSome = true) :
    liveRank k a ≤ liveRank k b :=
  liveRank_mono nd h

/-- the dialogue over arbitrary pre-states is the pure cursor dialogue over what each call sees -/
theorem dialogue_is_pure (mode : Mode) (c : Nat) (nameB : Bytes) (opts : List Bytes) (o : ScanOpts)
    (hname : lookupSig nameB = some scanSig) (hp : parseScanOpts true opts {} = .ok o)
    (calls : List (Sys × Hint)) (hok : ∀ p ∈ calls, CallOk c p) :
    sysDialogue mode c nameB opts calls 0 =
      (pureDialogue o (calls.map (viewOf c)) 0).map (fun q => (q.1, q.2.map Reply.bulk)) :=
  sysDialogue_eq mode c nameB opts o hname hp calls 0 (by omega) (by omega) hok

/-- the pure core of the guarantee -/
theorem pure_guarantee (o : ScanOpts) (hc : 0 < o.count) (k : Bytes) (vs : List View)
    (hsort : ∀ v ∈ vs, v.keys.Pairwise (fun a b => bytesLt a b = true))
    (hmem : ∀ v ∈ vs, k ∈ v.keys) (hmatch : ∀ v ∈ vs, matchPredicate id v.ty o k = true)
    (hrank : vs.Pairwise (fun a b => rank k a.keys ≤ rank k b.keys))
    (hfin : ((pureDialogue o vs 0).getLast?).map Prod.fst = some 0) :
    ∃ p ∈ pureDialogue o vs 0, k ∈ p.2 :=
  cover_from o hc k vs 0 hsort hmem hmatch hrank (fun _ _ => Nat.zero_le _) hfin

/-- non-vacuity of `interleaved_guarantee`: the same three keys, but the key removed in between is GREATER than the
key we watch (`b`; `c` is deleted): the hypotheses hold (ranks 1, 1) and `b` is returned -/
def keepCalls : List (Sys × Hint) :=
  let s := (missHistory.take 4).foldl stepEv {}
  let s' := stepEv (stepEv s (.request {} 1 [S "SCAN", S "0", S "COUNT", S "1"] [4] []))
    (.request {} 1 [S "DEL", S "c"] [5] [])
  [(s, ⟨4, [], []⟩), (s', ⟨6, [], []⟩)]

example : keepCalls.map (fun p => liveRank (S "b") (callDb 1 p)) = [1, 1] ∧
    keepCalls.map (fun p => ((callDb 1 p).live (S "b")).isSome) = [true, true] ∧
    (sysDialogue {} 1 (S "SCAN") [S "COUNT", S "1"] keepCalls 0).map (fun p => (p.1, p.2.map bulkOf)) =
      [(1, [some (S "a")]), (0, [some (S "b")])] := by decide +kernel

end FR.Props.C15s
