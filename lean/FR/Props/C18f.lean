import FR.Proofs.C18fReparse
import FR.Proofs.C18fRun
import FR.Props.C18
/-!
# C18 (floating point) — the float argument grammar, the decoded value, the flags, INCRBYFLOAT, ZADD/ZSCORE

Vocabulary (definitions in `FR/Proofs/C18fGrammar.lean`, all independent of the model's parser):
* `DecLit` — the parse tree of a decimal literal: `sign : Sgn` (none / `+` / `-`), `ip` (integer digits), `frac`
  (`some fp` iff a `.` is written), `exp : Option ExpPart` (`letter`, `sign`, `digits`);
  `L.render` — its bytes, nothing before, between or after the parts;
  `L.Valid` — the C grammar: `digits [. digits*] | . digits`, optionally followed by `[eE][+-]?digits`;
* `InfWord w` — `w` is `inf` or `infinity` in any ASCII case;
* `StrtodDecimal s` — THE GRAMMAR: `s` is the rendering of a valid parse tree, or an optional sign and an `InfWord`
  (`strtodDecimal_iff_CGrammar` spells it as a direct transcription of the C grammar on bytes);
* `L.mant` — all mantissa digits read as one natural number (`decNat`, positional), `L.expo` the written exponent,
  `L.exp10 = L.expo − #fraction digits`, `L.rat = ± L.mant · 10^L.exp10 : Rat` the number the literal DENOTES
  (`= mkRat (± L.ratNum) L.ratDen`);
* `modelVal L` — what the model computes: `Dbl.ofDecimal` of the mantissa and the SATURATED exponent `expoC L`
  (the model clamps a written exponent above one million to one million, `clampE`);
* `roundAbs neg q` — `Dbl.roundPos` applied to `|q|` in lowest terms: round-to-nearest-even with sign bit `neg`
  (`roundPos_scale`: the result depends on the rational only; `rm_spec`, `roundPos_isInf_iff`, `roundPos_isZero_iff`,
  `roundPos_exact_canon` say what rounding means);
* `ovf = 2^1024 − 2^970` — from there on a magnitude rounds to infinity; `2^-1075` — up to there it rounds to zero;
* `NoClamp L` — the written exponent is at most `10^6` in magnitude or the mantissa has at most 999000 digits: the
  only literals on which the model's exponent saturation can be observed are megabyte-sized (`§6`).

Contents.
* §0 `strtodDecimal_iff_CGrammar` — the grammar as a transcription of the C grammar; examples.
* §1 `float_decode_iff`, `float_decode_accepts_iff`, `float_decode_refuses` — FULL strength, all byte strings: the plain
  `Float` converter accepts exactly the grammar minus over/underflow (as the model computes them); unique reading.
* §2 `float_decode_value_partial` (`d = roundAbs sign (denoted rational)`), `float_decode_accepts_iff_partial` (true
  thresholds `2^-1075 < |q| < 2^1024 − 2^970`), `float_decode_sign`, `float_decode_zero_iff`,
  `float_decode_exact_partial`, `float_decode_exact_int_partial`, `float_decode_half_ulp_partial`,
  `float_decode_tie_even_partial`; §2b `float_decode_mono_partial`, `overflows_iff_rat`, `underflows_iff_rat`.
  The `_partial` ones assume `NoClamp` (implied by `length ≤ 999000`); §6 shows they are false without it.
* §3 the flags: `floatGen_factor`, `allow_leading_whitespace_iff` (+ `isSpace_iff`), `crop_null_eq`, `allow_empty_eq`,
  `allow_erange_iff`, `sortFloat_iff`, `scoreTest_iff`, and the refusals without each flag.
* §4 `incrbyfloat_never_stores_nonfinite`, `hincrbyfloat_never_stores_nonfinite` (through the runner; the stored string is
  re-read by the converter as a finite double).
* §5 `zadd_zscore_roundtrip_partial` (hypothesis: the 17-digit codec law AT the score, `CodecAt`),
  `zadd_zscore_roundtrip_of_law`, `zadd_zscore_zero_sign`.
* §6 `float_decode_value_full_false`, `float_decode_accepts_full_false` — kernel-checked witnesses (1 MB / 2 MB literals)
  where the model's exponent saturation shows; replayed on the Python code, which does NOT saturate.
-/
namespace FR.Props.C18f
open FR FR.C18f FR.DumpRound

/-! ## 0. The grammar, spelled out -/

/-- the definition of the grammar, unfolded once -/
theorem strtodDecimal_def (s : Bytes) :
    StrtodDecimal s ↔
      (∃ L : DecLit,
        (Digits L.ip ∧ Digits L.fp ∧ (L.ip ≠ [] ∨ L.fp ≠ []) ∧
          ∀ x, L.exp = some x → (x.letter = 101 ∨ x.letter = 69) ∧ Digits x.digits ∧ x.digits ≠ []) ∧
        s = L.sign.bytes ++ (L.ip ++ (L.fracBytes ++ L.expBytes))) ∨
      (∃ (sg : Sgn) (w : Bytes),
        (CIEq w [105, 110, 102] ∨ CIEq w [105, 110, 102, 105, 110, 105, 116, 121]) ∧ s = sg.bytes ++ w) :=
  Iff.rfl

/-- an optional sign, as bytes -/
def SignB (sg : Bytes) : Prop := sg = [] ∨ sg = [43] ∨ sg = [45]
/-- `digits [. digits*] | . digits` -/
def CMantissa (b : Bytes) : Prop :=
  ∃ ip fp, Digits ip ∧ Digits fp ∧ ((ip ≠ [] ∧ (b = ip ∨ b = ip ++ 46 :: fp)) ∨ (fp ≠ [] ∧ b = 46 :: fp))
/-- `[eE][+-]?digits` -/
def CExponent (x : Bytes) : Prop :=
  ∃ c sg ds, (c = 101 ∨ c = 69) ∧ SignB sg ∧ Digits ds ∧ ds ≠ [] ∧ x = c :: (sg ++ ds)
/-- the C `strtod` decimal grammar (no `nan`, no hex floats), transcribed on bytes: nothing before or after -/
def CGrammar (s : Bytes) : Prop :=
  ∃ sg body, SignB sg ∧ s = sg ++ body ∧
    (InfWord body ∨ ∃ mt x, CMantissa mt ∧ (x = [] ∨ CExponent x) ∧ body = mt ++ x)

theorem signB_bytes (sg : Sgn) : SignB sg.bytes := by
  cases sg
  · exact Or.inl rfl
  · exact Or.inr (Or.inl rfl)
  · exact Or.inr (Or.inr rfl)

theorem signB_exists {b : Bytes} (h : SignB b) : ∃ sg : Sgn, sg.bytes = b := by
  rcases h with h | h | h
  · exact ⟨.none, h.symm⟩
  · exact ⟨.plus, h.symm⟩
  · exact ⟨.minus, h.symm⟩

/-- the two presentations of the grammar agree -/
theorem strtodDecimal_iff_CGrammar (s : Bytes) : StrtodDecimal s ↔ CGrammar s := by
  constructor
  · rintro (⟨L, hv, hs⟩ | ⟨sg, w, hw, hs⟩)
    · obtain ⟨hip, hfp, hne, hexp⟩ := hv
      refine ⟨L.sign.bytes, L.body, signB_bytes _, hs, Or.inr ⟨L.ip ++ L.fracBytes, L.expBytes, ?_, ?_, ?_⟩⟩
      · refine ⟨L.ip, L.fp, hip, hfp, ?_⟩
        unfold DecLit.fracBytes
        unfold DecLit.fp at hne ⊢
        cases hf : L.frac with
        | none =>
          rw [hf] at hne
          have hi : L.ip ≠ [] := by
            rcases hne with h | h
            · exact h
            · exact absurd rfl h
          exact Or.inl ⟨hi, Or.inl (List.append_nil _)⟩
        | some f =>
          rw [hf] at hne
          by_cases hi : L.ip = []
          · have hf' : f ≠ [] := by
              rcases hne with h | h
              · exact absurd hi h
              · exact h
            exact Or.inr ⟨hf', by rw [hi]; rfl⟩
          · exact Or.inl ⟨hi, Or.inr rfl⟩
      · unfold DecLit.expBytes
        cases he : L.exp with
        | none => exact Or.inl rfl
        | some x =>
          obtain ⟨hl, hd, hn⟩ := hexp x he
          exact Or.inr ⟨x.letter, x.sign.bytes, x.digits, hl, signB_bytes _, hd, hn, rfl⟩
      · unfold DecLit.body
        rw [List.append_assoc]
    · exact ⟨sg.bytes, w, signB_bytes _, hs, Or.inl hw⟩
  · rintro ⟨sgb, body, hsg, hs, hbody⟩
    obtain ⟨sg, rfl⟩ := signB_exists hsg
    rcases hbody with hw | ⟨mt, x, ⟨ip, fp, hip, hfp, hm⟩, hx, hb⟩
    · exact Or.inr ⟨sg, body, hw, hs⟩
    · left
      -- the exponent part
      have hexp : ∃ exp : Option ExpPart,
          (∀ y, exp = some y → (y.letter = 101 ∨ y.letter = 69) ∧ Digits y.digits ∧ y.digits ≠ []) ∧
          x = (DecLit.mk .none [] none exp).expBytes := by
        rcases hx with rfl | ⟨c, sgb', ds, hc, hsg', hd, hn, rfl⟩
        · exact ⟨none, fun y hy => (by cases hy), rfl⟩
        · obtain ⟨sg', rfl⟩ := signB_exists hsg'
          refine ⟨some ⟨c, sg', ds⟩, ?_, rfl⟩
          intro y hy; cases hy; exact ⟨hc, hd, hn⟩
      obtain ⟨exp, hexp, rfl⟩ := hexp
      rcases hm with ⟨hi, hmt | hmt⟩ | ⟨hf, hmt⟩
      · exact ⟨⟨sg, ip, none, exp⟩, ⟨hip, Digits.nil, Or.inl hi, hexp⟩, by rw [hs, hb, hmt]; rfl⟩
      · refine ⟨⟨sg, ip, some fp, exp⟩, ⟨hip, hfp, Or.inl hi, hexp⟩, ?_⟩
        rw [hs, hb, hmt, List.append_assoc]
        rfl
      · refine ⟨⟨sg, [], some fp, exp⟩, ⟨Digits.nil, hfp, Or.inr hf, hexp⟩, ?_⟩
        rw [hs, hb, hmt]
        rfl

example : StrtodDecimal (strBytes "-12.50e+3") := by
  rw [strBytes_eq]
  exact Or.inl ⟨⟨.minus, [49, 50], some [53, 48], some ⟨101, .plus, [51]⟩⟩, by decide, rfl⟩
example : StrtodDecimal (strBytes ".5") := by
  rw [strBytes_eq]; exact Or.inl ⟨⟨.none, [], some [53], none⟩, by decide, rfl⟩
example : StrtodDecimal (strBytes "1.") := by
  rw [strBytes_eq]; exact Or.inl ⟨⟨.none, [49], some [], none⟩, by decide, rfl⟩
example : StrtodDecimal (strBytes "+InFiNiTy") := by
  rw [strBytes_eq]; exact Or.inr ⟨.plus, [73, 110, 70, 105, 78, 105, 84, 121], by decide, rfl⟩

/-! ## 1. `Float.decode` (no flags) accepts exactly the grammar, minus over/underflow -/

/-- a signed `inf`/`infinity` word is not a decimal literal -/
theorem word_not_literal {L : DecLit} (hv : L.Valid) {sg : Sgn} {w : Bytes} (hw : InfWord w) :
    L.render ≠ sg.bytes ++ w := by
  intro hs
  obtain ⟨c, t, hb, hc⟩ := body_head L hv
  obtain ⟨c', t', hb', hc'⟩ := word_head (Or.inl hw)
  have h1 : c ≠ 43 ∧ c ≠ 45 := by
    constructor <;> (rintro rfl; rcases hc with h | h <;> exact absurd h (by decide))
  have h2 : c' ≠ 43 ∧ c' ≠ 45 := by
    constructor <;> (rintro rfl; exact absurd hc' (by decide))
  have hsp := sign_split_unique (s := sg) (s' := L.sign) (r := w) (r' := L.body)
    (fun x y e => by rw [hb'] at e; cases e; exact h2) (fun x y e => by rw [hb] at e; cases e; exact h1)
    (by rw [← hs, render_eq])
  have e : c' = c := by
    have := hsp.2; rw [hb, hb'] at this; exact (List.cons.inj this).1
  subst e
  have h65 : 65 ≤ c'.toNat := hc'
  rcases hc with h | h
  · have : c'.toNat ≤ 57 := h.2
    omega
  · rw [h] at h65; exact absurd h65 (by decide)

/-- OVERFLOW as the model sees it: the magnitude `mant · 10^(expoC − #fraction digits)` is at least
`2^1024 − 2^970` (it rounds to an infinity).  `expoC` is the model's saturated exponent. -/
def OverflowsC (L : DecLit) : Prop :=
  ovf * 10 ^ (-(expoC L - (L.fp.length : Int))).toNat ≤ L.mant * 10 ^ (expoC L - (L.fp.length : Int)).toNat
/-- UNDERFLOW as the model sees it: a non-zero mantissa whose magnitude is at most `2^-1075` (it rounds to zero) -/
def UnderflowsC (L : DecLit) : Prop :=
  L.mant ≠ 0 ∧
    L.mant * 10 ^ (expoC L - (L.fp.length : Int)).toNat * 2 ^ 1075 ≤ 10 ^ (-(expoC L - (L.fp.length : Int))).toNat
/-- the same two notions for the number the literal DENOTES (written exponent, no saturation):
`|L.rat| ≥ 2^1024 − 2^970`, resp. `0 < |L.rat| ≤ 2^-1075` (`L.rat = ± ratNum / ratDen`) -/
def Overflows (L : DecLit) : Prop := ovf * L.ratDen ≤ L.ratNum
def Underflows (L : DecLit) : Prop := L.mant ≠ 0 ∧ L.ratNum * 2 ^ 1075 ≤ L.ratDen
instance (L : DecLit) : Decidable (OverflowsC L) := by unfold OverflowsC; infer_instance
instance (L : DecLit) : Decidable (UnderflowsC L) := by unfold UnderflowsC; infer_instance
instance (L : DecLit) : Decidable (Overflows L) := by unfold Overflows; infer_instance
instance (L : DecLit) : Decidable (Underflows L) := by unfold Underflows; infer_instance

theorem modelVal_isInf_iff (L : DecLit) : (modelVal L).isInf = true ↔ OverflowsC L :=
  ofDecimal_isInf_iff _ _ _

theorem modelVal_isZero_iff (L : DecLit) : (modelVal L).isZero = true ↔ L.mant = 0 ∨ UnderflowsC L := by
  unfold modelVal UnderflowsC
  rw [ofDecimal_isZero_iff]
  constructor
  · rintro (h | h)
    · exact Or.inl h
    · by_cases h0 : L.mant = 0
      · exact Or.inl h0
      · exact Or.inr ⟨h0, h⟩
  · rintro (h | ⟨_, h⟩)
    · exact Or.inl h
    · exact Or.inr h

set_option exponentiation.threshold 1100 in
theorem not_overflowsC_of_mant_zero {L : DecLit} (h : L.mant = 0) : ¬ OverflowsC L := by
  unfold OverflowsC
  rw [h, Nat.zero_mul]
  have : 0 < ovf * 10 ^ (-(expoC L - (L.fp.length : Int))).toNat :=
    Nat.mul_pos (Nat.mul_pos (by decide) (Nat.pow_pos (by decide))) (Nat.pow_pos (by decide))
  omega

/-- the range rule of the plain converter, in threshold form -/
theorem rangeOK_false_iff (L : DecLit) :
    RangeOK false L.mant (modelVal L) ↔ ¬ OverflowsC L ∧ ¬ UnderflowsC L := by
  unfold RangeOK
  constructor
  · rintro (h | h | ⟨h1, h2⟩)
    · cases h
    · exact ⟨not_overflowsC_of_mant_zero h, fun hu => hu.1 h⟩
    · refine ⟨fun ho => ?_, fun hu => ?_⟩
      · rw [(modelVal_isInf_iff L).mpr ho] at h1; cases h1
      · rw [(modelVal_isZero_iff L).mpr (Or.inr hu)] at h2; cases h2
  · rintro ⟨h1, h2⟩
    by_cases h0 : L.mant = 0
    · exact Or.inr (Or.inl h0)
    · right; right
      constructor
      · cases hi : (modelVal L).isInf with
        | false => rfl
        | true => exact absurd ((modelVal_isInf_iff L).mp hi) h1
      · cases hz : (modelVal L).isZero with
        | false => rfl
        | true =>
          rcases (modelVal_isZero_iff L).mp hz with h | h
          · exact absurd h h0
          · exact absurd h h2

/-- **`float_decode_iff`** — for ALL byte strings `s` and doubles `d`: the plain `Float` converter (INCRBYFLOAT,
HINCRBYFLOAT, ZADD, ZINCRBY, WEIGHTS …) returns `d` iff `s` is a decimal literal of the grammar that neither overflows nor
underflows and `d` is its model value, or `s` is a signed `inf`/`infinity` and `d` the infinity of that sign. -/
theorem float_decode_iff (s : Bytes) (d : Dbl) :
    Conv.float s = .ok d ↔
      (∃ L : DecLit, L.Valid ∧ s = L.render ∧ d = modelVal L ∧ ¬ OverflowsC L ∧ ¬ UnderflowsC L) ∨
      (∃ (sg : Sgn) (w : Bytes), InfWord w ∧ s = sg.bytes ++ w ∧ d = .inf sg.neg) := by
  unfold Conv.float
  rw [floatGen_ok_iff]
  show (_ ∨ _) ↔ _
  constructor
  · rintro (⟨L, hv, hs, hd, hr⟩ | h)
    · rw [hd] at hr
      exact Or.inl ⟨L, hv, hs, hd, (rangeOK_false_iff L).mp hr⟩
    · exact Or.inr h
  · rintro (⟨L, hv, hs, hd, hr⟩ | h)
    · exact Or.inl ⟨L, hv, hs, hd, by rw [hd]; exact (rangeOK_false_iff L).mpr hr⟩
    · exact Or.inr h

/-- **`float_decode_accepts_iff`** — for ALL byte strings: `Float.decode` succeeds iff the string is in the grammar and
(when it is a decimal literal; its reading `L` is unique, `render_injective`) neither overflows nor underflows.
Everything else — stray characters, `_`, any whitespace, `nan`, hex floats, the empty string, a bare sign or point — is
refused. -/
theorem float_decode_accepts_iff (s : Bytes) :
    (∃ d, Conv.float s = .ok d) ↔
      StrtodDecimal s ∧ ∀ L : DecLit, L.Valid → s = L.render → ¬ OverflowsC L ∧ ¬ UnderflowsC L := by
  constructor
  · rintro ⟨d, h⟩
    rcases (float_decode_iff s d).mp h with ⟨L, hv, hs, _, hr⟩ | ⟨sg, w, hw, hs, _⟩
    · refine ⟨Or.inl ⟨L, hv, hs⟩, ?_⟩
      intro L' hv' hs'
      have := render_injective hv hv' (hs.symm.trans hs')
      rw [← this]; exact hr
    · refine ⟨Or.inr ⟨sg, w, hw, hs⟩, ?_⟩
      intro L hv hs'
      exact absurd (hs'.symm.trans hs) (word_not_literal hv hw)
  · rintro ⟨hg, hr⟩
    rcases hg with ⟨L, hv, hs⟩ | ⟨sg, w, hw, hs⟩
    · exact ⟨modelVal L, (float_decode_iff s _).mpr (Or.inl ⟨L, hv, hs, rfl, hr L hv hs⟩)⟩
    · exact ⟨.inf sg.neg, (float_decode_iff s _).mpr (Or.inr ⟨sg, w, hw, hs, rfl⟩)⟩

/-- every refusal carries the converter's message -/
theorem float_decode_refuses (s : Bytes)
    (h : ¬ (StrtodDecimal s ∧ ∀ L : DecLit, L.Valid → s = L.render → ¬ OverflowsC L ∧ ¬ UnderflowsC L)) :
    Conv.float s = .error Msgs.INVALID_FLOAT_MSG := by
  cases hc : Conv.float s with
  | ok d => exact absurd ((float_decode_accepts_iff s).mp ⟨d, hc⟩) h
  | error e => rw [FR.C18.floatGen_error _ _ _ _ _ _ _ hc]

/-- nothing outside the grammar is accepted -/
theorem float_decode_only_grammar (s : Bytes) (d : Dbl) (h : Conv.float s = .ok d) : StrtodDecimal s :=
  ((float_decode_accepts_iff s).mp ⟨d, h⟩).1

-- non-vacuity: accepted / refused strings (kernel-evaluated on the model) and their grammar status
example : (Conv.float (strBytes "-12.50e+3")).toOption = some (Dbl.ofDecimal true 1250 1) := by decide +kernel
example : (Conv.float (strBytes "1.")).toOption = some Dbl.one ∧
    (Conv.float (strBytes ".5e1")).toOption = some (Dbl.ofInt 5) := by
  decide +kernel
example : (Conv.float (strBytes "-InF")).toOption = some (.inf true) ∧
    (Conv.float (strBytes "+infinity")).toOption = some (.inf false) := by
  decide +kernel
example : (Conv.float (strBytes "1e400")).isOk = false ∧ (Conv.float (strBytes "1e-400")).isOk = false ∧
    (Conv.float (strBytes "0e400")).isOk = true ∧ (Conv.float (strBytes "-0")).isOk = true ∧
    (Conv.float (strBytes "nan")).isOk = false ∧ (Conv.float (strBytes "0x10")).isOk = false ∧
    (Conv.float (strBytes "1_0")).isOk = false ∧ (Conv.float (strBytes " 1")).isOk = false ∧
    (Conv.float (strBytes "1 ")).isOk = false ∧ (Conv.float (strBytes "")).isOk = false ∧
    (Conv.float (strBytes ".")).isOk = false ∧ (Conv.float (strBytes "1e")).isOk = false ∧
    (Conv.float (strBytes "infinit")).isOk = false ∧ (Conv.float (strBytes "1.5.2")).isOk = false ∧
    (Conv.float (strBytes "2.4703282292062328e-324")).isOk = true ∧
    (Conv.float (strBytes "2.4703282292062327e-324")).isOk = false ∧
    (Conv.float (strBytes "1.7976931348623158e308")).isOk = true ∧
    (Conv.float (strBytes "1.7976931348623159e308")).isOk = false := by
  decide +kernel
/-- the literal `1e400` is in the grammar and overflows; `1e-400` underflows; `0e400` does neither -/
example :
    let L1 : DecLit := ⟨.none, [49], none, some ⟨101, .none, [52, 48, 48]⟩⟩
    let L2 : DecLit := ⟨.none, [49], none, some ⟨101, .minus, [52, 48, 48]⟩⟩
    let L3 : DecLit := ⟨.none, [48], none, some ⟨101, .none, [52, 48, 48]⟩⟩
    (L1.Valid ∧ OverflowsC L1) ∧ (L2.Valid ∧ UnderflowsC L2) ∧ (L3.Valid ∧ ¬ OverflowsC L3 ∧ ¬ UnderflowsC L3) := by
  intro L1 L2 L3
  refine ⟨⟨by decide, ?_⟩, ⟨by decide, ?_⟩, ⟨by decide, ?_, ?_⟩⟩
  · exact (modelVal_isInf_iff L1).mp (by decide +kernel)
  · have := (modelVal_isZero_iff L2).mp (by decide +kernel)
    exact this.resolve_left (by decide)
  · exact not_overflowsC_of_mant_zero (by decide)
  · exact fun h => h.1 (by decide)

/-! ## 2. The decoded value -/

/-- `s` denotes the rational `q`: `s` is a decimal literal of the grammar and `q = ± mant · 10^(exponent − #fraction
digits)`, computed from the parse tree alone -/
def Denotes (s : Bytes) (q : Rat) : Prop := ∃ L : DecLit, L.Valid ∧ s = L.render ∧ q = L.rat

/-- the denotation is a partial FUNCTION of the string -/
theorem denotes_unique {s : Bytes} {q q' : Rat} (h : Denotes s q) (h' : Denotes s q') : q = q' := by
  obtain ⟨L, hv, hs, hq⟩ := h
  obtain ⟨L', hv', hs', hq'⟩ := h'
  rw [hq, hq', render_injective hv hv' (hs.symm.trans hs')]

/-- the denotation as a quotient: `L.rat = ± (mant · 10^exp10⁺) / 10^exp10⁻` -/
theorem rat_eq_div (L : DecLit) :
    L.rat = ((if L.sign.neg then -1 else 1) * (L.mant * 10 ^ L.exp10.toNat : Nat) : Int) / ((10 ^ (-L.exp10).toNat : Nat) : Rat) :=
  Rat.mkRat_eq_div _ _

theorem noClamp_of_length {L : DecLit} {s : Bytes} (hs : s = L.render) (hl : s.length ≤ 999000) : NoClamp L := by
  right
  rw [hs] at hl
  unfold DecLit.render at hl
  simp only [List.length_append] at hl
  have : L.fp.length ≤ L.fracBytes.length := by
    unfold DecLit.fp DecLit.fracBytes
    cases L.frac <;> simp
  omega

/-- **`float_decode_value`** (partial: `NoClamp`, e.g. every string of at most 999000 bytes) — an accepted decimal literal is
decoded to the CORRECTLY ROUNDED binary64 of the rational it denotes: `roundAbs` is round-to-nearest-even of the
magnitude in lowest terms, with the sign bit of the literal (so `-0`, `-0.0e5` give `-0.0`). -/
theorem float_decode_value_partial (s : Bytes) (d : Dbl) (h : Conv.float s = .ok d)
    (L : DecLit) (hv : L.Valid) (hs : s = L.render) (hc : NoClamp L) :
    d = roundAbs L.sign.neg L.rat := by
  rcases (float_decode_iff s d).mp h with ⟨L', hv', hs', hd, _⟩ | ⟨sg, w, hw, hs', _⟩
  · have := render_injective hv hv' (hs.symm.trans hs')
    rw [hd, ← this]
    exact modelVal_eq_roundAbs L hv hc
  · exact absurd (hs.symm.trans hs') (word_not_literal hv hw)

/-- the same, for a string of at most 999000 bytes and its denotation -/
theorem float_decode_value_short (s : Bytes) (d : Dbl) (h : Conv.float s = .ok d) (hl : s.length ≤ 999000)
    (L : DecLit) (hv : L.Valid) (hs : s = L.render) : d = roundAbs L.sign.neg L.rat :=
  float_decode_value_partial s d h L hv hs (noClamp_of_length hs hl)

/-- what `roundAbs` of the denotation is: `roundPos` on ANY fraction equal to `|L.rat|` -/
theorem roundAbs_rat_eq (L : DecLit) (a b : Nat) (hb : 0 < b) (h : a * L.ratDen = L.ratNum * b) :
    roundAbs L.sign.neg L.rat = Dbl.roundPos L.sign.neg a b := by
  rw [roundAbs_rat]
  exact (roundPos_congr _ hb (ratDen_pos L) h).symm

set_option exponentiation.threshold 1100 in
/-- under `NoClamp` the model's saturated thresholds are the true ones -/
theorem overflowsC_iff (L : DecLit) (hv : L.Valid) (hc : NoClamp L) : OverflowsC L ↔ Overflows L := by
  rw [← modelVal_isInf_iff, modelVal_eq_roundAbs L hv hc, roundAbs_rat]
  unfold Overflows
  by_cases h0 : L.ratNum = 0
  · rw [h0, roundPos_zero_num]
    have : 0 < ovf * L.ratDen :=
      Nat.mul_pos (Nat.mul_pos (by decide) (Nat.pow_pos (by decide))) (ratDen_pos L)
    constructor
    · intro h; cases h
    · intro h; omega
  · exact roundPos_isInf_iff _ _ _ h0 (ratDen_pos L)

theorem ratNum_eq_zero_iff (L : DecLit) : L.ratNum = 0 ↔ L.mant = 0 := by
  unfold DecLit.ratNum
  constructor
  · intro h
    rcases Nat.mul_eq_zero.mp h with h | h
    · exact h
    · exact absurd h (Nat.ne_of_gt (Nat.pow_pos (by decide)))
  · intro h; rw [h, Nat.zero_mul]

theorem underflowsC_iff (L : DecLit) (hv : L.Valid) (hc : NoClamp L) : UnderflowsC L ↔ Underflows L := by
  unfold Underflows
  by_cases h0 : L.mant = 0
  · exact ⟨fun h => absurd h0 h.1, fun h => absurd h0 h.1⟩
  · have hz := modelVal_isZero_iff L
    rw [modelVal_eq_roundAbs L hv hc, roundAbs_rat,
      roundPos_isZero_iff _ _ _ (fun h => h0 ((ratNum_eq_zero_iff L).mp h)) (ratDen_pos L)] at hz
    constructor
    · intro h; exact ⟨h0, hz.mpr (Or.inr h)⟩
    · intro h; exact (hz.mp h.2).resolve_left h0

/-- **`float_decode_accepts_iff_partial`** — for every byte string of at most 999000 bytes: accepted iff in the grammar
and the DENOTED number `q` satisfies `q = 0 ∨ 2^-1075 < |q| < 2^1024 − 2^970` (cross-multiplied in `Overflows`,
`Underflows`).  So: an overflow to `±inf` from a finite literal is refused; an underflow to `±0` from a literal with a
non-zero digit is refused; a literal all of whose digits are `0` is accepted whatever its exponent; subnormal results are
accepted. -/
theorem float_decode_accepts_iff_partial (s : Bytes) (hl : s.length ≤ 999000) :
    (∃ d, Conv.float s = .ok d) ↔
      StrtodDecimal s ∧ ∀ L : DecLit, L.Valid → s = L.render → ¬ Overflows L ∧ ¬ Underflows L := by
  rw [float_decode_accepts_iff]
  constructor
  · rintro ⟨hg, hr⟩
    refine ⟨hg, fun L hv hs => ?_⟩
    have hc := noClamp_of_length hs hl
    rw [← overflowsC_iff L hv hc, ← underflowsC_iff L hv hc]
    exact hr L hv hs
  · rintro ⟨hg, hr⟩
    refine ⟨hg, fun L hv hs => ?_⟩
    have hc := noClamp_of_length hs hl
    rw [overflowsC_iff L hv hc, underflowsC_iff L hv hc]
    exact hr L hv hs

/-- SIGN and FINITENESS: an accepted decimal literal gives a FINITE double carrying the sign bit of the literal; an
accepted word gives the infinity of its sign -/
theorem float_decode_sign (s : Bytes) (d : Dbl) (h : Conv.float s = .ok d) :
    (∃ L : DecLit, L.Valid ∧ s = L.render ∧ ∃ m e, d = .fin L.sign.neg m e) ∨
    (∃ (sg : Sgn) (w : Bytes), InfWord w ∧ s = sg.bytes ++ w ∧ d = .inf sg.neg) := by
  rcases (float_decode_iff s d).mp h with ⟨L, hv, hs, hd, ho, _⟩ | h'
  · left
    refine ⟨L, hv, hs, ?_⟩
    rcases ofDecimal_shape L.sign.neg L.mant (expoC L - (L.fp.length : Int)) with hi | ⟨m, e, hf⟩
    · exfalso
      apply ho
      rw [← modelVal_isInf_iff]
      unfold modelVal; rw [hi]; rfl
    · exact ⟨m, e, by rw [hd]; exact hf⟩
  · exact Or.inr h'

/-- ZERO: an accepted literal decodes to a zero iff ALL its mantissa digits are `0`; the zero is then the canonical
signed zero with the literal's sign -/
theorem float_decode_zero_iff (s : Bytes) (d : Dbl) (h : Conv.float s = .ok d) (L : DecLit) (hv : L.Valid)
    (hs : s = L.render) :
    (d.isZero = true ↔ ∀ c ∈ L.ip ++ L.fp, c = 48) ∧ (d.isZero = true → d = .fin L.sign.neg 0 (-1074)) := by
  rcases (float_decode_iff s d).mp h with ⟨L', hv', hs', hd, _, hu⟩ | ⟨sg, w, hw, hs', hd⟩
  · have := render_injective hv hv' (hs.symm.trans hs')
    subst this
    have hm : L.mant = 0 ↔ ∀ c ∈ L.ip ++ L.fp, c = 48 := decNat_eq_zero_iff _ (hv.1.append hv.2.1)
    rw [hd]
    refine ⟨?_, fun hz => ofDecimal_zero_canon hz⟩
    rw [modelVal_isZero_iff, ← hm]
    exact ⟨fun h => h.resolve_right hu, Or.inl⟩
  · rw [hd]
    refine ⟨⟨fun h => (by cases h), fun hall => ?_⟩, fun h => (by cases h)⟩
    exact absurd (hs.symm.trans hs') (word_not_literal hv hw)

/-- EXACTNESS: a literal that denotes exactly the value `m · 2^e` of a canonical double (`|L.rat| = m·2^e`, stated as
`ratNum · 2^1074 = m · 2^(e+1074) · ratDen`) decodes to that very double -/
theorem float_decode_exact_partial (s : Bytes) (d : Dbl) (h : Conv.float s = .ok d) (L : DecLit) (hv : L.Valid)
    (hs : s = L.render) (hc : NoClamp L) (m : Nat) (e : Int) (hm : m ≠ 0) (hcan : Canon (.fin L.sign.neg m e))
    (hval : m * 2 ^ (e + 1074).toNat * L.ratDen = L.ratNum * 2 ^ 1074) :
    d = .fin L.sign.neg m e := by
  rw [float_decode_value_partial s d h L hv hs hc,
    roundAbs_rat_eq L (m * 2 ^ (e + 1074).toNat) (2 ^ 1074) (Nat.pow_pos (by decide)) hval]
  exact roundPos_exact_canon _ m e hcan hm

/-- … in particular an integer literal below `2^53` (any spelling: leading zeros, `.000`, a non-negative effective
exponent) decodes to exactly that integer: `Dbl.scaled` is the exact value times `2^1074` -/
theorem float_decode_exact_int_partial (s : Bytes) (d : Dbl) (h : Conv.float s = .ok d) (L : DecLit) (hv : L.Valid)
    (hs : s = L.render) (hc : NoClamp L) (hx : 0 ≤ L.exp10) (h0 : L.ratNum ≠ 0) (h53 : L.ratNum < 2 ^ 53) :
    d.scaled = (if L.sign.neg then -1 else 1) * ((L.ratNum * 2 ^ 1074 : Nat) : Int) := by
  have hden : L.ratDen = 1 := by
    unfold DecLit.ratDen
    have : (-L.exp10).toNat = 0 := by omega
    rw [this]
  rw [float_decode_value_partial s d h L hv hs hc, roundAbs_rat, hden]
  exact roundPos_int_scaled _ _ h0 h53

/-- HALF-ULP (correct rounding, quantitatively): the finite double `m · 2^e` an accepted literal decodes to differs from
the denoted magnitude `ratNum/ratDen` by at most half a unit in its last place (everything scaled by `2^1074 · ratDen`) -/
theorem float_decode_half_ulp_partial (s : Bytes) (neg : Bool) (m : Nat) (e : Int)
    (h : Conv.float s = .ok (.fin neg m e)) (L : DecLit) (hv : L.Valid) (hs : s = L.render) (hc : NoClamp L)
    (h0 : L.mant ≠ 0) :
    2 * (m * 2 ^ (e + 1074).toNat * L.ratDen) ≤ 2 * (L.ratNum * 2 ^ 1074) + 2 ^ (e + 1074).toNat * L.ratDen ∧
    2 * (L.ratNum * 2 ^ 1074) ≤ 2 * (m * 2 ^ (e + 1074).toNat * L.ratDen) + 2 ^ (e + 1074).toNat * L.ratDen := by
  have hd := float_decode_value_partial s _ h L hv hs hc
  rw [roundAbs_rat] at hd
  have hneg : neg = L.sign.neg := by
    rcases roundPos_shape L.sign.neg L.ratNum L.ratDen with hi | ⟨m', e', hf⟩
    · rw [hi] at hd; cases hd
    · rw [hf] at hd; injection hd
  subst hneg
  exact (roundPos_half_ulp _ _ _ (fun hz => h0 ((ratNum_eq_zero_iff L).mp hz)) (ratDen_pos L) m e hd.symm).2

/-- TIES TO EVEN: when the denoted magnitude lies exactly half a unit in the last place from the result, the result's
significand is even -/
theorem float_decode_tie_even_partial (s : Bytes) (neg : Bool) (m : Nat) (e : Int)
    (h : Conv.float s = .ok (.fin neg m e)) (L : DecLit) (hv : L.Valid) (hs : s = L.render) (hc : NoClamp L)
    (h0 : L.mant ≠ 0)
    (htie : 2 * (m * 2 ^ (e + 1074).toNat * L.ratDen) = 2 * (L.ratNum * 2 ^ 1074) + 2 ^ (e + 1074).toNat * L.ratDen ∨
      2 * (L.ratNum * 2 ^ 1074) = 2 * (m * 2 ^ (e + 1074).toNat * L.ratDen) + 2 ^ (e + 1074).toNat * L.ratDen) :
    m % 2 = 0 := by
  have hd := float_decode_value_partial s _ h L hv hs hc
  rw [roundAbs_rat] at hd
  have hneg : neg = L.sign.neg := by
    rcases roundPos_shape L.sign.neg L.ratNum L.ratDen with hi | ⟨m', e', hf⟩
    · rw [hi] at hd; cases hd
    · rw [hf] at hd; injection hd
  subst hneg
  exact roundPos_tie_even _ _ _ (fun hz => h0 ((ratNum_eq_zero_iff L).mp hz)) (ratDen_pos L) m e hd.symm htie

-- non-vacuity for §2: the literal `-12.50e+3`
example :
    let L : DecLit := ⟨.minus, [49, 50], some [53, 48], some ⟨101, .plus, [51]⟩⟩
    L.Valid ∧ L.render = strBytes "-12.50e+3" ∧ NoClamp L ∧ L.mant = 1250 ∧ L.exp10 = 1 ∧
    L.ratNum = 12500 ∧ L.ratDen = 1 ∧ L.rat = -12500 ∧ ¬ Overflows L ∧ ¬ Underflows L ∧
    (Conv.float L.render).toOption = some (roundAbs true (-12500)) ∧
    (roundAbs true (-12500)).scaled = -(12500 * 2 ^ 1074) := by
  intro L
  refine ⟨by decide, by rw [strBytes_eq]; rfl, Or.inl (by decide), by decide, by decide, by decide, by decide,
    by decide +kernel, by decide +kernel, by decide +kernel, by decide +kernel, by decide +kernel⟩
/-- `0.1` is not a double: the half-ulp theorem applies with a non-zero error; `0.5` is exact -/
example :
    let L : DecLit := ⟨.none, [48], some [53], none⟩
    L.Valid ∧ NoClamp L ∧ L.ratNum = 5 ∧ L.ratDen = 10 ∧ Canon (.fin false (2 ^ 52) (-53)) ∧
    2 ^ 52 * 2 ^ ((-53 : Int) + 1074).toNat * L.ratDen = L.ratNum * 2 ^ 1074 ∧
    (Conv.float L.render).toOption = some (.fin false (2 ^ 52) (-53)) := by
  intro L
  exact ⟨by decide, Or.inl (by decide), by decide, by decide, by decide, by decide +kernel, by decide +kernel⟩

/-- a tie: `9007199254740993 = 2^53 + 1` lies exactly between two doubles and decodes to the even one, `2^53` -/
example :
    let L : DecLit := ⟨.none, [57, 48, 48, 55, 49, 57, 57, 50, 53, 52, 55, 52, 48, 57, 57, 51], none, none⟩
    L.Valid ∧ NoClamp L ∧ L.mant ≠ 0 ∧ L.ratNum = 2 ^ 53 + 1 ∧ L.ratDen = 1 ∧
    (Conv.float L.render).toOption = some (.fin false (2 ^ 52) 1) ∧
    2 * (L.ratNum * 2 ^ 1074) = 2 * (2 ^ 52 * 2 ^ ((1 : Int) + 1074).toNat * L.ratDen) + 2 ^ ((1 : Int) + 1074).toNat * L.ratDen := by
  intro L
  exact ⟨by decide, Or.inl (by decide), by decide, by decide, by decide, by decide +kernel, by decide +kernel⟩

/-! ## 2b. Monotonicity, and the thresholds as inequalities between rationals -/

theorem mkRat_le_mkRat_iff (n1 n2 : Int) (d1 d2 : Nat) (h1 : 0 < d1) (h2 : 0 < d2) :
    mkRat n1 d1 ≤ mkRat n2 d2 ↔ n1 * d2 ≤ n2 * d1 := by
  rw [Rat.le_iff_sub_nonneg, ← Rat.divInt_ofNat, ← Rat.divInt_ofNat,
    Rat.divInt_sub_divInt _ _ (by omega) (by omega),
    Rat.divInt_nonneg_iff_of_pos_right (by
      have : (0 : Int) < (d2 : Int) * (d1 : Int) := Int.mul_pos (by omega) (by omega)
      exact this)]
  omega

/-- the order of two denotations, cross-multiplied -/
theorem rat_le_iff (L1 L2 : DecLit) :
    L1.rat ≤ L2.rat ↔
      (if L1.sign.neg then -1 else 1) * (L1.ratNum : Int) * L2.ratDen ≤
        (if L2.sign.neg then -1 else 1) * (L2.ratNum : Int) * L1.ratDen :=
  mkRat_le_mkRat_iff _ _ _ _ (ratDen_pos L1) (ratDen_pos L2)

theorem le_neg_pos {x y : Dbl} {V W : Nat} (hx : Desc true x V) (hy : Desc false y W) : Dbl.le x y = true := by
  rcases hx with ⟨rfl, _⟩ | ⟨m1, e1, rfl, _, rfl, _⟩ <;> rcases hy with ⟨rfl, _⟩ | ⟨m2, e2, rfl, _, rfl, _⟩
  · rfl
  · rfl
  · rfl
  · show (decide ((Dbl.fin true m1 e1).scaled < (Dbl.fin false m2 e2).scaled) ||
      decide ((Dbl.fin true m1 e1).scaled = (Dbl.fin false m2 e2).scaled)) = true
    rw [scaled_fin, scaled_fin]
    simp only [if_true, Bool.false_eq_true, if_false, Int.one_mul, Bool.or_eq_true, decide_eq_true_eq]
    omega

/-- **MONOTONICITY** (partial: `NoClamp`) — decoding preserves the order of the denoted numbers: if `L₁.rat ≤ L₂.rat`
then the decoded doubles satisfy IEEE `≤` (`Dbl.le`: `-0 = +0`) -/
theorem float_decode_mono_partial (s1 s2 : Bytes) (d1 d2 : Dbl) (h1 : Conv.float s1 = .ok d1)
    (h2 : Conv.float s2 = .ok d2) (L1 L2 : DecLit) (hv1 : L1.Valid) (hv2 : L2.Valid) (hs1 : s1 = L1.render)
    (hs2 : s2 = L2.render) (hc1 : NoClamp L1) (hc2 : NoClamp L2) (hle : L1.rat ≤ L2.rat) :
    Dbl.le d1 d2 = true := by
  rw [float_decode_value_partial s1 d1 h1 L1 hv1 hs1 hc1, float_decode_value_partial s2 d2 h2 L2 hv2 hs2 hc2,
    roundAbs_rat, roundAbs_rat]
  rw [rat_le_iff] at hle
  have p1 := ratDen_pos L1
  have p2 := ratDen_pos L2
  cases hn1 : L1.sign.neg <;> cases hn2 : L2.sign.neg <;> rw [hn1, hn2] at hle
  · -- both non-negative
    have h : L1.ratNum * L2.ratDen ≤ L2.ratNum * L1.ratDen := by
      simp only [Bool.false_eq_true, if_false, Int.one_mul] at hle
      exact_mod_cast hle
    exact roundPos_mono false p1 p2 h
  · -- `0 ≤ x₁ ≤ x₂ ≤ 0`: both are zeros
    have hz : (L1.ratNum : Int) * L2.ratDen ≤ -((L2.ratNum : Int) * L1.ratDen) := by
      simp only [Bool.false_eq_true, if_false, Int.one_mul, if_true, Int.neg_mul] at hle
      exact hle
    have a1 : (0 : Int) ≤ (L1.ratNum : Int) * L2.ratDen := Int.mul_nonneg (by omega) (by omega)
    have a2 : (0 : Int) ≤ (L2.ratNum : Int) * L1.ratDen := Int.mul_nonneg (by omega) (by omega)
    have z1 : L1.ratNum * L2.ratDen = 0 := by
      have : (L1.ratNum : Int) * L2.ratDen = 0 := by omega
      exact_mod_cast this
    have z2 : L2.ratNum * L1.ratDen = 0 := by
      have : (L2.ratNum : Int) * L1.ratDen = 0 := by omega
      exact_mod_cast this
    have n1 : L1.ratNum = 0 := by
      rcases Nat.mul_eq_zero.mp z1 with h | h
      · exact h
      · omega
    have n2 : L2.ratNum = 0 := by
      rcases Nat.mul_eq_zero.mp z2 with h | h
      · exact h
      · omega
    rw [n1, n2, roundPos_zero_num, roundPos_zero_num]
    decide
  · exact le_neg_pos (roundPos_desc true _ _ p1) (roundPos_desc false _ _ p2)
  · -- both negative: the magnitudes are ordered the other way round
    have h : L2.ratNum * L1.ratDen ≤ L1.ratNum * L2.ratDen := by
      simp only [if_true, Int.neg_mul, Int.one_mul] at hle
      have : (L2.ratNum : Int) * L1.ratDen ≤ (L1.ratNum : Int) * L2.ratDen := by omega
      exact_mod_cast this
    exact roundPos_mono true p2 p1 h

/-- the magnitude of the denotation -/
theorem rat_abs (L : DecLit) : L.rat.abs = mkRat L.ratNum L.ratDen := by
  have hnn : (0 : Rat) ≤ mkRat L.ratNum L.ratDen := by
    rw [← Rat.divInt_ofNat]
    exact Rat.divInt_nonneg (by omega) (by omega)
  unfold DecLit.rat
  cases L.sign.neg
  · simp only [Bool.false_eq_true, if_false, Int.one_mul]
    exact Rat.abs_of_nonneg hnn
  · simp only [if_true, Int.neg_mul, Int.one_mul]
    rw [← Rat.neg_mkRat, Rat.abs_neg]
    exact Rat.abs_of_nonneg hnn

theorem natCast_eq_mkRat (n : Nat) : (n : Rat) = mkRat n 1 :=
  Rat.mk_eq_mkRat (n : Int) 1 (by decide) (Nat.coprime_one_right _)

/-- `Overflows` / `Underflows` are the inequalities `2^1024 − 2^970 ≤ |q|` and `0 < |q| ≤ 2^-1075` between rationals,
`q = L.rat` the denoted number -/
theorem overflows_iff_rat (L : DecLit) : Overflows L ↔ ((ovf : Nat) : Rat) ≤ L.rat.abs := by
  rw [rat_abs, natCast_eq_mkRat, mkRat_le_mkRat_iff _ _ _ _ (Nat.le_refl 1) (ratDen_pos L)]
  unfold Overflows
  rw [Int.natCast_one, Int.mul_one, ← Int.natCast_mul, Int.ofNat_le]

set_option exponentiation.threshold 1100 in
theorem underflows_iff_rat (L : DecLit) :
    Underflows L ↔ L.rat ≠ 0 ∧ L.rat.abs ≤ mkRat 1 (2 ^ 1075) := by
  have hne : L.rat ≠ 0 ↔ L.mant ≠ 0 := by
    rw [Ne, ← Rat.abs_eq_zero_iff, rat_abs, Rat.mkRat_eq_zero (Nat.ne_of_gt (ratDen_pos L)), Int.natCast_eq_zero,
      ratNum_eq_zero_iff]
  rw [rat_abs, mkRat_le_mkRat_iff _ _ _ _ (ratDen_pos L) (Nat.pow_pos (by decide)), hne]
  unfold Underflows
  rw [Int.one_mul, ← Int.natCast_mul, Int.ofNat_le]

-- non-vacuity: `-2.5 ≤ 0.1e1` as rationals
example :
    let L1 : DecLit := ⟨.minus, [50], some [53], none⟩
    let L2 : DecLit := ⟨.none, [48], some [49], some ⟨101, .none, [49]⟩⟩
    L1.Valid ∧ L2.Valid ∧ NoClamp L1 ∧ NoClamp L2 ∧ L1.rat ≤ L2.rat ∧ L1.rat = mkRat (-25) 10 ∧ L2.rat = 1 ∧
    (Conv.float L1.render).isOk = true ∧ (Conv.float L2.render).isOk = true := by
  intro L1 L2
  exact ⟨by decide, by decide, Or.inl (by decide), Or.inl (by decide), by decide +kernel, by decide +kernel,
    by decide +kernel, by decide +kernel, by decide +kernel⟩

/-! ## 3. The four flags of `Float.decode`

`Conv.floatGen msg allow_leading_whitespace allow_erange allow_empty crop_null`.  Flag combinations used by command
signatures: `Float` = (F,F,F,F) (`Conv.float`), `SortFloat` = (T,F,T,T) (`Conv.sortFloat`, SORT … BY), `ScoreTest` =
(T,T,T,T) after an optional `(` (`Conv.scoreTest`, ZRANGEBYSCORE / ZCOUNT / ZREMRANGEBYSCORE bounds). -/

theorem prep_ff (b : Bytes) : prep false false b = b := rfl

/-- FACTORISATION: three of the four flags are pure pre-processing of the string — cut at the first NUL, replace the
empty string by `0.0`, drop leading whitespace — followed by the flag-free converter (with the same `allow_erange`) -/
theorem floatGen_factor (msg : String) (w e m c : Bool) (b : Bytes) (d : Dbl) :
    Conv.floatGen msg w e m c b = .ok d ↔
      Conv.floatGen msg false e false false (strip w (prep m c b)) = .ok d := by
  rw [floatGen_ok_iff, floatGen_ok_iff, prep_ff]
  rfl

/-- the ASCII whitespace bytes: TAB, LF, VT, FF, CR and SPACE (Python `bytes.isspace`; the C locale `isspace`) -/
theorem isSpace_iff (c : UInt8) :
    PyFloat.isSpace c = true ↔ c = 9 ∨ c = 10 ∨ c = 11 ∨ c = 12 ∨ c = 13 ∨ c = 32 := by
  unfold PyFloat.isSpace
  constructor
  · intro h
    have h' : c = 32 ∨ (9 ≤ c ∧ c ≤ 13) := by simpa using h
    rcases h' with h | ⟨h1, h2⟩
    · exact Or.inr (Or.inr (Or.inr (Or.inr (Or.inr h))))
    · have a : 9 ≤ c.toNat := h1
      have b : c.toNat ≤ 13 := h2
      have : c.toNat = 9 ∨ c.toNat = 10 ∨ c.toNat = 11 ∨ c.toNat = 12 ∨ c.toNat = 13 := by omega
      rcases this with h | h | h | h | h
      · exact Or.inl (UInt8.toNat_inj.mp h)
      · exact Or.inr (Or.inl (UInt8.toNat_inj.mp h))
      · exact Or.inr (Or.inr (Or.inl (UInt8.toNat_inj.mp h)))
      · exact Or.inr (Or.inr (Or.inr (Or.inl (UInt8.toNat_inj.mp h))))
      · exact Or.inr (Or.inr (Or.inr (Or.inr (Or.inl (UInt8.toNat_inj.mp h)))))
  · rintro (h | h | h | h | h | h) <;> subst h <;> rfl

/-- a string the flag-free converter accepts does not start with whitespace -/
theorem accepted_head_not_space {msg : String} {e : Bool} {v : Bytes} {d : Dbl}
    (h : Conv.floatGen msg false e false false v = .ok d) : v.dropWhile PyFloat.isSpace = v := by
  have := ((floatGen_gate msg false e false false v d).mp h).1
  rw [prep_ff] at this
  rcases this with h | h
  · cases h
  · exact head_dropWhile_eq h

/-- **`allow_leading_whitespace`** accepts exactly what the converter without it accepts, preceded by any number of
ASCII whitespace bytes (`isSpace_iff`): nothing else changes (trailing whitespace stays refused) -/
theorem allow_leading_whitespace_iff (msg : String) (e m c : Bool) (b : Bytes) (d : Dbl) :
    Conv.floatGen msg true e m c b = .ok d ↔
      ∃ ws rest, prep m c b = ws ++ rest ∧ (∀ x ∈ ws, PyFloat.isSpace x = true) ∧
        Conv.floatGen msg false e false false rest = .ok d := by
  rw [floatGen_factor]
  show Conv.floatGen msg false e false false ((prep m c b).dropWhile PyFloat.isSpace) = .ok d ↔ _
  constructor
  · intro h
    exact ⟨(prep m c b).takeWhile PyFloat.isSpace, _, List.takeWhile_append_dropWhile.symm,
      fun x hx => of_mem_takeWhile _ _ hx, h⟩
  · rintro ⟨ws, rest, hp, hws, h⟩
    rw [hp, List.dropWhile_append_of_pos hws, accepted_head_not_space h]
    exact h

/-- without the flag, leading whitespace is refused -/
theorem no_leading_whitespace (msg : String) (e m c : Bool) (b : Bytes) (x : UInt8) (t : Bytes)
    (hp : prep m c b = x :: t) (hx : PyFloat.isSpace x = true) :
    Conv.floatGen msg false e m c b = .error msg := by
  cases h : Conv.floatGen msg false e m c b with
  | error er => rw [FR.C18.floatGen_error _ _ _ _ _ _ _ h]
  | ok d =>
    exfalso
    have := ((floatGen_gate msg false e m c b d).mp h).1
    rw [hp] at this
    rcases this with h | h
    · cases h
    · simp [hx] at h

/-- `null_terminate`: everything from the first NUL byte on is dropped -/
theorem nullTerminate_eq (b : Bytes) : nullTerminate b = b.takeWhile (· != 0) := by
  induction b with
  | nil => rfl
  | cons c t ih =>
    rw [nullTerminate, List.takeWhile_cons]
    by_cases h : c = 0
    · subst h; rfl
    · have h1 : (c == 0) = false := by simpa using h
      have h2 : (c != 0) = true := by simpa using h
      rw [h1, h2, ih]; rfl

/-- **`crop_null`** cuts the argument at its first NUL byte before anything else happens -/
theorem crop_null_eq (msg : String) (w e m : Bool) (b : Bytes) :
    Conv.floatGen msg w e m true b = Conv.floatGen msg w e m false (b.takeWhile (· != 0)) := by
  rw [← nullTerminate_eq]; rfl

/-- without `crop_null` a NUL byte anywhere is a stray character -/
theorem no_crop_null_refuses (msg : String) (w e m : Bool) (b : Bytes) (h0 : (0 : UInt8) ∈ b) :
    Conv.floatGen msg w e m false b = .error msg := by
  cases h : Conv.floatGen msg w e m false b with
  | error er => rw [FR.C18.floatGen_error _ _ _ _ _ _ _ h]
  | ok d =>
    exfalso
    have hb : b ≠ [] := by rintro rfl; cases h0
    have hprep : prep m false b = b := by
      unfold prep
      have : b.isEmpty = false := by cases b <;> simp_all
      simp [this]
    have hc : Core (strip w b) d := by
      rcases (floatGen_ok_iff msg w e m false b d).mp h with ⟨L, hv, hs, hd, _⟩ | ⟨sg, wd, hw, hs, hd⟩
      · rw [hprep] at hs; exact Or.inl ⟨L, hv, hs, hd⟩
      · rw [hprep] at hs; exact Or.inr (Or.inl ⟨sg, wd, hw, hs, hd⟩)
    have ha := (core_alpha hc).2
    have hmem : (0 : UInt8) ∈ strip w b := by
      unfold strip
      cases w with
      | false => exact h0
      | true =>
        have := List.takeWhile_append_dropWhile (p := PyFloat.isSpace) (l := b)
        rw [← this] at h0
        rcases List.mem_append.mp h0 with h1 | h1
        · exact absurd (of_mem_takeWhile _ _ h1) (by decide)
        · exact h1
    have := ha 0 hmem
    rcases this with h | h | h | h | h
    all_goals exact absurd h (by decide)

/-- what `b'0.0'` decodes to, whatever the other flags: `+0.0` -/
theorem floatGen_zero_lit (msg : String) (w e c : Bool) :
    Conv.floatGen msg w e false c [48, 46, 48] = .ok (.fin false 0 (-1074)) := by
  rw [floatGen_ok_iff]
  refine Or.inl ⟨⟨.none, [48], some [48], none⟩, by decide, ?_, by decide +kernel, Or.inr (Or.inl (by decide))⟩
  cases w <;> cases c <;> decide

/-- **`allow_empty`** maps the empty string (after `crop_null`) to `+0.0` and changes nothing else -/
theorem allow_empty_eq (msg : String) (w e c : Bool) (b : Bytes) :
    Conv.floatGen msg w e true c b =
      if (if c then nullTerminate b else b) = [] then .ok (.fin false 0 (-1074))
      else Conv.floatGen msg w e false c b := by
  by_cases h : (if c then nullTerminate b else b) = []
  · rw [if_pos h]
    have h1 : Conv.floatGen msg w e true c b = Conv.floatGen msg w e false false (strBytes "0.0") := by
      unfold Conv.floatGen
      simp only [h, List.isEmpty_nil, Bool.and_self, if_true, Bool.false_and, Bool.false_eq_true, if_false]
    rw [h1, lit_zero_dot_zero]
    exact floatGen_zero_lit msg w e false
  · rw [if_neg h]
    unfold Conv.floatGen
    have : (if c then nullTerminate b else b).isEmpty = false := by
      cases hh : (if c then nullTerminate b else b) with
      | nil => exact absurd hh h
      | cons _ _ => rfl
    simp only [this, Bool.and_false, Bool.false_eq_true, if_false]

/-- without `allow_empty` the empty string is refused -/
theorem no_allow_empty_refuses (msg : String) (w e c : Bool) (b : Bytes)
    (h : (if c then nullTerminate b else b) = []) : Conv.floatGen msg w e false c b = .error msg := by
  cases hh : Conv.floatGen msg w e false c b with
  | error er => rw [FR.C18.floatGen_error _ _ _ _ _ _ _ hh]
  | ok d =>
    exfalso
    have hp : strip w (prep false c b) = [] := by
      have : prep false c b = [] := by
        unfold prep
        simp only [h, Bool.false_and, Bool.false_eq_true, if_false]
      rw [this]; cases w <;> rfl
    have hc : Core (strip w (prep false c b)) d := by
      rcases (floatGen_ok_iff msg w e false c b d).mp hh with ⟨L, hv, hs, hd, _⟩ | ⟨sg, wd, hw, hs, hd⟩
      · exact Or.inl ⟨L, hv, hs, hd⟩
      · exact Or.inr (Or.inl ⟨sg, wd, hw, hs, hd⟩)
    exact (core_alpha hc).1 hp

/-- **`allow_erange`**: with it every string of the grammar is accepted — an overflowing literal gives `±inf`, an
underflowing one `±0`; without it exactly those two cases are refused (`RangeOK false` is `¬OverflowsC ∧ ¬UnderflowsC`,
`rangeOK_false_iff`) -/
theorem allow_erange_iff (msg : String) (w m c : Bool) (b : Bytes) (d : Dbl) :
    (Conv.floatGen msg w true m c b = .ok d ↔
      ((∃ L : DecLit, L.Valid ∧ strip w (prep m c b) = L.render ∧ d = modelVal L) ∨
       (∃ (sg : Sgn) (wd : Bytes), InfWord wd ∧ strip w (prep m c b) = sg.bytes ++ wd ∧ d = .inf sg.neg))) ∧
    (Conv.floatGen msg w false m c b = .ok d ↔
      Conv.floatGen msg w true m c b = .ok d ∧
        ∀ L : DecLit, L.Valid → strip w (prep m c b) = L.render → ¬ OverflowsC L ∧ ¬ UnderflowsC L) := by
  have h1 : Conv.floatGen msg w true m c b = .ok d ↔
      ((∃ L : DecLit, L.Valid ∧ strip w (prep m c b) = L.render ∧ d = modelVal L) ∨
       (∃ (sg : Sgn) (wd : Bytes), InfWord wd ∧ strip w (prep m c b) = sg.bytes ++ wd ∧ d = .inf sg.neg)) := by
    rw [floatGen_ok_iff]
    constructor
    · rintro (⟨L, hv, hs, hd, _⟩ | h)
      · exact Or.inl ⟨L, hv, hs, hd⟩
      · exact Or.inr h
    · rintro (⟨L, hv, hs, hd⟩ | h)
      · exact Or.inl ⟨L, hv, hs, hd, Or.inl rfl⟩
      · exact Or.inr h
  refine ⟨h1, ?_⟩
  rw [h1, floatGen_ok_iff]
  constructor
  · rintro (⟨L, hv, hs, hd, hr⟩ | ⟨sg, wd, hw, hs, hd⟩)
    · refine ⟨Or.inl ⟨L, hv, hs, hd⟩, fun L' hv' hs' => ?_⟩
      have := render_injective hv hv' (hs.symm.trans hs')
      rw [← this, ← rangeOK_false_iff, ← hd]; exact hr
    · refine ⟨Or.inr ⟨sg, wd, hw, hs, hd⟩, fun L hv hs' => ?_⟩
      exact absurd (hs'.symm.trans hs) (word_not_literal hv hw)
  · rintro ⟨hc, hr⟩
    rcases hc with ⟨L, hv, hs, hd⟩ | h
    · exact Or.inl ⟨L, hv, hs, hd, by rw [hd]; exact (rangeOK_false_iff L).mpr (hr L hv hs)⟩
    · exact Or.inr h

/-- `SortFloat` (SORT … BY weights): cut at NUL; the empty string is `+0.0`; otherwise leading whitespace is dropped and
the plain `Float` grammar and range rule apply; the error message is the SORT one -/
theorem sortFloat_iff (b : Bytes) (d : Dbl) :
    Conv.sortFloat b = .ok d ↔
      (b.takeWhile (· != 0) = [] ∧ d = .fin false 0 (-1074)) ∨
      (b.takeWhile (· != 0) ≠ [] ∧ Conv.float ((b.takeWhile (· != 0)).dropWhile PyFloat.isSpace) = .ok d) := by
  unfold Conv.sortFloat
  rw [crop_null_eq, allow_empty_eq]
  simp only [Bool.false_eq_true, if_false]
  by_cases h : b.takeWhile (· != 0) = []
  · rw [if_pos h]
    constructor
    · intro hh; cases hh; exact Or.inl ⟨h, rfl⟩
    · rintro (⟨_, rfl⟩ | ⟨h', _⟩)
      · rfl
      · exact absurd h h'
  · rw [if_neg h, floatGen_factor, prep_ff]
    unfold Conv.float
    rw [floatGen_ok_iff Msgs.INVALID_FLOAT_MSG, floatGen_ok_iff Msgs.INVALID_SORT_FLOAT_MSG]
    constructor
    · intro hh; exact Or.inr ⟨h, hh⟩
    · rintro (⟨h', _⟩ | ⟨_, hh⟩)
      · exact absurd h' h
      · exact hh

/-- the optional `(` of a score bound -/
def scoreSplit (b : Bytes) : Bool × Bytes :=
  match b with
  | 40 :: r => (true, r)
  | _ => (false, b)

theorem scoreTest_eq (b : Bytes) :
    Conv.scoreTest b =
      match Conv.floatGen Msgs.INVALID_FLOAT_MSG true true true true (scoreSplit b).2 with
      | .ok d => .ok (d, (scoreSplit b).1)
      | .error _ => .error Msgs.INVALID_MIN_MAX_FLOAT_MSG := rfl

theorem scoreSplit_other {b : Bytes} (h : ∀ t, b ≠ 40 :: t) : scoreSplit b = (false, b) := by
  unfold scoreSplit
  split
  · rename_i r; exact absurd rfl (h r)
  · rfl

/-- `ScoreTest` (score interval bounds): an optional leading `(` makes the bound exclusive; then all four flags are on:
cut at NUL, empty is `+0.0`, leading whitespace dropped, and NO range rule — `1e400` is `+inf`, `1e-400` is `0.0` -/
theorem scoreTest_iff (b : Bytes) (d : Dbl) (excl : Bool) :
    Conv.scoreTest b = .ok (d, excl) ↔
      ∃ v, ((b = 40 :: v ∧ excl = true) ∨ (b = v ∧ excl = false ∧ ∀ t, b ≠ 40 :: t)) ∧
        ((v.takeWhile (· != 0) = [] ∧ d = .fin false 0 (-1074)) ∨
         (v.takeWhile (· != 0) ≠ [] ∧
            ((∃ L : DecLit, L.Valid ∧ (v.takeWhile (· != 0)).dropWhile PyFloat.isSpace = L.render ∧ d = modelVal L) ∨
             (∃ (sg : Sgn) (wd : Bytes), InfWord wd ∧
                (v.takeWhile (· != 0)).dropWhile PyFloat.isSpace = sg.bytes ++ wd ∧ d = .inf sg.neg)))) := by
  have key : ∀ v : Bytes, ∀ d : Dbl, Conv.floatGen Msgs.INVALID_FLOAT_MSG true true true true v = .ok d ↔
      ((v.takeWhile (· != 0) = [] ∧ d = .fin false 0 (-1074)) ∨
         (v.takeWhile (· != 0) ≠ [] ∧
            ((∃ L : DecLit, L.Valid ∧ (v.takeWhile (· != 0)).dropWhile PyFloat.isSpace = L.render ∧ d = modelVal L) ∨
             (∃ (sg : Sgn) (wd : Bytes), InfWord wd ∧
                (v.takeWhile (· != 0)).dropWhile PyFloat.isSpace = sg.bytes ++ wd ∧ d = .inf sg.neg)))) := by
    intro v d
    rw [crop_null_eq, allow_empty_eq]
    simp only [Bool.false_eq_true, if_false]
    by_cases h : v.takeWhile (· != 0) = []
    · rw [if_pos h]
      constructor
      · intro hh; cases hh; exact Or.inl ⟨h, rfl⟩
      · rintro (⟨_, rfl⟩ | ⟨h', _⟩)
        · rfl
        · exact absurd h h'
    · rw [if_neg h, (allow_erange_iff _ true false false _ d).1, prep_ff]
      constructor
      · intro hh; exact Or.inr ⟨h, hh⟩
      · rintro (⟨h', _⟩ | ⟨_, hh⟩)
        · exact absurd h' h
        · exact hh
  rw [scoreTest_eq]
  constructor
  · intro h
    cases hf : Conv.floatGen Msgs.INVALID_FLOAT_MSG true true true true (scoreSplit b).2 with
    | error er => rw [hf] at h; cases h
    | ok d' =>
      rw [hf] at h
      cases h
      refine ⟨(scoreSplit b).2, ?_, (key _ _).mp hf⟩
      by_cases h40 : ∃ t, b = 40 :: t
      · obtain ⟨t, rfl⟩ := h40
        exact Or.inl ⟨rfl, rfl⟩
      · have hne : ∀ t, b ≠ 40 :: t := fun t ht => h40 ⟨t, ht⟩
        rw [scoreSplit_other hne]
        exact Or.inr ⟨rfl, rfl, hne⟩
  · rintro ⟨v, (⟨rfl, rfl⟩ | ⟨rfl, rfl, hne⟩), hk⟩
    · show (match Conv.floatGen Msgs.INVALID_FLOAT_MSG true true true true v with
        | .ok d => Except.ok (d, true)
        | .error _ => .error Msgs.INVALID_MIN_MAX_FLOAT_MSG) = _
      rw [(key v d).mpr hk]
    · rw [scoreSplit_other hne, (key b d).mpr hk]

-- non-vacuity for §3
example : (Conv.sortFloat (strBytes " \t1.5")).toOption = some (Dbl.ofDecimal false 15 (-1)) ∧
    (Conv.sortFloat []).toOption = some (.fin false 0 (-1074)) ∧
    (Conv.sortFloat [49, 0, 120]).toOption = some Dbl.one ∧ (Conv.float [49, 0, 120]).isOk = false ∧
    (Conv.sortFloat (strBytes "1 ")).isOk = false ∧ (Conv.sortFloat (strBytes "1e400")).isOk = false ∧
    (Conv.float []).isOk = false ∧ (Conv.float (strBytes " 1")).isOk = false := by
  decide +kernel
example : (Conv.scoreTest (strBytes "(1e400")).toOption = some (.inf false, true) ∧
    (Conv.scoreTest (strBytes "-1e-400")).toOption = some (.fin true 0 (-1074), false) ∧
    (Conv.scoreTest (strBytes "(")).toOption = some (.fin false 0 (-1074), true) ∧
    (Conv.scoreTest (strBytes "  -inf")).toOption = some (.inf true, false) ∧
    (Conv.scoreTest (strBytes "((1")).isOk = false ∧ (Conv.scoreTest (strBytes "nan")).isOk = false := by
  decide +kernel

/-! ## 4. INCRBYFLOAT / HINCRBYFLOAT never store NaN or an infinity (through the runner) -/

/-- **`incrbyfloat_never_stores_nonfinite`** — for every database, key, increment and both emulated versions:
INCRBYFLOAT either answers an error and changes nothing, or replies and stores (keeping the deadline) a byte string that
the `Float` converter itself accepts and reads back as a FINITE double.  (The stored string is the `%.17f` rendering, without
trailing zeros, of `cur + increment`; `FR.C18f.incrbyfloat_outcome` says which double.) -/
theorem incrbyfloat_never_stores_nonfinite (ctx : Ctx) (db : Db) (nd : NodupKeys db.dict)
    (ne : NoEmpty db.dict) (k amount : Bytes) :
    let out := runRegular StrKeys.sigIncrbyfloat Cmd.incrbyfloat ctx none [k, amount] db
    (∃ msg, out.reply = .err msg ∧ out.db.live = db.live) ∨
    (∃ (stored : Bytes) (e : Option Int) (d' : Dbl),
      out.reply = .bulk stored ∧ out.db.live = StrKeys.upd db.live k (some ⟨.str stored, e⟩) ∧
      Conv.float stored = .ok d' ∧ d'.isFinite = true) := by
  intro out
  rcases incrbyfloat_outcome ctx db nd ne k amount with h | ⟨s, e, stored, cur, a, _, _, _, _, hf, hc, hr, hl⟩
  · exact Or.inl h
  · obtain ⟨d', h1, h2⟩ := encodeFloat_reparses ctx.version s hf hc
    exact Or.inr ⟨_, e, d', hr, hl, h1, h2⟩

/-- the reasons for which INCRBYFLOAT refuses, in converter terms: the stored string or the increment is outside the
grammar (or over/underflows), or the sum is not finite (`inf` operands are accepted by the converter: `INCRBYFLOAT k inf`
is refused by the finiteness check, not by the grammar) -/
theorem incrbyfloat_inf_refused (ctx : Ctx) (db : Db) (nd : NodupKeys db.dict) (ne : NoEmpty db.dict)
    (k : Bytes) (hk : db.live k = none) (sg : Sgn) (w : Bytes) (hw : InfWord w) :
    let out := runRegular StrKeys.sigIncrbyfloat Cmd.incrbyfloat ctx none [k, sg.bytes ++ w] db
    out.reply = .err (strBytes Msgs.NONFINITE_MSG) ∧ out.db.live = db.live := by
  intro out
  have h := Props.C01k.incrbyfloat_spec ctx db nd ne k (sg.bytes ++ w)
  rw [hk] at h
  simp only [Props.C01k.incrFloatOn_unfolded] at h
  have h0 : Conv.float (strBytes "0") = .ok (.fin false 0 (-1074)) := by
    rw [float_decode_iff]
    refine Or.inl ⟨⟨.none, [48], none, none⟩, by decide, by rw [strBytes_eq]; rfl, by decide +kernel, ?_, ?_⟩
    · exact not_overflowsC_of_mant_zero (by decide)
    · exact fun hu => hu.1 (by decide)
  have h1 : Conv.float (sg.bytes ++ w) = .ok (.inf sg.neg) :=
    (float_decode_iff _ _).mpr (Or.inr ⟨sg, w, hw, rfl, rfl⟩)
  rw [h0, h1] at h
  simp only at h
  have hnf : (Dbl.add (.fin false 0 (-1074)) (.inf sg.neg)).isFinite = false := rfl
  rw [hnf] at h
  simp only [Bool.false_eq_true, if_false] at h
  exact ⟨congrArg Prod.fst h, congrArg Prod.snd h⟩

/-- **`hincrbyfloat_never_stores_nonfinite`** — the same for HINCRBYFLOAT on a key that is missing or holds a hash: an
error and no change, or the new value of the field is a string the `Float` converter reads back as a FINITE double (all
other fields and keys unchanged) -/
theorem hincrbyfloat_never_stores_nonfinite (ctx : Ctx) (db : Db) (nd : NodupKeys db.dict)
    (wf : HashSet.LiveWF db) (key : Bytes) (h : HashSet.HashV) (e : Option Int)
    (hv : HashSet.hashView db.live key = some (h, e)) (f amt : Bytes) :
    let out := HashSet.run "hincrbyfloat" ctx [key, f, amt] db
    (∃ msg, out.reply = .err msg ∧ out.db.live = db.live) ∨
    (∃ (stored : Bytes) (d' : Dbl),
      out.reply = .bulk stored ∧ HashSet.hmap out.db key f = some stored ∧
      (∀ x, x ≠ f → HashSet.hmap out.db key x = HashSet.hmap db key x) ∧
      (∀ k', k' ≠ key → out.db.live k' = db.live k') ∧
      Conv.float stored = .ok d' ∧ d'.isFinite = true) := by
  intro out
  rcases hincrbyfloat_outcome ctx db nd wf key h e hv f amt with h | ⟨s, cur, a, _, _, _, hf, hc, hr, hm, ho, _, hk, _⟩
  · exact Or.inl h
  · obtain ⟨d', h1, h2⟩ := encodeFloat_reparses ctx.version s hf hc
    exact Or.inr ⟨_, d', hr, hm, ho, hk, h1, h2⟩

/-- on a key of another type HINCRBYFLOAT answers WRONGTYPE and changes nothing -/
theorem hincrbyfloat_wrongtype_nothing (ctx : Ctx) (db : Db) (nd : NodupKeys db.dict) (key f amt : Bytes)
    (hv : HashSet.hashView db.live key = none) :
    let out := HashSet.run "hincrbyfloat" ctx [key, f, amt] db
    out.reply = .err (strBytes Msgs.WRONGTYPE_MSG) ∧ out.db.live = db.live :=
  hincrbyfloat_wrongtype ctx db nd key f amt hv

-- non-vacuity: `SET a 10.5`-like database, INCRBYFLOAT a 0.1 and HINCRBYFLOAT (key `[6]` of C02h's example database)
example :
    let db : Db := ⟨[([97], ⟨.str (strBytes "10.5"), some 70⟩)], 5⟩
    let ctx : Ctx := { version := 7, time := 5 }
    NodupKeys db.dict ∧ NoEmpty db.dict ∧
    runBulkOf (runRegular StrKeys.sigIncrbyfloat Cmd.incrbyfloat ctx none [[97], strBytes "0.25"] db).reply
      = strBytes "10.75" ∧
    -- binary64, not `long double`: 10.5 + 0.1 is stored as 10.59999999999999964 (real Redis: 10.6)
    runBulkOf (runRegular StrKeys.sigIncrbyfloat Cmd.incrbyfloat ctx none [[97], strBytes "0.1"] db).reply
      = strBytes "10.59999999999999964" ∧
    (Conv.float (strBytes "10.59999999999999964")).isOk = true ∧
    (runRegular StrKeys.sigIncrbyfloat Cmd.incrbyfloat ctx none [[97], strBytes "1e400"] db).reply.isErr = true ∧
    (runRegular StrKeys.sigIncrbyfloat Cmd.incrbyfloat ctx none [[97], strBytes "inf"] db).reply.isErr = true := by
  intro db ctx
  exact ⟨by decide, by unfold NoEmpty; decide +kernel, by decide +kernel, by decide +kernel, by decide +kernel,
    by decide +kernel, by decide +kernel⟩
example :
    NodupKeys Props.C02h.exDb.dict ∧ HashSet.LiveWF Props.C02h.exDb ∧
    HashSet.hashView Props.C02h.exDb.live [6] = some ([([10], [53])], none) ∧
    runBulkOf (HashSet.run "hincrbyfloat" Props.C02h.exCtx [[6], [10], strBytes "0.25"] Props.C02h.exDb).reply
      = strBytes "5.25" := by
  exact ⟨by decide, HashSet.liveWF_of_dict (by decide), by rfl, by decide +kernel⟩

/-! ## 5. ZADD then ZSCORE: the score comes back exactly (partial: the 17-digit codec law) -/

/-- the double the emulated version REPORTS for a stored score: from version 7 on the formatter prints `0.0 + d` -/
def reported (version : Nat) (d : Dbl) : Dbl := if version ≥ 7 then d.plusZero else d

theorem fmtScore_eq (ctx : Ctx) (d : Dbl) : Cmd.fmtScore ctx d = Dbl.encode (reported ctx.version d) false := rfl

/-- `0.0 + d = d` for every canonical double that is not a zero (`-0` becomes `+0`, `+0` stays) -/
theorem reported_eq_self (version : Nat) (d : Dbl) (hc : Canon d) (hz : d.isZero = false) (hn : d.isNaN = false) :
    reported version d = d := by
  unfold reported
  split
  · cases d with
    | nan => cases hn
    | inf b => rfl
    | fin n m e =>
      cases m with
      | zero => cases hz
      | succ k => exact plusZero_eq_self n (k + 1) e hc (by omega)
  · rfl

/-- THE CODEC LAW at the double `d`: parsing its `%.17g` rendering (resp. `inf`/`-inf`) gives `d` back.  For finite `d`
this is the classical 17-significant-digit round-trip theorem; it is decidable for every concrete `d` -/
def CodecAt (d : Dbl) : Prop := PyFloat.parse (Dbl.encode d false) = some d
instance (d : Dbl) : Decidable (CodecAt d) := by unfold CodecAt; infer_instance
/-- the law for all canonical finite doubles (NOT proved here; `zadd_zscore_roundtrip_partial` needs it only at the
one double concerned) -/
def CodecLaw : Prop := ∀ neg m e, Canon (.fin neg m e) → CodecAt (.fin neg m e)

theorem codecAt_inf (neg : Bool) : CodecAt (.inf neg) := by cases neg <;> decide +kernel

/-- **`zadd_zscore_roundtrip_partial`** — `ZADD k sb m` (no option words) on a key that is missing or holds a sorted set
whose old score for `m`, if any, is canonical (invariant `ScoresCanon`), where `sb` decodes to a NON-ZERO double `s`
(finite or infinite), followed by `ZSCORE k m`: the reply is a bulk string that PARSES BACK TO EXACTLY `s` — in both
emulated versions — provided the codec law holds at `s`.  (Without the law: the reply is `Dbl.encode s false`, the `%.17g`
rendering `fmtG17 s` of exactly the parsed double.) -/
theorem zadd_zscore_roundtrip_partial (ctx : Ctx) (db : Db) (nd : NodupKeys db.dict) (k : Bytes) (z : ZSet)
    (e : Option Int) (hv : zsetView db.live k = some (z, e)) (sb m : Bytes) (s : Dbl)
    (hf : notZaddFlag sb) (hs : Conv.float sb = .ok s)
    (hold : ∀ old, z.get m = some old → Canon old) (hnz : s.isZero = false) :
    let o1 := HashSet.run "zadd" ctx [k, sb, m] db
    let o2 := HashSet.run "zscore" ctx [k, m] o1.db
    o2.reply = .bulk (Dbl.encode s false) ∧ o2.db.live = o1.db.live ∧
    (CodecAt s → ∃ b, o2.reply = .bulk b ∧ PyFloat.parse b = some s) := by
  intro o1 o2
  have hcan : Canon s := float_canon hs
  have hnan : s.isNaN = false := FR.C18.float_never_nan sb s hs
  have hza : zaddScore ctx.version s = s := reported_eq_self ctx.version s hcan hnz hnan
  obtain ⟨r, _, l⟩ := zadd_zscore_nonzero ctx db nd k z e hv sb m s hf hs hold (by rw [hza]; exact hnz)
  have hr : o2.reply = .bulk (Dbl.encode s false) := by
    rw [show o2.reply = _ from r, hza, fmtScore_eq, reported_eq_self ctx.version s hcan hnz hnan]
  exact ⟨hr, l, fun hc => ⟨_, hr, hc⟩⟩

/-- under the global law every finite non-zero score sent is read back exactly -/
theorem zadd_zscore_roundtrip_of_law (law : CodecLaw) (ctx : Ctx) (db : Db) (nd : NodupKeys db.dict)
    (k : Bytes) (z : ZSet) (e : Option Int) (hv : zsetView db.live k = some (z, e)) (sb m : Bytes) (s : Dbl)
    (hf : notZaddFlag sb) (hs : Conv.float sb = .ok s)
    (hold : ∀ old, z.get m = some old → Canon old) (hnz : s.isZero = false) :
    ∃ b, (HashSet.run "zscore" ctx [k, m] (HashSet.run "zadd" ctx [k, sb, m] db).db).reply = .bulk b ∧
      PyFloat.parse b = some s := by
  have hcan : Canon s := float_canon hs
  have hc : CodecAt s := by
    cases s with
    | nan => exact absurd (FR.C18.float_never_nan sb _ hs) (by decide)
    | inf b => exact codecAt_inf b
    | fin n m' e' => exact law n m' e' hcan
  exact (zadd_zscore_roundtrip_partial ctx db nd k z e hv sb m s hf hs hold hnz).2.2 hc

/-- the sign bit -/
def signBit : Dbl → Bool
  | .fin n _ _ => n
  | .inf n => n
  | .nan => false

theorem encode_zero (n : Bool) (e : Int) : Dbl.encode (.fin n 0 e) false = strBytes (if n then "-0" else "0") := by
  have h : ∀ n : Bool, Dbl.fmtG17 (.fin n 0 e) = (if n then "-" else "") ++ "0" := fun n => rfl
  show strBytes (Dbl.fmtG17 (.fin n 0 e)) = _
  rw [h]
  cases n <;> rfl

/-- **the sign of zero** — when the score sent is a zero (`0`, `-0`, `0e5`, `-0.0` …) ZSCORE answers `0` or `-0`:
always `0` in version 7 (which prints `0.0 + score`); in version 6 the sign of the zero now stored, which is the OLD
sign if the member already had a zero score (an IEEE-equal score is not rewritten), and the sign sent otherwise -/
theorem zadd_zscore_zero_sign (ctx : Ctx) (db : Db) (nd : NodupKeys db.dict) (k : Bytes) (z : ZSet)
    (e : Option Int) (hv : zsetView db.live k = some (z, e)) (sb m : Bytes) (s : Dbl)
    (hf : notZaddFlag sb) (hs : Conv.float sb = .ok s) (hz : s.isZero = true) :
    let o1 := HashSet.run "zadd" ctx [k, sb, m] db
    let o2 := HashSet.run "zscore" ctx [k, m] o1.db
    ∃ neg : Bool, o2.reply = .bulk (strBytes (if neg then "-0" else "0")) ∧
      (7 ≤ ctx.version → neg = false) ∧
      (ctx.version < 7 → (∀ old, z.get m = some old → old.isZero = true → neg = signBit old) ∧
        ((z.get m = none ∨ ∃ old, z.get m = some old ∧ old.isZero = false) → neg = signBit s)) := by
  intro o1 o2
  have hzz : (zaddScore ctx.version s).isZero = true := by
    unfold zaddScore
    split
    · cases s with
      | nan => cases hz
      | inf b => cases hz
      | fin n m' e' =>
        cases m' with
        | succ j => cases hz
        | zero =>
          have hc : Canon (.fin n 0 e') := float_canon hs
          have : e' = -1074 := by
            rcases hc with ⟨_, h⟩ | ⟨h, _⟩
            · exact h
            · exact absurd h (by decide)
          subst this
          rw [plusZero_zero]; rfl
    · exact hz
  obtain ⟨s', r, hs'z, h1, h2, h3⟩ := zadd_zscore_zero ctx db nd k z e hv sb m s hf hs hzz
  -- `s'` is a zero: its rendering is `0` / `-0`
  obtain ⟨n', e', rfl⟩ : ∃ n' e', s' = .fin n' 0 e' := by
    cases s' with
    | nan => cases hs'z
    | inf b => cases hs'z
    | fin n' m' e' =>
      cases m' with
      | succ j => cases hs'z
      | zero => exact ⟨n', e', rfl⟩
  by_cases h7 : 7 ≤ ctx.version
  · refine ⟨false, ?_, fun _ => rfl, fun h => by omega⟩
    rw [show o2.reply = _ from r, fmtScore_eq]
    unfold reported
    rw [if_pos h7]
    have : (Dbl.fin n' 0 e').plusZero = .fin false 0 (-1074) := by
      show Dbl.addFin false 0 (-1074) n' 0 e' = _
      unfold Dbl.addFin
      simp
    rw [this]; rfl
  · have hz6 : zaddScore ctx.version s = s := zaddScore_v6 ctx.version (by omega) s
    refine ⟨n', ?_, fun h => absurd h h7, fun _ => ⟨?_, ?_⟩⟩
    · rw [show o2.reply = _ from r, fmtScore_eq]
      unfold reported
      rw [if_neg h7]
      exact congrArg Reply.bulk (encode_zero n' e')
    · intro old ho hoz
      rw [← h1 old ho hoz]; rfl
    · rintro (hn | ⟨old, ho, hoz⟩)
      · have := h3 hn
        rw [hz6] at this
        rw [← this]; rfl
      · have := h2 old ho hoz
        rw [hz6] at this
        rw [← this]; rfl

-- non-vacuity (database, contexts and sorted set of `FR/Proofs/C18fRun.lean`): the law holds at the doubles used, at
-- the extremes, and at `0.1`
example : CodecAt (.fin false 6755399441055744 (-52)) ∧ CodecAt (Dbl.ofDecimal false 1 (-1)) ∧
    CodecAt (.fin false 1 (-1074)) ∧ CodecAt (.fin true (2 ^ 53 - 1) 971) ∧
    CodecAt (Dbl.ofDecimal true 123456789012345678 (-30)) := by
  decide +kernel
example :
    NodupKeys runExDb.dict ∧ zsetView runExDb.live [122] = some (runExZ, some 90) ∧
    notZaddFlag (strBytes "1.5") ∧ (Conv.float (strBytes "1.5")).toOption = some (.fin false 6755399441055744 (-52)) ∧
    (∀ old, runExZ.get [109] = some old → Canon old) ∧
    (Dbl.fin false 6755399441055744 (-52)).isZero = false ∧
    (Conv.float (strBytes "-0.0e3")).toOption = some (.fin true 0 (-1074)) := by
  have hinv : runExZ.Inv := rebuild_inv _ (by decide)
  have hc : ScoresCanon runExZ := by unfold ScoresCanon; decide +kernel
  exact ⟨by decide, by rfl, by decide +kernel, by decide +kernel, hold_of_scoresCanon hinv hc _, by decide,
    by decide +kernel⟩

/-! ## 6. Where the FULL statements fail: the model's exponent saturation (megabyte-sized literals only)

`PyFloat.parseExp` replaces a written exponent of more than six significant digits by `±10^6` ("already saturates").  That is
harmless unless the mantissa itself has about a million digits.  The two theorems below exhibit, kernel-checked, a literal
of 1 000 010 bytes on which `float_decode_value_partial` fails without `NoClamp`, and one of 2 000 010 bytes on which
`float_decode_accepts_iff_partial` fails without the length bound.  REPLAY on the real code
(`/venv/bin/python`, `fakeredis._commands.Float.decode`):
`Float.decode(b'0.' + b'0'*999999 + b'1e1000001')  = 10.0` (model: `1.0`),
`Float.decode(b'0.' + b'0'*1999999 + b'1e2000000') = 1.0`  (model: refused as an underflow).
So here the MODEL deviates from the code (CPython's `float` is exact); real Redis (`strtod`) agrees with the code. -/

/-- `0.` followed by `n` zeros and a `1`, then `e` and the digits `ds` -/
def bigLit (n : Nat) (ds : Bytes) : DecLit := ⟨.none, [48], some (List.replicate n 48 ++ [49]), some ⟨101, .none, ds⟩⟩

theorem bigLit_facts (n : Nat) (ds : Bytes) (hd : Digits ds) (hne : ds ≠ []) :
    (bigLit n ds).Valid ∧ (bigLit n ds).mant = 1 ∧ (bigLit n ds).fp.length = n + 1 ∧
    (bigLit n ds).sign.neg = false ∧ expoC (bigLit n ds) = clampE ds ∧ (bigLit n ds).expo = decNat ds ∧
    (bigLit n ds).render.length = n + 4 + ds.length := by
  have hfp : (bigLit n ds).fp = List.replicate n 48 ++ [49] := rfl
  have hip : (bigLit n ds).ip = [48] := rfl
  refine ⟨⟨by rw [hip]; decide, ?_, Or.inl (by rw [hip]; decide), ?_⟩, ?_, ?_, rfl, rfl, rfl, ?_⟩
  · rw [hfp]; exact (digits_zeros n).append (by decide)
  · intro x hx
    have : x = ⟨101, .none, ds⟩ := by
      have : (bigLit n ds).exp = some ⟨101, .none, ds⟩ := rfl
      rw [this] at hx; exact (Option.some.inj hx).symm
    subst this
    exact ⟨Or.inl rfl, hd, hne⟩
  · unfold DecLit.mant
    have a : decNat [48] = 0 := by decide
    have b : decNat [49] = 1 := by decide
    rw [hfp, hip, decNat_append, decNat_append, decNat_zeros, a, b]
    omega
  · rw [hfp, List.length_append, List.length_replicate]; rfl
  · show ([] ++ ([48] ++ ((46 :: (List.replicate n 48 ++ [49])) ++ (101 :: ([] ++ ds))))).length = _
    simp only [List.nil_append, List.length_append, List.length_cons, List.length_nil, List.length_replicate]
    omega

/-- the exponent digits `1000001` and `2000000` -/
def ds1 : Bytes := [49, 48, 48, 48, 48, 48, 49]
def ds2 : Bytes := [50, 48, 48, 48, 48, 48, 48]


/-- generic in the number of zeros, so that nothing ever evaluates a million-element list -/
theorem value_witness (n : Nat) (hn : n + 1 = 1000000) :
    (bigLit n ds1).render.length = 1000010 ∧ Conv.float (bigLit n ds1).render = .ok Dbl.one ∧ (bigLit n ds1).Valid ∧
      (bigLit n ds1).rat = 10 ∧ roundAbs (bigLit n ds1).sign.neg (bigLit n ds1).rat = Dbl.ofInt 10 := by
  obtain ⟨hv, hm, hfl, hsg, hxc, hxe, hlen⟩ := bigLit_facts n ds1 (by decide) (by decide)
  have hc : clampE ds1 = 1000000 := by decide
  have he : decNat ds1 = 1000001 := by decide
  have hl7 : ds1.length = 7 := rfl
  have hx : (1000000 : Int) - ((n + 1 : Nat) : Int) = 0 := by omega
  have hmv : modelVal (bigLit n ds1) = Dbl.one := by
    unfold modelVal
    rw [hm, hfl, hsg, hxc, hc, hx]
    decide +kernel
  have hx1 : ((1000001 : Nat) : Int) - ((n + 1 : Nat) : Int) = 1 := by omega
  have hnum : (bigLit n ds1).ratNum = 10 := by
    unfold DecLit.ratNum DecLit.exp10
    rw [hm, hfl, hxe, he, hx1]; rfl
  have hden : (bigLit n ds1).ratDen = 1 := by
    unfold DecLit.ratDen DecLit.exp10
    rw [hfl, hxe, he, hx1]; rfl
  have hrat : (bigLit n ds1).rat = 10 := by
    unfold DecLit.rat
    rw [hnum, hden, hsg]; rfl
  have hra : roundAbs (bigLit n ds1).sign.neg (bigLit n ds1).rat = Dbl.ofInt 10 := by
    rw [roundAbs_rat, hnum, hden, hsg]; decide +kernel
  refine ⟨by rw [hlen, hl7]; omega, ?_, hv, hrat, hra⟩
  rw [float_decode_iff]
  refine Or.inl ⟨_, hv, rfl, hmv.symm, ?_, ?_⟩
  · rw [← modelVal_isInf_iff, hmv]; decide
  · intro hu
    have := (modelVal_isZero_iff _).mpr (Or.inr hu)
    rw [hmv] at this; exact absurd this (by decide)

/-- **the full value statement is FALSE of the model**: the literal `0.` `0`×999999 `1e1000001` (which denotes `10`) is
accepted with the value `1.0`, not with the correctly rounded `10.0` -/
theorem float_decode_value_full_false :
    ∃ (s : Bytes) (d : Dbl) (L : DecLit), s.length = 1000010 ∧ Conv.float s = .ok d ∧ L.Valid ∧ s = L.render ∧
      L.rat = 10 ∧ d = Dbl.one ∧ roundAbs L.sign.neg L.rat = Dbl.ofInt 10 ∧ d ≠ roundAbs L.sign.neg L.rat := by
  obtain ⟨h1, h2, h3, h4, h5⟩ := value_witness 999999 rfl
  exact ⟨_, Dbl.one, bigLit 999999 ds1, h1, h2, h3, rfl, h4, rfl, h5, by rw [h5]; decide +kernel⟩

theorem accepts_witness (n : Nat) (hn : n + 1 = 2000000) :
    (bigLit n ds2).render.length = 2000010 ∧ (bigLit n ds2).Valid ∧ (bigLit n ds2).rat = 1 ∧
      ¬ Overflows (bigLit n ds2) ∧ ¬ Underflows (bigLit n ds2) ∧
      Conv.float (bigLit n ds2).render = .error Msgs.INVALID_FLOAT_MSG := by
  obtain ⟨hv, hm, hfl, hsg, hxc, hxe, hlen⟩ := bigLit_facts n ds2 (by decide) (by decide)
  have hc : clampE ds2 = 1000000 := by decide
  have he : decNat ds2 = 2000000 := by decide
  have hl7 : ds2.length = 7 := rfl
  have hx : (1000000 : Int) - ((n + 1 : Nat) : Int) = -1000000 := by omega
  have hmv : modelVal (bigLit n ds2) = .fin false 0 (-1074) := by
    unfold modelVal
    rw [hm, hfl, hsg, hxc, hc, hx]
    exact ofDecimal_zero_of false 1 _ 1 (by decide) (by decide) (by decide)
  have hx1 : ((2000000 : Nat) : Int) - ((n + 1 : Nat) : Int) = 0 := by omega
  have hnum : (bigLit n ds2).ratNum = 1 := by
    unfold DecLit.ratNum DecLit.exp10
    rw [hm, hfl, hxe, he, hx1]; rfl
  have hden : (bigLit n ds2).ratDen = 1 := by
    unfold DecLit.ratDen DecLit.exp10
    rw [hfl, hxe, he, hx1]; rfl
  have hrat : (bigLit n ds2).rat = 1 := by
    unfold DecLit.rat
    rw [hnum, hden, hsg]; rfl
  refine ⟨by rw [hlen, hl7]; omega, hv, hrat, ?_, ?_, ?_⟩
  · unfold Overflows; rw [hnum, hden]; decide +kernel
  · unfold Underflows; rw [hnum, hden]; exact fun h => absurd h.2 (by decide +kernel)
  · apply float_decode_refuses
    rintro ⟨_, hr⟩
    apply (hr _ hv rfl).2
    have hz := (modelVal_isZero_iff (bigLit n ds2)).mp (by rw [hmv]; rfl)
    exact hz.resolve_left (by rw [hm]; decide)

/-- **the full acceptance statement is FALSE of the model**: the literal `0.` `0`×1999999 `1e2000000` is in the grammar and
denotes exactly `1` (no overflow, no underflow), yet the model refuses it -/
theorem float_decode_accepts_full_false :
    ∃ (s : Bytes) (L : DecLit), s.length = 2000010 ∧ L.Valid ∧ s = L.render ∧ L.rat = 1 ∧
      ¬ Overflows L ∧ ¬ Underflows L ∧ Conv.float s = .error Msgs.INVALID_FLOAT_MSG := by
  obtain ⟨h1, h2, h3, h4, h5, h6⟩ := accepts_witness 1999999 rfl
  exact ⟨_, bigLit 1999999 ds2, h1, h2, rfl, h3, h4, h5, h6⟩


end FR.Props.C18f
