import FR.Proofs.SortSpec
/-!
# C02s — SORT: functional specification of the model's `sortCmd`

Anchor: `fakeredis/_fakesocket.py: FakeSocket.sort` and `FakeSocket._lookup_key`.

Only final property theorems, results (witnesses) and non-vacuity examples; helper lemmas live in
`FR/Proofs/SortSpec.lean`.

Vocabulary (all defined in `FR/Proofs/SortSpec.lean`, namespace `FR.SortSpec`):
* `wrongTy val` – the source holds a string or a hash;
* `takeItems val s` – `list(key.value)`: the elements in iteration order (a SET takes its iteration order from the next
  recorded hint, accepted iff `validHint`), and the state after the hint has been consumed;
* `Opt`, `Opt.apply`, `SpelledAll` – the option grammar; `parseSortOpts toks {} = .ok o` gives the option record `o`;
* `patKey pattern e`, `pick`, `lookupLive live e pattern` – `_lookup_key` on the live view;
* `numKey`, `numKeyed`, `numLe` – the numeric keys `(score, element)` and their comparison; `alphaKeyed`, `alphaKeyLe` –
  the ALPHA keys (weights) and their comparison;
* `stableSort le l` (model) – stable insertion sort; `descSort le l = (stableSort le l.reverse).reverse` – what the model
  computes for DESC (Python's `sort(reverse=True)`); `SortedBy le desc ks L` – "`L` is `ks` sorted stably";
* `sortedLive live val o items` – the sequence after the sorting phase; `rowsOf o sorted n` – after LIMIT;
  `outLive live o rows` – after GET; `specLive` – all three (error or the list that is replied / stored);
* `storeCI dst vals`, `Sys.wbStep`, `notifyFn` – the write-back of STORE;
* `ssig` – the signature `(Key(),), (bytes,)`; `srcVal db key` – the live value of the source key.
-/
namespace FR.Props.C02s
open FR FR.SortSpec

/-! ## 0. The monadic body is the pure description; the options -/

/-- `sortCmd` (a hint read, an option parser, three loops with look-ups in the state monad, a write-back) equals
`core`: a pure function of the state. -/
theorem body_eq_core (c d k : Nat) (rest : List Arg) (cis : List CI) (s : Sys) (hd : d < s.srv.dbs.length) :
    sortCmd c d (.key k :: rest) cis s = core d k rest cis s :=
  sortCmd_eq c d k rest cis s hd

/-- The body in terms of the LIVE VIEW of database `d`: when the source is not wrong-typed, the options parse to `o`
and the elements are `items`, the outcome is `specLive` (sorting, then LIMIT, then GET):
an error leaves the database as it was up to lazy deletions (`Reads`); without STORE the reply is the list and again
only lazy deletions happen; with STORE the reply is the length and the list is written back (`wbStep`, see §6). -/
theorem body_on_live_view (c d k : Nat) (rest : List Arg) (cis : List CI) (s : Sys) (hd : d < s.srv.dbs.length)
    (nd : NodupKeys (s.dbAt d).dict)
    (hw : wrongTy (ciAt cis k).val = false) (o : SortOpts) (hp : parseSortOpts (Cmd.rawArgs rest) {} = .ok o)
    (items : List Bytes) (hi : (takeItems (ciAt cis k).val s).1 = some items) :
    ∃ db', Reads (s.dbAt d) db' ∧
      sortCmd c d (.key k :: rest) cis s =
        (match specLive (s.dbAt d).live (ciAt cis k).val o items with
         | .error e => (.error e, (takeItems (ciAt cis k).val s).2.setDbS d db')
         | .ok out =>
           match o.store with
           | none => (.ok (.arr (out.map Reply.ofOptBulk), cis), (takeItems (ciAt cis k).val s).2.setDbS d db')
           | some dst =>
             (.ok (.int (out.map fun x => x.getD []).length, cis),
              ((takeItems (ciAt cis k).val s).2.setDbS d db').wbStep d (storeCI dst (out.map fun x => x.getD [])))) :=
  sortCmd_run c d k rest cis s hd nd hw o hp items hi

/-- the three phases, in this order: sorting, then LIMIT (on the sorted sequence, with `n` = number of elements),
then GET expansion of the selected rows -/
theorem phases (live : Bytes → Option Item) (val : Option Value) (o : SortOpts) (items : List Bytes) :
    specLive live val o items =
      (match sortedLive live val o items with
       | .error e => .error e
       | .ok sorted => .ok (outLive live o (rowsOf o sorted items.length))) := rfl

/-- OPTIONS: a token list is accepted iff it is a sequence of options
`ASC | DESC | ALPHA | LIMIT off cnt | STORE dst | BY pat | GET pat` (keywords in any letter case, `off`/`cnt` canonical
64-bit integers); the record is obtained by applying them from left to right. -/
theorem options_grammar (toks : List Bytes) (o o' : SortOpts) :
    parseSortOpts toks o = .ok o' ↔ ∃ opts, SpelledAll opts toks ∧ o' = opts.foldl Opt.apply o :=
  parse_iff toks o o'

/-- what each option does: the last of ASC/DESC wins, ALPHA is sticky, the last LIMIT / STORE / BY wins, GET patterns
accumulate in order; `BY pat` switches sorting off iff `pat` contains no `*` (nothing of an earlier BY survives, see
`last_by_decides`) -/
theorem option_effects (o : SortOpts) :
    Opt.apply o .asc = { o with desc := false } ∧ Opt.apply o .desc = { o with desc := true } ∧
    Opt.apply o .alpha = { o with alpha := true } ∧
    (∀ s c, Opt.apply o (.limit s c) = { o with limitStart := s, limitCount := c }) ∧
    (∀ x, Opt.apply o (.store x) = { o with store := some x }) ∧
    (∀ x, Opt.apply o (.sortBy x) =
      { o with sortby := some x, dontsort := !x.contains 42 }) ∧
    (∀ x, Opt.apply o (.get x) = { o with gets := o.gets ++ [x] }) :=
  ⟨rfl, rfl, rfl, fun _ _ => rfl, fun _ => rfl, fun _ => rfl, fun _ => rfl⟩

/-- THE LAST BY DECIDES: if `BY x` is followed by no other BY, the pattern is `x` and sorting is switched off iff `x`
contains no `*`, whatever came before; without any BY the defaults stay (sort by the elements themselves). -/
theorem last_by_decides (pre rest : List Opt) (x : Bytes) (h : ∀ op ∈ rest, op.isBy = false) (o : SortOpts) :
    ((pre ++ .sortBy x :: rest).foldl Opt.apply o).sortby = some x ∧
    ((pre ++ .sortBy x :: rest).foldl Opt.apply o).dontsort = (!x.contains 42) ∧
    (∀ opts : List Opt, (∀ op ∈ opts, op.isBy = false) →
      (opts.foldl Opt.apply o).sortby = o.sortby ∧ (opts.foldl Opt.apply o).dontsort = o.dontsort) :=
  ⟨(last_by pre rest x h o).1, (last_by pre rest x h o).2, fun opts ho => foldl_noBy opts ho o⟩

/-- every other token list is `ERR syntax error` -/
theorem options_error (toks : List Bytes) (o : SortOpts) (e : Err) (h : parseSortOpts toks o = .error e) :
    e = Msgs.SYNTAX_ERROR_MSG :=
  parse_error_msg toks o e h

/-- THE SOURCE ORDER: a list is taken in list order, a sorted set in `(score, member)` order; a set takes the next
recorded hint, which is accepted iff it has the length of the stored set and the same members — for a duplicate-free
stored set: iff it is a permutation of it — and is then consumed. -/
theorem source_order {v : Option Value} {s : Sys} {items : List Bytes} (h : (takeItems v s).1 = some items) :
    (match v with
     | some (.list l) => items = l ∧ (takeItems v s).2 = s
     | some (.zset z) => items = z.byscore.map Prod.snd ∧ (takeItems v s).2 = s
     | some (.set m) => ∃ restp, s.picks = items :: restp ∧ validHint items m = true ∧
         (takeItems v s).2 = { s with picks := restp }
     | _ => items = [] ∧ (takeItems v s).2 = s) :=
  takeItems_some h

theorem hint_is_permutation {p m : List Bytes} (hm : m.Nodup) : validHint p m = true ↔ p.Perm m :=
  ⟨validHint_perm hm, validHint_of_perm⟩

/-! ## 1. Numeric sort (no ALPHA; with or without `BY pattern*`) -/

/-- NUMERIC SORT.  The key of element `v` is `(score v, v)` with `score v` = `SortFloat` of its weight (`0.0` for a
missing weight; without BY the weight is `v` itself).
* If the weight of some element does not convert, the outcome is the error
  `ERR One or more scores can't be converted into double`.
* Otherwise the result is the element column of `L`, where `L` is the list `ks` of keyed elements sorted by `numLe`
  (score, ties by the bytes of the element): a permutation, non-decreasing (ASC) / non-increasing (DESC), elements with
  tied keys in source order — and `L` is the ONLY list with these three properties. -/
theorem numeric_sort (live : Bytes → Option Item) (val : Option Value) (o : SortOpts) (items : List Bytes)
    (hd : o.dontsort = false) (ha : o.alpha = false) :
    (match numKeyed live (o.sortby.getD [35]) items with
     | .error e => sortedLive live val o items = .error e ∧ e = Msgs.INVALID_SORT_FLOAT_MSG
     | .ok ks =>
       ks.map Prod.snd = items ∧
       (∀ p ∈ ks, numKey live (o.sortby.getD [35]) p.2 = .ok p.1 ∧ p.1.isNaN = false) ∧
       ∃ L, sortedLive live val o items = .ok (L.map Prod.snd) ∧ SortedBy numLe o.desc ks L ∧
         ∀ L', SortedBy numLe o.desc ks L' → L' = L) := by
  rw [sortedLive_numeric hd ha]
  cases hk : numKeyed live (o.sortby.getD [35]) items with
  | error e => exact ⟨rfl, numKeyed_error_msg hk⟩
  | ok ks =>
    have hS := numKeyed_noNaN hk
    have hm := sortedBy_model numLe numLe_totalPre o.desc ks hS
    exact ⟨(numKeyed_ok hk).1, (numKeyed_ok hk).2, _, rfl, hm,
      fun L' h' => SortedBy.unique numLe_totalPre hS h' hm⟩

/-- the numeric key: without BY it is the element's own value, with BY the looked-up weight, `0.0` if missing -/
theorem numeric_key (live : Bytes → Option Item) (pat v : Bytes) :
    numKey live [35] v = Conv.sortFloat v ∧
    numKey live pat v = (match lookupLive live v pat with
      | none => .ok Dbl.zero
      | some b => Conv.sortFloat b) :=
  ⟨rfl, rfl⟩

/-- the comparison: by score, ties by the byte order of the elements (so only equal elements tie) -/
theorem numeric_le (a b : Dbl × Bytes) (ha : a.1.isNaN = false) (hb : b.1.isNaN = false) :
    numLe a b = true ↔ (Dbl.lt a.1 b.1 = true ∨ (Dbl.eq a.1 b.1 = true ∧ bytesLe a.2 b.2 = true)) :=
  numLe_iff a b ha hb

/-- the conversion error is raised exactly when some element's weight does not convert -/
theorem numeric_error_iff (live : Bytes → Option Item) (val : Option Value) (o : SortOpts) (items : List Bytes)
    (hd : o.dontsort = false) (ha : o.alpha = false) :
    (∃ e, sortedLive live val o items = .error e) ↔
      ∃ v ∈ items, ∃ e, numKey live (o.sortby.getD [35]) v = .error e := by
  rw [sortedLive_numeric hd ha, ← numKeyed_error_iff]
  cases numKeyed live (o.sortby.getD [35]) items <;> simp

/-- the result of sorting is a permutation of the elements (every mode) -/
theorem sorted_is_permutation {live : Bytes → Option Item} {val : Option Value} {o : SortOpts} {items sorted : List Bytes}
    (h : sortedLive live val o items = .ok sorted) : sorted.Perm items :=
  sortedLive_perm h

/-- DESC, which one is it?  The model computes `(stableSort le l.reverse).reverse`; for a total preorder this IS the
stable sort by the reversed comparison (tied elements keep their source order) … -/
theorem desc_is_stable_sort_by_reversed_comparison :
    (∀ ks : List (Dbl × Bytes), (∀ a ∈ ks, a.1.isNaN = false) →
      descSort numLe ks = stableSort (fun a b => numLe b a) ks) ∧
    (∀ ks : List (Option Bytes × Bytes), descSort alphaKeyLe ks = stableSort (fun a b => alphaKeyLe b a) ks) :=
  ⟨fun ks h => descSort_eq_stableSort_flip numLe numLe_totalPre ks h,
   fun ks => descSort_eq_stableSort_flip alphaKeyLe alphaKeyLe_totalPre ks (fun _ _ => trivial)⟩

/-- … and it is NOT the reverse of the ascending sort: with `BY w_* ALPHA` and no weight present, `a, b` stays `a, b`
under DESC, while the reversed ascending sort would be `b, a`. -/
theorem desc_is_not_reverse_of_ascending :
    (sortedLive (fun _ => none) (some (.list [[97], [98]]))
      { alpha := true, sortby := some (strBytes "w_*"), desc := true } [[97], [98]]).toOption = some [[97], [98]] ∧
    (sortedLive (fun _ => none) (some (.list [[97], [98]]))
      { alpha := true, sortby := some (strBytes "w_*"), desc := false } [[97], [98]]).toOption.map List.reverse =
      some [[98], [97]] := by
  decide +kernel

/-! ## 2. ALPHA -/

/-- ALPHA SORT.  The key of an element is its weight (`BeforeAny` = `none` for a missing one; without BY the element
itself); the result is the element column of the keyed list sorted by `alphaKeyLe` (missing weights first, then byte-wise
lexicographic order of the WEIGHTS only): permutation, monotone, elements with equal weights in source order; unique. -/
theorem alpha_sort (live : Bytes → Option Item) (val : Option Value) (o : SortOpts) (items : List Bytes)
    (hd : o.dontsort = false) (ha : o.alpha = true) :
    ∃ L, sortedLive live val o items = .ok (L.map Prod.snd) ∧
      SortedBy alphaKeyLe o.desc (alphaKeyed live (o.sortby.getD [35]) items) L ∧
      ∀ L', SortedBy alphaKeyLe o.desc (alphaKeyed live (o.sortby.getD [35]) items) L' → L' = L := by
  rw [sortedLive_alpha hd ha]
  have hm := sortedBy_model alphaKeyLe alphaKeyLe_totalPre o.desc (alphaKeyed live (o.sortby.getD [35]) items)
    (fun _ _ => trivial)
  exact ⟨_, rfl, hm, fun L' h' => SortedBy.unique alphaKeyLe_totalPre (fun _ _ => trivial) h' hm⟩

/-- the ALPHA keys and their order -/
theorem alpha_key (live : Bytes → Option Item) (pat : Bytes) (items : List Bytes) :
    alphaKeyed live pat items = items.map (fun v => (lookupLive live v pat, v)) ∧
    (∀ a b : Option Bytes × Bytes, alphaKeyLe a b =
      match a.1, b.1 with
      | none, _ => true
      | some _, none => false
      | some x, some y => bytesLe x y) := by
  refine ⟨rfl, fun a b => ?_⟩
  unfold alphaKeyLe alphaLe
  cases a.1 <;> cases b.1 <;> rfl

/-- ALPHA without BY: the result is THE permutation of the elements that is sorted by the byte-wise lexicographic order
(`bytesLe` is a total order, so equal elements are the only ties). -/
theorem alpha_plain (live : Bytes → Option Item) (val : Option Value) (o : SortOpts) (items : List Bytes)
    (hd : o.dontsort = false) (ha : o.alpha = true) (hb : o.sortby = none) :
    ∃ sorted, sortedLive live val o items = .ok sorted ∧ sorted.Perm items ∧
      sorted.Pairwise (fun a b => if o.desc = true then bytesLe b a = true else bytesLe a b = true) ∧
      ∀ l, l.Perm items →
        l.Pairwise (fun a b => if o.desc = true then bytesLe b a = true else bytesLe a b = true) → l = sorted := by
  obtain ⟨L, h1, h2, _⟩ := alpha_sort live val o items hd ha
  have hp : (L.map Prod.snd).Perm items := sortedLive_perm h1
  have hL : ∀ p ∈ L, p.1 = some p.2 := by
    intro p hp'
    have := h2.perm.mem_iff.mp hp'
    rw [hb, Option.getD_none, alphaKeyed_plain] at this
    obtain ⟨v, _, rfl⟩ := List.mem_map.mp this
    rfl
  have hs := pairwise_alpha_plain hL o.desc h2.sorted
  exact ⟨_, h1, hp, hs, fun l hl hls => bytes_sorted_unique o.desc (hl.trans hp.symm) hls hs⟩

/-- the byte order is a total order -/
theorem byte_order :
    (∀ x y, bytesLe x y = true ∨ bytesLe y x = true) ∧
    (∀ x y z, bytesLe x y = true → bytesLe y z = true → bytesLe x z = true) ∧
    (∀ x y, bytesLe x y = true → bytesLe y x = true → x = y) :=
  ⟨bytesLe_total, fun _ _ _ => bytesLe_trans, fun _ _ => bytesLe_antisymm⟩

/-! ## 3. LIMIT -/

/-- LIMIT offset count selects, from the SORTED sequence (before GET), the `count` rows starting at row
`max offset 0`; a negative count means "to the end". -/
theorem limit_slice {live : Bytes → Option Item} {val : Option Value} {o : SortOpts} {items sorted : List Bytes}
    (h : sortedLive live val o items = .ok sorted) :
    rowsOf o sorted items.length =
      (sorted.drop (max o.limitStart 0).toNat).take
        (if o.limitCount < 0 then sorted.length else o.limitCount.toNat) := by
  rw [← sortedLive_length h]; exact rowsOf_eq o sorted

/-- corollaries: an offset at or beyond the end gives nothing; a negative count gives the rest; no LIMIT gives all -/
theorem limit_cases (o : SortOpts) (sorted : List Bytes) :
    (sorted.length ≤ (max o.limitStart 0).toNat → rowsOf o sorted sorted.length = []) ∧
    (o.limitCount < 0 → rowsOf o sorted sorted.length = sorted.drop (max o.limitStart 0).toNat) ∧
    (o.limitStart = 0 → o.limitCount = -1 → rowsOf o sorted sorted.length = sorted) :=
  ⟨rowsOf_beyond o sorted, rowsOf_negative_count o sorted, rowsOf_default o sorted⟩

/-! ## 4. BY -/

/-- BY with a pattern WITHOUT `*` ("nosort"): no sorting and no weight look-up.  A LIST keeps its list order and a
SORTED SET its ascending `(score, member)` order; both are reversed exactly when DESC is given.  A SET keeps the
(hinted) iteration order, with or without DESC.  LIMIT then applies to this sequence (see `phases`). -/
theorem by_nosort (live : Bytes → Option Item) (val : Option Value) (o : SortOpts) (items : List Bytes)
    (hd : o.dontsort = true) :
    sortedLive live val o items =
      .ok (match val with
        | some (.list _) | some (.zset _) => if o.desc then items.reverse else items
        | _ => items) :=
  sortedLive_nosort hd

/-- BY pattern: the weight of element `e` is `lookupLive live e pattern`:
`#` is `e` itself; otherwise the FIRST `*` is replaced by `e`; if the rest contains `->` (first occurrence, not at the
very end) the weight is that field of the HASH stored at the key, else it is the STRING stored at the key; a missing
key, a value of the other types, or a missing field give no weight. -/
theorem by_weight (live : Bytes → Option Item) (e pattern : Bytes) :
    lookupLive live e pattern =
      (if pattern == [35] then some e
       else match patKey pattern e with
         | none => none
         | some (k, field) =>
           match live k with
           | none => none
           | some it =>
             match field, it.value with
             | some f, .hash h => h.lookup f
             | some _, _ => none
             | none, .str b => some b
             | none, _ => none) := by
  unfold lookupLive pick
  by_cases h : (pattern == [35]) = true
  · simp only [h, if_true]
  · simp only [h, Bool.false_eq_true, if_false]
    cases patKey pattern e with
    | none => rfl
    | some p =>
      obtain ⟨k, f⟩ := p
      cases live k <;> rfl

/-- the substituted key -/
theorem by_key (pre suf e : Bytes) (h : (42 : UInt8) ∉ pre) :
    (∀ pat, pat.contains 42 = false → patKey pat e = none) ∧
    (findSub [45, 62] (suf.take (suf.length - 1)) = none →
      patKey (pre ++ 42 :: suf) e = some (pre ++ e ++ suf, none)) ∧
    (∀ a, findSub [45, 62] (suf.take (suf.length - 1)) = some a →
      patKey (pre ++ 42 :: suf) e = some (pre ++ e ++ suf.take a, some (suf.drop (a + 2)))) :=
  ⟨fun pat hp => patKey_nostar pat e hp, patKey_plain pre suf e h, fun a => patKey_field pre suf e a h⟩

/-- `bytes.find`: `some r` is the first occurrence, `none` means there is none -/
theorem find_spec (needle hay : Bytes) :
    (∀ r, findSub needle hay = some r →
      r ≤ hay.length ∧ (hay.drop r).take needle.length = needle ∧
        ∀ j, j < r → (hay.drop j).take needle.length ≠ needle) ∧
    (findSub needle hay = none → ∀ j, j ≤ hay.length → (hay.drop j).take needle.length ≠ needle) :=
  ⟨fun _ h => findSub_some h, findSub_none⟩

/-- missing weights: numerically `0.0`; under ALPHA before every present weight (and tied with each other) -/
theorem missing_weight (live : Bytes → Option Item) (pat v : Bytes) (h : lookupLive live v pat = none) :
    numKey live pat v = .ok Dbl.zero ∧
    (∀ b : Option Bytes × Bytes, alphaKeyLe (lookupLive live v pat, v) b = true) := by
  refine ⟨by unfold numKey; rw [h], fun b => ?_⟩
  rw [h]; rfl

/-! ## 5. GET -/

/-- GET: every selected row is replaced by the values of the GET patterns, in order (`#` = the element, a missing
value = nil, which STORE turns into the empty string); without GET the row itself. -/
theorem get_expansion (live : Bytes → Option Item) (o : SortOpts) (rows : List Bytes) :
    outLive live o rows =
      rows.flatMap (fun row =>
        (if o.gets.isEmpty then [[35]] else o.gets).map fun g =>
          let v := lookupLive live row g
          if o.store.isSome && v.isNone then some [] else v) ∧
    (∀ row, lookupLive live row [35] = some row) ∧
    (o.gets = [] → outLive live o rows = rows.map some) :=
  ⟨rfl, fun _ => rfl, outLive_plain live o rows⟩

/-! ## 6. STORE, and the state without STORE (through the generic runner `runWith`) -/

/-- THE COMMAND, end to end (signature, body, write-back of the runner): reply and state for a source that is not
wrong-typed, options that parse, and elements `items` (for a set: the accepted hint). -/
theorem command (inner : Inner) (mode : Mode) (c : Nat) (key : Bytes) (bs : List Bytes) (fs : Bool) (s : Sys)
    (hd : (s.conn c).db < s.srv.dbs.length) (nd : NodupKeys (s.dbAt (s.conn c).db).dict)
    (hg : runGate ssig fs ((s.conn c).pubsub > 0) = none)
    (hw : wrongTy (srcVal (s.dbAt (s.conn c).db) key) = false)
    (o : SortOpts) (hp : parseSortOpts bs {} = .ok o) (items : List Bytes)
    (hi : (takeItems (srcVal (s.dbAt (s.conn c).db) key) s).1 = some items) :
    ∃ db', Reads (s.dbAt (s.conn c).db) db' ∧
      runWith (special inner) mode c ssig (key :: bs) fs s =
        (match specLive (s.dbAt (s.conn c).db).live (srcVal (s.dbAt (s.conn c).db) key) o items with
         | .error e =>
           (some (.err (strBytes e)),
            (takeItems (srcVal (s.dbAt (s.conn c).db) key) s).2.setDbS (s.conn c).db db')
         | .ok out =>
           match o.store with
           | none =>
             (some (.arr (out.map Reply.ofOptBulk)),
              (takeItems (srcVal (s.dbAt (s.conn c).db) key) s).2.setDbS (s.conn c).db db')
           | some dst =>
             (some (.int (out.map fun x => x.getD []).length),
              ((takeItems (srcVal (s.dbAt (s.conn c).db) key) s).2.setDbS (s.conn c).db db').wbStep (s.conn c).db
                (storeCI dst (out.map fun x => x.getD [])))) :=
  run_sort inner mode c key bs fs s hd nd hg hw o hp items hi

/-- STORE dst: the reply is the length of the result; `dst` then holds the result as a LIST without deadline,
whatever it held before — or is deleted when the result is empty; every other key keeps its live entry;
`notify_watch(dst)` runs (watchers of `dst` are flagged, blocked clients of the database woken). -/
theorem store (inner : Inner) (mode : Mode) (c : Nat) (key : Bytes) (bs : List Bytes) (fs : Bool) (s : Sys)
    (hd : (s.conn c).db < s.srv.dbs.length) (nd : NodupKeys (s.dbAt (s.conn c).db).dict)
    (hg : runGate ssig fs ((s.conn c).pubsub > 0) = none)
    (hw : wrongTy (srcVal (s.dbAt (s.conn c).db) key) = false)
    (o : SortOpts) (hp : parseSortOpts bs {} = .ok o) (items : List Bytes)
    (hi : (takeItems (srcVal (s.dbAt (s.conn c).db) key) s).1 = some items)
    (out : List (Option Bytes))
    (hs : specLive (s.dbAt (s.conn c).db).live (srcVal (s.dbAt (s.conn c).db) key) o items = .ok out)
    (dst : Bytes) (hst : o.store = some dst) :
    ∃ dbf,
      runWith (special inner) mode c ssig (key :: bs) fs s =
        (some (.int (out.map fun x => x.getD []).length),
         ((takeItems (srcVal (s.dbAt (s.conn c).db) key) s).2.setDbS (s.conn c).db dbf).mapConns
           (notifyFn (s.conn c).db dst)) ∧
      dbf.live dst = (if (out.map fun x => x.getD []) = [] then none
        else some ⟨.list (out.map fun x => x.getD []), none⟩) ∧
      (∀ k, k ≠ dst → dbf.live k = (s.dbAt (s.conn c).db).live k) ∧
      NodupKeys dbf.dict ∧ dbf.time = (s.dbAt (s.conn c).db).time ∧
      (∀ q ∈ dbf.dict, q ∈ (s.dbAt (s.conn c).db).dict ∨ q = (dst, ⟨.list (out.map fun x => x.getD []), none⟩)) :=
  run_store inner mode c key bs fs s hd nd hg hw o hp items hi out hs dst hst

/-- a connection that watches the destination is flagged; nobody's watch list changes -/
theorem store_notifies (d : Nat) (dst : Bytes) (x : Conn) :
    (x.watches.contains (d, dst) = true → (notifyFn d dst x).watchNotified = true) ∧
    (notifyFn d dst x).watches = x.watches :=
  ⟨ZStore.notifyFn_watch d dst x, ZStore.notifyFn_watches d dst x⟩

/-- WITHOUT STORE (and for a conversion error) the final state is `(takeItems v s).2.setDbS d db'` with
`Reads (s.dbAt d) db'`: connections, output, clock and fault flag are untouched, the other databases are untouched, the
live view of database `d` is the same (only expired entries may have been dropped), and only the hint of a set source has
been consumed. -/
theorem without_store_nothing_changes (v : Option Value) (s : Sys) (d : Nat) (hd : d < s.srv.dbs.length) (db' : Db)
    (hr : Reads (s.dbAt d) db') :
    let s' := (takeItems v s).2.setDbS d db'
    s'.srv.conns = s.srv.conns ∧ s'.out = s.out ∧ s'.fault = s.fault ∧ s'.clocks = s.clocks ∧
      s'.srv.time = s.srv.time ∧ s'.dbAt d = db' ∧ (∀ k, (s'.dbAt d).live k = (s.dbAt d).live k) ∧
      (∀ j, j ≠ d → s'.dbAt j = s.dbAt j) ∧
      s'.picks = (takeItems v s).2.picks :=
  frame_nostore v s d hd db' hr

/-- the only error after the options have been parsed is the conversion error -/
theorem only_conversion_error {live : Bytes → Option Item} {val : Option Value} {o : SortOpts} {items : List Bytes}
    {e : Err} (h : specLive live val o items = .error e) : e = Msgs.INVALID_SORT_FLOAT_MSG :=
  specLive_error_msg h

/-! ## 7. Wrong type, missing source, syntax error -/

/-- the source holds a string or a hash: `WRONGTYPE`, and the state is the one after the signature's look-up of the
source key (nothing but a lazy deletion); not even the hint is consumed -/
theorem wrong_type (inner : Inner) (mode : Mode) (c : Nat) (key : Bytes) (bs : List Bytes) (fs : Bool) (s : Sys)
    (hd : (s.conn c).db < s.srv.dbs.length) (nd : NodupKeys (s.dbAt (s.conn c).db).dict)
    (hg : runGate ssig fs ((s.conn c).pubsub > 0) = none)
    (hw : wrongTy (srcVal (s.dbAt (s.conn c).db) key) = true) :
    runWith (special inner) mode c ssig (key :: bs) fs s =
      (some (.err (strBytes Msgs.WRONGTYPE_MSG)),
       s.setDbS (s.conn c).db ((s.dbAt (s.conn c).db).get key).1) ∧
    Reads (s.dbAt (s.conn c).db) ((s.dbAt (s.conn c).db).get key).1 :=
  ⟨run_wrongtype inner mode c key bs fs s hd nd hg hw, Reads.get nd key⟩

theorem wrong_type_iff (db : Db) (key : Bytes) :
    wrongTy (srcVal db key) = true ↔ ∃ it, db.live key = some it ∧ (it.value.ty = .str ∨ it.value.ty = .hash) := by
  unfold srcVal
  cases db.live key with
  | none => simp [wrongTy]
  | some it =>
    obtain ⟨v, e⟩ := it
    cases v <;> simp [wrongTy, Value.ty]

/-- the type check comes first: a wrong-typed source with malformed options is still `WRONGTYPE`; otherwise malformed
options are `ERR syntax error` (the hint of a set source has been consumed by then) -/
theorem syntax_error (inner : Inner) (mode : Mode) (c : Nat) (key : Bytes) (bs : List Bytes) (fs : Bool) (s : Sys)
    (hd : (s.conn c).db < s.srv.dbs.length) (nd : NodupKeys (s.dbAt (s.conn c).db).dict)
    (hg : runGate ssig fs ((s.conn c).pubsub > 0) = none)
    (hw : wrongTy (srcVal (s.dbAt (s.conn c).db) key) = false)
    (e : Err) (hp : parseSortOpts bs {} = .error e) :
    runWith (special inner) mode c ssig (key :: bs) fs s =
      (some (.err (strBytes Msgs.SYNTAX_ERROR_MSG)),
       (takeItems (srcVal (s.dbAt (s.conn c).db) key) s).2.setDbS (s.conn c).db
         ((s.dbAt (s.conn c).db).get key).1) :=
  run_syntax inner mode c key bs fs s hd nd hg hw e hp

/-- a missing (or expired) source is the empty sequence: the outcome is the empty list whatever the options — the reply
is the empty array, or, with STORE, `0` and the destination is DELETED -/
theorem missing_source (live : Bytes → Option Item) (o : SortOpts) (db : Db) (key : Bytes) (s : Sys)
    (h : db.live key = none) :
    srcVal db key = none ∧ wrongTy none = false ∧ takeItems none s = (some [], s) ∧ specLive live none o [] = .ok [] := by
  refine ⟨by unfold srcVal; rw [h]; rfl, rfl, rfl, specLive_nil live none o⟩

/-- the signature and the dispatch entry of SORT -/
theorem signature : SigTable.find "sort" = some ssig ∧ Cmd.regular "sort" = none := by
  decide +kernel

/-! ## Results: the three former divergences from Redis 6.2 / 7.0, now positive statements -/

def bs (s : String) : Bytes := strBytes s

/-- the outcome of `SORT key opts…` when `key` holds `val` with elements `items` and no other key exists -/
def runOn (val : Value) (items : List Bytes) (opts : List String) : Option (Option (List (Option Bytes))) :=
  (parseSortOpts (opts.map bs) {}).toOption.map fun o => (specLive (fun _ => none) (some val) o items).toOption

/-- `RPUSH l a b c`: `SORT l BY nosort` replies `a b c`, with DESC `c b a`; LIMIT applies to that sequence:
`… LIMIT 0 2` replies `a b`, `… DESC LIMIT 0 2` replies `c b` -/
theorem nosort_list_keeps_order (l : List Bytes) (hl : l = [bs "a", bs "b", bs "c"]) :
    runOn (.list l) l ["BY", "nosort"] = some (some [some (bs "a"), some (bs "b"), some (bs "c")]) ∧
    runOn (.list l) l ["BY", "nosort", "DESC"] = some (some [some (bs "c"), some (bs "b"), some (bs "a")]) ∧
    runOn (.list l) l ["BY", "nosort", "LIMIT", "0", "2"] = some (some [some (bs "a"), some (bs "b")]) ∧
    runOn (.list l) l ["BY", "nosort", "DESC", "LIMIT", "0", "2"] = some (some [some (bs "c"), some (bs "b")]) := by
  subst hl
  exact ⟨by decide +kernel, by decide +kernel, by decide +kernel, by decide +kernel⟩

/-- `ZADD z 1 a 2 b`: `SORT z BY nosort` replies `a b` (ascending score), with DESC `b a` -/
theorem nosort_zset_ascending (z : ZSet)
    (hz : z = ((ZSet.empty.add (bs "b") (Dbl.ofInt 2)).1.add (bs "a") (Dbl.ofInt 1)).1) :
    runOn (.zset z) (z.byscore.map Prod.snd) ["BY", "nosort"] = some (some [some (bs "a"), some (bs "b")]) ∧
    runOn (.zset z) (z.byscore.map Prod.snd) ["BY", "nosort", "DESC"] = some (some [some (bs "b"), some (bs "a")]) := by
  subst hz; decide +kernel

/-- a SET under `BY nosort` keeps the hinted iteration order, DESC or not -/
theorem nosort_set_keeps_hint (m hint : List Bytes) (hm : m = [bs "b", bs "a", bs "c"])
    (hh : hint = [bs "c", bs "a", bs "b"]) :
    runOn (.set m) hint ["BY", "nosort"] = some (some [some (bs "c"), some (bs "a"), some (bs "b")]) ∧
    runOn (.set m) hint ["BY", "nosort", "DESC"] = some (some [some (bs "c"), some (bs "a"), some (bs "b")]) := by
  subst hm; subst hh; decide +kernel

/-- `BY nosort BY w_*` sorts by `w_*`, `BY w_* BY nosort` does not sort: the last BY decides (instances of
`last_by_decides`) -/
theorem last_by_decides_examples :
    (parseSortOpts [bs "BY", bs "nosort", bs "BY", bs "w_*"] {}).toOption.map (fun o => (o.dontsort, o.sortby)) =
      some (false, some (bs "w_*")) ∧
    (parseSortOpts [bs "BY", bs "w_*", bs "BY", bs "nosort"] {}).toOption.map (fun o => (o.dontsort, o.sortby)) =
      some (true, some (bs "nosort")) ∧
    runOn (.list [bs "2", bs "3", bs "1"]) [bs "2", bs "3", bs "1"] ["BY", "nosort", "BY", "w_*"] =
      some (some [some (bs "1"), some (bs "2"), some (bs "3")]) := by
  decide +kernel

/-! ## Non-vacuity witnesses -/

theorem ok_of_toOption {α : Type} {x : Except Err α} {l : α} (h : x.toOption = some l) : x = .ok l := by
  cases x with
  | error e => simp [Except.toOption] at h
  | ok z => simp only [Except.toOption, Option.some.injEq] at h; rw [h]

/-- the error message of an outcome -/
def errOf {α : Type} (x : Except Err α) : Option Err := match x with | .error e => some e | .ok _ => none

theorem error_of_errOf {α : Type} {x : Except Err α} {e : Err} (h : errOf x = some e) : x = .error e := by
  cases x with
  | error e' => simp only [errOf, Option.some.injEq] at h; rw [h]
  | ok z => simp [errOf] at h

def exZ : ZSet := ((ZSet.empty.add (bs "x") (Dbl.ofInt 1)).1.add (bs "y") (Dbl.ofInt 2)).1
/-- a database at time 0: a list, a set, a sorted set, two weights, two hashes, a string, a destination with a
deadline, a list with a non-numeric element, an expired list -/
def exDict : Dict :=
  [(bs "l", ⟨.list [bs "3", bs "1", bs "2"], none⟩),
   (bs "s", ⟨.set [bs "b", bs "a", bs "c"], none⟩),
   (bs "z", ⟨.zset exZ, none⟩),
   (bs "w_1", ⟨.str (bs "30"), none⟩), (bs "w_2", ⟨.str (bs "10"), none⟩),
   (bs "h_1", ⟨.hash [(bs "f", bs "one")], none⟩), (bs "h_2", ⟨.hash [(bs "f", bs "two")], none⟩),
   (bs "str", ⟨.str (bs "v"), none⟩),
   (bs "dst", ⟨.str (bs "old"), some 100⟩),
   (bs "n", ⟨.list [bs "1", bs "a"], none⟩),
   (bs "gone", ⟨.list [bs "9"], some (-5)⟩)]
def exDb : Db := ⟨exDict, 0⟩
/-- database 0 is `exDb`; connection 1 watches `(0, dst)`; one hint `c a b` is recorded -/
def exSys : Sys :=
  { srv := { dbs := exDict :: List.replicate 15 [],
             conns := [{ id := 1, watches := [(0, bs "dst")] }, { id := 2 }] },
    picks := [[bs "c", bs "a", bs "b"]] }

/-- the outcome of `SORT key opts…` on `exDb` (a set iterates in the order `hint`) -/
def run (key : String) (hint : List String) (opts : List String) : Option (List (Option Bytes)) :=
  match parseSortOpts (opts.map bs) {} with
  | .error _ => none
  | .ok o =>
    (specLive exDb.live (srcVal exDb (bs key)) o
      (match srcVal exDb (bs key) with
       | some (.list l) => l
       | some (.zset z) => z.byscore.map Prod.snd
       | some (.set _) => hint.map bs
       | _ => [])).toOption

-- §1 numeric: ascending, descending, BY weights (element 3 has no weight: 0.0), error
example : run "l" [] [] = some [some (bs "1"), some (bs "2"), some (bs "3")] := by decide +kernel
example : run "l" [] ["desc"] = some [some (bs "3"), some (bs "2"), some (bs "1")] := by decide +kernel
example : run "l" [] ["BY", "w_*"] = some [some (bs "3"), some (bs "2"), some (bs "1")] := by decide +kernel
example : run "n" [] [] = none ∧ run "n" [] ["ALPHA"] = some [some (bs "1"), some (bs "a")] := by decide +kernel
example : ∃ e, numKeyed exDb.live [35] [bs "1", bs "a"] = .error e :=
  (numKeyed_error_iff _ _ _).mpr ⟨bs "a", List.mem_cons_of_mem _ List.mem_cons_self, Msgs.INVALID_SORT_FLOAT_MSG,
    error_of_errOf (by decide +kernel)⟩
-- §2 ALPHA on the set, hinted order `c a b`
example : run "s" ["c", "a", "b"] ["ALPHA"] = some [some (bs "a"), some (bs "b"), some (bs "c")] ∧
    run "s" ["c", "a", "b"] ["ALPHA", "DESC"] = some [some (bs "c"), some (bs "b"), some (bs "a")] := by
  decide +kernel
example : validHint [bs "c", bs "a", bs "b"] [bs "b", bs "a", bs "c"] = true ∧
    validHint [bs "c", bs "a"] [bs "b", bs "a", bs "c"] = false ∧
    validHint [bs "c", bs "a", bs "a"] [bs "b", bs "a", bs "c"] = false := by decide +kernel
-- §3 LIMIT
example : run "l" [] ["LIMIT", "1", "1"] = some [some (bs "2")] ∧
    run "l" [] ["LIMIT", "1", "-1"] = some [some (bs "2"), some (bs "3")] ∧
    run "l" [] ["LIMIT", "3", "5"] = some [] ∧
    run "l" [] ["LIMIT", "-7", "2"] = some [some (bs "1"), some (bs "2")] := by decide +kernel
-- §4 BY nosort: the list in list order (reversed with DESC), the set in hinted order, the sorted set ascending
example : run "l" [] ["BY", "nosort"] = some [some (bs "3"), some (bs "1"), some (bs "2")] ∧
    run "l" [] ["BY", "nosort", "DESC"] = some [some (bs "2"), some (bs "1"), some (bs "3")] ∧
    run "s" ["c", "a", "b"] ["BY", "nosort"] = some [some (bs "c"), some (bs "a"), some (bs "b")] ∧
    run "z" [] ["BY", "nosort"] = some [some (bs "x"), some (bs "y")] ∧
    run "z" [] ["BY", "nosort", "DESC"] = some [some (bs "y"), some (bs "x")] := by decide +kernel
-- the last BY decides: hypotheses of `last_by_decides` for `DESC BY nosort BY w_* ALPHA`
example : (List.foldl Opt.apply {} ([Opt.desc] ++ Opt.sortBy (bs "w_*") :: [Opt.alpha])).dontsort = false := by
  have := (last_by_decides [.desc] [.alpha] (bs "w_*") (by decide) {}).2.1
  rw [this]; decide +kernel
example : patKey (bs "h_*->f") (bs "1") = some (bs "h_1", some (bs "f")) ∧
    patKey (bs "w_*") (bs "1") = some (bs "w_1", none) ∧ patKey (bs "nosort") (bs "1") = none ∧
    patKey (bs "h_*->") (bs "1") = some (bs "h_1->", none) := by decide +kernel
-- §5 GET: `#`, a hash field, a missing value
example : run "l" [] ["LIMIT", "0", "2", "GET", "#", "GET", "h_*->f", "GET", "w_*"] =
    some [some (bs "1"), some (bs "one"), some (bs "30"), some (bs "2"), some (bs "two"), some (bs "10")] ∧
    run "l" [] ["GET", "h_*->f"] = some [some (bs "one"), some (bs "two"), none] ∧
    run "l" [] ["GET", "h_*->f", "STORE", "dst"] = some [some (bs "one"), some (bs "two"), some []] := by
  decide +kernel
-- §7 missing / expired source
example : run "nokey" [] [] = some [] ∧ run "gone" [] ["GET", "x"] = some [] := by decide +kernel
example : wrongTy (srcVal exDb (bs "str")) = true ∧ wrongTy (srcVal exDb (bs "h_1")) = true ∧
    wrongTy (srcVal exDb (bs "l")) = false ∧ wrongTy (srcVal exDb (bs "gone")) = false := by decide +kernel

-- options
example : SpelledAll [.sortBy (bs "w_*"), .limit 0 5, .get (bs "#"), .desc, .alpha, .store (bs "dst")]
    [bs "by", bs "w_*", bs "LIMIT", bs "0", bs "5", bs "Get", bs "#", bs "DESC", bs "alpha", bs "store", bs "dst"] :=
  ⟨[bs "by", bs "w_*"], _, rfl, ⟨bs "by", rfl, by decide +kernel⟩,
   [bs "LIMIT", bs "0", bs "5"], _, rfl, ⟨bs "LIMIT", bs "0", bs "5", rfl, by decide +kernel,
     ok_of_toOption (by decide +kernel), ok_of_toOption (by decide +kernel)⟩,
   [bs "Get", bs "#"], _, rfl, ⟨bs "Get", rfl, by decide +kernel⟩,
   [bs "DESC"], _, rfl, ⟨bs "DESC", rfl, by decide +kernel⟩,
   [bs "alpha"], _, rfl, ⟨bs "alpha", rfl, by decide +kernel⟩,
   [bs "store", bs "dst"], _, rfl, ⟨bs "store", rfl, by decide +kernel⟩, rfl⟩
example : ∃ e, parseSortOpts [bs "LIMIT", bs "0"] {} = .error e ∧ e = Msgs.SYNTAX_ERROR_MSG := by
  have hn : (parseSortOpts [bs "LIMIT", bs "0"] {}).toOption.isSome = false := by decide +kernel
  cases h : parseSortOpts [bs "LIMIT", bs "0"] {} with
  | error e => exact ⟨e, rfl, options_error _ _ _ h⟩
  | ok o => rw [h] at hn; cases hn

-- the hypotheses of `command` hold in `exSys` for connection 1 and `SORT l DESC LIMIT 0 2`: reply `3 2`
example : ∃ db', Reads (exSys.dbAt 0) db' ∧
    runWith (special (fun _ _ => pure none)) {} 1 ssig [bs "l", bs "DESC", bs "LIMIT", bs "0", bs "2"] false exSys =
      (some (.arr [.bulk (bs "3"), .bulk (bs "2")]),
       (takeItems (srcVal (exSys.dbAt 0) (bs "l")) exSys).2.setDbS 0 db') := by
  obtain ⟨o, ho⟩ : ∃ o, parseSortOpts [bs "DESC", bs "LIMIT", bs "0", bs "2"] {} = .ok o ∧ o.store = none ∧
      (specLive (exSys.dbAt 0).live (srcVal (exSys.dbAt 0) (bs "l")) o [bs "3", bs "1", bs "2"]).toOption =
        some [some (bs "3"), some (bs "2")] := by
    have hn : (parseSortOpts [bs "DESC", bs "LIMIT", bs "0", bs "2"] {}).toOption.isSome = true := by decide +kernel
    cases h : parseSortOpts [bs "DESC", bs "LIMIT", bs "0", bs "2"] {} with
    | error e => rw [h] at hn; cases hn
    | ok o =>
      refine ⟨o, rfl, ?_, ?_⟩
      · have : (parseSortOpts [bs "DESC", bs "LIMIT", bs "0", bs "2"] {}).toOption.map (·.store) = some none := by
          decide +kernel
        rw [h] at this; simpa [Except.toOption] using this
      · have : ((parseSortOpts [bs "DESC", bs "LIMIT", bs "0", bs "2"] {}).toOption.map fun o =>
            (specLive (exSys.dbAt 0).live (srcVal (exSys.dbAt 0) (bs "l")) o [bs "3", bs "1", bs "2"]).toOption) =
            some (some [some (bs "3"), some (bs "2")]) := by decide +kernel
        rw [h] at this; simpa [Except.toOption] using this
  obtain ⟨db', hr, hrun⟩ := command (fun _ _ => pure none) {} 1 (bs "l") [bs "DESC", bs "LIMIT", bs "0", bs "2"] false
    exSys (by decide) (by decide +kernel) (by decide +kernel) (by decide +kernel) o ho.1 [bs "3", bs "1", bs "2"]
    (by decide +kernel)
  have e : (exSys.conn 1).db = 0 := rfl
  rw [e] at hrun hr
  rw [ok_of_toOption ho.2.2] at hrun
  simp only [ho.2.1] at hrun
  exact ⟨db', hr, hrun⟩

-- the hypotheses of `store` hold in `exSys` for connection 1 and `SORT l GET h_*->f STORE dst`: the reply is 3, the
-- old string with its deadline is replaced by the list `one two ""` without deadline
example : ∃ dbf,
    runWith (special (fun _ _ => pure none)) {} 1 ssig [bs "l", bs "GET", bs "h_*->f", bs "STORE", bs "dst"] false
        exSys =
      (some (.int 3), ((takeItems (srcVal (exSys.dbAt 0) (bs "l")) exSys).2.setDbS 0 dbf).mapConns
        (notifyFn 0 (bs "dst"))) ∧
    dbf.live (bs "dst") = some ⟨.list [bs "one", bs "two", []], none⟩ ∧
    ((exSys.dbAt 0).live (bs "dst")).map (fun it => (it.value.ty, it.expireat)) = some (.str, some 100) ∧
    (∀ k, k ≠ bs "dst" → dbf.live k = (exSys.dbAt 0).live k) := by
  have hn : (parseSortOpts [bs "GET", bs "h_*->f", bs "STORE", bs "dst"] {}).toOption.isSome = true := by
    decide +kernel
  cases h : parseSortOpts [bs "GET", bs "h_*->f", bs "STORE", bs "dst"] {} with
  | error e => rw [h] at hn; cases hn
  | ok o =>
    have h1 : o.store = some (bs "dst") := by
      have : (parseSortOpts [bs "GET", bs "h_*->f", bs "STORE", bs "dst"] {}).toOption.map (·.store) =
          some (some (bs "dst")) := by decide +kernel
      rw [h] at this; simpa [Except.toOption] using this
    have h2 : (specLive (exSys.dbAt 0).live (srcVal (exSys.dbAt 0) (bs "l")) o [bs "3", bs "1", bs "2"]).toOption =
        some [some (bs "one"), some (bs "two"), some []] := by
      have : ((parseSortOpts [bs "GET", bs "h_*->f", bs "STORE", bs "dst"] {}).toOption.map fun o =>
          (specLive (exSys.dbAt 0).live (srcVal (exSys.dbAt 0) (bs "l")) o [bs "3", bs "1", bs "2"]).toOption) =
          some (some [some (bs "one"), some (bs "two"), some []]) := by decide +kernel
      rw [h] at this; simpa [Except.toOption] using this
    obtain ⟨dbf, r1, r2, r3, _⟩ := store (fun _ _ => pure none) {} 1 (bs "l")
      [bs "GET", bs "h_*->f", bs "STORE", bs "dst"] false exSys (by decide) (by decide +kernel) (by decide +kernel)
      (by decide +kernel) o h [bs "3", bs "1", bs "2"] (by decide +kernel) _ (ok_of_toOption h2) (bs "dst") h1
    refine ⟨dbf, r1, ?_, by decide +kernel, r3⟩
    rw [r2]
    rfl

-- the hypotheses of `wrong_type` hold for `SORT str`
example : runWith (special (fun _ _ => pure none)) {} 1 ssig [bs "str", bs "bogus"] false exSys =
    (some (.err (strBytes Msgs.WRONGTYPE_MSG)), exSys.setDbS 0 ((exSys.dbAt 0).get (bs "str")).1) :=
  (wrong_type (fun _ _ => pure none) {} 1 (bs "str") [bs "bogus"] false exSys (by decide) (by decide +kernel)
    (by decide +kernel) (by decide +kernel)).1

-- connection 1 watches the destination: STORE flags it
example : (notifyFn 0 (bs "dst") { id := 1, watches := [(0, bs "dst")] }).watchNotified = true := by decide +kernel

end FR.Props.C02s
