import FR.Proofs.StrKeys
/-!
# C01 (key-space level) — string, counter and generic-key commands refine the abstract key space

`Db.live : Bytes → Option Item` is the abstract key space of a database (the unexpired entry of a key).
Every theorem below is about the REAL runner `runRegular` with the REAL signature (`SigTable`) and the REAL
body (`Cmd.regular`) of the command, for an arbitrary database with unique keys, arbitrary bytes and
both emulated versions (`ctx.version` is a variable).  The conclusion always has the form

  `(reply, key space afterwards) = (… a closed formula in the key space before …)`.

Standing hypotheses (all are invariants of reachable states, see `invariants_preserved`):
* `nd : NodupKeys db.dict`       a Python dict has unique keys;
* `ne : NoEmpty db.dict`         no stored empty collection (C09) — needed wherever `bool(key)` is used;
* `ht : ctx.time = db.time`      the body sees the clock of its database (`Process.lean` builds `ctx` so).

`upd L k oi` is the point update of a key space.
-/
namespace FR.Props.C01k
open FR FR.StrKeys

/-- (for the examples only) the string and the deadline of an entry, `none` for a missing key or another type -/
def strView (oi : Option Item) : Option (Bytes × Option Int) :=
  oi.bind fun it => match it.value with | .str b => some (b, it.expireat) | _ => none

/-- (for the examples only) the integer of an integer reply -/
def intView (r : Reply) : Option Int := match r with | .int n => some n | _ => none

/-- the signatures and bodies used below are exactly the entries of the two command tables -/
theorem tables :
    (SigTable.find "set" = some sigSet ∧ Cmd.regular "set" = some Cmd.set) ∧
    (SigTable.find "get" = some sigGet ∧ Cmd.regular "get" = some Cmd.get) ∧
    (SigTable.find "strlen" = some sigStrlen ∧ Cmd.regular "strlen" = some Cmd.strlen) ∧
    (SigTable.find "getset" = some sigGetset ∧ Cmd.regular "getset" = some Cmd.getset) ∧
    (SigTable.find "setnx" = some sigSetnx ∧ Cmd.regular "setnx" = some Cmd.setnx) ∧
    (SigTable.find "setex" = some sigSetex ∧ Cmd.regular "setex" = some Cmd.setex) ∧
    (SigTable.find "psetex" = some sigPsetex ∧ Cmd.regular "psetex" = some Cmd.psetex) ∧
    (SigTable.find "mget" = some sigMget ∧ Cmd.regular "mget" = some Cmd.mget) ∧
    (SigTable.find "mset" = some sigMset ∧ Cmd.regular "mset" = some Cmd.mset) ∧
    (SigTable.find "msetnx" = some sigMsetnx ∧ Cmd.regular "msetnx" = some Cmd.msetnx) ∧
    (SigTable.find "incr" = some sigIncr ∧ Cmd.regular "incr" = some Cmd.incr) ∧
    (SigTable.find "decr" = some sigDecr ∧ Cmd.regular "decr" = some Cmd.decr) ∧
    (SigTable.find "incrby" = some sigIncrby ∧ Cmd.regular "incrby" = some Cmd.incrby) ∧
    (SigTable.find "decrby" = some sigDecrby ∧ Cmd.regular "decrby" = some Cmd.decrby) ∧
    (SigTable.find "incrbyfloat" = some sigIncrbyfloat ∧ Cmd.regular "incrbyfloat" = some Cmd.incrbyfloat) ∧
    (SigTable.find "append" = some sigAppend ∧ Cmd.regular "append" = some Cmd.append) ∧
    (SigTable.find "del" = some sigDel ∧ Cmd.regular "del" = some Cmd.del) ∧
    (SigTable.find "unlink" = some sigUnlink ∧ Cmd.regular "unlink" = some Cmd.del) ∧
    (SigTable.find "exists" = some sigExists ∧ Cmd.regular "exists" = some Cmd.exists_) ∧
    (SigTable.find "type" = some sigType ∧ Cmd.regular "type" = some Cmd.type_) ∧
    (SigTable.find "bitcount" = some sigBitcount ∧ Cmd.regular "bitcount" = some Cmd.bitcount) ∧
    (SigTable.find "rename" = some sigRename ∧ Cmd.regular "rename" = some Cmd.rename) ∧
    (SigTable.find "renamenx" = some sigRenamenx ∧ Cmd.regular "renamenx" = some Cmd.renamenx) ∧
    (SigTable.find "dump" = some sigDump ∧ Cmd.regular "dump" = some Cmd.dump) ∧
    (SigTable.find "restore" = some sigRestore ∧ Cmd.regular "restore" = some Cmd.restore) := by
  refine ⟨⟨by decide, rfl⟩, ⟨by decide, rfl⟩, ⟨by decide, rfl⟩, ⟨by decide, rfl⟩, ⟨by decide, rfl⟩,
    ⟨by decide, rfl⟩, ⟨by decide, rfl⟩, ⟨by decide, rfl⟩, ⟨by decide, rfl⟩, ⟨by decide, rfl⟩,
    ⟨by decide, rfl⟩, ⟨by decide, rfl⟩, ⟨by decide, rfl⟩, ⟨by decide, rfl⟩, ⟨by decide, rfl⟩,
    ⟨by decide, rfl⟩, ⟨by decide, rfl⟩, ⟨by decide, rfl⟩, ⟨by decide, rfl⟩, ⟨by decide, rfl⟩,
    ⟨by decide, rfl⟩, ⟨by decide, rfl⟩, ⟨by decide, rfl⟩, ⟨by decide, rfl⟩, ⟨by decide, rfl⟩⟩

/-! ## 0. The refinement itself and what holds for every command -/

/-- REFINEMENT.  For every command of the table, the reply and the key space after `runRegular` are a
function (`runL`) of the clock and the key space before: lazy expiry, dict order and dead entries are
unobservable. -/
theorem refinement (name : String) (sig : Sig) (body : Body) (hb : Cmd.regular name = some body) (ctx : Ctx)
    (raw : List Bytes) (db : Db) (nd : NodupKeys db.dict) :
    ((runRegular sig body ctx none raw db).reply, (runRegular sig body ctx none raw db).db.live) =
      runL sig body ctx raw db.time db.live :=
  refines sig body (regular_expModSound name body hb) ctx raw nd

example :
    let db : Db := ⟨[([97], ⟨.str [49], none⟩), ([98], ⟨.str [50], some 3⟩)], 10⟩
    NodupKeys db.dict ∧ (db.live [98]).isSome = false ∧ (db.live [97]).isSome = true ∧
    Cmd.regular "get" = some Cmd.get := by
  refine ⟨by decide, by decide, by decide, rfl⟩

/-- the standing hypotheses are invariants: they hold again after every command, whatever it did -/
theorem invariants_preserved (sig : Sig) (body : Body) (ctx : Ctx) (raw : List Bytes) (db : Db)
    (nd : NodupKeys db.dict) (ne : NoEmpty db.dict) :
    NodupKeys (runRegular sig body ctx none raw db).db.dict ∧
    NoEmpty (runRegular sig body ctx none raw db).db.dict ∧
    (runRegular sig body ctx none raw db).db.time = db.time :=
  ⟨runRegular_nodup sig body ctx none raw nd, runRegular_noEmpty sig body ctx none raw nd ne,
    runRegular_time sig body ctx none raw nd⟩

/-- ERRORS CHANGE NOTHING.  For every command of the table: if the reply is an error reply (wrong number of
arguments, not an integer, WRONGTYPE, syntax error, overflow, BUSYKEY, bad payload, no such key, …) the
key space is unchanged. -/
theorem error_changes_nothing (name : String) (sig : Sig) (body : Body) (hb : Cmd.regular name = some body)
    (ctx : Ctx) (raw : List Bytes) (db : Db) (nd : NodupKeys db.dict)
    (he : (runRegular sig body ctx none raw db).reply.isErr = true) :
    (runRegular sig body ctx none raw db).db.live = db.live := by
  have hf := (runRegular_isErr_iff_failed sig body (regular_reply_not_err name body hb) ctx none raw db).1 he
  funext k
  exact live_eq_of_purge (runRegular_failed sig body ctx none raw nd hf).1.eq k

example :
    let db : Db := ⟨[([97], ⟨.list [[1]], none⟩)], 10⟩
    (runRegular sigGet Cmd.get ⟨7, 10, 0, false, []⟩ none [[97]] db).reply.isErr = true := by decide

/-! ### sequences of commands -/

/-- one request of a history: the context (version, clock, …) it runs in, its signature, body and arguments -/
structure Req where
  ctx : Ctx
  sig : Sig
  body : Body
  raw : List Bytes

/-- the replies of a history run by the real runner, threading the database -/
def runSeq : List Req → Db → List Reply
  | [], _ => []
  | r :: rs, db =>
    (runRegular r.sig r.body r.ctx none r.raw db).reply :: runSeq rs (runRegular r.sig r.body r.ctx none r.raw db).db

/-- the replies of the same history computed on the abstract key space alone -/
def runSeqL : List Req → Int → (Bytes → Option Item) → List Reply
  | [], _, _ => []
  | r :: rs, time, live =>
    (runL r.sig r.body r.ctx r.raw time live).1 :: runSeqL rs time (runL r.sig r.body r.ctx r.raw time live).2

/-- SEQUENCES.  For any history of commands of the table, started in a database with unique keys, EVERY reply
is the reply computed from the abstract key space: dict order, dead entries and lazy deletions never become
observable, at any point of the history. -/
theorem history_refinement (rs : List Req) (hreg : ∀ r ∈ rs, ∃ name, Cmd.regular name = some r.body) (db : Db)
    (nd : NodupKeys db.dict) : runSeq rs db = runSeqL rs db.time db.live := by
  induction rs generalizing db with
  | nil => rfl
  | cons r rs ih =>
    obtain ⟨name, hn⟩ := hreg r (by simp)
    have h := refinement name r.sig r.body hn r.ctx r.raw db nd
    have h1 := congrArg Prod.fst h
    have h2 := congrArg Prod.snd h
    simp only at h1 h2
    have ht := runRegular_time r.sig r.body r.ctx none r.raw nd
    simp only [runSeq, runSeqL]
    rw [ih (fun r' hr' => hreg r' (by simp [hr'])) _ (runRegular_nodup r.sig r.body r.ctx none r.raw nd), h1, h2, ht]

example :
    let ctx : Ctx := ⟨7, 10, 0, false, []⟩
    let rs : List Req := [⟨ctx, sigSet, Cmd.set, [[97], [49]]⟩, ⟨ctx, sigIncr, Cmd.incr, [[97]]⟩,
      ⟨ctx, sigGet, Cmd.get, [[97]]⟩]
    (∀ r ∈ rs, ∃ name, Cmd.regular name = some r.body) ∧ rs.length = 3 := by
  intro ctx rs
  refine ⟨?_, rfl⟩
  intro r hr
  simp only [rs, List.mem_cons, List.not_mem_nil, or_false] at hr
  rcases hr with rfl | rfl | rfl
  · exact ⟨"set", rfl⟩
  · exact ⟨"incr", rfl⟩
  · exact ⟨"get", rfl⟩

/-! ## 1. SET -/

/-- THE DECISION TABLE OF SET (`setSpec`), for an arbitrary option list.
If the option list does not parse (unknown word, `EX`/`PX` without or with a bad/non-positive/too large
number) the reply is that error and nothing changes.  Otherwise, with the parsed options `o`:
* `NX` with `XX`, or more than one of `EX`/`PX`/`KEEPTTL` : syntax error, nothing changes;
* `NX` with `GET` : syntax error in version 6, allowed in version 7;
* `GET` on a key holding a non-string : WRONGTYPE, nothing changes;
* `NX` and the key is live, or `XX` and the key is not live : nothing is written, the reply is the old string
  (with `GET`) or nil;
* otherwise the key holds `value` with the deadline `setDeadline` (`PX`: now+ms, `EX`: now+s, `KEEPTTL`: the
  old deadline, else none), every other key is untouched, and the reply is OK, or the old string / nil with `GET`. -/
theorem set_table (ctx : Ctx) (db : Db) (nd : NodupKeys db.dict) (ne : NoEmpty db.dict) (ht : ctx.time = db.time)
    (k v : Bytes) (opts : List Bytes) :
    let out := runRegular sigSet Cmd.set ctx none (k :: v :: opts) db
    (out.reply, out.db.live) =
      match Cmd.parseSetOpts db.time opts {} with
      | .error e => (.err (strBytes e), db.live)
      | .ok o => setSpec ctx.version db.time db.live k v o :=
  (refinement "set" _ _ rfl ctx _ db nd).trans (set_runL ctx db.time db.live (liveOK ne) ht k v opts)

/-- the decision table, spelled out (this is `setSpec` unfolded, so that the statement can be read here) -/
theorem set_table_unfolded (version : Nat) (time : Int) (live : Bytes → Option Item) (k v : Bytes) (o : Cmd.SetOpts) :
    setSpec version time live k v o =
      (let nExp := (if o.px.isSome then 1 else 0) + (if o.ex.isSome then 1 else 0) + (if o.keepttl then 1 else 0)
       if (o.xx && o.nx) || nExp > 1 then (synErr, live)
       else if o.nx && o.get && version < 7 then (synErr, live)
       else if o.get && notStr (live k) then (wrongtype, live)
       else
         let old : Reply := if o.get then oldStr (live k) else .nil
         if o.nx && (live k).isSome then (old, live)
         else if o.xx && !(live k).isSome then (old, live)
         else (if o.get then old else .ok,
           upd live k (some ⟨.str v, setDeadline time o ((live k).bind (·.expireat))⟩))) := rfl

/-- plain `SET k v`: OK, the key holds `v` without deadline (whatever it held before, of any type) -/
theorem set_plain (ctx : Ctx) (db : Db) (nd : NodupKeys db.dict) (ne : NoEmpty db.dict) (ht : ctx.time = db.time)
    (k v : Bytes) :
    let out := runRegular sigSet Cmd.set ctx none [k, v] db
    (out.reply, out.db.live) = (.ok, upd db.live k (some ⟨.str v, none⟩)) := by
  have h := set_table ctx db nd ne ht k v []
  simp only [parse_nil] at h
  show _ = _
  rw [h]
  simp [setSpec, setDeadline]

/-- `SET k v NX` writes iff the key is not live; reply OK / nil -/
theorem set_nx (ctx : Ctx) (db : Db) (nd : NodupKeys db.dict) (ne : NoEmpty db.dict) (ht : ctx.time = db.time)
    (k v a : Bytes) (ha : IsWord a .nx) :
    let out := runRegular sigSet Cmd.set ctx none [k, v, a] db
    (out.reply, out.db.live) =
      if (db.live k).isSome then (.nil, db.live) else (.ok, upd db.live k (some ⟨.str v, none⟩)) := by
  have h := set_table ctx db nd ne ht k v [a]
  simp only [parse_flag _ _ _ _ _ ha (Or.inl rfl), parse_nil] at h
  show _ = _
  rw [h]
  cases hl : (db.live k).isSome <;> simp [setSpec, setDeadline, hl]

/-- `SET k v XX` writes iff the key is live (the old deadline is dropped); reply OK / nil -/
theorem set_xx (ctx : Ctx) (db : Db) (nd : NodupKeys db.dict) (ne : NoEmpty db.dict) (ht : ctx.time = db.time)
    (k v a : Bytes) (ha : IsWord a .xx) :
    let out := runRegular sigSet Cmd.set ctx none [k, v, a] db
    (out.reply, out.db.live) =
      if (db.live k).isSome then (.ok, upd db.live k (some ⟨.str v, none⟩)) else (.nil, db.live) := by
  have h := set_table ctx db nd ne ht k v [a]
  simp only [parse_flag _ _ _ _ _ ha (Or.inr (Or.inl rfl)), parse_nil] at h
  show _ = _
  rw [h]
  cases hl : (db.live k).isSome <;> simp [setSpec, setDeadline, hl]

/-- `SET k v GET`: WRONGTYPE and no change if the key holds a non-string; otherwise the old string (or nil)
is returned and the key is written -/
theorem set_get (ctx : Ctx) (db : Db) (nd : NodupKeys db.dict) (ne : NoEmpty db.dict) (ht : ctx.time = db.time)
    (k v a : Bytes) (ha : IsWord a .get) :
    let out := runRegular sigSet Cmd.set ctx none [k, v, a] db
    (out.reply, out.db.live) =
      if notStr (db.live k) then (wrongtype, db.live)
      else (oldStr (db.live k), upd db.live k (some ⟨.str v, none⟩)) := by
  have h := set_table ctx db nd ne ht k v [a]
  simp only [parse_flag _ _ _ _ _ ha (Or.inr (Or.inr (Or.inr rfl))), parse_nil] at h
  show _ = _
  rw [h]
  cases hl : notStr (db.live k) <;> simp [setSpec, setDeadline, hl]

/-- `SET k v NX GET` is a syntax error that changes nothing in version 6 … -/
theorem set_nx_get_v6 (ctx : Ctx) (db : Db) (nd : NodupKeys db.dict) (ne : NoEmpty db.dict) (ht : ctx.time = db.time)
    (k v a g : Bytes) (ha : IsWord a .nx) (hg : IsWord g .get) (hv : ctx.version < 7) :
    let out := runRegular sigSet Cmd.set ctx none [k, v, a, g] db
    (out.reply, out.db.live) = (synErr, db.live) := by
  have h := set_table ctx db nd ne ht k v [a, g]
  simp only [parse_flag _ _ _ _ _ ha (Or.inl rfl), parse_flag _ _ _ _ _ hg (Or.inr (Or.inr (Or.inr rfl))),
    parse_nil] at h
  show _ = _
  rw [h]
  simp [setSpec, hv]

/-- … and allowed in version 7: it writes iff the key is not live and returns the old string or nil
(WRONGTYPE if the key holds a non-string) -/
theorem set_nx_get_v7 (ctx : Ctx) (db : Db) (nd : NodupKeys db.dict) (ne : NoEmpty db.dict) (ht : ctx.time = db.time)
    (k v a g : Bytes) (ha : IsWord a .nx) (hg : IsWord g .get) (hv : ¬ ctx.version < 7) :
    let out := runRegular sigSet Cmd.set ctx none [k, v, a, g] db
    (out.reply, out.db.live) =
      if notStr (db.live k) then (wrongtype, db.live)
      else if (db.live k).isSome then (oldStr (db.live k), db.live)
      else (oldStr (db.live k), upd db.live k (some ⟨.str v, none⟩)) := by
  have h := set_table ctx db nd ne ht k v [a, g]
  simp only [parse_flag _ _ _ _ _ ha (Or.inl rfl), parse_flag _ _ _ _ _ hg (Or.inr (Or.inr (Or.inr rfl))),
    parse_nil] at h
  show _ = _
  rw [h]
  cases hl : notStr (db.live k) <;> cases hs : (db.live k).isSome <;> simp [setSpec, setDeadline, hv, hl, hs]

/-- `SET k v KEEPTTL` keeps the deadline of the old entry (none for a missing key) -/
theorem set_keepttl (ctx : Ctx) (db : Db) (nd : NodupKeys db.dict) (ne : NoEmpty db.dict) (ht : ctx.time = db.time)
    (k v a : Bytes) (ha : IsWord a .keepttl) :
    let out := runRegular sigSet Cmd.set ctx none [k, v, a] db
    (out.reply, out.db.live) = (.ok, upd db.live k (some ⟨.str v, (db.live k).bind (·.expireat)⟩)) := by
  have h := set_table ctx db nd ne ht k v [a]
  simp only [parse_flag _ _ _ _ _ ha (Or.inr (Or.inr (Or.inl rfl))), parse_nil] at h
  show _ = _
  rw [h]
  simp [setSpec, setDeadline]

/-- `SET k v EX n`: deadline now + n seconds (the clock counts 100 ns ticks); a non-positive or too large `n`
is an error that changes nothing -/
theorem set_ex (ctx : Ctx) (db : Db) (nd : NodupKeys db.dict) (ne : NoEmpty db.dict) (ht : ctx.time = db.time)
    (k v a n : Bytes) (ha : IsWord a .ex) (ex : Int) (hn : Conv.int n = .ok ex) :
    let out := runRegular sigSet Cmd.set ctx none [k, v, a, n] db
    (out.reply, out.db.live) =
      if ex ≤ 0 ∨ db.time + ex * TICKS ≥ 2 ^ 63 * TICKS_MS then
        (.err (strBytes (Msgs.fmt1 Msgs.INVALID_EXPIRE_MSG "set")), db.live)
      else (.ok, upd db.live k (some ⟨.str v, some (db.time + ex * TICKS)⟩)) := by
  have h := set_table ctx db nd ne ht k v [a, n]
  simp only [parse_ex _ _ _ _ _ ha ex hn, parse_nil] at h
  show _ = _
  rw [h]
  by_cases hc : ex ≤ 0 ∨ db.time + ex * TICKS ≥ 2 ^ 63 * TICKS_MS
  · simp only [if_pos hc]
  · simp only [if_neg hc]; simp [setSpec, setDeadline]

/-- `SET k v PX n`: deadline now + n milliseconds -/
theorem set_px (ctx : Ctx) (db : Db) (nd : NodupKeys db.dict) (ne : NoEmpty db.dict) (ht : ctx.time = db.time)
    (k v a n : Bytes) (ha : IsWord a .px) (px : Int) (hn : Conv.int n = .ok px) :
    let out := runRegular sigSet Cmd.set ctx none [k, v, a, n] db
    (out.reply, out.db.live) =
      if px ≤ 0 ∨ db.time + px * TICKS_MS ≥ 2 ^ 63 * TICKS_MS then
        (.err (strBytes (Msgs.fmt1 Msgs.INVALID_EXPIRE_MSG "set")), db.live)
      else (.ok, upd db.live k (some ⟨.str v, some (db.time + px * TICKS_MS)⟩)) := by
  have h := set_table ctx db nd ne ht k v [a, n]
  simp only [parse_px _ _ _ _ _ ha px hn, parse_nil] at h
  show _ = _
  rw [h]
  by_cases hc : px ≤ 0 ∨ db.time + px * TICKS_MS ≥ 2 ^ 63 * TICKS_MS
  · simp only [if_pos hc]
  · simp only [if_neg hc]; simp [setSpec, setDeadline]

/-- contradictory options: `NX XX` is a syntax error that changes nothing -/
theorem set_nx_xx (ctx : Ctx) (db : Db) (nd : NodupKeys db.dict) (ne : NoEmpty db.dict) (ht : ctx.time = db.time)
    (k v a b : Bytes) (ha : IsWord a .nx) (hb : IsWord b .xx) :
    let out := runRegular sigSet Cmd.set ctx none [k, v, a, b] db
    (out.reply, out.db.live) = (synErr, db.live) := by
  have h := set_table ctx db nd ne ht k v [a, b]
  simp only [parse_flag _ _ _ _ _ ha (Or.inl rfl), parse_flag _ _ _ _ _ hb (Or.inr (Or.inl rfl)), parse_nil] at h
  show _ = _
  rw [h]
  simp [setSpec]

/-- contradictory options: `EX n PX m` (both valid numbers) is a syntax error that changes nothing -/
theorem set_ex_px (ctx : Ctx) (db : Db) (nd : NodupKeys db.dict) (ne : NoEmpty db.dict) (ht : ctx.time = db.time)
    (k v a n b m : Bytes) (ha : IsWord a .ex) (hb : IsWord b .px) (ex px : Int) (hn : Conv.int n = .ok ex)
    (hm : Conv.int m = .ok px)
    (hex : ¬ (ex ≤ 0 ∨ db.time + ex * TICKS ≥ 2 ^ 63 * TICKS_MS))
    (hpx : ¬ (px ≤ 0 ∨ db.time + px * TICKS_MS ≥ 2 ^ 63 * TICKS_MS)) :
    let out := runRegular sigSet Cmd.set ctx none [k, v, a, n, b, m] db
    (out.reply, out.db.live) = (synErr, db.live) := by
  have h := set_table ctx db nd ne ht k v [a, n, b, m]
  simp only [parse_ex _ _ _ _ _ ha ex hn, if_neg hex, parse_px _ _ _ _ _ hb px hm, if_neg hpx, parse_nil] at h
  show _ = _
  rw [h]
  simp [setSpec]

/-- contradictory options: `KEEPTTL EX n` is a syntax error that changes nothing -/
theorem set_keepttl_ex (ctx : Ctx) (db : Db) (nd : NodupKeys db.dict) (ne : NoEmpty db.dict)
    (ht : ctx.time = db.time) (k v a b n : Bytes) (ha : IsWord a .keepttl) (hb : IsWord b .ex) (ex : Int)
    (hn : Conv.int n = .ok ex) (hex : ¬ (ex ≤ 0 ∨ db.time + ex * TICKS ≥ 2 ^ 63 * TICKS_MS)) :
    let out := runRegular sigSet Cmd.set ctx none [k, v, a, b, n] db
    (out.reply, out.db.live) = (synErr, db.live) := by
  have h := set_table ctx db nd ne ht k v [a, b, n]
  simp only [parse_flag _ _ _ _ _ ha (Or.inr (Or.inr (Or.inl rfl))), parse_ex _ _ _ _ _ hb ex hn, if_neg hex,
    parse_nil] at h
  show _ = _
  rw [h]
  simp [setSpec]

/-- non-vacuity: the option words in any letter case, a valid `EX` argument, a database satisfying the
standing hypotheses with a string, a list and an entry with a deadline -/
example : IsWord [78, 120] .nx ∧ IsWord [88, 88] .xx ∧ IsWord [103, 69, 116] .get ∧
    IsWord [75, 69, 69, 80, 84, 84, 76] .keepttl ∧ IsWord [101, 88] .ex ∧ IsWord [80, 88] .px := by
  simp [IsWord, casematch, casenorm, nullTerminate, lowerByte, Word.lit, lit_nx, lit_xx, lit_get, lit_keepttl,
    lit_ex, lit_px]
example : Conv.int [49, 48] = .ok 10 ∧ ¬ ((10 : Int) ≤ 0 ∨ (50 : Int) + 10 * TICKS ≥ 2 ^ 63 * TICKS_MS) := by
  refine ⟨rfl, by decide⟩
example :
    let db : Db := ⟨[([97], ⟨.str [49], some 70⟩), ([98], ⟨.list [[1]], none⟩), ([99], ⟨.str [50], some 3⟩)], 50⟩
    NodupKeys db.dict ∧ NoEmpty db.dict ∧ strView (db.live [97]) = some ([49], some 70) ∧
      (db.live [99]).isSome = false ∧ notStr (db.live [98]) = true := by
  refine ⟨by decide, ?_, by decide, by decide, by decide⟩
  intro p hp
  simp only [List.mem_cons, List.not_mem_nil, or_false] at hp
  rcases hp with rfl | rfl | rfl <;> rfl

/-! ## 2. GET, STRLEN, GETSET, SETNX, SETEX, PSETEX, MGET, MSET, MSETNX -/

/-- GET: the string, nil for a missing key, WRONGTYPE for another type; nothing changes -/
theorem get_spec (ctx : Ctx) (db : Db) (nd : NodupKeys db.dict) (k : Bytes) :
    let out := runRegular sigGet Cmd.get ctx none [k] db
    (out.reply, out.db.live) =
      match db.live k with
      | none => (.nil, db.live)
      | some ⟨.str b, _⟩ => (.bulk b, db.live)
      | some _ => (wrongtype, db.live) :=
  (refinement "get" _ _ rfl ctx _ db nd).trans (get_runL ctx db.time db.live k)

/-- STRLEN: the length, 0 for a missing key -/
theorem strlen_spec (ctx : Ctx) (db : Db) (nd : NodupKeys db.dict) (k : Bytes) :
    let out := runRegular sigStrlen Cmd.strlen ctx none [k] db
    (out.reply, out.db.live) =
      match db.live k with
      | none => (.int 0, db.live)
      | some ⟨.str b, _⟩ => (.int b.length, db.live)
      | some _ => (wrongtype, db.live) :=
  (refinement "strlen" _ _ rfl ctx _ db nd).trans (strlen_runL ctx db.time db.live k)

/-- GETSET: old string or nil; afterwards the key holds `v` WITHOUT deadline; WRONGTYPE changes nothing -/
theorem getset_spec (ctx : Ctx) (db : Db) (nd : NodupKeys db.dict) (k v : Bytes) :
    let out := runRegular sigGetset Cmd.getset ctx none [k, v] db
    (out.reply, out.db.live) =
      match db.live k with
      | none => (.nil, upd db.live k (some ⟨.str v, none⟩))
      | some ⟨.str b, _⟩ => (.bulk b, upd db.live k (some ⟨.str v, none⟩))
      | some _ => (wrongtype, db.live) :=
  (refinement "getset" _ _ rfl ctx _ db nd).trans (getset_runL ctx db.time db.live k v)

/-- SETNX: writes (reply 1) iff the key is not live (of any type), else reply 0 and nothing changes -/
theorem setnx_spec (ctx : Ctx) (db : Db) (nd : NodupKeys db.dict) (ne : NoEmpty db.dict) (k v : Bytes) :
    let out := runRegular sigSetnx Cmd.setnx ctx none [k, v] db
    (out.reply, out.db.live) =
      match db.live k with
      | none => (.int 1, upd db.live k (some ⟨.str v, none⟩))
      | some _ => (.int 0, db.live) :=
  (refinement "setnx" _ _ rfl ctx _ db nd).trans (setnx_runL ctx db.time db.live (liveOK ne) k v)

/-- SETEX k n v: deadline now + n seconds -/
theorem setex_spec (ctx : Ctx) (db : Db) (nd : NodupKeys db.dict) (ht : ctx.time = db.time) (k sb v : Bytes) :
    let out := runRegular sigSetex Cmd.setex ctx none [k, sb, v] db
    (out.reply, out.db.live) =
      match Conv.int sb with
      | .error m => (.err (strBytes m), db.live)
      | .ok secs =>
        if secs ≤ 0 ∨ db.time + secs * TICKS ≥ 2 ^ 63 * TICKS_MS then
          (.err (strBytes (Msgs.fmt1 Msgs.INVALID_EXPIRE_MSG "setex")), db.live)
        else (.ok, upd db.live k (some ⟨.str v, some (db.time + secs * TICKS)⟩)) :=
  (refinement "setex" _ _ rfl ctx _ db nd).trans (setex_runL ctx db.time db.live ht k sb v)

/-- PSETEX k n v: deadline now + n milliseconds -/
theorem psetex_spec (ctx : Ctx) (db : Db) (nd : NodupKeys db.dict) (ht : ctx.time = db.time) (k sb v : Bytes) :
    let out := runRegular sigPsetex Cmd.psetex ctx none [k, sb, v] db
    (out.reply, out.db.live) =
      match Conv.int sb with
      | .error m => (.err (strBytes m), db.live)
      | .ok ms =>
        if ms ≤ 0 ∨ db.time + ms * TICKS_MS ≥ 2 ^ 63 * TICKS_MS then
          (.err (strBytes (Msgs.fmt1 Msgs.INVALID_EXPIRE_MSG "psetex")), db.live)
        else (.ok, upd db.live k (some ⟨.str v, some (db.time + ms * TICKS_MS)⟩)) :=
  (refinement "psetex" _ _ rfl ctx _ db nd).trans (psetex_runL ctx db.time db.live ht k sb v)

/-- MGET: one element per argument, in order: the string, and nil for a missing key AND for a key of
another type (no WRONGTYPE); nothing changes -/
theorem mget_spec (ctx : Ctx) (db : Db) (nd : NodupKeys db.dict) (k : Bytes) (ks : List Bytes) :
    let out := runRegular sigMget Cmd.mget ctx none (k :: ks) db
    (out.reply, out.db.live) = (.arr ((k :: ks).map (fun x => mgetOne (db.live x))), db.live) :=
  (refinement "mget" _ _ rfl ctx _ db nd).trans (mget_runL ctx db.time db.live k ks)

theorem mgetOne_cases (oi : Option Item) :
    mgetOne oi = match oi with | some ⟨.str b, _⟩ => .bulk b | _ => .nil := rfl

/-- MSET k₁ v₁ …: OK; the pairs are written from left to right without deadline (`msetLive`) -/
theorem mset_spec (ctx : Ctx) (db : Db) (nd : NodupKeys db.dict) (p : Bytes × Bytes) (ps : List (Bytes × Bytes)) :
    let out := runRegular sigMset Cmd.mset ctx none (flat (p :: ps)) db
    (out.reply, out.db.live) = (.ok, msetLive db.live (p :: ps)) :=
  (refinement "mset" _ _ rfl ctx _ db nd).trans (mset_runL ctx db.time db.live p ps)

/-- … so that afterwards a key named by some pair holds the value of the LAST pair naming it, and every
other key is untouched -/
theorem mset_last_wins (live : Bytes → Option Item) (ps : List (Bytes × Bytes)) (x : Bytes) :
    msetLive live ps x =
      match ps.reverse.find? (fun q => q.1 == x) with
      | some q => some ⟨.str q.2, none⟩
      | none => live x :=
  msetLive_apply live ps x

/-- MSETNX: ALL OR NOTHING — reply 0 and nothing written if ANY named key is live, else everything is
written as by MSET and the reply is 1 -/
theorem msetnx_spec (ctx : Ctx) (db : Db) (nd : NodupKeys db.dict) (ne : NoEmpty db.dict) (p : Bytes × Bytes)
    (ps : List (Bytes × Bytes)) :
    let out := runRegular sigMsetnx Cmd.msetnx ctx none (flat (p :: ps)) db
    (out.reply, out.db.live) =
      if (p :: ps).any (fun q => (db.live q.1).isSome) then (.int 0, db.live)
      else (.int 1, msetLive db.live (p :: ps)) :=
  (refinement "msetnx" _ _ rfl ctx _ db nd).trans (msetnx_runL ctx db.time db.live (liveOK ne) p ps)

example : flat [([97], [1]), ([98], [2]), ([97], [3])] = [[97], [1], [98], [2], [97], [3]] ∧
    (msetLive (fun _ => none) [([97], [1]), ([98], [2]), ([97], [3])] [97]).map (·.expireat) = some none := by
  decide

/-! ## 3. INCR, DECR, INCRBY, DECRBY, INCRBYFLOAT -/

/-- the counter step (`incrSpec`), spelled out: a missing key counts as the string "0" without deadline;
the stored string must be a canonical signed 64-bit decimal (`Conv.int`, see `FR.Props.C01.incr_stored_accepted`)
and the sum must stay in range — otherwise an error and no change; on success the reply is the sum, the key
holds its decimal string and KEEPS its deadline -/
theorem incrSpec_unfolded (live : Bytes → Option Item) (k : Bytes) (a : Int) :
    incrSpec live k a =
      (match live k with
        | none => incrOn live k (strBytes "0") none a
        | some ⟨.str b, e⟩ => incrOn live k b e a
        | some _ => (wrongtype, live)) ∧
    (∀ stored e, incrOn live k stored e a =
      match Conv.int stored with
      | .error m => (.err (strBytes m), live)
      | .ok cur =>
        if Conv.INT_MIN ≤ cur + a ∧ cur + a ≤ Conv.INT_MAX then
          (.int (cur + a), upd live k (some ⟨.str (intBytes (cur + a)), e⟩))
        else (.err (strBytes Msgs.OVERFLOW_MSG), live)) ∧
    Conv.int (strBytes "0") = .ok 0 :=
  ⟨rfl, fun _ _ => rfl, conv_int_zero⟩

theorem incr_spec (ctx : Ctx) (db : Db) (nd : NodupKeys db.dict) (ne : NoEmpty db.dict) (k : Bytes) :
    let out := runRegular sigIncr Cmd.incr ctx none [k] db
    (out.reply, out.db.live) = incrSpec db.live k 1 :=
  (refinement "incr" _ _ rfl ctx _ db nd).trans (incr_runL ctx db.time db.live (liveOK ne) k)

theorem decr_spec (ctx : Ctx) (db : Db) (nd : NodupKeys db.dict) (ne : NoEmpty db.dict) (k : Bytes) :
    let out := runRegular sigDecr Cmd.decr ctx none [k] db
    (out.reply, out.db.live) = incrSpec db.live k (-1) :=
  (refinement "decr" _ _ rfl ctx _ db nd).trans (decr_runL ctx db.time db.live (liveOK ne) k)

theorem incrby_spec (ctx : Ctx) (db : Db) (nd : NodupKeys db.dict) (ne : NoEmpty db.dict) (k nb : Bytes) :
    let out := runRegular sigIncrby Cmd.incrby ctx none [k, nb] db
    (out.reply, out.db.live) =
      match Conv.int nb with
      | .error m => (.err (strBytes m), db.live)
      | .ok a => incrSpec db.live k a :=
  (refinement "incrby" _ _ rfl ctx _ db nd).trans (incrby_runL ctx db.time db.live (liveOK ne) k nb)

/-- DECRBY k n: `n` must be a 64-bit integer; `n = -9223372036854775808` (which cannot be negated) is refused
with "decrement would overflow" and nothing changes, whatever string the key holds and also for a missing key
(a key of another type is WRONGTYPE, as for every amount); every other `n` is `INCRBY k (-n)` -/
theorem decrby_spec (ctx : Ctx) (db : Db) (nd : NodupKeys db.dict) (ne : NoEmpty db.dict) (k nb : Bytes) :
    let out := runRegular sigDecrby Cmd.decrby ctx none [k, nb] db
    (out.reply, out.db.live) =
      match Conv.int nb with
      | .error m => (.err (strBytes m), db.live)
      | .ok a =>
        if a = -9223372036854775808 then
          match db.live k with
          | none => (.err (strBytes Msgs.DECR_OVERFLOW_MSG), db.live)
          | some ⟨.str _, _⟩ => (.err (strBytes Msgs.DECR_OVERFLOW_MSG), db.live)
          | some _ => (wrongtype, db.live)
        else incrSpec db.live k (-a) :=
  (refinement "decrby" _ _ rfl ctx _ db nd).trans (decrby_runL ctx db.time db.live (liveOK ne) k nb)

/-- INCRBYFLOAT: both the stored string and the increment are decoded by `Conv.float`; an infinite or NaN
sum is an error that changes nothing; otherwise the reply and the stored string are the sum formatted by the
model's `Dbl` formatter (`encodeFloat`, which normalises `-0` in version 7), and the deadline is kept -/
theorem incrbyfloat_spec (ctx : Ctx) (db : Db) (nd : NodupKeys db.dict) (ne : NoEmpty db.dict) (k amount : Bytes) :
    let out := runRegular sigIncrbyfloat Cmd.incrbyfloat ctx none [k, amount] db
    (out.reply, out.db.live) =
      match db.live k with
      | none => incrFloatOn ctx.version db.live k (strBytes "0") none amount
      | some ⟨.str b, e⟩ => incrFloatOn ctx.version db.live k b e amount
      | some _ => (wrongtype, db.live) :=
  (refinement "incrbyfloat" _ _ rfl ctx _ db nd).trans
    (incrbyfloat_runL ctx db.time db.live (liveOK ne) k amount)

theorem incrFloatOn_unfolded (version : Nat) (live : Bytes → Option Item) (k stored : Bytes) (e : Option Int)
    (amount : Bytes) :
    incrFloatOn version live k stored e amount =
      match Conv.float stored with
      | .error m => (.err (strBytes m), live)
      | .ok cur =>
        match Conv.float amount with
        | .error m => (.err (strBytes m), live)
        | .ok a =>
          if (Dbl.add cur a).isFinite then
            (.bulk (Cmd.encodeFloat version (Dbl.add cur a) true),
              upd live k (some ⟨.str (Cmd.encodeFloat version (Dbl.add cur a) true), e⟩))
          else (.err (strBytes Msgs.NONFINITE_MSG), live) := rfl

example :
    let live : Bytes → Option Item := fun k => if k = [97] then some ⟨.str [57, 57], some 70⟩ else none
    intView (incrSpec live [97] 1).1 = some 100 ∧
    strView ((incrSpec live [97] 1).2 [97]) = some ([49, 48, 48], some 70) := by
  with_unfolding_all decide

/-- `DECRBY k -9223372036854775808` is REFUSED (as Redis ≥ 6.2.7 / 7.0 do): for every stored string — in
particular a negative one, where the unbounded sum would be in range — and for a missing key the reply is
"ERR decrement would overflow" and the key space is unchanged.
(Before the fix the model answered `SET k -1`, `DECRBY k -9223372036854775808` with `9223372036854775807`.) -/
theorem decrby_int_min_refused (ctx : Ctx) (db : Db) (nd : NodupKeys db.dict) (ne : NoEmpty db.dict) (k nb : Bytes)
    (hn : Conv.int nb = .ok (-(2 ^ 63))) (hstr : notStr (db.live k) = false) :
    let out := runRegular sigDecrby Cmd.decrby ctx none [k, nb] db
    (out.reply, out.db.live) = (.err (strBytes Msgs.DECR_OVERFLOW_MSG), db.live) := by
  have h := decrby_spec ctx db nd ne k nb
  have h63 : (-(2 ^ 63) : Int) = -9223372036854775808 := by decide
  simp only [hn, h63, if_true] at h
  show _ = _
  rw [h]
  cases hl : db.live k with
  | none => rfl
  | some it =>
    obtain ⟨v, e⟩ := it
    cases v with
    | str b => rfl
    | _ => simp [hl, notStr] at hstr

/-- every other amount still behaves as `INCRBY k (-n)` -/
theorem decrby_other (ctx : Ctx) (db : Db) (nd : NodupKeys db.dict) (ne : NoEmpty db.dict) (k nb : Bytes) (a : Int)
    (hn : Conv.int nb = .ok a) (ha : a ≠ -(2 ^ 63)) :
    let out := runRegular sigDecrby Cmd.decrby ctx none [k, nb] db
    (out.reply, out.db.live) = incrSpec db.live k (-a) := by
  have h := decrby_spec ctx db nd ne k nb
  have h63 : (-(2 ^ 63) : Int) = -9223372036854775808 := by decide
  rw [h63] at ha
  simp only [hn, if_neg ha] at h
  exact h

/-- non-vacuity: the amount is a valid 64-bit integer, the witness key of the old finding holds the string `-1` -/
example :
    let live : Bytes → Option Item := fun k => if k = [97] then some ⟨.str [45, 49], none⟩ else none
    Conv.int [45, 57, 50, 50, 51, 51, 55, 50, 48, 51, 54, 56, 53, 52, 55, 55, 53, 56, 48, 56] = .ok (-(2 ^ 63)) ∧
    notStr (live [97]) = false ∧ notStr (live [98]) = false ∧
    Conv.int [53] = .ok 5 ∧ (5 : Int) ≠ -(2 ^ 63) := by
  refine ⟨rfl, by decide, by decide, rfl, by decide⟩

/-! ## 3b. the in-place string commands on the key space (their byte-level content is `FR.Props.C01`) -/

/-- APPEND: a missing key counts as the empty string; the key holds old ++ v and KEEPS its deadline; the
reply is the new length; exceeding 512 MB is an error that changes nothing -/
theorem append_spec (ctx : Ctx) (db : Db) (nd : NodupKeys db.dict) (ne : NoEmpty db.dict) (k v : Bytes) :
    let out := runRegular sigAppend Cmd.append ctx none [k, v] db
    (out.reply, out.db.live) =
      match db.live k with
      | none => appendOn db.live k [] none v
      | some ⟨.str b, e⟩ => appendOn db.live k b e v
      | some _ => (wrongtype, db.live) :=
  (refinement "append" _ _ rfl ctx _ db nd).trans (append_runL ctx db.time db.live (liveOK ne) k v)

theorem appendOn_unfolded (live : Bytes → Option Item) (k old : Bytes) (e : Option Int) (v : Bytes) :
    appendOn live k old e v =
      if old.length + v.length > Conv.MAX_STRING_SIZE then (.err (strBytes Msgs.STRING_OVERFLOW_MSG), live)
      else (.int ((old ++ v).length), upd live k (some ⟨.str (old ++ v), e⟩)) := rfl

/-- GETRANGE / SUBSTR: the window `getrangeSpec` of the stored string (empty for a missing key) -/
theorem getrange_spec (sig : Sig) (hsig : sig = sigGetrange ∨ sig = sigSubstr) (ctx : Ctx) (db : Db)
    (nd : NodupKeys db.dict) (ne : NoEmpty db.dict) (k sb eb : Bytes) (s e : Int)
    (hs : Conv.int sb = .ok s) (he : Conv.int eb = .ok e) :
    let out := runRegular sig Cmd.getrange ctx none [k, sb, eb] db
    (out.reply, out.db.live) =
      match db.live k with
      | none => (.bulk (FR.Spec.getrangeSpec [] s e), db.live)
      | some ⟨.str b, _⟩ => (.bulk (FR.Spec.getrangeSpec b s e), db.live)
      | some _ => (wrongtype, db.live) := by
  have hb : Cmd.regular "getrange" = some Cmd.getrange := rfl
  exact (refinement "getrange" _ _ hb ctx _ db nd).trans
    (getrange_runL sig hsig ctx db.time db.live (liveOK ne) k sb eb s e hs he)

theorem getrange_tables :
    (SigTable.find "getrange" = some sigGetrange ∧ Cmd.regular "getrange" = some Cmd.getrange) ∧
    (SigTable.find "substr" = some sigSubstr ∧ Cmd.regular "substr" = some Cmd.getrange) ∧
    (SigTable.find "setrange" = some sigSetrange ∧ Cmd.regular "setrange" = some Cmd.setrange) ∧
    (SigTable.find "getbit" = some sigGetbit ∧ Cmd.regular "getbit" = some Cmd.getbit) ∧
    (SigTable.find "setbit" = some sigSetbit ∧ Cmd.regular "setbit" = some Cmd.setbit) :=
  ⟨⟨by decide, rfl⟩, ⟨by decide, rfl⟩, ⟨by decide, rfl⟩, ⟨by decide, rfl⟩, ⟨by decide, rfl⟩⟩

/-- SETRANGE (`setrangeOn`): negative offset and exceeding 512 MB are errors; an empty value writes nothing
and replies the current length; otherwise the key holds `setrangeBytes old off v` (zero padded) and KEEPS
its deadline -/
theorem setrange_spec (ctx : Ctx) (db : Db) (nd : NodupKeys db.dict) (ne : NoEmpty db.dict) (k ob v : Bytes)
    (off : Int) (ho : Conv.int ob = .ok off) :
    let out := runRegular sigSetrange Cmd.setrange ctx none [k, ob, v] db
    (out.reply, out.db.live) =
      match db.live k with
      | none => setrangeOn db.live k [] none off v
      | some ⟨.str b, e⟩ => setrangeOn db.live k b e off v
      | some _ => (wrongtype, db.live) :=
  (refinement "setrange" _ _ rfl ctx _ db nd).trans
    (setrange_runL ctx db.time db.live (liveOK ne) k ob v off ho)

theorem setrangeOn_unfolded (live : Bytes → Option Item) (k old : Bytes) (e : Option Int) (off : Int) (v : Bytes) :
    setrangeOn live k old e off v =
      if off < 0 then (.err (strBytes Msgs.INVALID_OFFSET_MSG), live)
      else if v.isEmpty then (.int old.length, live)
      else if off + v.length > Conv.MAX_STRING_SIZE then (.err (strBytes Msgs.STRING_OVERFLOW_MSG), live)
      else (.int (FR.Spec.setrangeBytes old off.toNat v).length,
        upd live k (some ⟨.str (FR.Spec.setrangeBytes old off.toNat v), e⟩)) := rfl

/-- GETBIT: the bit of the stored string (0 beyond the end and for a missing key) -/
theorem getbit_spec (ctx : Ctx) (db : Db) (nd : NodupKeys db.dict) (ne : NoEmpty db.dict) (k ob : Bytes)
    (off : Int) (ho : Conv.bitOffset ob = .ok off) :
    let out := runRegular sigGetbit Cmd.getbit ctx none [k, ob] db
    (out.reply, out.db.live) =
      match db.live k with
      | none => (.int (FR.Spec.getBitBytes [] off), db.live)
      | some ⟨.str b, _⟩ => (.int (FR.Spec.getBitBytes b off), db.live)
      | some _ => (wrongtype, db.live) :=
  (refinement "getbit" _ _ rfl ctx _ db nd).trans (getbit_runL ctx db.time db.live (liveOK ne) k ob off ho)

/-- SETBIT: replies the previous bit; the key holds `setBitBytes` of the old string (of `[0]` for a missing
key) and KEEPS its deadline -/
theorem setbit_spec (ctx : Ctx) (db : Db) (nd : NodupKeys db.dict) (ne : NoEmpty db.dict) (k ob vb : Bytes)
    (off value : Int) (ho : Conv.bitOffset ob = .ok off) (hv : Conv.bitValue vb = .ok value) :
    let out := runRegular sigSetbit Cmd.setbit ctx none [k, ob, vb] db
    (out.reply, out.db.live) =
      match db.live k with
      | none => (.int (FR.Spec.getBitBytes [0] off),
          upd db.live k (some ⟨.str (FR.Spec.setBitBytes [0] off value), none⟩))
      | some ⟨.str b, e⟩ => (.int (FR.Spec.getBitBytes b off),
          upd db.live k (some ⟨.str (FR.Spec.setBitBytes b off value), e⟩))
      | some _ => (wrongtype, db.live) :=
  (refinement "setbit" _ _ rfl ctx _ db nd).trans
    (setbit_runL ctx db.time db.live (liveOK ne) k ob vb off value ho hv)

example : Conv.int [45, 51] = .ok (-3) ∧ Conv.bitOffset [57] = .ok 9 ∧ Conv.bitValue [49] = .ok 1 ∧
    Conv.bitValue [50] = .error Msgs.INVALID_BIT_VALUE_MSG := ⟨rfl, rfl, rfl, rfl⟩

/-! ## 4. DEL, UNLINK, EXISTS, TYPE, BITCOUNT -/

/-- DEL: the reply is the number of DISTINCT live keys among the arguments (a key given twice counts once):
it is the length of a duplicate-free list `d` whose elements are exactly the live argument keys.
Afterwards none of the argument keys is live and every other key is untouched. -/
theorem del_spec (ctx : Ctx) (db : Db) (nd : NodupKeys db.dict) (ne : NoEmpty db.dict) (k : Bytes) (ks : List Bytes) :
    let out := runRegular sigDel Cmd.del ctx none (k :: ks) db
    ∃ d : List Bytes, d.Nodup ∧ (∀ x, x ∈ d ↔ x ∈ k :: ks ∧ (db.live x).isSome = true) ∧
      out.reply = .int d.length ∧
      ∀ x, out.db.live x = if x ∈ k :: ks then none else db.live x := by
  intro out
  have h := (refinement "del" _ _ rfl ctx _ db nd).trans (del_runL ctx db.time db.live (liveOK ne) k ks)
  refine ⟨delKeys db.live (k :: ks) [], nodup_delKeys _ _ _, ?_, congrArg Prod.fst h, ?_⟩
  · intro x; rw [mem_delKeys]; simp
  · intro x
    have := congrFun (congrArg Prod.snd h) x
    simp only at this
    rw [this]
    exact del_after (liveOK ne) (k :: ks) x

/-- UNLINK is DEL -/
theorem unlink_spec (ctx : Ctx) (db : Db) (nd : NodupKeys db.dict) (ne : NoEmpty db.dict) (k : Bytes)
    (ks : List Bytes) :
    let out := runRegular sigUnlink Cmd.del ctx none (k :: ks) db
    ∃ d : List Bytes, d.Nodup ∧ (∀ x, x ∈ d ↔ x ∈ k :: ks ∧ (db.live x).isSome = true) ∧
      out.reply = .int d.length ∧
      ∀ x, out.db.live x = if x ∈ k :: ks then none else db.live x := by
  intro out
  have h := (refinement "unlink" _ _ rfl ctx _ db nd).trans (unlink_runL ctx db.time db.live (liveOK ne) k ks)
  refine ⟨delKeys db.live (k :: ks) [], nodup_delKeys _ _ _, ?_, congrArg Prod.fst h, ?_⟩
  · intro x; rw [mem_delKeys]; simp
  · intro x
    have := congrFun (congrArg Prod.snd h) x
    simp only at this
    rw [this]
    exact del_after (liveOK ne) (k :: ks) x

/-- EXISTS counts WITH multiplicity: a live key given twice counts twice -/
theorem exists_spec (ctx : Ctx) (db : Db) (nd : NodupKeys db.dict) (ne : NoEmpty db.dict) (k : Bytes)
    (ks : List Bytes) :
    let out := runRegular sigExists Cmd.exists_ ctx none (k :: ks) db
    (out.reply, out.db.live) = (.int (((k :: ks).filter (fun x => (db.live x).isSome)).length), db.live) :=
  (refinement "exists" _ _ rfl ctx _ db nd).trans (exists_runL ctx db.time db.live (liveOK ne) k ks)

example :
    let live : Bytes → Option Item := fun k => if k = [97] then some ⟨.str [], none⟩ else none
    (delKeys live [[97], [98], [97]] []).length = 1 ∧
      ([[97], [98], [97]].filter (fun x => (live x).isSome)).length = 2 := by decide

/-- TYPE: "none" or the name of the stored type -/
theorem type_spec (ctx : Ctx) (db : Db) (nd : NodupKeys db.dict) (k : Bytes) :
    let out := runRegular sigType Cmd.type_ ctx none [k] db
    (out.reply, out.db.live) =
      (.status (strBytes (match db.live k with | none => "none" | some it => it.value.ty.name)), db.live) :=
  (refinement "type" _ _ rfl ctx _ db nd).trans (type_runL ctx db.time db.live k)

/-- BITCOUNT k [start end]: 0 for a missing key; for a string the number of set bits (`popcount8` summed) of
the whole string, or of the GETRANGE window `getrangeSpec v start end` (bytes, inclusive, negative = from the
end); start/end that are not integers are errors; any other number of extra arguments is a syntax error -/
theorem bitcount_spec (ctx : Ctx) (db : Db) (nd : NodupKeys db.dict) (k : Bytes) (rest : List Bytes) :
    let out := runRegular sigBitcount Cmd.bitcount ctx none (k :: rest) db
    (out.reply, out.db.live) =
      match db.live k with
      | none => (.int 0, db.live)
      | some ⟨.str b, _⟩ => (bitcountReply b rest, db.live)
      | some _ => (wrongtype, db.live) :=
  (refinement "bitcount" _ _ rfl ctx _ db nd).trans (bitcount_runL ctx db.time db.live k rest)

/-- OBSERVATION (to be compared with a real 7.0 server): for a missing key the reply is 0 whatever the extra
arguments are, in BOTH emulated versions — `BITCOUNT nokey a b`, `BITCOUNT nokey 0` and
`BITCOUNT nokey 0 -1 BIT` all reply 0 (the `missing_return` short-circuit of the signature runs before the body) -/
theorem bitcount_missing_ignores_args (ctx : Ctx) (db : Db) (nd : NodupKeys db.dict) (k : Bytes) (rest : List Bytes)
    (hk : db.live k = none) :
    let out := runRegular sigBitcount Cmd.bitcount ctx none (k :: rest) db
    (out.reply, out.db.live) = (.int 0, db.live) := by
  have h := bitcount_spec ctx db nd k rest
  simp only [hk] at h
  exact h

theorem bitcountReply_unfolded (v : Bytes) :
    bitcountReply v [] = .int ((v.map popcount8).sum) ∧
    (∀ a b s e, Conv.int a = .ok s → Conv.int b = .ok e →
      bitcountReply v [a, b] = .int (((FR.Spec.getrangeSpec v s e).map popcount8).sum)) ∧
    (∀ a, bitcountReply v [a] = synErr) ∧
    (∀ a b c t, bitcountReply v (a :: b :: c :: t) = synErr) := by
  refine ⟨rfl, ?_, fun _ => rfl, fun _ _ _ _ => rfl⟩
  intro a b s e ha hb
  simp [bitcountReply, ha, hb]

example : intView (bitcountReply [255, 1, 3] []) = some 11 ∧ popcount8 255 = 8 := by decide

/-! ## 5. RENAME, RENAMENX -/

/-- RENAME k nk: "no such key" and no change if `k` is not live; otherwise OK and (`renamed`) the
destination holds the source's item (value AND deadline), the source is gone, other keys are untouched;
`RENAME k k` on a live key leaves the key space as it is -/
theorem rename_spec (ctx : Ctx) (db : Db) (nd : NodupKeys db.dict) (ne : NoEmpty db.dict) (k nk : Bytes) :
    let out := runRegular sigRename Cmd.rename ctx none [k, nk] db
    (out.reply, out.db.live) =
      match db.live k with
      | none => (.err (strBytes Msgs.NO_KEY_MSG), db.live)
      | some it => (.ok, renamed db.live k nk it) :=
  (refinement "rename" _ _ rfl ctx _ db nd).trans (rename_runL ctx db.time db.live (liveOK ne) k nk)

theorem renamed_unfolded (live : Bytes → Option Item) (k nk : Bytes) (it : Item) :
    renamed live k nk it = if nk = k then live else upd (upd live k none) nk (some it) := rfl

/-- after a successful rename to a different key -/
theorem renamed_apply (live : Bytes → Option Item) (k nk : Bytes) (it : Item) (h : nk ≠ k) (x : Bytes) :
    renamed live k nk it x = if x = nk then some it else if x = k then none else live x := by
  simp [renamed, h, upd]

/-- RENAMENX k nk: "no such key" if `k` is not live; reply 0 and no change if the destination is live
(in particular for `nk = k`); otherwise reply 1 and the rename is performed -/
theorem renamenx_spec (ctx : Ctx) (db : Db) (nd : NodupKeys db.dict) (ne : NoEmpty db.dict) (k nk : Bytes) :
    let out := runRegular sigRenamenx Cmd.renamenx ctx none [k, nk] db
    (out.reply, out.db.live) =
      match db.live k with
      | none => (.err (strBytes Msgs.NO_KEY_MSG), db.live)
      | some it => if (db.live nk).isSome then (.int 0, db.live) else (.int 1, renamed db.live k nk it) :=
  (refinement "renamenx" _ _ rfl ctx _ db nd).trans (renamenx_runL ctx db.time db.live (liveOK ne) k nk)

example :
    let live : Bytes → Option Item := fun k => if k = [97] then some ⟨.str [1], some 9⟩ else none
    strView (renamed live [97] [98] ⟨.str [1], some 9⟩ [98]) = some ([1], some 9) ∧
    (renamed live [97] [98] ⟨.str [1], some 9⟩ [97]).isSome = false ∧
    strView (renamed live [97] [97] ⟨.str [1], some 9⟩ [97]) = some ([1], some 9) := by decide

/-! ## 6. DUMP, RESTORE -/

/-- DUMP: nil for a missing key, else the (opaque) payload `dumpMagic ++ dumpValue value`; nothing changes -/
theorem dump_spec (ctx : Ctx) (db : Db) (nd : NodupKeys db.dict) (k : Bytes) :
    let out := runRegular sigDump Cmd.dump ctx none [k] db
    (out.reply, out.db.live) =
      (match db.live k with
        | none => .nil
        | some it => .bulk (Cmd.dumpMagic ++ Cmd.dumpValue it.value), db.live) :=
  (refinement "dump" _ _ rfl ctx _ db nd).trans (dump_runL ctx db.time db.live k)

/-- RESTORE k ttl payload [options] (`restoreSpec`): the ttl must be an integer; every option must spell
REPLACE (else syntax error); BUSYKEY if `k` is live and there is no REPLACE; a payload that does not decode
(`decodePayload`) is an error; a negative ttl is an error; all of these change nothing.  Otherwise `k` holds
the decoded value with deadline none (ttl = 0) or now + ttl milliseconds (`restoredItem`). -/
theorem restore_spec (ctx : Ctx) (db : Db) (nd : NodupKeys db.dict) (ne : NoEmpty db.dict) (ht : ctx.time = db.time)
    (k ttlb payload : Bytes) (opts : List Bytes) :
    let out := runRegular sigRestore Cmd.restore ctx none (k :: ttlb :: payload :: opts) db
    (out.reply, out.db.live) =
      match Conv.int ttlb with
      | .error m => (.err (strBytes m), db.live)
      | .ok ttl => restoreSpec db.time db.live k payload opts ttl :=
  (refinement "restore" _ _ rfl ctx _ db nd).trans
    (restore_runL ctx db.time db.live (liveOK ne) ht k ttlb payload opts)

theorem restoreSpec_unfolded (time : Int) (live : Bytes → Option Item) (k payload : Bytes) (opts : List Bytes)
    (ttl : Int) :
    restoreSpec time live k payload opts ttl =
      (if !opts.all (fun a => casematch a "replace") then (synErr, live)
       else if (live k).isSome && !(!opts.isEmpty) then (.err (strBytes Msgs.RESTORE_KEY_EXISTS), live)
       else
         match decodePayload payload with
         | none => (.err (strBytes Msgs.RESTORE_INVALID_CHECKSUM_MSG), live)
         | some v =>
           if ttl < 0 then (.err (strBytes Msgs.RESTORE_INVALID_TTL_MSG), live)
           else (.ok, upd live k (if v.isEmptyColl then none
                   else some ⟨v, if ttl = 0 then none else some (time + ttl * TICKS_MS)⟩))) := rfl

/-- the payload of `DUMP` decodes to what `loadValue` makes of the dumped body … -/
theorem decode_of_dump (v : Value) : decodePayload (Cmd.dumpMagic ++ Cmd.dumpValue v) = Cmd.loadValue (Cmd.dumpValue v) :=
  decodePayload_dump _

/-- … which for a STRING is the same string, for arbitrary bytes -/
theorem dump_roundtrip_str (b : Bytes) : decodePayload (Cmd.dumpMagic ++ Cmd.dumpValue (.str b)) = some (.str b) := by
  rw [decode_of_dump, loadValue_dumpValue_str]

/-- RESTORE of the payload of a dumped string: without REPLACE it fails with BUSYKEY on a live key and
changes nothing; otherwise `k` holds a value EQUAL to the dumped string with the requested deadline -/
theorem restore_of_dump_str (ctx : Ctx) (db : Db) (nd : NodupKeys db.dict) (ne : NoEmpty db.dict)
    (ht : ctx.time = db.time) (k ttlb : Bytes) (ttl : Int) (httl : Conv.int ttlb = .ok ttl) (h0 : 0 ≤ ttl)
    (b : Bytes) :
    let out := runRegular sigRestore Cmd.restore ctx none [k, ttlb, Cmd.dumpMagic ++ Cmd.dumpValue (.str b)] db
    (out.reply, out.db.live) =
      if (db.live k).isSome then (.err (strBytes Msgs.RESTORE_KEY_EXISTS), db.live)
      else (.ok, upd db.live k (some ⟨.str b, if ttl = 0 then none else some (db.time + ttl * TICKS_MS)⟩)) := by
  have h := restore_spec ctx db nd ne ht k ttlb (Cmd.dumpMagic ++ Cmd.dumpValue (.str b)) []
  simp only [httl] at h
  show _ = _
  rw [h]
  have hn : ¬ ttl < 0 := by omega
  cases hl : (db.live k).isSome <;>
    simp [restoreSpec, dump_roundtrip_str, hl, hn, restoredItem, Value.isEmptyColl]

/-- the same with REPLACE (any letter case): the key is overwritten, whatever it held -/
theorem restore_replace_of_dump_str (ctx : Ctx) (db : Db) (nd : NodupKeys db.dict) (ne : NoEmpty db.dict)
    (ht : ctx.time = db.time) (k ttlb r : Bytes) (hr : casematch r "replace" = true) (ttl : Int)
    (httl : Conv.int ttlb = .ok ttl) (h0 : 0 ≤ ttl) (b : Bytes) :
    let out := runRegular sigRestore Cmd.restore ctx none [k, ttlb, Cmd.dumpMagic ++ Cmd.dumpValue (.str b), r] db
    (out.reply, out.db.live) =
      (.ok, upd db.live k (some ⟨.str b, if ttl = 0 then none else some (db.time + ttl * TICKS_MS)⟩)) := by
  have h := restore_spec ctx db nd ne ht k ttlb (Cmd.dumpMagic ++ Cmd.dumpValue (.str b)) [r]
  simp only [httl] at h
  show _ = _
  rw [h]
  have hn : ¬ ttl < 0 := by omega
  simp [restoreSpec, dump_roundtrip_str, hr, hn, restoredItem, Value.isEmptyColl]

/-- a payload that is not a DUMP output (wrong header or malformed body) is an error that changes nothing -/
theorem restore_bad_payload (ctx : Ctx) (db : Db) (nd : NodupKeys db.dict) (ne : NoEmpty db.dict)
    (ht : ctx.time = db.time) (k ttlb payload : Bytes) (ttl : Int) (httl : Conv.int ttlb = .ok ttl)
    (hbad : decodePayload payload = none) (hfree : db.live k = none) :
    let out := runRegular sigRestore Cmd.restore ctx none [k, ttlb, payload] db
    (out.reply, out.db.live) = (.err (strBytes Msgs.RESTORE_INVALID_CHECKSUM_MSG), db.live) := by
  have h := restore_spec ctx db nd ne ht k ttlb payload []
  simp only [httl] at h
  show _ = _
  rw [h]
  simp [restoreSpec, hbad, hfree]

/-- FINDING (the ABSTIME clause of the property is FALSE of the model): every option word other than REPLACE —
in particular `ABSTIME` — makes RESTORE fail with a syntax error and change nothing.
Witness: `RESTORE k 0 <payload> ABSTIME`. -/
theorem restore_abstime_unsupported (ctx : Ctx) (db : Db) (nd : NodupKeys db.dict) (ne : NoEmpty db.dict)
    (ht : ctx.time = db.time) (k ttlb payload : Bytes) (ttl : Int) (httl : Conv.int ttlb = .ok ttl)
    (opts : List Bytes) (a : Bytes) (ha : a ∈ opts) (hna : casematch a "replace" = false) :
    let out := runRegular sigRestore Cmd.restore ctx none (k :: ttlb :: payload :: opts) db
    (out.reply, out.db.live) = (synErr, db.live) := by
  have h := restore_spec ctx db nd ne ht k ttlb payload opts
  simp only [httl] at h
  show _ = _
  rw [h]
  have : opts.all (fun a => casematch a "replace") = false := by
    rw [List.all_eq_false]; exact ⟨a, ha, by simp [hna]⟩
  simp [restoreSpec, this]

theorem lit_replace : strBytes "replace" = [114, 101, 112, 108, 97, 99, 101] := by rw [strBytes_eq]; rfl

/-- `ABSTIME` (any spelling that is not REPLACE) is such a word; `replace` in mixed case is accepted -/
example : casematch [65, 66, 83, 84, 73, 77, 69] "replace" = false ∧
    casematch [82, 101, 80, 76, 65, 67, 69] "replace" = true := by
  simp [casematch, casenorm, nullTerminate, lowerByte, lit_replace]

/-- ERROR PRECEDENCE in the model (to be compared with a real server): the ttl is converted by `Signature.apply`
before anything else, so a non-integer ttl is reported even when the key is live (where a real server says
BUSYKEY) … -/
theorem restore_bad_int_before_busykey (ctx : Ctx) (db : Db) (nd : NodupKeys db.dict) (ne : NoEmpty db.dict)
    (ht : ctx.time = db.time) (k ttlb payload : Bytes) (opts : List Bytes) (m : Err)
    (httl : Conv.int ttlb = .error m) :
    let out := runRegular sigRestore Cmd.restore ctx none (k :: ttlb :: payload :: opts) db
    (out.reply, out.db.live) = (.err (strBytes m), db.live) := by
  have h := restore_spec ctx db nd ne ht k ttlb payload opts
  simp only [httl] at h
  exact h

/-- … and the payload is checked BEFORE the sign of the ttl: `RESTORE freekey -1 garbage` replies with the
payload error, not with "Invalid TTL" (Redis 6.2/7.0 check the ttl first).  Witness: any free key, ttl `-1`,
payload `x`. -/
theorem restore_payload_before_ttl (ctx : Ctx) (db : Db) (nd : NodupKeys db.dict) (ne : NoEmpty db.dict)
    (ht : ctx.time = db.time) (k ttlb payload : Bytes) (ttl : Int) (httl : Conv.int ttlb = .ok ttl)
    (_hneg : ttl < 0) (hbad : decodePayload payload = none) (hfree : db.live k = none) :
    let out := runRegular sigRestore Cmd.restore ctx none [k, ttlb, payload] db
    (out.reply, out.db.live) = (.err (strBytes Msgs.RESTORE_INVALID_CHECKSUM_MSG), db.live) :=
  restore_bad_payload ctx db nd ne ht k ttlb payload ttl httl hbad hfree

example : Conv.int [45, 49] = .ok (-1) ∧ decodePayload [120] = none := by
  refine ⟨rfl, ?_⟩
  have h : strBytes "FRDUMP:" = [70, 82, 68, 85, 77, 80, 58] := by rw [strBytes_eq]; rfl
  simp [decodePayload, Cmd.dumpMagic, h]

/-- INDEPENDENT COPY, as a three-step run: `DUMP k₀` (a string), `RESTORE k ttl payload` into a free key
`k ≠ k₀`, then an in-place change of the copy (`APPEND k x`).  The copy got the dumped bytes and the requested
deadline, the APPEND changed the copy only, and `k₀` still holds exactly what it held before. -/
theorem dump_restore_independent_copy (ctx : Ctx) (db : Db) (nd : NodupKeys db.dict) (ne : NoEmpty db.dict)
    (ht : ctx.time = db.time) (k0 k ttlb x : Bytes) (b : Bytes) (e0 : Option Int) (ttl : Int)
    (h0 : db.live k0 = some ⟨.str b, e0⟩) (hk : db.live k = none) (hne : k ≠ k0)
    (httl : Conv.int ttlb = .ok ttl) (hpos : 0 ≤ ttl)
    (hlen : ¬ (b.length + x.length > Conv.MAX_STRING_SIZE)) :
    let o1 := runRegular sigDump Cmd.dump ctx none [k0] db
    ∃ payload, o1.reply = .bulk payload ∧
      let o2 := runRegular sigRestore Cmd.restore ctx none [k, ttlb, payload] o1.db
      let o3 := runRegular sigAppend Cmd.append ctx none [k, x] o2.db
      o2.reply = .ok ∧
      o2.db.live k = some ⟨.str b, if ttl = 0 then none else some (db.time + ttl * TICKS_MS)⟩ ∧
      o2.db.live k0 = some ⟨.str b, e0⟩ ∧
      o3.reply = .int ((b ++ x).length) ∧
      o3.db.live k = some ⟨.str (b ++ x), if ttl = 0 then none else some (db.time + ttl * TICKS_MS)⟩ ∧
      o3.db.live k0 = some ⟨.str b, e0⟩ := by
  intro o1
  have hd := dump_spec ctx db nd k0
  simp only [h0] at hd
  have hr1 : o1.reply = .bulk (Cmd.dumpMagic ++ Cmd.dumpValue (.str b)) := congrArg Prod.fst hd
  have hl1 : o1.db.live = db.live := congrArg Prod.snd hd
  obtain ⟨nd1, ne1, t1'⟩ := invariants_preserved sigDump Cmd.dump ctx [k0] db nd ne
  have t1 : o1.db.time = db.time := t1'
  refine ⟨_, hr1, ?_⟩
  intro o2 o3
  have hrs := restore_of_dump_str ctx o1.db nd1 ne1 (ht.trans t1.symm) k ttlb ttl httl hpos b
  simp only [hl1, hk, Option.isSome_none, Bool.false_eq_true, if_false, t1] at hrs
  have hr2 : o2.reply = .ok := congrArg Prod.fst hrs
  have hl2 : o2.db.live = upd db.live k (some ⟨.str b, if ttl = 0 then none else some (db.time + ttl * TICKS_MS)⟩) :=
    congrArg Prod.snd hrs
  obtain ⟨nd2, ne2, _⟩ := invariants_preserved sigRestore Cmd.restore ctx
    [k, ttlb, Cmd.dumpMagic ++ Cmd.dumpValue (.str b)] o1.db nd1 ne1
  have ha := (refinement "append" _ _ rfl ctx [k, x] o2.db nd2).trans
    (append_runL ctx o2.db.time o2.db.live (liveOK ne2) k x)
  have hk2 : o2.db.live k = some ⟨.str b, if ttl = 0 then none else some (db.time + ttl * TICKS_MS)⟩ := by
    rw [hl2]; simp
  have hk02 : o2.db.live k0 = some ⟨.str b, e0⟩ := by
    rw [hl2, upd_ne _ _ (fun e => hne e.symm), h0]
  simp only [hk2, appendOn, if_neg hlen] at ha
  refine ⟨hr2, hk2, hk02, congrArg Prod.fst ha, ?_, ?_⟩
  · have := congrFun (congrArg Prod.snd ha) k
    simpa using this
  · have := congrFun (congrArg Prod.snd ha) k0
    simp only at this
    rw [this, upd_ne _ _ (fun e => hne e.symm), hk02]

/-- non-vacuity of the three-step theorem -/
example :
    let db : Db := ⟨[([97], ⟨.str [1, 2], some 70⟩)], 50⟩
    NodupKeys db.dict ∧ NoEmpty db.dict ∧ strView (db.live [97]) = some ([1, 2], some 70) ∧
      (db.live [98]).isSome = false ∧
      ([98] : Bytes) ≠ [97] ∧ Conv.int [53] = .ok 5 ∧
      ¬ (([1, 2] : Bytes).length + ([3] : Bytes).length > Conv.MAX_STRING_SIZE) := by
  refine ⟨by decide, ?_, by decide, by decide, by decide, rfl, by decide⟩
  intro p hp
  simp only [List.mem_cons, List.not_mem_nil, or_false] at hp
  subst hp; rfl

end FR.Props.C01k
