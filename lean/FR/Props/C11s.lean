import FR.Proofs.Conserve
/-!
# C11 at history level — no lost wake-up, conservation, a wake-up serves the first non-empty key

Vocabulary (see `FR/Proofs/History.lean`, `FR/Proofs/Conserve.lean`):
* `Ev`, `stepEv`, `runHistory evs` — the events of the system model and the state after a history from the initial state;
* `serveKeys p` — the keys a parked connection can be served from: all its keys for BLPOP / BRPOP, the *source* only for
  BRPOPLPUSH (this is what `parkedPass`, the re-check of the blocked loop, looks at);
* `ListAt d k` — dictionary `d` stores a list under `k` (expired or not); `HoldsList db k` — `k` holds a live list;
* `stored s` — all elements of all lists of all databases of `s`; `delivered out` — the elements handed to clients by
  the `[key, element]` replies among `out`; permutation `~` of lists = equality of multisets (`List.Perm.count_eq`);
* `NoTTL s` — no stored entry has an expiry time (an invariant of every history without EXPIRE-type commands; with
  TTLs, elements of expired lists vanish at the lazy deletions, so no conservation law holds across time).
-/
namespace FR.Props.C11s
open FR FR.M FR.Conserve

/-! ## 2. No lost wake-up: an invariant over ALL histories (all events, all commands) -/

/-- The invariant is inductive: it holds initially and every event — any command of any connection through the parser or
directly, EXEC, scripts, wake-ups, time-outs (both front-ends), open / close / gc — preserves it. -/
theorem inv_inductive : Conserve.Inv {} ∧ ∀ s e, Conserve.Inv s → Conserve.Inv (stepEv s e) := ⟨inv_init, inv_stepEv⟩

/-- **No lost wake-up.**  In every reachable state, for every parked connection record `p` (sync or asyncio front-end):
if one of the keys it can be served from stores a list in database `p.db`, then `p.woken = true` — the connection has
been notified and re-checks at its next wake-up. -/
theorem no_lost_wakeup (evs : List Ev) :
    ∀ x ∈ (runHistory evs).srv.conns, ∀ p, x.parked = some p →
      ∀ k ∈ serveKeys p, ListAt ((runHistory evs).srv.dbs.getD p.db []) k → p.woken = true := by
  intro x hx p hp k hk hl
  cases hw : p.woken with
  | true => rfl
  | false => exact absurd hl ((inv_runHistory evs).2 x hx p hp hw k hk)

/-- the same for live lists (`HoldsList`: the key holds an unexpired list), addressed by connection number -/
theorem no_lost_wakeup_live (evs : List Ev) (c : Nat) (p : Parked)
    (hp : ((runHistory evs).conn c).parked = some p) (k : Bytes) (hk : k ∈ serveKeys p)
    (hl : HoldsList ((runHistory evs).dbAt p.db) k) : p.woken = true := by
  obtain ⟨it, l, hlive, hv⟩ := hl
  rcases (runHistory evs).conn_mem_or_default c with hm | he
  · exact no_lost_wakeup evs _ hm p hp k hk ⟨it, l, live_some_mem hlive, hv⟩
  · rw [he] at hp; cases hp

/-- … and the stored lists are never empty, so "holds a list" is "holds a non-empty list" -/
theorem stored_lists_nonempty (evs : List Ev) (i : Nat) (k : Bytes) (it : Item) (l : List Bytes)
    (h : (k, it) ∈ ((runHistory evs).dbAt i).dict) (hv : it.value = .list l) : l ≠ [] := by
  have := ((inv_runHistory evs).1.dbAt i).2 _ h
  intro e; subst e
  simp [hv, Value.isEmptyColl] at this

/-- for BLPOP / BRPOP the serving keys are all the keys of the command -/
theorem serveKeys_bpop (p : Parked) (h : p.kind ≠ "brpoplpush") : serveKeys p = p.keys := by
  unfold serveKeys
  split
  · rename_i h1 _; exact absurd h1 h
  · rfl

theorem listAt_of_elemsAt {d : Dict} {k : Bytes} (h : elemsAt d k ≠ []) : ListAt d k := by
  unfold elemsAt at h
  cases hl : d.lookup k with
  | none => rw [hl] at h; exact absurd rfl h
  | some it =>
    rw [hl] at h
    cases hv : it.value with
    | list l => exact ⟨it, l, Db.lookup_some_mem hl, hv⟩
    | _ => simp [hv, elemsOf] at h

/-! ### the statement with *all* keys of the command is false for BRPOPLPUSH

`BRPOPLPUSH src dst` is served from `src` only; a non-empty destination does not (and must not) wake it.
Witness: connection 2 pushes to `d`, connection 1 blocks in `BRPOPLPUSH k d 0`: it is parked un-flagged although the
key `d` of its key list holds a non-empty list. -/

def histR : List Ev :=
  [.open 1, .open 2,
   .request { park := true } 2 [strBytes "RPUSH", [100], [97]] [5] [],
   .request { park := true } 1 [strBytes "BRPOPLPUSH", [107], [100], [48]] [10] []]

theorem no_lost_wakeup_all_keys_false :
    ¬ ∀ (evs : List Ev), ∀ x ∈ (runHistory evs).srv.conns, ∀ p, x.parked = some p →
      ∀ k ∈ p.keys, ListAt ((runHistory evs).srv.dbs.getD p.db []) k → p.woken = true := by
  intro h
  have hany : (runHistory histR).srv.conns.any (fun x => (x.parked.map (·.keys)) == some [[107], [100]]
      && (x.parked.map (·.woken)) == some false && (x.parked.map (·.db)) == some 0) = true := by
    decide +kernel
  obtain ⟨x, hx, hprop⟩ := List.any_eq_true.1 hany
  simp only [Bool.and_eq_true, beq_iff_eq] at hprop
  obtain ⟨⟨hkeys, hw⟩, hdb⟩ := hprop
  cases hpk : x.parked with
  | none => rw [hpk] at hkeys; cases hkeys
  | some p =>
    rw [hpk] at hkeys hw hdb
    simp only [Option.map_some, Option.some.injEq] at hkeys hw hdb
    have hl : ListAt ((runHistory histR).srv.dbs.getD p.db []) [100] := by
      rw [hdb]
      exact listAt_of_elemsAt (by decide +kernel)
    have := h histR x hx p hpk [100] (by rw [hkeys]; simp) hl
    rw [hw] at this; cases this

/-! ## 1. Conservation -/

/-- **One pass of BLPOP / BRPOP** over a database without TTLs.  Served: the reply is `[k, x]` with `k` one of the keys
and the stored elements afterwards, plus `x`, are exactly the stored elements before (as multisets).  Not served
(nothing found, or WRONGTYPE on the first pass): the state is unchanged. -/
theorem bpop_pass_conserves (d : Nat) (left first : Bool) (keys : List Bytes) (s : Sys)
    (hd : s.DataInv) (ht : NoTTL s) :
    (∀ r, (bpopPass d left first keys s).1 = .ok (some r) →
      ∃ k x, k ∈ keys ∧ r = .arr [.bulk k, .bulk x] ∧
        (stored (bpopPass d left first keys s).2 ++ [x]).Perm (stored s)) ∧
    ((∀ r, (bpopPass d left first keys s).1 ≠ .ok (some r)) → (bpopPass d left first keys s).2 = s) :=
  bpopPass_conserve d left first keys s (hd.dbAt d) (ht.dbAt d)

/-- **Wake-up of a connection parked in BLPOP / BRPOP** (`.wake`): `stored s' + taken = stored s` with `taken` empty or
the one element `x`; what the client receives (`delivered`) is exactly `taken` — provided its socket is still open. -/
theorem wake_conserves (s : Sys) (c : Nat) (clocks : List Int) (p : Parked) (hd : s.DataInv) (ht : NoTTL s)
    (hp : (s.conn c).parked = some p) (hk : IsBpop p) :
    ∃ taken : List Bytes, taken.length ≤ 1 ∧
      (stored (stepEv s (.wake c clocks)) ++ taken).Perm (stored s) ∧
      delivered (stepEv s (.wake c clocks)).out = (if (s.conn c).closed then [] else taken) ∧
      (taken = [] → (stepEv s (.wake c clocks)).srv.dbs = s.srv.dbs) :=
  wake_bpop_conserve s c clocks p hd ht hp hk

/-- corollary, count-wise, for an open socket: every element is still stored or was delivered, exactly once -/
theorem wake_conserves_count (s : Sys) (c : Nat) (clocks : List Int) (p : Parked) (hd : s.DataInv) (ht : NoTTL s)
    (hp : (s.conn c).parked = some p) (hk : IsBpop p) (hopen : (s.conn c).closed = false) (x : Bytes) :
    (stored (stepEv s (.wake c clocks))).count x + (delivered (stepEv s (.wake c clocks)).out).count x
      = (stored s).count x := by
  obtain ⟨taken, _, hperm, hdel, _⟩ := wake_bpop_conserve s c clocks p hd ht hp hk
  rw [hdel, hopen]
  simp only [Bool.false_eq_true, if_false]
  rw [← List.count_append]
  exact hperm.count_eq x

/-- a time-out, and opening / closing / collecting a connection, take nothing and deliver nothing -/
theorem timeout_open_close_conserve (s : Sys) (c : Nat) :
    ((stepEv s (.timeout c)).srv.dbs = s.srv.dbs ∧ delivered (stepEv s (.timeout c)).out = []) ∧
    ((stepEv s (.open c)).srv.dbs = s.srv.dbs ∧ delivered (stepEv s (.open c)).out = []) ∧
    ((stepEv s (.close c)).srv.dbs = s.srv.dbs ∧ delivered (stepEv s (.close c)).out = []) ∧
    ((stepEv s (.gc c)).srv.dbs = s.srv.dbs ∧ delivered (stepEv s (.gc c)).out = []) :=
  ⟨timeout_conserve s c, (open_close_conserve s c).1, (open_close_conserve s c).2.1, (open_close_conserve s c).2.2⟩

/-! ### "delivered exactly once" is FALSE in the presence of `close` events

A connection parked in BLPOP whose socket is closed stays parked; when it is woken the pass takes the element out of
the list and the reply is dropped (`emit` does nothing for a closed socket): the element is neither stored nor
delivered.  Witness (replayable on the Python code: `close()` the socket of a client blocked in BLPOP from another
thread, push to the key): -/

def histC : List Ev :=
  [.open 1, .open 2,
   .request { park := true } 1 [strBytes "BLPOP", [107], [48]] [10] [],
   .close 1,
   .request { park := true } 2 [strBytes "RPUSH", [107], [97]] [30] [],
   .wake 1 []]

theorem delivered_or_stored_false_with_close :
    stored (runHistory (histC.take 5)) = [[97]] ∧ stored (runHistory histC) = [] ∧
    delivered (runHistory histC).out = [] ∧ (runHistory histC).out = [] := by
  decide +kernel

/-! ## 3. A wake-up serves the first non-empty key; a time-out answers nil -/

/-- **Served in key order from the head / tail.**  `k` is the first key of the parked BLPOP / BRPOP that holds a live
list `l` (no earlier key does): the `.wake` un-parks the connection and its only output is the reply `[k, x]` to `c`,
`x` the head of `l` for BLPOP and its last element for BRPOP. -/
theorem wake_serves_first_nonempty_key (s : Sys) (c : Nat) (clocks : List Int) (p : Parked) (pre post : List Bytes)
    (k : Bytes) (it : Item) (l : List Bytes) (hd : s.DataInv)
    (hp : (s.conn c).parked = some p) (hb : IsBpop p) (hkeys : p.keys = pre ++ k :: post)
    (hpre : ∀ k' ∈ pre, ¬ HoldsList (s.dbAt p.db) k')
    (hk : (s.dbAt p.db).live k = some it) (hv : it.value = .list l) (hopen : (s.conn c).closed = false) :
    ((stepEv s (.wake c clocks)).conn c).parked = none ∧
    ∃ x, (stepEv s (.wake c clocks)).out = [(c, .arr [.bulk k, .bulk x])] ∧
      (if p.kind = "blpop" then l.head? = some x else l.getLast? = some x) :=
  wake_serves_first_key s c clocks p pre post k it l hd hp hb hkeys hpre hk hv hopen

/-- in a reachable state the hypothesis `DataInv` is free, and by `no_lost_wakeup_live` the connection is flagged -/
theorem wake_serves_reachable (evs : List Ev) (c : Nat) (clocks : List Int) (p : Parked) (pre post : List Bytes)
    (k : Bytes) (it : Item) (l : List Bytes)
    (hp : ((runHistory evs).conn c).parked = some p) (hb : IsBpop p) (hkeys : p.keys = pre ++ k :: post)
    (hpre : ∀ k' ∈ pre, ¬ HoldsList ((runHistory evs).dbAt p.db) k')
    (hk : ((runHistory evs).dbAt p.db).live k = some it) (hv : it.value = .list l)
    (hopen : ((runHistory evs).conn c).closed = false) :
    p.woken = true ∧
    ((stepEv (runHistory evs) (.wake c clocks)).conn c).parked = none ∧
    ∃ x, (stepEv (runHistory evs) (.wake c clocks)).out = [(c, .arr [.bulk k, .bulk x])] ∧
      (if p.kind = "blpop" then l.head? = some x else l.getLast? = some x) := by
  refine ⟨?_, wake_serves_first_key _ c clocks p pre post k it l (inv_runHistory evs).1 hp hb hkeys hpre hk hv hopen⟩
  have hbk : serveKeys p = p.keys := by
    unfold serveKeys
    split
    · rename_i h1 h2; exact absurd ⟨h1, _, _, h2⟩ hb
    · rfl
  exact no_lost_wakeup_live evs c p hp k (by rw [hbk, hkeys]; simp) ⟨it, l, hk, hv⟩

/-- **A time-out answers nil and un-parks**; it takes nothing (`timeout_open_close_conserve`). -/
theorem timeout_answers_nil (s : Sys) (c : Nat) (p : Parked) (hp : (s.conn c).parked = some p) :
    ((stepEv s (.timeout c)).conn c).parked = none ∧
    (stepEv s (.timeout c)).out = (if (s.conn c).closed then [] else [(c, .nil)]) :=
  timeout_unparks s c p hp

/-! ### side finding: WRONGTYPE on a *later* pass (BRPOPLPUSH destination)

C11 says "a wrong-type key is an error on the initial attempt only".  For the keys BLPOP / BRPOP look at, and for the
source of BRPOPLPUSH, that is `bpopPass_wrongtype_only_first_pass` (C11).  For the *destination* of BRPOPLPUSH it is
false: `_brpoplpush_pass` raises WRONGTYPE for a non-list destination whatever `first_pass` is.  Witness: 1 blocks in
`BRPOPLPUSH k d 0`; 2 does `SET d x`, `RPUSH k a`; the wake-up of 1 answers the WRONGTYPE error (and un-parks; the
element stays in `k`). -/

def histW : List Ev :=
  [.open 1, .open 2,
   .request { park := true } 1 [strBytes "BRPOPLPUSH", [107], [100], [48]] [10] [],
   .request { park := true } 2 [strBytes "SET", [100], [120]] [20] [],
   .request { park := true } 2 [strBytes "RPUSH", [107], [97]] [30] [],
   .wake 1 []]

theorem wrongtype_on_later_pass_brpoplpush_dst :
    (runHistory (histW.take 3)).srv.conns.map (fun x => (x.id, x.parked.isSome)) = [(1, true), (2, false)] ∧
    (runHistory histW).out.map (fun p => (p.1, match p.2 with | .err m => some m | _ => none))
      = [(1, some (strBytes Msgs.WRONGTYPE_MSG))] ∧
    stored (runHistory histW) = [[97]] ∧
    (runHistory histW).srv.conns.map (fun x => (x.id, x.parked.isSome)) = [(1, false), (2, false)] := by
  decide +kernel

/-! ## non-vacuity: two consumers and a producer -/

def pk : Mode := { park := true }

/-- consumers 1 and 2 block in `BLPOP k 0`; producer 3 pushes `a`; 1 is woken and served; 3 pushes `b`; 2 is woken -/
def hist : List Ev :=
  [.open 1, .open 2, .open 3,
   .request pk 1 [strBytes "BLPOP", [107], [48]] [10] [],
   .request pk 2 [strBytes "BLPOP", [107], [48]] [20] [],
   .request pk 3 [strBytes "RPUSH", [107], [97]] [30] [],
   .wake 1 [],
   .request pk 3 [strBytes "RPUSH", [107], [98]] [40] [],
   .wake 2 []]

/-- both consumers park un-flagged; the push flags both (the hypothesis of `no_lost_wakeup` is met: `k` stores `[a]`) -/
example : (runHistory (hist.take 5)).srv.conns.map (fun x => (x.id, x.parked.map (·.woken)))
      = [(1, some false), (2, some false), (3, none)] ∧
    (runHistory (hist.take 6)).srv.conns.map (fun x => (x.id, x.parked.map (·.woken)))
      = [(1, some true), (2, some true), (3, none)] ∧
    stored (runHistory (hist.take 6)) = [[97]] := by decide +kernel

/-- consumer 1 receives `a` (exactly once: consumer 2, woken later, receives `b`), nothing is left, nobody is parked -/
example : (runHistory (hist.take 7)).out.map (fun p => (p.1, popElem p.2)) = [(1, [[97]])] ∧
    delivered (runHistory (hist.take 7)).out = [[97]] ∧
    stored (runHistory (hist.take 7)) = [] ∧
    (runHistory hist).out.map (fun p => (p.1, popElem p.2)) = [(2, [[98]])] ∧
    delivered (runHistory hist).out = [[98]] ∧
    stored (runHistory hist) = [] ∧
    (runHistory hist).srv.conns.map (fun x => (x.id, x.parked.isSome)) = [(1, false), (2, false), (3, false)] := by
  decide +kernel

/-- the hypotheses of `wake_conserves` / `wake_serves_first_nonempty_key` hold in the state before `.wake 1` -/
example : NoTTL (runHistory (hist.take 6)) ∧
    ((runHistory (hist.take 6)).conn 1).parked.map (fun p => (p.kind, p.keys, p.db)) = some ("blpop", [[107]], 0) ∧
    (((runHistory (hist.take 6)).dbAt 0).live [107]).map (fun it => (elemsOf it.value, it.expireat)) = some ([[97]], none) ∧
    ((runHistory (hist.take 6)).conn 1).closed = false := by
  refine ⟨?_, by decide +kernel, by decide +kernel, by decide +kernel⟩
  intro d hd q hq
  have h : (runHistory (hist.take 6)).srv.dbs.all (fun d => d.all (fun q => q.2.expireat == none)) = true := by
    decide +kernel
  have := List.all_eq_true.1 (List.all_eq_true.1 h d hd) q hq
  simpa using this

/-- a time-out: consumer 1 blocks with a deadline and is timed out: nil, un-parked -/
example : (runHistory [.open 1, .request pk 1 [strBytes "BLPOP", [107], [49]] [10, 11, 12] [], .timeout 1]).out.map
      (fun p => (p.1, match p.2 with | .nil => true | _ => false)) = [(1, true)] ∧
    (runHistory [.open 1, .request pk 1 [strBytes "BLPOP", [107], [49]] [10, 11, 12] [], .timeout 1]).srv.conns.map
      (fun x => x.parked.isSome) = [false] := by decide +kernel

end FR.Props.C11s
