import FR.Proofs.C16Regex
import FR.Props.C16
/-!
# C16r: the regex TEXT that `compile_pattern` emits denotes Redis's glob matcher

`FR.Glob.render (compile p)` is, byte for byte, `compile_pattern(p).pattern` (differentially tested
against the Python source).  This file proves, for that text,

1. it always decodes (`parseRx`) to the regex `rxOf (compile p)` of a tiny fragment
   (`^ … \Z`, `.`, `.*`, literal bytes, `[…]`/`[^…]`, `(?!)`) — the model-level content of
   "compiling any pattern never fails";
2. the model's backtracking matcher `matchA` decides exactly the TEXTBOOK language
   (`Rx.Matches`) of that regex;
3. hence the textbook language of the text is Redis's `stringmatchlen` on non-empty subjects;
4. lexical facts about the text that can be read against the `re` syntax documentation.

Trusted after this file: CPython's `re` implements `Rx.Matches` on the texts `parseRx` accepts.
-/
namespace FR.Props.C16r
open FR.Glob

local macro "glob_eval" : tactic =>
  `(tactic| (simp [globMatch, compile, classAtom, splitNeg, scanClass, rglob, rClass, rClassLoop,
      dropStars, cQ, cStar, cBS, cLB, cRB, cCaret, cDash, matchA, Atom.matches1, CItem.matches,
      u8_min, u8_max] <;> try decide))

/-! ## 1. the text decodes to the expected regex -/

/-- The text rendered from well-formed atoms decodes to their translation. -/
theorem render_parses (as : List Atom) (h : AtomsOK as) :
    parseRx (render as) = some (rxOf as) :=
  parseRx_render as h

/-- `compile_pattern` only produces well-formed atoms (ordered ranges, non-empty sets). -/
theorem compile_ok (p : B) : AtomsOK (compile p) := compile_atomsOK p

-- "h[a-c]*o"  ↦  ^h[a-c].*o\Z  ↦  h · [a-c] · (.)* · o
example : render [.lit 104, .cls false [.range 97 99], .star, .lit 111]
    = [94, 104, 91, 97, 45, 99, 93, 46, 42, 111, 92, 90] := by decide
example : parseRx [94, 104, 91, 97, 45, 99, 93, 46, 42, 111, 92, 90]
    = some (.cat (.lit 104) (.cat (.set false [.range 97 99]) (.cat (.star .any)
        (.cat (.lit 111) .eps)))) := by decide +kernel
example : AtomsOK [.lit 104, .cls false [.range 97 99], .star, .lit 111] := by
  have h : compile [104, 91, 97, 45, 99, 93, 42, 111] =
      [.lit 104, .cls false [.range 97 99], .star, .lit 111] := by glob_eval
  exact h ▸ compile_ok _
-- "[^\]-]\*?[]"  ↦  ^[^\]\-]\*.(?!)\Z
example : render [.cls true [.ch 93, .ch 45], .lit 42, .any, .never]
    = [94, 91, 94, 92, 93, 92, 45, 93, 92, 42, 46, 40, 63, 33, 41, 92, 90] := by decide
example : parseRx (render [.cls true [.ch 93, .ch 45], .lit 42, .any, .never])
    = some (.cat (.set true [.ch 93, .ch 45]) (.cat (.lit 42) (.cat .any (.cat .fail .eps)))) := by
  decide +kernel
-- the side condition is needed: Python rejects `[b-a]` ("bad character range") and reads `[]`
-- as the start of a set containing `]`; `parseRx` rejects both texts
example : ¬ AtomsOK [.cls false [.range 98 97]] := by
  intro h; exact absurd (h _ (List.mem_cons_self ..)).2 (by simp [ItemOK])
example : parseRx (render [.cls false [.range 98 97]]) = none := by decide +kernel
example : parseRx (render [.cls false []]) = none := by decide +kernel

/-! ## 2. the backtracking matcher decides the textbook language -/

theorem matchA_iff_language (as : List Atom) (s : B) :
    matchA as s = true ↔ (rxOf as).Matches s :=
  matchA_iff_matches as s

-- `h.*o` : "hello" is in the language, "hell" is not
example : (rxOf [.lit 104, .star, .lit 111]).Matches [104, 101, 108, 108, 111] :=
  (matchA_iff_language _ _).mp (by glob_eval)
example : ¬ (rxOf [.lit 104, .star, .lit 111]).Matches [104, 101, 108, 108] :=
  fun h => absurd ((matchA_iff_language _ _).mpr h) (by glob_eval)
-- the semantics is the textbook one, directly: `.*` is all strings, `(?!)` is the empty language
example (s : B) : (Rx.star .any).Matches s := Rx.star_any_all s
example (s : B) : ¬ Rx.fail.Matches s := (Rx.fail_iff s).mp
example : (Rx.cat (.lit 97) (.set true [.range 48 57])).Matches [97, 98] :=
  Rx.Matches.cat (.lit 97) (.setNeg _ 98 (by simp [RItem.Has]))

/-! ## 3. the text of `compile_pattern(p)` denotes Redis's glob matcher -/

/-- Model-level content of "compiling any pattern never fails": the text is always a well-formed
regex of the fragment. -/
theorem compile_text_parses (p : B) : parseRx (render (compile p)) = some (rxOf (compile p)) :=
  render_parses _ (compile_ok p)

theorem compile_never_fails (p : B) : (parseRx (render (compile p))).isSome = true := by
  rw [compile_text_parses]; rfl

/-- The regex text emitted for `p`, read with the textbook semantics, accepts a non-empty subject
iff Redis's `stringmatchlen` does. -/
theorem regex_text_denotes_redis_glob (p s : B) (hs : s ≠ []) :
    ∃ r, parseRx (render (compile p)) = some r ∧ (r.Matches s ↔ rglob p s = true) := by
  refine ⟨rxOf (compile p), compile_text_parses p, ?_⟩
  rw [← matchA_iff_language, ← FR.Props.C16.glob_correct p s hs]
  exact Iff.rfl

/-- Same, for every decoding of the text (the decoding is a function, so there is only one). -/
theorem regex_text_denotes_redis_glob' (p s : B) (hs : s ≠ []) (r : Rx)
    (hr : parseRx (render (compile p)) = some r) : r.Matches s ↔ rglob p s = true := by
  obtain ⟨r', hr', h⟩ := regex_text_denotes_redis_glob p s hs
  rw [hr] at hr'; cases hr'; exact h

-- "h[a-c]*o" / "hbllo"
example : ∃ r, parseRx (render (compile [104, 91, 97, 45, 99, 93, 42, 111])) = some r ∧
    r.Matches [104, 98, 108, 108, 111] := by
  obtain ⟨r, hr, h⟩ := regex_text_denotes_redis_glob [104, 91, 97, 45, 99, 93, 42, 111]
    [104, 98, 108, 108, 111] (by simp)
  exact ⟨r, hr, h.mpr (by glob_eval)⟩
example : (parseRx (render (compile [91, 92]))).isSome = true := compile_never_fails _
-- `s ≠ []` is necessary: the text of "*" is `^.*\Z`, whose language contains the empty string,
-- while Redis rejects the empty subject
example : (rxOf (compile [42])).Matches [] ∧ rglob [42] [] = false :=
  ⟨(matchA_iff_language _ _).mp (by glob_eval), by glob_eval⟩

/-! ## 4. the text itself -/

/-- `re.escape` produces the byte alone or a backslash and the byte. -/
theorem escapeByte_shape (c : UInt8) :
    (isEscaped c = true ∧ escapeByte c = [92, c]) ∨ (isEscaped c = false ∧ escapeByte c = [c]) :=
  escapeByte_cases c

theorem escapeByte_length (c : UInt8) :
    (escapeByte c).length = if isEscaped c then 2 else 1 :=
  FR.Glob.escapeByte_length c

/-- Every byte that is special in `re` syntax outside a set (`. ^ $ * + ? { } [ ] \ | ( )`) or inside
a set (`] \ ^ -`) is written with a backslash. -/
theorem escapeByte_special (c : UInt8) (h : (isReMeta c || isSetMeta c) = true) :
    escapeByte c = [92, c] :=
  FR.Glob.escapeByte_special c h

/-- A byte written without a backslash is special neither outside nor inside a set. -/
theorem escapeByte_plain (c : UInt8) (h : escapeByte c = [c]) :
    isReMeta c = false ∧ isSetMeta c = false :=
  FR.Glob.escapeByte_plain c h

/-- A backslash never precedes an ASCII letter or digit, so `\c` is always the literal `c`
(never `\d`, `\b`, `\Z`, a back-reference, or an invalid escape). -/
theorem escapeByte_escaped_not_alnum (c : UInt8) (h : escapeByte c = [92, c]) :
    isAlnum c = false :=
  FR.Glob.escapeByte_escaped_not_alnum c h

theorem escapeByte_injective (a b : UInt8) (h : escapeByte a = escapeByte b) : a = b :=
  FR.Glob.escapeByte_injective h

theorem unescape_escapeByte (c : UInt8) : unescape (escapeByte c) = some c :=
  FR.Glob.unescape_escapeByte c

/-- Token view of the text by a lexer that knows nothing about `render` (a backslash takes the next
byte; any other byte is `special` iff it has a syntactic role in `re`): the tokens are `^`, the
tokens of each atom, and the final `\Z`. -/
theorem lex_render (as : List Atom) :
    lex (render as) = .special 94 :: (atomsToks as ++ [.esc 90]) :=
  lex_render_eq as

/-- Every unescaped special byte between `^` and `\Z` is one of the structural characters
`. * ( ? ) [ ^ ] -` put there by a construct (`.`, `.*`, `(?!)`, `[`, `[^`, `]`, `a-b`). -/
theorem special_tokens_structural (as : List Atom) (c : UInt8)
    (h : Tok.special c ∈ atomsToks as) : c ∈ [46, 42, 40, 63, 41, 91, 94, 93, 45] :=
  atomsToks_special as c h

/-- Inside a set the only unescaped special byte is the `-` of a range. -/
theorem set_special_tokens (items : List CItem) (c : UInt8)
    (h : Tok.special c ∈ itemsToks items) : c = 45 :=
  itemsToks_special items c h

/-- Every `\c` between `^` and `\Z` escapes a byte of `re.escape`'s table (punctuation or white
space), hence is a literal. -/
theorem escaped_tokens_literal (as : List Atom) (c : UInt8)
    (h : Tok.esc c ∈ atomsToks as) : isEscaped c = true ∧ isAlnum c = false :=
  ⟨atomsToks_esc as c h, isEscaped_not_alnum c (atomsToks_esc as c h)⟩

example : escapeByte 42 = [92, 42] ∧ escapeByte 97 = [97] ∧ escapeByte 10 = [92, 10] ∧
    escapeByte 0 = [0] ∧ escapeByte 255 = [255] := by decide
example : (isReMeta 42 || isSetMeta 42) = true := by decide
example : escapeByte 97 = [97] := by decide
example : escapeByte 45 = [92, 45] ∧ isAlnum 45 = false := by decide
example : (escapeByte 93).length = 2 := by decide
example : unescape [92, 93] = some 93 ∧ unescape [93] = none ∧ unescape [92, 100] = none := by
  decide
-- ^[a\-\]]\*\Z
example : lex (render [.cls false [.ch 97, .ch 45, .ch 93], .lit 42])
    = [.special 94, .special 91, .plain 97, .esc 45, .esc 93, .special 93, .esc 42, .esc 90] := by
  decide +kernel
example : Tok.special 45 ∈ atomsToks [.cls false [.range 97 99]] := by decide +kernel
example : Tok.special 45 ∈ itemsToks [.range 97 99] := by decide +kernel
example : Tok.esc 42 ∈ atomsToks [.lit 42] := by decide +kernel

end FR.Props.C16r
