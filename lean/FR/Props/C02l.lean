import FR.Proofs.C02lBlocking
/-!
# C02 — the list commands refine abstract lists on the key space

Every theorem of parts A–C is about `run name ctx raw db`, i.e. the generic runner `runRegular` (what
`processCommand` does for a regular command) applied to the *registered* signature (`SigTable`) and the
*registered* body (`Cmd.regular`) of the command, on an ARBITRARY database, for arbitrary byte strings and BOTH
emulated versions (`ctx.version` is a variable; only LPOP / RPOP with count 0 look at it).

Standing hypotheses (invariants of every reachable state, `hypotheses_chain`):
* `nd : NodupKeys db.dict` — a Python dict has unique keys;
* `ne : NoEmpty db.dict`   — no stored empty collection (C09); this is what makes "the list became empty" and "the
  key is missing" the same thing.

Vocabulary (`FR/Proofs/C02lLists.lean`):
* `db.live : Bytes → Option Item` — the abstract key space (the unexpired entry of a key);
* `listView live k = some (l, e)` — `k` holds the list `l` with deadline `e`, or is missing (`l = []`, `e = none`);
  `= none` — `k` holds another type;
* `putList live k l e` — the key space in which `k` holds `l` with deadline `e` and is DELETED when `l = []`
  (`putList_self`, `putList_ne`); every other key is untouched;
* `listCmd version name raw live` — THE ABSTRACT LIST SEMANTICS: reply and key space after the command `name` with the raw
  arguments `raw` (every arity, every byte string); the per-command theorems below are its readable unfoldings;
* `lrangeSpec`, `lindexSpec`, `insertSpec`, `lremSpec`, `norm` — pure list functions (see also `FR.Props.C02`).

The conclusion always has the form `(reply, key space afterwards) = closed formula in the key space before`; in
particular element order is exact, the deadline `e` of a list is kept by every in-place command, and an error reply
leaves the key space unchanged.
-/
namespace FR.Props.C02l
open FR FR.M FR.StrKeys FR.ListKeys FR.Spec FR.Proofs
open FR.HashSet (run sigOf)

/-- the database of the non-vacuity examples: a list with a deadline, a string, a one-element list, and a list whose
deadline (3) has passed at the clock (5); key `[3]` is missing -/
def exDb : Db :=
  ⟨[([1], ⟨.list [[10], [20], [10], [30]], some 50⟩), ([2], ⟨.str [7], none⟩), ([4], ⟨.list [[5]], none⟩),
    ([9], ⟨.list [[1]], some 3⟩)], 5⟩
/-- (for the examples only) projections of a reply onto types with decidable equality -/
def intView (r : Reply) : Option Int := match r with | .int n => some n | _ => none
def bulkView (r : Reply) : Option Bytes := match r with | .bulk b => some b | _ => none
def errView (r : Reply) : Option Bytes := match r with | .err m => some m | _ => none

def ctx6 : Ctx := { version := 6, time := 5 }
def ctx7 : Ctx := { version := 7, time := 5 }

/-- the standing hypotheses hold of `exDb`; all kinds of view occur (an expired list is a missing key) -/
example : NodupKeys exDb.dict ∧ NoEmpty exDb.dict ∧
    listView exDb.live [1] = some ([[10], [20], [10], [30]], some 50) ∧ listView exDb.live [3] = some ([], none) ∧
    listView exDb.live [2] = none ∧ listView exDb.live [9] = some ([], none) :=
  ⟨by decide, by unfold NoEmpty; decide, by rfl, by rfl, by rfl, by rfl⟩

/-- the abbreviation `run` really runs the registered signature and body (`tables` lists them) -/
theorem run_def (name : String) (ctx : Ctx) (raw : List Bytes) (db : Db) :
    run name ctx raw db = runRegular (sigOf name) (bodyOf name) ctx none raw db := rfl

theorem registered : ∀ name ∈ listCmds,
    (SigTable.find name).isSome = true ∧ (Cmd.regular name).isSome = true ∧ (sigOf name).name = name := by
  decide

/-! ## A. One step -/

section specs
variable (ctx : Ctx) (db : Db) (nd : NodupKeys db.dict) (ne : NoEmpty db.dict)
include nd ne

/-- REFINEMENT.  For every list command and EVERY argument list (any arity, any bytes), reply and key space
afterwards are the abstract list semantics `listCmd` of the key space before: dict order, dead entries and lazy
deletions are unobservable. -/
theorem refinement (name : String) (hname : name ∈ listCmds) (raw : List Bytes) :
    ((run name ctx raw db).reply, (run name ctx raw db).db.live) = listCmd ctx.version name raw db.live :=
  run_refines name hname ctx raw db nd ne

example : "lmove" ∈ listCmds ∧ "rpop" ∈ listCmds ∧ listCmds.length = 15 := by decide

/-- the standing hypotheses survive every run and the clock is untouched, so the one-step theorems chain -/
theorem hypotheses_chain (name : String) (raw : List Bytes) :
    NodupKeys (run name ctx raw db).db.dict ∧ NoEmpty (run name ctx raw db).db.dict ∧
    (run name ctx raw db).db.time = db.time :=
  ⟨runRegular_nodup _ _ ctx none raw nd, runRegular_noEmpty _ _ ctx none raw nd ne,
    runRegular_time _ _ ctx none raw nd⟩

/-! ### LPUSH / RPUSH / LPUSHX / RPUSHX -/

/-- LPUSH k v₁ … vₙ: the values are inserted at the head one after the other, so the list becomes
`[vₙ, …, v₁] ++ old` (a missing key is the empty list); the reply is the new length; the deadline is kept; a key of
another type is refused with WRONGTYPE and nothing changes. -/
theorem lpush_spec (k v : Bytes) (vs : List Bytes) :
    let out := run "lpush" ctx (k :: v :: vs) db
    (out.reply, out.db.live) =
      match listView db.live k with
      | none => (wrongtype, db.live)
      | some (l, e) =>
        (.int ((v :: vs).reverse ++ l).length, putList db.live k ((v :: vs).reverse ++ l) e) := by
  refine (refinement ctx db nd ne "lpush" (by decide) _).trans ?_
  rw [listCmd_lpush]
  simp only [pushCmd, pushL, onList]
  cases listView db.live k with
  | none => rfl
  | some p => obtain ⟨l, e⟩ := p; simp [pushed]

/-- RPUSH k v₁ … vₙ: the list becomes `old ++ [v₁, …, vₙ]` -/
theorem rpush_spec (k v : Bytes) (vs : List Bytes) :
    let out := run "rpush" ctx (k :: v :: vs) db
    (out.reply, out.db.live) =
      match listView db.live k with
      | none => (wrongtype, db.live)
      | some (l, e) => (.int (l ++ v :: vs).length, putList db.live k (l ++ v :: vs) e) := by
  refine (refinement ctx db nd ne "rpush" (by decide) _).trans ?_
  rw [listCmd_rpush]
  simp only [pushCmd, pushL, onList]
  cases listView db.live k with
  | none => rfl
  | some p => obtain ⟨l, e⟩ := p; simp [pushed]

/-- LPUSHX / RPUSHX: on a missing key nothing happens (no key is created) and the reply is 0; otherwise as LPUSH /
RPUSH -/
theorem pushx_spec (k v : Bytes) (vs : List Bytes) :
    (let out := run "lpushx" ctx (k :: v :: vs) db
     (out.reply, out.db.live) =
      match listView db.live k with
      | none => (wrongtype, db.live)
      | some (l, e) =>
        if l = [] then (.int 0, db.live)
        else (.int ((v :: vs).reverse ++ l).length, putList db.live k ((v :: vs).reverse ++ l) e)) ∧
    (let out := run "rpushx" ctx (k :: v :: vs) db
     (out.reply, out.db.live) =
      match listView db.live k with
      | none => (wrongtype, db.live)
      | some (l, e) =>
        if l = [] then (.int 0, db.live)
        else (.int (l ++ v :: vs).length, putList db.live k (l ++ v :: vs) e)) := by
  constructor
  · refine (refinement ctx db nd ne "lpushx" (by decide) _).trans ?_
    rw [listCmd_lpushx]
    simp only [pushCmd, pushL, onList]
    cases listView db.live k with
    | none => rfl
    | some p => obtain ⟨l, e⟩ := p; by_cases hl : l = [] <;> simp [pushed, hl]
  · refine (refinement ctx db nd ne "rpushx" (by decide) _).trans ?_
    rw [listCmd_rpushx]
    simp only [pushCmd, pushL, onList]
    cases listView db.live k with
    | none => rfl
    | some p => obtain ⟨l, e⟩ := p; by_cases hl : l = [] <;> simp [pushed, hl]

omit nd in
/-- `l = []` in the theorems above and below means exactly "the key is missing" -/
theorem empty_view_iff_missing (k : Bytes) (e : Option Int) :
    listView db.live k = some ([], e) ↔ db.live k = none ∧ e = none :=
  listView_nil_iff (liveOK ne) k e

/-- fewer than two arguments: the arity error, nothing changes (for every command: `bad_arity` below, and `refinement`,
whose `listCmd` answers `arityErr` for every argument list of the wrong shape) -/
theorem push_arity (name : String) (hname : name ∈ ["lpush", "rpush", "lpushx", "rpushx"]) (raw : List Bytes)
    (h : raw.length < 2) :
    ((run name ctx raw db).reply, (run name ctx raw db).db.live) = (arityErr name, db.live) := by
  simp only [List.mem_cons, List.mem_nil_iff, or_false] at hname
  match raw, h with
  | [], _ => rcases hname with rfl | rfl | rfl | rfl <;> exact refinement ctx db nd ne _ (by decide) _
  | [_], _ => rcases hname with rfl | rfl | rfl | rfl <;> exact refinement ctx db nd ne _ (by decide) _

/-! ### LLEN, LINDEX, LRANGE — reads change nothing -/

/-- LLEN: the length, 0 for a missing key -/
theorem llen_spec (k : Bytes) :
    let out := run "llen" ctx [k] db
    (out.reply, out.db.live) =
      match listView db.live k with
      | none => (wrongtype, db.live)
      | some (l, _) => (.int l.length, db.live) :=
  refinement ctx db nd ne "llen" (by decide) [k]

/-- LINDEX k i: the element at the normalised index (`lindexSpec`: negative = from the end), nil when out of range
or when the key is missing -/
theorem lindex_spec' (k ib : Bytes) (i : Int) (hi : Conv.int ib = .ok i) :
    let out := run "lindex" ctx [k, ib] db
    (out.reply, out.db.live) =
      match listView db.live k with
      | none => (wrongtype, db.live)
      | some (l, _) => (Reply.ofOptBulk (lindexSpec l i), db.live) := by
  refine (refinement ctx db nd ne "lindex" (by decide) _).trans ?_
  rw [listCmd_lindex]
  simp only [lindexCmd, withInt, hi, onList]
  cases h : db.live k with
  | none => simp [listView, h, lindexSpec, norm, Reply.ofOptBulk]
  | some it => rfl

omit nd ne in
/-- `lindexSpec` spelled out -/
theorem lindexSpec_def (l : List Bytes) (i : Int) :
    lindexSpec l i = if 0 ≤ norm i l.length then l[(norm i l.length).toNat]? else none := rfl

/-- LINDEX on a missing key is nil even when the index is not an integer (the key is looked at first); on a live
key a bad index is the conversion error, also when the key holds another type -/
theorem lindex_bad_index (k ib : Bytes) (m : Err) (hi : Conv.int ib = .error m) :
    let out := run "lindex" ctx [k, ib] db
    (out.reply, out.db.live) = (if (db.live k).isSome then errR m else .nil, db.live) := by
  refine (refinement ctx db nd ne "lindex" (by decide) _).trans ?_
  rw [listCmd_lindex]
  simp only [lindexCmd, withInt, hi]
  cases h : db.live k <;> rfl

/-- LRANGE k s e: the window of the normalised closed index range (`lrangeSpec`, see `FR.Props.C02`); empty for a
missing key -/
theorem lrange_spec' (k sb eb : Bytes) (s e : Int) (hs : Conv.int sb = .ok s) (he : Conv.int eb = .ok e) :
    let out := run "lrange" ctx [k, sb, eb] db
    (out.reply, out.db.live) =
      match listView db.live k with
      | none => (wrongtype, db.live)
      | some (l, _) => (Reply.bulks (lrangeSpec l s e), db.live) := by
  refine (refinement ctx db nd ne "lrange" (by decide) _).trans ?_
  rw [listCmd_lrange]
  simp only [lrangeCmd, withInt, hs, he, onList]
  rfl

/-! ### LINSERT -/

/-- LINSERT k BEFORE|AFTER pivot v (keyword in any letter case): `v` is inserted before / after the FIRST occurrence
of the pivot (`insertSpec`) and the reply is the new length; -1 and no change when the pivot does not occur; 0 and
no key created when the key is missing; any other keyword is a syntax error — but only AFTER the type check. -/
theorem linsert_spec (k wh pivot v : Bytes) :
    let out := run "linsert" ctx [k, wh, pivot, v] db
    (out.reply, out.db.live) =
      match listView db.live k with
      | none => (wrongtype, db.live)
      | some (l, e) =>
        if casematch wh "before" = false ∧ casematch wh "after" = false then (synErr, db.live)
        else if l = [] then (.int 0, db.live)
        else
          match insertSpec (casematch wh "after") pivot v l with
          | none => (.int (-1), db.live)
          | some l' => (.int l'.length, putList db.live k l' e) :=
  refinement ctx db nd ne "linsert" (by decide) [k, wh, pivot, v]

omit nd ne in
/-- `insertSpec`: first occurrence, exact position -/
theorem insertSpec_def (after : Bool) (pivot v x : Bytes) (xs : List Bytes) :
    insertSpec after pivot v [] = none ∧
    insertSpec after pivot v (x :: xs) =
      if x == pivot then some (if after then x :: v :: xs else v :: x :: xs)
      else (insertSpec after pivot v xs).map (x :: ·) :=
  ⟨rfl, rfl⟩

omit nd ne in
/-- … so that the result is `a ++ v :: pivot :: b` (BEFORE) / `a ++ pivot :: v :: b` (AFTER) where `a` does not
contain the pivot -/
theorem insertSpec_split (after : Bool) (pivot v : Bytes) (a b : List Bytes) (ha : pivot ∉ a) :
    insertSpec after pivot v (a ++ pivot :: b) =
      some (if after then a ++ pivot :: v :: b else a ++ v :: pivot :: b) := by
  induction a with
  | nil => cases after <;> simp [insertSpec]
  | cons x a ih =>
    have hx : (x == pivot) = false := by
      simp only [beq_eq_false_iff_ne, ne_eq]
      intro h; exact ha (by simp [h])
    have := ih (fun h => ha (by simp [h]))
    cases after <;> simp_all [insertSpec]

omit nd ne in
theorem insertSpec_absent (after : Bool) (pivot v : Bytes) (l : List Bytes) (h : pivot ∉ l) :
    insertSpec after pivot v l = none := by
  induction l with
  | nil => rfl
  | cons x xs ih =>
    have hx : (x == pivot) = false := by
      simp only [beq_eq_false_iff_ne, ne_eq]
      intro h'; exact h (by simp [h'])
    simp [insertSpec, hx, ih (fun h' => h (by simp [h']))]

/-! ### LPOP / RPOP -/

/-- LPOP k / RPOP k (no count): the first / last element as a bulk string and the list without it; the key
disappears when that was the only element; nil for a missing key; WRONGTYPE for another type -/
theorem pop_spec (k : Bytes) :
    (let out := run "lpop" ctx [k] db
     (out.reply, out.db.live) =
      match listView db.live k with
      | none => (wrongtype, db.live)
      | some (l, e) =>
        if l = [] then (.nil, db.live) else (Reply.ofOptBulk l.head?, putList db.live k l.tail e)) ∧
    (let out := run "rpop" ctx [k] db
     (out.reply, out.db.live) =
      match listView db.live k with
      | none => (wrongtype, db.live)
      | some (l, e) =>
        if l = [] then (.nil, db.live) else (Reply.ofOptBulk l.getLast?, putList db.live k l.dropLast e)) := by
  constructor
  · refine (refinement ctx db nd ne "lpop" (by decide) _).trans ?_
    rw [listCmd_lpop]
    simp only [popCmd, decodeInts, popL, popOn, onList, if_true]
    rfl
  · refine (refinement ctx db nd ne "rpop" (by decide) _).trans ?_
    rw [listCmd_rpop]
    simp only [popCmd, decodeInts, popL, popOn, onList, Bool.false_eq_true, if_false]
    rfl

/-- LPOP k n / RPOP k n.  A negative count is an error ("index out of range").  Count 0: in version 6 the reply
is nil whatever the key holds (even another type), in version 7 it goes through the general case: nil for a missing key,
WRONGTYPE for another type, the empty array for a list.  Otherwise: nil for a missing key, else the first
`n` elements / the last `n` elements from the tail as an array; a count larger than the length pops everything; the
key disappears exactly when nothing is left. -/
theorem pop_count_spec (k nb : Bytes) (n : Int) (hn : Conv.int nb = .ok n) :
    (let out := run "lpop" ctx [k, nb] db
     (out.reply, out.db.live) =
      if n < 0 then (errR Msgs.INDEX_ERROR_MSG, db.live)
      else if n = 0 ∧ ctx.version = 6 then (.nil, db.live)
      else
        match listView db.live k with
        | none => (wrongtype, db.live)
        | some (l, e) =>
          if l = [] then (.nil, db.live)
          else (Reply.bulks (l.take n.toNat), putList db.live k (l.drop n.toNat) e)) ∧
    (let out := run "rpop" ctx [k, nb] db
     (out.reply, out.db.live) =
      if n < 0 then (errR Msgs.INDEX_ERROR_MSG, db.live)
      else if n = 0 ∧ ctx.version = 6 then (.nil, db.live)
      else
        match listView db.live k with
        | none => (wrongtype, db.live)
        | some (l, e) =>
          if l = [] then (.nil, db.live)
          else (Reply.bulks (l.reverse.take n.toNat), putList db.live k (l.take (l.length - n.toNat)) e)) := by
  constructor
  · refine (refinement ctx db nd ne "lpop" (by decide) _).trans ?_
    rw [listCmd_lpop]
    simp only [popCmd, decodeInts, hn, popL, popOn, onList, if_true]
    rfl
  · refine (refinement ctx db nd ne "rpop" (by decide) _).trans ?_
    rw [listCmd_rpop]
    simp only [popCmd, decodeInts, hn, popL, popOn, onList, Bool.false_eq_true, if_false]
    rfl

/-- LPOP alone, both forms (the components of `pop_spec` and `pop_count_spec`) -/
theorem lpop_spec (k : Bytes) :
    (let out := run "lpop" ctx [k] db
     (out.reply, out.db.live) =
      match listView db.live k with
      | none => (wrongtype, db.live)
      | some (l, e) =>
        if l = [] then (.nil, db.live) else (Reply.ofOptBulk l.head?, putList db.live k l.tail e)) ∧
    ∀ (nb : Bytes) (n : Int), Conv.int nb = .ok n →
      (let out := run "lpop" ctx [k, nb] db
       (out.reply, out.db.live) =
        if n < 0 then (errR Msgs.INDEX_ERROR_MSG, db.live)
        else if n = 0 ∧ ctx.version = 6 then (.nil, db.live)
        else
          match listView db.live k with
          | none => (wrongtype, db.live)
          | some (l, e) =>
            if l = [] then (.nil, db.live)
            else (Reply.bulks (l.take n.toNat), putList db.live k (l.drop n.toNat) e)) :=
  ⟨(pop_spec ctx db nd ne k).1, fun nb n hn => (pop_count_spec ctx db nd ne k nb n hn).1⟩

/-- RPOP alone, both forms: the count form lists the popped elements starting from the tail -/
theorem rpop_spec (k : Bytes) :
    (let out := run "rpop" ctx [k] db
     (out.reply, out.db.live) =
      match listView db.live k with
      | none => (wrongtype, db.live)
      | some (l, e) =>
        if l = [] then (.nil, db.live) else (Reply.ofOptBulk l.getLast?, putList db.live k l.dropLast e)) ∧
    ∀ (nb : Bytes) (n : Int), Conv.int nb = .ok n →
      (let out := run "rpop" ctx [k, nb] db
       (out.reply, out.db.live) =
        if n < 0 then (errR Msgs.INDEX_ERROR_MSG, db.live)
        else if n = 0 ∧ ctx.version = 6 then (.nil, db.live)
        else
          match listView db.live k with
          | none => (wrongtype, db.live)
          | some (l, e) =>
            if l = [] then (.nil, db.live)
            else (Reply.bulks (l.reverse.take n.toNat), putList db.live k (l.take (l.length - n.toNat)) e)) :=
  ⟨(pop_spec ctx db nd ne k).2, fun nb n hn => (pop_count_spec ctx db nd ne k nb n hn).2⟩

omit nd ne in
/-- the key disappears exactly when the list becomes empty (for every command that stores a list) -/
theorem key_disappears_iff (live : Live) (k : Bytes) (l : List Bytes) (e : Option Int) :
    (putList live k l e k = none ↔ l = []) ∧ (∀ k', k' ≠ k → putList live k l e k' = live k') := by
  refine ⟨?_, fun k' h => putList_ne live l e h⟩
  rw [putList_self]
  by_cases hl : l = [] <;> simp [hl]

omit nd ne in
/-- count larger than the length: everything is popped and the key is gone -/
theorem pop_all (l : List Bytes) (n : Nat) (h : l.length ≤ n) :
    l.take n = l ∧ l.drop n = [] ∧ l.reverse.take n = l.reverse ∧ l.take (l.length - n) = [] := by
  refine ⟨List.take_of_length_le h, List.drop_of_length_le h, List.take_of_length_le (by simpa using h), ?_⟩
  have : l.length - n = 0 := by omega
  rw [this]; rfl

/-- two or more counts: a syntax error that changes nothing (Redis: the arity error), whatever the key holds -/
theorem pop_two_counts (name : String) (hname : name = "lpop" ∨ name = "rpop") (k a b : Bytes) (rest : List Bytes)
    (cs : List Int) (hd : decodeInts (a :: b :: rest) = .ok cs) :
    ((run name ctx (k :: a :: b :: rest) db).reply, (run name ctx (k :: a :: b :: rest) db).db.live) =
      (synErr, db.live) := by
  have hl := decodeInts_length hd
  match cs, hl with
  | x :: y :: zs, _ =>
    rcases hname with rfl | rfl
    · refine (refinement ctx db nd ne "lpop" (by decide) _).trans ?_
      rw [listCmd_lpop]; simp only [popCmd, hd, popL]
    · refine (refinement ctx db nd ne "rpop" (by decide) _).trans ?_
      rw [listCmd_rpop]; simp only [popCmd, hd, popL]

/-! ### LSET, LREM, LTRIM -/

/-- LSET k i v: "no such key" for a missing key, "index out of range" outside the list, otherwise position
`norm i` is overwritten and the reply is OK -/
theorem lset_spec' (k ib v : Bytes) (i : Int) (hi : Conv.int ib = .ok i) :
    let out := run "lset" ctx [k, ib, v] db
    (out.reply, out.db.live) =
      match listView db.live k with
      | none => (wrongtype, db.live)
      | some (l, e) =>
        if l = [] then (errR Msgs.NO_KEY_MSG, db.live)
        else if 0 ≤ norm i l.length ∧ norm i l.length < l.length then
          (.ok, putList db.live k (l.set (norm i l.length).toNat v) e)
        else (errR Msgs.INDEX_ERROR_MSG, db.live) := by
  refine (refinement ctx db nd ne "lset" (by decide) _).trans ?_
  rw [listCmd_lset]
  simp only [lsetCmd, withInt, hi, onList]
  rfl

/-- LREM k count v: the list becomes `lremSpec l count v` (`FR.Props.C02.lremSpec_cases`: the first `count`
occurrences deleted for `count > 0`, the last `-count` for `count < 0`, all for `count = 0`), the reply is the number
of deleted elements, and the key disappears when nothing is left; 0 for a missing key -/
theorem lrem_spec' (k cb v : Bytes) (count : Int) (hc : Conv.int cb = .ok count) :
    let out := run "lrem" ctx [k, cb, v] db
    (out.reply, out.db.live) =
      match listView db.live k with
      | none => (wrongtype, db.live)
      | some (l, e) =>
        (.int ((l.length - (lremSpec l count v).length : Nat) : Int), putList db.live k (lremSpec l count v) e) := by
  refine (refinement ctx db nd ne "lrem" (by decide) _).trans ?_
  rw [listCmd_lrem]
  simp only [lremCmd, withInt, hc, onList]
  rfl

/-- LTRIM k s e: the list becomes the LRANGE window; an empty window deletes the key; the reply is always OK -/
theorem ltrim_spec' (k sb eb : Bytes) (s e : Int) (hs : Conv.int sb = .ok s) (he : Conv.int eb = .ok e) :
    let out := run "ltrim" ctx [k, sb, eb] db
    (out.reply, out.db.live) =
      match listView db.live k with
      | none => (wrongtype, db.live)
      | some (l, exp) => (.ok, putList db.live k (lrangeSpec l s e) exp) := by
  refine (refinement ctx db nd ne "ltrim" (by decide) _).trans ?_
  rw [listCmd_ltrim]
  simp only [ltrimCmd, withInt, hs, he, onList]
  rfl

omit nd in
/-- a command that stores what was there changes nothing (LREM without a hit, LTRIM of the whole list, …) -/
theorem put_same (k : Bytes) (l : List Bytes) (e : Option Int) (hv : listView db.live k = some (l, e)) :
    putList db.live k l e = db.live :=
  putList_view (liveOK ne) hv

/-- an argument that is not a 64-bit integer: the conversion error, nothing changes — before the type of the key is
looked at (LRANGE, LTRIM, LSET, LREM, and LPOP / RPOP) -/
theorem bad_integer (k a b : Bytes) (m : Err) (ha : Conv.int a = .error m) :
    (∀ name ∈ ["lrange", "ltrim", "lset", "lrem"],
      ((run name ctx [k, a, b] db).reply, (run name ctx [k, a, b] db).db.live) = (errR m, db.live)) ∧
    (∀ name ∈ ["lpop", "rpop"],
      ((run name ctx [k, a] db).reply, (run name ctx [k, a] db).db.live) = (errR m, db.live)) := by
  constructor
  · intro name hname
    simp only [List.mem_cons, List.mem_nil_iff, or_false] at hname
    rcases hname with rfl | rfl | rfl | rfl
    · refine (refinement ctx db nd ne "lrange" (by decide) _).trans ?_
      rw [listCmd_lrange]; simp only [lrangeCmd, withInt, ha]
    · refine (refinement ctx db nd ne "ltrim" (by decide) _).trans ?_
      rw [listCmd_ltrim]; simp only [ltrimCmd, withInt, ha]
    · refine (refinement ctx db nd ne "lset" (by decide) _).trans ?_
      rw [listCmd_lset]; simp only [lsetCmd, withInt, ha]
    · refine (refinement ctx db nd ne "lrem" (by decide) _).trans ?_
      rw [listCmd_lrem]; simp only [lremCmd, withInt, ha]
  · intro name hname
    simp only [List.mem_cons, List.mem_nil_iff, or_false] at hname
    rcases hname with rfl | rfl
    · refine (refinement ctx db nd ne "lpop" (by decide) _).trans ?_
      rw [listCmd_lpop]; simp only [popCmd, decodeInts, ha]
    · refine (refinement ctx db nd ne "rpop" (by decide) _).trans ?_
      rw [listCmd_rpop]; simp only [popCmd, decodeInts, ha]

/-! ### RPOPLPUSH / LMOVE -/

/-- RPOPLPUSH src dst.  A missing source: nil, nothing is created — whatever the destination holds.  Source or
destination of another type: WRONGTYPE, nothing changes (the source is untouched).  Otherwise the last element `x` of
the source moves to the head of the destination (`moveOn false true`): both deadlines are kept, an emptied source is
deleted, a missing destination is created without deadline; with `src = dst` the list is rotated. -/
theorem rpoplpush_spec (s d : Bytes) :
    let out := run "rpoplpush" ctx [s, d] db
    (out.reply, out.db.live) =
      match db.live s with
      | none => (.nil, db.live)
      | some _ =>
        match listView db.live s with
        | none => (wrongtype, db.live)
        | some (sl, es) =>
          match listView db.live d with
          | none => (wrongtype, db.live)
          | some (dl, ed) => moveOn false true db.live s d sl es dl ed :=
  refinement ctx db nd ne "rpoplpush" (by decide) [s, d]

/-- LMOVE src dst LEFT|RIGHT LEFT|RIGHT (keywords in any letter case): as RPOPLPUSH with the chosen ends; a word
that is neither LEFT nor RIGHT is a syntax error — but only AFTER the missing-source short cut and the type checks -/
theorem lmove_spec (s d a b : Bytes) :
    let out := run "lmove" ctx [s, d, a, b] db
    (out.reply, out.db.live) =
      match db.live s with
      | none => (.nil, db.live)
      | some _ =>
        match listView db.live s with
        | none => (wrongtype, db.live)
        | some (sl, es) =>
          match listView db.live d with
          | none => (wrongtype, db.live)
          | some (dl, ed) =>
            if casematch a "left" = false ∧ casematch a "right" = false then (synErr, db.live)
            else if casematch b "left" = false ∧ casematch b "right" = false then (synErr, db.live)
            else moveOn (casematch a "left") (casematch b "left") db.live s d sl es dl ed :=
  refinement ctx db nd ne "lmove" (by decide) [s, d, a, b]

end specs

/-- a request whose arity the signature rejects (fixed arity: any other number of arguments; push family: fewer than
two; LPOP / RPOP: none) gets the arity error and changes nothing -/
theorem bad_arity (name : String) (ctx : Ctx) (raw : List Bytes) (db : Db) (nd : NodupKeys db.dict)
    (h : ¬ FR.HashSet.ArityOK (sigOf name) raw.length) :
    (run name ctx raw db).reply = .err (strBytes (sigOf name).wrongArgs) ∧ (run name ctx raw db).db.live = db.live :=
  ⟨(FR.HashSet.run_bad_arity name ctx raw nd h).1, (FR.HashSet.run_bad_arity name ctx raw nd h).2.1⟩
example : ¬ FR.HashSet.ArityOK (sigOf "lrange") 2 ∧ ¬ FR.HashSet.ArityOK (sigOf "lpop") 0 ∧
    ¬ FR.HashSet.ArityOK (sigOf "lmove") 5 ∧ FR.HashSet.ArityOK (sigOf "lpop") 3 ∧
    (∀ name ∈ listCmds, Reply.err (strBytes (sigOf name).wrongArgs) = arityErr name) :=
  ⟨by decide, by decide, by decide, by decide, by
    intro name hname
    simp only [listCmds, List.mem_cons, List.mem_nil_iff, or_false] at hname
    rcases hname with rfl | rfl | rfl | rfl | rfl | rfl | rfl | rfl | rfl | rfl | rfl | rfl | rfl | rfl | rfl <;> rfl⟩

/-- `moveOn` for the four direction pairs, source ≠ destination: `x` leaves one end of the source and enters one end of
the destination -/
theorem moveOn_distinct (live : Live) (s d : Bytes) (hsd : s ≠ d) (x : Bytes) (r dl : List Bytes) (es ed : Option Int) :
    moveOn true true live s d (x :: r) es dl ed = (.bulk x, putList (putList live s r es) d (x :: dl) ed) ∧
    moveOn true false live s d (x :: r) es dl ed = (.bulk x, putList (putList live s r es) d (dl ++ [x]) ed) ∧
    moveOn false true live s d (r ++ [x]) es dl ed = (.bulk x, putList (putList live s r es) d (x :: dl) ed) ∧
    moveOn false false live s d (r ++ [x]) es dl ed = (.bulk x, putList (putList live s r es) d (dl ++ [x]) ed) := by
  refine ⟨?_, ?_, ?_, ?_⟩ <;> simp [moveOn, hsd]

/-- `moveOn` with source = destination: rotation (LEFT LEFT and RIGHT RIGHT put the element back where it was) -/
theorem moveOn_same (live : Live) (s : Bytes) (x : Bytes) (r dl : List Bytes) (es ed : Option Int) :
    moveOn true true live s s (x :: r) es dl ed = (.bulk x, putList live s (x :: r) es) ∧
    moveOn true false live s s (x :: r) es dl ed = (.bulk x, putList live s (r ++ [x]) es) ∧
    moveOn false true live s s (r ++ [x]) es dl ed = (.bulk x, putList live s (x :: r) es) ∧
    moveOn false false live s s (r ++ [x]) es dl ed = (.bulk x, putList live s (r ++ [x]) es) := by
  refine ⟨?_, ?_, ?_, ?_⟩ <;> simp [moveOn]

/-- a stored list is never empty, so the source of a move always has an element -/
theorem live_list_nonempty (db : Db) (ne : NoEmpty db.dict) (k : Bytes) (l : List Bytes) (e : Option Int)
    (hv : listView db.live k = some (l, e)) (hk : (db.live k).isSome = true) : l ≠ [] :=
  listView_ne_nil (liveOK ne) hv hk

/-! ### non-vacuity of part A (the standing hypotheses hold of `exDb`, see above) -/

/-- `lpush_spec`, `rpush_spec`: order of the pushed values, deadline 50 kept, a missing key and an EXPIRED key are the
empty list without deadline, a string is refused -/
example :
    (run "lpush" ctx7 [[1], [7], [8]] exDb).reply = .int 6 ∧
    (run "lpush" ctx7 [[1], [7], [8]] exDb).db.live [1] = some ⟨.list [[8], [7], [10], [20], [10], [30]], some 50⟩ ∧
    (run "rpush" ctx6 [[1], [7], [8]] exDb).db.live [1] = some ⟨.list [[10], [20], [10], [30], [7], [8]], some 50⟩ ∧
    (run "lpush" ctx7 [[3], [7], [8]] exDb).db.live [3] = some ⟨.list [[8], [7]], none⟩ ∧
    (run "rpush" ctx7 [[9], [7]] exDb).db.live [9] = some ⟨.list [[7]], none⟩ ∧
    (run "lpush" ctx7 [[2], [7]] exDb).reply = wrongtype ∧ (run "lpush" ctx7 [[2], [7]] exDb).db.live = exDb.live :=
  ⟨by rfl, by rfl, by rfl, by rfl, by rfl, by rfl, by rfl⟩
/-- `pushx_spec`, `push_arity` -/
example :
    (run "lpushx" ctx7 [[3], [7]] exDb).reply = .int 0 ∧ (run "lpushx" ctx7 [[3], [7]] exDb).db.live [3] = none ∧
    (run "rpushx" ctx7 [[4], [7]] exDb).reply = .int 2 ∧
    (run "rpushx" ctx7 [[4], [7]] exDb).db.live [4] = some ⟨.list [[5], [7]], none⟩ ∧
    "lpushx" ∈ ["lpush", "rpush", "lpushx", "rpushx"] ∧ ([[3]] : List Bytes).length < 2 ∧
    (run "lpush" ctx7 [[3]] exDb).reply = arityErr "lpush" :=
  ⟨by rfl, by rfl, by rfl, by rfl, by decide, by decide, by rfl⟩
/-- `llen_spec`, `lindex_spec'`, `lindex_bad_index`, `lrange_spec'`: "-1" and "1" are integers, "x" is not -/
example :
    Conv.int [45, 49] = .ok (-1) ∧ Conv.int [49] = .ok 1 ∧ Conv.int [120] = .error Msgs.INVALID_INT_MSG ∧
    (run "llen" ctx7 [[1]] exDb).reply = .int 4 ∧ (run "llen" ctx7 [[3]] exDb).reply = .int 0 ∧
    (run "lindex" ctx7 [[1], [45, 49]] exDb).reply = .bulk [30] ∧
    (run "lindex" ctx7 [[3], [120]] exDb).reply = .nil ∧
    (run "lindex" ctx7 [[2], [120]] exDb).reply = errR Msgs.INVALID_INT_MSG ∧
    (run "lrange" ctx7 [[1], [49], [45, 49]] exDb).reply = Reply.bulks [[20], [10], [30]] :=
  ⟨by rfl, by rfl, by rfl, by rfl, by rfl, by rfl, by rfl, by rfl, by rfl⟩
/-- `linsert_spec`: "BeFoRe" / "aFTER" in mixed case, the FIRST of the two occurrences of `[10]` is the pivot -/
example :
    casematch [66, 101, 70, 111, 82, 101] "before" = true ∧ casematch [97, 70, 84, 69, 82] "after" = true ∧
    intView (run "linsert" ctx7 [[1], [66, 101, 70, 111, 82, 101], [10], [99]] exDb).reply = some 5 ∧
    listView (run "linsert" ctx7 [[1], [66, 101, 70, 111, 82, 101], [10], [99]] exDb).db.live [1]
      = some ([[99], [10], [20], [10], [30]], some 50) ∧
    listView (run "linsert" ctx7 [[1], [97, 70, 84, 69, 82], [10], [99]] exDb).db.live [1]
      = some ([[10], [99], [20], [10], [30]], some 50) ∧
    intView (run "linsert" ctx7 [[1], [97, 70, 84, 69, 82], [77], [99]] exDb).reply = some (-1) ∧
    intView (run "linsert" ctx7 [[3], [97, 70, 84, 69, 82], [77], [99]] exDb).reply = some 0 ∧
    ((run "linsert" ctx7 [[3], [97, 70, 84, 69, 82], [77], [99]] exDb).db.live [3]).isSome = false ∧
    errView (run "linsert" ctx7 [[1], [120], [10], [99]] exDb).reply = some (strBytes Msgs.SYNTAX_ERROR_MSG) := by
  decide +kernel
example : insertSpec true [10] [99] ([[20]] ++ [10] :: [[10]]) = some [[20], [10], [99], [10]] ∧ [10] ∉ [[20]] ∧
    ([77] : Bytes) ∉ [[10], [20]] ∧ insertSpec false [77] [99] [[10], [20]] = none := by
  decide
/-- `pop_spec`: the one-element list `[4]` disappears -/
example :
    (run "lpop" ctx7 [[1]] exDb).reply = .bulk [10] ∧
    (run "lpop" ctx7 [[1]] exDb).db.live [1] = some ⟨.list [[20], [10], [30]], some 50⟩ ∧
    (run "rpop" ctx6 [[1]] exDb).reply = .bulk [30] ∧
    (run "rpop" ctx6 [[4]] exDb).reply = .bulk [5] ∧ (run "rpop" ctx6 [[4]] exDb).db.live [4] = none ∧
    (run "lpop" ctx6 [[3]] exDb).reply = .nil ∧ (run "lpop" ctx6 [[2]] exDb).reply = wrongtype :=
  ⟨by rfl, by rfl, by rfl, by rfl, by rfl, by rfl, by rfl⟩
/-- `pop_count_spec`: "2", "9", "0", "-1"; RPOP lists from the tail; count 0 in the two versions -/
example :
    Conv.int [50] = .ok 2 ∧ Conv.int [57] = .ok 9 ∧ Conv.int [48] = .ok 0 ∧
    (run "lpop" ctx7 [[1], [50]] exDb).reply = Reply.bulks [[10], [20]] ∧
    (run "rpop" ctx7 [[1], [50]] exDb).reply = Reply.bulks [[30], [10]] ∧
    (run "rpop" ctx7 [[1], [50]] exDb).db.live [1] = some ⟨.list [[10], [20]], some 50⟩ ∧
    (run "lpop" ctx6 [[1], [57]] exDb).reply = Reply.bulks [[10], [20], [10], [30]] ∧
    (run "lpop" ctx6 [[1], [57]] exDb).db.live [1] = none ∧
    (run "lpop" ctx6 [[1], [48]] exDb).reply = .nil ∧ (run "lpop" ctx7 [[1], [48]] exDb).reply = .arr [] ∧
    (run "lpop" ctx6 [[2], [48]] exDb).reply = .nil ∧ (run "lpop" ctx7 [[2], [48]] exDb).reply = wrongtype ∧
    (run "lpop" ctx7 [[3], [48]] exDb).reply = .nil ∧
    (run "lpop" ctx7 [[1], [45, 49]] exDb).reply = errR Msgs.INDEX_ERROR_MSG :=
  ⟨by rfl, by rfl, by rfl, by rfl, by rfl, by rfl, by rfl, by rfl, by rfl, by rfl, by rfl, by rfl, by rfl, by rfl⟩
/-- `pop_two_counts`, `pop_all`, `key_disappears_iff` -/
example :
    decodeInts [[49], [50]] = .ok [1, 2] ∧ (run "lpop" ctx7 [[1], [49], [50]] exDb).reply = synErr ∧
    ([[1], [2]] : List Bytes).length ≤ 5 ∧ putList exDb.live [4] [] none [4] = none :=
  ⟨by rfl, by rfl, by decide, by rfl⟩
/-- `lset_spec'`, `lrem_spec'`, `ltrim_spec'`, `put_same`, `bad_integer` -/
example :
    (run "lset" ctx7 [[1], [45, 49], [99]] exDb).reply = .ok ∧
    (run "lset" ctx7 [[1], [45, 49], [99]] exDb).db.live [1] = some ⟨.list [[10], [20], [10], [99]], some 50⟩ ∧
    (run "lset" ctx7 [[1], [57], [99]] exDb).reply = errR Msgs.INDEX_ERROR_MSG ∧
    (run "lset" ctx7 [[3], [49], [99]] exDb).reply = errR Msgs.NO_KEY_MSG ∧
    (run "lrem" ctx7 [[1], [45, 49], [10]] exDb).reply = .int 1 ∧
    (run "lrem" ctx7 [[1], [45, 49], [10]] exDb).db.live [1] = some ⟨.list [[10], [20], [30]], some 50⟩ ∧
    (run "lrem" ctx7 [[4], [48], [5]] exDb).reply = .int 1 ∧ (run "lrem" ctx7 [[4], [48], [5]] exDb).db.live [4] = none ∧
    (run "lrem" ctx7 [[3], [48], [5]] exDb).reply = .int 0 ∧
    (run "ltrim" ctx7 [[1], [49], [50]] exDb).reply = .ok ∧
    (run "ltrim" ctx7 [[1], [49], [50]] exDb).db.live [1] = some ⟨.list [[20], [10]], some 50⟩ ∧
    (run "ltrim" ctx7 [[1], [57], [57]] exDb).db.live [1] = none ∧
    listView exDb.live [4] = some ([[5]], none) ∧
    (run "ltrim" ctx7 [[2], [120], [49]] exDb).reply = errR Msgs.INVALID_INT_MSG :=
  ⟨by rfl, by rfl, by rfl, by rfl, by rfl, by rfl, by rfl, by rfl, by rfl, by rfl, by rfl, by rfl, by rfl, by rfl⟩
/-- `rpoplpush_spec`, `lmove_spec`, `moveOn_distinct`, `moveOn_same`: "LeFt" = [76,101,70,116], "right" =
[114,105,103,104,116]; the emptied source `[4]` disappears, the destination keeps its deadline, a missing
destination is created, a string destination is refused and the source is untouched, a missing source is nil -/
example :
    (run "rpoplpush" ctx7 [[4], [1]] exDb).reply = .bulk [5] ∧
    (run "rpoplpush" ctx7 [[4], [1]] exDb).db.live [4] = none ∧
    (run "rpoplpush" ctx7 [[4], [1]] exDb).db.live [1] = some ⟨.list [[5], [10], [20], [10], [30]], some 50⟩ ∧
    (run "rpoplpush" ctx7 [[1], [1]] exDb).db.live [1] = some ⟨.list [[30], [10], [20], [10]], some 50⟩ ∧
    (run "rpoplpush" ctx7 [[1], [3]] exDb).db.live [3] = some ⟨.list [[30]], none⟩ ∧
    (run "rpoplpush" ctx7 [[1], [2]] exDb).reply = wrongtype ∧
    (run "rpoplpush" ctx7 [[1], [2]] exDb).db.live = exDb.live ∧
    (run "rpoplpush" ctx7 [[3], [2]] exDb).reply = .nil ∧ (run "rpoplpush" ctx7 [[3], [2]] exDb).db.live = exDb.live :=
  ⟨by rfl, by rfl, by rfl, by rfl, by rfl, by rfl, by rfl, by rfl, by rfl⟩
example :
    casematch [76, 101, 70, 116] "left" = true ∧ casematch [114, 105, 103, 104, 116] "right" = true ∧
    bulkView (run "lmove" ctx7 [[1], [4], [76, 101, 70, 116], [114, 105, 103, 104, 116]] exDb).reply = some [10] ∧
    listView (run "lmove" ctx7 [[1], [4], [76, 101, 70, 116], [114, 105, 103, 104, 116]] exDb).db.live [4]
      = some ([[5], [10]], none) ∧
    listView (run "lmove" ctx7 [[1], [4], [76, 101, 70, 116], [114, 105, 103, 104, 116]] exDb).db.live [1]
      = some ([[20], [10], [30]], some 50) ∧
    listView (run "lmove" ctx7 [[1], [1], [76, 101, 70, 116], [114, 105, 103, 104, 116]] exDb).db.live [1]
      = some ([[20], [10], [30], [10]], some 50) ∧
    listView (run "lmove" ctx6 [[1], [1], [114, 105, 103, 104, 116], [114, 105, 103, 104, 116]] exDb).db.live [1]
      = some ([[10], [20], [10], [30]], some 50) ∧
    errView (run "lmove" ctx7 [[1], [4], [120], [114, 105, 103, 104, 116]] exDb).reply
      = some (strBytes Msgs.SYNTAX_ERROR_MSG) := by
  decide +kernel
example : ([1] : Bytes) ≠ [4] ∧ (exDb.live [1]).isSome = true := ⟨by decide, by rfl⟩

/-! ## B. Statements that are FALSE of the model (each with a kernel-checked witness; replayed on the code, see the
report), and what holds instead -/

/-- "LINSERT with a keyword other than BEFORE / AFTER is a syntax error" is FALSE for a key of another type: the type
check of `Signature.apply` comes first (Redis checks the keyword first and answers the syntax error).
`linsert_spec` is the true statement. -/
theorem linsert_keyword_not_always_syntax_error :
    ¬ ∀ (ctx : Ctx) (db : Db), NodupKeys db.dict → NoEmpty db.dict → ∀ k wh pivot v : Bytes,
      casematch wh "before" = false → casematch wh "after" = false →
      (run "linsert" ctx [k, wh, pivot, v] db).reply = synErr := by
  intro h
  have h1 := h ctx7 exDb (by decide) (by unfold NoEmpty; decide) [2] [120] [1] [1] (by decide +kernel)
    (by decide +kernel)
  have h2 : (run "linsert" ctx7 [[2], [120], [1], [1]] exDb).reply = wrongtype := by rfl
  rw [h2] at h1
  unfold wrongtype synErr at h1
  injection h1 with h1
  exact absurd h1 (by decide +kernel)

/-- "LMOVE with a direction word other than LEFT / RIGHT is a syntax error" is FALSE when the source is missing: the
missing-key short cut of `Signature.apply` answers nil before the body looks at the words (Redis parses the two
directions first and answers the syntax error).  What holds: a missing source is nil for ALL words. -/
theorem lmove_missing_source_any_words (ctx : Ctx) (db : Db) (nd : NodupKeys db.dict) (ne : NoEmpty db.dict)
    (s d a b : Bytes) (hs : db.live s = none) :
    let out := run "lmove" ctx [s, d, a, b] db
    (out.reply, out.db.live) = (.nil, db.live) := by
  have h := lmove_spec ctx db nd ne s d a b
  simp only [hs] at h
  exact h
example : exDb.live [3] = none ∧ (run "lmove" ctx7 [[3], [1], [120], [121]] exDb).reply = .nil ∧
    casematch [120] "left" = false ∧ casematch [120] "right" = false :=
  ⟨by rfl, by rfl, by decide +kernel, by decide +kernel⟩

theorem lmove_bad_word_not_always_syntax_error :
    ¬ ∀ (ctx : Ctx) (db : Db), NodupKeys db.dict → NoEmpty db.dict → ∀ s d a b : Bytes,
      casematch a "left" = false → casematch a "right" = false →
      (run "lmove" ctx [s, d, a, b] db).reply = synErr := by
  intro h
  have h1 := h ctx7 exDb (by decide) (by unfold NoEmpty; decide) [3] [1] [120] [121] (by decide +kernel)
    (by decide +kernel)
  have h2 : (run "lmove" ctx7 [[3], [1], [120], [121]] exDb).reply = .nil := by rfl
  rw [h2] at h1
  unfold synErr at h1
  cases h1

/-! ## C. The non-blocking outcome of BLPOP / BRPOP / BRPOPLPUSH

`bpopPass d left first keys` / `brpoplpushPass d src dst first` (FR/Sys/Server.lean) are `_bpop_pass` / `_brpoplpush_pass`
on database `d` of the system; `first = true` is the pass made when the command arrives.  `passReply` turns the
result into what the client gets: `some reply`, or `none` = not served (the command goes on to block).
`SysOK s d`: database `d` exists, unique keys, no stored empty collection.  `Frame s s' d`: `s'` is again `SysOK`,
same clock, every other database untouched. -/

/-- REFINEMENT of the first pass: reply and key space are `bpopL` (keys tried in argument order, missing keys skipped,
a key of another type is an error, the first list found is popped, reply `[key, element]`) / `brpoplpushL` -/
theorem blocking_pass_refines (d : Nat) (s : Sys) (h : SysOK s d) :
    (∀ (left : Bool) (keys : List Bytes),
      (passReply (bpopPass d left true keys s).1, ((bpopPass d left true keys s).2.dbAt d).live) =
        bpopL left (s.dbAt d).live keys ∧
      Frame s (bpopPass d left true keys s).2 d) ∧
    (∀ src dst : Bytes,
      (passReply (brpoplpushPass d src dst true s).1, ((brpoplpushPass d src dst true s).2.dbAt d).live) =
        brpoplpushL (s.dbAt d).live src dst ∧
      Frame s (brpoplpushPass d src dst true s).2 d) :=
  ⟨fun left keys => bpop_refines d left keys s h, fun src dst => brpoplpush_refines d src dst s h⟩

theorem passReply_arr {r : Except Err (Option Reply)} {xs : List Reply} (h : passReply r = some (.arr xs)) :
    r = .ok (some (.arr xs)) := by
  cases r with
  | error e => simp [passReply, errR] at h
  | ok o => simp only [passReply] at h; rw [h]

example : passReply (.ok (some (.arr [.bulk [1]]))) = some (.arr [.bulk [1]]) := rfl

/-- BLPOP / BRPOP ARE SERVED FROM THE FIRST NON-EMPTY KEY AS BY LPOP / RPOP.  If the keys before `k` (in argument order)
are missing and `k` holds a list — necessarily non-empty — then the pass answers `[k, x]` where `x` is the reply of
`LPOP k` / `RPOP k` on that database, and leaves the key space that LPOP / RPOP leaves (element order, deadline, deletion
of the emptied key included). -/
theorem bpop_served_as_pop (d : Nat) (s : Sys) (h : SysOK s d) (ctx : Ctx) (left : Bool) (pre : List Bytes) (k : Bytes)
    (post : List Bytes) (l : List Bytes) (e : Option Int) (hpre : ∀ k' ∈ pre, (s.dbAt d).live k' = none)
    (hv : listView (s.dbAt d).live k = some (l, e)) (hk : ((s.dbAt d).live k).isSome = true) :
    let r := bpopPass d left true (pre ++ k :: post) s
    let pop := run (if left then "lpop" else "rpop") ctx [k] (s.dbAt d)
    r.1 = .ok (some (.arr [.bulk k, pop.reply])) ∧ (r.2.dbAt d).live = pop.db.live ∧ Frame s r.2 d := by
  intro r pop
  have hl : l ≠ [] := listView_ne_nil h.liveOK hv hk
  obtain ⟨h1, h2⟩ := bpop_refines d left (pre ++ k :: post) s h
  rw [bpopL_first left _ pre k post l e hpre hv hl] at h1
  have hpop : (pop.reply, pop.db.live) = popOn left (s.dbAt d).live k none := by
    cases left
    · refine (refinement ctx (s.dbAt d) h.nd h.ne "rpop" (by decide) [k]).trans ?_
      rw [listCmd_rpop]; rfl
    · refine (refinement ctx (s.dbAt d) h.nd h.ne "lpop" (by decide) [k]).trans ?_
      rw [listCmd_lpop]; rfl
  rw [← hpop] at h1
  exact ⟨passReply_arr (congrArg Prod.fst h1), congrArg Prod.snd h1, h2⟩

/-- NOT SERVED: when no key is live the pass answers nothing and the key space is unchanged -/
theorem bpop_not_served (d : Nat) (s : Sys) (h : SysOK s d) (left : Bool) (keys : List Bytes)
    (hk : ∀ k ∈ keys, (s.dbAt d).live k = none) :
    (bpopPass d left true keys s).1 = .ok none ∧ ((bpopPass d left true keys s).2.dbAt d).live = (s.dbAt d).live := by
  obtain ⟨h1, _⟩ := bpop_refines d left keys s h
  rw [bpopL_none left _ keys hk] at h1
  refine ⟨?_, congrArg Prod.snd h1⟩
  have := congrArg Prod.fst h1
  simp only at this
  cases hr : (bpopPass d left true keys s).1 with
  | error e => rw [hr] at this; simp [passReply] at this
  | ok o => rw [hr] at this; simp only [passReply] at this; rw [this]

/-- BRPOPLPUSH IS SERVED AS RPOPLPUSH whenever the source is live (of any type: the WRONGTYPE cases coincide too);
with a missing source it is not served and nothing changes, whatever the destination holds -/
theorem brpoplpush_served_as_rpoplpush (d : Nat) (s : Sys) (h : SysOK s d) (ctx : Ctx) (src dst : Bytes) :
    let r := brpoplpushPass d src dst true s
    let mv := run "rpoplpush" ctx [src, dst] (s.dbAt d)
    (((s.dbAt d).live src).isSome = true →
      passReply r.1 = some mv.reply ∧ (r.2.dbAt d).live = mv.db.live) ∧
    ((s.dbAt d).live src = none → passReply r.1 = none ∧ (r.2.dbAt d).live = (s.dbAt d).live) ∧
    Frame s r.2 d := by
  intro r mv
  obtain ⟨h1, h2⟩ := brpoplpush_refines d src dst s h
  have hmv : (mv.reply, mv.db.live) = rpoplpushCmd (s.dbAt d).live [src, dst] :=
    (refinement ctx (s.dbAt d) h.nd h.ne "rpoplpush" (by decide) [src, dst]).trans
      (listCmd_rpoplpush _ _ _)
  refine ⟨fun hs => ?_, fun hs => ?_, h2⟩
  · rw [brpoplpushL_served _ src dst hs h.liveOK, ← hmv] at h1
    exact ⟨congrArg Prod.fst h1, congrArg Prod.snd h1⟩
  · rw [brpoplpushL_none _ src dst hs] at h1
    exact ⟨congrArg Prod.fst h1, congrArg Prod.snd h1⟩

/-- the system of the examples: database 0 is `exDb`, the clock stands at 5, one connection -/
def exSys : Sys := { srv := { time := 5, dbs := [exDb.dict], conns := [{ id := 1 }] } }

example : SysOK exSys 0 ∧ exSys.dbAt 0 = exDb :=
  ⟨⟨by decide, by decide, by unfold NoEmpty; decide⟩, rfl⟩

/-- `bpop_served_as_pop`: BLPOP [3] [9] [1] [4] — `[3]` is missing, `[9]` has expired, `[1]` serves -/
example :
    (∀ k' ∈ [[3], [9]], (exSys.dbAt 0).live k' = none) ∧ ((exSys.dbAt 0).live [1]).isSome = true ∧
    passReply (bpopPass 0 true true [[3], [9], [1], [4]] exSys).1 = some (.arr [.bulk [1], .bulk [10]]) ∧
    ((bpopPass 0 true true [[3], [9], [1], [4]] exSys).2.dbAt 0).live [1]
      = some ⟨.list [[20], [10], [30]], some 50⟩ ∧
    passReply (bpopPass 0 false true [[4]] exSys).1 = some (.arr [.bulk [4], .bulk [5]]) ∧
    ((bpopPass 0 false true [[4]] exSys).2.dbAt 0).live [4] = none ∧
    passReply (bpopPass 0 true true [[3], [9]] exSys).1 = none ∧
    passReply (brpoplpushPass 0 [1] [4] true exSys).1 = some (.bulk [30]) ∧
    ((brpoplpushPass 0 [1] [4] true exSys).2.dbAt 0).live [4] = some ⟨.list [[30], [5]], none⟩ ∧
    passReply (brpoplpushPass 0 [3] [2] true exSys).1 = none :=
  ⟨by decide, by rfl, by rfl, by rfl, by rfl, by rfl, by rfl, by rfl, by rfl, by rfl⟩

/-- "BLPOP is served from the first key (in argument order) that holds a non-empty list" is FALSE when an EARLIER key
holds another type: the first pass raises WRONGTYPE and pops nothing (real Redis does the same: `blockingPopGenericCommand`
returns on the first key that fails `checkType`).  `bpop_served_as_pop` (earlier keys missing) is the true statement. -/
theorem bpop_first_list_not_served_after_wrong_type :
    ¬ ∀ (d : Nat) (s : Sys), SysOK s d → ∀ (pre : List Bytes) (k : Bytes) (post : List Bytes) (l : List Bytes)
        (e : Option Int), (∀ k' ∈ pre, ∀ l' e', listView (s.dbAt d).live k' ≠ some (l', e') ∨ l' = []) →
        listView (s.dbAt d).live k = some (l, e) → l ≠ [] →
        ∃ x, passReply (bpopPass d true true (pre ++ k :: post) s).1 = some (.arr [.bulk k, .bulk x]) := by
  intro h
  obtain ⟨x, hx⟩ := h 0 exSys ⟨by decide, by decide, by unfold NoEmpty; decide⟩ [[2]] [1] [] [[10], [20], [10], [30]]
    (some 50) (by
      intro k' hk' l' e'
      simp only [List.mem_singleton] at hk'
      subst hk'
      left
      intro hc
      have : listView (exSys.dbAt 0).live [2] = none := by rfl
      rw [this] at hc; cases hc) (by rfl) (by decide)
  have hw : passReply (bpopPass 0 true true ([[2]] ++ [1] :: []) exSys).1 = some wrongtype := by rfl
  rw [hw] at hx
  unfold wrongtype at hx
  cases hx

/-! ## D. Histories -/

/-! ### D.1 at the level of the generic runner, with a clock that may advance between the commands -/

/-- one request of a history: the clock reading taken when it is processed, the context of the body (version, …), the
command and its raw arguments -/
structure Req where
  now : Int
  ctx : Ctx
  name : String
  raw : List Bytes

/-- the clock of a database moves forward to `now` (it never moves backwards) -/
def tick (db : Db) (now : Int) : Db := { db with time := max db.time now }

/-- the replies of a history run by the real runner, and the database at the end -/
def runSeq : List Req → Db → List Reply × Db
  | [], db => ([], db)
  | r :: rs, db =>
    ((run r.name r.ctx r.raw (tick db r.now)).reply :: (runSeq rs (run r.name r.ctx r.raw (tick db r.now)).db).1,
      (runSeq rs (run r.name r.ctx r.raw (tick db r.now)).db).2)

/-- what the passing of time does to the key space: entries whose deadline lies before `t` vanish -/
def expire (t : Int) (live : Live) : Live := fun k => (live k).filter fun it => !expiredAt t it.expireat

/-- the same history on the abstract key space alone: the clock, `expire` and the abstract list semantics -/
def absSeq : List Req → Int → Live → List Reply × Live
  | [], _, live => ([], live)
  | r :: rs, t, live =>
    ((listCmd r.ctx.version r.name r.raw (expire (max t r.now) live)).1 ::
        (absSeq rs (max t r.now) (listCmd r.ctx.version r.name r.raw (expire (max t r.now) live)).2).1,
      (absSeq rs (max t r.now) (listCmd r.ctx.version r.name r.raw (expire (max t r.now) live)).2).2)

theorem live_tick (db : Db) (nd : NodupKeys db.dict) (now : Int) :
    (tick db now).live = expire (max db.time now) db.live := by
  funext k
  have e1 : (tick db now).live k =
      match db.dict.lookup k with
      | none => none
      | some it => if (!(tick db now).expired (k, it).2) = true then some it else none := by
    unfold Db.live
    rw [Db.purge_dict]
    exact Db.lookup_filter _ k nd
  have e2 : db.live k =
      match db.dict.lookup k with
      | none => none
      | some it => if (!db.expired (k, it).2) = true then some it else none := by
    unfold Db.live
    rw [Db.purge_dict]
    exact Db.lookup_filter _ k nd
  unfold expire
  rw [e1, e2]
  cases db.dict.lookup k with
  | none => rfl
  | some it =>
    obtain ⟨v, ex⟩ := it
    cases ex with
    | none => simp [Db.expired, expiredAt, Option.filter]
    | some e =>
      by_cases h1 : e < db.time
      · have h2 : e < max db.time now := by omega
        simp [Db.expired, tick, h1, h2, Option.filter]
      · by_cases h2 : e < max db.time now
        · simp [Db.expired, expiredAt, tick, h1, h2, Option.filter]
        · simp [Db.expired, expiredAt, tick, h1, h2, Option.filter]

/-- HISTORIES.  For any sequence of list commands (any arguments, any versions) started in a database with unique
keys and no stored empty collection, with the clock moving forward arbitrarily between the commands: EVERY reply and
the final key space are those computed by folding the abstract list semantics over the abstract key space. -/
theorem history_refinement (rs : List Req) (hreg : ∀ r ∈ rs, r.name ∈ listCmds) (db : Db)
    (nd : NodupKeys db.dict) (ne : NoEmpty db.dict) :
    (runSeq rs db).1 = (absSeq rs db.time db.live).1 ∧
    (runSeq rs db).2.live = (absSeq rs db.time db.live).2 ∧
    NodupKeys (runSeq rs db).2.dict ∧ NoEmpty (runSeq rs db).2.dict := by
  induction rs generalizing db with
  | nil => exact ⟨rfl, rfl, nd, ne⟩
  | cons r rs ih =>
    have nd1 : NodupKeys (tick db r.now).dict := nd
    have ne1 : NoEmpty (tick db r.now).dict := ne
    have h := refinement r.ctx (tick db r.now) nd1 ne1 r.name (hreg r (by simp)) r.raw
    rw [live_tick db nd] at h
    obtain ⟨c1, c2, c3⟩ := hypotheses_chain r.ctx (tick db r.now) nd1 ne1 r.name r.raw
    obtain ⟨i1, i2, i3, i4⟩ := ih (fun r' hr' => hreg r' (by simp [hr'])) _ c1 c2
    have ht : (run r.name r.ctx r.raw (tick db r.now)).db.time = max db.time r.now := c3
    simp only [runSeq, absSeq]
    rw [i1, i2, ht, ← congrArg Prod.fst h, ← congrArg Prod.snd h]
    exact ⟨rfl, rfl, i3, i4⟩

/-- a history on `exDb`: the clock passes the deadline 50 of the list `[1]` before the last two commands -/
def exHist : List Req :=
  [⟨5, ctx7, "rpush", [[1], [40]]⟩, ⟨6, ctx7, "lmove", [[1], [3], [108, 101, 102, 116], [114, 105, 103, 104, 116]]⟩,
   ⟨7, ctx6, "lrange", [[1], [48], [45, 49]]⟩, ⟨60, ctx7, "llen", [[1]]⟩, ⟨61, ctx7, "lpop", [[3]]⟩]
example : (∀ r ∈ exHist, r.name ∈ listCmds) ∧
    (runSeq exHist exDb).1.map (fun r => (intView r, bulkView r)) =
      [(some 5, none), (none, some [10]), (none, none), (some 0, none), (none, some [10])] ∧
    listView (runSeq exHist exDb).2.live [1] = some ([], none) ∧
    listView (runSeq exHist exDb).2.live [3] = some ([], none) := by
  decide +kernel

/-! ### D.2 at the level of the system: `_run_command` of the list commands and the first pass of the blocking pops -/

/-- one step of a client: a list command through `runCommand` (= `_run_command`; outside MULTI and scripts), or the
first pass of BLPOP / BRPOP (`left` = BLPOP) or of BRPOPLPUSH -/
inductive Step where
  | cmd (name : String) (raw : List Bytes)
  | bpop (left : Bool) (keys : List Bytes)
  | brpoplpush (src dst : Bytes)

def Step.wf : Step → Prop
  | .cmd name _ => name ∈ listCmds
  | _ => True

/-- the step as the system model executes it for connection `c` on database `d`; the reply is `none` when a blocking
pop is not served (the command would block) -/
def sysStep (mode : Mode) (c d : Nat) (s : Sys) : Step → Option Reply × Sys
  | .cmd name raw => runCommand mode c (sigOf name) raw false s
  | .bpop left keys => (passReply (bpopPass d left true keys s).1, (bpopPass d left true keys s).2)
  | .brpoplpush src dst =>
    (passReply (brpoplpushPass d src dst true s).1, (brpoplpushPass d src dst true s).2)

/-- the same step on the abstract key space -/
def absStep (version : Nat) (live : Live) : Step → Option Reply × Live
  | .cmd name raw => (some (listCmd version name raw live).1, (listCmd version name raw live).2)
  | .bpop left keys => bpopL left live keys
  | .brpoplpush src dst => brpoplpushL live src dst

def sysRun (mode : Mode) (c d : Nat) : List Step → Sys → List (Option Reply) × Sys
  | [], s => ([], s)
  | st :: sts, s =>
    ((sysStep mode c d s st).1 :: (sysRun mode c d sts (sysStep mode c d s st).2).1,
      (sysRun mode c d sts (sysStep mode c d s st).2).2)

def absRun (version : Nat) : List Step → Live → List (Option Reply) × Live
  | [], live => ([], live)
  | st :: sts, live =>
    ((absStep version live st).1 :: (absRun version sts (absStep version live st).2).1,
      (absRun version sts (absStep version live st).2).2)

/-- ONE STEP of an ordinary client (selected database `d`, not subscribed) refines the abstract step; the hypotheses
hold again afterwards and no other database is touched -/
theorem sysStep_refines (mode : Mode) (c d : Nat) (s : Sys) (hc : Client s c d) (h : SysOK s d) (st : Step)
    (hw : st.wf) :
    ((sysStep mode c d s st).1, ((sysStep mode c d s st).2.dbAt d).live) =
      absStep s.srv.version (s.dbAt d).live st ∧
    Frame s (sysStep mode c d s st).2 d ∧ Client (sysStep mode c d s st).2 c d ∧
    (sysStep mode c d s st).2.srv.version = s.srv.version := by
  cases st with
  | cmd name raw => exact runCommand_list mode c d name hw raw s hc h
  | bpop left keys =>
    obtain ⟨h1, h2⟩ := bpop_refines d left keys s h
    obtain ⟨h3, h4⟩ := bpop_client d left true keys s c d hc
    exact ⟨h1, h2, h3, h4⟩
  | brpoplpush src dst =>
    obtain ⟨h1, h2⟩ := brpoplpush_refines d src dst s h
    obtain ⟨h3, h4⟩ := brpoplpush_client d src dst true s c d hc
    exact ⟨h1, h2, h3, h4⟩

/-- HISTORIES OF THE SYSTEM.  For any sequence of list commands and first passes of blocking pops issued by one ordinary
client, every reply (including "not served") and the final key space of its database are those of folding the
abstract list semantics; every other database is as before. -/
theorem system_history (mode : Mode) (c d : Nat) (sts : List Step) (hw : ∀ st ∈ sts, st.wf) (s : Sys)
    (hc : Client s c d) (h : SysOK s d) :
    (sysRun mode c d sts s).1 = (absRun s.srv.version sts (s.dbAt d).live).1 ∧
    ((sysRun mode c d sts s).2.dbAt d).live = (absRun s.srv.version sts (s.dbAt d).live).2 ∧
    Frame s (sysRun mode c d sts s).2 d := by
  induction sts generalizing s with
  | nil => exact ⟨rfl, rfl, ⟨h, rfl, fun _ _ => rfl⟩⟩
  | cons st sts ih =>
    obtain ⟨h1, h2, h3, h4⟩ := sysStep_refines mode c d s hc h st (hw st (by simp))
    obtain ⟨i1, i2, i3⟩ := ih (fun st' hst' => hw st' (by simp [hst'])) _ h3 h2.ok
    simp only [sysRun, absRun]
    rw [i1, i2, h4, ← congrArg Prod.fst h1, ← congrArg Prod.snd h1]
    exact ⟨rfl, rfl, h2.trans i3⟩

/-- non-vacuity: connection 1 of `exSys` is an ordinary client of database 0; a history with a served BLPOP, a BRPOPLPUSH
rotation and an unserved BRPOP -/
def exSteps : List Step :=
  [.cmd "rpush" [[3], [7], [8]], .bpop true [[9], [3], [1]], .brpoplpush [1] [1], .cmd "lpop" [[3]], .bpop false [[3]],
   .cmd "lrange" [[1], [48], [45, 49]]]
example : Client exSys 1 0 ∧ SysOK exSys 0 ∧ (∀ st ∈ exSteps, st.wf) ∧
    (absRun 7 exSteps exDb.live).1.map (fun o => o.map fun r => (intView r, bulkView r)) =
      [some (some 2, none), some (none, none), some (none, some [30]), some (none, some [8]), none,
        some (none, none)] := by
  refine ⟨⟨rfl, rfl⟩, ⟨by decide, by decide, by unfold NoEmpty; decide⟩, ?_, by decide +kernel⟩
  intro st hst
  simp only [exSteps, List.mem_cons, List.mem_nil_iff, or_false] at hst
  rcases hst with rfl | rfl | rfl | rfl | rfl | rfl <;> first | trivial | (show _ ∈ listCmds; decide)
/-- … and the system model itself, run on that history, gives exactly these replies -/
example :
    (sysRun {} 1 0 exSteps exSys).1.map (fun o => o.map fun r => (intView r, bulkView r)) =
      [some (some 2, none), some (none, none), some (none, some [30]), some (none, some [8]), none,
        some (none, none)] ∧
    listView ((sysRun {} 1 0 exSteps exSys).2.dbAt 0).live [1] = some ([[30], [10], [20], [10]], some 50) ∧
    listView ((sysRun {} 1 0 exSteps exSys).2.dbAt 0).live [3] = some ([], none) := by
  decide +kernel

end FR.Props.C02l
