import FR.Proofs.ErrSys
/-!
# C08 at system level — a command answered with an error changes nothing; wrong type

`FR/Props/C08.lean` states C08 for the generic runner `runRegular` on one database.  This file states it for
`_process_command` (`processCommand`) and `_run_command` (`runCommand`, `runWith`), i.e. for *all* commands: the
regular ones, the special ones dispatched by `special` (SELECT, SWAPDB, MOVE, SCAN, SORT, ZUNIONSTORE/ZINTERSTORE,
MULTI/DISCARD/WATCH/UNWATCH, (P)SUBSCRIBE/(P)UNSUBSCRIBE/PUBLISH, the blocking pops, SCRIPT, FLUSHDB/FLUSHALL, …),
unknown commands, arity errors and the refusals of `runGate`; for EXEC itself, for each inner command of EXEC and
for each `redis.call` of a script.

Vocabulary (all defined in `FR/Proofs/ErrSys.lean`):

* `s.prologue` — the state in which a *known* command is checked and run: `_cleanup` of the sockets closed meanwhile
  has run and the clock has been read (`srv.time` refreshed, one clock hint consumed).  The clock of course
  advances; `prologue_only_clock` says that nothing else does when no socket was closed.
* `ErrAnswered mode c fields s` — the request is answered with an error: unknown command, wrong arity,
  (P)SUBSCRIBE / (P)UNSUBSCRIBE while a MULTI is open ("Command not allowed inside a transaction"), or (run at
  once) `_run_command` refuses it in subscriber mode (`Sys.refuses`: before the arguments are looked at) / the generic
  runner ends on an error path (`failed`) / `_run_command` of a special command returns `.err`.
  `out_error_iff_errAnswered` relates it to "the reply list grows by exactly one error".
* `ErrStep c r f s1 s'` — `s'` is `s1` where every database is **purge-equal** at the (unchanged) clock
  (`Db.purge`-equal: identical up to lazy deletion of already-expired entries; unique keys on both sides), every other
  server field (`subs`, `psubs`, `scripts`, `time`, `lastsave`, `closedSockets`, …) is identical, every connection
  record other than `c`'s is identical, `c`'s record is changed by `f`, and the reply list grows by `(c, r)`
  (by nothing if the socket is closed).  Only the replay bookkeeping (`clocks`, `picks`, `fault`, `crashed`) is free.
-/
namespace FR.Props.C08s
open FR FR.M FR.ErrSys

/-! ## 1. `_process_command`: an error answer changes nothing -/

/-- **Main theorem (1).**  If the request `nameB :: args` of connection `c` is answered with an error and the
command is not EXEC / EVAL / EVALSHA, then relative to `base` (`s` itself for an unknown command — no clean-up, no
clock refresh —, `s.prologue` for a known one):

* every database is purge-equal, `srv.subs`, `srv.psubs`, `srv.scripts` and all other server fields are identical,
* every OTHER connection record is identical (`tx`, `txFailed`, `watches`, `watchNotified`, `parked`, `buf`, …),
* the record of `c` is unchanged (`f = id`), or gets `txFailed := true` — exactly when the error (unknown command,
  wrong arity, (P)SUBSCRIBE / (P)UNSUBSCRIBE refused) happens while a MULTI is open —, or gets `dead := true` — only when the `crashed` marker of the replay
  is set (never after `Sys.beginEvent`),
* exactly one reply, an error, is appended for `c`. -/
theorem error_answer_changes_nothing (mode : Mode) (c : Nat) (nameB : Bytes) (args : List Bytes) (s : Sys)
    (hnd : NodupDbs s) (herr : ErrAnswered mode c (nameB :: args) s)
    (hx : ∀ sig, lookupSig nameB = some sig → sig.name ≠ "exec" ∧ sig.name ≠ "eval" ∧ sig.name ≠ "evalsha") :
    ∃ e f, ErrStep c (.err e) f (if (lookupSig nameB).isSome then s.prologue else s)
        (processCommand mode c (nameB :: args) s).2 ∧
      (f = id ∨ (f = markTxFailed ∧ (s.conn c).tx.isSome = true) ∨
        (f = markDead ∧ (processCommand mode c (nameB :: args) s).2.crashed.isSome = true)) :=
  processCommand_error mode c nameB args s hnd herr hx

/-- The same, with the hypothesis stated on the reply list as the property does: "the step emits an error reply for
this request" — `out` grows by exactly `(c, .err e)`. -/
theorem error_reply_changes_nothing (mode : Mode) (c : Nat) (nameB : Bytes) (args : List Bytes) (s : Sys) (e : Bytes)
    (hnd : NodupDbs s)
    (hout : (processCommand mode c (nameB :: args) s).2.out = (c, .err e) :: s.out)
    (hx : ∀ sig, lookupSig nameB = some sig → sig.name ≠ "exec" ∧ sig.name ≠ "eval" ∧ sig.name ≠ "evalsha") :
    ∃ e' f, ErrStep c (.err e') f (if (lookupSig nameB).isSome then s.prologue else s)
        (processCommand mode c (nameB :: args) s).2 ∧
      (f = id ∨ (f = markTxFailed ∧ (s.conn c).tx.isSome = true) ∨
        (f = markDead ∧ (processCommand mode c (nameB :: args) s).2.crashed.isSome = true)) :=
  processCommand_error_of_out mode c nameB args s e hnd hout hx

/-- "the reply list grows by exactly one error" implies `ErrAnswered` (for all commands, EXEC and scripts included) -/
theorem out_error_imp_errAnswered (mode : Mode) (c : Nat) (nameB : Bytes) (args : List Bytes) (s : Sys) (e : Bytes)
    (hout : (processCommand mode c (nameB :: args) s).2.out = (c, .err e) :: s.out) :
    ErrAnswered mode c (nameB :: args) s :=
  errAnswered_of_out mode c nameB args s e hout (fun sig body _ hreg => regular_noErrReply sig.name body hreg)

/-- the bodies of all 103 regular commands raise their errors: none returns an error-shaped reply as a result, so
for a regular command "the reply is an error" and "the runner ended on an error path" coincide -/
theorem regular_bodies_raise (name : String) (body : Body) (h : Cmd.regular name = some body) : NoErrReply body :=
  regular_noErrReply name body h

/-- the prologue changes no database; when no socket was closed meanwhile it changes nothing but the clock -/
theorem prologue_only_clock (s : Sys) :
    s.prologue.srv.dbs = s.srv.dbs ∧ s.prologue.out = s.out ∧
      (s.srv.closedSockets = [] → s.prologue.srv = { s.srv with time := (nextClock s).1 }) :=
  ⟨prologue_dbs s, prologue_out s, fun h => (prologue_srv_of_no_closed h).1⟩

/-- what `ErrStep` means for one key: same live value and same expiry in every database -/
theorem error_keeps_every_live_item {c : Nat} {r : Reply} {f : Conn → Conn} {s1 s' : Sys} (h : ErrStep c r f s1 s')
    (i : Nat) (k : Bytes) : (s'.dbAt i).live k = (s1.dbAt i).live k :=
  h.live_eq i k

/-- … and for the other clients: their whole connection record (transaction state included) is identical -/
theorem error_keeps_other_connections {c : Nat} {r : Reply} {f : Conn → Conn} {s1 s' : Sys} (h : ErrStep c r f s1 s')
    (hid : ∀ x, (f x).id = x.id) {c' : Nat} (hne : c' ≠ c) : s'.conn c' = s1.conn c' :=
  h.conn_other hid hne

/-! ### non-vacuity -/

/-- executable form of `badO` / `ErrAnswered` / `InnerErr` / `CallErr`, so that the examples can be decided -/
def badOB : Option Reply → Bool
  | some (.err _) => true
  | _ => false

theorem badO_iff (r : Option Reply) : badO r ↔ badOB r = true := by
  cases r with
  | none => exact ⟨fun h => h.elim, fun h => by cases h⟩
  | some r => cases r <;> first | exact ⟨fun _ => rfl, fun _ => trivial⟩ | exact ⟨fun h => h.elim, fun h => by cases h⟩

instance (priority := high) decErrAnswered (mode : Mode) (c : Nat) (fields : List Bytes) (s : Sys) :
    Decidable (ErrAnswered mode c fields s) :=
  match fields with
  | [] => isFalse (fun h => h)
  | nameB :: args =>
    match h : lookupSig nameB with
    | none => isTrue (by unfold ErrAnswered; simp only [h])
    | some sig =>
      if ha : (!sig.checkArity args.length) = true then
        isTrue (by unfold ErrAnswered; simp only [h]; rw [if_pos ha]; trivial)
      else if hq : ((s.conn c).tx.isSome && !SigTable.notQueued.contains sig.name) = true then
        decidable_of_iff (SigTable.notInMulti.contains sig.name = true)
          (by unfold ErrAnswered; simp only [h]; rw [if_neg ha, if_pos hq])
      else
        match hr : Cmd.regular sig.name with
        | some body =>
          decidable_of_iff
            (s.prologue.refuses c sig = true ∨ (s.prologue.regularOut c sig body args false).failed = true)
            (by unfold ErrAnswered; simp only [h]; rw [if_neg ha, if_neg hq]; simp only [hr])
        | none =>
          decidable_of_iff (badOB (runCommand mode c sig args false s.prologue).1 = true)
            (by unfold ErrAnswered; simp only [h]; rw [if_neg ha, if_neg hq]; simp only [hr]
                exact (badO_iff _).symm)

/-- one database with a list at `a` (and an expired string at `z`), one connection -/
def exSys : Sys :=
  { srv := { dbs := [[([97], ⟨.list [[1]], none⟩), ([122], ⟨.str [2], some 1⟩)]], conns := [{ id := 1 }] },
    clocks := [5] }

theorem exSys_nodup : NodupDbs exSys := by
  intro d hd
  simp only [exSys, List.mem_singleton] at hd
  subst hd
  unfold NodupKeys
  decide

/-- APPEND to a list key: a regular command failing with WRONGTYPE -/
example : ErrAnswered {} 1 [strBytes "append", [97], [120]] exSys := by decide +kernel

example : (processCommand {} 1 [strBytes "append", [97], [120]] exSys).2.out.map
    (fun p => (p.1, match p.2 with | .err m => some m | _ => none)) = [(1, some (strBytes Msgs.WRONGTYPE_MSG))] := by
  decide +kernel

/-- `SELECT x`: an argument error of a special command; `nosuch`: unknown command; `GET` without key: arity;
DISCARD without MULTI: a special body raising (the hypothesis of `special_spec`) -/
example : ErrAnswered {} 1 [strBytes "select", [120]] exSys := by decide +kernel
example : errS (special stubInner {} 1 "discard" [] [] exSys).1 := by
  have h : (special stubInner {} 1 "discard" [] [] exSys).1 = .error (Msgs.fmt1 Msgs.WITHOUT_MULTI_MSG "DISCARD") := rfl
  rw [h]; trivial
example : ErrAnswered {} 1 [strBytes "nosuch"] exSys := by decide +kernel
example : ErrAnswered {} 1 [strBytes "get"] exSys := by decide +kernel

/-- subscriber mode: `LINDEX nokey 0` on a subscribed connection is answered with the context error although the
generic runner, had it been entered, would have short-cut on the missing key (`failed = false`); `GET z` (`z` expired)
likewise, and the expired entry is not even deleted lazily -/
def exSysSub : Sys :=
  { exSys with srv := { exSys.srv with conns := [{ id := 1, pubsub := 1 }] } }

example : ErrAnswered {} 1 [strBytes "lindex", strBytes "nokey", strBytes "0"] exSysSub ∧
    ErrAnswered {} 1 [strBytes "get", [122]] exSysSub := by decide +kernel

example : (processCommand {} 1 [strBytes "lindex", strBytes "nokey", strBytes "0"] exSysSub).2.out.map
      (fun p => (p.1, match p.2 with | .err m => some m | _ => none)) =
      [(1, some (strBytes Msgs.BAD_COMMAND_IN_PUBSUB_MSG))] ∧
    (processCommand {} 1 [strBytes "get", [122]] exSysSub).2.out.map
      (fun p => (p.1, match p.2 with | .err m => some m | _ => none)) =
      [(1, some (strBytes Msgs.BAD_COMMAND_IN_PUBSUB_MSG))] ∧
    (processCommand {} 1 [strBytes "get", [122]] exSysSub).2.srv.time = 5 ∧
    (processCommand {} 1 [strBytes "get", [122]] exSysSub).2.srv.dbs.map (·.map fun p => (p.1, p.2.expireat)) =
      [[([97], none), ([122], some 1)]] := by
  decide +kernel

/-- an unknown command inside MULTI marks the transaction as failed (`f = markTxFailed`) -/
def exSysMulti : Sys :=
  { exSys with srv := { exSys.srv with conns := [{ id := 1, tx := some [] }] } }

example : ((processCommand {} 1 [strBytes "nosuch"] exSysMulti).2.conn 1).txFailed = true ∧
    (exSysMulti.conn 1).txFailed = false := by decide +kernel

/-- SUBSCRIBE inside MULTI is answered with an error (refused, not queued): `ErrAnswered`, the reply, `txFailed`,
the queue as it was -/
example : ErrAnswered {} 1 [strBytes "subscribe", [120]] exSysMulti ∧
    (processCommand {} 1 [strBytes "subscribe", [120]] exSysMulti).2.out.map
      (fun p => (p.1, match p.2 with | .err m => some m | _ => none)) =
      [(1, some (strBytes Msgs.COMMAND_IN_MULTI_MSG))] ∧
    ((processCommand {} 1 [strBytes "subscribe", [120]] exSysMulti).2.conn 1).txFailed = true ∧
    ((processCommand {} 1 [strBytes "subscribe", [120]] exSysMulti).2.conn 1).tx = some [] := by decide +kernel

/-! ## 2. EXEC, its inner commands, script calls -/

/-- **EXEC answered with an error runs nothing.**  (No MULTI, EXECABORT after a queueing error, wrong arity,
subscriber mode.)  The databases are purge-equal, everything else of the server and all other connection records are
identical; in the record of `c` only `tx`, `txFailed`, `watches`, `watchNotified` (and `dead` under the `crashed`
marker) may change — `OnlyTx f` says every other field is kept. -/
theorem exec_error_runs_nothing (mode : Mode) (c : Nat) (nameB : Bytes) (args : List Bytes) (s : Sys)
    (hnd : NodupDbs s) {sig : Sig} (hl : lookupSig nameB = some sig) (hname : sig.name = "exec")
    (herr : ErrAnswered mode c (nameB :: args) s) :
    ∃ e f, ErrStep c (.err e) f s.prologue (processCommand mode c (nameB :: args) s).2 ∧ OnlyTx f :=
  processCommand_exec_error mode c nameB args s hnd hl hname herr

/-- non-vacuity: `EXEC x` (arity), and EXEC without MULTI raising in `execCmd` -/
example : ErrAnswered {} 1 [strBytes "exec", [120]] exSys := by decide +kernel
example : errS (execCmd stubInner 1 [] exSys).1 := by
  rw [execCmd_run_none stubInner [] (s := exSys) (c := 1) rfl]; trivial

/-- **Each inner command of EXEC** (`queueStep`: set `inTx`, run the nested `_run_command`, clear `inTx`): if it
answers an error — `InnerErr`: a regular command is refused in subscriber mode or its runner ends on an error path,
resp. the nested `_run_command` of a special command other than EVAL / EVALSHA (excluded as for a direct request:
a script that ends in an error may have written before; for the errors raised before the script starts see
`FR.Props.C19m`) returns `.err` — its reply is that error and the state after it is the state before it up to
purge-equality of the databases and the `inTx` flag of `c` (which EXEC leaves cleared): `subs`, `psubs`, `scripts`,
the clock, the reply list and every other connection record are identical. -/
theorem exec_inner_error_changes_nothing (mode : Mode) (c : Nat) (a : String × List Bytes) {sig : Sig}
    (hf : SigTable.find a.1 = some sig) (hne : sig.name ≠ "exec") (h1 : sig.name ≠ "eval") (h2 : sig.name ≠ "evalsha")
    (s : Sys) (hnd : NodupDbs s)
    (herr : InnerErr mode c sig a.2 (s.updConn c setInTx)) :
    (∃ e, (queueStep (runInner mode c) c a s).1 = some (.err e)) ∧
      QuietUpTo c clearInTx s (queueStep (runInner mode c) c a s).2 :=
  queueStep_error mode c a hf hne h1 h2 s hnd herr

/-- … lifted through `runQueue`: the run of `pre ++ a :: post` is the run of `pre`, the step `a`, the run of `post`;
if step `a` answers an error, the state after it is the state after `pre` (in the sense above) -/
theorem exec_each_inner_error (mode : Mode) (c : Nat) (pre post : List (String × List Bytes))
    (a : String × List Bytes) {sig : Sig} (hf : SigTable.find a.1 = some sig) (hne : sig.name ≠ "exec")
    (h1 : sig.name ≠ "eval") (h2 : sig.name ≠ "evalsha") (s : Sys)
    (hinv : s.DataInv)
    (herr : InnerErr mode c sig a.2 ((runQueue (runInner mode c) c pre s).2.updConn c setInTx)) :
    runQueue (runInner mode c) c (pre ++ a :: post) s =
      (let r1 := runQueue (runInner mode c) c pre s
       let r2 := queueStep (runInner mode c) c a r1.2
       let r3 := runQueue (runInner mode c) c post r2.2
       (r1.1 ++ r2.1 :: r3.1, r3.2)) ∧
    QuietUpTo c clearInTx (runQueue (runInner mode c) c pre s).2
      (queueStep (runInner mode c) c a (runQueue (runInner mode c) c pre s).2).2 :=
  ⟨runQueue_split _ c pre post a s, runQueue_each_error mode c pre post a hf hne h1 h2 s hinv herr⟩

def innerErrB (mode : Mode) (c : Nat) (sig : Sig) (fargs : List Bytes) (s1 : Sys) : Bool :=
  match Cmd.regular sig.name with
  | some body => s1.refuses c sig || (s1.regularOut c sig body fargs false).failed
  | none => badOB (runInner mode c sig fargs s1).1

theorem innerErr_iff (mode : Mode) (c : Nat) (sig : Sig) (fargs : List Bytes) (s1 : Sys) :
    InnerErr mode c sig fargs s1 ↔ innerErrB mode c sig fargs s1 = true := by
  unfold InnerErr innerErrB
  cases Cmd.regular sig.name with
  | none => exact badO_iff _
  | some body => simp only [Bool.or_eq_true]

instance (mode : Mode) (c : Nat) (sig : Sig) (fargs : List Bytes) (s1 : Sys) :
    Decidable (InnerErr mode c sig fargs s1) :=
  decidable_of_iff _ (innerErr_iff mode c sig fargs s1).symm

/-- non-vacuity: `APPEND a x` queued in a transaction fails on the list key `a` -/
example : InnerErr {} 1 ⟨"append", [.key (some .str) .unspecified, .bytes], [], false, 2, 0, false⟩ [[97], [120]]
    (exSys.updConn 1 setInTx) := by decide +kernel

/-- **Each `redis.call` / `redis.pcall` of a script**: when the called command ends on an error path (`CallErr`:
refused in subscriber mode, the runner of a regular command fails, `_run_command` of a special command returns `.err`)
the bridge raises in Lua and the state is quiet — every database purge-equal, every other field of the server,
every connection record and the reply list identical. -/
theorem script_call_error_changes_nothing (mode : Mode) (c : Nat) (nameB : Bytes) (largs : List LuaVal) (s : Sys)
    {sig : Sig} {raw : List Bytes} (hl : lookupSig nameB = some sig)
    (hraw : largs.mapM (luaToArg s.srv.version) = .ok raw) (hne : sig.name ≠ "exec") (hnd : NodupDbs s)
    (herr : CallErr stubInner mode c sig raw true s) :
    (∃ e, (runFromScript (special stubInner) mode c (.str nameB) largs s).1 = .error e) ∧
      Quiet s (runFromScript (special stubInner) mode c (.str nameB) largs s).2 :=
  runFromScript_error mode c nameB largs s hl hraw hne hnd herr

/-- the lemma underneath everything: `_run_command` at any nesting level, from a script or not -/
theorem run_command_error_changes_nothing (inner : Inner) (mode : Mode) (c : Nat) (sig : Sig) (raw : List Bytes)
    (fs : Bool) (s1 : Sys) (hnd : NodupDbs s1) (hne : sig.name ≠ "exec") (herr : CallErr inner mode c sig raw fs s1) :
    (∃ e, (runWith (special inner) mode c sig raw fs s1).1 = some (.err e)) ∧
      Quiet s1 (runWith (special inner) mode c sig raw fs s1).2 :=
  runWith_error inner mode c sig raw fs s1 hnd hne herr

def callErrB (inner : Inner) (mode : Mode) (c : Nat) (sig : Sig) (raw : List Bytes) (fs : Bool) (s1 : Sys) : Bool :=
  match Cmd.regular sig.name with
  | some body => s1.refuses c sig || (s1.regularOut c sig body raw fs).failed
  | none => badOB (runWith (special inner) mode c sig raw fs s1).1

theorem callErr_iff (inner : Inner) (mode : Mode) (c : Nat) (sig : Sig) (raw : List Bytes) (fs : Bool) (s1 : Sys) :
    CallErr inner mode c sig raw fs s1 ↔ callErrB inner mode c sig raw fs s1 = true := by
  unfold CallErr callErrB
  cases Cmd.regular sig.name with
  | none => exact badO_iff _
  | some body => simp only [Bool.or_eq_true]

instance (inner : Inner) (mode : Mode) (c : Nat) (sig : Sig) (raw : List Bytes) (fs : Bool) (s1 : Sys) :
    Decidable (CallErr inner mode c sig raw fs s1) :=
  decidable_of_iff _ (callErr_iff inner mode c sig raw fs s1).symm

/-- non-vacuity: `redis.call('incr', 'a')` on the list key, and `redis.call('subscribe', 'x')` (not allowed in scripts) -/
example : CallErr stubInner {} 1 ⟨"incr", [.key (some .str) .unspecified], [], false, 1, 0, false⟩ [[97]] true exSys := by
  decide +kernel
example : CallErr stubInner {} 1 ⟨"subscribe", [.bytes], [.bytes], true, 0, 0, true⟩ [[120]] true exSys := by
  decide +kernel

/-! ## 3. Wrong type -/

/-- **`Signature.apply`.**  When an argument is a key of declared type `T` and the key holds a live value of another
type, the body is never entered: `apply` fails, or — the one exception — another key of the command that has a
`missing_return` is missing and the command is answered at once with that value (first pass of `apply`). -/
theorem wrongtype_apply (sig : Sig) (raw : List Bytes) {db : Db} (nd : NodupKeys db.dict) {i : Nat} {k : Bytes}
    {T : Ty} {mr : MissingRet} {it : Item}
    (hi : (raw.zip (sig.types raw.length))[i]? = some (k, .key (some T) mr))
    (hl : db.live k = some it) (ht : it.value.ty ≠ T) :
    (∃ e, (sig.apply raw db).2 = .error e) ∨ (∃ r, (sig.apply raw db).2 = .ok (.short r)) :=
  apply_wrongtype sig raw nd hi hl ht

/-- when the first pass goes through (arity accepted, every non-key argument decodes, no key with a
`missing_return` is missing) the error is WRONGTYPE -/
theorem wrongtype_apply_msg (sig : Sig) (raw : List Bytes) {db : Db} (nd : NodupKeys db.dict) {i : Nat} {k : Bytes}
    {T : Ty} {mr : MissingRet} {it : Item}
    (hi : (raw.zip (sig.types raw.length))[i]? = some (k, .key (some T) mr))
    (hl : db.live k = some it) (ht : it.value.ty ≠ T) {db1 : Db} {args : List Arg}
    (harity : sig.checkArity raw.length = true)
    (hrep : (!sig.rep.isEmpty && (raw.length - sig.fixed.length) % sig.rep.length != 0) = false)
    (hp1 : Sig.pass1 db (raw.zip (sig.types raw.length)) [] = (db1, .ok (.inr args))) :
    (sig.apply raw db).2 = .error Msgs.WRONGTYPE_MSG :=
  apply_wrongtype_msg sig raw nd hi hl ht harity hrep hp1

/-- **`_run_command`** (any connection; directly, inside EXEC or from a script): the regular command is answered
with an error (or short-circuited by a missing key), it is quiet, and the key still holds the very same item — the
value is never reinterpreted, truncated or overwritten. -/
theorem wrongtype_run_command (special : SpecialFn) (mode : Mode) (c : Nat) (sig : Sig) (raw : List Bytes) (fs : Bool)
    {body : Body} (hreg : Cmd.regular sig.name = some body) (s : Sys) (hnd : NodupDbs s)
    {i : Nat} {k : Bytes} {T : Ty} {mr : MissingRet} {it : Item}
    (hi : (raw.zip (sig.types raw.length))[i]? = some (k, .key (some T) mr))
    (hl : (s.dbAt (s.conn c).db).live k = some it) (ht : it.value.ty ≠ T) :
    ((∃ e, (runWith special mode c sig raw fs s).1 = some (.err e)) ∨
        ∃ r, (sig.apply raw (s.dbAt (s.conn c).db)).2 = .ok (.short r)) ∧
      Quiet s (runWith special mode c sig raw fs s).2 ∧
      ((runWith special mode c sig raw fs s).2.dbAt (s.conn c).db).live k = some it :=
  runWith_wrongtype special mode c sig raw fs hreg s hnd hi hl ht

/-- **`_process_command`.** -/
theorem wrongtype_request (mode : Mode) (c : Nat) (nameB : Bytes) (args : List Bytes) (s : Sys)
    (hnd : NodupDbs s) {sig : Sig} {body : Body} (hl : lookupSig nameB = some sig)
    (hreg : Cmd.regular sig.name = some body) (ha : sig.checkArity args.length = true)
    (hq : ((s.conn c).tx.isSome && !SigTable.notQueued.contains sig.name) = false)
    {i : Nat} {k : Bytes} {T : Ty} {mr : MissingRet} {it : Item}
    (hi : (args.zip (sig.types args.length))[i]? = some (k, .key (some T) mr))
    (hlive : (s.prologue.dbAt (s.prologue.conn c).db).live k = some it) (ht : it.value.ty ≠ T) :
    ∃ r f, ((∃ e, r = Reply.err e) ∨
          (sig.apply args (s.prologue.dbAt (s.prologue.conn c).db)).2 = .ok (.short r)) ∧
      ErrStep c r f s.prologue (processCommand mode c (nameB :: args) s).2 ∧
      (f = id ∨ (f = markDead ∧ (processCommand mode c (nameB :: args) s).2.crashed.isSome = true)) ∧
      ((processCommand mode c (nameB :: args) s).2.dbAt (s.prologue.conn c).db).live k = some it :=
  processCommand_wrongtype mode c nameB args s hnd hl hreg ha hq hi hlive ht

/-- non-vacuity of the hypotheses: APPEND's first argument is a key declared `str`; `a` holds a list -/
example : ([[97], [120]].zip ((⟨"append", [.key (some .str) .unspecified, .bytes], [], false, 2, 0, false⟩ : Sig).types 2))[0]?
      = some ([97], .key (some .str) .unspecified) ∧
    ((exSys.prologue.dbAt (exSys.prologue.conn 1).db).live [97]).map (fun it => (it.value.ty, it.expireat))
      = some (.list, none) := by decide +kernel

/-- **The literal statement "answered with an error" is false of the model** (and of Redis): the missing-key
short-circuit of the first pass wins.  `RPOPLPUSH nosuch a` — destination `a` holds a string, not a list — is
answered `nil`, because the source key is missing. -/
def exSysStr : Sys := { srv := { dbs := [[([97], ⟨.str [1], none⟩)]], conns := [{ id := 1 }] }, clocks := [5] }

theorem wrongtype_masked_by_missing_key :
    (processCommand {} 1 [strBytes "rpoplpush", [110], [97]] exSysStr).2.out.map
        (fun p => (p.1, match p.2 with | .nil => true | _ => false)) = [(1, true)] ∧
    (((processCommand {} 1 [strBytes "rpoplpush", [110], [97]] exSysStr).2.dbAt 0).live [97]).map
        (fun it => (it.value.ty, it.expireat)) = some (.str, none) := by decide +kernel

end FR.Props.C08s
