import FR.Proofs.AsyncLife
/-!
# C14 — the asyncio front-end gives the same replies as the sync front-end

`Mode.async` selects `blockingAsync` (`AsyncFakeSocket._blocking`) instead of `blocking`; nothing else looks at the mode.
The script commands (EVAL / EVALSHA / SCRIPT) hand the mode to the commands a script calls, but a script cannot call a
blocking pop (BLPOP / BRPOP / BRPOPLPUSH are flagged `no_script`: the gate refuses them before their body runs), so
script commands - issued directly or queued in a MULTI - do not look at the mode either (`script_mode_irrelevant`).
`s.conn c` abbreviates `(M.getConn c s).1`; `s.HasConn c` says a connection with id `c` is registered;
`lookupSig nameB` is the signature `processCommand` looks up from the first field of a request;
`Pass = Bool → M (Except Err (Option Reply))` is one pass of a blocking pop (`bpopPass`, `brpoplpushPass`);
`Framed x` says that the computation `x` changes only the databases and the notification flags
(`watchNotified`, `parked.woken`) of connection records (`PassFrame`).
-/
namespace FR.Props.C14
open FR FR.M

/-! ## 1. the mode matters for the three blocking commands only -/

theorem special_mode_irrelevant_nonblocking (inner : Inner) (m1 m2 : Mode) (c : Nat) (name : String)
    (args : List Arg) (cis : List CI) (h : name ∉ ["blpop", "brpop", "brpoplpush"]) :
    special inner m1 c name args cis = special inner m2 c name args cis :=
  special_mode_irrel inner m1 m2 c name args cis h

theorem runCommand_mode_irrelevant (m1 m2 : Mode) (c : Nat) (sig : Sig) (raw : List Bytes) (fromScript : Bool)
    (h : sig.name ∉ ["blpop", "brpop", "brpoplpush"]) (hx : sig.name ≠ "exec") :
    runCommand m1 c sig raw fromScript = runCommand m2 c sig raw fromScript :=
  runCommand_mode_irrel m1 m2 c sig raw fromScript h hx

/-- the script commands themselves: same on both front-ends (a script cannot call a blocking pop) -/
theorem script_mode_irrelevant (m1 m2 : Mode) (c : Nat) (sig : Sig) (raw : List Bytes) (fromScript : Bool) :
    runScriptCmd m1 c sig raw fromScript = runScriptCmd m2 c sig raw fromScript :=
  runScriptCmd_mode_irrel m1 m2 c sig raw fromScript

/-- every call a script makes (`redis.call` / `redis.pcall`: `_run_command(…, from_script = True)`) is the same on
both front-ends -/
theorem script_call_mode_irrelevant (inner : Inner) (m1 m2 : Mode) (c : Nat) (op : LuaVal) (args : List LuaVal) :
    runFromScript (special inner) m1 c op args = runFromScript (special inner) m2 c op args :=
  runFromScript_mode_irrel inner m1 m2 c op args

/-- the commands EXEC runs (queued script commands included): same on both front-ends unless it is a blocking pop -/
theorem runInner_mode_irrelevant (m1 m2 : Mode) (c : Nat) (sig : Sig) (raw : List Bytes)
    (h : sig.name ∉ ["blpop", "brpop", "brpoplpush"]) : runInner m1 c sig raw = runInner m2 c sig raw :=
  runInner_mode_irrel m1 m2 c sig raw h

theorem processCommand_mode_irrelevant (m1 m2 : Mode) (c : Nat) (nameB : Bytes) (args : List Bytes)
    (h : ∀ sig, lookupSig nameB = some sig → sig.name ∉ ["blpop", "brpop", "brpoplpush"] ∧ sig.name ≠ "exec") :
    processCommand m1 c (nameB :: args) = processCommand m2 c (nameB :: args) :=
  processCommand_mode_irrel m1 m2 c nameB args h

/-- including EXEC, when the MULTI queue of the connection holds no blocking pop (it may hold script commands) -/
theorem processCommand_mode_irrelevant_exec (m1 m2 : Mode) (c : Nat) (nameB : Bytes) (args : List Bytes) (s : Sys)
    (h : ∀ sig, lookupSig nameB = some sig → sig.name ∉ ["blpop", "brpop", "brpoplpush"])
    (hq : ∀ q, (s.conn c).tx = some q → ∀ a ∈ q, a.1 ∉ ["blpop", "brpop", "brpoplpush"]) :
    (processCommand m1 c (nameB :: args)).run s = (processCommand m2 c (nameB :: args)).run s :=
  processCommand_exec_mode_irrel m1 m2 c nameB args s h hq

/-- non-vacuity: EVAL is covered by `runCommand_mode_irrelevant` / `processCommand_mode_irrelevant` -/
example : ∃ sig, SigTable.find "eval" = some sig ∧ sig.name ∉ ["blpop", "brpop", "brpoplpush"] ∧ sig.name ≠ "exec" :=
  ⟨_, rfl, by decide, by decide⟩

/-- `processCommand` of an empty request does nothing on either front-end -/
theorem processCommand_nil (m1 m2 : Mode) (c : Nat) : processCommand m1 c [] = processCommand m2 c [] := rfl

/-! ## 2. a pop that is served at once: both primitives just return it -/

theorem blockingAsync_eq_blocking_when_served (c : Nat) (park : Bool) (kind : String) (keys : List Bytes)
    (timeout : Int) (pass : Pass) (s : Sys)
    (h : (∃ e, (pass true s).1 = .error e) ∨ (∃ r, (pass true s).1 = .ok (some r))) :
    (blockingAsync c kind keys pass).run s = (blocking c park kind keys timeout pass).run s ∧
    (blockingAsync c kind keys pass).run s = pass true s := by
  show blockingAsync c kind keys pass s = blocking c park kind keys timeout pass s ∧
    blockingAsync c kind keys pass s = pass true s
  generalize hr : pass true s = res at h
  obtain ⟨r0, s1⟩ := res
  rcases h with ⟨e, he⟩ | ⟨r, hr'⟩
  · simp only at he; subst he
    rw [blockingAsync_served_err c kind keys pass s s1 e hr, blocking_served_err c park kind keys timeout pass s s1 e hr]
    exact ⟨rfl, rfl⟩
  · simp only at hr'; subst hr'
    rw [blockingAsync_served_ok c kind keys pass s s1 r hr, blocking_served_ok c park kind keys timeout pass s s1 r hr]
    exact ⟨rfl, rfl⟩

/-! ## 3. inside MULTI/EXEC a blocking pop never blocks, on either front-end -/

theorem blocking_in_tx_same (c : Nat) (park : Bool) (kind : String) (keys : List Bytes) (timeout : Int)
    (pass : Pass) (s : Sys) (hnone : (pass true s).1 = .ok none) (htx : ((pass true s).2.conn c).inTx = true) :
    (blockingAsync c kind keys pass).run s = (.ok (some .nil), (pass true s).2) ∧
    (blocking c park kind keys timeout pass).run s = (.ok (some .nil), (pass true s).2) := by
  show blockingAsync c kind keys pass s = _ ∧ blocking c park kind keys timeout pass s = _
  generalize hr : pass true s = res at hnone htx
  obtain ⟨r0, s1⟩ := res
  simp only at hnone htx; subst hnone
  exact ⟨blockingAsync_inTx c kind keys pass s s1 hr htx, blocking_inTx c park kind keys timeout pass s s1 hr htx⟩

/-- with a framed pass (`bpopPass`, `brpoplpushPass`) the flag can be read before the pass; whatever the pass
returns, the two primitives agree: same result, same state -/
theorem blocking_in_tx_same_framed (c : Nat) (park : Bool) (kind : String) (keys : List Bytes) (timeout : Int)
    (pass : Pass) (hpass : Framed (pass true)) (s : Sys) (htx : (s.conn c).inTx = true) :
    (blockingAsync c kind keys pass).run s = (blocking c park kind keys timeout pass).run s := by
  show blockingAsync c kind keys pass s = blocking c park kind keys timeout pass s
  have htx1 : ((pass true s).2.conn c).inTx = true := ((hpass.frame s).inTx c).trans htx
  generalize hr : pass true s = res at htx1
  obtain ⟨r0, s1⟩ := res
  cases r0 with
  | error e =>
    exact (blockingAsync_served_err c kind keys pass s s1 e hr).trans
      (blocking_served_err c park kind keys timeout pass s s1 e hr).symm
  | ok o =>
    cases o with
    | some r =>
      exact (blockingAsync_served_ok c kind keys pass s s1 r hr).trans
        (blocking_served_ok c park kind keys timeout pass s s1 r hr).symm
    | none =>
      exact (blockingAsync_inTx c kind keys pass s s1 hr htx1).trans
        (blocking_inTx c park kind keys timeout pass s s1 hr htx1).symm

theorem bpopPass_framed (d : Nat) (left first : Bool) (keys : List Bytes) : Framed (bpopPass d left first keys) :=
  framed_bpopPass d left first keys

theorem brpoplpushPass_framed (d : Nat) (src dst : Bytes) (first : Bool) : Framed (brpoplpushPass d src dst first) :=
  framed_brpoplpushPass d src dst first

/-! ## 4. otherwise the asyncio primitive parks the connection and pauses its parser -/

theorem blockingAsync_parks_and_pauses (c : Nat) (kind : String) (keys : List Bytes) (pass : Pass) (s : Sys)
    (hnone : (pass true s).1 = .ok none) (htx : ((pass true s).2.conn c).inTx = false)
    (hc : (pass true s).2.HasConn c) :
    let s1 := (pass true s).2
    let res := (blockingAsync c kind keys pass).run s
    res.1 = .ok none ∧ (res.2.conn c).paused = true ∧
    (res.2.conn c).parked = some { kind := kind, keys := keys, db := (s1.conn c).db, deadline := none, woken := false } ∧
    res.2.out = s1.out ∧ res.2.clocks = s1.clocks ∧ res.2.srv.dbs = s1.srv.dbs := by
  generalize hr : pass true s = res0 at hnone htx hc
  obtain ⟨r0, s1⟩ := res0
  simp only at hnone htx hc; subst hnone
  intro s1' res
  have e : res = _ := blockingAsync_parks c kind keys pass s s1 hr htx
  rw [e]
  have hconn := Sys.conn_updConn_same (s := s1) (c := c)
    (fun x => { x with paused := true, parked := some { kind := kind, keys := keys, db := (s1.conn c).db, deadline := none } })
    hc (fun _ => rfl)
  refine ⟨rfl, ?_, ?_, rfl, rfl, rfl⟩
  · exact congrArg Conn.paused hconn
  · exact congrArg Conn.parked hconn

/-- for a framed pass: no reply, no clock reading, relative to the state before the call -/
theorem blockingAsync_parks_and_pauses_framed (c : Nat) (kind : String) (keys : List Bytes) (pass : Pass)
    (hpass : Framed (pass true)) (s : Sys)
    (hnone : (pass true s).1 = .ok none) (htx : (s.conn c).inTx = false) (hc : s.HasConn c) :
    let res := (blockingAsync c kind keys pass).run s
    res.1 = .ok none ∧ (res.2.conn c).paused = true ∧
    (res.2.conn c).parked = some { kind := kind, keys := keys, db := (s.conn c).db, deadline := none, woken := false } ∧
    res.2.out = s.out ∧ res.2.clocks = s.clocks ∧ res.2.srv.dbs = (pass true s).2.srv.dbs := by
  have f := hpass.frame s
  obtain ⟨h1, h2, h3, h4, h5, h6⟩ := blockingAsync_parks_and_pauses c kind keys pass s hnone
    ((f.inTx c).trans htx) ((f.hasConn c).2 hc)
  intro res
  refine ⟨h1, h2, ?_, h4.trans f.out, h5.trans f.clocks, h6⟩
  rw [← f.db c]; exact h3

/-! ## 5. a paused connection only buffers what it is sent -/

theorem paused_buffers (mode : Mode) (c : Nat) (data : Bytes) (s : Sys)
    (hp : (s.conn c).paused = true) (hd : (s.conn c).dead = false) :
    (sendall mode c data).run s = ((), s.updConn c fun x => { x with buf := x.buf ++ data }) ∧
    ((sendall mode c data).run s).2.out = s.out ∧
    (((sendall mode c data).run s).2.conn c).buf = (s.conn c).buf ++ data ∧
    ((sendall mode c data).run s).2.srv.dbs = s.srv.dbs := by
  have e : (sendall mode c data).run s = _ := sendall_paused mode c data s hp hd
  rw [e]
  refine ⟨rfl, rfl, ?_, rfl⟩
  exact congrArg Conn.buf (Sys.conn_updConn_same (fun x => { x with buf := x.buf ++ data })
    (Sys.hasConn_of_paused hp) (fun _ => rfl))

theorem paused_drain_returns (mode : Mode) (c : Nat) (fuel : Nat) (s : Sys) (hp : (s.conn c).paused = true) :
    (drain mode c fuel).run s = ((), s) :=
  drain_paused mode c fuel s hp

/-! ## 6. the re-try task / the time-out: exactly one reply, before anything that was pipelined -/

theorem wakeConnAsync_one_reply (mode : Mode) (c : Nat) (s : Sys) (p : Parked)
    (hp : (s.conn c).parked = some p) (hcl : (s.conn c).closed = false) :
    let s1 := (parkedPass c p s).2
    ((parkedPass c p s).1 = .ok none ∧
      (wakeConnAsync mode c).run s = ((), s1.updConn c fun x => { x with parked := some { p with woken := false } }) ∧
      (((wakeConnAsync mode c).run s).2.conn c).parked = some { p with woken := false } ∧
      (((wakeConnAsync mode c).run s).2.conn c).paused = (s.conn c).paused ∧
      ((wakeConnAsync mode c).run s).2.out = s.out) ∨
    (∃ r s3, ((parkedPass c p s).1 = .ok (some r) ∨ ∃ e, (parkedPass c p s).1 = .error e ∧ r = .err (strBytes e)) ∧
      s3.out = (c, r) :: s.out ∧ (s3.conn c).parked = none ∧ (s3.conn c).paused = false ∧
      (s3.conn c).buf = (s.conn c).buf ∧ s3.srv.dbs = s1.srv.dbs ∧
      (wakeConnAsync mode c).run s = (drain mode c ((s3.conn c).buf.length + 1)).run s3) := by
  have f := (framed_parkedPass c p).frame s
  have hc : s.HasConn c := Sys.hasConn_of_parked hp
  have e : (wakeConnAsync mode c).run s = _ := wakeConnAsync_run mode c s p hp
  generalize hr : parkedPass c p s = res at f e
  obtain ⟨r0, s1⟩ := res
  have hc1 : s1.HasConn c := (f.hasConn c).2 hc
  have hcl1 : (s1.conn c).closed = false := (f.closed c).trans hcl
  intro s1'
  cases r0 with
  | error er =>
    right
    obtain ⟨g1, g2, g3, g4, g5, _⟩ := Sys.resumed_facts s1 c (.err (strBytes er)) hc1 hcl1
    exact ⟨_, s1.resumed c (.err (strBytes er)), .inr ⟨er, rfl, rfl⟩, by rw [g1, f.out], g2, g3,
      g4.trans (f.buf c), g5, e⟩
  | ok o =>
    cases o with
    | some r =>
      right
      obtain ⟨g1, g2, g3, g4, g5, _⟩ := Sys.resumed_facts s1 c r hc1 hcl1
      exact ⟨r, s1.resumed c r, .inl rfl, by rw [g1, f.out], g2, g3, g4.trans (f.buf c), g5, e⟩
    | none =>
      left
      have hconn := Sys.conn_updConn_same (s := s1) (c := c)
        (fun x => { x with parked := some { p with woken := false } }) hc1 (fun _ => rfl)
      simp only at e
      rw [e]
      exact ⟨rfl, rfl, congrArg Conn.parked hconn, (congrArg Conn.paused hconn).trans (f.paused c), f.out⟩

theorem timeoutConnAsync_one_reply (mode : Mode) (c : Nat) (s : Sys) (p : Parked)
    (hp : (s.conn c).parked = some p) (hcl : (s.conn c).closed = false) :
    ∃ s3, s3.out = (c, Reply.nil) :: s.out ∧ (s3.conn c).parked = none ∧ (s3.conn c).paused = false ∧
      (s3.conn c).buf = (s.conn c).buf ∧ s3.srv.dbs = s.srv.dbs ∧
      (timeoutConnAsync mode c).run s = (drain mode c ((s3.conn c).buf.length + 1)).run s3 := by
  obtain ⟨g1, g2, g3, g4, g5, _⟩ := Sys.resumed_facts s c .nil (Sys.hasConn_of_parked hp) hcl
  exact ⟨s.resumed c .nil, g1, g2, g3, g4, g5, timeoutConnAsync_run mode c s p hp⟩

/-- in the newest-first convention of `Sys.out`: the reply of the blocking pop precedes whatever the resumed parser
emits, provided `processCommand` only ever appends to `out` -/
theorem wakeConnAsync_reply_first (mode : Mode) (c : Nat) (s : Sys) (p : Parked)
    (hp : (s.conn c).parked = some p) (hcl : (s.conn c).closed = false)
    (hpc : ∀ fields (s : Sys), ∃ l, (processCommand mode c fields s).2.out = l ++ s.out)
    (hserved : (parkedPass c p s).1 ≠ .ok none) :
    ∃ r drainOut, ((wakeConnAsync mode c).run s).2.out = drainOut ++ [(c, r)] ++ s.out := by
  rcases wakeConnAsync_one_reply mode c s p hp hcl with ⟨h, _⟩ | ⟨r, s3, _, h1, _, _, _, _, h2⟩
  · exact absurd h hserved
  · obtain ⟨l, hl⟩ := drain_out_mono mode c hpc ((s3.conn c).buf.length + 1) s3
    refine ⟨r, l, ?_⟩
    rw [h2]
    show (drain mode c ((s3.conn c).buf.length + 1) s3).2.out = _
    rw [hl, h1]; simp

theorem timeoutConnAsync_reply_first (mode : Mode) (c : Nat) (s : Sys) (p : Parked)
    (hp : (s.conn c).parked = some p) (hcl : (s.conn c).closed = false)
    (hpc : ∀ fields (s : Sys), ∃ l, (processCommand mode c fields s).2.out = l ++ s.out) :
    ∃ drainOut, ((timeoutConnAsync mode c).run s).2.out = drainOut ++ [(c, Reply.nil)] ++ s.out := by
  obtain ⟨s3, h1, _, _, _, _, h2⟩ := timeoutConnAsync_one_reply mode c s p hp hcl
  obtain ⟨l, hl⟩ := drain_out_mono mode c hpc ((s3.conn c).buf.length + 1) s3
  refine ⟨l, ?_⟩
  rw [h2]
  show (drain mode c ((s3.conn c).buf.length + 1) s3).2.out = _
  rw [hl, h1]; simp

/-! ## 7. only the connection's own parser is suspended -/

theorem only_own_connection_suspends (c : Nat) (kind : String) (keys : List Bytes) (pass : Pass) (s : Sys)
    (c' : Nat) (hne : c' ≠ c) :
    ((blockingAsync c kind keys pass).run s).2.conn c' = (pass true s).2.conn c' :=
  blockingAsync_conn_other c kind keys pass s c' hne

/-- with a framed pass: every field of another connection except the notification flags is as before the call -/
theorem only_own_connection_suspends_framed (c : Nat) (kind : String) (keys : List Bytes) (pass : Pass)
    (hpass : Framed (pass true)) (s : Sys) (c' : Nat) (hne : c' ≠ c) :
    (((blockingAsync c kind keys pass).run s).2.conn c').core = (s.conn c').core ∧
    (((blockingAsync c kind keys pass).run s).2.conn c').paused = (s.conn c').paused ∧
    (((blockingAsync c kind keys pass).run s).2.conn c').buf = (s.conn c').buf := by
  have e := only_own_connection_suspends c kind keys pass s c' hne
  rw [e]
  exact ⟨(hpass.frame s).conn c', (hpass.frame s).paused c', (hpass.frame s).buf c'⟩

/-! ## non-vacuity -/

def c1 : Conn := { id := 1 }
def s0 : Sys := { srv := { conns := [c1, { id := 2 }] } }

/-- BLPOP on a missing key: the asyncio primitive parks and pauses connection 1 and leaves connection 2 alone -/
example :
    let r := (blockingAsync 1 "blpop" [[7]] (fun first => bpopPass 0 true first [[7]])).run s0
    (r.2.conn 1).paused = true ∧ (r.2.conn 1).parked.isSome = true ∧ (r.2.conn 2).paused = false ∧ r.2.out = [] := by
  decide

/-- the parked, paused connection: data sent meanwhile is buffered; the time-out answers nil and resumes the parser -/
def p1 : Parked := { kind := "blpop", keys := [[7]], db := 0, deadline := none }
def sP : Sys := { srv := { conns := [{ id := 1, paused := true, parked := some p1 }, { id := 2 }] } }

example : (((sendall {} 1 [42]).run sP).2.conn 1).buf = [42] ∧ ((sendall {} 1 [42]).run sP).2.out.length = 0 := by decide
example : (match ((timeoutConnAsync {} 1).run sP).2.out with | [(1, .nil)] => true | _ => false) = true ∧
    (((timeoutConnAsync {} 1).run sP).2.conn 1).paused = false := by decide
example : ((wakeConnAsync {} 1).run sP).2.out.length = 0 ∧ (((wakeConnAsync {} 1).run sP).2.conn 1).paused = true := by decide

/-- `GeT` is looked up as `get`: neither blocking nor EXEC -/
example : ∃ sig, lookupSig [71, 101, 84] = some sig ∧ sig.name ∉ ["blpop", "brpop", "brpoplpush"] ∧
    sig.name ≠ "exec" ∧ sig.name ∉ ["eval", "evalsha", "script"] := by
  have hcn : commandName [71, 101, 84] = some "get" := by simp [commandName, bytesStr, lowerByte]
  have hsw : ("get".startsWith "_") = false := by simp
  have hsig : lookupSig [71, 101, 84] =
      some ⟨"get", [.key (some .str) .unspecified], [], false, 1, 0, false⟩ := by
    simp only [lookupSig, hcn, hsw]
    simp [SigTable.find, SigTable.sigs]
    rfl
  exact ⟨_, hsig, by decide, by decide, by decide⟩

end FR.Props.C14
