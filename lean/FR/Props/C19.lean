import FR.Proofs.Script
/-!
# C19 — the script bridge: value conversion tables, argument check, the script gate, numkeys, the script cache

`replyToLua` = `_convert_redis_result`, `luaToReply nested` = `_convert_lua_result(…, nested)`,
`luaToArg` = `_convert_redis_arg`, `runGate` = the refusals checked by `_run_command`,
`evalBody` = the body of EVAL after argument parsing, `scriptBody` = EVAL / EVALSHA / SCRIPT.
`Special` abbreviates the type of the table of special bodies handed to the nested runner.
`s.cacheScript more sha src` = `s` with the remaining hints `more` and `src` cached under `sha`.
-/
namespace FR.Props.C19
open FR FR.M

/-! ## 1. redis → Lua -/

theorem conversion_table_to_lua :
    (∀ b, replyToLua (.bulk b) = .ok (.str b)) ∧
    (∀ n, replyToLua (.int n) = .ok (.int n)) ∧
    (∀ s, replyToLua (.status s) = .ok (.table [] [(strBytes "ok", .str s)])) ∧
    replyToLua .nil = .ok (.bool false) ∧
    (∀ e, replyToLua (.err e) = .error (bytesStr e)) ∧
    (∀ xs, replyToLua (.arr xs) = (repliesToLua xs).map (LuaVal.table · [])) ∧
    (∀ xs vs, repliesToLua xs = .ok vs ↔ xs.map replyToLua = vs.map .ok) ∧
    (∀ xs vs, repliesToLua xs = .ok vs ↔
      vs.length = xs.length ∧ ∀ (i : Nat) (h₁ : i < xs.length) (h₂ : i < vs.length), replyToLua xs[i] = .ok vs[i]) :=
  ⟨replyToLua_bulk, replyToLua_int, replyToLua_status, replyToLua_nil, replyToLua_err, replyToLua_arr,
   repliesToLua_ok_iff, repliesToLua_ok_iff_get⟩

/-- an error reply anywhere inside an array makes the conversion raise: the value exists iff no error occurs -/
theorem to_lua_defined_iff (r : Reply) : (∃ v, replyToLua r = .ok v) ↔ r.errFree = true :=
  ⟨fun ⟨v, h⟩ => errFree_of_ok r v h, ok_of_errFree r⟩

/-- a nil reply travels as `false`, so the value handed to Lua holds no Lua nil anywhere and none of its arrays
is cut short (`LuaVal.table arr _` is the maximal nil-free array prefix the host reports; the cut at the first nil
is made by the host's table, before the value reaches `luaToReply`) -/
theorem to_lua_nil_free (r : Reply) (v : LuaVal) (h : replyToLua r = .ok v) : v.nilFree = true :=
  nilFree_of_replyToLua r v h

/-! ## 2. Lua → redis -/

theorem conversion_table_to_reply (nested : Bool) :
    luaToReply nested .nil = .ok .nil ∧
    luaToReply nested (.bool false) = .ok .nil ∧
    luaToReply nested (.bool true) = .ok (.int 1) ∧
    (∀ n, luaToReply nested (.int n) = .ok (.int n)) ∧
    (∀ d, luaToReply nested (.flt d) = .ok (.int d.truncToInt)) ∧
    (∀ b, luaToReply nested (.str b) = .ok (.bulk b)) ∧
    (∀ b, luaToReply nested (.pystr b) = .ok (.bulk b)) ∧
    -- {ok = m}
    (∀ arr hash m, hash.lookup (strBytes "ok") = some (.str m) →
      luaToReply nested (.table arr hash) = .ok (.status m)) ∧
    -- {err = m} without an "ok" field
    (∀ arr hash m, hash.lookup (strBytes "ok") = none → hash.lookup (strBytes "err") = some (.str m) →
      luaToReply nested (.table arr hash) = if nested then .ok (.err m) else .error (bytesStr m)) ∧
    -- "ok" / "err" holding nil, a boolean or a number
    (∀ arr hash v, hash.lookup (strBytes "ok") = some v → v.isPlainNonString = true →
      luaToReply nested (.table arr hash) = .error Msgs.LUA_WRONG_NUMBER_ARGS_MSG) ∧
    (∀ arr hash v, hash.lookup (strBytes "ok") = none → hash.lookup (strBytes "err") = some v →
      v.isPlainNonString = true →
      luaToReply nested (.table arr hash) = .error Msgs.LUA_WRONG_NUMBER_ARGS_MSG) ∧
    -- a table without ok / err: the array part, element-wise (nested)
    (∀ arr hash, hash.lookup (strBytes "ok") = none → hash.lookup (strBytes "err") = none →
      luaToReply nested (.table arr hash) = (arr.mapM (luaToReplyF 199 true)).map .arr) := by
  refine ⟨rfl, rfl, rfl, fun _ => rfl, fun _ => rfl, fun _ => rfl, fun _ => rfl, ?_, ?_, ?_, ?_, ?_⟩
  · intro arr hash m h
    exact luaToReplyF_table_ok h rfl
  · intro arr hash m hok h
    exact luaToReplyF_table_err hok h rfl
  · intro arr hash v h hv
    obtain ⟨r, hr, hb⟩ := luaToReplyF_nonString (f := 198) hv
    exact luaToReplyF_table_ok_bad h hr hb
  · intro arr hash v hok h hv
    obtain ⟨r, hr, hb⟩ := luaToReplyF_nonString (f := 198) hv
    exact luaToReplyF_table_err_bad hok h hr hb
  · intro arr hash hok herr
    exact luaToReplyF_table_plain hok herr

/-- the general row for "ok" / "err": whatever the field converts to must be a bulk string
(a `pystr` qualifies, a nested table never does) -/
theorem status_field_general (nested : Bool) (arr : List LuaVal) (hash : List (Bytes × LuaVal)) (v : LuaVal) (r : Reply)
    (hv : luaToReplyF 199 true v = .ok r) :
    (hash.lookup (strBytes "ok") = some v →
      luaToReply nested (.table arr hash) =
        match r with | .bulk m => .ok (.status m) | _ => .error Msgs.LUA_WRONG_NUMBER_ARGS_MSG) ∧
    (hash.lookup (strBytes "ok") = none → hash.lookup (strBytes "err") = some v →
      luaToReply nested (.table arr hash) =
        match r with
        | .bulk m => if nested then .ok (.err m) else .error (bytesStr m)
        | _ => .error Msgs.LUA_WRONG_NUMBER_ARGS_MSG) := by
  constructor
  · intro h
    cases r with
    | bulk m => exact luaToReplyF_table_ok h hv
    | nil | int _ | status _ | err _ | arr _ => exact luaToReplyF_table_ok_bad h hv (fun m hm => by cases hm)
  · intro hok h
    cases r with
    | bulk m => exact luaToReplyF_table_err hok h hv
    | nil | int _ | status _ | err _ | arr _ => exact luaToReplyF_table_err_bad hok h hv (fun m hm => by cases hm)

/-! ## 3. a reply handed to a script and returned unchanged comes back as the same reply -/

/-- fuel-parametric form; `Reply.depth`: scalars 1, a status 2 (it travels as `{ok=…}`), an array 1 + its deepest element -/
theorem roundtrip_reply_fuel (r : Reply) (v : LuaVal) (fuel : Nat) (nested : Bool)
    (h : replyToLua r = .ok v) (hd : r.depth ≤ fuel) : luaToReplyF fuel nested v = .ok r :=
  roundtripF r v fuel nested h hd

theorem roundtrip_reply (r : Reply) (v : LuaVal) (nested : Bool)
    (h : replyToLua r = .ok v) (hd : r.depth ≤ 200) : luaToReply nested v = .ok r :=
  roundtripF r v 200 nested h hd

/-- stated from the reply alone -/
theorem roundtrip_reply_errFree (r : Reply) (nested : Bool) (he : r.errFree = true) (hd : r.depth ≤ 200) :
    ∃ v, replyToLua r = .ok v ∧ luaToReply nested v = .ok r := by
  obtain ⟨v, hv⟩ := ok_of_errFree r he
  exact ⟨v, hv, roundtripF r v 200 nested hv hd⟩

/-! ## 5. arguments must be strings or numbers -/

theorem luaToArg_spec (version : Nat) :
    (∀ b, luaToArg version (.str b) = .ok b) ∧
    (∀ n, luaToArg version (.int n) = .ok (strBytes (Dbl.fmtG17 (Dbl.ofInt n)))) ∧
    (∀ d, luaToArg version (.flt d) = .ok (strBytes (Dbl.fmtG17 d))) ∧
    (∀ v, (∀ b, v ≠ .str b) → (∀ n, v ≠ .int n) → (∀ d, v ≠ .flt d) →
      luaToArg version v =
        .error (if version < 7 then Msgs.LUA_COMMAND_ARG_MSG6 else Msgs.LUA_COMMAND_ARG_MSG)) ∧
    luaToArg version .nil = .error (if version < 7 then Msgs.LUA_COMMAND_ARG_MSG6 else Msgs.LUA_COMMAND_ARG_MSG) ∧
    (∀ b, luaToArg version (.bool b) =
      .error (if version < 7 then Msgs.LUA_COMMAND_ARG_MSG6 else Msgs.LUA_COMMAND_ARG_MSG)) ∧
    (∀ b, luaToArg version (.pystr b) =
      .error (if version < 7 then Msgs.LUA_COMMAND_ARG_MSG6 else Msgs.LUA_COMMAND_ARG_MSG)) ∧
    (∀ a h, luaToArg version (.table a h) =
      .error (if version < 7 then Msgs.LUA_COMMAND_ARG_MSG6 else Msgs.LUA_COMMAND_ARG_MSG)) :=
  ⟨fun _ => rfl, fun _ => rfl, fun _ => rfl, luaToArg_other version, rfl, fun _ => rfl, fun _ => rfl, fun _ _ => rfl⟩

/-! ## 6. commands Redis forbids in scripts -/

theorem noscript_refused :
    (∀ sig subscribed, sig.noScript = true → runGate sig true subscribed = some Msgs.COMMAND_IN_SCRIPT_MSG) ∧
    (∀ sig, runGate sig false false = none) ∧
    (∀ sig, sig.noScript = false → runGate sig true false = none) ∧
    (∀ sig ∈ SigTable.sigs, sig.name ∈
        ["multi","exec","discard","watch","unwatch","eval","evalsha","script","subscribe","psubscribe","unsubscribe",
         "punsubscribe","blpop","brpop","brpoplpush","save","bgsave"] → sig.noScript = true) ∧
    (∀ sig ∈ SigTable.sigs, (sig.noScript = true ↔ sig.name ∈ forbiddenInScripts)) := by
  refine ⟨fun sig sub h => runGate_noScript sig sub h, runGate_direct, ?_, ?_, sigs_noScript_iff⟩
  · intro sig h
    simp [runGate, h]
  · intro sig hs hn
    exact ((sigs_noScript_iff sig hs).2 hn)

/-- inside `_run_command(…, from_script=True)`: the subscriber-mode check comes first (a subscribed connection issuing a
command outside the allow-list gets the context error and nothing changes); otherwise a forbidden command that passes its
argument checks is answered with the refusal, its body is never consulted (the right-hand side does not mention
`special`), and none of the forbidden commands is a regular (database-only) command -/
theorem noscript_refused_run (special : Special) (mode : Mode) (c : Nat) (sig : Sig) (raw : List Bytes) (s : Sys)
    (hs : sig ∈ SigTable.sigs) (h : sig.noScript = true) :
    runWith special mode c sig raw true s =
      if s.refuses c sig then (some refusalReply, s) else
      let d := (s.conn c).db
      let o := sig.apply raw ⟨s.srv.dbs.getD d [], s.srv.time⟩
      (some (match o.2 with
        | .error e => .err (strBytes e)
        | .ok (.short r) => r
        | .ok (.ok _ _) => .err (strBytes Msgs.COMMAND_IN_SCRIPT_MSG)),
       { s with srv := { s.srv with dbs := s.srv.dbs.set d o.1.dict } }) := by
  cases hr : s.refuses c sig with
  | true => rw [runWith_refused special mode c sig raw true hr]; rfl
  | false =>
    rw [runWith_noScript_run special mode c sig raw s h
      (Option.isNone_iff_eq_none.mp (noScript_not_regular sig hs h)) hr]
    rfl

/-- both branches occur: EVAL from a script on an ordinary connection is past the subscriber-mode check, on a
subscribed connection it is not; SUBSCRIBE is on the allow-list, so only the script refusal applies -/
example : ∃ (sig : Sig) (s : Sys), SigTable.find "eval" = some sig ∧ sig.noScript = true ∧ s.refuses 7 sig = false :=
  ⟨_, { srv := { conns := [{ id := 7 }] } }, rfl, rfl, by decide⟩
example : ∃ (sig : Sig) (s : Sys), SigTable.find "eval" = some sig ∧ sig.noScript = true ∧ s.refuses 7 sig = true :=
  ⟨_, { srv := { conns := [{ id := 7, pubsub := 1 }] } }, rfl, rfl, by decide⟩
example : ∃ (sig : Sig) (s : Sys), SigTable.find "subscribe" = some sig ∧ sig.noScript = true ∧ s.refuses 7 sig = false :=
  ⟨_, { srv := { conns := [{ id := 7, pubsub := 1 }] } }, rfl, rfl, by decide⟩

/-! ## 7. EVAL validates numkeys -/

theorem eval_numkeys_validation (special : Special) (mode : Mode) (c : Nat) (script : Bytes) (numkeys : Int)
    (rest : List Bytes) (sha : Bytes) (more : List (List Bytes)) (s : Sys)
    (h : s.picks = [strBytes "sha", sha] :: more) :
    (numkeys > rest.length →
      (evalBody special mode c script numkeys rest).run s =
        (.error Msgs.TOO_MANY_KEYS_MSG, { s with picks := more })) ∧
    (numkeys < 0 →
      (evalBody special mode c script numkeys rest).run s =
        (.error Msgs.NEGATIVE_KEYS_MSG, { s with picks := more })) ∧
    (numkeys > rest.length ∨ numkeys < 0 →
      ((evalBody special mode c script numkeys rest).run s).2.srv = s.srv) ∧
    (0 ≤ numkeys → numkeys ≤ rest.length →
      (evalBody special mode c script numkeys rest).run s =
        (runTrace special mode c sha 100000).run (s.cacheScript more sha script) ∧
      (s.cacheScript more sha script).srv.scripts.lookup sha = some script ∧
      (∀ sha', sha' ≠ sha → (s.cacheScript more sha script).srv.scripts.lookup sha' = s.srv.scripts.lookup sha')) := by
  have hr := evalBody_run special mode c script numkeys rest sha more s h
  refine ⟨?_, ?_, ?_, ?_⟩
  · intro h1; rw [hr, if_pos h1]
  · intro h2
    have h1 : ¬ numkeys > (rest.length : Int) := by omega
    rw [hr, if_neg h1, if_pos h2]
  · intro h12
    rw [hr]
    split
    · rfl
    · rw [if_pos (by omega)]
  · intro h0 h1
    refine ⟨?_, lookup_dictSet_self _ _ _, fun sha' hne => lookup_dictSet_ne _ _ _ _ hne⟩
    rw [hr, if_neg (by omega), if_neg (by omega)]

/-! ## 8. EVALSHA, SCRIPT LOAD, SCRIPT EXISTS and SCRIPT FLUSH agree on which scripts are cached -/

theorem cache_agreement (special : Special) (mode : Mode) (c : Nat) (s : Sys) :
    -- SCRIPT LOAD src (sub-command in any case), sha hint `h`
    (∀ sub src h more, casematch sub "load" = true → s.picks = [strBytes "sha", h] :: more →
      (scriptBody special mode c "script" [.raw sub, .raw src]).run s = (.ok (.bulk h), s.cacheScript more h src) ∧
      (s.cacheScript more h src).srv.scripts.lookup h = some src ∧
      (∀ h', h' ≠ h → (s.cacheScript more h src).srv.scripts.lookup h' = s.srv.scripts.lookup h')) ∧
    -- SCRIPT EXISTS h1 … hn
    (∀ sub hs, casematch sub "exists" = true → (s.srv.version ≥ 7 → hs ≠ []) →
      (scriptBody special mode c "script" (.raw sub :: hs.map .raw)).run s =
        (.ok (.arr (hs.map fun h => .int (if (s.srv.scripts.lookup h).isSome then 1 else 0))), s)) ∧
    -- SCRIPT FLUSH [SYNC|ASYNC]
    (∀ sub raw, casematch sub "flush" = true → flushArgOk raw →
      (scriptBody special mode c "script" (.raw sub :: raw.map .raw)).run s =
        (.ok .ok, { s with srv := { s.srv with scripts := [] } })) ∧
    -- … after which EXISTS answers 0 for everything and EVALSHA answers NOSCRIPT
    (∀ sub hs, casematch sub "exists" = true → (s.srv.version ≥ 7 → hs ≠ []) →
      (scriptBody special mode c "script" (.raw sub :: hs.map .raw)).run { s with srv := { s.srv with scripts := [] } } =
        (.ok (.arr (hs.map fun _ => .int 0)), { s with srv := { s.srv with scripts := [] } })) ∧
    (∀ sha numkeys rest,
      (scriptBody special mode c "evalsha" (.raw sha :: .int numkeys :: rest)).run
          { s with srv := { s.srv with scripts := [] } } =
        (.error Msgs.NO_MATCHING_SCRIPT_MSG, { s with srv := { s.srv with scripts := [] } })) ∧
    -- EVALSHA of an uncached sha: NOSCRIPT, nothing changes
    (∀ sha numkeys rest, s.srv.scripts.lookup sha = none →
      (scriptBody special mode c "evalsha" (.raw sha :: .int numkeys :: rest)).run s =
        (.error Msgs.NO_MATCHING_SCRIPT_MSG, s)) ∧
    -- EVALSHA of a cached sha is EVAL of the cached source
    (∀ sha src numkeys rest, s.srv.scripts.lookup sha = some src →
      (scriptBody special mode c "evalsha" (.raw sha :: .int numkeys :: rest)).run s =
        (scriptBody special mode c "eval" (.raw src :: .int numkeys :: rest)).run s ∧
      (scriptBody special mode c "eval" (.raw src :: .int numkeys :: rest)).run s =
        (evalBody special mode c src numkeys (Cmd.rawArgs rest)).run s) := by
  refine ⟨?_, ?_, ?_, ?_, ?_, ?_, ?_⟩
  · intro sub src h more hsub hp
    exact ⟨scriptBody_load_run special mode c sub src h more s hsub hp, lookup_dictSet_self _ _ _,
      fun h' hne => lookup_dictSet_ne _ _ _ _ hne⟩
  · intro sub hs hsub hv
    exact scriptBody_exists_run special mode c sub hs s hsub hv
  · intro sub raw hsub hraw
    exact scriptBody_flush_run special mode c sub raw s hsub hraw
  · intro sub hs hsub hv
    exact scriptBody_exists_run special mode c sub hs _ hsub hv
  · intro sha numkeys rest
    exact scriptBody_evalsha_run special mode c sha numkeys rest _
  · intro sha numkeys rest hl
    rw [scriptBody_evalsha_run, hl]
  · intro sha src numkeys rest hl
    rw [scriptBody_evalsha_run, hl, scriptBody_eval]
    exact ⟨rfl, rfl⟩

/-- LOAD, EXISTS and EVALSHA agree: what LOAD stored under `h` is reported by EXISTS and run by EVALSHA -/
theorem load_then_exists_evalsha (special : Special) (mode : Mode) (c : Nat) (s : Sys) (sub src h : Bytes)
    (more : List (List Bytes)) (hsub : casematch sub "load" = true) (hp : s.picks = [strBytes "sha", h] :: more) :
    let s' := ((scriptBody special mode c "script" [.raw sub, .raw src]).run s).2
    (∀ sub', casematch sub' "exists" = true →
      (scriptBody special mode c "script" [.raw sub', .raw h]).run s' = (.ok (.arr [.int 1]), s')) ∧
    (∀ numkeys rest, (scriptBody special mode c "evalsha" (.raw h :: .int numkeys :: rest)).run s' =
      (evalBody special mode c src numkeys (Cmd.rawArgs rest)).run s') := by
  intro s'
  have hs' : s' = s.cacheScript more h src := by
    show ((scriptBody special mode c "script" [.raw sub, .raw src]).run s).2 = _
    rw [scriptBody_load_run special mode c sub src h more s hsub hp]
  have hl : s'.srv.scripts.lookup h = some src := by rw [hs']; exact lookup_dictSet_self _ _ _
  constructor
  · intro sub' hsub'
    have := scriptBody_exists_run special mode c sub' [h] s' hsub' (fun _ => by simp)
    simpa [hl] using this
  · intro numkeys rest
    rw [scriptBody_evalsha_run, hl]

/-! ## 4. the textual codec of Lua values used by the hints

`v.fltOk`: every float inside `v` is in the representation `Dbl.ofBits` produces (`Dbl.ofBits d.toBits = d`);
the model's `Dbl` has several representations of one IEEE value (`.fin false 2 (-1075)` and `.fin false 1 (-1074)`),
and for those the codec returns the canonical one (`hint_codec_flt`).  Strings and keys are arbitrary bytes. -/

theorem hint_codec_roundtrip (v : LuaVal) (h : v.fltOk) : LuaVal.ofBytes (LuaVal.ser v) = some v :=
  ofBytes_ser v h

/-- float-free values: no side condition -/
theorem hint_codec_roundtrip_noflt (v : LuaVal) (h : v.noFlt = true) : LuaVal.ofBytes (LuaVal.ser v) = some v :=
  ofBytes_ser v (fltOk_of_noFlt v h)

/-- a float comes back as the canonical representation of its bit pattern -/
theorem hint_codec_flt (d : Dbl) : LuaVal.ofBytes (LuaVal.ser (.flt d)) = some (.flt (Dbl.ofBits d.toBits)) :=
  ofBytes_ser_flt d

/-- the encoding is self-delimiting: the parser reads exactly one value off the front of any input, with any fuel
that is at least the length of the encoding -/
theorem hint_codec_prefix (v : LuaVal) (h : v.fltOk) (fuel : Nat) (rest : Bytes) (hf : (LuaVal.ser v).length ≤ fuel) :
    LuaVal.parse fuel (LuaVal.ser v ++ rest) = some (v, rest) :=
  parse_ser v h fuel rest hf

/-! ## non-vacuity -/

example : (LuaVal.table [.flt (Dbl.ofDecimal true 25 (-1)), .flt (.inf true), .flt .nan, .flt (Dbl.ofInt 0),
    .str [0, 59, 255], .table [] [([], .nil), ([61, 44], .bool true)]] [([125], .int (-7))]).fltOk := by
  simp only [LuaVal.fltOk, LuaVal.fltOkL, LuaVal.fltOkH]; decide

/-- the excluded corner: a non-canonical float does not survive the codec -/
example : LuaVal.ofBytes (LuaVal.ser (.flt (.fin false 2 (-1075)))) = some (.flt (.fin false 2 (-1074))) := by
  rw [hint_codec_flt]
  exact congrArg (fun d => some (LuaVal.flt d)) (by decide)

example : luaToReply false (.table [.int 1, .flt (Dbl.ofDecimal false 37 (-1)), .str [120]] []) =
    .ok (.arr [.int 1, .int 3, .bulk [120]]) := by rfl

example : (Dbl.ofDecimal true 25 (-1)).truncToInt = -2 := by rfl

example : replyToLua (.arr [.status [79, 75], .nil, .bulk [97], .arr [.int 5]]) =
    .ok (.table [.table [] [(strBytes "ok", .str [79, 75])], .bool false, .str [97], .table [.int 5] []] []) := by rfl

example : luaToReply true (.table [.table [] [(strBytes "ok", .str [79, 75])], .bool false, .str [97], .table [.int 5] []] [])
    = .ok (.arr [.status [79, 75], .nil, .bulk [97], .arr [.int 5]]) :=
  roundtripF _ _ 200 true rfl (by decide)

example : replyToLua (.arr [.int 1, .arr [.err [120]]]) = .error "x" := by rfl

example : luaToReply true (.table [] [(strBytes "err", .str [120])]) = .ok (.err [120]) ∧
    luaToReply false (.table [] [(strBytes "err", .str [120])]) = .error "x" := by
  have h1 : List.lookup (strBytes "ok") [(strBytes "err", LuaVal.str [120])] = none := by
    simp [List.lookup, strBytes_eq]
    decide
  have h2 : List.lookup (strBytes "err") [(strBytes "err", LuaVal.str [120])] = some (.str [120]) := by
    simp [List.lookup]
  exact ⟨luaToReplyF_table_err (f := 199) h1 h2 rfl, luaToReplyF_table_err (f := 199) (nested := false) h1 h2 rfl⟩

example : luaToReply false (.table [.int 1, .nil, .int 3] []) = .ok (.arr [.int 1, .nil, .int 3]) := by rfl

example : luaToArg 7 (.bool true) = .error Msgs.LUA_COMMAND_ARG_MSG ∧ luaToArg 6 .nil = .error Msgs.LUA_COMMAND_ARG_MSG6 ∧
    luaToArg 7 (.str [97]) = .ok [97] := ⟨rfl, rfl, rfl⟩

example : (SigTable.find "eval").map (fun sig => runGate sig true false) = some (some Msgs.COMMAND_IN_SCRIPT_MSG) ∧
    (SigTable.find "get").map (fun sig => runGate sig true false) = some none := by decide

end FR.Props.C19
