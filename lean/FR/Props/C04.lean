import FR.Proofs.Parser
/-!
# C04 — the request parser: binary safety, prefix stability, chunk-insensitivity
-/
namespace FR
namespace C04

/-- Binary safety: whatever bytes the fields contain (CR, LF, NUL, nothing at all), the encoded request
parses back to exactly those fields and leaves the following bytes untouched. -/
theorem tryParse_encode (fields : List Bytes) (rest : Bytes) :
    tryParse (encodeRequest fields ++ rest) = some (fields, rest) :=
  tryParse_encode' fields rest

/-- A complete request is not re-interpreted when more bytes arrive. -/
theorem tryParse_prefix_stable (buf x r : Bytes) (fs : List Bytes)
    (h : tryParse buf = some (fs, r)) : tryParse (buf ++ x) = some (fs, r ++ x) :=
  tryParse_append x h

/-- Each successful parse consumes at least one byte. -/
theorem tryParse_progress (buf r : Bytes) (fs : List Bytes) (h : tryParse buf = some (fs, r)) :
    r.length < buf.length :=
  tryParse_length_lt h

/-- A pipelined stream of encoded requests parses to exactly that list of requests. -/
theorem parseAll_requests (reqs : List (List Bytes)) (fuel : Nat) (hf : reqs.length ≤ fuel) :
    parseAll fuel ((reqs.map encodeRequest).flatten) = (reqs, []) := by
  have h := parseAll_encode_append reqs [] (fuel - reqs.length)
  rw [show reqs.length + (fuel - reqs.length) = fuel by omega, parseAll_nil] at h
  simpa [encodeStream] using h

/-- … and whatever follows the last complete request is handed back untouched
(`tail` here is anything that does not start with a complete request). -/
theorem parseAll_requests_tail (reqs : List (List Bytes)) (tail : Bytes) (fuel : Nat)
    (hf : reqs.length ≤ fuel) (ht : tryParse tail = none) :
    parseAll fuel ((reqs.map encodeRequest).flatten ++ tail) = (reqs, tail) := by
  have h := parseAll_encode_append reqs tail (fuel - reqs.length)
  rw [show reqs.length + (fuel - reqs.length) = fuel by omega] at h
  have : parseAll (fuel - reqs.length) tail = ([], tail) := by
    cases (fuel - reqs.length) with
    | zero => rfl
    | succ k => rw [parseAll, ht]
  rw [this] at h
  simpa [encodeStream] using h

/-- With `buf.length + 1` fuel the parse runs to exhaustion: no complete request is left behind. -/
theorem parseAll_exhaustive (buf : Bytes) (fuel : Nat) (h : buf.length < fuel) :
    tryParse (parseAll fuel buf).2 = none :=
  parseAll_exhausted fuel buf h

/-- Chunk-insensitivity for ARBITRARY byte streams: parsing `a`, then continuing on the left-over
followed by `b`, gives the same requests and the same left-over as parsing `a ++ b` in one go. -/
theorem parseAll_append_general (a b : Bytes) (fuel1 fuel2 : Nat) :
    parseAll ((parseAll fuel1 a).1.length + fuel2) (a ++ b) =
      ((parseAll fuel1 a).1 ++ (parseAll fuel2 ((parseAll fuel1 a).2 ++ b)).1,
        (parseAll fuel2 ((parseAll fuel1 a).2 ++ b)).2) :=
  parseAll_append_aux fuel1 a b fuel2

/-- Chunking theorem: for any split `a ++ b` of the encoding of `reqs`, parsing `a` (with any fuel)
and then continuing with `remaining ++ b` yields exactly `reqs` and an empty buffer. -/
theorem parseAll_append (reqs : List (List Bytes)) (a b : Bytes)
    (hsplit : a ++ b = (reqs.map encodeRequest).flatten) (fuel1 fuel2 : Nat)
    (hf : reqs.length ≤ fuel2) :
    (parseAll fuel1 a).1 ++ (parseAll fuel2 ((parseAll fuel1 a).2 ++ b)).1 = reqs ∧
      (parseAll fuel2 ((parseAll fuel1 a).2 ++ b)).2 = [] := by
  have h := parseAll_append_aux fuel1 a b fuel2
  rw [hsplit, parseAll_requests reqs _ (by omega)] at h
  simp only [Prod.mk.injEq] at h
  exact ⟨h.1.symm, h.2.symm⟩

/-- the same, phrased against the one-shot parse -/
theorem parseAll_append_eq (reqs : List (List Bytes)) (a b : Bytes)
    (hsplit : a ++ b = (reqs.map encodeRequest).flatten) (fuel fuel1 fuel2 : Nat)
    (hf : reqs.length ≤ fuel) (hf2 : reqs.length ≤ fuel2) :
    ((parseAll fuel1 a).1 ++ (parseAll fuel2 ((parseAll fuel1 a).2 ++ b)).1,
      (parseAll fuel2 ((parseAll fuel1 a).2 ++ b)).2) = parseAll fuel (a ++ b) := by
  obtain ⟨h1, h2⟩ := parseAll_append reqs a b hsplit fuel1 fuel2 hf2
  rw [hsplit, parseAll_requests reqs fuel hf, h1, h2]

/-! ## the same at the `drain` / `sendall` level — CONDITIONAL

`BufIndependent mode c` (defined in `FR/Proofs/Parser.lean`) says that `processCommand mode c fields`
commutes with overwriting connection `c`'s input buffer, i.e. that command processing neither reads nor
writes `Conn.buf`.  It is a HYPOTHESIS here: it is not proved for the model (it needs a non-interference
argument through every command body). -/

/-- Draining `buf ++ b` is draining `buf`, appending `b`, and draining again (any sufficient fuels). -/
theorem drain_append_conditional (mode : Mode) (c : Nat) (hNI : BufIndependent mode c) (b : Bytes)
    (fR : Nat) (R : Sys) (fL f2 : Nat) (hR : (connOf R c).buf.length < fR)
    (hL : (connOf R c).buf.length + b.length < fL)
    (h2 : (connOf ((drain mode c fR).run R).2 c).buf.length + b.length < f2) :
    (drain mode c fL).run (appendBuf c b R) =
      (drain mode c f2).run (appendBuf c b ((drain mode c fR).run R).2) :=
  drain_append hNI b fR R fL f2 hR hL h2

/-- `sendall a; sendall b = sendall (a ++ b)` on every state, for ANY split of ANY byte stream, provided
the connection is still alive after the first chunk (a dead connection makes the second `sendall`
raise instead of buffering). -/
theorem sendall_append_conditional (mode : Mode) (c : Nat) (hNI : BufIndependent mode c) (a b : Bytes)
    (s : Sys) (halive : (connOf ((sendall mode c a).run s).2 c).dead = false) :
    (do sendall mode c a; sendall mode c b : M Unit).run s = (sendall mode c (a ++ b)).run s :=
  sendall_append_aux hNI a b s halive

/-! ## non-vacuity -/

/-- `SET "\r\n" ""`, spelled out byte by byte -/
example : encodeRequest [[115, 101, 116], [13, 10], []] =
    [42, 51, 13, 10, 36, 51, 13, 10, 115, 101, 116, 13, 10, 36, 50, 13, 10, 13, 10, 13, 10,
      36, 48, 13, 10, 13, 10] := by
  simp [encodeRequest, natDigits_lt, digitByte]

example : tryParse [42, 51, 13, 10, 36, 51, 13, 10, 115, 101, 116, 13, 10, 36, 50, 13, 10, 13, 10, 13, 10,
      36, 48, 13, 10, 13, 10] = some ([[115, 101, 116], [13, 10], []], []) := by rfl

example : tryParse (encodeRequest [[115, 101, 116], [13, 10], []]) =
    some ([[115, 101, 116], [13, 10], []], []) := by
  simpa using tryParse_encode [[115, 101, 116], [13, 10], []] []

/-- empty request `*0\r\n` -/
example : tryParse [42, 48, 13, 10, 7] = some ([], [7]) := by rfl
/-- incomplete payload: nothing is consumed -/
example : tryParse [42, 49, 13, 10, 36, 51, 13, 10, 115, 101] = none := by rfl
/-- non-canonical length `$03` is not a header -/
example : tryParse [42, 49, 13, 10, 36, 48, 51, 13, 10, 115, 101, 116, 13, 10] = none := by rfl
/-- two pipelined `PING`s split in the middle of the second header -/
example :
    let a : Bytes := [42, 49, 13, 10, 36, 52, 13, 10, 112, 105, 110, 103, 13, 10, 42, 49, 13]
    let b : Bytes := [10, 36, 52, 13, 10, 112, 105, 110, 103, 13, 10]
    parseAll 5 a = ([[[112, 105, 110, 103]]], [42, 49, 13]) ∧
    parseAll 5 ((parseAll 5 a).2 ++ b) = ([[[112, 105, 110, 103]]], []) ∧
    parseAll 5 (a ++ b) = ([[[112, 105, 110, 103]], [[112, 105, 110, 103]]], []) := by
  refine ⟨by rfl, by rfl, by rfl⟩

end C04
end FR
